//! mt-harness: the "from another thread" clause of C01 under REAL concurrency (std build only).
//! Every child that answers Pending hands a clone of the waker it was given to a second OS thread, which invokes it some time later - before
//! the child's poll has returned, while another child is being polled, between polls, or when the combinator has long returned Pending.
//! The main thread is a wake-driven executor: it polls, and after a Pending it polls again only when its own (parent) waker has been invoked.
//! A lost wake-up is a hang: the executor gives up after HANG_MS, prints HANG and the process stops.  Results do not depend on the interleaving for
//! join / merge (as a multiset) / zip / chain / the groups (as multisets), so they are compared with the expectation computed from the scripts.
//! There is no model here and nothing is replayable exactly: this is support for the lock-window assumption of the model (DESIGN 4), run in
//! the thorough tier of C01.
//! case:  ID COMB CONT n=N script;script;... | seed=S      step := P | Rv | Iv | E        output:  ID ok <result> | ID HANG .. | ID PANIC
use futures_concurrency::prelude::*;
use futures_concurrency::{future::FutureGroup, stream::StreamGroup};
use futures_core::Stream;
use std::future::Future;
use std::io::{BufRead, Write};
use std::panic::{catch_unwind, AssertUnwindSafe};
use std::pin::Pin;
use std::sync::atomic::{AtomicBool, AtomicU64, Ordering};
use std::sync::mpsc::{channel, Sender};
use std::sync::{Arc, Condvar, Mutex};
use std::task::{Context, Poll, Wake, Waker};
use std::time::{Duration, Instant};

const HANG_MS: u64 = 20_000;

#[derive(Clone, Copy, Debug)]
enum Ans { Pend, Ready(u64), Item(u64), End }
fn parse_step(s: &str) -> Ans {
    let num = || s[1..].parse().unwrap();
    match s.as_bytes()[0] { b'P' => Ans::Pend, b'R' => Ans::Ready(num()), b'I' => Ans::Item(num()), b'E' => Ans::End, _ => panic!("bad step {s}") }
}
/// the executor's waker: a flag and a condition variable
struct Task { woken: Mutex<bool>, cv: Condvar, wakes: AtomicU64 }
impl Wake for Task {
    fn wake(self: Arc<Self>) { self.wake_by_ref() }
    fn wake_by_ref(self: &Arc<Self>) { self.wakes.fetch_add(1, Ordering::Relaxed); *self.woken.lock().unwrap() = true; self.cv.notify_all(); }
}
struct Child { steps: Vec<Ans>, k: usize, tx: Sender<Waker>, done: bool }
impl Child {
    fn step(&mut self, cx: &mut Context<'_>) -> Ans {
        assert!(!self.done, "child polled after it completed");
        let a = if self.k < self.steps.len() { self.steps[self.k] } else { Ans::Pend };
        if self.k < self.steps.len() { self.k += 1; }
        match a {
            // every Pending answer is followed, some time later and from the other thread, by a wake-up through the waker of this very poll
            Ans::Pend => { let _ = self.tx.send(cx.waker().clone()); }
            Ans::Ready(_) | Ans::End => self.done = true,
            Ans::Item(_) => {}
        }
        a
    }
}
struct Fut(Child);
impl Future for Fut { type Output = u64;
    fn poll(mut self: Pin<&mut Self>, cx: &mut Context<'_>) -> Poll<u64> { match self.0.step(cx) { Ans::Ready(v) => Poll::Ready(v), Ans::Pend => Poll::Pending, a => panic!("future script answered {a:?}") } } }
struct Str(Child);
impl Stream for Str { type Item = u64;
    fn poll_next(mut self: Pin<&mut Self>, cx: &mut Context<'_>) -> Poll<Option<u64>> {
        match self.0.step(cx) { Ans::Item(v) => Poll::Ready(Some(v)), Ans::End => Poll::Ready(None), Ans::Pend => Poll::Pending, a => panic!("stream script answered {a:?}") } } }

type PollFn = Box<dyn FnMut(&mut Context<'_>) -> Option<(String, bool)>>;
fn fut_fn<F: Future + 'static>(f: F, show: impl Fn(F::Output) -> String + 'static) -> PollFn {
    let mut f = Box::pin(f);
    Box::new(move |cx| match f.as_mut().poll(cx) { Poll::Pending => None, Poll::Ready(o) => Some((show(o), true)) })
}
fn str_fn<S: Stream + 'static>(s: S, show: impl Fn(S::Item) -> String + 'static) -> PollFn {
    let mut s = Box::pin(s);
    Box::new(move |cx| match s.as_mut().poll_next(cx) { Poll::Pending => None, Poll::Ready(Some(o)) => Some((show(o), false)), Poll::Ready(None) => Some(("N".into(), true)) })
}
fn l(v: &[u64]) -> String { format!("[{}]", v.iter().map(|x| x.to_string()).collect::<Vec<_>>().join(",")) }
trait Vals { fn vals(self) -> Vec<u64>; }
impl Vals for Vec<u64> { fn vals(self) -> Vec<u64> { self } }
impl<const N: usize> Vals for [u64; N] { fn vals(self) -> Vec<u64> { self.to_vec() } }
impl Vals for u64 { fn vals(self) -> Vec<u64> { vec![self] } }
macro_rules! tv { ($($v:ident)+) => { impl Vals for ($(tv!(@t $v),)+) { fn vals(self) -> Vec<u64> { let ($($v,)+) = self; vec![$($v),+] } } }; (@t $v:ident) => { u64 }; }
tv!(a); tv!(a b); tv!(a b c); tv!(a b c d); tv!(a b c d e);
macro_rules! arr { ($items:expr, $n:literal, $m:ident, $mk:ident) => {{ let a: [_; $n] = $items.try_into().ok().unwrap(); $mk(a.$m(), |o| l(&o.vals())) }}; }
macro_rules! tup { ($items:expr, $m:ident, $mk:ident, $($v:ident)+) => {{ let mut it = $items.into_iter(); $(let $v = it.next().unwrap();)+ $mk(($($v,)+).$m(), |o| l(&o.vals())) }}; }
macro_rules! conts {
    ($cont:expr, $items:expr, $m:ident, $mk:ident) => {{ let items = $items; match ($cont, items.len()) {
        ("vec", _) => $mk(items.$m(), |o| l(&o.vals())),
        ("array", 1) => arr!(items, 1, $m, $mk), ("array", 2) => arr!(items, 2, $m, $mk), ("array", 3) => arr!(items, 3, $m, $mk),
        ("array", 4) => arr!(items, 4, $m, $mk), ("array", 5) => arr!(items, 5, $m, $mk),
        ("tuple", 1) => tup!(items, $m, $mk, a), ("tuple", 2) => tup!(items, $m, $mk, a b), ("tuple", 3) => tup!(items, $m, $mk, a b c),
        ("tuple", 4) => tup!(items, $m, $mk, a b c d), ("tuple", 5) => tup!(items, $m, $mk, a b c d e),
        (c, n) => panic!("unsupported {c} {n}") } }};
}
fn build(comb: &str, cont: &str, kids: Vec<Child>) -> PollFn {
    match comb {
        "join" => { let v: Vec<Fut> = kids.into_iter().map(Fut).collect(); conts!(cont, v, join, fut_fn) }
        "race" => { let v: Vec<Fut> = kids.into_iter().map(Fut).collect(); conts!(cont, v, race, fut_fn) }
        "merge" => { let v: Vec<Str> = kids.into_iter().map(Str).collect(); conts!(cont, v, merge, str_fn) }
        "zip" => { let v: Vec<Str> = kids.into_iter().map(Str).collect(); conts!(cont, v, zip, str_fn) }
        "chain" => { let v: Vec<Str> = kids.into_iter().map(Str).collect(); conts!(cont, v, chain, str_fn) }
        "fgroup" => { let mut g = FutureGroup::new(); for k in kids { g.insert(Fut(k)); } str_fn(g, |o: u64| l(&[o])) }
        "sgroup" => { let mut g = StreamGroup::new(); for k in kids { g.insert(Str(k)); } str_fn(g, |o: u64| l(&[o])) }
        _ => panic!("comb {comb}"),
    }
}

fn run_case(line: &str) -> String {
    let (head, tail) = line.split_once(" | ").unwrap();
    let hp: Vec<&str> = head.split(' ').collect();
    let (id, comb, cont) = (hp[0], hp[1], hp[2]);
    let n: usize = hp[3].strip_prefix("n=").unwrap().parse().unwrap();
    let scripts: Vec<Vec<Ans>> = hp.get(4).map(|s| s.split(';').map(|sc| if sc.is_empty() { vec![] } else { sc.split(',').map(parse_step).collect() }).collect()).unwrap_or_default();
    assert_eq!(scripts.len(), n);
    let mut seed: u64 = tail.strip_prefix("seed=").unwrap().trim().parse().unwrap();
    let (tx, rx) = channel::<Waker>();
    let stop = Arc::new(AtomicBool::new(false));
    // the waking thread: invokes every waker it is handed, after a pseudo-random number of spins / yields, sometimes twice (a stale repeat)
    let stop2 = stop.clone();
    let waker_thread = std::thread::spawn(move || {
        let mut next = move || { seed ^= seed << 13; seed ^= seed >> 7; seed ^= seed << 17; seed };
        let mut old: Vec<Waker> = Vec::new();
        while !stop2.load(Ordering::Relaxed) {
            match rx.recv_timeout(Duration::from_millis(2)) {
                Ok(w) => {
                    let r = next();
                    for _ in 0..(r % 64) { std::hint::spin_loop(); }
                    if r % 5 == 0 { std::thread::yield_now(); }
                    w.wake_by_ref();
                    if r % 7 == 0 { if let Some(o) = old.get((r as usize / 7) % old.len().max(1)) { o.wake_by_ref(); } }   // a stale waker fires again
                    if old.len() < 32 { old.push(w); }
                }
                Err(_) => {}
            }
        }
    });
    let kids: Vec<Child> = scripts.into_iter().map(|s| Child { steps: s, k: 0, tx: tx.clone(), done: false }).collect();
    drop(tx);
    let task = Arc::new(Task { woken: Mutex::new(true), cv: Condvar::new(), wakes: AtomicU64::new(0) });
    let waker: Waker = task.clone().into();
    let mut out: Vec<String> = vec![];
    let mut polls = 0u64;
    let verdict = catch_unwind(AssertUnwindSafe(|| {
        let mut comb = build(comb, cont, kids);
        loop {
            // wait for a wake-up (the first poll needs none)
            let start = Instant::now();
            { let mut g = task.woken.lock().unwrap();
              while !*g {
                  let left = Duration::from_millis(HANG_MS).checked_sub(start.elapsed());
                  match left { None => return format!("HANG after {polls} polls, {} wake-ups, results so far {}", task.wakes.load(Ordering::Relaxed), out.join(" ")), Some(d) => { g = task.cv.wait_timeout(g, d).unwrap().0; } }
              }
              *g = false; }
            // poll until Pending: an executor re-polls a stream after every item without waiting
            loop {
                polls += 1;
                let mut cx = Context::from_waker(&waker);
                match comb(&mut cx) { None => break, Some((s, fin)) => { out.push(s); if fin { return "ok".to_string(); } } }
            }
        }
    }));
    stop.store(true, Ordering::Relaxed);
    let _ = waker_thread.join();
    match verdict { Ok(v) => format!("{id} {v} {}", out.join(" ")), Err(_) => format!("{id} PANIC {}", out.join(" ")) }
}
fn main() {
    std::panic::set_hook(Box::new(|_| {}));
    let stdin = std::io::stdin(); let o = std::io::stdout(); let mut o = o.lock();
    for line in stdin.lock().lines() {
        let line = line.unwrap(); if line.trim().is_empty() { continue; }
        let r = run_case(&line); writeln!(o, "{r}").unwrap();
        // one hang is enough: the remaining cases of this batch are not run (each would wait the full time-out again)
        if r.contains(" HANG ") { o.flush().unwrap(); std::process::exit(3); }
    }
}
