//! Scratch harness for the ConcurrentStream drivers.
//! case: ID co:<stack>:<term> take=<n|-> lim=<l|-> n=<items> <src>;<t0>;..;<t(n-1)>;<m0>;..;<m(n-1)> | ops
//!   child ids: 0 = source stream, 1+j = terminal closure future of item j, 1+n+j = map closure future of item j
//!   src steps: P | Ij (items must be 0,1,2..) | E ; work steps: P | R | Fe | X ; every step may be prefixed by !href+..:
use futures_concurrency::prelude::*;
use futures_core::Stream;
use std::cell::RefCell;
use std::future::Future;
use std::io::{BufRead, Write};
use std::num::NonZeroUsize;
use std::panic::{catch_unwind, AssertUnwindSafe};
use std::pin::Pin;
use std::rc::Rc;
use std::sync::Arc;
use std::task::{Context, Poll, Wake, Waker};

#[derive(Clone, Debug)] enum Href { SelfW, Of(usize, usize) }
#[derive(Clone, Debug)] enum Ans { Pend, Ready, Fail(u64), Item(u64), End, Panic }
#[derive(Clone, Debug)] struct Step { fires: Vec<Href>, ans: Ans }
thread_local! { static LOG: RefCell<String> = RefCell::new(String::new()); }
fn log(s: &str) { LOG.with(|l| { let mut l = l.borrow_mut(); l.push(' '); l.push_str(s); }); }
struct Parent(usize);
impl Wake for Parent { fn wake(self: Arc<Self>) { log(&format!("W{}", self.0)); } fn wake_by_ref(self: &Arc<Self>) { log(&format!("W{}", self.0)); } }
struct Shared { wakers: Vec<Vec<Waker>>, parents: Vec<Waker>, scripts: Vec<Vec<Step>>, n: usize }
type Sh = Rc<RefCell<Shared>>;
fn classify(sh: &Shared, w: &Waker) -> String {
    for (k, p) in sh.parents.iter().enumerate() { if p.will_wake(w) { return format!("P{k}"); } }
    "I".into() // an internal waker of the driver (FuturesUnordered)
}
fn fire(sh: &Sh, c: usize, k: usize) {
    let w = sh.borrow().wakers.get(c).and_then(|v| v.get(k)).cloned();
    if let Some(w) = w { log(&format!("f{c}.{k}")); w.wake_by_ref(); }
}
struct Child { id: usize, k: usize, sh: Sh, done: bool }
impl Child {
    fn new(id: usize, sh: &Sh) -> Child { Child { id, k: 0, sh: sh.clone(), done: false } }
    fn step(&mut self, cx: &mut Context<'_>) -> Ans {
        let id = self.id;
        let cls = classify(&self.sh.borrow(), cx.waker());
        log(&format!("c{id}:{cls}"));
        let npoll = { let mut sh = self.sh.borrow_mut(); sh.wakers[id].push(cx.waker().clone()); sh.wakers[id].len() - 1 };
        let step = { let sh = self.sh.borrow(); sh.scripts[id].get(self.k).cloned() }.unwrap_or(Step { fires: vec![], ans: Ans::Pend });
        self.k += 1;
        for h in &step.fires { match h { Href::SelfW => fire(&self.sh, id, npoll), Href::Of(c, k) => fire(&self.sh, *c, *k) } }
        match &step.ans { Ans::Pend => log("=P"), Ans::Ready => { self.done = true; log("=R") } Ans::Fail(e) => { self.done = true; log(&format!("=F{e}")) }
            Ans::Item(v) => log(&format!("=I{v}")), Ans::End => { self.done = true; log("=E") } Ans::Panic => log("=X") }
        step.ans
    }
}
impl Drop for Child { fn drop(&mut self) { if self.id == 0 { log("D0"); } else if !self.done { log(&format!("D{}", self.id)); } } }

/// an item travelling through the pipeline; logs when it is dropped without having been consumed
struct It(u64, bool);
impl Drop for It { fn drop(&mut self) { if !self.1 { log(&format!("V{}", self.0)); } } }
trait ItemLike { fn id(&self) -> u64; fn show(&self) -> String; fn consume(self); }
impl ItemLike for It { fn id(&self) -> u64 { self.0 } fn show(&self) -> String { format!("{}", self.0) } fn consume(mut self) { self.1 = true; } }
impl ItemLike for (usize, It) { fn id(&self) -> u64 { self.1 .0 } fn show(&self) -> String { format!("{}:{}", self.0, self.1 .0) } fn consume(mut self) { self.1 .1 = true; } }

struct Src(Child);
impl Stream for Src { type Item = It;
    fn poll_next(mut self: Pin<&mut Self>, cx: &mut Context<'_>) -> Poll<Option<It>> {
        match self.0.step(cx) { Ans::Item(v) => Poll::Ready(Some(It(v, false))), Ans::End => Poll::Ready(None), Ans::Panic => panic!("scripted"), _ => Poll::Pending } }
    /// exact, like the hint of an iterator-backed stream: the number of items the script still holds (a driver that trusts the hint to skip work
    /// must still see every item)
    fn size_hint(&self) -> (usize, Option<usize>) {
        let sh = self.0.sh.borrow();
        let left = sh.scripts[0].iter().skip(self.0.k).filter(|st| matches!(st.ans, Ans::Item(_))).count();
        (left, Some(left))
    } }
struct MapWork<T>(Child, Option<T>);
impl<T: Unpin> Future for MapWork<T> { type Output = T;
    fn poll(mut self: Pin<&mut Self>, cx: &mut Context<'_>) -> Poll<T> {
        match self.0.step(cx) { Ans::Ready | Ans::Fail(_) => Poll::Ready(self.1.take().unwrap()), Ans::Panic => panic!("scripted"), _ => Poll::Pending } } }
/// the future of a fallible map closure: collect::<Result<Vec<_>, E>>() consumes these
struct RMapWork<T>(Child, Option<T>);
impl<T: ItemLike + Unpin> Future for RMapWork<T> { type Output = Result<T, u64>;
    fn poll(mut self: Pin<&mut Self>, cx: &mut Context<'_>) -> Poll<Result<T, u64>> {
        match self.0.step(cx) { Ans::Ready => Poll::Ready(Ok(self.1.take().unwrap())), Ans::Fail(e) => { self.1.take().unwrap().consume(); Poll::Ready(Err(e)) }
            Ans::Panic => panic!("scripted"), _ => Poll::Pending } } }
struct FeWork(Child);
impl Future for FeWork { type Output = ();
    fn poll(mut self: Pin<&mut Self>, cx: &mut Context<'_>) -> Poll<()> {
        match self.0.step(cx) { Ans::Ready | Ans::Fail(_) => Poll::Ready(()), Ans::Panic => panic!("scripted"), _ => Poll::Pending } } }
struct TfeWork(Child);
impl Future for TfeWork { type Output = Result<(), u64>;
    fn poll(mut self: Pin<&mut Self>, cx: &mut Context<'_>) -> Poll<Result<(), u64>> {
        match self.0.step(cx) { Ans::Ready => Poll::Ready(Ok(())), Ans::Fail(e) => Poll::Ready(Err(e)), Ans::Panic => panic!("scripted"), _ => Poll::Pending } } }

fn parse_step(s: &str) -> Step {
    let (fires, ans) = if let Some(rest) = s.strip_prefix('!') { let (f, a) = rest.split_once(':').unwrap();
        (f.split('+').map(|h| if h == "s" { Href::SelfW } else { let (c, k) = h.split_once('.').unwrap(); Href::Of(c.parse().unwrap(), k.parse().unwrap()) }).collect(), a) } else { (vec![], s) };
    let num = || ans[1..].parse().unwrap();
    let ans = match ans.as_bytes()[0] { b'P' => Ans::Pend, b'R' => Ans::Ready, b'F' => Ans::Fail(num()), b'I' => Ans::Item(num()), b'E' => Ans::End, b'X' => Ans::Panic, _ => panic!("bad answer {ans}") };
    Step { fires, ans }
}

type PollFn = Box<dyn FnMut(&mut Context<'_>) -> Option<String>>;
fn fut_fn<F: Future + 'static>(f: F, show: impl Fn(F::Output) -> String + 'static) -> PollFn {
    let mut f = Box::pin(f);
    Box::new(move |cx: &mut Context<'_>| match f.as_mut().poll(cx) { Poll::Pending => None, Poll::Ready(o) => Some(show(o)) })
}
fn map_cl<T: ItemLike + Unpin + 'static>(sh: &Sh) -> impl Fn(T) -> MapWork<T> + Clone + 'static {
    let sh = sh.clone();
    move |x: T| { let j = x.id() as usize; log(&format!("Cm.{j}({})", x.show())); let n = sh.borrow().n; MapWork(Child::new(1 + n + j, &sh), Some(x)) }
}
fn rmap_cl<T: ItemLike + Unpin + 'static>(sh: &Sh) -> impl Fn(T) -> RMapWork<T> + Clone + 'static {
    let sh = sh.clone();
    move |x: T| { let j = x.id() as usize; log(&format!("Cm.{j}({})", x.show())); let n = sh.borrow().n; RMapWork(Child::new(1 + n + j, &sh), Some(x)) }
}
fn show_res<T: ItemLike>(r: Result<Vec<T>, u64>) -> String { match r { Ok(v) => show_vec(v), Err(e) => format!("E:F{e}") } }
fn fe_cl<T: ItemLike + 'static>(sh: &Sh) -> impl Fn(T) -> FeWork + Clone + 'static {
    let sh = sh.clone();
    move |x: T| { let j = x.id() as usize; log(&format!("Ct.{j}({})", x.show())); x.consume(); FeWork(Child::new(1 + j, &sh)) }
}
fn tfe_cl<T: ItemLike + 'static>(sh: &Sh) -> impl Fn(T) -> TfeWork + Clone + 'static {
    let sh = sh.clone();
    move |x: T| { let j = x.id() as usize; log(&format!("Ct.{j}({})", x.show())); x.consume(); TfeWork(Child::new(1 + j, &sh)) }
}
fn show_vec<T: ItemLike>(v: Vec<T>) -> String { let s: Vec<String> = v.into_iter().map(|x| { let t = x.show(); x.consume(); t }).collect(); format!("E:R[{}]", s.join(",")) }

macro_rules! terminal {
    ($term:expr, $co:expr, $sh:expr) => {{
        let co = $co;
        match $term {
            "fe" => fut_fn(co.for_each(fe_cl($sh)), |_| "E:R[]".to_string()),
            "tfe" => fut_fn(co.try_for_each(tfe_cl($sh)), |r: Result<(), u64>| match r { Ok(()) => "E:O[]".to_string(), Err(e) => format!("E:F{e}") }),
            "col" => fut_fn(co.collect::<Vec<_>>(), show_vec),
            t => panic!("terminal {t}"),
        }
    }};
}
include!("../co_stacks.rs");
/// the pipeline over a scripted source stream (`src.co()`), or - `cov:` cases - over `Vec::into_co_stream()` holding the same items, which must
/// behave exactly like a source stream that has every item ready (the driver compares the two runs)
fn build(vsrc: bool, stack: &str, term: &str, takes: &[usize], lims: &[Option<NonZeroUsize>], sh: &Sh) -> PollFn {
    if vsrc {
        let n = sh.borrow().n as u64;
        let items: Vec<It> = (0..n).map(|j| It(j, false)).collect();
        pipeline!(items.into_co_stream(), stack, term, takes, lims, sh)
    } else {
        let src = Src(Child::new(0, sh));
        pipeline!(src.co(), stack, term, takes, lims, sh)
    }
}

fn run_case(line: &str) -> String {
    LOG.with(|l| l.borrow_mut().clear());
    let (head, ops) = line.split_once(" | ").unwrap();
    let hp: Vec<&str> = head.split(' ').collect();
    let id = hp[0]; let spec: Vec<&str> = hp[1].split(':').collect();
    let takes: Vec<usize> = hp[2].strip_prefix("take=").unwrap().split(',').filter_map(|x| x.parse().ok()).collect();
    let lims: Vec<Option<NonZeroUsize>> = hp[3].strip_prefix("lim=").unwrap().split(',').filter_map(|x| x.parse::<usize>().ok()).map(NonZeroUsize::new).collect();
    let n: usize = hp[4].strip_prefix("n=").unwrap().parse().unwrap();
    let scripts: Vec<Vec<Step>> = hp.get(5).map(|s| s.split(';').map(|sc| if sc.is_empty() { vec![] } else { sc.split(',').map(parse_step).collect() }).collect()).unwrap_or_default();
    assert_eq!(scripts.len(), 1 + 2 * n, "script count in {line}");
    let sh: Sh = Rc::new(RefCell::new(Shared { wakers: vec![vec![]; 1 + 2 * n], parents: vec![], scripts, n }));
    let mut comb: Option<PollFn> = Some(build(spec[0] == "cov", spec[1], spec[2], &takes, &lims, &sh));
    let mut finished = false;
    for op in ops.split(' ').filter(|s| !s.is_empty()) {
        match op.as_bytes()[0] {
            b'p' | b'q' => {
                if finished || comb.is_none() { continue; }
                if op == "p" || sh.borrow().parents.is_empty() { let k = sh.borrow().parents.len(); let w: Waker = Arc::new(Parent(k)).into(); sh.borrow_mut().parents.push(w); }
                let w = sh.borrow().parents.last().unwrap().clone();
                let pid = sh.borrow().parents.len() - 1;
                log(&format!("B{pid}"));
                let mut cx = Context::from_waker(&w);
                let r = catch_unwind(AssertUnwindSafe(|| (comb.as_mut().unwrap())(&mut cx)));
                match r { Ok(None) => log("E:P"), Ok(Some(s)) => { finished = true; log(&s); } Err(_) => { finished = true; log("d"); comb = None; log("E:X"); } }
            }
            b'f' => { let (c, k) = op[1..].split_once('.').unwrap(); log("o"); fire(&sh, c.parse().unwrap(), k.parse().unwrap()); }
            b'd' => { log("d"); comb = None; }
            _ => panic!("bad op {op}"),
        }
    }
    if comb.is_some() { log("d"); drop(comb); }
    LOG.with(|l| format!("{id}{}", l.borrow()))
}
fn main() {
    std::panic::set_hook(Box::new(|_| {}));
    let stdin = std::io::stdin(); let out = std::io::stdout(); let mut out = out.lock();
    for line in stdin.lock().lines() { let line = line.unwrap(); if line.trim().is_empty() { continue; } writeln!(out, "{}", run_case(&line)).unwrap(); }
}
