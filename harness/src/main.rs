//! fc-harness: drives the real crate (path dependency on the repository) with scripted children and logging wakers and prints one
//! canonical trace per case (DESIGN 5.1, 5.6).  Built three times: --features fc-std | fc-alloc | (none).
//! case:  ID COMB CONT n=N script;script;... | op op ...
//!   step := [!href+href:]answer   href := s | c.k   answer := P | Rv | Fe (err) | Iv | E | X
//!   op := p | q | fC.K | d
use futures_concurrency::prelude::*;
#[cfg(any(feature = "fc-std", feature = "fc-alloc"))]
use futures_concurrency::{future::FutureGroup, stream::StreamGroup};
use futures_core::Stream;
use std::cell::RefCell;
use std::fmt::Write as _;
use std::future::Future;
use std::io::{BufRead, Write};
use std::panic::{catch_unwind, AssertUnwindSafe};
use std::pin::Pin;
use std::rc::Rc;
use std::sync::Arc;
use std::task::{Context, Poll, Wake, Waker};

#[derive(Clone, Debug)]
enum Href { SelfW, Of(usize, usize) }
#[derive(Clone, Debug)]
enum Ans { Pend, Ready(u64), Fail(u64), Item(u64), End, Panic }
#[derive(Clone, Debug)]
struct Step { fires: Vec<Href>, ans: Ans }

thread_local! { static LOG: RefCell<String> = RefCell::new(String::new()); }
fn log(s: &str) { LOG.with(|l| { let mut l = l.borrow_mut(); l.push(' '); l.push_str(s); }); }

struct Parent(usize);
impl Wake for Parent {
    fn wake(self: Arc<Self>) { log(&format!("W{}", self.0)); }
    fn wake_by_ref(self: &Arc<Self>) { log(&format!("W{}", self.0)); }
}
struct Shared { wakers: Vec<Vec<Waker>>, parents: Vec<Waker> }
type Sh = Rc<RefCell<Shared>>;
fn classify(sh: &Shared, child: usize, w: &Waker) -> String {
    for (k, p) in sh.parents.iter().enumerate() { if p.will_wake(w) { return format!("P{k}"); } }
    for (c, ws) in sh.wakers.iter().enumerate() { if ws.iter().any(|x| x.will_wake(w)) { return format!("S{c}"); } }
    format!("S{child}")
}
fn fire(sh: &Sh, c: usize, k: usize) {
    let w = sh.borrow().wakers.get(c).and_then(|v| v.get(k)).cloned();
    if let Some(w) = w { log(&format!("f{c}.{k}")); w.wake_by_ref(); }
}
/// a value produced by a child: it owns a heap allocation, so that under Miri (thorough tier of C02) a double drop is a double free, a leaked value
/// is a leaked allocation and a drop of an uninitialised slot is a read of uninitialised memory
struct Val { b: Option<Box<u64>> }
#[allow(non_snake_case)]
fn Val(n: u64) -> Val { Val { b: Some(Box::new(n)) } }
impl Drop for Val { fn drop(&mut self) { if let Some(b) = self.b.take() { log(&format!("V{}", *b)); } } }
fn take(mut v: Val) -> u64 { *v.b.take().unwrap() }

struct Child { id: usize, steps: Vec<Step>, k: usize, sh: Sh }
impl Child {
    fn step(&mut self, cx: &mut Context<'_>) -> Ans {
        let id = self.id;
        let cls = classify(&self.sh.borrow(), id, cx.waker());
        log(&format!("c{id}:{cls}"));
        let npoll = { let mut sh = self.sh.borrow_mut(); sh.wakers[id].push(cx.waker().clone()); sh.wakers[id].len() - 1 };
        let step = if self.k < self.steps.len() { let s = self.steps[self.k].clone(); self.k += 1; s } else { Step { fires: vec![], ans: Ans::Pend } };
        for h in &step.fires { match h { Href::SelfW => fire(&self.sh, id, npoll), Href::Of(c, k) => fire(&self.sh, *c, *k) } }
        match &step.ans { Ans::Pend => log("=P"), Ans::Ready(v) => log(&format!("=R{v}")), Ans::Fail(e) => log(&format!("=F{e}")),
            Ans::Item(v) => log(&format!("=I{v}")), Ans::End => log("=E"), Ans::Panic => log("=X") }
        step.ans
    }
}
impl Drop for Child { fn drop(&mut self) { log(&format!("D{}", self.id)); } }
struct Fut(Child);
impl Future for Fut { type Output = Val;
    fn poll(mut self: Pin<&mut Self>, cx: &mut Context<'_>) -> Poll<Val> {
        match self.0.step(cx) { Ans::Ready(v) => Poll::Ready(Val(v)), Ans::Panic => panic!("scripted"), _ => Poll::Pending } } }
struct TryFut(Child);
impl Future for TryFut { type Output = Result<Val, u64>;
    fn poll(mut self: Pin<&mut Self>, cx: &mut Context<'_>) -> Poll<Self::Output> {
        match self.0.step(cx) { Ans::Ready(v) => Poll::Ready(Ok(Val(v))), Ans::Fail(e) => Poll::Ready(Err(e)), Ans::Panic => panic!("scripted"), _ => Poll::Pending } } }
struct Str(Child);
impl Stream for Str { type Item = Val;
    fn poll_next(mut self: Pin<&mut Self>, cx: &mut Context<'_>) -> Poll<Option<Val>> {
        match self.0.step(cx) { Ans::Item(v) => Poll::Ready(Some(Val(v))), Ans::End => Poll::Ready(None), Ans::Panic => panic!("scripted"), _ => Poll::Pending } } }

fn parse_step(s: &str) -> Step {
    let (fires, ans) = if let Some(rest) = s.strip_prefix('!') { let (f, a) = rest.split_once(':').unwrap();
        (f.split('+').map(|h| if h == "s" { Href::SelfW } else { let (c, k) = h.split_once('.').unwrap(); Href::Of(c.parse().unwrap(), k.parse().unwrap()) }).collect(), a) } else { (vec![], s) };
    let num = || ans[1..].parse().unwrap();
    let ans = match ans.as_bytes()[0] { b'P' => Ans::Pend, b'R' => Ans::Ready(num()), b'F' => Ans::Fail(num()), b'I' => Ans::Item(num()), b'E' => Ans::End, b'X' => Ans::Panic, _ => panic!("bad answer {ans}") };
    Step { fires, ans }
}
fn list(tag: &str, v: &[u64]) -> String { let mut s = format!("E:{tag}["); for (i, x) in v.iter().enumerate() { if i > 0 { s.push(','); } write!(s, "{x}").unwrap(); } s.push(']'); s }

/// result of one poll: None = Pending, Some((printed, final))
type PollFn = Box<dyn FnMut(&mut Context<'_>) -> Option<(String, bool)>>;
fn fut_fn<F: Future + 'static>(f: F, show: impl Fn(F::Output) -> String + 'static) -> PollFn {
    let mut f = Box::pin(f);
    Box::new(move |cx| match f.as_mut().poll(cx) { Poll::Pending => None, Poll::Ready(o) => Some((show(o), true)) })
}
fn str_fn<S: Stream + 'static>(s: S, show: impl Fn(S::Item) -> String + 'static) -> PollFn {
    let mut s = Box::pin(s);
    Box::new(move |cx| match s.as_mut().poll_next(cx) { Poll::Pending => None, Poll::Ready(Some(o)) => Some((show(o), false)), Poll::Ready(None) => Some(("E:N".into(), true)) })
}
macro_rules! arr {
    ($items:expr, $n:literal, $method:ident, $mk:ident, $show:expr) => {{ let a: [_; $n] = $items.try_into().ok().unwrap(); $mk(a.$method(), $show) }};
}
macro_rules! tup {
    ($items:expr, $method:ident, $mk:ident, $show:expr, $($v:ident)+) => {{ let mut it = $items.into_iter(); $(let $v = it.next().unwrap();)+ $mk(($($v,)+).$method(), $show) }};
}
macro_rules! conts {
    ($cont:expr, $items:expr, $method:ident, $mk:ident, $show:expr) => { conts!(@go $cont, $items, $method, $mk, $show, nozero) };
    (zero $cont:expr, $items:expr, $method:ident, $mk:ident, $show:expr) => { conts!(@go $cont, $items, $method, $mk, $show, zero) };
    (@zero_arm zero, $method:ident, $mk:ident, $show:expr) => { $mk(().$method(), $show) };
    (@zero_arm nozero, $method:ident, $mk:ident, $show:expr) => { panic!("no arity-0 tuple impl") };
    (@go $cont:expr, $items:expr, $method:ident, $mk:ident, $show:expr, $z:ident) => {{
        let items = $items;
        match ($cont, items.len()) {
            #[cfg(any(feature = "fc-std", feature = "fc-alloc"))]
            ("vec", _) => $mk(items.$method(), $show),
            ("array", 0) => arr!(items, 0, $method, $mk, $show),
            ("array", 1) => arr!(items, 1, $method, $mk, $show),
            ("array", 2) => arr!(items, 2, $method, $mk, $show),
            ("array", 3) => arr!(items, 3, $method, $mk, $show),
            ("array", 4) => arr!(items, 4, $method, $mk, $show),
            ("array", 5) => arr!(items, 5, $method, $mk, $show),
            ("array", 8) => arr!(items, 8, $method, $mk, $show),
            ("array", 12) => arr!(items, 12, $method, $mk, $show),
            ("array", 16) => arr!(items, 16, $method, $mk, $show),
            ("array", 23) => arr!(items, 23, $method, $mk, $show),
            ("array", 65) => arr!(items, 65, $method, $mk, $show),
            ("tuple", 0) => { drop(items); conts!(@zero_arm $z, $method, $mk, $show) }
            ("tuple", 1) => tup!(items, $method, $mk, $show, a),
            ("tuple", 2) => tup!(items, $method, $mk, $show, a b),
            ("tuple", 3) => tup!(items, $method, $mk, $show, a b c),
            ("tuple", 4) => tup!(items, $method, $mk, $show, a b c d),
            ("tuple", 5) => tup!(items, $method, $mk, $show, a b c d e),
            ("tuple", 6) => tup!(items, $method, $mk, $show, a b c d e f),
            ("tuple", 7) => tup!(items, $method, $mk, $show, a b c d e f g),
            ("tuple", 8) => tup!(items, $method, $mk, $show, a b c d e f g h),
            ("tuple", 9) => tup!(items, $method, $mk, $show, a b c d e f g h i),
            ("tuple", 10) => tup!(items, $method, $mk, $show, a b c d e f g h i j),
            ("tuple", 11) => tup!(items, $method, $mk, $show, a b c d e f g h i j k),
            ("tuple", 12) => tup!(items, $method, $mk, $show, a b c d e f g h i j k l),
            (c, n) => panic!("unsupported {c} {n}"),
        }
    }};
}
trait IntoVals { fn into_vals(self) -> Vec<u64>; }
impl IntoVals for Vec<Val> { fn into_vals(self) -> Vec<u64> { self.into_iter().map(take).collect() } }
impl<const N: usize> IntoVals for [Val; N] { fn into_vals(self) -> Vec<u64> { self.into_iter().map(take).collect() } }
impl IntoVals for () { fn into_vals(self) -> Vec<u64> { vec![] } }
impl IntoVals for core::convert::Infallible { fn into_vals(self) -> Vec<u64> { match self {} } }
macro_rules! tuple_vals { ($($v:ident)+) => { impl IntoVals for ($(tuple_vals!(@ty $v),)+) { fn into_vals(self) -> Vec<u64> { let ($($v,)+) = self; vec![$(take($v)),+] } } }; (@ty $v:ident) => { Val }; }
tuple_vals!(a); tuple_vals!(a b); tuple_vals!(a b c); tuple_vals!(a b c d); tuple_vals!(a b c d e); tuple_vals!(a b c d e f);
tuple_vals!(a b c d e f g); tuple_vals!(a b c d e f g h); tuple_vals!(a b c d e f g h i); tuple_vals!(a b c d e f g h i j);
tuple_vals!(a b c d e f g h i j k); tuple_vals!(a b c d e f g h i j k l);
impl IntoVals for Val { fn into_vals(self) -> Vec<u64> { vec![take(self)] } }

/// the two-argument methods of `FutureExt` / `StreamExt` (`a.join(b)`, `a.race(b)`, `a.merge(b)`, `a.chain(b)`, `a.zip(b)`): thin wrappers over the
/// tuple impls of arity 2, so the model is the tuple model at n = 2
fn build_ext(comb: &str, kids: Vec<Child>) -> PollFn {
    use futures_concurrency::future::FutureExt as FE;
    use futures_concurrency::stream::StreamExt as SE;
    let mut it = kids.into_iter(); let a = it.next().unwrap(); let b = it.next().unwrap();
    match comb {
        "join" => fut_fn(FE::join(Fut(a), Fut(b)), |o| list("R", &o.into_vals())),
        "race" => fut_fn(FE::race(Fut(a), Fut(b)), |o| list("R", &o.into_vals())),
        "merge" => str_fn(SE::merge(Str(a), Str(b)), |o| list("S", &o.into_vals())),
        "chain" => str_fn(SE::chain(Str(a), Str(b)), |o| list("S", &o.into_vals())),
        "zip" => str_fn(SE::zip(Str(a), Str(b)), |o| list("S", &o.into_vals())),
        _ => panic!("no two-argument method for {comb}"),
    }
}
/// the same nests over ARRAYS (outer [_; 2], inner [_; K]): the slice algorithms again, the array impls of the crate (cont `nesta`, n = 2K)
#[cfg(any(feature = "fc-std", feature = "fc-alloc"))]
macro_rules! nest_arrays { ($k:literal, $comb:expr, $a:expr, $b:expr) => {{
    fn fa(v: Vec<Child>) -> [Fut; $k] { let v: Vec<Fut> = v.into_iter().map(Fut).collect(); v.try_into().ok().unwrap() }
    fn sa(v: Vec<Child>) -> [Str; $k] { let v: Vec<Str> = v.into_iter().map(Str).collect(); v.try_into().ok().unwrap() }
    fn ta(v: Vec<Child>) -> [TryFut; $k] { let v: Vec<TryFut> = v.into_iter().map(TryFut).collect(); v.try_into().ok().unwrap() }
    let (a, b) = ($a, $b);
    let flat = |o: [[Val; $k]; 2]| list("R", &o.into_iter().flatten().map(take).collect::<Vec<u64>>());
    match $comb {
        "nest_jj" => fut_fn([fa(a).join(), fa(b).join()].join(), flat),
        "nest_jr" => fut_fn([fa(a).race(), fa(b).race()].join(), |o| list("R", &o.into_vals())),
        "nest_rj" => fut_fn([fa(a).join(), fa(b).join()].race(), |o| list("R", &o.into_vals())),
        "nest_jt" => fut_fn(futures_concurrency::future::FutureExt::join(fa(a).join(), fa(b).join()), move |(x, y): ([Val; $k], [Val; $k])| flat([x, y])),
        "nest_tt" => fut_fn([ta(a).try_join(), ta(b).try_join()].try_join(), |o: Result<[[Val; $k]; 2], u64>| match o { Ok(x) => list("O", &x.into_iter().flatten().map(take).collect::<Vec<u64>>()), Err(e) => format!("E:F{e}") }),
        "nest_mm" => str_fn([sa(a).merge(), sa(b).merge()].merge(), |o| list("S", &o.into_vals())),
        "nest_cm" => str_fn([sa(a).merge(), sa(b).merge()].chain(), |o| list("S", &o.into_vals())),
        "nest_zm" => str_fn([sa(a).merge(), sa(b).merge()].zip(), |o| list("S", &o.into_vals())),
        "nest_gj" => { let mut g = FutureGroup::new(); g.insert(fa(a).join()); g.insert(fa(b).join()); str_fn(g, |o: [Val; $k]| list("S", &o.into_vals())) }
        "nest_gm" => { let mut g = StreamGroup::new(); g.insert(sa(a).merge()); g.insert(sa(b).merge()); str_fn(g, |o: Val| list("S", &o.into_vals())) }
        _ => panic!("nest {}", $comb),
    }
}}; }
/// the same nests over TUPLES (outer 2-tuple, inner K-tuples; cont `nestt`, n = 2K): the macro-generated impls; for join the tuple algorithm
#[cfg(any(feature = "fc-std", feature = "fc-alloc"))]
macro_rules! nest_tuples {
    (@F $x:ident) => { Fut }; (@S $x:ident) => { Str }; (@T $x:ident) => { TryFut }; (@t $x:ident $it:ident) => { TryFut($it.next().unwrap()) };
    (@f $x:ident $it:ident) => { Fut($it.next().unwrap()) }; (@s $x:ident $it:ident) => { Str($it.next().unwrap()) };
    ($comb:expr, $a:expr, $b:expr, $($x:ident)+) => {{
        fn ft(v: Vec<Child>) -> ($(nest_tuples!(@F $x),)+) { let mut it = v.into_iter(); ($(nest_tuples!(@f $x it),)+) }
        fn st(v: Vec<Child>) -> ($(nest_tuples!(@S $x),)+) { let mut it = v.into_iter(); ($(nest_tuples!(@s $x it),)+) }
        fn tt(v: Vec<Child>) -> ($(nest_tuples!(@T $x),)+) { let mut it = v.into_iter(); ($(nest_tuples!(@t $x it),)+) }
        let (a, b) = ($a, $b);
        match $comb {
            "nest_jj" => fut_fn((ft(a).join(), ft(b).join()).join(), |(x, y)| { let mut v = x.into_vals(); v.extend(y.into_vals()); list("R", &v) }),
            "nest_jr" => fut_fn((ft(a).race(), ft(b).race()).join(), |o| list("R", &o.into_vals())),
            "nest_rj" => fut_fn((ft(a).join(), ft(b).join()).race(), |o| list("R", &o.into_vals())),
            "nest_jt" => fut_fn(futures_concurrency::future::FutureExt::join(ft(a).join(), ft(b).join()), |(x, y)| { let mut v = x.into_vals(); v.extend(y.into_vals()); list("R", &v) }),
            "nest_tt" => fut_fn((tt(a).try_join(), tt(b).try_join()).try_join(), |o| match o { Ok((x, y)) => { let mut v = x.into_vals(); v.extend(y.into_vals()); list("O", &v) }, Err(e) => format!("E:F{e}") }),
            "nest_mm" => str_fn((st(a).merge(), st(b).merge()).merge(), |o| list("S", &o.into_vals())),
            "nest_cm" => str_fn((st(a).merge(), st(b).merge()).chain(), |o| list("S", &o.into_vals())),
            "nest_zm" => str_fn((st(a).merge(), st(b).merge()).zip(), |o| list("S", &o.into_vals())),
            "nest_gj" => { let mut g = FutureGroup::new(); g.insert(ft(a).join()); g.insert(ft(b).join()); str_fn(g, |o| list("S", &o.into_vals())) }
            "nest_gm" => { let mut g = StreamGroup::new(); g.insert(st(a).merge()); g.insert(st(b).merge()); str_fn(g, |o: Val| list("S", &o.into_vals())) }
            _ => panic!("nest {}", $comb),
        }
    }};
}
/// nests: the leaves are split into two halves, each half feeds an inner combinator, the two inner combinators feed the outer one.
/// The leaf-level monitors (wake-ups, concurrency) are evaluated on the trace; the composed model (coq/Model/Nest.v) predicts it.
#[cfg(any(feature = "fc-std", feature = "fc-alloc"))]
fn build_nest(comb: &str, cont: &str, kids: Vec<Child>) -> PollFn {
    let n = kids.len(); let mut a = kids; let b = a.split_off(n / 2);
    if cont == "nestt" {
        return match n { 2 => nest_tuples!(comb, a, b, x), 4 => nest_tuples!(comb, a, b, x y), 6 => nest_tuples!(comb, a, b, x y z), _ => panic!("nestt n={n}") };
    }
    if cont == "nesta" {
        return match n { 2 => nest_arrays!(1, comb, a, b), 4 => nest_arrays!(2, comb, a, b), 6 => nest_arrays!(3, comb, a, b), _ => panic!("nesta n={n}") };
    }
    fn futs(v: Vec<Child>) -> Vec<Fut> { v.into_iter().map(Fut).collect() }
    fn strs(v: Vec<Child>) -> Vec<Str> { v.into_iter().map(Str).collect() }
    fn tfs(v: Vec<Child>) -> Vec<TryFut> { v.into_iter().map(TryFut).collect() }
    let flat = |o: Vec<Vec<Val>>| list("R", &o.into_iter().flatten().map(take).collect::<Vec<u64>>());
    match comb {
        "nest_jj" => fut_fn(vec![futs(a).join(), futs(b).join()].join(), flat),
        "nest_jr" => fut_fn(vec![futs(a).race(), futs(b).race()].join(), |o| list("R", &o.into_vals())),
        "nest_rj" => fut_fn(vec![futs(a).join(), futs(b).join()].race(), |o| list("R", &o.into_vals())),
        "nest_jt" => fut_fn(futures_concurrency::future::FutureExt::join(futs(a).join(), futs(b).join()), move |(x, y): (Vec<Val>, Vec<Val>)| flat(vec![x, y])),
        "nest_tt" => fut_fn(vec![tfs(a).try_join(), tfs(b).try_join()].try_join(), |o| match o { Ok(x) => list("O", &x.into_iter().flatten().map(take).collect::<Vec<u64>>()), Err(e) => format!("E:F{e}") }),
        "nest_mm" => str_fn(vec![strs(a).merge(), strs(b).merge()].merge(), |o| list("S", &o.into_vals())),
        "nest_cm" => str_fn(vec![strs(a).merge(), strs(b).merge()].chain(), |o| list("S", &o.into_vals())),
        "nest_zm" => str_fn(vec![strs(a).merge(), strs(b).merge()].zip(), |o| list("S", &o.into_vals())),
        "nest_gj" => { let mut g = FutureGroup::new(); g.insert(futs(a).join()); g.insert(futs(b).join()); str_fn(g, |o: Vec<Val>| list("S", &o.into_vals())) }
        "nest_gm" => { let mut g = StreamGroup::new(); g.insert(strs(a).merge()); g.insert(strs(b).merge()); str_fn(g, |o: Val| list("S", &o.into_vals())) }
        _ => panic!("nest {comb}"),
    }
}
fn build(comb: &str, cont: &str, kids: Vec<Child>) -> PollFn {
    #[cfg(any(feature = "fc-std", feature = "fc-alloc"))]
    if comb.starts_with("nest_") { return build_nest(comb, cont, kids); }
    if cont == "ext" && !comb.starts_with("wait_") { return build_ext(comb, kids); }
    match comb {
        "join" => { let v: Vec<Fut> = kids.into_iter().map(Fut).collect(); conts!(zero cont, v, join, fut_fn, |o| list("R", &o.into_vals())) }
        "try_join" => { let v: Vec<TryFut> = kids.into_iter().map(TryFut).collect();
            conts!(zero cont, v, try_join, fut_fn, |o| match o { Ok(x) => list("O", &x.into_vals()), Err(e) => format!("E:F{e}") }) }
        "merge" => { let v: Vec<Str> = kids.into_iter().map(Str).collect(); conts!(zero cont, v, merge, str_fn, |o| list("S", &o.into_vals())) }
        "zip" => { let v: Vec<Str> = kids.into_iter().map(Str).collect(); conts!(cont, v, zip, str_fn, |o| list("S", &o.into_vals())) }
        "race" => { let v: Vec<Fut> = kids.into_iter().map(Fut).collect(); conts!(cont, v, race, fut_fn, |o| list("R", &o.into_vals())) }
        "race_ok" => { let v: Vec<TryFut> = kids.into_iter().map(TryFut).collect();
            conts!(cont, v, race_ok, fut_fn, |o| match o { Ok(x) => list("O", &[take(x)]), Err(e) => list("G", &e.iter().cloned().collect::<Vec<u64>>()) }) }
        "chain" => { let v: Vec<Str> = kids.into_iter().map(Str).collect(); conts!(cont, v, chain, str_fn, |o| list("S", &o.into_vals())) }
        "wait_fut" => { let mut it = kids.into_iter(); let d = Fut(it.next().unwrap()); let i = Fut(it.next().unwrap());
            fut_fn(futures_concurrency::future::FutureExt::wait_until(i, d), |o| list("R", &[take(o)])) }
        "wait_stream" => { let mut it = kids.into_iter(); let d = Fut(it.next().unwrap()); let i = Str(it.next().unwrap());
            str_fn(futures_concurrency::stream::StreamExt::wait_until(i, d), |o| list("S", &[take(o)])) }
        _ => panic!("comb {comb}"),
    }
}


#[cfg(any(feature = "fc-std", feature = "fc-alloc"))]
mod groups {
    use super::*;
    use futures_concurrency::future::future_group as fg;
    use futures_concurrency::stream::stream_group as sg;
    pub enum G { F(FutureGroup<Fut>), FK(fg::Keyed<Fut>), S(StreamGroup<Str>), SK(sg::Keyed<Str>) }
    fn keynum<T: std::fmt::Debug>(k: &T) -> u64 { let s = format!("{k:?}"); s[4..s.len() - 1].parse().unwrap() }
    pub struct State { pub g: Option<G>, pub fkeys: Vec<Option<fg::Key>>, pub skeys: Vec<Option<sg::Key>>, pub next_id: usize }
    impl State {
        pub fn new(comb: &str, cap: usize) -> State {
            let g = match comb {
                "fgroup" => G::F(FutureGroup::with_capacity(cap)), "fgroup_keyed" => G::FK(FutureGroup::with_capacity(cap).keyed()),
                "sgroup" => G::S(StreamGroup::with_capacity(cap)), "sgroup_keyed" => G::SK(StreamGroup::with_capacity(cap).keyed()),
                _ => panic!("comb"),
            };
            State { g: Some(g), fkeys: vec![], skeys: vec![], next_id: 0 }
        }
        pub fn op(&mut self, op: &str, sh: &Sh) {
            let Some(g) = self.g.as_mut() else { return };
            if let Some(sc) = op.strip_prefix("ins(") {
                let sc = &sc[..sc.len() - 1];
                let steps: Vec<Step> = if sc.is_empty() { vec![] } else { sc.split(',').map(parse_step).collect() };
                let id = self.next_id; self.next_id += 1; sh.borrow_mut().wakers.push(vec![]);
                let child = Child { id, steps, k: 0, sh: sh.clone() };
                match g {
                    G::F(x) => { let k = x.insert(Fut(child)); log(&format!("K{}", keynum(&k))); self.fkeys.push(Some(k)); }
                    G::FK(x) => { let k = x.insert(Fut(child)); log(&format!("K{}", keynum(&k))); self.fkeys.push(Some(k)); }
                    G::S(x) => { let k = x.insert(Str(child)); log(&format!("K{}", keynum(&k))); self.skeys.push(Some(k)); }
                    G::SK(x) => { let k = x.insert(Str(child)); log(&format!("K{}", keynum(&k))); self.skeys.push(Some(k)); }
                }
            } else if let Some(scs) = op.strip_prefix("ext(") {
                // Extend::extend: the keys of the new members are not returned to the caller (logged: nothing)
                let scs = &scs[..scs.len() - 1];
                let mut futs = Vec::new();
                for sc in scs.split(';') {
                    let steps: Vec<Step> = if sc.is_empty() { vec![] } else { sc.split(',').map(parse_step).collect() };
                    let id = self.next_id; self.next_id += 1; sh.borrow_mut().wakers.push(vec![]);
                    futs.push(Fut(Child { id, steps, k: 0, sh: sh.clone() }));
                    self.fkeys.push(None); log("k");
                }
                match g { G::F(x) => x.extend(futs), _ => panic!("ext is FutureGroup only") }
            } else if let Some(scs) = op.strip_prefix("iter(") {
                // FromIterator: the group is built from an iterator of members (first operation of a case only); keys are not reported
                let scs = &scs[..scs.len() - 1];
                let mut kids = Vec::new();
                for sc in scs.split(';') {
                    let steps: Vec<Step> = if sc.is_empty() { vec![] } else { sc.split(',').map(parse_step).collect() };
                    let id = self.next_id; self.next_id += 1; sh.borrow_mut().wakers.push(vec![]);
                    kids.push(Child { id, steps, k: 0, sh: sh.clone() });
                    self.fkeys.push(None); self.skeys.push(None); log("k");
                }
                let fresh = match g {
                    G::F(_) => G::F(kids.into_iter().map(Fut).collect::<FutureGroup<Fut>>()),
                    G::FK(_) => G::FK(kids.into_iter().map(Fut).collect::<FutureGroup<Fut>>().keyed()),
                    G::S(_) => G::S(kids.into_iter().map(Str).collect::<StreamGroup<Str>>()),
                    G::SK(_) => G::SK(kids.into_iter().map(Str).collect::<StreamGroup<Str>>().keyed()),
                };
                *g = fresh;
            } else if let Some(j) = op.strip_prefix("rm") {
                let j: usize = j.parse().unwrap();
                let r = match g {
                    G::F(x) => self.fkeys.get(j).copied().flatten().map(|k| x.remove(k)), G::FK(x) => self.fkeys.get(j).copied().flatten().map(|k| x.remove(k)),
                    G::S(x) => self.skeys.get(j).copied().flatten().map(|k| x.remove(k)), G::SK(x) => self.skeys.get(j).copied().flatten().map(|k| x.remove(k)),
                };
                if let Some(b) = r { log(if b { "T" } else { "F" }); }
            } else if let Some(n) = op.strip_prefix("rsv") {
                let n: usize = n.parse().unwrap();
                match g { G::F(x) => x.reserve(n), G::FK(x) => x.reserve(n), G::S(x) => x.reserve(n), G::SK(x) => x.reserve(n) }
            } else if op == "len" {
                let n = match g { G::F(x) => x.len(), G::FK(x) => x.len(), G::S(x) => x.len(), G::SK(x) => x.len() }; log(&format!("N{n}"));
            } else if op == "cap" {
                let n = match g { G::F(x) => x.capacity(), G::FK(x) => x.capacity(), G::S(x) => x.capacity(), G::SK(x) => x.capacity() }; log(&format!("N{n}"));
            } else if op == "emp" {
                let b = match g { G::F(x) => x.is_empty(), G::FK(x) => x.is_empty(), G::S(x) => x.is_empty(), G::SK(x) => x.is_empty() }; log(if b { "T" } else { "F" });
            } else if let Some(j) = op.strip_prefix("has") {
                let j: usize = j.parse().unwrap();
                let r = match g {
                    G::F(x) => self.fkeys.get(j).copied().flatten().map(|k| x.contains_key(k)), G::FK(x) => self.fkeys.get(j).copied().flatten().map(|k| x.contains_key(k)),
                    G::S(x) => self.skeys.get(j).copied().flatten().map(|k| x.contains_key(k)), G::SK(x) => self.skeys.get(j).copied().flatten().map(|k| x.contains_key(k)),
                };
                if let Some(b) = r { log(if b { "T" } else { "F" }); }
            } else { panic!("group op {op}"); }
        }
        pub fn poll(&mut self, cx: &mut Context<'_>) -> Option<(String, bool)> {
            let g = self.g.as_mut().unwrap();
            let r: Poll<Option<String>> = match g {
                G::F(x) => Pin::new(x).poll_next(cx).map(|o| o.map(|v| format!("E:S[{}]", take(v)))),
                G::FK(x) => Pin::new(x).poll_next(cx).map(|o| o.map(|(k, v)| format!("E:S@{}[{}]", keynum(&k), take(v)))),
                G::S(x) => Pin::new(x).poll_next(cx).map(|o| o.map(|v| format!("E:S[{}]", take(v)))),
                G::SK(x) => Pin::new(x).poll_next(cx).map(|o| o.map(|(k, v)| format!("E:S@{}[{}]", keynum(&k), take(v)))),
            };
            match r { Poll::Pending => None, Poll::Ready(Some(s)) => Some((s, false)), Poll::Ready(None) => Some(("E:N".into(), false)) }
        }
    }
}

fn run_case(line: &str) -> String {
    LOG.with(|l| l.borrow_mut().clear());
    let (head, ops) = line.split_once(" | ").unwrap();
    let mut hp = head.split(' ');
    let id = hp.next().unwrap(); let comb = hp.next().unwrap(); let cont = hp.next().unwrap();
    let n: usize = hp.next().unwrap().strip_prefix("n=").unwrap().parse().unwrap();
    let scripts: Vec<Vec<Step>> = match hp.next() { Some(s) if n > 0 && head.split(' ').nth(2) != Some("group") => s.split(';').map(|sc| if sc.is_empty() { vec![] } else { sc.split(',').map(parse_step).collect() }).collect(), _ => vec![] };
    if cont != "group" { assert_eq!(scripts.len(), n, "script count in {line}"); }
    let sh: Sh = Rc::new(RefCell::new(Shared { wakers: vec![vec![]; if cont == "group" { 0 } else { n }], parents: vec![] }));
    let kids: Vec<Child> = scripts.into_iter().enumerate().map(|(i, s)| Child { id: i, steps: s, k: 0, sh: sh.clone() }).collect();
    #[cfg(any(feature = "fc-std", feature = "fc-alloc"))]
    let grp: Option<Rc<RefCell<groups::State>>> = if cont == "group" { Some(Rc::new(RefCell::new(groups::State::new(comb, n)))) } else { None };
    #[cfg(not(any(feature = "fc-std", feature = "fc-alloc")))]
    let grp: Option<()> = None;
    let is_group = cont == "group";
    let mut comb: Option<PollFn> = if is_group {
        #[cfg(any(feature = "fc-std", feature = "fc-alloc"))]
        { let gp = grp.clone().unwrap(); Some(Box::new(move |cx: &mut Context<'_>| gp.borrow_mut().poll(cx)) as PollFn) }
        #[cfg(not(any(feature = "fc-std", feature = "fc-alloc")))]
        { None }
    } else { Some(build(comb, cont, kids)) };
    let mut finished = false;
    for op in ops.split(' ').filter(|s| !s.is_empty()) {
        match op.as_bytes()[0] {
            b'p' | b'q' => {
                if finished || comb.is_none() { continue; }
                if op == "p" || sh.borrow().parents.is_empty() { let k = sh.borrow().parents.len(); let w: Waker = Arc::new(Parent(k)).into(); sh.borrow_mut().parents.push(w); }
                let w = sh.borrow().parents.last().unwrap().clone();
                let pid = sh.borrow().parents.len() - 1;
                log(&format!("B{pid}"));
                let mut cx = Context::from_waker(&w);
                let r = catch_unwind(AssertUnwindSafe(|| (comb.as_mut().unwrap())(&mut cx)));
                match r {
                    Ok(None) => log("E:P"),
                    Ok(Some((s, fin))) => { finished = fin; log(&s); }
                    Err(_) => { finished = true; log("d"); comb = None; #[cfg(any(feature = "fc-std", feature = "fc-alloc"))] { if let Some(g) = grp.as_ref() { g.borrow_mut().g = None; } } log("E:X"); }
                }
            }
            b'f' => { let (c, k) = op[1..].split_once('.').unwrap(); log("o"); fire(&sh, c.parse().unwrap(), k.parse().unwrap()); }
            b'd' => { log("d"); comb = None; #[cfg(any(feature = "fc-std", feature = "fc-alloc"))] { if let Some(g) = grp.as_ref() { g.borrow_mut().g = None; } } }
            _ if is_group => { #[cfg(any(feature = "fc-std", feature = "fc-alloc"))] { if comb.is_some() { grp.as_ref().unwrap().borrow_mut().op(op, &sh); } } }
            _ => panic!("bad op {op}"),
        }
    }
    if comb.is_some() { log("d"); drop(comb); }
    drop(grp);
    LOG.with(|l| format!("{id}{}", l.borrow()))
}

fn main() {
    std::panic::set_hook(Box::new(|_| {}));
    let stdin = std::io::stdin(); let out = std::io::stdout(); let mut out = out.lock();
    for line in stdin.lock().lines() { let line = line.unwrap(); if line.trim().is_empty() { continue; } writeln!(out, "{}", run_case(&line)).unwrap(); }
}
