#!/bin/sh
# Builds the framework from files on disk only (offline): the Coq development (full .vo build, never -vos), the extracted
# runners, and the three harness builds against /repo's current tree.  Everything lands under /verif (coq/*.vo, .cache/).
set -e
cd "$(dirname "$0")"
export CARGO_NET_OFFLINE=true
mkdir -p .cache evidence replays
# C18: the table is regenerated from the source (translator) before the development is built
python3 tools/autotraits.py generate
( cd coq && coq_makefile -f _CoqProject -o Makefile >/dev/null && timeout 3000 make -j"$(nproc)" 2>&1 | grep -v '^COQC\|^COQDEP\|Closed under the global context' | tail -20 )
python3 - <<'PY'
import sys, os
sys.path.insert(0, "tools")
import driver
driver.build_runner()
for cfg in ("std", "alloc", "nostd"):
    bins, err = driver.build_harness(cfg)
    if bins is None:
        print("harness build failed for", cfg, "\n", err)
        sys.exit(1)
print("setup ok")
PY
