(* Extraction of the boolean trace predicates that the theorems are about, so that they can be evaluated on the CRATE's traces
   (runner/montool.ml parses a trace line back into events).  ExtrOcamlBasic only. *)
Require Import ScanFull InstsFull Pass C11Groups C03Merge C08Eager PassProofs GhostTrace Monitors.
Require Extraction.
Require Import ExtrOcamlBasic.
Extraction "../runner/mon.ml" mon16 chk chkN once_b runC runK runE eager_b bal_b c05_b race_b wait_b chain_b zip_b noend strip polls_from.
