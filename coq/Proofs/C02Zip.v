From Coq Require Import List Arith Lia Bool.
Import ListNotations.
Require Import ScanFull InstsFull ObligJoin ObligMZ ObligGroups C04Join C08Merge C11Groups C05Join C02Join C02Merge C09Zip.

(* C02 (ownership ledger) for zip: inputs are held until the zip is dropped; an item is either part of a returned row or, if it sits in the
   buffer of an incomplete row when the zip goes away, dropped by the destructor - exactly once. *)
Lemma heldl_pending (ps: list pstate) (its: list (option nat)) : heldl (map (fun _ => PPending) ps) (map (fun _ => None) its) = [].
Proof. unfold heldl. revert its. induction ps as [|p ps IH]; intros [|o its]; cbn; auto. Qed.
Lemma nth_default_eq (ps: list pstate) i : i < length ps -> nth i ps PNone = nth i ps PReady.
Proof. intros; apply nth_indep; auto. Qed.

Lemma returnedS_drop_vals ps : forall its, returnedS (drop_vals ps its) = [].
Proof. induction ps as [|p ps IH]; intros [|o its]; cbn; auto; destruct p; cbn; auto. destruct o; cbn; auto. Qed.

Section C02Z.
  Variable n : nat.
  Definition Lz (s: zst) (t: list ev) : Prop :=
    droppedl t = [] /\ dropv t = [] /\
    (forall v, cnt v (producedS (polls_from 0 t)) = cnt v (returnedS t) + cnt v (heldl (z_pst s) (z_out s))).
  Definition Tzl (s: zst) (t: list ev) := Tz n s t /\ z_n s = n /\ length (z_out s) = n /\ Lz s t.
  Definition Uzl (s: zst) (t: list ev) := Zl n s t /\ Lz s t.

  Lemma Lz_final s t tail : z_n s = n -> Lz s t -> (tail = [] \/ tail = [EEndX]) -> BalS n (t ++ ED :: strip (z_drop s) ++ tail).
  Proof.
    intros Hn (Hd & Hv & Hp) Ht. unfold z_drop. rewrite strip_app, strip_drop_vals, strip_children, Hn.
    destruct (quiet_children n) as (Q1 & Q2 & Q3).
    assert (A : droppedl (t ++ ED :: (drop_vals (z_pst s) (z_out s) ++ drop_all_children n) ++ tail) = seq 0 n).
    { rewrite droppedl_app, Hd. cbn. rewrite !droppedl_app, droppedl_drop_vals, droppedl_children. destruct Ht as [->| ->]; cbn; apply app_nil_r. }
    assert (B : polls_from 0 (t ++ ED :: (drop_vals (z_pst s) (z_out s) ++ drop_all_children n) ++ tail) = polls_from 0 t).
    { apply polls_from_tail. intros e [<-|He]; [exact I|]. apply in_app_or in He as [He|He].
      - apply in_app_or in He as [He|He].
        + apply drop_vals_quiet in He as [v ->]. exact I.
        + unfold drop_all_children in He. apply in_map_iff in He as (k & <- & _). exact I.
      - destruct Ht as [->| ->]; [destruct He|destruct He as [<-|[]]; exact I]. }
    assert (C : returnedS (t ++ ED :: (drop_vals (z_pst s) (z_out s) ++ drop_all_children n) ++ tail) = returnedS t).
    { rewrite returnedS_app. cbn. rewrite !returnedS_app, Q2.
      rewrite returnedS_drop_vals. destruct Ht as [->| ->]; cbn; apply app_nil_r. }
    assert (D : dropv (t ++ ED :: (drop_vals (z_pst s) (z_out s) ++ drop_all_children n) ++ tail) = heldl (z_pst s) (z_out s)).
    { rewrite dropv_app, Hv. cbn. rewrite !dropv_app, Q3. destruct Ht as [->| ->]; cbn; rewrite !app_nil_r; reflexivity. }
    split; [intros x|intros v]; rewrite ?A, ?B, ?C, ?D.
    - apply cnt_seq.
    - apply Hp.
  Qed.

  Lemma Lz_idle s t i w a u : Lz s t -> (forall v, a <> AItem v) -> (u = [] \/ u = [EEndR ONone] \/ u = [EEndP]) -> Lz s (t ++ EC i w :: EAns a :: u).
  Proof.
    intros (Hd & Hv & Hp) Ha Hu.
    assert (Hq : (forall c, polls_from c u = []) /\ droppedl u = [] /\ dropv u = [] /\ returnedS u = []) by (destruct Hu as [->|[->| ->]]; repeat split).
    destruct Hq as (Q1 & Q2 & Q3 & Q4).
    split; [rewrite droppedl_app, Hd; cbn; exact Q2|]. split; [rewrite dropv_app, Hv; cbn; exact Q3|].
    intros v. rewrite polls_from_app, Q1, producedS_app, returnedS_app, !cnt_app, Hp. cbn [returnedS flat_map app]. fold (returnedS u). rewrite Q4.
    destruct a as [|r|v0| |]; cbn; try lia. exfalso; eapply Ha; eauto.
  Qed.
  Lemma Lz_tail s t e : Lz s t -> (e = EEndP \/ e = EEndR ONone) -> Lz s (t ++ [e]).
  Proof.
    intros (Hd & Hv & Hp) He.
    assert (Hq : polls_from 0 (t ++ [e]) = polls_from 0 t) by (apply polls_from_tail; intros e' [<-|[]]; destruct He as [->| ->]; exact I).
    split; [rewrite droppedl_app, Hd; destruct He as [->| ->]; reflexivity|]. split; [rewrite dropv_app, Hv; destruct He as [->| ->]; reflexivity|].
    intros v. rewrite Hq, returnedS_app, cnt_app, Hp. destruct He as [->| ->]; cbn; lia.
  Qed.
  Lemma Lz_store s t i w v : Lz s t -> i < length (z_pst s) -> length (z_out s) = length (z_pst s) -> nth i (z_pst s) PReady = PPending ->
    Lz {| z_pst := upd (z_pst s) i PReady; z_out := upd (z_out s) i (Some v); z_done := z_done s |} (t ++ [EC i w; EAns (AItem v)]).
  Proof.
    intros (Hd & Hv & Hp) Hi Hl Hpi.
    split; [rewrite droppedl_app, Hd; reflexivity|]. split; [rewrite dropv_app, Hv; reflexivity|].
    intros v'. cbn [z_pst z_out]. rewrite polls_from_app. cbn [polls_from]. rewrite producedS_app, returnedS_app, !cnt_app, heldl_store; auto.
    - change (producedS [(i, AItem v)]) with [v]. rewrite cnt_single. change (returnedS [EC i w; EAns (AItem v)]) with (@nil nat). rewrite Hp.
      change (cnt v' []) with 0. destruct (Nat.eq_dec v v'); lia.
    - rewrite nth_default_eq by auto. exact Hpi.
  Qed.
  Lemma Lz_row s t : Lz s t -> length (z_out s) = length (z_pst s) ->
    (forall i, i < length (z_pst s) -> nth i (z_pst s) PNone = PReady /\ exists v, nth i (z_out s) None = Some v) ->
    Lz {| z_pst := map (fun _ => PPending) (z_pst s); z_out := map (fun _ => None) (z_out s); z_done := z_done s |}
       (t ++ [EEndR (OSome None (all_vals (z_out s)))]).
  Proof.
    intros (Hd & Hv & Hp) Hl Hall.
    assert (Hh : heldl (z_pst s) (z_out s) = all_vals (z_out s)) by (apply heldl_all; auto).
    assert (Hq : polls_from 0 (t ++ [EEndR (OSome None (all_vals (z_out s)))]) = polls_from 0 t) by (apply polls_from_tail; intros e [<-|[]]; exact I).
    split; [rewrite droppedl_app, Hd; reflexivity|]. split; [rewrite dropv_app, Hv; reflexivity|].
    intros v. cbn [z_pst z_out]. rewrite Hq, heldl_pending, returnedS_app, cnt_app, Hp, Hh. cbn [returnedS flat_map]. rewrite app_nil_r.
    change (cnt v []) with 0. lia.
  Qed.
End C02Z.

Lemma BalS_ED n t : BalS n t -> BalS n (t ++ [ED]).
Proof.
  intros [B1 B2]. split; [intros x|intros v].
  - rewrite droppedl_app. change (droppedl [ED]) with (@nil nat). rewrite app_nil_r. apply B1.
  - rewrite returnedS_app, dropv_app. change (returnedS [ED]) with (@nil nat). change (dropv [ED]) with (@nil nat). rewrite !app_nil_r.
    replace (polls_from 0 (t ++ [ED])) with (polls_from 0 t) by (symmetry; apply polls_from_tail; intros e [<-|[]]; exact I). apply B2.
Qed.

Theorem C02_zip selective scs ops : let n := length scs in
  BalS n (strip (tr _ (zip_run' selective scs (ops ++ [ODrop])))).
Proof.
  intros n. unfold zip_run'.
  apply (F_final zst z_n z_awaited (fun _ i => i) z_handle false true z_order (fun _ => None) (fun _ => false) z_finish (fun s => s) z_drop m_final
           z_Q Z1 Z8 (fun _ _ _ _ _ _ => I) Z10 Z12 zmut (Tzl n) (Uzl n) (BalS n)).
  - (* U_cont *) intros s t i a s' eh wkr [HZ HL] Ha Hi Hh. split; [eapply Uz_cont; eauto|].
    pose proof HZ as (_ & B & C & D & _). assert (Hin : i < n) by (unfold z_n in Hi; lia).
    destruct (aw_slot s i Ha (proj2 (D i Hin))) as [Hpi _].
    pose proof (z_handle_cases s i a) as Hc. destruct a as [|r|v| |]; cbn zeta in Hc; rewrite Hc in Hh; try discriminate.
    + inversion Hh; subst. apply Lz_idle; auto; discriminate.
    + inversion Hh; subst. apply Lz_idle; auto; discriminate.
    + destruct (forallb is_ready (upd (z_pst s) i PReady)); inversion Hh; subst. apply Lz_store; auto; lia.
  - (* U_stop *) intros s t i a s' r o eh wkr [HZ HL] Ha Hi Hh.
    pose proof (Uz_stop n s t i a s' r o eh wkr HZ Ha Hi Hh) as HT.
    pose proof HZ as (_ & B & C & D & _). assert (Hin : i < n) by (unfold z_n in Hi; lia).
    destruct (aw_slot s i Ha (proj2 (D i Hin))) as [Hpi _].
    pose proof (z_handle_cases s i a) as Hc. destruct a as [|r0|v| |]; cbn zeta in Hc; rewrite Hc in Hh; try discriminate.
    + destruct (forallb is_ready (upd (z_pst s) i PReady)) eqn:Hall; inversion Hh; subst; clear Hh.
      split; [exact HT|]. split; [unfold z_n; cbn; rewrite map_length, upd_length; exact B|]. split; [cbn; rewrite map_length, upd_length; exact C|].
      pose proof (Zl_store n s t i wkr v HZ Hin Ha) as HZ1.
      pose proof (Lz_store s t i wkr v HL ltac:(lia) ltac:(lia) Hpi) as H1.
      set (s1 := {| z_pst := upd (z_pst s) i PReady; z_out := upd (z_out s) i (Some v); z_done := z_done s |}) in *.
      assert (Hall1 : forall j, j < length (z_pst s1) -> nth j (z_pst s1) PNone = PReady /\ exists v0, nth j (z_out s1) None = Some v0).
      { intros j Hj. pose proof (forallb_nth _ j Hall Hj) as Y. rewrite nth_default_eq by exact Hj. split; [exact Y|].
        destruct HZ1 as (_ & B1 & _ & D1 & _). destruct (D1 j ltac:(lia)) as [_ [[X _]|[_ X]]]; auto. cbn [z_pst s1] in X. congruence. }
      pose proof (Lz_row s1 _ H1 ltac:(cbn; rewrite !upd_length; lia) Hall1) as H2. cbn [z_pst z_out z_done s1] in H2. rewrite <- app_assoc in H2. exact H2.
    + inversion Hh; subst; clear Hh. split; [exact HT|]. split; [exact B|]. split; [exact C|].
      apply (Lz_idle s t i wkr AEnd [EEndR ONone] HL); [discriminate|auto].
  - (* U_abort *) intros s t i a s' eh wkr [HZ HL] Ha Hi Hh.
    pose proof (z_handle_cases s i a) as Hc. destruct a as [|r0|v| |]; cbn zeta in Hc; rewrite Hc in Hh; try discriminate.
    + destruct (forallb _ _); discriminate.
    + inversion Hh; subst eh; subst s'. apply Lz_final; [destruct HZ as (_ & B & _); exact B| |right; reflexivity]. apply Lz_idle; auto; discriminate.
  - (* T_order *) intros s is s1 t E ([HZ|[Hd _]] & A & B & HL); [destruct (z_order_some _ _ _ E) as [_ ->]; split; auto|]. unfold z_order in E. rewrite Hd in E. discriminate.
  - (* T_noorder *) intros s t _ (_ & A & _ & HL). apply Lz_final; auto.
  - (* U_finish *) intros s t [HZ HL]. cbn. pose proof HZ as (_ & B & C & _). split; [left; apply Zl_endp; exact HZ|]. split; [exact B|]. split; [exact C|]. apply Lz_tail; auto.
  - intros s t o _ E. discriminate.
  - (* T_endp *) intros s t _ (HT & A & B & HL). split; [destruct HT as [X|X]; [left; apply Zl_endp|right; apply Zf_endp]; auto|]. split; [auto|]. split; [auto|]. apply Lz_tail; auto.
  - (* U_endp *) intros _ s t [HZ HL]. pose proof HZ as (_ & B & C & _). split; [left; apply Zl_endp; exact HZ|]. split; [exact B|]. split; [exact C|]. apply Lz_tail; auto.
  - intros; exact I.
  - intros; exact I.
  - (* T_drop *) intros s t (_ & A & _ & HL). rewrite <- (app_nil_r (strip (z_drop s))). apply Lz_final; auto.
  - apply BalS_ED.
  - intros w0 m a sc Hd HT. unfold zmut, no_mut. rewrite Hd. exact HT.
  - unfold DW. cbn [dropped mk_world cs tr strip filter].
    assert (HZ0 : Zl n {| z_pst := repeat PPending n; z_out := repeat None n; z_done := false |} []).
    { unfold Zl. cbn [z_done z_pst z_out polls_from]. rewrite !repeat_length.
      split; [reflexivity|]. split; [reflexivity|]. split; [reflexivity|]. split; [|split; [constructor|split; reflexivity]].
      intros i Hi. split; [cbn; rewrite repeat_nth by auto; reflexivity|unfold slotz; cbn [z_pst z_out]; left; rewrite !repeat_nth by auto; auto]. }
    split; [left; exact HZ0|]. split; [unfold z_n; cbn; apply repeat_length|]. split; [cbn; apply repeat_length|].
    split; [reflexivity|]. split; [reflexivity|]. intros v. cbn [polls_from producedS returnedS flat_map z_pst z_out].
    assert (Hh : forall k, heldl (repeat PPending k) (repeat None k) = []) by (unfold heldl; induction k; cbn; auto).
    fold n. rewrite Hh. reflexivity.
Qed.
