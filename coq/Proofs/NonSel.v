From Coq Require Import List Arith Lia Bool.
Import ListNotations.
Require Import ScanFull InstsFull ObligJoin ObligMZ.

(* C20 under the non-selective waker strategy (alloc-only and no_std builds): join / try_join (slice and tuple), merge, zip *)
Definition join_runN (tryj tuple: bool) scs ops :=
  let n := length scs in
  run_ops jst j_slots j_awaited (fun _ i => i) j_handle tuple tuple j_order (fun _ => None) j_pre_any j_finish (fun s => s) j_drop (fun _ => true)
    (@no_mut jst) (mk_world {| j_try := tryj; j_tup := tuple; j_consumed := false; pending := n; items := repeat None n; pst := repeat PPending n |} false n scs) ops.
Theorem join_C20_nonsel tryj tuple scs ops i : let w := join_runN tryj tuple scs ops in
  g_retpend _ w = true -> g_quiet _ w = true -> i < N _ j_slots w -> aw _ j_awaited w i = true -> polled _ w i = true.
Proof.
  apply (C20_nonsel jst j_slots j_awaited (fun _ i => i) j_handle tuple tuple j_order (fun _ => None) j_pre_any j_finish (fun s => s) j_drop (fun _ => true)
           j_Q J1 J2 J3 J9 J10 J11 J12 J13 J14 J15 J16 J17 (fun _ => eq_refl) (fun _ H => H) (@no_mut jst) (fun w _ _ _ H => H)).
  split; [|intros X; discriminate]. split; [reflexivity|]. split; [unfold N, j_slots; cbn; rewrite !repeat_length; reflexivity|].
  unfold j_Q. cbn. clear. induction (length scs); cbn; auto.
Qed.

Definition merge_runN scs ops :=
  run_ops mst m_n m_awaited (fun _ i => i) m_handle true true m_order m_pre_exit (fun _ => false) m_finish (fun s => s)
    (fun s => drop_all_children (m_n s)) m_final mmut
    (mk_world {| m_pst := repeat PPending (length scs); m_complete := 0; m_offset := 0 |} false (length scs) scs) ops.
Theorem merge_C20_nonsel scs ops i : let w := merge_runN scs ops in
  g_retpend _ w = true -> g_quiet _ w = true -> i < N _ m_n w -> aw _ m_awaited w i = true -> polled _ w i = true.
Proof.
  apply (C20_nonsel mst m_n m_awaited (fun _ i => i) m_handle true true m_order m_pre_exit (fun _ => false) m_finish (fun s => s)
           (fun s => drop_all_children (m_n s)) m_final m_Q M1 M2 M3 M9 M10 M11 M12 M13 M14
           (fun _ => eq_refl) (fun _ _ _ => eq_refl) (fun _ H => H) (fun _ => eq_refl) (fun _ H => H) mmut (fun w _ _ _ H => H)).
  split; [|intros X; discriminate]. split; [reflexivity|]. split; [unfold N, m_n; cbn; rewrite !repeat_length; reflexivity|].
  unfold m_Q, m_n. cbn. rewrite repeat_length. destruct (length scs); [left|right]; lia.
Qed.

Definition zip_runN scs ops :=
  run_ops zst z_n z_awaited (fun _ i => i) z_handle false true z_order (fun _ => None) (fun _ => false) z_finish (fun s => s)
    z_drop m_final zmut
    (mk_world {| z_pst := repeat PPending (length scs); z_out := repeat None (length scs); z_done := false |} false (length scs) scs) ops.
Theorem zip_C20_nonsel scs ops i : let w := zip_runN scs ops in
  g_retpend _ w = true -> g_quiet _ w = true -> i < N _ z_n w -> aw _ z_awaited w i = true -> polled _ w i = true.
Proof.
  apply (C20_nonsel zst z_n z_awaited (fun _ i => i) z_handle false true z_order (fun _ => None) (fun _ => false) z_finish (fun s => s)
           z_drop m_final z_Q Z1 Z2 Z3 (fun _ _ _ _ _ _ => I) Z10 Z11 Z12 Z13 (fun _ _ _ _ _ => I)
           (fun _ => eq_refl) (fun _ _ _ => eq_refl) (fun _ _ => I) (fun _ => eq_refl) (fun _ _ => I) zmut (fun w _ _ _ H => H)).
  split; [|intros X; discriminate]. split; [reflexivity|]. split; [unfold N, z_n; cbn; rewrite !repeat_length; reflexivity|exact I].
Qed.

(* ---------------- FutureGroup / StreamGroup ---------------- *)
Require Import ObligGroups.
Notation GInvN := (InvN gst g_slots g_awaited g_Q).
Lemma InvN_reserve w a : GInvN w -> GInvN (g_reserve w a).
Proof.
  intros HI. unfold g_reserve. destruct (g_len (cs gst w) + a <? g_cap (cs gst w)); auto.
  assert (HQ : g_Q (cs gst w)) by apply HI. destruct HQ as [Qc Qb Ql Qq].
  apply InvN_grow; auto.
  - constructor; unfold pend, g_slots in *; cbn.
    + intros k Hk. rewrite nth_app_states in Hk. auto.
    + intros k Hk. rewrite app_length. specialize (Qb k Hk). lia.
    + intros k Hk. rewrite nth_app_states. auto.
    + intros k Hk. rewrite nth_app_states. auto.
  - unfold N, g_slots; cbn. rewrite app_length, repeat_length. reflexivity.
  - intros i Hi. unfold aw, g_awaited; cbn. rewrite nth_app_states. reflexivity.
  - intros i Hi. unfold g_awaited; cbn. rewrite nth_app_states. unfold N, g_slots in Hi. rewrite nth_overflow by auto. reflexivity.
Qed.
Lemma g_mutate_invN w m a sc : GInvN w -> GInvN (g_mutate w m a sc).
Proof.
  intros HI. unfold g_mutate.
  destruct m as [|[|[|[|[|[|m]]]]]].
  - set (w1 := if g_cap (cs gst w) <=? g_len (cs gst w) then g_reserve w (g_cap (cs gst w) * 2 + 1) else w).
    assert (HI1 : GInvN w1) by (unfold w1; destruct (_ <=? _); auto using InvN_reserve).
    clearbody w1. clear HI.
    set (s := cs gst w1). set (k := g_next s).
    destruct (if k =? length (g_ent s) then _ else _) as [ent' nx'].
    destruct ((k <? length (g_states s)) && g_clean s) eqn:Eg; [|apply InvN_flags; split; [exact (proj1 HI1)|intros X; discriminate]].
    apply andb_true_iff in Eg as [Ek Ecl]. apply Nat.ltb_lt in Ek.
    assert (Hcl : g_last s = None /\ g_queue s = []).
    { unfold g_clean in Ecl. destruct (g_last s); [discriminate|]. destruct (g_queue s); [auto|discriminate]. }
    destruct Hcl as [Hl Hq].
    assert (HQ : g_Q s) by apply HI1. destruct HQ as [Qc Qb Ql Qq].
    apply InvN_emit, InvN_occupy; auto.
    + constructor; unfold pend, g_slots in *; cbn; rewrite ?upd_length.
      * intros j Hj. apply In_ins_sorted. destruct (pend_upd_pending s k j Hj) as [->|Hp]; auto.
      * intros j Hj. apply In_ins_sorted in Hj as [->|Hj]; auto.
      * rewrite Hl. discriminate.
      * rewrite Hq. intros j [].
    + unfold N, g_slots; cbn. apply upd_length.
  - destruct (nth_error (g_ret (cs gst w)) a) as [k|]; auto.
    destruct (existsb (fun x => x =? k) (g_keys (cs gst w))) eqn:Ex; [|apply InvN_emit, HI].
    apply existsb_exists in Ex as (x & Hx & Ex). apply Nat.eqb_eq in Ex. subst x.
    assert (HQ : g_Q (cs gst w)) by apply HI. destruct HQ as [Qc Qb Ql Qq].
    apply InvN_emit, InvN_vacate; auto.
    + constructor; unfold pend, g_slots in *; cbn; rewrite ?upd_length.
      * intros j Hj. rewrite pend_upd_none in Hj. destruct (Nat.eqb_spec j k); [discriminate|]. apply In_rm_key. split; auto.
      * intros j Hj. apply In_rm_key in Hj as [Hj _]. auto.
      * intros j Hj. rewrite pend_upd_none. destruct (Nat.eqb j k); [reflexivity|]. unfold pend. apply Ql. exact Hj.
      * intros j Hj. rewrite pend_upd_none. destruct (Nat.eqb j k); [reflexivity|]. unfold pend. apply Qq. exact Hj.
    + unfold N, g_slots; cbn. apply upd_length.
    + intros i. unfold aw, g_awaited; cbn. rewrite pend_upd_none. destruct (Nat.eqb_spec i k); [discriminate|auto].
  - apply InvN_reserve, HI.
  - apply InvN_emit, HI.
  - destruct (nth_error _ a); [apply InvN_emit|]; exact HI.
  - apply InvN_emit, HI.
  - apply InvN_emit, HI.
Qed.
Definition group_runN (stream: bool) (cap0: nat) (ops: list op) :=
  run_ops gst g_slots g_awaited g_member g_handle false false g_order g_pre_exit (fun _ => true) g_finish g_cleanup g_drop
    (fun _ => false) g_mutate (mk_world (g_init stream cap0) false cap0 []) ops.
Theorem group_C20_nonsel stream cap0 ops i : let w := group_runN stream cap0 ops in
  g_retpend _ w = true -> g_quiet _ w = true -> i < N _ g_slots w -> aw _ g_awaited w i = true -> polled _ w i = true.
Proof.
  apply (C20_nonsel gst g_slots g_awaited g_member g_handle false false g_order g_pre_exit (fun _ => true) g_finish g_cleanup g_drop
           (fun _ => false) g_Q G1 G2 G3 G9 G10 G11 G12 G13 G14 G15 G16 G17 (fun _ => eq_refl) Q_cleanup g_mutate g_mutate_invN).
  split; [|intros X; discriminate]. split; [reflexivity|]. split; [unfold N, g_slots; cbn; rewrite !repeat_length; reflexivity|].
  destruct (group_init stream cap0) as [(_ & HQ & _) _]. exact HQ.
Qed.

(* ---------------- C01 under the non-selective strategy ---------------- *)
Lemma HP_init {St} (s: St) n scs : HP St (mk_world s false n scs).
Proof. split; [reflexivity|]. cbn. induction (length scs); cbn; constructor; auto. Qed.
Theorem join_C01_nonsel tryj tuple scs ops c k : let w := join_runN tryj tuple scs ops in
  forall wk0, nth_error (nth c (handed _ w) []) k = Some wk0 ->
  exists pid, wk0 = WPar pid /\ tr _ (fire_handle _ j_slots w c k) = tr _ w ++ [EF c k; EW pid].
Proof.
  apply (C01_nonsel jst j_slots j_awaited (fun _ i => i) j_handle tuple tuple j_order (fun _ => None) j_pre_any j_finish (fun s => s) j_drop (fun _ => true)
           (@no_mut jst) (fun w _ _ _ H => H)). apply HP_init.
Qed.
Theorem merge_C01_nonsel scs ops c k : let w := merge_runN scs ops in
  forall wk0, nth_error (nth c (handed _ w) []) k = Some wk0 ->
  exists pid, wk0 = WPar pid /\ tr _ (fire_handle _ m_n w c k) = tr _ w ++ [EF c k; EW pid].
Proof.
  apply (C01_nonsel mst m_n m_awaited (fun _ i => i) m_handle true true m_order m_pre_exit (fun _ => false) m_finish (fun s => s)
           (fun s => drop_all_children (m_n s)) m_final mmut (fun w _ _ _ H => H)). apply HP_init.
Qed.
Theorem zip_C01_nonsel scs ops c k : let w := zip_runN scs ops in
  forall wk0, nth_error (nth c (handed _ w) []) k = Some wk0 ->
  exists pid, wk0 = WPar pid /\ tr _ (fire_handle _ z_n w c k) = tr _ w ++ [EF c k; EW pid].
Proof.
  apply (C01_nonsel zst z_n z_awaited (fun _ i => i) z_handle false true z_order (fun _ => None) (fun _ => false) z_finish (fun s => s)
           z_drop m_final zmut (fun w _ _ _ H => H)). apply HP_init.
Qed.
Lemma g_mutate_HP w m a sc : HP gst w -> HP gst (g_mutate w m a sc).
Proof.
  intros H. assert (Hres : forall x, HP gst (g_reserve w x)) by (intros x; unfold g_reserve; destruct (_ <? _); exact H).
  unfold g_mutate. destruct m as [|[|[|[|[|[|m]]]]]]; auto.
  - set (w1 := if g_cap (cs gst w) <=? g_len (cs gst w) then g_reserve w (g_cap (cs gst w) * 2 + 1) else w).
    assert (H1 : HP gst w1) by (unfold w1; destruct (_ <=? _); auto). clearbody w1. destruct H1 as [Hs Hh].
    destruct (if g_next (cs gst w1) =? length (g_ent (cs gst w1)) then _ else _) as [ent' nx'].
    destruct (_ && _); [|split; [exact Hs|exact Hh]].
    split; [exact Hs|]. cbn. apply Forall_app. split; [exact Hh|constructor; constructor].
  - destruct (nth_error _ a); [|exact H]. destruct (existsb _ _); exact H.
  - destruct (nth_error _ a); exact H.
Qed.
Theorem group_C01_nonsel stream cap0 ops c k : let w := group_runN stream cap0 ops in
  forall wk0, nth_error (nth c (handed _ w) []) k = Some wk0 ->
  exists pid, wk0 = WPar pid /\ tr _ (fire_handle _ g_slots w c k) = tr _ w ++ [EF c k; EW pid].
Proof.
  apply (C01_nonsel gst g_slots g_awaited g_member g_handle false false g_order g_pre_exit (fun _ => true) g_finish g_cleanup g_drop
           (fun _ => false) g_mutate g_mutate_HP). apply HP_init.
Qed.
