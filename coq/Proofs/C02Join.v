From Coq Require Import List Arith Lia Bool.
Import ListNotations.
Require Import ScanFull InstsFull ObligJoin ObligGroups C04Join C11Groups C05Join.

(* C02 (ownership ledger) for join / try_join: counted with multiplicities, so equal values are no problem *)
Definition cnt (x: nat) (l: list nat) : nat := List.count_occ Nat.eq_dec l x.
Lemma cnt_app x a b : cnt x (a ++ b) = cnt x a + cnt x b. Proof. apply List.count_occ_app. Qed.
Definition dropv (t: list ev) : list nat := flat_map (fun e => match e with EV v => [v] | _ => [] end) t.
Definition produced (P: list (nat * ans)) : list nat := flat_map (fun p => match snd p with AReady (ROk v) => [v] | _ => [] end) P.
Definition returned (t: list ev) : list nat := flat_map (fun e => match e with EEndR (OVals vs) | EEndR (OOk vs) => vs | _ => [] end) t.
Lemma dropv_app a b : dropv (a ++ b) = dropv a ++ dropv b. Proof. apply flat_map_app. Qed.
Lemma produced_app a b : produced (a ++ b) = produced a ++ produced b. Proof. apply flat_map_app. Qed.
Lemma returned_app a b : returned (a ++ b) = returned a ++ returned b. Proof. apply flat_map_app. Qed.

(* every child is dropped exactly once; every value a child produced was returned or dropped, exactly once *)
Definition Bal (n: nat) (t: list ev) : Prop :=
  (forall x, cnt x (droppedl t) = if x <? n then 1 else 0) /\
  (forall v, cnt v (produced (polls_from 0 t)) = cnt v (returned t) + cnt v (dropv t)).

(* what the destructor of a join in state (ps, its) lets go of *)
Lemma droppedl_drop_vals ps : forall its, droppedl (drop_vals ps its) = [].
Proof. induction ps as [|p ps IH]; intros [|o its]; cbn; auto; destruct p; cbn; auto. destruct o; cbn; auto. Qed.
Lemma dropv_drop_futs ps : forall k, dropv (drop_futs ps k) = [].
Proof. induction ps as [|p ps IH]; intros k; cbn; auto. destruct p; cbn; auto. Qed.
Lemma polls_drop_vals ps : forall its c, polls_from c (drop_vals ps its) = [].
Proof. induction ps as [|p ps IH]; intros [|o its] c; cbn; auto; destruct p; cbn; auto. destruct o; cbn; auto. Qed.
Lemma polls_drop_futs ps : forall k c, polls_from c (drop_futs ps k) = [].
Proof. induction ps as [|p ps IH]; intros k c; cbn; auto. destruct p; cbn; auto. Qed.
Lemma returned_drop_vals ps : forall its, returned (drop_vals ps its) = [].
Proof. induction ps as [|p ps IH]; intros [|o its]; cbn; auto; destruct p; cbn; auto. destruct o; cbn; auto. Qed.
Lemma returned_drop_futs ps : forall k, returned (drop_futs ps k) = [].
Proof. induction ps as [|p ps IH]; intros k; cbn; auto. destruct p; cbn; auto. Qed.
Lemma strip_drop_vals ps : forall its, strip (drop_vals ps its) = drop_vals ps its.
Proof. induction ps as [|p ps IH]; intros [|o its]; cbn; auto; destruct p; cbn; auto. destruct o; cbn; auto. rewrite IH. reflexivity. Qed.
Lemma strip_drop_futs ps : forall k, strip (drop_futs ps k) = drop_futs ps k.
Proof. induction ps as [|p ps IH]; intros k; cbn; auto. destruct p; cbn; auto. rewrite IH. reflexivity. Qed.

Definition fut_owned (ps: list pstate) (x: nat) : nat := if (x <? length ps) && is_pending (nth x ps PNone) then 1 else 0.
Lemma cnt_drop_futs ps : forall k x, cnt x (droppedl (drop_futs ps k)) = if k <=? x then fut_owned ps (x - k) else 0.
Proof.
  induction ps as [|p ps IH]; intros k x; cbn [drop_futs].
  - unfold fut_owned. cbn. destruct (k <=? x); reflexivity.
  - assert (Hrec : cnt x (droppedl (drop_futs ps (S k))) = if S k <=? x then fut_owned ps (x - S k) else 0) by apply IH.
    unfold fut_owned in *. cbn [length].
    destruct (Nat.leb_spec k x) as [Hle|Hlt].
    + destruct (Nat.eq_dec x k) as [->|Hne].
      * rewrite Nat.sub_diag. cbn [nth]. change (0 <? S (length ps)) with true. cbn [andb].
        destruct (Nat.leb_spec (S k) k); [lia|].
        destruct p; cbn [droppedl flat_map app is_pending]; fold (droppedl (drop_futs ps (S k))); unfold cnt in *; cbn [List.count_occ]; try exact Hrec.
        destruct (Nat.eq_dec k k); [|congruence]. rewrite Hrec. reflexivity.
      * destruct (Nat.leb_spec (S k) x); [|lia].
        replace (x - k) with (S (x - S k)) by lia. cbn [nth]. change (S (x - S k) <? S (length ps)) with (x - S k <? length ps).
        destruct p; cbn [droppedl flat_map app]; fold (droppedl (drop_futs ps (S k))); unfold cnt in *; cbn [List.count_occ]; try exact Hrec.
        destruct (Nat.eq_dec k x); [lia|]. exact Hrec.
    + destruct (Nat.leb_spec (S k) x); [lia|].
      destruct p; cbn [droppedl flat_map app]; fold (droppedl (drop_futs ps (S k))); unfold cnt in *; cbn [List.count_occ]; try exact Hrec.
      destruct (Nat.eq_dec k x); [lia|]. exact Hrec.
Qed.

Definition heldl (ps: list pstate) (its: list (option nat)) : list nat := dropv (drop_vals ps its).
Lemma heldl_store ps : forall its i v v', i < length ps -> length its = length ps -> nth i ps PNone = PPending ->
  cnt v' (heldl (upd ps i PReady) (upd its i (Some v))) = cnt v' (heldl ps its) + (if Nat.eq_dec v v' then 1 else 0).
Proof.
  unfold heldl. induction ps as [|p ps IH]; intros [|o its] [|i] v v' Hi Hl Hp; cbn in Hi, Hl; try lia.
  - cbn in Hp. subst p. cbn [upd drop_vals dropv flat_map app]. fold (dropv (drop_vals ps its)). unfold cnt. cbn [List.count_occ].
    destruct (Nat.eq_dec v v'); lia.
  - cbn [upd nth] in *. specialize (IH its i v v' ltac:(lia) ltac:(lia) Hp).
    destruct p; cbn [drop_vals]; try exact IH. destruct o; cbn [dropv flat_map app]; try exact IH.
    fold (dropv (drop_vals (upd ps i PReady) (upd its i (Some v)))). fold (dropv (drop_vals ps its)). unfold cnt in *. cbn [List.count_occ].
    destruct (Nat.eq_dec n v'); lia.
Qed.
Lemma heldl_unpend ps : forall its i, nth i ps PNone = PPending -> heldl (upd ps i PNone) its = heldl ps its.
Proof.
  unfold heldl. induction ps as [|p ps IH]; intros [|o its] [|i] Hp; cbn [upd nth] in *; auto.
  - subst p. reflexivity.
  - subst p. reflexivity.
  - specialize (IH its i Hp). destruct p; cbn [drop_vals]; auto. destruct o; cbn [dropv flat_map app]; auto. f_equal. exact IH.
Qed.
Lemma heldl_all ps : forall its, length its = length ps ->
  (forall i, i < length ps -> nth i ps PNone = PReady /\ exists v, nth i its None = Some v) -> heldl ps its = all_vals its.
Proof.
  unfold heldl, all_vals. induction ps as [|p ps IH]; intros [|o its] Hl H; cbn in Hl; try lia; auto.
  destruct (H 0 ltac:(cbn; lia)) as [Hp [v Hv]]. cbn in Hp, Hv. subst p o. cbn. f_equal. apply IH; [lia|].
  intros i Hi. apply (H (S i)). cbn. lia.
Qed.
Lemma heldl_reset (ps: list pstate) (its: list (option nat)) : heldl (map (fun _ => PNone) ps) (map (fun _ => None) its) = [].
Proof. unfold heldl. revert its. induction ps as [|p ps IH]; intros [|o its]; cbn; auto. Qed.
Lemma fut_owned_reset (ps: list pstate) x : fut_owned (map (fun _ => PNone) ps) x = 0.
Proof. unfold fut_owned. rewrite nth_map_none. destruct (_ <? _); reflexivity. Qed.
Lemma fut_owned_upd ps i p x : i < length ps -> is_pending p = false ->
  fut_owned (upd ps i p) x = if Nat.eq_dec x i then 0 else fut_owned ps x.
Proof.
  intros Hi Hp. unfold fut_owned. rewrite upd_length. destruct (Nat.eq_dec x i) as [->|Hne].
  - rewrite nth_upd_same by auto. rewrite Hp, andb_false_r. reflexivity.
  - rewrite nth_upd_other by auto. reflexivity.
Qed.

(* the ledger while the combinator is alive: what has happened so far plus what the state still owns is balanced *)
Definition Led (n: nat) (s: jst) (t: list ev) : Prop :=
  (forall x, cnt x (droppedl t) + fut_owned (pst s) x = if x <? n then 1 else 0) /\
  (forall v, cnt v (produced (polls_from 0 t)) = cnt v (returned t) + cnt v (dropv t) + cnt v (heldl (pst s) (items s))).

Lemma drop_vals_quiet ps : forall its e, In e (drop_vals ps its) -> exists v, e = EV v.
Proof.
  induction ps as [|p ps IH]; intros [|o its] e He; cbn in He; try contradiction.
  - destruct p; contradiction.
  - destruct p; try (eapply IH; eauto; fail). destruct o; [|eapply IH; eauto]. destruct He as [<-|He]; eauto.
Qed.
Lemma drop_futs_quiet ps : forall k e, In e (drop_futs ps k) -> exists m, e = EDc m.
Proof.
  induction ps as [|p ps IH]; intros k e He; cbn in He; try contradiction.
  destruct p; try (eapply IH; eauto; fail). destruct He as [<-|He]; eauto.
Qed.

Lemma Led_final n s t tail : Led n s t -> (tail = [] \/ tail = [EEndX]) -> Bal n (t ++ ED :: strip (j_drop s) ++ tail).
Proof.
  intros [L1 L2] Htail. unfold j_drop. rewrite strip_app, strip_drop_vals, strip_drop_futs.
  assert (A : droppedl (t ++ ED :: (drop_vals (pst s) (items s) ++ drop_futs (pst s) 0) ++ tail) = droppedl t ++ droppedl (drop_futs (pst s) 0)).
  { rewrite droppedl_app. cbn. rewrite !droppedl_app, droppedl_drop_vals. destruct Htail as [->| ->]; cbn; rewrite app_nil_r; reflexivity. }
  assert (B : polls_from 0 (t ++ ED :: (drop_vals (pst s) (items s) ++ drop_futs (pst s) 0) ++ tail) = polls_from 0 t).
  { apply polls_from_tail. intros e [<-|He]; [exact I|]. apply in_app_or in He as [He|He].
    - apply in_app_or in He as [He|He].
      + apply drop_vals_quiet in He as [v ->]. exact I.
      + apply drop_futs_quiet in He as [m ->]. exact I.
    - destruct Htail as [->| ->]; [destruct He|destruct He as [<-|[]]; exact I]. }
  assert (C : returned (t ++ ED :: (drop_vals (pst s) (items s) ++ drop_futs (pst s) 0) ++ tail) = returned t).
  { rewrite returned_app. cbn. rewrite !returned_app, returned_drop_vals, returned_drop_futs. destruct Htail as [->| ->]; cbn; apply app_nil_r. }
  assert (D : dropv (t ++ ED :: (drop_vals (pst s) (items s) ++ drop_futs (pst s) 0) ++ tail) = dropv t ++ heldl (pst s) (items s)).
  { rewrite dropv_app. cbn. rewrite !dropv_app, dropv_drop_futs. destruct Htail as [->| ->]; cbn; rewrite !app_nil_r; reflexivity. }
  split.
  - intros x. rewrite A, cnt_app, cnt_drop_futs. cbn. rewrite Nat.sub_0_r. apply L1.
  - intros v. rewrite B, C, D, cnt_app. rewrite L2. lia.
Qed.

Lemma cnt_single x i : cnt x [i] = if Nat.eq_dec i x then 1 else 0.
Proof. unfold cnt. cbn. destruct (Nat.eq_dec i x); reflexivity. Qed.
Lemma fut_owned_pending ps i : i < length ps -> nth i ps PNone = PPending -> fut_owned ps i = 1.
Proof. intros Hi Hp. unfold fut_owned. rewrite Hp. apply Nat.ltb_lt in Hi. rewrite Hi. reflexivity. Qed.

Section Ledger.
  Variable n : nat.
  Lemma seg_facts t i w a u : (forall e, In e u -> match e with EC _ _ | EAns _ => False | _ => True end) ->
    droppedl (t ++ EC i w :: EAns a :: u) = droppedl t ++ droppedl u /\
    polls_from 0 (t ++ EC i w :: EAns a :: u) = polls_from 0 t ++ [(i, a)] /\
    returned (t ++ EC i w :: EAns a :: u) = returned t ++ returned u /\
    dropv (t ++ EC i w :: EAns a :: u) = dropv t ++ dropv u.
  Proof.
    intros Hu. split; [rewrite droppedl_app; reflexivity|]. split; [|split; [rewrite returned_app; reflexivity|rewrite dropv_app; reflexivity]].
    rewrite polls_from_app. f_equal. f_equal. replace u with ([] ++ u) by reflexivity. rewrite polls_from_tail; auto.
  Qed.

  Lemma Led_idle s t i w a : Led n s t -> (forall v, a <> AReady (ROk v)) -> Led n s (t ++ [EC i w; EAns a]).
  Proof.
    intros [L1 L2] Ha. destruct (seg_facts t i w a []) as (A & B & C & D); [intros e []|].
    split; [intros x|intros v]; rewrite ?A, ?B, ?C, ?D, ?app_nil_r; auto.
    rewrite produced_app, cnt_app. cbn. rewrite L2. destruct a as [|[v0|e]|v0| |]; cbn; try lia. exfalso; eapply Ha; eauto.
  Qed.
  Lemma Led_endp s t : Led n s t -> Led n s (t ++ [EEndP]).
  Proof.
    intros [L1 L2]. split; [intros x|intros v].
    - rewrite droppedl_app. change (droppedl [EEndP]) with (@nil nat). rewrite app_nil_r. apply L1.
    - rewrite (polls_endp t), returned_app, dropv_app. change (returned [EEndP]) with (@nil nat). change (dropv [EEndP]) with (@nil nat).
      rewrite !app_nil_r. apply L2.
  Qed.
  Lemma Led_store s t i w v : Led n s t -> i < n -> length (pst s) = n -> length (items s) = n -> nth i (pst s) PNone = PPending ->
    Led n {| j_try := j_try s; j_tup := j_tup s; j_consumed := j_consumed s; pending := pending s - 1; items := upd (items s) i (Some v); pst := upd (pst s) i PReady |}
          (t ++ [EC i w; EAns (AReady (ROk v)); EDc i]).
  Proof.
    intros [L1 L2] Hi Hlp Hli Hp. destruct (seg_facts t i w (AReady (ROk v)) [EDc i]) as (A & B & C & D); [intros e [<-|[]]; exact I|].
    split; [intros x|intros v']; cbn [pst items]; rewrite ?A, ?B, ?C, ?D.
    - rewrite cnt_app, fut_owned_upd by (auto; lia). change (droppedl [EDc i]) with [i]. rewrite cnt_single. specialize (L1 x).
      pose proof (fut_owned_pending (pst s) i ltac:(lia) Hp) as Hfo.
      destruct (Nat.eq_dec x i) as [->|Hne]; [destruct (Nat.eq_dec i i); [lia|congruence]|destruct (Nat.eq_dec i x); [congruence|lia]].
    - rewrite produced_app, cnt_app, heldl_store by (auto; lia). change (produced [(i, AReady (ROk v))]) with [v]. rewrite cnt_single.
      change (returned [EDc i]) with (@nil nat). change (dropv [EDc i]) with (@nil nat). rewrite !app_nil_r, L2.
      destruct (Nat.eq_dec v v'); lia.
  Qed.
  Lemma Led_error s t i w e : Led n s t -> i < n -> length (pst s) = n -> nth i (pst s) PNone = PPending ->
    Led n {| j_try := j_try s; j_tup := j_tup s; j_consumed := true; pending := pending s - 1; items := items s; pst := upd (pst s) i PNone |}
          (t ++ [EC i w; EAns (AReady (RErr e)); EDc i; EEndR (OErr e)]).
  Proof.
    intros [L1 L2] Hi Hlp Hp.
    destruct (seg_facts t i w (AReady (RErr e)) [EDc i; EEndR (OErr e)]) as (A & B & C & D); [intros e' [<-|[<-|[]]]; exact I|].
    split; [intros x|intros v']; cbn [pst items]; rewrite ?A, ?B, ?C, ?D.
    - rewrite cnt_app, fut_owned_upd by (auto; lia). change (droppedl [EDc i; EEndR (OErr e)]) with [i]. rewrite cnt_single. specialize (L1 x).
      pose proof (fut_owned_pending (pst s) i ltac:(lia) Hp) as Hfo.
      destruct (Nat.eq_dec x i) as [->|Hne]; [destruct (Nat.eq_dec i i); [lia|congruence]|destruct (Nat.eq_dec i x); [congruence|lia]].
    - rewrite produced_app, cnt_app, heldl_unpend by auto. change (produced [(i, AReady (RErr e))]) with (@nil nat).
      change (returned [EDc i; EEndR (OErr e)]) with (@nil nat). change (dropv [EDc i; EEndR (OErr e)]) with (@nil nat). rewrite !app_nil_r, L2.
      change (cnt v' []) with 0. lia.
  Qed.
  Lemma Led_complete s t : Led n s t -> length (pst s) = n -> length (items s) = n ->
    (forall i, i < n -> nth i (pst s) PNone = PReady /\ exists v, nth i (items s) None = Some v) ->
    Led n (j_reset s) (t ++ [EEndR (j_out s)]).
  Proof.
    intros [L1 L2] Hlp Hli Hall.
    assert (Hh : heldl (pst s) (items s) = all_vals (items s)) by (apply heldl_all; [lia|rewrite Hlp; exact Hall]).
    assert (Hr : returned [EEndR (j_out s)] = all_vals (items s)) by (unfold j_out; destruct (j_try s); cbn; apply app_nil_r).
    split; [intros x|intros v]; cbn [pst items j_reset].
    - rewrite droppedl_app, fut_owned_reset. change (droppedl [EEndR (j_out s)]) with (@nil nat). rewrite app_nil_r.
      assert (Hz : fut_owned (pst s) x = 0).
      { unfold fut_owned. destruct (Nat.ltb_spec x (length (pst s))) as [Hx|Hx]; cbn [andb]; [|reflexivity].
        destruct (Hall x ltac:(lia)) as [E _]. rewrite E. reflexivity. }
      specialize (L1 x). lia.
    - rewrite heldl_reset, returned_app, dropv_app, cnt_app, Hr. change (dropv [EEndR (j_out s)]) with (@nil nat). rewrite app_nil_r.
      replace (polls_from 0 (t ++ [EEndR (j_out s)])) with (polls_from 0 t) by (symmetry; apply polls_from_tail; intros e [<-|[]]; exact I).
      rewrite L2, Hh. change (cnt v []) with 0. lia.
  Qed.
End Ledger.

Section C02.
  Variables (tryj tuple: bool) (n: nat).
  Definition Tl (s: jst) (t: list ev) := Tj tryj tuple n s t /\ length (pst s) = n /\ length (items s) = n /\ Led n s t.
  Definition Ul (s: jst) (t: list ev) := Uj tryj tuple n s t /\ Led n s t.

  Lemma all_ready s P : (forall i, i < n -> slot_ok s P i) -> j_Q s -> pending s = 0 -> length (pst s) = n ->
    forall i, i < n -> nth i (pst s) PNone = PReady /\ exists v, nth i (items s) None = Some v.
  Proof.
    intros Hsl HQ Hp Hlp i Hi. destruct (Hsl i Hi) as [_ [[A _]|[A B]]]; auto.
    assert (Hz : count_pending (pst s) = 0) by (unfold j_Q in HQ; rewrite <- HQ; exact Hp).
    pose proof (count0_nth (pst s) i Hz) as X. rewrite A in X. discriminate.
  Qed.
  Lemma Live_len s t : Live n s t -> length (pst s) = n /\ length (items s) = n.
  Proof. intros (_ & A & B & _). auto. Qed.

  Lemma Ul_cont : forall s t i a s' eh wkr, Ul s t -> j_awaited s i = true -> i < j_slots s ->
    j_handle s i a = (s', Cont, eh) -> Ul s' (t ++ EC i wkr :: EAns a :: strip eh).
  Proof.
    intros s t i a s' eh wkr [HU HL] Ha Hi Hh. split; [eapply Uj_cont; eauto|].
    destruct HU as [_ HLive]. destruct (Live_len _ _ HLive) as [Hlp Hli].
    assert (Hin : i < n) by (unfold j_slots in Hi; lia).
    pose proof (j_handle_cases s i a) as Hc.
    destruct a as [|[v|e]|v| |]; cbn zeta in Hc; rewrite Hc in Hh; try discriminate.
    - inversion Hh; subst. apply Led_idle; auto; discriminate.
    - destruct (j_tup s && (pending s - 1 =? 0)); inversion Hh; subst. apply Led_store; auto. apply aw_pending; auto.
    - inversion Hh; subst. apply Led_idle; auto; discriminate.
    - inversion Hh; subst. apply Led_idle; auto; discriminate.
  Qed.

  Lemma Ul_stop : forall s t i a s' r o eh wkr, Ul s t -> j_awaited s i = true -> i < j_slots s ->
    j_handle s i a = (s', Stop r o, eh) -> Tl s' (t ++ EC i wkr :: EAns a :: strip eh ++ [EEndR o]).
  Proof.
    intros s t i a s' r o eh wkr [HU HL] Ha Hi Hh.
    pose proof (Uj_stop tryj tuple n s t i a s' r o eh wkr HU Ha Hi Hh) as HT.
    destruct HU as [[Bt [Bu BQ]] HLive]. destruct (Live_len _ _ HLive) as [Hlp Hli].
    assert (Hin : i < n) by (unfold j_slots in Hi; lia).
    pose proof (j_handle_cases s i a) as Hc.
    destruct a as [|[v|e]|v| |]; cbn zeta in Hc; rewrite Hc in Hh; try discriminate.
    - destruct (j_tup s && (pending s - 1 =? 0)) eqn:Elast; inversion Hh; subst; clear Hh.
      apply andb_true_iff in Elast as [_ Ez]. apply Nat.eqb_eq in Ez.
      set (s1 := {| j_try := j_try s; j_tup := j_tup s; j_consumed := j_consumed s; pending := pending s - 1; items := upd (items s) i (Some v); pst := upd (pst s) i PReady |}) in *.
      split; [exact HT|]. split; [cbn; rewrite map_length, upd_length; auto|]. split; [cbn; rewrite map_length, upd_length; auto|].
      destruct (Live_store n s t i wkr v HLive Hin (aw_pending s i Ha)) as (A & B & C & D & E). fold s1 in A, B, C, D.
      assert (HQ1 : j_Q s1).
      { unfold j_Q in *. unfold s1. cbn [pending pst]. destruct (count_upd (pst s) i PReady) as [Y _]; [lia|apply aw_pending; auto|reflexivity|].
        rewrite Y, <- BQ. reflexivity. }
      pose proof (all_ready s1 _ D HQ1 Ez B) as Hall.
      pose proof (Led_store n s t i wkr v HL Hin Hlp Hli (aw_pending s i Ha)) as L1. fold s1 in L1.
      pose proof (Led_complete n s1 _ L1 B C Hall) as L2. rewrite <- app_assoc in L2. exact L2.
    - inversion Hh; subst; clear Hh. split; [exact HT|]. split; [cbn; rewrite upd_length; auto|]. split; [auto|].
      apply Led_error; auto. apply aw_pending; auto.
  Qed.

  Lemma Bal_ED t : Bal n t -> Bal n (t ++ [ED]).
  Proof.
    intros [B1 B2]. split; [intros x|intros v].
    - rewrite droppedl_app. change (droppedl [ED]) with (@nil nat). rewrite app_nil_r. apply B1.
    - rewrite returned_app, dropv_app. change (returned [ED]) with (@nil nat). change (dropv [ED]) with (@nil nat). rewrite !app_nil_r.
      replace (polls_from 0 (t ++ [ED])) with (polls_from 0 t) by (symmetry; apply polls_from_tail; intros e [<-|[]]; exact I). apply B2.
  Qed.

  Lemma Ul_abort : forall s t i a s' eh wkr, Ul s t -> j_awaited s i = true -> i < j_slots s ->
    j_handle s i a = (s', Abort, eh) -> Bal n ((t ++ EC i wkr :: EAns a :: strip eh) ++ ED :: strip (j_drop s) ++ [EEndX]).
  Proof.
    intros s t i a s' eh wkr [HU HL] Ha Hi Hh.
    pose proof (j_handle_cases s i a) as Hc.
    destruct a as [|[v|e]|v| |]; cbn zeta in Hc; rewrite Hc in Hh; try discriminate.
    - destruct (j_tup s && (pending s - 1 =? 0)); discriminate.
    - inversion Hh; subst. apply Led_final; [|right; reflexivity]. apply Led_idle; auto; discriminate.
  Qed.
End C02.

Section C02b.
  Variables (tryj tuple: bool) (n: nat).
  Notation Tl := (Tl tryj tuple n). Notation Ul := (Ul tryj tuple n).
  Lemma Tl_order : forall s is s1 t, j_order s = Some (is, s1) -> Tl s t -> Ul s1 t.
  Proof.
    intros s is s1 t E (HT & _ & _ & HL). split; [eapply Tj_order; eauto|].
    unfold j_order in E. destruct (j_consumed s); [discriminate|]. inversion E; subst. exact HL.
  Qed.
  Lemma Tl_noorder : forall s t, j_order s = None -> Tl s t -> Bal n (t ++ ED :: strip (j_drop s) ++ [EEndX]).
  Proof. intros s t _ (_ & _ & _ & HL). apply Led_final; auto. Qed.
  Lemma Ul_finish : forall s t, Ul s t ->
    match snd (j_finish s) with Some o => Tl (fst (j_finish s)) (t ++ [EEndR o]) | None => Tl (fst (j_finish s)) (t ++ [EEndP]) end.
  Proof.
    intros s t [HU HL]. pose proof (Uj_finish tryj tuple n s t HU) as HT.
    destruct HU as [[Bt [Bu BQ]] HLive]. destruct (Live_len _ _ _ HLive) as [Hlp Hli].
    unfold j_finish in *. destruct (negb (j_consumed s) && negb (j_tup s) && (pending s =? 0)) eqn:E; cbn [fst snd] in *.
    - apply andb_true_iff in E as [_ Ez]. apply Nat.eqb_eq in Ez.
      split; [exact HT|]. split; [cbn; rewrite map_length; auto|]. split; [cbn; rewrite map_length; auto|].
      apply Led_complete; auto. destruct HLive as (_ & _ & _ & Hsl & _). apply (all_ready n s _ Hsl BQ Ez Hlp).
    - split; [exact HT|]. split; [auto|]. split; [auto|]. apply Led_endp; auto.
  Qed.
  Lemma Tl_endp : forall s t, Tl s t -> Tl s (t ++ [EEndP]).
  Proof. intros s t (HT & A & B & HL). split; [apply Tj_endp; auto|]. split; [auto|]. split; [auto|]. apply Led_endp; auto. Qed.
  Lemma Ul_endp : forall s t, Ul s t -> Tl s (t ++ [EEndP]).
  Proof.
    intros s t [HU HL]. destruct (Live_len _ _ _ (proj2 HU)) as [A B].
    split; [apply Uj_endp; auto|]. split; [auto|]. split; [auto|]. apply Led_endp; auto.
  Qed.
  Lemma Tl_drop : forall s t, Tl s t -> Bal n (t ++ ED :: strip (j_drop s)).
  Proof. intros s t (_ & _ & _ & HL). rewrite <- (app_nil_r (strip (j_drop s))). apply Led_final; auto. Qed.
End C02b.

(* C02 for join / try_join (slice and tuple variants, both waker strategies): whatever the children answer and whenever the
   combinator is dropped - before any poll, mid-flight, after completion - or unwinds because a child's poll panicked or because
   it was polled again after completion, the complete observable history is balanced: every child is dropped exactly once and
   every value a child produced is either part of the returned result or dropped, exactly once. *)
Theorem C02_join selective tryj tuple scs ops : let n := length scs in
  let w := join_run' selective tryj tuple scs (ops ++ [ODrop]) in
  Bal n (strip (tr _ w)).
Proof.
  intros n w. unfold w, join_run'. clear w. subst n. set (n := length scs).
  apply (F_final jst j_slots j_awaited (fun _ i => i) j_handle tuple tuple j_order (fun _ => None) j_pre_any j_finish (fun s => s) j_drop (fun _ => true)
           j_Q J1 J8 J9 J10 J12 (@no_mut jst) (Tl tryj tuple n) (Ul tryj tuple n) (Bal n)
           (Ul_cont tryj tuple n) (Ul_stop tryj tuple n) (Ul_abort tryj tuple n) (Tl_order tryj tuple n) (Tl_noorder tryj tuple n) (Ul_finish tryj tuple n)
           (fun s t o _ (E: None = Some o) => match E with eq_refl => I end) (fun s t _ => Tl_endp tryj tuple n s t) (fun _ => Ul_endp tryj tuple n)
           (fun s t H => Tj_Q tryj tuple n s t (proj1 H)) (fun s t H => Uj_Q tryj tuple n s t (proj1 H))
           (Tl_drop tryj tuple n) (Bal_ED n)).
  - intros w0 m a sc Hd HT. unfold no_mut. rewrite Hd. exact HT.
  - unfold DW. cbn [dropped mk_world]. cbn [cs tr mk_world strip filter].
    split; [|split; [cbn; apply repeat_length|split; [cbn; apply repeat_length|]]].
    + split; [split; [reflexivity|split; [reflexivity|]]|].
      * unfold j_Q. cbn [pending pst]. rewrite count_pending_repeat. reflexivity.
      * left. split; [reflexivity|]. cbn. rewrite !repeat_length. split; [reflexivity|]. split; [reflexivity|]. split; [|split; reflexivity].
        intros i Hi. unfold slot_ok. cbn. rewrite !repeat_nth by auto. split; [reflexivity|]. left. auto.
    + split; [intros x|intros v]; cbn [pst items droppedl flat_map polls_from produced returned dropv].
      * change (cnt x []) with 0. unfold fut_owned. rewrite repeat_length. destruct (Nat.ltb_spec x n) as [Hx|Hx]; cbn [andb]; [|reflexivity].
        rewrite repeat_nth by auto. reflexivity.
      * change (cnt v []) with 0. replace (heldl (repeat PPending n) (repeat None n)) with (@nil nat); [reflexivity|].
        unfold heldl. clear. induction n; cbn; auto.
Qed.
