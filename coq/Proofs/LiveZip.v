(* ScanFull.next_result for zip: after ANY history, as long as the zip has not ended and has not been dropped, the wake-driven executor obtains
   the next result - a row, or None - within B rounds, B a bound on the remaining script lengths; inputs whose scripts reach their End and never
   panic. *)
From Coq Require Import List Arith Bool Lia.
Import ListNotations.
Require Import ScanFull InstsFull ObligMZ C08Merge.

Lemma z_cases s i a :
  match a with
  | AItem v => let st' := upd (z_pst s) i PReady in let out' := upd (z_out s) i (Some v) in
      z_handle s i a = if forallb is_ready st'
                       then ({| z_pst := map (fun _ => PPending) st'; z_out := map (fun _ => None) out'; z_done := z_done s |}, Stop RAll (OSome None (all_vals out')), [])
                       else ({| z_pst := st'; z_out := out'; z_done := z_done s |}, Cont, [])
  | AEnd => z_handle s i a = ({| z_pst := z_pst s; z_out := z_out s; z_done := true |}, Stop RNone ONone, [])
  | APanic => z_handle s i a = (s, Abort, [])
  | _ => z_handle s i a = (s, Cont, [])
  end.
Proof. destruct a as [|r|v| |]; reflexivity. Qed.

Section ZipLive.
  Variable scs : list (list step).
  Let n := length scs.
  Hypothesis Hend : forall i, i < n -> ended (nth i scs []) = true.
  Hypothesis Hnp : forall m st, In st (nth m scs []) -> answer st <> APanic.

  Definition TSz (s: zst) := z_done s = false /\ forallb is_ready (z_pst s) = false.
  Lemma USz_cont s i a s' e : TSz s -> z_awaited s i = true -> z_handle s i a = (s', Cont, e) -> TSz s'.
  Proof.
    intros [Hd Hf] _ Hh. pose proof (z_cases s i a) as X. cbn zeta in X.
    destruct a as [|r|v| |]; rewrite X in Hh; try (inversion Hh; subst; split; assumption); try discriminate.
    destruct (forallb is_ready (upd (z_pst s) i PReady)) eqn:E; inversion Hh; subst. split; [exact Hd|exact E].
  Qed.
  Lemma TSz_order s is s1 : TSz s -> z_order s = Some (is, s1) -> TSz s1.
  Proof. intros H E. destruct (z_order_some _ _ _ E) as [_ ->]. exact H. Qed.
  Lemma TSz_order_some s : TSz s -> z_order s <> None.
  Proof. intros [Hd _]. unfold z_order. rewrite Hd. discriminate. Qed.
  Lemma z_abort_panic s i a s' e : z_handle s i a = (s', Abort, e) -> a = APanic.
  Proof.
    intros Hh. pose proof (z_cases s i a) as X. cbn zeta in X. destruct a as [|r|v| |]; rewrite X in Hh; try discriminate; auto.
    destruct (forallb _ _); discriminate.
  Qed.
  Lemma forallb_false_nth l : forallb is_ready l = false -> exists j, j < length l /\ is_ready (nth j l PReady) = false.
  Proof.
    induction l as [|p l IH]; cbn; [discriminate|]. destruct (is_ready p) eqn:E; cbn.
    - intros H. destruct (IH H) as (j & Hj & Hp). exists (S j). split; [lia|exact Hp].
    - intros _. exists 0. split; [lia|exact E].
  Qed.
  Lemma TSz_some s : z_Q s -> TSz s -> exists j, j < z_n s /\ z_awaited s j = true.
  Proof. intros _ [_ Hf]. destruct (forallb_false_nth _ Hf) as (j & Hj & Hp). exists j. split; [exact Hj|]. unfold z_awaited. rewrite Hp. reflexivity. Qed.
  (* script invariant: while the zip has not seen an End, every input's remaining script still reaches its End *)
  Definition Pz (s: zst) (sc: list (list step)) : Prop := length (z_pst s) = n /\ (z_done s = false -> forall i, i < n -> ended (nth i sc []) = true).
  Lemma Pz_handle : forall s sc i stp sc', z_awaited s i = true -> i < z_n s ->
      (stp, sc') = (match nth i sc [] with [] => ({| fires := []; answer := APend |}, sc) | x :: rest => (x, upd sc i rest) end) ->
      Pz s sc -> Pz (fst (fst (z_handle s i (answer stp)))) sc'.
  Proof.
    intros s sc i stp sc' Ha Hi Hpop [Hl Hm]. unfold z_n in Hi.
    assert (Hsc : forall j, j <> i -> nth j sc' [] = nth j sc []).
    { intros j Hne. destruct (nth i sc []); inversion Hpop; subst; auto. rewrite nth_upd_other by auto. reflexivity. }
    assert (Hsi : z_done s = false -> answer stp <> AEnd -> ended (nth i sc' []) = true).
    { intros Hd Hne. specialize (Hm Hd i ltac:(lia)). destruct (nth i sc []) as [|x rest] eqn:E; [discriminate|].
      inversion Hpop; subst stp sc'.
      assert (Hisc : i < length sc) by (destruct (Nat.lt_ge_cases i (length sc)); auto; rewrite nth_overflow in E by auto; discriminate).
      rewrite nth_upd_same by exact Hisc. cbn [ended existsb] in Hm. destruct (answer x) as [|r|v| |]; cbn in Hm; try exact Hm. exfalso. apply Hne. reflexivity. }
    assert (Hkeep : forall s', length (z_pst s') = n -> z_done s' = z_done s -> answer stp <> AEnd -> Pz s' sc').
    { intros s' L D Hne. split; [exact L|]. rewrite D. intros Hd j Hj. destruct (Nat.eq_dec j i) as [->|Hji]; [apply Hsi; auto|rewrite Hsc by exact Hji; apply Hm; auto]. }
    pose proof (z_cases s i (answer stp)) as X. cbn zeta in X.
    destruct (answer stp) as [|r|v| |] eqn:Ea; rewrite X; cbn [fst].
    - apply Hkeep; auto; discriminate.
    - apply Hkeep; auto; discriminate.
    - destruct (forallb is_ready (upd (z_pst s) i PReady)); cbn [fst]; apply Hkeep; cbn; rewrite ?map_length, ?upd_length; auto; discriminate.
    - split; [exact Hl|]. cbn. intros; discriminate.
    - apply Hkeep; auto; discriminate.
  Qed.
  Lemma Pz_order s is s1 sc : z_order s = Some (is, s1) -> Pz s sc -> Pz s1 sc.
  Proof. intros E H. destruct (z_order_some _ _ _ E) as [_ ->]. exact H. Qed.

  Definition w0 := mk_world {| z_pst := repeat PPending (length scs); z_out := repeat None (length scs); z_done := false |} true (length scs) scs.
  Notation zstep := (step_op zst z_n z_awaited (fun _ i => i) z_handle false true z_order (fun _ => None) (fun _ => false) z_finish (fun s => s) z_drop m_final zmut).
  Notation zrun := (run_ops zst z_n z_awaited (fun _ i => i) z_handle false true z_order (fun _ => None) (fun _ => false) z_finish (fun s => s) z_drop m_final zmut).
  Notation zrounds := (rounds zst z_n z_awaited (fun _ i => i) z_handle false true z_order (fun _ => None) (fun _ => false) z_finish (fun s => s) z_drop m_final zmut).
  Definition PWz (w: world zst) := Pz (cs _ w) (scripts _ w).
  Lemma PWz_step w o : PWz w -> PWz (zstep w o).
  Proof.
    intros HP. destruct o as [| |c k| |m a sc]; cbn [step_op].
    1,2: destruct (finished zst w || dropped zst w); [exact HP|];
      apply (poll_P zst z_n z_awaited (fun _ i => i) z_handle false true z_order (fun _ => None) (fun _ => false) z_finish (fun s => s) z_drop m_final z_Q
                 Z1 Z8 Z10 Z12 Pz Pz_handle Pz_order (fun _ _ H => H) (fun _ _ H => H) (fun _ _ _ => I)); exact HP.
    - destruct (fire_handle_pass zst z_n (emit zst w [EO]) c k) as [Hc Hs]. unfold PWz. rewrite Hc, Hs. exact HP.
    - destruct (dropped zst w); exact HP.
    - destruct (dropped zst w); exact HP.
  Qed.
  Lemma PWz_run ops : forall w, PWz w -> PWz (zrun w ops).
  Proof. induction ops as [|o r IH]; intros w HP; cbn; auto. apply IH, PWz_step, HP. Qed.
  Lemma PWz_init : PWz w0.
  Proof. unfold PWz, Pz, w0, mk_world; cbn. rewrite repeat_length. split; [reflexivity|]. intros _ i Hi. apply Hend. exact Hi. Qed.

  Lemma zip_LiveI_run ops : LiveI zst z_n (fun _ i => i) (fun _ _ => true) z_n (fun a => a <> APanic) (zrun w0 ops).
  Proof.
    apply (LiveI_run zst z_n z_awaited (fun _ i => i) z_handle false true z_order (fun _ => None) (fun _ => false) z_finish (fun s => s)
           z_drop m_final z_Q Z1 Z2 Z3 Z4 Z5 Z6 Z7 Z8 (fun _ _ _ _ _ _ => I) Z10 Z11 Z12 Z13 (fun _ _ _ _ _ => I)
           (fun _ => eq_refl) (fun _ _ _ => eq_refl) (fun _ _ => I) (fun _ => eq_refl) (fun _ _ _ => eq_refl) (fun _ _ => I)
           zmut (fun w _ _ _ H => H) (fun _ _ => true) (fun _ _ _ _ _ => eq_refl) (fun _ _ _ _ _ _ _ _ H => H) z_n (fun _ _ _ H _ => H) (fun s i a _ _ _ => conj (Z1 s i a) (fun _ _ _ => conj eq_refl eq_refl)) (fun s is s1 _ E => conj (Z10 s is s1 E) (fun _ _ _ => conj eq_refl eq_refl)) (fun s _ => conj (eq_refl) (fun _ _ _ => conj eq_refl eq_refl)) (fun s _ => conj eq_refl (fun _ _ _ => conj eq_refl eq_refl)) z_abort_panic (fun a => a <> APanic) (fun _ H => H) APend_not_panic TSz (fun s i a s' e _ _ _ => USz_cont s i a s' e) (fun _ => True) (fun w _ _ _ _ H _ => H)).
    - apply zip_init.
    - split; [reflexivity|]. split; [exact Hnp|].
      unfold HT, N, z_n, polled. cbn. rewrite !repeat_length. split; [reflexivity|]. split; [reflexivity|].
      intros c Hc _. rewrite !repeat_nth by exact Hc. split; [intros h []|discriminate].
    - apply Forall_forall. intros o _. destruct o; exact I.
  Qed.
  Lemma zip_Inv_run ops : Inv zst z_n z_awaited z_Q (zrun w0 ops).
  Proof.
    apply (Inv_run zst z_n z_awaited (fun _ i => i) z_handle false true z_order (fun _ => None) (fun _ => false) z_finish (fun s => s)
           z_drop m_final z_Q Z1 Z2 Z3 Z4 Z5 Z6 Z7 Z8 (fun _ _ _ _ _ _ => I) Z10 Z11 Z12 Z13 (fun _ _ _ _ _ => I)
           (fun _ => eq_refl) (fun _ _ _ => eq_refl) (fun _ _ => I) (fun _ => eq_refl) (fun _ _ _ => eq_refl) (fun _ _ => I)
           zmut (fun w _ _ _ H => H)). apply zip_init.
  Qed.

  Theorem zip_next_result ops B : let w := zrun w0 ops in
    finished _ w = false -> dropped _ w = false -> z_done (cs _ w) = false -> forallb is_ready (z_pst (cs _ w)) = false ->
    (forall j, length (nth j (scripts _ w) []) <= B) -> 1 <= B ->
    exists r, r < B /\ dropped _ (zrounds (S r) w) = false /\ g_retpend _ (zrounds (S r) w) = false /\
              (forall r', r' <= r -> finished _ (zrounds r' w) = false) /\
              exists u o, tr _ (zrounds (S r) w) = tr _ (zrounds r w) ++ u ++ [EEndR o].
  Proof.
    cbv zeta. intros Hf Hd Hdn Hnr HB HB1.
    apply (next_result zst z_n z_awaited (fun _ i => i) z_handle false true z_order (fun _ => None) (fun _ => false) z_finish (fun s => s)
           z_drop m_final z_Q Z1 Z2 Z3 Z4 Z5 Z6 Z7 Z8 (fun _ _ _ _ _ _ => I) Z10 Z11 Z12 Z13 (fun _ _ _ _ _ => I)
           (fun _ => eq_refl) (fun _ _ _ => eq_refl) (fun _ _ => I) (fun _ => eq_refl) (fun _ _ _ => eq_refl) (fun _ _ => I)
           zmut (fun w _ _ _ H => H) (fun _ _ => true) (fun _ _ _ _ _ => eq_refl) (fun _ _ _ _ _ _ _ _ H => H) z_n (fun _ _ _ H _ => H) (fun s i a _ _ _ => conj (Z1 s i a) (fun _ _ _ => conj eq_refl eq_refl)) (fun s is s1 _ E => conj (Z10 s is s1 E) (fun _ _ _ => conj eq_refl eq_refl)) (fun s _ => conj (eq_refl) (fun _ _ _ => conj eq_refl eq_refl)) (fun s _ => conj eq_refl (fun _ _ _ => conj eq_refl eq_refl)) z_abort_panic (fun a => a <> APanic) (fun _ H => H) APend_not_panic TSz TSz (fun s i a s' e _ _ _ => USz_cont s i a s' e) TSz_order (fun s _ H _ => H) (fun _ s H => H) TSz_order_some).
    - apply zip_Inv_run.
    - apply zip_LiveI_run.
    - split; assumption.
    - exact Hd.
    - exact Hf.
    - exact HB.
    - exact HB1.
    - intros r j Hj [Hd' _] Ha.
      destruct (rounds_is_run zst z_n z_awaited (fun _ i => i) z_handle false true z_order (fun _ => None) (fun _ => false) z_finish (fun s => s)
                  z_drop m_final zmut r (zrun w0 ops)) as [ops' Hops].
      assert (E : zrun (zrun w0 ops) ops' = zrun w0 (ops ++ ops')) by (unfold run_ops; rewrite fold_left_app; reflexivity).
      pose proof (PWz_run (ops ++ ops') w0 PWz_init) as [Hl Hm]. rewrite <- E, <- Hops in Hl, Hm.
      pose proof (PWz_run ops w0 PWz_init) as [Hl0 _]. assert (Hj' : j < n) by (rewrite <- Hl0; exact Hj). specialize (Hm Hd' j Hj'). unfold rem.
      destruct (nth j (scripts zst (zrounds r (zrun w0 ops))) []); [discriminate|cbn; lia].
    - intros s HQ HT. apply TSz_some; auto.
  Qed.
End ZipLive.
Print Assumptions zip_next_result.
