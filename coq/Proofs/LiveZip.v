(* ScanFull.next_result for zip: after ANY history, as long as the zip has not ended and has not been dropped, the wake-driven executor obtains
   the next result - a row, or None - within B rounds, B a bound on the remaining script lengths; inputs whose scripts reach their End and never
   panic. *)
From Coq Require Import List Arith Bool Lia.
Import ListNotations.
Require Import ScanFull InstsFull ObligMZ C08Merge Counting.

Lemma z_cases s i a :
  match a with
  | AItem v => let st' := upd (z_pst s) i PReady in let out' := upd (z_out s) i (Some v) in
      z_handle s i a = if forallb is_ready st'
                       then ({| z_pst := map (fun _ => PPending) st'; z_out := map (fun _ => None) out'; z_done := z_done s |}, Stop RAll (OSome None (all_vals out')), [])
                       else ({| z_pst := st'; z_out := out'; z_done := z_done s |}, Cont, [])
  | AEnd => z_handle s i a = ({| z_pst := z_pst s; z_out := z_out s; z_done := true |}, Stop RNone ONone, [])
  | APanic => z_handle s i a = (s, Abort, [])
  | _ => z_handle s i a = (s, Cont, [])
  end.
Proof. destruct a as [|r|v| |]; reflexivity. Qed.

Lemma out_eq_none' (o: out) : {o = ONone} + {o <> ONone}.
Proof. destruct o; [right|right|right|right|right|left]; try discriminate; reflexivity. Qed.
Lemma results_In' t o : In o (results t) -> In (EEndR o) t.
Proof. induction t as [|e t IH]; cbn; [auto|]. destruct e; cbn; try (intros H; right; apply IH, H). intros [<-|H]; [left; reflexivity|right; apply IH, H]. Qed.

Section ZipLive.
  Variable scs : list (list step).
  Let n := length scs.
  Hypothesis Hend : forall i, i < n -> ended (nth i scs []) = true.
  Hypothesis Hnp : forall m st, In st (nth m scs []) -> answer st <> APanic.

  Definition TSz (s: zst) := z_done s = false /\ forallb is_ready (z_pst s) = false.
  Lemma USz_cont s i a s' e : TSz s -> z_awaited s i = true -> z_handle s i a = (s', Cont, e) -> TSz s'.
  Proof.
    intros [Hd Hf] _ Hh. pose proof (z_cases s i a) as X. cbn zeta in X.
    destruct a as [|r|v| |]; rewrite X in Hh; try (inversion Hh; subst; split; assumption); try discriminate.
    destruct (forallb is_ready (upd (z_pst s) i PReady)) eqn:E; inversion Hh; subst. split; [exact Hd|exact E].
  Qed.
  Lemma TSz_order s is s1 : TSz s -> z_order s = Some (is, s1) -> TSz s1.
  Proof. intros H E. destruct (z_order_some _ _ _ E) as [_ ->]. exact H. Qed.
  Lemma TSz_order_some s : TSz s -> z_order s <> None.
  Proof. intros [Hd _]. unfold z_order. rewrite Hd. discriminate. Qed.
  Lemma z_abort_panic s i a s' e : z_handle s i a = (s', Abort, e) -> a = APanic.
  Proof.
    intros Hh. pose proof (z_cases s i a) as X. cbn zeta in X. destruct a as [|r|v| |]; rewrite X in Hh; try discriminate; auto.
    destruct (forallb _ _); discriminate.
  Qed.
  Lemma forallb_false_nth l : forallb is_ready l = false -> exists j, j < length l /\ is_ready (nth j l PReady) = false.
  Proof.
    induction l as [|p l IH]; cbn; [discriminate|]. destruct (is_ready p) eqn:E; cbn.
    - intros H. destruct (IH H) as (j & Hj & Hp). exists (S j). split; [lia|exact Hp].
    - intros _. exists 0. split; [lia|exact E].
  Qed.
  Lemma TSz_some s : z_Q s -> TSz s -> exists j, j < z_n s /\ z_awaited s j = true.
  Proof. intros _ [_ Hf]. destruct (forallb_false_nth _ Hf) as (j & Hj & Hp). exists j. split; [exact Hj|]. unfold z_awaited. rewrite Hp. reflexivity. Qed.
  (* script invariant: while the zip has not seen an End, every input's remaining script still reaches its End *)
  Definition Pz (s: zst) (sc: list (list step)) : Prop := length (z_pst s) = n /\ (z_done s = false -> forall i, i < n -> ended (nth i sc []) = true).
  Lemma Pz_handle : forall s sc i stp sc', z_awaited s i = true -> i < z_n s ->
      (stp, sc') = (match nth i sc [] with [] => ({| fires := []; answer := APend |}, sc) | x :: rest => (x, upd sc i rest) end) ->
      Pz s sc -> Pz (fst (fst (z_handle s i (answer stp)))) sc'.
  Proof.
    intros s sc i stp sc' Ha Hi Hpop [Hl Hm]. unfold z_n in Hi.
    assert (Hsc : forall j, j <> i -> nth j sc' [] = nth j sc []).
    { intros j Hne. destruct (nth i sc []); inversion Hpop; subst; auto. rewrite nth_upd_other by auto. reflexivity. }
    assert (Hsi : z_done s = false -> answer stp <> AEnd -> ended (nth i sc' []) = true).
    { intros Hd Hne. specialize (Hm Hd i ltac:(lia)). destruct (nth i sc []) as [|x rest] eqn:E; [discriminate|].
      inversion Hpop; subst stp sc'.
      assert (Hisc : i < length sc) by (destruct (Nat.lt_ge_cases i (length sc)); auto; rewrite nth_overflow in E by auto; discriminate).
      rewrite nth_upd_same by exact Hisc. cbn [ended existsb] in Hm. destruct (answer x) as [|r|v| |]; cbn in Hm; try exact Hm. exfalso. apply Hne. reflexivity. }
    assert (Hkeep : forall s', length (z_pst s') = n -> z_done s' = z_done s -> answer stp <> AEnd -> Pz s' sc').
    { intros s' L D Hne. split; [exact L|]. rewrite D. intros Hd j Hj. destruct (Nat.eq_dec j i) as [->|Hji]; [apply Hsi; auto|rewrite Hsc by exact Hji; apply Hm; auto]. }
    pose proof (z_cases s i (answer stp)) as X. cbn zeta in X.
    destruct (answer stp) as [|r|v| |] eqn:Ea; rewrite X; cbn [fst].
    - apply Hkeep; auto; discriminate.
    - apply Hkeep; auto; discriminate.
    - destruct (forallb is_ready (upd (z_pst s) i PReady)); cbn [fst]; apply Hkeep; cbn; rewrite ?map_length, ?upd_length; auto; discriminate.
    - split; [exact Hl|]. cbn. intros; discriminate.
    - apply Hkeep; auto; discriminate.
  Qed.
  Lemma Pz_order s is s1 sc : z_order s = Some (is, s1) -> Pz s sc -> Pz s1 sc.
  Proof. intros E H. destruct (z_order_some _ _ _ E) as [_ ->]. exact H. Qed.

  Definition w0 := mk_world {| z_pst := repeat PPending (length scs); z_out := repeat None (length scs); z_done := false |} true (length scs) scs.
  Notation zstep := (step_op zst z_n z_awaited (fun _ i => i) z_handle false true z_order (fun _ => None) (fun _ => false) z_finish (fun s => s) z_drop m_final zmut).
  Notation zrun := (run_ops zst z_n z_awaited (fun _ i => i) z_handle false true z_order (fun _ => None) (fun _ => false) z_finish (fun s => s) z_drop m_final zmut).
  Notation zrounds := (rounds zst z_n z_awaited (fun _ i => i) z_handle false true z_order (fun _ => None) (fun _ => false) z_finish (fun s => s) z_drop m_final zmut).
  Definition PWz (w: world zst) := Pz (cs _ w) (scripts _ w).
  Lemma PWz_step w o : PWz w -> PWz (zstep w o).
  Proof.
    intros HP. destruct o as [| |c k| |m a sc]; cbn [step_op].
    1,2: destruct (finished zst w || dropped zst w); [exact HP|];
      apply (poll_P zst z_n z_awaited (fun _ i => i) z_handle false true z_order (fun _ => None) (fun _ => false) z_finish (fun s => s) z_drop m_final z_Q
                 Z1 Z8 Z10 Z12 Pz Pz_handle Pz_order (fun _ _ H => H) (fun _ _ H => H) (fun _ _ _ => I)); exact HP.
    - destruct (fire_handle_pass zst z_n (emit zst w [EO]) c k) as [Hc Hs]. unfold PWz. rewrite Hc, Hs. exact HP.
    - destruct (dropped zst w); exact HP.
    - destruct (dropped zst w); exact HP.
  Qed.
  Lemma PWz_run ops : forall w, PWz w -> PWz (zrun w ops).
  Proof. induction ops as [|o r IH]; intros w HP; cbn; auto. apply IH, PWz_step, HP. Qed.
  Lemma PWz_init : PWz w0.
  Proof. unfold PWz, Pz, w0, mk_world; cbn. rewrite repeat_length. split; [reflexivity|]. intros _ i Hi. apply Hend. exact Hi. Qed.

  Lemma zip_LiveI_run ops : LiveI zst z_n (fun _ i => i) (fun _ _ => true) z_n (fun a => a <> APanic) (zrun w0 ops).
  Proof.
    apply (LiveI_run zst z_n z_awaited (fun _ i => i) z_handle false true z_order (fun _ => None) (fun _ => false) z_finish (fun s => s)
           z_drop m_final z_Q Z1 Z2 Z3 Z4 Z5 Z6 Z7 Z8 (fun _ _ _ _ _ _ => I) Z10 Z11 Z12 Z13 (fun _ _ _ _ _ => I)
           (fun _ => eq_refl) (fun _ _ _ => eq_refl) (fun _ _ => I) (fun _ => eq_refl) (fun _ _ _ => eq_refl) (fun _ _ => I)
           zmut (fun w _ _ _ H => H) (fun _ _ => true) (fun _ _ _ _ _ => eq_refl) (fun _ _ _ _ _ _ _ _ H => H) z_n (fun _ _ _ H _ => H) (fun s i a _ _ _ => conj (Z1 s i a) (fun _ _ _ => conj eq_refl eq_refl)) (fun s is s1 _ E => conj (Z10 s is s1 E) (fun _ _ _ => conj eq_refl eq_refl)) (fun s _ => conj (eq_refl) (fun _ _ _ => conj eq_refl eq_refl)) (fun s _ => conj eq_refl (fun _ _ _ => conj eq_refl eq_refl)) z_abort_panic (fun a => a <> APanic) (fun _ H => H) APend_not_panic TSz (fun s i a s' e _ _ _ => USz_cont s i a s' e) (fun _ => True) (fun w _ _ _ _ H _ => H)).
    - apply zip_init.
    - split; [reflexivity|]. split; [exact Hnp|].
      unfold HT, N, z_n, polled. cbn. rewrite !repeat_length. split; [reflexivity|]. split; [reflexivity|].
      intros c Hc _. rewrite !repeat_nth by exact Hc. split; [intros h []|discriminate].
    - apply Forall_forall. intros o _. destruct o; exact I.
  Qed.
  Lemma zip_Inv_run ops : Inv zst z_n z_awaited z_Q (zrun w0 ops).
  Proof.
    apply (Inv_run zst z_n z_awaited (fun _ i => i) z_handle false true z_order (fun _ => None) (fun _ => false) z_finish (fun s => s)
           z_drop m_final z_Q Z1 Z2 Z3 Z4 Z5 Z6 Z7 Z8 (fun _ _ _ _ _ _ => I) Z10 Z11 Z12 Z13 (fun _ _ _ _ _ => I)
           (fun _ => eq_refl) (fun _ _ _ => eq_refl) (fun _ _ => I) (fun _ => eq_refl) (fun _ _ _ => eq_refl) (fun _ _ => I)
           zmut (fun w _ _ _ H => H)). apply zip_init.
  Qed.

  Theorem zip_next_result ops B : let w := zrun w0 ops in
    finished _ w = false -> dropped _ w = false -> z_done (cs _ w) = false -> forallb is_ready (z_pst (cs _ w)) = false ->
    (forall j, length (nth j (scripts _ w) []) <= B) -> 1 <= B ->
    exists r, r < B /\ dropped _ (zrounds (S r) w) = false /\ g_retpend _ (zrounds (S r) w) = false /\
              (forall r', r' <= r -> finished _ (zrounds r' w) = false) /\
              exists u o, tr _ (zrounds (S r) w) = tr _ (zrounds r w) ++ u ++ [EEndR o].
  Proof.
    cbv zeta. intros Hf Hd Hdn Hnr HB HB1.
    apply (next_result zst z_n z_awaited (fun _ i => i) z_handle false true z_order (fun _ => None) (fun _ => false) z_finish (fun s => s)
           z_drop m_final z_Q Z1 Z2 Z3 Z4 Z5 Z6 Z7 Z8 (fun _ _ _ _ _ _ => I) Z10 Z11 Z12 Z13 (fun _ _ _ _ _ => I)
           (fun _ => eq_refl) (fun _ _ _ => eq_refl) (fun _ _ => I) (fun _ => eq_refl) (fun _ _ _ => eq_refl) (fun _ _ => I)
           zmut (fun w _ _ _ H => H) (fun _ _ => true) (fun _ _ _ _ _ => eq_refl) (fun _ _ _ _ _ _ _ _ H => H) z_n (fun _ _ _ H _ => H) (fun s i a _ _ _ => conj (Z1 s i a) (fun _ _ _ => conj eq_refl eq_refl)) (fun s is s1 _ E => conj (Z10 s is s1 E) (fun _ _ _ => conj eq_refl eq_refl)) (fun s _ => conj (eq_refl) (fun _ _ _ => conj eq_refl eq_refl)) (fun s _ => conj eq_refl (fun _ _ _ => conj eq_refl eq_refl)) z_abort_panic (fun a => a <> APanic) (fun _ H => H) APend_not_panic TSz TSz (fun s i a s' e _ _ _ => USz_cont s i a s' e) TSz_order (fun s _ H _ => H) (fun _ s H => H) TSz_order_some).
    - apply zip_Inv_run.
    - apply zip_LiveI_run.
    - split; assumption.
    - exact Hd.
    - exact Hf.
    - exact HB.
    - exact HB1.
    - intros r j Hj [Hd' _] Ha.
      destruct (rounds_is_run zst z_n z_awaited (fun _ i => i) z_handle false true z_order (fun _ => None) (fun _ => false) z_finish (fun s => s)
                  z_drop m_final zmut r (zrun w0 ops)) as [ops' Hops].
      assert (E : zrun (zrun w0 ops) ops' = zrun w0 (ops ++ ops')) by (unfold run_ops; rewrite fold_left_app; reflexivity).
      pose proof (PWz_run (ops ++ ops') w0 PWz_init) as [Hl Hm]. rewrite <- E, <- Hops in Hl, Hm.
      pose proof (PWz_run ops w0 PWz_init) as [Hl0 _]. assert (Hj' : j < n) by (rewrite <- Hl0; exact Hj). specialize (Hm Hd' j Hj'). unfold rem.
      destruct (nth j (scripts zst (zrounds r (zrun w0 ops))) []); [discriminate|cbn; lia].
    - intros s HQ HT. apply TSz_some; auto.
  Qed.
  (* ---- the zipped stream ends: None is returned once an input has ended ---- *)
  Hypothesis Hn : 0 < n.
  Definition buf0 (s: zst) : nat := if is_ready (nth 0 (z_pst s) PReady) then 1 else 0.
  (* Jz: between any two steps the current row is incomplete, and an input has ended only if None has been returned *)
  Definition Jz (s: zst) (rs: list out) : Prop := length (z_pst s) = n /\ forallb is_ready (z_pst s) = false /\ (z_done s = true -> In ONone rs).
  (* items of input 0 still scripted + its buffered item + rows returned is invariant; N0 a lower bound on the rows; B a bound on every script length *)
  Definition Rz (C N0 B: nat) (s: zst) (sc: list (list step)) (rs: list out) : Prop :=
    Jz s rs /\ nitems (nth 0 sc []) + buf0 s + nsome rs = C /\ N0 <= nsome rs /\ forall k, length (nth k sc []) <= B.
  Lemma forallb_reset (l: list pstate) : l <> [] -> forallb is_ready (map (fun _ => PPending) l) = false.
  Proof. destruct l; [contradiction|reflexivity]. Qed.
  Lemma all_ready_nth l j : forallb is_ready l = true -> is_ready (nth j l PReady) = true.
  Proof. intros H. destruct (Nat.lt_ge_cases j (length l)) as [L|G]; [|rewrite nth_overflow by exact G; reflexivity]. rewrite forallb_forall in H. apply H, nth_In, L. Qed.
  Section ZDrain.
    Variables C N0 B : nat.
    Lemma Rz_step s sc rs i stp sc' s' a e : z_awaited s i = true -> i < z_n s -> (stp, sc') = popped_of zst (fun _ i => i) s sc i ->
      Rz C N0 B s sc rs -> z_handle s i (answer stp) = (s', a, e) ->
      match a with Cont => Rz C N0 B s' sc' rs | Stop r o => Rz C N0 B s' sc' (rs ++ [o]) | Abort => Rz C N0 B s sc' rs end.
    Proof.
      intros Ha Hi E ((Hl & Hf & Hdn) & Hc & Hlo & Hb) Eh. unfold Jz. change (popped_of zst (fun _ i => i) s sc i) with (pop_at sc i) in E.
      pose proof (pop_at_len sc i B Hb) as Hl'. rewrite <- E in Hl'. cbn [snd] in Hl'.
      assert (H0 : nitems (nth 0 sc' []) + (if i =? 0 then match answer stp with AItem _ => 1 | _ => 0 end else 0) = nitems (nth 0 sc [])).
      { destruct (Nat.eqb_spec i 0) as [->|Hne]; [pose proof (pop_at_self sc 0) as X; rewrite <- E in X; exact X|].
        pose proof (pop_at_other sc i 0 ltac:(lia)) as X. rewrite <- E in X. cbn [snd] in X. rewrite X. lia. }
      assert (Hnr0 : i = 0 -> buf0 s = 0).
      { intros ->. unfold buf0. unfold z_awaited in Ha. apply negb_true_iff in Ha. rewrite Ha. reflexivity. }
      assert (Hne : z_pst s <> []) by (intros X; rewrite X in Hl; cbn in Hl; lia).
      pose proof (z_cases s i (answer stp)) as X. cbn zeta in X. unfold z_n in Hi.
      destruct (answer stp) as [|r|v| |] eqn:Ea; rewrite X in Eh.
      - inversion Eh; subst s' a e; unfold Rz; cbn beta iota. split; [split; [exact Hl|split; [exact Hf|exact Hdn]]|]. split; [destruct (i =? 0); lia|]. split; [exact Hlo|exact Hl'].
      - inversion Eh; subst s' a e; unfold Rz; cbn beta iota. split; [split; [exact Hl|split; [exact Hf|exact Hdn]]|]. split; [destruct (i =? 0); lia|]. split; [exact Hlo|exact Hl'].
      - destruct (forallb is_ready (upd (z_pst s) i PReady)) eqn:Er; inversion Eh; subst s' a e; unfold Rz; cbn beta iota.
        + (* the row is complete: returned, every input awaited again *)
          rewrite nsome_app. split; [split; [cbn; rewrite map_length, upd_length; exact Hl|split; [cbn; apply forallb_reset; intros Y; apply Hne; destruct (z_pst s); [reflexivity|destruct i; discriminate]|cbn; intros D; apply in_or_app; left; apply Hdn, D]]|].
          assert (Hb0 : buf0 {| z_pst := map (fun _ => PPending) (upd (z_pst s) i PReady); z_out := map (fun _ => None) (upd (z_out s) i (Some v)); z_done := z_done s |} = 0).
          { unfold buf0. cbn [z_pst]. destruct (z_pst s) as [|p l]; [contradiction|]. destruct i; reflexivity. }
          rewrite Hb0. replace (nsome [OSome None (all_vals (upd (z_out s) i (Some v)))]) with 1 by reflexivity. split; [|split; [lia|exact Hl']].
          destruct (Nat.eqb_spec i 0) as [->|Hi0]; [rewrite (Hnr0 eq_refl) in Hc; lia|].
          assert (Hb1 : buf0 s = 1).
          { unfold buf0. pose proof (all_ready_nth _ 0 Er) as Y. rewrite nth_upd_other in Y by auto. rewrite Y. reflexivity. }
          lia.
        + split; [split; [cbn; rewrite upd_length; exact Hl|split; [exact Er|exact Hdn]]|]. split; [|split; [exact Hlo|exact Hl']].
          destruct (Nat.eqb_spec i 0) as [->|Hi0].
          * rewrite (Hnr0 eq_refl) in Hc. unfold buf0. cbn [z_pst]. rewrite nth_upd_same by lia. cbn. lia.
          * unfold buf0 in *. cbn [z_pst]. rewrite nth_upd_other by auto. lia.
      - inversion Eh; subst s' a e; unfold Rz; cbn beta iota. rewrite nsome_app. split; [split; [exact Hl|split; [exact Hf|intros _; apply in_or_app; right; left; reflexivity]]|].
        unfold buf0 in *. cbn [z_pst]. replace (nsome [ONone]) with 0 by reflexivity. split; [destruct (i =? 0); lia|]. split; [lia|exact Hl'].
      - inversion Eh; subst s' a e; unfold Rz; cbn beta iota. split; [split; [exact Hl|split; [exact Hf|exact Hdn]]|]. split; [destruct (i =? 0); lia|]. split; [exact Hlo|exact Hl'].
    Qed.
    Lemma Rz_cont s sc rs i stp sc' s' e : z_awaited s i = true -> i < z_n s -> (stp, sc') = popped_of zst (fun _ i => i) s sc i ->
      Rz C N0 B s sc rs -> z_handle s i (answer stp) = (s', Cont, e) -> Rz C N0 B s' sc' rs.
    Proof. intros Ha Hi E HR Eh. exact (Rz_step s sc rs i stp sc' s' Cont e Ha Hi E HR Eh). Qed.
    Lemma Rz_stop s sc rs i stp sc' s' r o e : z_awaited s i = true -> i < z_n s -> (stp, sc') = popped_of zst (fun _ i => i) s sc i ->
      Rz C N0 B s sc rs -> z_handle s i (answer stp) = (s', Stop r o, e) -> Rz C N0 B s' sc' (rs ++ [o]).
    Proof. intros Ha Hi E HR Eh. exact (Rz_step s sc rs i stp sc' s' (Stop r o) e Ha Hi E HR Eh). Qed.
    Lemma Rz_abort s sc rs i stp sc' s' e : z_awaited s i = true -> i < z_n s -> (stp, sc') = popped_of zst (fun _ i => i) s sc i ->
      Rz C N0 B s sc rs -> z_handle s i (answer stp) = (s', Abort, e) -> Rz C N0 B s sc' rs.
    Proof. intros Ha Hi E HR Eh. exact (Rz_step s sc rs i stp sc' s' Abort e Ha Hi E HR Eh). Qed.
    Lemma Rz_order s is s1 sc rs : z_order s = Some (is, s1) -> Rz C N0 B s sc rs -> Rz C N0 B s1 sc rs.
    Proof. intros E H. destruct (z_order_some _ _ _ E) as [_ ->]. exact H. Qed.
  End ZDrain.

  Lemma z_hnores s i a : no_results (snd (z_handle s i a)).
  Proof. pose proof (z_cases s i a) as X. cbn zeta in X. destruct a as [|r|v| |]; rewrite X; try reflexivity. destruct (forallb _ _); reflexivity. Qed.
  Lemma drop_vals_nores ps its : results (drop_vals ps its) = [].
  Proof. revert its. induction ps as [|p ps IH]; intros [|[v|] its]; cbn; auto; destruct p; cbn; auto. Qed.
  Lemma z_dnores s : no_results (z_drop s).
  Proof. unfold no_results, z_drop. rewrite results_app, drop_vals_nores. unfold drop_all_children. induction (seq 0 (z_n s)); cbn; auto. Qed.
  Lemma Rz_run C N0 B ops : forall w, Rz C N0 B (cs _ w) (scripts _ w) (results (tr _ w)) ->
    Rz C N0 B (cs _ (zrun w ops)) (scripts _ (zrun w ops)) (results (tr _ (zrun w ops))).
  Proof.
    apply (RW_run zst z_n z_awaited (fun _ i => i) z_handle false true z_order (fun _ => None) (fun _ => false) z_finish (fun s => s) z_drop m_final z_Q
           Z1 Z8 (fun _ _ _ _ _ _ => I) Z10 Z12 zmut (Rz C N0 B) (Rz_cont C N0 B) (Rz_stop C N0 B) (Rz_abort C N0 B) (Rz_order C N0 B)
           (fun _ _ _ H => H) (fun s sc rs o _ (E: None = Some o) => match E with end) (fun _ _ _ _ => I) z_hnores z_dnores (fun w _ _ _ H => H) ops).
  Qed.
  Lemma zrun_app w a b : zrun (zrun w a) b = zrun w (a ++ b).
  Proof. unfold run_ops. rewrite fold_left_app. reflexivity. Qed.
  Lemma Jz_run ops : Jz (cs _ (zrun w0 ops)) (results (tr _ (zrun w0 ops))).
  Proof.
    pose proof (Rz_run (nitems (nth 0 scs [])) 0 (list_max (map (@length step) scs)) ops w0) as H. apply H.
    assert (Hpos : exists m, length scs = S m) by (exists (length scs - 1); unfold n in Hn; lia). destruct Hpos as [m Em].
    unfold Rz, Jz, buf0, w0, mk_world. cbn [cs scripts tr z_pst z_done results flat_map]. rewrite repeat_length. unfold n. rewrite Em.
    cbn [repeat nth forallb is_ready andb]. split; [split; [reflexivity|split; [reflexivity|discriminate]]|].
    split; [unfold nsome; cbn; lia|]. split; [lia|].
    intros k. destruct (Nat.lt_ge_cases k (length scs)) as [L|G]; [|rewrite nth_overflow by exact G; cbn; lia].
    pose proof (proj1 (list_max_le (map (@length step) scs) (list_max (map (@length step) scs))) (Nat.le_refl _)) as Hle.
    rewrite Forall_forall in Hle. apply Hle. apply in_map. apply nth_In. exact L.
  Qed.

  (* after any history, while it has not been dropped: within (k + 1) * B rounds the zipped stream has returned None - k the number of items input 0
     has still scripted, plus one if its item for the current row is buffered, B any bound on the remaining script lengths *)
  Theorem zip_ends B : 1 <= B -> forall k ops, let w := zrun w0 ops in
    finished _ w = false -> dropped _ w = false -> nitems (nth 0 (scripts _ w) []) + buf0 (cs _ w) <= k -> (forall j, length (nth j (scripts _ w) []) <= B) ->
    exists R, R <= (k + 1) * B /\ let w' := zrounds R w in
      dropped _ w' = false /\ In (EEndR ONone) (tr _ w') /\ exists ops', w' = zrun w0 ops'.
  Proof.
    intros HB1. induction k as [|k IH]; intros ops w Hf Hd Hk HB;
      pose proof (Jz_run ops) as HJ; fold w in HJ; pose proof HJ as (HJl & HJf & HJd);
      (destruct (z_done (cs _ w)) eqn:Edn;
        [exists 0; split; [lia|]; cbn [rounds]; split; [exact Hd|]; split; [apply results_In', HJd; reflexivity|exists ops; reflexivity]|]);
      destruct (zip_next_result ops B Hf Hd Edn HJf HB HB1) as (r & Hr & Hd1 & _ & Hfin & u & o & Hu); fold w in Hd1, Hfin, Hu;
      destruct (rounds_is_run zst z_n z_awaited (fun _ i => i) z_handle false true z_order (fun _ => None) (fun _ => false) z_finish (fun s => s) z_drop m_final zmut (S r) w) as [ops1 E1];
      destruct (rounds_is_run zst z_n z_awaited (fun _ i => i) z_handle false true z_order (fun _ => None) (fun _ => false) z_finish (fun s => s) z_drop m_final zmut r w) as [opsr Er];
      set (C := nitems (nth 0 (scripts _ w) []) + buf0 (cs _ w) + nsome (results (tr _ w))); set (N0 := nsome (results (tr _ w)));
      (assert (HR0 : Rz C N0 B (cs _ w) (scripts _ w) (results (tr _ w))) by (split; [exact HJ|split; [reflexivity|split; [apply Nat.le_refl|exact HB]]]));
      pose proof (Rz_run C N0 B ops1 w HR0) as HR1; rewrite <- E1 in HR1; pose proof (Rz_run C N0 B opsr w HR0) as HRr; rewrite <- Er in HRr;
      destruct HR1 as (_ & Hc1 & _ & Hb1); destruct HRr as (_ & _ & Hlor & _);
      rewrite Hu, !results_app, !nsome_app in Hc1; cbn [results flat_map] in Hc1;
      (assert (Hreach : zrounds (S r) w = zrun w0 (ops ++ ops1)) by (rewrite E1; unfold w; apply zrun_app));
      (destruct (out_eq_none' o) as [->|Hno];
        [exists (S r); split; [nia|]; cbv zeta; split; [exact Hd1|]; split; [rewrite Hu; apply in_or_app; right; apply in_or_app; right; left; reflexivity|exists (ops ++ ops1); exact Hreach]|]);
      (assert (Hns : nsome [o] = 1) by (destruct o; try reflexivity; exfalso; apply Hno; reflexivity));
      (assert (Hlt : nitems (nth 0 (scripts _ (zrounds (S r) w)) []) + buf0 (cs _ (zrounds (S r) w)) < nitems (nth 0 (scripts _ w) []) + buf0 (cs _ w)) by (unfold C, N0 in *; rewrite Hns in Hc1; lia)).
    - lia.
    - assert (Hf1 : finished _ (zrounds (S r) w) = false).
      { rewrite rounds_S.
        assert (Ewr : zrounds r w = zrun w0 (ops ++ opsr)) by (rewrite Er; unfold w; apply zrun_app).
        assert (Hcases : finished _ (round zst z_n z_awaited (fun _ i => i) z_handle false true z_order (fun _ => None) (fun _ => false) z_finish (fun s => s) z_drop m_final zmut (zrounds r w)) = false \/
                         exists u' o', m_final o' = true /\ tr _ (round zst z_n z_awaited (fun _ i => i) z_handle false true z_order (fun _ => None) (fun _ => false) z_finish (fun s => s) z_drop m_final zmut (zrounds r w)) = tr _ (zrounds r w) ++ u' ++ [EEndR o']).
        { eapply (round_finished_cases zst z_n z_awaited (fun _ i => i) z_handle false true z_order (fun _ => None) (fun _ => false) z_finish (fun s => s) z_drop m_final z_Q)
            with (occ := fun _ _ => true) (nmem := z_n) (okans := fun a => a <> APanic) (US := TSz);
            try first [exact Z1|exact Z2|exact Z3|exact Z4|exact Z5|exact Z6|exact Z7|exact Z8|exact Z10|exact Z11|exact Z12|exact Z13
                      |exact (fun _ _ _ _ _ _ => I)|exact (fun _ _ _ _ _ => I)|exact (fun _ _ => I)|exact (fun _ H => H)
                      |exact (fun _ => eq_refl)|exact (fun _ _ _ => eq_refl)|exact (fun w _ _ _ H => H)|exact (fun _ _ _ _ _ => eq_refl)
                      |exact (fun _ _ _ _ _ _ _ _ H => H)|exact (fun _ _ _ H _ => H)|exact (fun s i a _ _ _ => conj (Z1 s i a) (fun _ _ _ => conj eq_refl eq_refl))
                      |exact (fun s is s1 _ E => conj (Z10 s is s1 E) (fun _ _ _ => conj eq_refl eq_refl))|exact (fun s _ => conj eq_refl (fun _ _ _ => conj eq_refl eq_refl))
                      |exact z_abort_panic|exact APend_not_panic|exact (fun s i a s' e _ _ _ => USz_cont s i a s' e)].
          all: first [rewrite Ewr; apply zip_Inv_run | rewrite Ewr; apply zip_LiveI_run | apply Hfin; lia | rewrite <- rounds_S; exact Hd1 | idtac].
          destruct (dropped _ (zrounds r w)) eqn:Edr; [|reflexivity]. exfalso.
          pose proof (round_dropped zst z_n z_awaited (fun _ i => i) z_handle false true z_order (fun _ => None) (fun _ => false) z_finish (fun s => s) z_drop m_final zmut (zrounds r w) Edr) as X.
          rewrite <- rounds_S in X. congruence. }
        destruct Hcases as [X|(u' & o' & Ho' & Hu')]; [exact X|].
        exfalso. rewrite <- rounds_S, Hu in Hu'. apply app_inv_head in Hu'.
        assert (E' : last (u ++ [EEndR o]) EO = last (u' ++ [EEndR o']) EO) by (rewrite Hu'; reflexivity). rewrite !last_last in E'. inversion E'; subst o'.
        apply Hno. destruct o; discriminate. }
      destruct (IH (ops ++ ops1)) as (R & HRb & Hd2 & Hin2 & ops' & Ho').
      + rewrite <- Hreach. exact Hf1.
      + rewrite <- Hreach. exact Hd1.
      + rewrite <- Hreach. lia.
      + rewrite <- Hreach. exact Hb1.
      + rewrite <- Hreach in *. exists (S r + R). split; [nia|]. cbv zeta.
        rewrite (rounds_add zst z_n z_awaited (fun _ i => i) z_handle false true z_order (fun _ => None) (fun _ => false) z_finish (fun s => s) z_drop m_final zmut (S r) R w).
        split; [exact Hd2|]. split; [exact Hin2|]. exists ops'. exact Ho'.
  Qed.
End ZipLive.
Print Assumptions zip_next_result.
