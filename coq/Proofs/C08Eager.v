From Coq Require Import List Arith Lia Bool.
Import ListNotations.
Require Import ScanFull InstsFull ObligMZ ObligGroups C08Merge C11Groups C03Merge.

(* C08, "it yields in any poll in which one of the inputs it polls has an item, without waiting for the other inputs":
   on the observable trace, an Item answer is followed - before any other child poll and before any other return - by the return of exactly that item. *)
Definition estep (st: option (option nat)) (e: ev) : option (option nat) :=      (* Some (Some v): item v answered, not yet returned *)
  match st with
  | None => None
  | Some p =>
      match e with
      | EAns (AItem v) => match p with None => Some (Some v) | Some _ => None end
      | EEndR (OSome _ [v]) => match p with Some v' => if v =? v' then Some None else None | None => None end
      | EC _ _ | EAns _ | EEndP | EEndR _ | EEndX => match p with None => Some None | Some _ => None end
      | _ => Some p
      end
  end.
Definition efold (t: list ev) : option (option nat) := fold_left estep t (Some None).
Definition eager_b (t: list ev) : bool := match efold t with Some None => true | _ => false end.
Lemma efold_app a b : efold (a ++ b) = fold_left estep b (efold a).
Proof. unfold efold. apply fold_left_app. Qed.

Definition Tg8 (s: mst) (t: list ev) : Prop := m_Q s /\ efold t = Some None.

Theorem C08_eager selective scs ops : let w := merge_run_fixed selective scs ops in
  dropped _ w = false -> eager_b (strip (tr _ w)) = true.
Proof.
  intros w Hd.
  assert (H : Tg8 (cs _ w) (strip (tr _ w))).
  { unfold w, merge_run_fixed.
    apply (TW_run mst m_n m_awaited (fun _ i => i) m_handle true true m_order m_pre_exit (fun _ => false) m_finish (fun s => s)
             (fun s => drop_all_children (m_n s)) m_final m_Q M1 M8 M9 M10 M12 mmut Tg8 Tg8); [| | | | | | | | | |intros _; split; [unfold m_Q, m_n; cbn; rewrite repeat_length; destruct (length scs); [left|right]; lia|reflexivity]|exact Hd].
    - (* U_cont *) intros s t i a s' eh wkr [HQ He] Ha Hi Hh. pose proof (M9 s i a HQ Ha Hi) as HQ'. rewrite Hh in HQ'. cbn [fst] in HQ'.
      split; [exact HQ'|]. rewrite efold_app, He.
      destruct a as [|r|v| |]; cbn in Hh; try (inversion Hh; subst; reflexivity); try discriminate.
      destruct (_ =? _); inversion Hh; subst; reflexivity.
    - (* U_stop *) intros s t i a s' r o eh wkr [HQ He] Ha Hi Hh. pose proof (M9 s i a HQ Ha Hi) as HQ'. rewrite Hh in HQ'. cbn [fst] in HQ'.
      split; [exact HQ'|]. rewrite efold_app, He.
      destruct a as [|r0|v| |]; cbn in Hh; try discriminate.
      + inversion Hh; subst. cbn. rewrite Nat.eqb_refl. reflexivity.
      + destruct (_ =? _); inversion Hh; subst. reflexivity.
    - (* T_order *) intros s is s1 t _ E [HQ He]. split; [eapply M14; eauto|exact He].
    - intros s t [HQ He]. cbn. split; [exact HQ|]. rewrite efold_app, He. reflexivity.
    - intros s t o [HQ He] E. split; [exact HQ|]. rewrite efold_app, He. unfold m_pre_exit in E. destruct (m_n s =? 0); inversion E; subst. reflexivity.
    - intros s t _ _ [HQ He]. split; [exact HQ|]. rewrite efold_app, He. reflexivity.
    - intros _ s t [HQ He]. split; [exact HQ|]. rewrite efold_app, He. reflexivity.
    - intros s t HT. apply HT.
    - intros s t HT. apply HT.
    - intros w0 m a sc _ HT _. exact HT. }
  unfold eager_b. rewrite (proj2 H). reflexivity.
Qed.
