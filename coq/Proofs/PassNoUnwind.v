From Coq Require Import List Arith Lia Bool.
Import ListNotations.
Require Import ScanFull InstsFull Pass PassProofs.

(* The pass-through combinators unwind only because a child panicked: along every history, an `EEndX` (the poll unwound) in the trace implies an
   `EAns APanic` (a child's poll panicked) in the trace.  (race over zero futures is the exception the crate documents: it panics.) *)
Definition UXs (t: list ev) : Prop := In EEndX t -> In (EAns APanic) t.
Definition clean (es: list ev) : Prop := ~ In EEndX es.
Lemma UXs_app t es : UXs t -> clean es -> UXs (t ++ es).
Proof. unfold UXs, clean. intros H C I. apply in_app_iff in I as [I|I]; [apply in_or_app; left; auto|contradiction]. Qed.
Lemma UXs_panic t es : In (EAns APanic) t -> UXs (t ++ es).
Proof. intros H _. apply in_or_app; left; exact H. Qed.
Lemma clean_app a b : clean a -> clean b -> clean (a ++ b).
Proof. unfold clean. intros A B I. apply in_app_iff in I as [I|I]; auto. Qed.
Lemma clean_strip es : clean es -> clean (strip es).
Proof. unfold clean, strip. intros C I. apply filter_In in I as [I _]. auto. Qed.
Lemma clean_map_EDc l : clean (map EDc l).
Proof. unfold clean. intros I. apply in_map_iff in I as (x & E & _). discriminate. Qed.

Section Ext.
  Variable St : Type.
  Definition Ext (w w': W St) := exists es, strip (tr St w') = strip (tr St w) ++ es /\ clean es.
  Lemma Ext_refl w : Ext w w.
  Proof. exists []. rewrite app_nil_r. split; [reflexivity|intros []]. Qed.
  Lemma Ext_trans a b c : Ext a b -> Ext b c -> Ext a c.
  Proof. intros (e1 & A & C1) (e2 & B & C2). exists (e1 ++ e2). rewrite B, A, app_assoc. split; [reflexivity|apply clean_app; auto]. Qed.
  Lemma Ext_tr w w' es : tr St w' = tr St w ++ es -> clean es -> Ext w w'.
  Proof. intros E C. exists (strip es). rewrite E, strip_app. split; [reflexivity|apply clean_strip, C]. Qed.
  Lemma Ext_same w w' : tr St w' = tr St w -> Ext w w'.
  Proof. intros E. apply (Ext_tr w w' []); [rewrite app_nil_r; exact E|intros []]. Qed.
  Lemma UX_ext w w' : Ext w w' -> UXs (strip (tr St w)) -> UXs (strip (tr St w')).
  Proof. intros (es & E & C) H. rewrite E. apply UXs_app; auto. Qed.
  Lemma panic_ext w w' : Ext w w' -> In (EAns APanic) (strip (tr St w)) -> In (EAns APanic) (strip (tr St w')).
  Proof. intros (es & E & _) H. rewrite E. apply in_or_app; left; exact H. Qed.

  Lemma poll_direct_ext (w: W St) m pid :
    Ext w (fst (poll_direct St w m pid)) /\
    (snd (poll_direct St w m pid) = APanic -> In (EAns APanic) (strip (tr St (fst (poll_direct St w m pid))))) /\
    cs St (fst (poll_direct St w m pid)) = cs St w.
  Proof.
    pose proof (poll_direct_spec St w m pid) as H. destruct (poll_direct St w m pid) as [w' a]. destruct H as (A & _ & B & _). cbn [fst snd].
    split; [|split; [|exact A]].
    - exists [EC m (WPar pid); EAns a]. split; [exact B|]. intros [I|[I|[]]]; discriminate.
    - intros ->. rewrite B. apply in_or_app; right. right; left; reflexivity.
  Qed.
  Lemma unwind_UX (w: W St) drops : In (EAns APanic) (strip (tr St w)) -> UXs (strip (tr St (unwind_p St w drops))).
  Proof. intros H. unfold unwind_p. cbn [tr set_flags emit]. rewrite strip_app. apply UXs_panic, H. Qed.
  Lemma finish_ext (w: W St) o fin : Ext w (finish_p St w o fin).
  Proof. unfold finish_p. apply (Ext_tr w _ [EEndR o]); [destruct fin; reflexivity|]. intros [I|[]]; discriminate. Qed.
  Lemma emit_ext (w: W St) es : clean es -> Ext w (emit St w es).
  Proof. intros C. apply (Ext_tr w _ es); [reflexivity|exact C]. Qed.
  Lemma begin_ext (w: W St) pid np : Ext w (begin_p St w pid np).
  Proof. unfold begin_p. apply (Ext_tr w _ [EB pid]); [reflexivity|]. intros [I|[]]; discriminate. Qed.

  (* ---- along a history ---- *)
  Variable pollf : W St -> nat -> nat -> W St.
  Variable dropsf : St -> list ev.
  Variable J : St -> Prop.
  Hypothesis poll_UX : forall w pid np, J (cs St w) -> UXs (strip (tr St w)) -> UXs (strip (tr St (pollf w pid np))) /\ J (cs St (pollf w pid np)).
  Hypothesis drops_clean : forall s, clean (dropsf s).
  Definition UXW (w: W St) := UXs (strip (tr St w)) /\ J (cs St w).
  Lemma UXW_step w o : UXW w -> UXW (p_step St pollf dropsf w o).
  Proof.
    intros [H HJ]. destruct o; cbn [p_step].
    - destruct (finished St w || dropped St w); [split; auto|]. apply poll_UX; auto.
    - destruct (finished St w || dropped St w); [split; auto|]. apply poll_UX; auto.
    - destruct (fire_handle_T St (fun _ => 0) (emit St w [EO]) c k) as (A & _ & C). split.
      + rewrite C. cbn. rewrite strip_app. cbn. rewrite app_nil_r. exact H.
      + rewrite A. exact HJ.
    - destruct (dropped St w); unfold UXW; cbn [tr cs set_flags emit]; (split; [|exact HJ]); rewrite strip_app; apply UXs_app; auto; apply clean_strip.
      + intros [I|[]]; discriminate.
      + intros [I|I]; [discriminate|]. exact (drops_clean _ I).
    - split; auto.
  Qed.
  Theorem UXW_run ops : forall w, UXW w -> UXW (fold_left (p_step St pollf dropsf) ops w).
  Proof. induction ops as [|o r IH]; intros w H; cbn; auto. apply IH, UXW_step, H. Qed.
End Ext.

Lemma clean_drops_all n : clean (drops_all n). Proof. apply clean_map_EDc. Qed.

(* ---------------- race ---------------- *)
Lemma race_scan_ext is : forall (w: W rst) pid,
  Ext rst w (fst (race_scan w is pid)) /\ (snd (race_scan w is pid) = Some None -> In (EAns APanic) (strip (tr _ (fst (race_scan w is pid))))) /\
  cs _ (fst (race_scan w is pid)) = cs _ w.
Proof.
  induction is as [|i rest IH]; intros w pid; cbn [race_scan].
  - split; [apply Ext_refl|split; [discriminate|reflexivity]].
  - pose proof (poll_direct_ext rst w i pid) as (E & P & C). destruct (poll_direct rst w i pid) as [w1 a]. cbn [fst snd] in *.
    destruct a as [|[v|v]|v| |]; cbn [fst snd].
    + destruct (IH w1 pid) as (E' & P' & C'). split; [eapply Ext_trans; eauto|split; [exact P'|congruence]].
    + split; [exact E|split; [discriminate|exact C]].
    + split; [exact E|split; [discriminate|exact C]].
    + destruct (IH w1 pid) as (E' & P' & C'). split; [eapply Ext_trans; eauto|split; [exact P'|congruence]].
    + destruct (IH w1 pid) as (E' & P' & C'). split; [eapply Ext_trans; eauto|split; [exact P'|congruence]].
    + split; [exact E|split; [intros _; apply P; reflexivity|exact C]].
Qed.
Lemma race_poll_UX w pid np : r_n (cs _ w) > 0 -> UXs (strip (tr _ w)) -> UXs (strip (tr _ (race_poll w pid np))) /\ r_n (cs _ (race_poll w pid np)) > 0.
Proof.
  intros Hn H. unfold race_poll.
  pose proof (begin_ext rst w pid np) as E0. set (w0 := begin_p rst w pid np) in *.
  assert (Hc0 : cs _ w0 = cs _ w) by reflexivity. rewrite Hc0.
  destruct (r_n (cs rst w) =? 0) eqn:Ez; [apply Nat.eqb_eq in Ez; lia|].
  set (w1 := set_cs rst w0 _).
  assert (E1 : Ext rst w w1) by (eapply Ext_trans; [exact E0|apply Ext_same; reflexivity]).
  pose proof (race_scan_ext (rot (r_n (cs rst w)) (r_off (cs rst w))) w1 pid) as (E2 & P2 & C2).
  destruct (race_scan w1 (rot (r_n (cs rst w)) (r_off (cs rst w))) pid) as [w2 [[o|]|]]; cbn [fst snd] in *.
  - split.
    + eapply UX_ext; [|exact H]. eapply Ext_trans; [exact E1|]. eapply Ext_trans; [exact E2|apply finish_ext].
    + unfold finish_p. cbn [cs set_flags emit]. rewrite C2. cbn. exact Hn.
  - split; [apply unwind_UX, P2; reflexivity|]. unfold unwind_p. cbn [cs set_flags emit]. rewrite C2. cbn. exact Hn.
  - split.
    + eapply UX_ext; [|exact H]. eapply Ext_trans; [exact E1|]. eapply Ext_trans; [exact E2|]. apply emit_ext. intros [I|[]]; discriminate.
    + cbn [cs emit]. rewrite C2. cbn. exact Hn.
Qed.
Theorem race_unwinds_only_on_child_panic scs ops :
  scs <> [] -> In EEndX (strip (tr _ (race_world scs ops))) -> In (EAns APanic) (strip (tr _ (race_world scs ops))).
Proof.
  intros Hne. unfold race_world, p_world.
  apply (UXW_run rst race_poll r_drops (fun s => r_n s > 0)).
  - intros w pid np. apply race_poll_UX.
  - intros s. apply clean_drops_all.
  - split; [intros []|]. cbn. destruct scs; [contradiction|cbn; lia].
Qed.

(* ---------------- race_ok ---------------- *)
Lemma kdone_tr (w: W kst) i : tr _ (fst (kdone w i)) = tr _ w /\ clean (snd (kdone w i)).
Proof. unfold kdone. destruct (k_kind (cs kst w) =? 2); cbn; split; auto; [intros [I|[]]; discriminate|intros []]. Qed.
Lemma rok_scan_ext is : forall (w: W kst) pid,
  Ext kst w (fst (rok_scan w is pid)) /\ (snd (rok_scan w is pid) = Some None -> In (EAns APanic) (strip (tr _ (fst (rok_scan w is pid))))).
Proof.
  induction is as [|i rest IH]; intros w pid; cbn [rok_scan].
  - split; [apply Ext_refl|discriminate].
  - destruct (nth i (k_errs (cs kst w)) None); [apply IH|].
    pose proof (poll_direct_ext kst w i pid) as (E & P & _). destruct (poll_direct kst w i pid) as [w1 a]. cbn [fst snd] in *.
    destruct a as [|[v|e]|v| |].
    + destruct (IH w1 pid) as (E' & P'). split; [eapply Ext_trans; eauto|exact P'].
    + pose proof (kdone_tr w1 i) as (K1 & K2). destruct (kdone w1 i) as [w1' ed]. cbn [fst snd] in *. split; [|discriminate].
      eapply Ext_trans; [exact E|]. apply (Ext_tr kst w1 _ ed); [cbn [tr emit]; rewrite K1; reflexivity|exact K2].
    + pose proof (kdone_tr w1 i) as (K1 & K2). destruct (kdone w1 i) as [w1' ed]. cbn [fst snd] in *.
      match goal with |- context[rok_scan ?WX rest pid] => destruct (IH WX pid) as (E' & P'); assert (EX : Ext kst w1 WX) end.
      { apply (Ext_tr kst w1 _ ed); [cbn [tr emit set_cs]; rewrite K1; reflexivity|exact K2]. }
      split; [eapply Ext_trans; [exact E|eapply Ext_trans; [exact EX|exact E']]|exact P'].
    + destruct (IH w1 pid) as (E' & P'). split; [eapply Ext_trans; eauto|exact P'].
    + destruct (IH w1 pid) as (E' & P'). split; [eapply Ext_trans; eauto|exact P'].
    + split; [exact E|intros _; apply P; reflexivity].
Qed.
Lemma rok_poll_UX w pid np : UXs (strip (tr _ w)) -> UXs (strip (tr _ (rok_poll w pid np))).
Proof.
  intros H. unfold rok_poll.
  pose proof (begin_ext kst w pid np) as E0. set (w0 := begin_p kst w pid np) in *.
  set (is := if k_kind (cs kst w0) =? 1 then rot _ _ else seq 0 _).
  set (w1 := if k_kind (cs kst w0) =? 1 then set_cs kst w0 _ else w0).
  assert (E1 : Ext kst w w1).
  { eapply Ext_trans; [exact E0|]. subst w1. destruct (k_kind (cs kst w0) =? 1); [apply Ext_same; reflexivity|apply Ext_refl]. }
  pose proof (rok_scan_ext is w1 pid) as (E2 & P2).
  destruct (rok_scan w1 is pid) as [w2 [[o|]|]]; cbn [fst snd] in *.
  - eapply UX_ext; [|exact H]. eapply Ext_trans; [exact E1|]. eapply Ext_trans; [exact E2|apply finish_ext].
  - apply unwind_UX, P2; reflexivity.
  - eapply UX_ext; [|exact H]. eapply Ext_trans; [exact E1|]. eapply Ext_trans; [exact E2|].
    destruct (k_completed (cs kst w2) =? k_n (cs kst w2)); [apply finish_ext|apply emit_ext; intros [I|[]]; discriminate].
Qed.
Lemma clean_k_drops s : clean (k_drops s).
Proof.
  unfold clean, k_drops. intros I. apply in_flat_map in I as (x & _ & I). destruct (nth x (k_gone s) false); [destruct I|destruct I as [I|[]]; discriminate].
Qed.
Theorem race_ok_unwinds_only_on_child_panic kind scs ops :
  In EEndX (strip (tr _ (race_ok_world kind scs ops))) -> In (EAns APanic) (strip (tr _ (race_ok_world kind scs ops))).
Proof.
  unfold race_ok_world, p_world.
  apply (UXW_run kst rok_poll k_drops (fun _ => True)).
  - intros w pid np _ H. split; [apply rok_poll_UX, H|exact I].
  - apply clean_k_drops.
  - split; [intros []|exact I].
Qed.

(* ---------------- chain ---------------- *)
Lemma chain_loop_UX fuel : forall (w: W cst) pid, UXs (strip (tr _ w)) -> UXs (strip (tr _ (chain_loop fuel w pid))).
Proof.
  induction fuel as [|f IH]; intros w pid H; cbn [chain_loop]; auto.
  destruct (c_idx (cs cst w) =? c_n (cs cst w)); [eapply UX_ext; [apply finish_ext|exact H]|].
  pose proof (poll_direct_ext cst w (c_idx (cs cst w)) pid) as (E & P & _). destruct (poll_direct cst w (c_idx (cs cst w)) pid) as [w1 a]. cbn [fst snd] in *.
  destruct a as [|r|v| |].
  - eapply UX_ext; [|exact H]. eapply Ext_trans; [exact E|apply emit_ext; intros [I|[]]; discriminate].
  - eapply UX_ext; [|exact H]. eapply Ext_trans; [exact E|apply emit_ext; intros [I|[]]; discriminate].
  - eapply UX_ext; [|exact H]. eapply Ext_trans; [exact E|apply finish_ext].
  - apply IH. eapply UX_ext; [|exact H]. eapply Ext_trans; [exact E|apply Ext_same; reflexivity].
  - apply unwind_UX, P; reflexivity.
Qed.
Theorem chain_unwinds_only_on_child_panic scs ops :
  In EEndX (strip (tr _ (chain_world scs ops))) -> In (EAns APanic) (strip (tr _ (chain_world scs ops))).
Proof.
  unfold chain_world, p_world.
  apply (UXW_run cst chain_poll c_drops (fun _ => True)).
  - intros w pid np _ H. split; [|exact I]. unfold chain_poll. apply chain_loop_UX. eapply UX_ext; [apply begin_ext|exact H].
  - intros s. apply clean_drops_all.
  - split; [intros []|exact I].
Qed.

(* ---------------- wait_until ---------------- *)
Lemma w_inner_UX w1 late pid : clean late -> UXs (strip (tr _ w1)) -> UXs (strip (tr _ (w_inner w1 late pid))).
Proof.
  intros Cl H. unfold w_inner.
  pose proof (poll_direct_ext ust w1 1 pid) as (E & P & _). destruct (poll_direct ust w1 1 pid) as [w2 a]. cbn [fst snd] in *.
  assert (E3 : Ext ust w1 (emit ust w2 late)) by (eapply Ext_trans; [exact E|apply emit_ext, Cl]).
  destruct a as [|[v|v]|v| |].
  - eapply UX_ext; [|exact H]. eapply Ext_trans; [exact E3|apply emit_ext; intros [I|[]]; discriminate].
  - eapply UX_ext; [|exact H]. eapply Ext_trans; [exact E3|apply finish_ext].
  - eapply UX_ext; [|exact H]. eapply Ext_trans; [exact E3|apply finish_ext].
  - eapply UX_ext; [|exact H]. eapply Ext_trans; [exact E3|apply finish_ext].
  - eapply UX_ext; [|exact H]. eapply Ext_trans; [exact E3|apply finish_ext].
  - apply unwind_UX. eapply panic_ext; [apply emit_ext, Cl|apply P; reflexivity].
Qed.
Lemma wait_poll_UX w pid np : UXs (strip (tr _ w)) -> UXs (strip (tr _ (wait_poll w pid np))).
Proof.
  intros H. rewrite wait_poll_eq. cbv zeta.
  assert (H0 : UXs (strip (tr _ (begin_p ust w pid np)))) by (eapply UX_ext; [apply begin_ext|exact H]).
  set (w0 := begin_p ust w pid np) in *.
  destruct (u_started (cs ust w0)); [apply w_inner_UX; [intros []|exact H0]|].
  pose proof (poll_direct_ext ust w0 0 pid) as (E & P & _). destruct (poll_direct ust w0 0 pid) as [w1 a]. cbn [fst snd] in *.
  assert (H1 : UXs (strip (tr _ w1))) by (eapply UX_ext; [exact E|exact H0]).
  assert (CV : forall v, clean [EV v]) by (intros v [I|[]]; discriminate).
  destruct a as [|[v|v]|v| |].
  - eapply UX_ext; [apply emit_ext; intros [I|[]]; discriminate|exact H1].
  - destruct (u_stream (cs ust w0)).
    + apply w_inner_UX; [apply CV|exact H1].
    + apply w_inner_UX; [intros []|]. eapply UX_ext; [apply (Ext_tr ust w1 _ [EV v]); [reflexivity|apply CV]|exact H1].
  - destruct (u_stream (cs ust w0)).
    + apply w_inner_UX; [apply CV|exact H1].
    + apply w_inner_UX; [intros []|]. eapply UX_ext; [apply (Ext_tr ust w1 _ [EV v]); [reflexivity|apply CV]|exact H1].
  - apply w_inner_UX; [intros []|exact H1].
  - apply w_inner_UX; [intros []|exact H1].
  - apply unwind_UX, P; reflexivity.
Qed.
Theorem wait_until_unwinds_only_on_child_panic stream scs ops :
  In EEndX (strip (tr _ (wait_world stream scs ops))) -> In (EAns APanic) (strip (tr _ (wait_world stream scs ops))).
Proof.
  unfold wait_world, p_world.
  apply (UXW_run ust wait_poll u_drops (fun _ => True)).
  - intros w pid np _ H. split; [apply wait_poll_UX, H|exact I].
  - intros s [I|[I|[]]]; discriminate.
  - split; [intros []|exact I].
Qed.

(* ---------------- when is a pass-through combinator `dropped`?  Only after a drop operation or an unwinding poll ---------------- *)
Section Dropped.
  Variable St : Type.
  Variable pollf : W St -> nat -> nat -> W St.
  Variable dropsf : St -> list ev.
  Hypothesis poll_DX : forall w pid np, dropped St w = false -> dropped St (pollf w pid np) = true -> In EEndX (strip (tr St (pollf w pid np))).
  Lemma dropped_keeps w o e : dropped St w = true -> In e (strip (tr St w)) -> In e (strip (tr St (p_step St pollf dropsf w o))).
  Proof.
    intros Hd I. destruct o; cbn [p_step].
    - rewrite Hd, orb_true_r. exact I.
    - rewrite Hd, orb_true_r. exact I.
    - destruct (fire_handle_T St (fun _ => 0) (emit St w [EO]) c k) as (_ & _ & C). rewrite C. cbn. rewrite strip_app. apply in_or_app; left; exact I.
    - rewrite Hd. cbn [tr set_flags emit]. rewrite strip_app. apply in_or_app; left; exact I.
    - exact I.
  Qed.
  Lemma dropped_stays w o : dropped St w = true -> dropped St (p_step St pollf dropsf w o) = true.
  Proof.
    intros Hd. destruct o; cbn [p_step].
    - rewrite Hd, orb_true_r. exact Hd.
    - rewrite Hd, orb_true_r. exact Hd.
    - destruct (fire_handle_T St (fun _ => 0) (emit St w [EO]) c k) as (_ & B & _). rewrite B. exact Hd.
    - rewrite Hd. reflexivity.
    - exact Hd.
  Qed.
  Lemma keeps_run ops : forall w e, dropped St w = true -> In e (strip (tr St w)) -> In e (strip (tr St (fold_left (p_step St pollf dropsf) ops w))).
  Proof. induction ops as [|o r IH]; intros w e Hd I; cbn; auto. apply IH; [apply dropped_stays, Hd|apply dropped_keeps; auto]. Qed.
  Theorem DX_run ops : forall w, dropped St w = false -> dropped St (fold_left (p_step St pollf dropsf) ops w) = true ->
    In ODrop ops \/ In EEndX (strip (tr St (fold_left (p_step St pollf dropsf) ops w))).
  Proof.
    induction ops as [|o r IH]; intros w Hd H; cbn in *; [congruence|].
    destruct (dropped St (p_step St pollf dropsf w o)) eqn:E1.
    - destruct o; cbn [p_step] in E1 |- *.
      + rewrite Hd, orb_false_r in *. destruct (finished St w); [congruence|]. right. apply keeps_run; [exact E1|apply poll_DX; auto].
      + rewrite Hd, orb_false_r in *. destruct (finished St w); [congruence|]. right. apply keeps_run; [exact E1|apply poll_DX; auto].
      + destruct (fire_handle_T St (fun _ => 0) (emit St w [EO]) c k) as (_ & B & _). rewrite B in E1. cbn in E1. congruence.
      + left; left; reflexivity.
      + congruence.
    - destruct (IH _ E1 H) as [I|I]; [left; right; exact I|right; exact I].
  Qed.
End Dropped.

Lemma poll_direct_dropped St (w: W St) m pid : dropped St (fst (poll_direct St w m pid)) = dropped St w.
Proof. pose proof (poll_direct_spec St w m pid) as H. destruct (poll_direct St w m pid) as [w' a]. destruct H as (_ & B & _). exact B. Qed.
Lemma finish_dropped St (w: W St) o fin : dropped St (finish_p St w o fin) = dropped St w.
Proof. destruct (finish_p_spec St w o fin) as (_ & B & _). exact B. Qed.
Lemma unwind_has_X St (w: W St) drops : In EEndX (strip (tr St (unwind_p St w drops))).
Proof. unfold unwind_p. cbn [tr set_flags emit]. rewrite strip_app. apply in_or_app; right. cbn. right. rewrite strip_app. apply in_or_app; right. left; reflexivity. Qed.

Lemma race_scan_dropped is : forall (w: W rst) pid, dropped _ (fst (race_scan w is pid)) = dropped _ w.
Proof.
  induction is as [|i rest IH]; intros w pid; cbn [race_scan]; auto.
  pose proof (poll_direct_dropped rst w i pid) as D. destruct (poll_direct rst w i pid) as [w1 a]. cbn [fst] in D.
  destruct a as [|[v|v]|v| |]; cbn [fst]; try exact D; rewrite IH; exact D.
Qed.
Lemma race_poll_DX w pid np : dropped _ w = false -> dropped _ (race_poll w pid np) = true -> In EEndX (strip (tr _ (race_poll w pid np))).
Proof.
  intros Hd. unfold race_poll. set (w0 := begin_p rst w pid np).
  destruct (r_n (cs rst w0) =? 0); [intros _; apply unwind_has_X|].
  set (w1 := set_cs rst w0 _).
  pose proof (race_scan_dropped (rot (r_n (cs rst w0)) (r_off (cs rst w0))) w1 pid) as D.
  destruct (race_scan w1 (rot (r_n (cs rst w0)) (r_off (cs rst w0))) pid) as [w2 [[o|]|]]; cbn [fst] in D.
  - rewrite finish_dropped, D. cbn. rewrite Hd. discriminate.
  - intros _. apply unwind_has_X.
  - cbn [dropped emit]. rewrite D. cbn. rewrite Hd. discriminate.
Qed.
Lemma kdone_dropped (w: W kst) i : dropped _ (fst (kdone w i)) = dropped _ w.
Proof. unfold kdone. destruct (k_kind (cs kst w) =? 2); reflexivity. Qed.
Lemma rok_scan_dropped is : forall (w: W kst) pid, dropped _ (fst (rok_scan w is pid)) = dropped _ w.
Proof.
  induction is as [|i rest IH]; intros w pid; cbn [rok_scan]; auto.
  destruct (nth i (k_errs (cs kst w)) None); [apply IH|].
  pose proof (poll_direct_dropped kst w i pid) as D. destruct (poll_direct kst w i pid) as [w1 a]. cbn [fst] in D.
  destruct a as [|[v|e]|v| |]; cbn [fst]; try exact D; try (rewrite IH; exact D).
  - pose proof (kdone_dropped w1 i) as K. destruct (kdone w1 i) as [w1' ed]. cbn [fst] in *. cbn. rewrite K. exact D.
  - pose proof (kdone_dropped w1 i) as K. destruct (kdone w1 i) as [w1' ed]. cbn [fst] in *. rewrite IH. cbn. rewrite K. exact D.
Qed.
Lemma rok_poll_DX w pid np : dropped _ w = false -> dropped _ (rok_poll w pid np) = true -> In EEndX (strip (tr _ (rok_poll w pid np))).
Proof.
  intros Hd. unfold rok_poll. set (w0 := begin_p kst w pid np).
  set (is := if k_kind (cs kst w0) =? 1 then rot _ _ else seq 0 _).
  set (w1 := if k_kind (cs kst w0) =? 1 then set_cs kst w0 _ else w0).
  assert (D1 : dropped _ w1 = false) by (subst w1; destruct (k_kind (cs kst w0) =? 1); exact Hd).
  pose proof (rok_scan_dropped is w1 pid) as D.
  destruct (rok_scan w1 is pid) as [w2 [[o|]|]]; cbn [fst] in D.
  - rewrite finish_dropped, D, D1. discriminate.
  - intros _. apply unwind_has_X.
  - destruct (k_completed (cs kst w2) =? k_n (cs kst w2)); [rewrite finish_dropped|cbn [dropped emit]]; rewrite D, D1; discriminate.
Qed.
Lemma chain_loop_DX fuel : forall (w: W cst) pid, dropped _ w = false -> dropped _ (chain_loop fuel w pid) = true -> In EEndX (strip (tr _ (chain_loop fuel w pid))).
Proof.
  induction fuel as [|f IH]; intros w pid Hd; cbn [chain_loop]; [congruence|].
  destruct (c_idx (cs cst w) =? c_n (cs cst w)); [rewrite finish_dropped; congruence|].
  pose proof (poll_direct_dropped cst w (c_idx (cs cst w)) pid) as D. destruct (poll_direct cst w (c_idx (cs cst w)) pid) as [w1 a]. cbn [fst] in D.
  destruct a as [|r|v| |].
  - cbn [dropped emit]. congruence.
  - cbn [dropped emit]. congruence.
  - rewrite finish_dropped. congruence.
  - apply IH. cbn. congruence.
  - intros _. apply unwind_has_X.
Qed.
Lemma w_inner_DX w1 late pid : dropped _ w1 = false -> dropped _ (w_inner w1 late pid) = true -> In EEndX (strip (tr _ (w_inner w1 late pid))).
Proof.
  intros Hd. unfold w_inner.
  pose proof (poll_direct_dropped ust w1 1 pid) as D. destruct (poll_direct ust w1 1 pid) as [w2 a]. cbn [fst] in D.
  destruct a as [|[v|v]|v| |]; try (rewrite finish_dropped; cbn [dropped emit]; congruence).
  - cbn [dropped emit]. congruence.
  - intros _. apply unwind_has_X.
Qed.
Lemma wait_poll_DX w pid np : dropped _ w = false -> dropped _ (wait_poll w pid np) = true -> In EEndX (strip (tr _ (wait_poll w pid np))).
Proof.
  intros Hd. rewrite wait_poll_eq. cbv zeta. set (w0 := begin_p ust w pid np).
  assert (H0 : dropped _ w0 = false) by exact Hd.
  destruct (u_started (cs ust w0)); [apply w_inner_DX, H0|].
  pose proof (poll_direct_dropped ust w0 0 pid) as D. destruct (poll_direct ust w0 0 pid) as [w1 a]. cbn [fst] in D.
  assert (H1 : dropped _ w1 = false) by congruence.
  destruct a as [|[v|v]|v| |].
  - cbn [dropped emit]. congruence.
  - destruct (u_stream (cs ust w0)); apply w_inner_DX; exact H1.
  - destruct (u_stream (cs ust w0)); apply w_inner_DX; exact H1.
  - apply w_inner_DX. exact H1.
  - apply w_inner_DX. exact H1.
  - intros _. apply unwind_has_X.
Qed.

(* the hypothesis `dropped = false` of the functional theorems fails only through a drop operation or a child's panic *)
Theorem race_dropped_means scs ops : scs <> [] -> dropped _ (race_world scs ops) = true -> In ODrop ops \/ In (EAns APanic) (strip (tr _ (race_world scs ops))).
Proof.
  intros Hne H. pose proof (race_unwinds_only_on_child_panic scs ops Hne) as X. unfold race_world, p_world in *.
  apply (DX_run rst race_poll r_drops race_poll_DX) in H; [|reflexivity]. destruct H as [I|I]; [left; exact I|right; exact (X I)].
Qed.
Theorem race_ok_dropped_means kind scs ops : dropped _ (race_ok_world kind scs ops) = true -> In ODrop ops \/ In (EAns APanic) (strip (tr _ (race_ok_world kind scs ops))).
Proof.
  intros H. pose proof (race_ok_unwinds_only_on_child_panic kind scs ops) as X. unfold race_ok_world, p_world in *.
  apply (DX_run kst rok_poll k_drops rok_poll_DX) in H; [|reflexivity]. destruct H as [I|I]; [left; exact I|right; exact (X I)].
Qed.
Theorem chain_dropped_means scs ops : dropped _ (chain_world scs ops) = true -> In ODrop ops \/ In (EAns APanic) (strip (tr _ (chain_world scs ops))).
Proof.
  intros H.
  assert (PD : forall w pid np, dropped _ w = false -> dropped _ (chain_poll w pid np) = true -> In EEndX (strip (tr _ (chain_poll w pid np)))).
  { intros w pid np Hd. unfold chain_poll. apply chain_loop_DX. exact Hd. }
  pose proof (chain_unwinds_only_on_child_panic scs ops) as X. unfold chain_world, p_world in *.
  apply (DX_run cst chain_poll c_drops PD) in H; [|reflexivity]. destruct H as [I|I]; [left; exact I|right; exact (X I)].
Qed.
Theorem wait_until_dropped_means stream scs ops : dropped _ (wait_world stream scs ops) = true -> In ODrop ops \/ In (EAns APanic) (strip (tr _ (wait_world stream scs ops))).
Proof.
  intros H. pose proof (wait_until_unwinds_only_on_child_panic stream scs ops) as X. unfold wait_world, p_world in *.
  apply (DX_run ust wait_poll u_drops wait_poll_DX) in H; [|reflexivity]. destruct H as [I|I]; [left; exact I|right; exact (X I)].
Qed.
