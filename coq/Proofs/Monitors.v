From Coq Require Import List Arith Lia Bool.
Import ListNotations.
Require Import ScanFull InstsFull Pass ObligJoin ObligGroups C04Join C11Groups C05Join C02Join PassProofs C09Zip C08Merge C08Eager.

(* A Prop-valued trace statement gets a boolean decision function and a reflection lemma, so that the extracted function can be run on the
   implementation's trace as the monitor of §5.4.  Demonstrated for the ledger of the join family. *)
Definition cnt_ok_on (dom: list nat) (f g: nat -> nat) : bool := forallb (fun x => f x =? g x) dom.
Definition bal_b (n: nat) (t: list ev) : bool :=
  let d := droppedl t in
  cnt_ok_on (d ++ seq 0 n) (fun x => cnt x d) (fun x => if x <? n then 1 else 0) &&
  let p := produced (polls_from 0 t) in let r := returned t in let v := dropv t in
  cnt_ok_on (p ++ r ++ v) (fun x => cnt x p) (fun x => cnt x r + cnt x v).

Lemma cnt_notin x l : ~ In x l -> cnt x l = 0.
Proof. intros H. unfold cnt. apply List.count_occ_not_In. exact H. Qed.

Theorem bal_b_spec n t : bal_b n t = true <-> Bal n t.
Proof.
  unfold bal_b, Bal, cnt_ok_on. rewrite andb_true_iff, !forallb_forall. split.
  - intros [H1 H2]. split.
    + intros x. destruct (in_dec Nat.eq_dec x (droppedl t ++ seq 0 n)) as [Hin|Hnin].
      * apply Nat.eqb_eq. apply H1. exact Hin.
      * rewrite cnt_notin by (intros X; apply Hnin; apply in_or_app; left; exact X).
        destruct (Nat.ltb_spec x n); [|reflexivity]. exfalso. apply Hnin. apply in_or_app. right. apply in_seq. lia.
    + intros v. destruct (in_dec Nat.eq_dec v (produced (polls_from 0 t) ++ returned t ++ dropv t)) as [Hin|Hnin].
      * apply Nat.eqb_eq. apply H2. exact Hin.
      * rewrite !cnt_notin; auto; intros X; apply Hnin; rewrite !in_app_iff; auto.
  - intros [B1 B2]. split; intros x _; apply Nat.eqb_eq; auto.
Qed.

(* non-vacuity: a concrete history of a 2-way join satisfies the ledger, and the monitor rejects the same trace with one drop removed *)
Example bal_example : bal_b 2 [EC 0 (WPar 0); EAns (AReady (ROk 7)); EDc 0; EC 1 (WPar 0); EAns APend; EEndP; ED; EV 7; EDc 1] = true.
Proof. vm_compute. reflexivity. Qed.
Example bal_counterexample : bal_b 2 [EC 0 (WPar 0); EAns (AReady (ROk 7)); EDc 0; EC 1 (WPar 0); EAns APend; EEndP; ED; EDc 1] = false.
Proof. vm_compute. reflexivity. Qed.

(* the exactly-once equation of the groups (C11_once) as a boolean function of the trace *)
Fixpoint pairs_eqb (a b: list (nat * nat)) : bool :=
  match a, b with
  | [], [] => true
  | (x1, y1) :: a', (x2, y2) :: b' => (x1 =? x2) && (y1 =? y2) && pairs_eqb a' b'
  | _, _ => false
  end.
Lemma pairs_eqb_spec a b : pairs_eqb a b = true <-> a = b.
Proof.
  revert b. induction a as [|[x1 y1] a IH]; intros [|[x2 y2] b]; cbn; try (split; [discriminate|discriminate]); [split; auto|].
  rewrite !andb_true_iff, !Nat.eqb_eq, IH. split; [intros [[-> ->] ->]; reflexivity|intros E; inversion E; auto].
Qed.
Definition once_b (t: list ev) : bool := pairs_eqb (map (keyof (inserted t)) (outs (polls_from 0 t))) (yields t).
Theorem once_b_spec t : once_b t = true <-> map (keyof (inserted t)) (outs (polls_from 0 t)) = yields t.
Proof. apply pairs_eqb_spec. Qed.

(* ---- C04 / C05: the result of a join / try_join as a boolean predicate over the trace ---- *)
Fixpoint nl_eqb (a b: list nat) : bool :=
  match a, b with [], [] => true | x :: a', y :: b' => (x =? y) && nl_eqb a' b' | _, _ => false end.
Lemma nl_eqb_spec a b : nl_eqb a b = true <-> a = b.
Proof.
  revert b. induction a as [|x a IH]; intros [|y b]; cbn; try (split; [discriminate|discriminate]); [tauto|].
  rewrite andb_true_iff, Nat.eqb_eq, IH. split; [intros [-> ->]; reflexivity|intros E; inversion E; auto].
Qed.
Definition okres_b (tryj: bool) (n: nat) (o: out) (P: list (nat * ans)) : bool :=
  let vec vs := nl_eqb (errs P) [] && (length vs =? n) && forallb (fun i => nl_eqb (okl i P) [nth i vs 0]) (seq 0 n) in
  match o with
  | OVals vs => negb tryj && vec vs
  | OOk vs => tryj && vec vs
  | OErr e => match rev P with
              | (i, AReady (RErr e')) :: P0r => (e' =? e) && nl_eqb (errs (rev P0r)) []
              | _ => false
              end
  | _ => false
  end.
Lemma okres_b_spec tryj n o P : okres_b tryj n o P = true <-> Okres tryj n o P.
Proof.
  assert (V : forall vs, nl_eqb (errs P) [] && (length vs =? n) && forallb (fun i => nl_eqb (okl i P) [nth i vs 0]) (seq 0 n) = true <->
                errs P = [] /\ length vs = n /\ forall i, i < n -> okl i P = [nth i vs 0]).
  { intros vs. rewrite !andb_true_iff, nl_eqb_spec, Nat.eqb_eq, forallb_forall. split.
    - intros [[A B] C]. split; [exact A|]. split; [exact B|]. intros i Hi. apply nl_eqb_spec, C, in_seq. lia.
    - intros (A & B & C). split; [split; auto|]. intros i Hi. apply nl_eqb_spec, C. apply in_seq in Hi. lia. }
  unfold okres_b, Okres. destruct o as [vs|vs|e|es|k vs|]; try (split; [discriminate|contradiction]).
  - rewrite andb_true_iff, negb_true_iff, V. tauto.
  - rewrite andb_true_iff, V. tauto.
  - split.
    + destruct (rev P) as [|[i a] P0r] eqn:E; [discriminate|]. destruct a as [|[v|e']| | |]; try discriminate.
      rewrite andb_true_iff, Nat.eqb_eq, nl_eqb_spec. intros [-> H]. exists (rev P0r), i. split; [|exact H].
      rewrite <- (rev_involutive P), E. cbn. reflexivity.
    + intros (P0 & i & -> & H). rewrite rev_app_distr. cbn. rewrite rev_involutive, Nat.eqb_refl. cbn. apply nl_eqb_spec. exact H.
Qed.
Definition c05_b (tryj: bool) (n: nat) (t: list ev) : bool :=
  match results t with [] => true | [o] => okres_b tryj n o (polls_from 0 t) | _ => false end.
Theorem c05_b_spec tryj n t : c05_b tryj n t = true <-> (results t = [] \/ exists o, results t = [o] /\ Okres tryj n o (polls_from 0 t)).
Proof.
  unfold c05_b. destruct (results t) as [|o [|o' r]].
  - split; auto.
  - rewrite okres_b_spec. split; [intros H; right; exists o; auto|intros [X|(o1 & E & H)]; [discriminate|inversion E; subst; exact H]].
  - split; [discriminate|intros [X|(o1 & E & H)]; discriminate].
Qed.
(* every history of the model passes it: the statement of C05_join as a boolean over the observable trace *)
Theorem c05_b_holds selective tryj tuple scs ops : let w := join_run' selective tryj tuple scs ops in
  dropped _ w = false -> c05_b tryj (length scs) (strip (tr _ w)) = true.
Proof. intros w Hd. apply c05_b_spec. exact (C05_join selective tryj tuple scs ops Hd). Qed.
Print Assumptions c05_b_holds.

(* ---- C06 (race) and C19 (wait_until) as boolean predicates over the trace ---- *)
Definition out_eq_dec : forall a b : out, {a = b} + {a <> b}.
Proof. decide equality; try apply list_eq_dec; try apply Nat.eq_dec. destruct key, key0; try (right; congruence); [destruct (Nat.eq_dec n n0); [left; congruence|right; congruence]|left; reflexivity]. Defined.
Definition outs_eqb (a b: list out) : bool := if list_eq_dec out_eq_dec a b then true else false.
Lemma outs_eqb_spec a b : outs_eqb a b = true <-> a = b.
Proof. unfold outs_eqb. destruct (list_eq_dec out_eq_dec a b); split; auto; discriminate. Qed.
Definition not_panic (a: ans) : bool := match a with APanic => false | _ => true end.
Definition losing_b (P: list (nat * ans)) : bool := forallb (fun p => negb (is_win (snd p)) && not_panic (snd p)) P.
Lemma losing_b_spec P : losing_b P = true <-> losing P.
Proof.
  unfold losing_b, losing. rewrite forallb_forall, Forall_forall. split; intros H p Hp; specialize (H p Hp).
  - apply andb_true_iff in H as [A B]. apply negb_true_iff in A. split; [exact A|]. intros E. rewrite E in B. discriminate.
  - destruct H as [A B]. rewrite A. cbn. destruct (snd p); auto; exfalso; apply B; reflexivity.
Qed.
Definition race_b (t: list ev) : bool :=
  match results t with
  | [] => losing_b (polls_from 0 t)
  | rs => match rev (polls_from 0 t) with
          | (i, a) :: P0r => is_win a && losing_b (rev P0r) && outs_eqb rs (win_val a)
          | [] => false
          end
  end.
Lemma race_b_of_Pr s fin t : Pr s fin t -> race_b t = true.
Proof.
  unfold Pr, race_b. destruct fin.
  - intros (P0 & i & a & Hp & Hl & Hw & Hr). rewrite Hr, Hp, rev_app_distr. cbn [rev app].
    destruct a as [|[v|e]| | |]; try discriminate; cbn [win_val]; rewrite rev_involutive, (proj2 (losing_b_spec P0) Hl); cbn; apply outs_eqb_spec; reflexivity.
  - intros [Hl Hr]. rewrite Hr. apply losing_b_spec. exact Hl.
Qed.
Theorem race_b_holds scs ops :
  let n := length scs in
  let w := fold_left (p_step rst race_poll (fun s => drops_all (r_n s))) ops (mk_world {| r_off := 0; r_n := n |} false n scs) in
  dropped _ w = false -> race_b (strip (tr _ w)) = true.
Proof. intros n w Hd. eapply race_b_of_Pr. exact (C06_race scs ops Hd). Qed.

(* wait_until: (0,Pending)* then, if the deadline resolved, (0,a0) (1,_)+ and the results are the inner's non-Pending answers *)
Fixpoint skip_dl (P: list (nat * ans)) : list (nat * ans) :=
  match P with (0, APend) :: r => skip_dl r | _ => P end.
Definition wait_b (t: list ev) : bool :=
  match skip_dl (polls_from 0 t) with
  | [] => outs_eqb (results t) []
  | (0, a0) :: P1 => not_panic a0 && negb (match a0 with APend => true | _ => false end) && negb (match P1 with [] => true | _ => false end)
                     && forallb (fun p => fst p =? 1) P1 && outs_eqb (results t) (flat_map (fun p => res_of (snd p)) P1)
  | _ => false
  end.
Lemma skip_dl_all P : Forall (fun p => p = (0, APend)) P -> forall Q, skip_dl (P ++ Q) = skip_dl Q.
Proof. induction 1 as [|p P Hp _ IH]; intros Q; cbn; auto. subst p. apply IH. Qed.
Lemma wait_b_of_Pw s t : Pw s t -> wait_b t = true.
Proof.
  unfold Pw, wait_b. destruct (u_started s).
  - intros (P0 & a0 & P1 & Hp & H0 & Hn1 & Hn2 & Hne & H1 & Hr). rewrite Hp, (skip_dl_all P0 H0). cbn [skip_dl].
    destruct a0 as [|r|v| |]; try contradiction; try (exfalso; apply Hn1; reflexivity); try (exfalso; apply Hn2; reflexivity);
      (destruct P1 as [|p1 P1']; [contradiction|]); cbn [not_panic negb andb];
      (rewrite (proj2 (forallb_forall _ _)); [cbn; apply outs_eqb_spec; exact Hr|]);
      (intros p Hin; rewrite Forall_forall in H1; apply Nat.eqb_eq, H1, Hin).
  - intros [H0 Hr]. rewrite <- (app_nil_r (polls_from 0 t)), (skip_dl_all _ H0). cbn. apply outs_eqb_spec. exact Hr.
Qed.
Theorem wait_b_holds stream scs ops :
  let w := fold_left (p_step ust wait_poll (fun _ => [EDc 1; EDc 0])) ops (mk_world {| u_stream := stream; u_started := false |} false 2 scs) in
  dropped _ w = false -> wait_b (strip (tr _ w)) = true.
Proof. intros w Hd. eapply wait_b_of_Pw. exact (C19_wait_until stream scs ops Hd). Qed.
Print Assumptions race_b_holds. Print Assumptions wait_b_holds.

(* ---- C10 (chain) and C09 (zip) as boolean predicates over the trace ---- *)
Definition chain_b (t: list ev) : bool :=
  let P := polls_from 0 t in
  match runC P with
  | Some _ => outs_eqb (results t) (itemsC P) || outs_eqb (results t) (itemsC P ++ [ONone])
  | None => false
  end.
Lemma chain_b_of_Pc s fin t : Pc s fin t -> chain_b t = true.
Proof.
  intros (_ & Hr & Hres & _). unfold chain_b. rewrite Hr, Hres. destruct fin; apply orb_true_iff; [right|left; rewrite app_nil_r]; apply outs_eqb_spec; reflexivity.
Qed.
Theorem chain_b_holds scs ops :
  let n := length scs in
  let w := fold_left (p_step cst chain_poll (fun s => drops_all (c_n s))) ops (mk_world {| c_idx := 0; c_n := n |} false n scs) in
  dropped _ w = false -> chain_b (strip (tr _ w)) = true.
Proof. intros n w Hd. eapply chain_b_of_Pc. exact (C10_chain scs ops Hd). Qed.

(* zip: every row has n columns; column j of the rows is a prefix of the items input j answered, with at most one item ahead; without an End the
   results are exactly the rows; with an End it is the last poll ever made, and the results are the rows followed by None *)
Definition ahead1_b (cl items: list nat) : bool := nl_eqb cl (firstn (length cl) items) && (length items <=? length cl + 1).
Lemma ahead1_b_intro cl buf : length buf <= 1 -> ahead1_b cl (cl ++ buf) = true.
Proof.
  intros H. unfold ahead1_b. rewrite firstn_app, firstn_all, Nat.sub_diag. cbn. rewrite app_nil_r, app_length.
  apply andb_true_iff. split; [apply nl_eqb_spec; reflexivity|apply Nat.leb_le; lia].
Qed.
Definition rows_of (rs: list out) : list (list nat) := flat_map (fun o => match o with OSome None vs => [vs] | _ => [] end) rs.
Definition zip_b (n: nat) (t: list ev) : bool :=
  let P := polls_from 0 t in
  let cols P' rs := forallb (fun r => length r =? n) rs && forallb (fun j => ahead1_b (col j rs) (itemsl j P')) (seq 0 n) in
  match ends P with
  | [] => cols P (rows t) && outs_eqb (results t) (map (OSome None) (rows t))
  | _ => match rev P with
         | (i, AEnd) :: P0r => nl_eqb (ends (rev P0r)) [] && cols (rev P0r) (rows t) && outs_eqb (results t) (map (OSome None) (rows t) ++ [ONone])
         | _ => false
         end
  end.
Lemma rows_results t : rows t = rows_of (results t).
Proof.
  induction t as [|e t IH]; cbn [rows results rows_of flat_map]; auto. destruct e; cbn [rows results rows_of flat_map app]; auto; fold (rows t); fold (results t); fold (rows_of (results t)); auto.
  destruct o as [| | | |[k|] vs|]; cbn [app]; rewrite ?IH; auto.
Qed.
Lemma rows_of_map rs : rows_of (map (OSome None) rs) = rs.
Proof. unfold rows_of. induction rs as [|r rs IH]; cbn; [reflexivity|f_equal; exact IH]. Qed.
Lemma rows_of_app a b : rows_of (a ++ b) = rows_of a ++ rows_of b. Proof. apply flat_map_app. Qed.
Lemma ends_app' a b : ends (a ++ b) = ends a ++ ends b. Proof. apply flat_map_app. Qed.
Lemma zip_b_of_Tz n s t : Tz n s t -> zip_b n t = true.
Proof.
  intros [(Hd & Hl1 & Hl2 & Hsl & Hrows & Hends & Hres)|(Hd & P0 & i & rs & Hp & He0 & Hres & Hrl & Hbuf)]; unfold zip_b.
  - rewrite Hends. apply andb_true_iff. split; [|apply outs_eqb_spec; exact Hres]. apply andb_true_iff. split.
    + apply forallb_forall. intros r Hr. rewrite Forall_forall in Hrows. apply Nat.eqb_eq, Hrows, Hr.
    + apply forallb_forall. intros j Hj. apply in_seq in Hj. destruct (Hsl j ltac:(lia)) as [E _]. rewrite E. apply ahead1_b_intro.
      destruct (nth j (z_out s) None); cbn; lia.
  - assert (Erows : rows t = rs) by (rewrite rows_results, Hres, rows_of_app, rows_of_map; cbn; apply app_nil_r).
    rewrite Hp, ends_app', He0. cbn [ends flat_map snd fst app].
    rewrite rev_app_distr. cbn [rev app]. rewrite rev_involutive, He0, Erows. cbn [nl_eqb andb].
    apply andb_true_iff. split; [|apply outs_eqb_spec; exact Hres]. apply andb_true_iff. split.
    + apply forallb_forall. intros r Hr. rewrite Forall_forall in Hrl. apply Nat.eqb_eq, Hrl, Hr.
    + apply forallb_forall. intros j Hj. apply in_seq in Hj. destruct (Hbuf j ltac:(lia)) as (buf & E & Hb). rewrite E. apply ahead1_b_intro. exact Hb.
Qed.
Theorem zip_b_holds selective scs ops : let w := zip_run' selective scs ops in
  dropped _ w = false -> zip_b (length scs) (strip (tr _ w)) = true.
Proof. intros w Hd. eapply zip_b_of_Tz. exact (C09_zip selective scs ops Hd). Qed.
Print Assumptions chain_b_holds. Print Assumptions zip_b_holds.

(* ---- C08: exactly-once on the trace, from the eager automaton: the values merge yielded are, in order, the item values its inputs answered ---- *)
Definition avals (t: list ev) : list nat := flat_map (fun e => match e with EAns (AItem v) => [v] | _ => [] end) t.
Definition yvals (t: list ev) : list nat := flat_map (fun e => match e with EEndR (OSome _ [v]) => [v] | _ => [] end) t.
Definition pre_of (p: option nat) : list nat := match p with Some v => [v] | None => [] end.
Lemma estep_none l : fold_left estep l None = None.
Proof. induction l as [|e l IH]; cbn [fold_left estep]; auto. Qed.
Lemma estep_exact t : forall p q, fold_left estep t (Some p) = Some q -> pre_of p ++ avals t = yvals t ++ pre_of q.
Proof.
  pose proof estep_none as Hnone.
  induction t as [|e t IH]; intros p q H; cbn [fold_left] in H.
  - inversion H; subst. cbn. rewrite app_nil_r. reflexivity.
  - destruct (estep (Some p) e) as [p'|] eqn:E; [|rewrite Hnone in H; discriminate]. specialize (IH p' q H).
    cbn [avals yvals flat_map]. fold (avals t). fold (yvals t).
    destruct e; cbn [estep] in E;
      repeat match type of E with context[match ?x with _ => _ end] => destruct x eqn:?; try discriminate end;
      inversion E; subst p'; cbn [app pre_of] in *;
      repeat match goal with Hq : (_ =? _) = true |- _ => apply Nat.eqb_eq in Hq; subst end;
      first [exact IH | rewrite IH; reflexivity].
Qed.
Theorem eager_exact t : eager_b t = true -> yvals t = avals t.
Proof.
  unfold eager_b, efold. destruct (fold_left estep t (Some None)) as [[v|]|] eqn:E; try discriminate. intros _.
  pose proof (estep_exact t None None E) as H. cbn in H. rewrite app_nil_r in H. symmetry. exact H.
Qed.
Theorem merge_yields_are_items selective scs ops : let w := merge_run_fixed selective scs ops in
  dropped _ w = false -> yvals (strip (tr _ w)) = avals (strip (tr _ w)).
Proof. intros w Hd. apply eager_exact. exact (C08_eager selective scs ops Hd). Qed.
Print Assumptions merge_yields_are_items.
