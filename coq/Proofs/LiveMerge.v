(* The stream form of bounded progress (ScanFull.next_result) for merge: starting from the freshly constructed merge of n >= 1 inputs whose scripts
   all reach their End and never panic, a wake-driven executor (fire every input's most recent waker, poll with the same task) obtains the first
   result - an item of some input, or None - within B rounds, B the longest script. *)
From Coq Require Import List Arith Bool Lia.
Import ListNotations.
Require Import ScanFull InstsFull ObligMZ C08Merge Counting.

Lemma out_eq_none (o: out) : {o = ONone} + {o <> ONone}.
Proof. destruct o; [right|right|right|right|right|left]; try discriminate; reflexivity. Qed.

Section MergeLive.
  Variable scs : list (list step).
  Let n := length scs.
  Hypothesis Hend : forall i, i < n -> ended (nth i scs []) = true.
  Hypothesis Hnp : forall m st, In st (nth m scs []) -> answer st <> APanic.
  Hypothesis Hn : 0 < n.

  Definition TSm (s: mst) := m_complete s < m_n s /\ m_complete s = count_none (m_pst s).
  Lemma aw_range s i : m_awaited s i = true -> i < m_n s /\ is_none (nth i (m_pst s) PNone) = false.
  Proof.
    unfold m_awaited, m_n. intros H. apply negb_true_iff in H. split; [|exact H].
    destruct (Nat.lt_ge_cases i (length (m_pst s))) as [L|G]; auto. rewrite nth_overflow in H by exact G. discriminate.
  Qed.
  Lemma USm_cont s i a s' e : TSm s -> m_awaited s i = true -> m_handle s i a = (s', Cont, e) -> TSm s'.
  Proof.
    unfold TSm. intros [Hc Hk] Ha Hh. pose proof (m_handle_cases s i a) as X. cbn zeta in X.
    destruct a as [|r|v| |]; rewrite X in Hh; try (inversion Hh; subst; split; assumption); try discriminate.
    destruct (aw_range s i Ha) as [Hi Hn0].
    destruct (Nat.eqb_spec (m_complete s + 1) (m_n s)) as [E|E]; inversion Hh; subst. unfold m_n in *. cbn. rewrite upd_length.
    split; [lia|]. rewrite count_none_upd by assumption. lia.
  Qed.
  Lemma TSm_order s is s1 : TSm s -> m_order s = Some (is, s1) -> TSm s1.
  Proof. unfold TSm, m_order. intros Hc E. destruct (m_n s =? 0); inversion E; subst. exact Hc. Qed.
  Lemma count_none_lt l : count_none l < length l -> exists i, i < length l /\ is_none (nth i l PNone) = false.
  Proof.
    induction l as [|p l IH]; cbn; [lia|]. intros H. destruct p.
    - destruct IH as (i & Hi & Hp); [lia|]. exists (S i). split; [lia|exact Hp].
    - exists 0. split; [lia|reflexivity].
    - exists 0. split; [lia|reflexivity].
  Qed.
  Lemma TSm_some s : m_Q s -> TSm s -> exists j, j < m_n s /\ m_awaited s j = true.
  Proof.
    intros _ [Hc Hk]. unfold m_n in *. rewrite Hk in Hc. destruct (count_none_lt _ Hc) as (i & Hi & Hp).
    exists i. split; [exact Hi|]. unfold m_awaited. rewrite Hp. reflexivity.
  Qed.
  Lemma TSm_order_some s : TSm s -> m_order s <> None.
  Proof. unfold TSm, m_order. intros [Hc _]. destruct (Nat.eqb_spec (m_n s) 0); [lia|discriminate]. Qed.
  Lemma m_abort_panic s i a s' e : m_handle s i a = (s', Abort, e) -> a = APanic.
  Proof.
    intros Hh. pose proof (m_handle_cases s i a) as X. cbn zeta in X. destruct a as [|r|v| |]; rewrite X in Hh; try discriminate; auto.
    destruct (_ =? _); discriminate.
  Qed.
  Definition w0 := mk_world {| m_pst := repeat PPending (length scs); m_complete := 0; m_offset := 0 |} true (length scs) scs.
  Notation mrun := (run_ops mst m_n m_awaited (fun _ i => i) m_handle true true m_order m_pre_exit (fun _ => false) m_finish (fun s => s)
                      (fun s => drop_all_children (m_n s)) m_final mmut).
  Notation mrounds := (rounds mst m_n m_awaited (fun _ i => i) m_handle true true m_order m_pre_exit (fun _ => false) m_finish (fun s => s)
                      (fun s => drop_all_children (m_n s)) m_final mmut).
  (* the script invariant of C08Merge in every reachable world *)
  Lemma merge_R_run ops : R scs (cs _ (mrun w0 ops)) (scripts _ (mrun w0 ops)) (results (tr _ (mrun w0 ops))).
  Proof.
    apply (RW_run mst m_n m_awaited (fun _ i => i) m_handle true true m_order m_pre_exit (fun _ => false) m_finish (fun s => s)
           (fun s => drop_all_children (m_n s)) m_final m_Q M1 M8 M9 M10 M12 mmut (R scs)
           (C08_cont scs) (C08_stop scs) (C08_abort scs) (C08_order scs) (C08_finish scs) (C08_pre scs) (C08_Q scs)
           (C08_hnores) (C08_dnores) (fun w _ _ _ H => H) ops). apply R_init.
  Qed.
  Lemma awaited_has_steps ops j : j < n -> m_awaited (cs _ (mrun w0 ops)) j = true -> 1 <= length (nth j (scripts _ (mrun w0 ops)) []).
  Proof.
    intros Hj Ha. destruct (merge_R_run ops) as (pre & Hl & Hmn & _ & Hpre & _ & _ & Hst & _).
    destruct (aw_range _ _ Ha) as [_ Hnn]. rewrite (Hst j Hj) in Hnn.
    pose proof (Hend j Hj) as He. rewrite (Hpre j Hj), ended_app, Hnn in He. cbn in He.
    destruct (nth j (scripts mst (mrun w0 ops)) []); [discriminate|cbn; lia].
  Qed.
  Definition bound := Nat.max 1 (list_max (map (@length step) scs)).

  Theorem merge_first_result : exists r, r < bound /\ dropped _ (mrounds (S r) w0) = false /\ g_retpend _ (mrounds (S r) w0) = false /\
      (forall r', r' <= r -> finished _ (mrounds r' w0) = false) /\
      exists u o, tr _ (mrounds (S r) w0) = tr _ (mrounds r w0) ++ u ++ [EEndR o].
  Proof.
    apply (next_result mst m_n m_awaited (fun _ i => i) m_handle true true m_order m_pre_exit (fun _ => false) m_finish (fun s => s)
             (fun s => drop_all_children (m_n s)) m_final m_Q M1 M2 M3 M4 M5 M6 M7 M8 M9 M10 M11 M12 M13 M14
             (fun _ => eq_refl) (fun _ _ _ => eq_refl) (fun _ H => H) (fun _ => eq_refl) (fun _ _ _ => eq_refl) (fun _ H => H)
             mmut (fun w _ _ _ H => H) (fun _ _ => true) (fun _ _ _ _ _ => eq_refl) (fun _ _ _ _ _ _ _ _ H => H) m_n (fun _ _ _ H _ => H) (fun s i a _ _ _ => conj (M1 s i a) (fun _ _ _ => conj eq_refl eq_refl)) (fun s is s1 _ E => conj (M10 s is s1 E) (fun _ _ _ => conj eq_refl eq_refl)) (fun s _ => conj (eq_refl) (fun _ _ _ => conj eq_refl eq_refl)) (fun s _ => conj eq_refl (fun _ _ _ => conj eq_refl eq_refl)) m_abort_panic (fun a => a <> APanic) (fun _ H => H) APend_not_panic TSm TSm (fun s i a s' e _ _ _ => USm_cont s i a s' e) TSm_order (fun s _ H _ => H) (fun _ s H => H) TSm_order_some).
    - apply merge_init.
    - split; [reflexivity|]. split; [exact Hnp|].
      unfold HT, N, m_n, polled. cbn. rewrite !repeat_length. split; [reflexivity|]. split; [reflexivity|].
      intros c Hc _. rewrite !repeat_nth by exact Hc. split; [intros h []|discriminate].
    - unfold TSm, m_n. cbn. rewrite repeat_length, count_none_repeat. split; [exact Hn|reflexivity].
    - reflexivity.
    - reflexivity.
    - intros j. unfold rem, bound, w0, mk_world. cbn [scripts].
      eapply Nat.le_trans; [|apply Nat.le_max_r]. destruct (Nat.lt_ge_cases j (length scs)) as [L|G].
      + pose proof (proj1 (list_max_le (map (@length step) scs) (list_max (map (@length step) scs))) (Nat.le_refl _)) as Hle.
        rewrite Forall_forall in Hle. apply Hle. apply in_map. apply nth_In. exact L.
      + rewrite nth_overflow by exact G. cbn. lia.
    - unfold bound. apply Nat.le_max_l.
    - intros r j Hj _ Ha.
      destruct (rounds_is_run mst m_n m_awaited (fun _ i => i) m_handle true true m_order m_pre_exit (fun _ => false) m_finish (fun s => s)
                  (fun s => drop_all_children (m_n s)) m_final mmut r w0) as [ops Hops].
      unfold rem. rewrite Hops. apply awaited_has_steps.
      + unfold N, m_n in Hj. cbn in Hj. rewrite repeat_length in Hj. exact Hj.
      + unfold aw in Ha. rewrite Hops in Ha. exact Ha.
    - intros s HQ HT. apply TSm_some; auto.
  Qed.
  (* ... and from every reachable state: after ANY history, as long as the merge has not ended, has not been dropped and some input is still
     alive, the wake-driven executor obtains the next result within (longest remaining script) rounds *)
  Lemma merge_LiveI_run ops : LiveI mst m_n (fun _ i => i) (fun _ _ => true) m_n (fun a => a <> APanic) (mrun w0 ops).
  Proof.
    apply (LiveI_run mst m_n m_awaited (fun _ i => i) m_handle true true m_order m_pre_exit (fun _ => false) m_finish (fun s => s)
             (fun s => drop_all_children (m_n s)) m_final m_Q M1 M2 M3 M4 M5 M6 M7 M8 M9 M10 M11 M12 M13 M14
             (fun _ => eq_refl) (fun _ _ _ => eq_refl) (fun _ H => H) (fun _ => eq_refl) (fun _ _ _ => eq_refl) (fun _ H => H)
             mmut (fun w _ _ _ H => H) (fun _ _ => true) (fun _ _ _ _ _ => eq_refl) (fun _ _ _ _ _ _ _ _ H => H) m_n (fun _ _ _ H _ => H) (fun s i a _ _ _ => conj (M1 s i a) (fun _ _ _ => conj eq_refl eq_refl)) (fun s is s1 _ E => conj (M10 s is s1 E) (fun _ _ _ => conj eq_refl eq_refl)) (fun s _ => conj (eq_refl) (fun _ _ _ => conj eq_refl eq_refl)) (fun s _ => conj eq_refl (fun _ _ _ => conj eq_refl eq_refl)) m_abort_panic (fun a => a <> APanic) (fun _ H => H) APend_not_panic TSm (fun s i a s' e _ _ _ => USm_cont s i a s' e) (fun _ => True) (fun w _ _ _ _ H _ => H)).
    - apply merge_init.
    - split; [reflexivity|]. split; [exact Hnp|].
      unfold HT, N, m_n, polled. cbn. rewrite !repeat_length. split; [reflexivity|]. split; [reflexivity|].
      intros c Hc _. rewrite !repeat_nth by exact Hc. split; [intros h []|discriminate].
    - apply Forall_forall. intros o _. destruct o; exact I.
  Qed.
  Lemma merge_Inv_run ops : Inv mst m_n m_awaited m_Q (mrun w0 ops).
  Proof.
    apply (Inv_run mst m_n m_awaited (fun _ i => i) m_handle true true m_order m_pre_exit (fun _ => false) m_finish (fun s => s)
             (fun s => drop_all_children (m_n s)) m_final m_Q M1 M2 M3 M4 M5 M6 M7 M8 M9 M10 M11 M12 M13 M14
             (fun _ => eq_refl) (fun _ _ _ => eq_refl) (fun _ H => H) (fun _ => eq_refl) (fun _ _ _ => eq_refl) (fun _ H => H)
             mmut (fun w _ _ _ H => H)). apply merge_init.
  Qed.

  Theorem merge_next_result ops B : let w := mrun w0 ops in
    finished _ w = false -> dropped _ w = false -> m_complete (cs _ w) < n ->
    (forall j, length (nth j (scripts _ w) []) <= B) -> 1 <= B ->
    exists r, r < B /\ dropped _ (mrounds (S r) w) = false /\ g_retpend _ (mrounds (S r) w) = false /\
              (forall r', r' <= r -> finished _ (mrounds r' w) = false) /\
              exists u o, tr _ (mrounds (S r) w) = tr _ (mrounds r w) ++ u ++ [EEndR o].
  Proof.
    cbv zeta. intros Hf Hd Hc HB HB1.
    destruct (merge_R_run ops) as (pre & Hl & Hmn & _ & _ & _ & _ & _ & Hcn & _).
    apply (next_result mst m_n m_awaited (fun _ i => i) m_handle true true m_order m_pre_exit (fun _ => false) m_finish (fun s => s)
             (fun s => drop_all_children (m_n s)) m_final m_Q M1 M2 M3 M4 M5 M6 M7 M8 M9 M10 M11 M12 M13 M14
             (fun _ => eq_refl) (fun _ _ _ => eq_refl) (fun _ H => H) (fun _ => eq_refl) (fun _ _ _ => eq_refl) (fun _ H => H)
             mmut (fun w _ _ _ H => H) (fun _ _ => true) (fun _ _ _ _ _ => eq_refl) (fun _ _ _ _ _ _ _ _ H => H) m_n (fun _ _ _ H _ => H) (fun s i a _ _ _ => conj (M1 s i a) (fun _ _ _ => conj eq_refl eq_refl)) (fun s is s1 _ E => conj (M10 s is s1 E) (fun _ _ _ => conj eq_refl eq_refl)) (fun s _ => conj (eq_refl) (fun _ _ _ => conj eq_refl eq_refl)) (fun s _ => conj eq_refl (fun _ _ _ => conj eq_refl eq_refl)) m_abort_panic (fun a => a <> APanic) (fun _ H => H) APend_not_panic TSm TSm (fun s i a s' e _ _ _ => USm_cont s i a s' e) TSm_order (fun s _ H _ => H) (fun _ s H => H) TSm_order_some).
    - apply merge_Inv_run.
    - apply merge_LiveI_run.
    - split; [rewrite Hmn; exact Hc|exact Hcn].
    - exact Hd.
    - exact Hf.
    - exact HB.
    - exact HB1.
    - intros r j Hj _ Ha.
      destruct (rounds_is_run mst m_n m_awaited (fun _ i => i) m_handle true true m_order m_pre_exit (fun _ => false) m_finish (fun s => s)
                  (fun s => drop_all_children (m_n s)) m_final mmut r (mrun w0 ops)) as [ops' Hops].
      assert (E : mrun (mrun w0 ops) ops' = mrun w0 (ops ++ ops')) by (unfold run_ops; rewrite fold_left_app; reflexivity).
      unfold rem. rewrite Hops, E. apply awaited_has_steps.
      + unfold N in Hj. rewrite Hmn in Hj. exact Hj.
      + unfold aw in Ha. rewrite Hops, E in Ha. exact Ha.
    - intros s HQ HT. apply TSm_some; auto.
  Qed.
  (* ---- every item of every input comes out and the merged stream ends ---- *)
  (* items still scripted + outputs returned is invariant along any history; N0: a lower bound on the outputs; B: a bound on every script length *)
  Definition Rm (C N0 B: nat) (s: mst) (sc: list (list step)) (rs: list out) : Prop :=
    m_Q s /\ items_total sc + nsome rs = C /\ N0 <= nsome rs /\ forall k, length (nth k sc []) <= B.
  Section MDrain.
    Variables C N0 B : nat.
    Lemma Rm_pop s sc rs i stp sc' : (stp, sc') = popped_of mst (fun _ i => i) s sc i -> Rm C N0 B s sc rs ->
      items_total sc' + (match answer stp with AItem _ => 1 | _ => 0 end) = items_total sc /\ forall k, length (nth k sc' []) <= B.
    Proof.
      intros E (_ & _ & _ & Hb). change (popped_of mst (fun _ i => i) s sc i) with (pop_at sc i) in E.
      pose proof (pop_at_items sc i) as H1. pose proof (pop_at_len sc i B Hb) as H2. rewrite <- E in H1, H2. cbn [fst snd] in H1, H2. split; assumption.
    Qed.
    Lemma Rm_cont s sc rs i stp sc' s' e : m_awaited s i = true -> i < m_n s -> (stp, sc') = popped_of mst (fun _ i => i) s sc i ->
      Rm C N0 B s sc rs -> m_handle s i (answer stp) = (s', Cont, e) -> Rm C N0 B s' sc' rs.
    Proof.
      intros Ha Hi E HR Eh. destruct (Rm_pop s sc rs i stp sc' E HR) as [Hit Hl]. destruct HR as (HQ & Hc & Hlo & Hb).
      pose proof (M9 s i (answer stp) HQ Ha Hi) as HQ'. rewrite Eh in HQ'. cbn [fst] in HQ'.
      pose proof (m_handle_cases s i (answer stp)) as X. cbn zeta in X.
      split; [exact HQ'|]. split; [|split; [exact Hlo|exact Hl]].
      destruct (answer stp) as [|r|v| |]; try lia. rewrite X in Eh. discriminate.
    Qed.
    Lemma Rm_stop s sc rs i stp sc' s' r o e : m_awaited s i = true -> i < m_n s -> (stp, sc') = popped_of mst (fun _ i => i) s sc i ->
      Rm C N0 B s sc rs -> m_handle s i (answer stp) = (s', Stop r o, e) -> Rm C N0 B s' sc' (rs ++ [o]).
    Proof.
      intros Ha Hi E HR Eh. destruct (Rm_pop s sc rs i stp sc' E HR) as [Hit Hl]. destruct HR as (HQ & Hc & Hlo & Hb).
      pose proof (M9 s i (answer stp) HQ Ha Hi) as HQ'. rewrite Eh in HQ'. cbn [fst] in HQ'.
      pose proof (m_handle_cases s i (answer stp)) as X. cbn zeta in X.
      split; [exact HQ'|]. rewrite nsome_app. split; [|split; [lia|exact Hl]].
      destruct (answer stp) as [|rr|v| |]; rewrite X in Eh; try discriminate.
      - inversion Eh; subst. cbn. lia.
      - destruct (_ =? _); inversion Eh; subst. cbn. lia.
    Qed.
    Lemma Rm_abort s sc rs i stp sc' s' e : m_awaited s i = true -> i < m_n s -> (stp, sc') = popped_of mst (fun _ i => i) s sc i ->
      Rm C N0 B s sc rs -> m_handle s i (answer stp) = (s', Abort, e) -> Rm C N0 B s sc' rs.
    Proof.
      intros Ha Hi E HR Eh. destruct (Rm_pop s sc rs i stp sc' E HR) as [Hit Hl]. destruct HR as (HQ & Hc & Hlo & Hb).
      pose proof (m_handle_cases s i (answer stp)) as X. cbn zeta in X.
      split; [exact HQ|]. split; [|split; [exact Hlo|exact Hl]].
      destruct (answer stp) as [|rr|v| |]; try lia. rewrite X in Eh. discriminate.
    Qed.
    Lemma Rm_order s is s1 sc rs : m_order s = Some (is, s1) -> Rm C N0 B s sc rs -> Rm C N0 B s1 sc rs.
    Proof. intros E (HQ & H). split; [eapply M14; eauto|exact H]. Qed.
    Lemma Rm_none s sc rs : Rm C N0 B s sc rs -> Rm C N0 B s sc (rs ++ [ONone]).
    Proof. intros (HQ & Hc & Hlo & Hb). split; [exact HQ|]. rewrite nsome_app. cbn. split; [lia|]. split; [lia|exact Hb]. Qed.
    Lemma Rm_finish s sc rs : Rm C N0 B s sc rs -> match snd (m_finish s) with Some o => Rm C N0 B (fst (m_finish s)) sc (rs ++ [o]) | None => Rm C N0 B (fst (m_finish s)) sc rs end.
    Proof. intros H. exact H. Qed.
    Lemma Rm_pre s sc rs o : Rm C N0 B s sc rs -> m_pre_exit s = Some o -> Rm C N0 B s sc (rs ++ [o]).
    Proof. intros H E. unfold m_pre_exit in E. destruct (m_n s =? 0); inversion E; subst. apply Rm_none, H. Qed.
    Lemma Rm_run ops : forall w, Rm C N0 B (cs _ w) (scripts _ w) (results (tr _ w)) ->
      Rm C N0 B (cs _ (mrun w ops)) (scripts _ (mrun w ops)) (results (tr _ (mrun w ops))).
    Proof.
      apply (RW_run mst m_n m_awaited (fun _ i => i) m_handle true true m_order m_pre_exit (fun _ => false) m_finish (fun s => s)
             (fun s => drop_all_children (m_n s)) m_final m_Q M1 M8 M9 M10 M12 mmut (Rm C N0 B)
             Rm_cont Rm_stop Rm_abort Rm_order Rm_finish Rm_pre (fun s sc rs H => proj1 H)
             (C08_hnores) (C08_dnores) (fun w _ _ _ H => H) ops).
    Qed.
  End MDrain.

  Lemma results_In t o : In o (results t) -> In (EEndR o) t.
  Proof. induction t as [|e t IH]; cbn; [auto|]. destruct e; cbn; try (intros H; right; apply IH, H). intros [<-|H]; [left; reflexivity|right; apply IH, H]. Qed.
  Lemma mrun_app w a b : mrun (mrun w a) b = mrun w (a ++ b).
  Proof. unfold run_ops. rewrite fold_left_app. reflexivity. Qed.

  (* after any history, while it has not been dropped: within (k + 1) * B rounds of the wake-driven executor the merged stream has returned None
     - k the number of items still scripted, B any bound on the remaining script lengths - and the world reached is a history of the model, so that
     C08_merge_exactly_once applies to it: every item of every input has been yielded exactly once, in its input's order *)
  Theorem merge_ends B : 1 <= B -> forall k ops, let w := mrun w0 ops in
    finished _ w = false -> dropped _ w = false -> items_total (scripts _ w) <= k -> (forall j, length (nth j (scripts _ w) []) <= B) ->
    exists R, R <= (k + 1) * B /\ let w' := mrounds R w in
      dropped _ w' = false /\ In (EEndR ONone) (tr _ w') /\ exists ops', w' = mrun w0 ops'.
  Proof.
    intros HB1. induction k as [|k IH]; intros ops w Hf Hd Hk HB;
      destruct (merge_R_run ops) as (pre & Hl & Hmn & _ & _ & _ & _ & _ & Hcn & _ & Hall); fold w in Hmn, Hcn, Hall;
      (destruct (Nat.eq_dec (m_complete (cs _ w)) n) as [Ec|Hnc];
        [exists 0; split; [lia|]; cbn [rounds]; split; [exact Hd|]; split; [apply results_In, Hall; [exact Ec|exact Hn]|exists ops; reflexivity]|]);
      (assert (Hc : m_complete (cs _ w) < n) by (pose proof (count_none_le (m_pst (cs _ w))) as X; unfold m_n in Hmn; lia));
      destruct (merge_next_result ops B Hf Hd Hc HB HB1) as (r & Hr & Hd1 & _ & Hfin & u & o & Hu); fold w in Hd1, Hfin, Hu;
      destruct (rounds_is_run mst m_n m_awaited (fun _ i => i) m_handle true true m_order m_pre_exit (fun _ => false) m_finish (fun s => s)
                  (fun s => drop_all_children (m_n s)) m_final mmut (S r) w) as [ops1 E1];
      destruct (rounds_is_run mst m_n m_awaited (fun _ i => i) m_handle true true m_order m_pre_exit (fun _ => false) m_finish (fun s => s)
                  (fun s => drop_all_children (m_n s)) m_final mmut r w) as [opsr Er];
      set (C := items_total (scripts _ w) + nsome (results (tr _ w))); set (N0 := nsome (results (tr _ w)));
      (assert (HR0 : Rm C N0 B (cs _ w) (scripts _ w) (results (tr _ w))) by (split; [apply merge_Inv_run|split; [reflexivity|split; [apply Nat.le_refl|exact HB]]]));
      pose proof (Rm_run C N0 B ops1 w HR0) as HR1; rewrite <- E1 in HR1; pose proof (Rm_run C N0 B opsr w HR0) as HRr; rewrite <- Er in HRr;
      destruct HR1 as (_ & Hc1 & _ & Hb1); destruct HRr as (_ & _ & Hlor & _);
      rewrite Hu, !results_app, !nsome_app in Hc1; cbn [results flat_map] in Hc1;
      (assert (Hreach : mrounds (S r) w = mrun w0 (ops ++ ops1)) by (rewrite E1; unfold w; apply mrun_app));
      (destruct (out_eq_none o) as [->|Hno];
        [exists (S r); split; [nia|]; cbv zeta; split; [exact Hd1|]; split; [rewrite Hu; apply in_or_app; right; apply in_or_app; right; left; reflexivity|exists (ops ++ ops1); exact Hreach]|]);
      (assert (Hns : nsome [o] = 1) by (destruct o; try reflexivity; exfalso; apply Hno; reflexivity));
      (assert (Hlt : items_total (scripts _ (mrounds (S r) w)) < items_total (scripts _ w)) by (unfold C, N0 in *; rewrite Hns in Hc1; lia)).
    - lia.
    - (* not finished: the result of this round was not final *)
      assert (Hf1 : finished _ (mrounds (S r) w) = false).
      { rewrite rounds_S.
        assert (Ewr : mrounds r w = mrun w0 (ops ++ opsr)) by (rewrite Er; unfold w; apply mrun_app).
        assert (Hcases : finished _ (round mst m_n m_awaited (fun _ i => i) m_handle true true m_order m_pre_exit (fun _ => false) m_finish (fun s => s)
                                      (fun s => drop_all_children (m_n s)) m_final mmut (mrounds r w)) = false \/
                         exists u' o', m_final o' = true /\ tr _ (round mst m_n m_awaited (fun _ i => i) m_handle true true m_order m_pre_exit (fun _ => false) m_finish (fun s => s)
                                      (fun s => drop_all_children (m_n s)) m_final mmut (mrounds r w)) = tr _ (mrounds r w) ++ u' ++ [EEndR o']).
        { eapply (round_finished_cases mst m_n m_awaited (fun _ i => i) m_handle true true m_order m_pre_exit (fun _ => false) m_finish (fun s => s)
                   (fun s => drop_all_children (m_n s)) m_final m_Q) with (occ := fun _ _ => true) (nmem := m_n) (okans := fun a => a <> APanic) (US := TSm);
            try first [exact M1|exact M2|exact M3|exact M4|exact M5|exact M6|exact M7|exact M8|exact M9|exact M10|exact M11|exact M12|exact M13|exact M14
                      |exact (fun _ => eq_refl)|exact (fun _ _ _ => eq_refl)|exact (fun _ H => H)|exact (fun w _ _ _ H => H)|exact (fun _ _ _ _ _ => eq_refl)
                      |exact (fun _ _ _ _ _ _ _ _ H => H)|exact (fun _ _ _ H _ => H)|exact (fun s i a _ _ _ => conj (M1 s i a) (fun _ _ _ => conj eq_refl eq_refl))
                      |exact (fun s is s1 _ E => conj (M10 s is s1 E) (fun _ _ _ => conj eq_refl eq_refl))|exact (fun s _ => conj eq_refl (fun _ _ _ => conj eq_refl eq_refl))
                      |exact m_abort_panic|exact APend_not_panic|exact (fun s i a s' e _ _ _ => USm_cont s i a s' e)].
          - rewrite Ewr. apply merge_Inv_run.
          - rewrite Ewr. apply merge_LiveI_run.
          - apply Hfin. lia.
          - destruct (dropped _ (mrounds r w)) eqn:Edr; [|reflexivity]. exfalso.
            pose proof (round_dropped mst m_n m_awaited (fun _ i => i) m_handle true true m_order m_pre_exit (fun _ => false) m_finish (fun s => s)
                          (fun s => drop_all_children (m_n s)) m_final mmut (mrounds r w) Edr) as X. rewrite <- rounds_S in X. congruence.
          - rewrite <- rounds_S. exact Hd1. }
        destruct Hcases as [X|(u' & o' & Ho' & Hu')].
        - exact X.
        - exfalso. rewrite <- rounds_S, Hu in Hu'. apply app_inv_head in Hu'.
          assert (E' : last (u ++ [EEndR o]) EO = last (u' ++ [EEndR o']) EO) by (rewrite Hu'; reflexivity). rewrite !last_last in E'. inversion E'; subst o'.
          apply Hno. destruct o; discriminate. }
      destruct (IH (ops ++ ops1)) as (R & HRb & Hd2 & Hin2 & ops' & Ho').
      + rewrite <- Hreach. exact Hf1.
      + rewrite <- Hreach. exact Hd1.
      + rewrite <- Hreach. lia.
      + rewrite <- Hreach. exact Hb1.
      + rewrite <- Hreach in *. exists (S r + R). split; [nia|]. cbv zeta.
        rewrite (rounds_add mst m_n m_awaited (fun _ i => i) m_handle true true m_order m_pre_exit (fun _ => false) m_finish (fun s => s)
                  (fun s => drop_all_children (m_n s)) m_final mmut (S r) R w).
        split; [exact Hd2|]. split; [exact Hin2|]. exists ops'. exact Ho'.
  Qed.
End MergeLive.
Print Assumptions merge_next_result.
Print Assumptions merge_first_result.
