From Coq Require Import List.
Import ListNotations.
Require Import ScanFull InstsFull Pass Nest.

(* A worked example of the composed nest model (Model/Nest.v): join of two joins over four leaves; leaf 2, from inside its first poll, wakes leaf 0,
   which belongs to the other inner join.  Evaluated inside Coq - the extracted code prints the same trace, and so does the crate
   (case `nest_jj nest n=4 P,R1;P,R2;!0.0:P,R3;R4 | p f1.0 q f2.0 q d`).  These are examples, not theorems about nests. *)
Definition demo_scripts : list (list step) :=
  [ [ {| fires := []; answer := APend |}; {| fires := []; answer := AReady (ROk 1) |} ];
    [ {| fires := []; answer := APend |}; {| fires := []; answer := AReady (ROk 2) |} ];
    [ {| fires := [HOf 0 0]; answer := APend |}; {| fires := []; answer := AReady (ROk 3) |} ];
    [ {| fires := []; answer := AReady (ROk 4) |} ] ].
Definition demo_ops : list op := [OPollFresh; OFire 1 0; OPollSame; OFire 2 0; OPollSame; ODrop].

(* std build (selective): the wake-up of leaf 0 inside the first poll reaches the caller's waker (W0) through both levels; the second poll visits
   only the first inner join (leaves 0 and 1); the third only leaf 2 *)
Example nest_demo_selective :
  nest_run true NJJ false demo_scripts demo_ops =
  [ EB 0; EC 0 (WSub 0); EAns APend; EC 1 (WSub 1); EAns APend; EC 2 (WSub 2); EF 0 0; EW 0; EAns APend; EC 3 (WSub 3); EAns (AReady (ROk 4)); EDc 3; EEndP;
    EO; EF 1 0;
    EB 0; EC 0 (WSub 0); EAns (AReady (ROk 1)); EDc 0; EC 1 (WSub 1); EAns (AReady (ROk 2)); EDc 1; EEndP;
    EO; EF 2 0; EW 0;
    EB 0; EC 2 (WSub 2); EAns (AReady (ROk 3)); EDc 2; EEndR (OVals [1; 2; 3; 4]);
    ED ].
Proof. vm_compute. reflexivity. Qed.

(* alloc build (every leaf is handed the caller's waker; every pending child is polled in every poll) *)
Example nest_demo_nonselective :
  nest_run false NJJ false demo_scripts demo_ops =
  [ EB 0; EC 0 (WPar 0); EAns APend; EC 1 (WPar 0); EAns APend; EC 2 (WPar 0); EF 0 0; EW 0; EAns APend; EC 3 (WPar 0); EAns (AReady (ROk 4)); EDc 3; EEndP;
    EO; EF 1 0; EW 0;
    EB 0; EC 0 (WPar 0); EAns (AReady (ROk 1)); EDc 0; EC 1 (WPar 0); EAns (AReady (ROk 2)); EDc 1; EC 2 (WPar 0); EAns (AReady (ROk 3)); EDc 2;
    EEndR (OVals [1; 2; 3; 4]);
    EO; EF 2 0; EW 0;
    ED ].
Proof. vm_compute. reflexivity. Qed.
