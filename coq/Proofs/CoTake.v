From Coq Require Import List Arith Lia Bool.
Import ListNotations.
Require Import CoStream CoFacts.

(* C15, take(n): at most n items are ever taken from the source, and a result is only returned once the source ended, n items were
   taken, or an error decided the outcome - hence exactly the first min(n, len) items are processed, none at all for n = 0. *)
Definition TInv (n: nat) (s: st) : Prop :=
    tcount s = taken s /\ taken s <= n /\ (ph s = PRun -> taken s < n) /\
    (ph s = PFlush -> src_done s = true \/ taken s = n \/ residual s <> None).
Lemma TInv_init c n : c_take c = Some n -> TInv n (init c).
Proof. intros Ht. unfold init. rewrite Ht. destruct n as [|m]; repeat split; cbn; try lia; try discriminate; auto. Qed.

Section Take.
  Variables (c: cfg) (n: nat).
  Hypothesis Ht : c_take c = Some n.


  Lemma push_T s j : tcount s = taken s -> taken s <= n -> TInv n (push c s j).
  Proof.
    intros E L. unfold push. rewrite Ht. cbn [set_works tcount upd_st].
    destruct (Nat.leb_spec n (tcount s)) as [H|H]; repeat split; cbn; try lia; try discriminate; auto;
      try (intros _; right; left; lia).
  Qed.
  Lemma TInv_same s s' : TInv n s -> tcount s' = tcount s -> taken s' = taken s -> src_done s' = src_done s -> residual s' = residual s ->
    (ph s' = ph s \/ (ph s' <> PRun /\ ph s' <> PFlush)) -> TInv n s'.
  Proof.
    intros (A & B & C & D) E1 E2 E3 E4 [E5|[E5 E6]]; repeat split; try congruence; try lia;
      try (rewrite E2; intros H; apply C; congruence); try (rewrite E3, E2, E4; intros H; apply D; congruence); try (intros H; contradiction).
  Qed.

  Ltac same := match goal with HI : TInv _ ?s |- _ =>
    apply (TInv_same s); [exact HI|reflexivity|reflexivity|reflexivity|reflexivity|
      first [left; cbn; match goal with E : ph s = _ |- _ => rewrite ?E end; reflexivity | left; reflexivity | right; cbn; split; discriminate]] end.
  Theorem TInv_step s e s' : TInv n s -> step c s e = Some s' -> TInv n s'.
  Proof.
    intros HI H. pose proof HI as (A & B & C & D).
    destruct e as [[j|]|stage j idx|stage j err|stage j|j|r|]; cbn [step] in H.
    - destruct (ph s) eqn:Eph; try discriminate. destruct (_ || _); [discriminate|]. specialize (C eq_refl).
      destruct (limit_ok c _); injection H as <-.
      + apply push_T; cbn; lia.
      + repeat split; cbn; try lia; discriminate.
    - destruct (ph s) eqn:Eph; try discriminate. destruct (src_done s); [discriminate|]. injection H as <-.
      repeat split; cbn; auto; try lia; discriminate.
    - destruct (ph s) eqn:Eph; try discriminate; (destruct (negb _); [discriminate|]);
        destruct (find j (works s)) as [[| | | |]|]; try discriminate; destruct stage as [|[|?]]; try discriminate;
        repeat match type of H with (if ?b then _ else _) = _ => destruct b; try discriminate end; injection H as <-;
        same.
    - destruct (ph s) eqn:Eph; try discriminate;
        destruct (find j (works s)) as [[| | | |]|] eqn:Ef; try discriminate; destruct stage as [|[|?]]; try discriminate.
      all: try (destruct (has_term c); repeat match type of H with (match ?b with _ => _ end) = _ => destruct b eqn:?; try discriminate end; injection H as <-;
                first [same | (repeat split; cbn; auto; try discriminate; intros _; right; right; discriminate)]; fail).
      all: destruct (tfe_blocked c s) eqn:Etb; [discriminate|].
      all: cbv zeta in H.
      all: set (s1 := set_works s (setw j WDone (works s))) in *.
      all: assert (I1 : TInv n s1) by same.
      all: match type of H with (match ph ?S2 with _ => _ end) = _ => set (s2 := S2) in * end.
      all: assert (I2 : TInv n s2) by (unfold s2; destruct err; destruct (c_term c); try exact I1; destruct (residual s1) eqn:Er; try exact I1;
             destruct I1 as (A1 & B1 & C1 & D1); repeat split; cbn; try exact A1; try exact B1; try discriminate; intros _; right; right; discriminate).
      all: destruct (ph s2) eqn:Eph2; try (injection H as <-; exact I2).
      all: destruct (limit_ok c s2); injection H as <-; [|exact I2].
      all: destruct I2 as (A2 & B2 & _); apply push_T; auto.
    - destruct (ph s) eqn:Eph; try discriminate; destruct (residual s) eqn:Er; try discriminate;
        destruct (find j (works s)) as [[| | | |]|]; try discriminate; destruct stage as [|[|?]]; try discriminate; injection H as <-;
        same.
    - destruct (ph s) eqn:Eph; try discriminate; try (destruct (residual s) eqn:Er; try discriminate); destruct (find j (works s)) as [[| | | |]|]; try discriminate;
        try (injection H as <-; same);
        destruct (c_term c); try discriminate; injection H as <-; same.
    - destruct (ph s) eqn:Eph; try discriminate. destruct (c_term c), r; try discriminate;
        repeat match type of H with (match ?b with _ => _ end) = _ => destruct b eqn:?; try discriminate end; injection H as <-;
        same.
    - destruct (ph s) eqn:Eph; injection H as <-; try exact HI;
        same.
  Qed.

  Theorem C15_take_bound es s k : run c (init c) es k = (s, None) -> taken s <= n.
  Proof. intros H. apply (inv_reach c (TInv n)) with (es := es) (k := k) (s0 := init c) in H; [apply H|apply TInv_step|apply TInv_init; exact Ht]. Qed.

  (* a result is only accepted when the source has ended, or n items have been taken, or an error was recorded *)
  Theorem C15_take_exact es s k r s' : run c (init c) es k = (s, None) -> step c s (EResult r) = Some s' ->
    src_done s = true \/ taken s = n \/ residual s <> None.
  Proof.
    intros H Hs. apply (inv_reach c (TInv n)) with (es := es) (k := k) (s0 := init c) in H; [|apply TInv_step|apply TInv_init; exact Ht].
    destruct H as (_ & _ & _ & D). apply D. cbn [step] in Hs. destruct (ph s); try discriminate. reflexivity.
  Qed.
End Take.

(* take(0): no source item is ever accepted *)
Theorem C15_take_zero c es s k j : c_take c = Some 0 -> run c (init c) es k = (s, None) -> step c s (ESrc (Some j)) = None.
Proof.
  intros Ht H. apply (inv_reach c (TInv 0)) with (es := es) (k := k) (s0 := init c) in H; [|apply TInv_step; exact Ht|apply TInv_init; exact Ht].
  destruct H as (_ & _ & C & _). cbn [step]. destruct (ph s); try reflexivity. specialize (C eq_refl). lia.
Qed.
