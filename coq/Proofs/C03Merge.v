From Coq Require Import List Arith Lia Bool.
Import ListNotations.
Require Import ScanFull InstsFull ObligMZ ObligGroups C08Merge C11Groups.

(* C03 for merge: an input that has returned None is never polled again (both waker strategies) *)
Definition stepE (st: option (list nat)) (p: nat * ans) : option (list nat) :=
  match st with
  | Some dead => if mem (fst p) dead then None else Some (match snd p with AEnd => fst p :: dead | _ => dead end)
  | None => None
  end.
Definition runE (P: list (nat * ans)) : option (list nat) := fold_left stepE P (Some []).
Lemma runE_snoc P p : runE (P ++ [p]) = stepE (runE P) p. Proof. unfold runE. rewrite fold_left_app. reflexivity. Qed.

Definition Te (s: mst) (t: list ev) : Prop :=
  m_Q s /\ exists dead, runE (polls_from 0 t) = Some dead /\ forall i, In i dead -> m_awaited s i = false.

Lemma Te_tail s t u : Te s t -> (forall e, In e u -> match e with EC _ _ | EAns _ => False | _ => True end) -> Te s (t ++ u).
Proof. intros (HQ & dead & Hr & Hd) Hu. split; auto. exists dead. rewrite polls_from_tail; auto. Qed.

Lemma Te_poll s s' t i w a u : Te s t -> m_awaited s i = true -> m_Q s' ->
  (forall j, j <> i -> m_awaited s' j = m_awaited s j) -> (a = AEnd -> m_awaited s' i = false) ->
  (forall e, In e u -> match e with EC _ _ | EAns _ => False | _ => True end) ->
  Te s' (t ++ EC i w :: EAns a :: u).
Proof.
  intros (HQ & dead & Hr & Hd) Ha HQ' Hoth Hend Hu. split; auto.
  assert (Hnd : mem i dead = false).
  { destruct (mem i dead) eqn:E; auto. apply mem_In in E. apply Hd in E. congruence. }
  exists (match a with AEnd => i :: dead | _ => dead end). split.
  - rewrite polls_from_app. replace (polls_from i u) with (@nil (nat * ans)).
    + rewrite runE_snoc, Hr. cbn. rewrite Hnd. reflexivity.
    + symmetry. replace u with ([] ++ u) by reflexivity. apply polls_from_tail; auto.
  - intros j Hj. destruct (Nat.eq_dec j i) as [->|Hne].
    + destruct a; try (apply Hd in Hj; congruence). auto.
    + rewrite Hoth by auto. apply Hd. destruct a; auto. destruct Hj as [X|X]; [congruence|auto].
Qed.

Theorem C03_merge selective scs ops : let w := merge_run_fixed selective scs ops in
  dropped _ w = false -> exists dead, runE (polls_from 0 (strip (tr _ w))) = Some dead.
Proof.
  intros w Hd.
  assert (H : Te (cs _ w) (strip (tr _ w))).
  { unfold w, merge_run_fixed.
    apply (TW_run mst m_n m_awaited (fun _ i => i) m_handle true true m_order m_pre_exit (fun _ => false) m_finish (fun s => s)
             (fun s => drop_all_children (m_n s)) m_final m_Q M1 M8 M9 M10 M12 mmut Te Te); [| | | | | | | | | |intros _; split; [unfold m_Q, m_n; cbn; rewrite repeat_length; destruct (length scs); [left|right]; lia|exists []; split; [reflexivity|intros i []]]|exact Hd].
    - (* U_cont *) intros s t i a s' eh wkr HT Ha Hi Hh. pose proof (M9 s i a (proj1 HT) Ha Hi) as HQ'. rewrite Hh in HQ'. cbn [fst] in HQ'.
      pose proof (M2 s i a s' eh Hh) as Hoth.
      assert (Heh : strip eh = []) by (destruct a as [|r|v| |]; cbn in Hh; try (inversion Hh; reflexivity); destruct (_ =? _); inversion Hh; reflexivity).
      rewrite Heh. apply (Te_poll s s'); auto; [|intros e []].
      intros ->. cbn in Hh. destruct (_ =? _); inversion Hh; subst. rewrite m_aw_upd, Nat.eqb_refl. reflexivity.
    - (* U_stop *) intros s t i a s' r o eh wkr HT Ha Hi Hh. pose proof (M9 s i a (proj1 HT) Ha Hi) as HQ'. rewrite Hh in HQ'. cbn [fst] in HQ'.
      assert (Hoth : forall j, j <> i -> m_awaited s' j = m_awaited s j).
      { apply (M4 s i a s' r o eh (proj1 HT) Ha Hh). destruct a as [|r0|v| |]; cbn in Hh; try discriminate; [inversion Hh; discriminate|destruct (_ =? _); inversion Hh; discriminate]. }
      assert (Heh : strip eh = []) by (destruct a as [|r0|v| |]; cbn in Hh; try (inversion Hh; reflexivity); destruct (_ =? _); inversion Hh; reflexivity).
      rewrite Heh. apply (Te_poll s s'); auto; [|intros e [<-|[]]; exact I].
      intros ->. cbn in Hh. destruct (_ =? _); inversion Hh; subst. rewrite m_aw_upd, Nat.eqb_refl. reflexivity.
    - (* T_order *) intros s is s1 t _ E (HQ & dead & Hr & Hdd). split; [eapply M14; eauto|]. exists dead. split; auto. intros i Hi. rewrite (M11 _ _ _ E). auto.
    - intros s t HT. cbn. apply Te_tail; auto. intros e [<-|[]]. exact I.
    - intros s t o HT E. apply Te_tail; auto. intros e [<-|[]]. exact I.
    - intros s t _ _ HT. apply Te_tail; auto. intros e [<-|[]]. exact I.
    - intros _ s t HT. apply Te_tail; auto. intros e [<-|[]]. exact I.
    - intros s t HT. apply HT.
    - intros s t HT. apply HT.
    - intros w0 m a sc _ HT _. exact HT. }
  destruct H as (_ & dead & Hr & _). eauto.
Qed.
