From Coq Require Import List Arith Lia Bool.
Import ListNotations.
Require Import ScanFull InstsFull ObligJoin ObligMZ ObligGroups FireTotal.

(* C16 (and the bookkeeping of C01 / C20) on the TRACE: instances of ScanFull.ghost_is_trace / C16_trace.
   ginit n is the bookkeeping before anything has happened; mon16 n t = the selective-polling monitor run over a whole trace t:
   it fails exactly when some `EC m (WSub i)` polls slot i although the slot was polled before, its last answer was Pending, and no waker handed
   out for slot i has fired since that poll began (insert into slot i resets the slot).  The theorems say mon16 holds of every trace the model can
   produce; the correspondence check says the crate's traces are such traces; tools/monitors.py evaluates the same predicate on them. *)
Definition ginit (n: nat) : gt :=
  {| t_handed := repeat [] n; t_fired := fun _ => false; t_lp := fun _ => false; t_polled := fun _ => false; t_cur := 0; t_out := false; t_bad := false;
     t_ret := false; t_quiet := true |}.
Definition mon16 (n: nat) (t: list ev) : bool := negb (t_bad (gfold (ginit n) t)).

Lemma nth_repeat_false n i : nth i (repeat false n) false = false.
Proof. revert i. induction n; destruct i; cbn; auto. Qed.
Lemma R_init {St} awaited rall (s: St) n scs : R St awaited rall None (mk_world s true n scs) (ginit (length scs)).
Proof.
  constructor; cbn; auto.
  - induction (length scs); cbn; constructor; auto.
  - intros i. unfold fired. cbn. apply nth_repeat_false.
  - intros i. unfold polled. cbn. apply nth_repeat_false.
  - intros i. left. unfold lastpend. cbn. apply nth_repeat_false.
Qed.
Lemma nomut_gt {St} awaited rall : forall (w: world St) (m a: nat) (sc: list step) (g: gt), True -> True -> R St awaited rall None w g ->
  exists es, tr St (no_mut w m a sc) = tr St w ++ es /\ R St awaited rall None (no_mut w m a sc) (gfold g es).
Proof. intros w m a sc g _ _ H. exists []. rewrite app_nil_r. auto. Qed.

Lemma j_handle_neutral s i a : forallb neutral (snd (j_handle s i a)) = true.
Proof. destruct a as [|[v|e]|v| |]; cbn; auto. destruct (j_tup s && _); reflexivity. Qed.
Lemma drop_vals_neutral ps : forall its, forallb neutral (drop_vals ps its) = true.
Proof. induction ps as [|p ps IH]; intros [|o its]; cbn; auto; destruct p; cbn; auto. destruct o; cbn; auto. Qed.
Lemma drop_futs_neutral ps : forall k, forallb neutral (drop_futs ps k) = true.
Proof. induction ps as [|p ps IH]; intros k; cbn; auto. destruct p; cbn; auto. Qed.
Lemma j_drop_neutral s : forallb neutral (j_drop s) = true.
Proof. unfold j_drop. rewrite forallb_app, drop_vals_neutral, drop_futs_neutral. reflexivity. Qed.
Lemma dac_neutral n : forallb neutral (drop_all_children n) = true.
Proof. unfold drop_all_children. induction (seq 0 n); cbn; auto. Qed.

Ltac join_gt T tuple :=

  apply (T jst j_slots j_awaited (fun _ i => i) j_handle tuple tuple j_order (fun _ => None) j_pre_any j_finish (fun s => s) j_drop
           (fun _ => true) j_Q J1 J2 J3 J4 J5 J6 J7 J8 J9 J10 J11 J12 J13 J14 J15 J16 J17 (fun _ => eq_refl) (fun _ _ _ => eq_refl) (fun _ H => H)
           (@no_mut jst) (fun w _ _ _ H => H) false j_handle_neutral j_drop_neutral);
  [ intros E0 s0 i0 x s' o e H; destruct x as [|[v|er]|v| |]; cbn in H; try discriminate; destruct (j_tup s0 && _) in H; discriminate
  | intros w m0 a0 sc0 HI0 H; exact H
  | intros w m0 a0 sc0 g HI0 HF0 H; exists []; rewrite app_nil_r; auto
  | apply join_init
  | apply FT_init
  | apply R_init
  | reflexivity ].
Theorem join_C16_trace tuple tryj scs ops : mon16 (length scs) (tr _ (join_run tuple tryj scs ops)) = true.
Proof. unfold mon16. apply negb_true_iff. join_gt C16_trace tuple. Qed.
Ltac merge_gt T :=

  apply (T mst m_n m_awaited (fun _ i => i) m_handle true true m_order m_pre_exit (fun _ => false) m_finish (fun s => s)
           (fun s => drop_all_children (m_n s)) m_final m_Q M1 M2 M3 M4 M5 M6 M7 M8 M9 M10 M11 M12 M13 M14
           (fun _ => eq_refl) (fun _ _ _ => eq_refl) (fun _ H => H) (fun _ => eq_refl) (fun _ _ _ => eq_refl) (fun _ H => H)
           mmut (fun w _ _ _ H => H) false);
  [ intros s0 i0 a; destruct a as [|r|v| |]; cbn; auto; destruct (_ =? _); reflexivity
  | intros s; apply dac_neutral
  | intros E0 s0 i0 x s' o e H; destruct x as [|r|v| |]; cbn in H; try discriminate; destruct (_ =? _) in H; discriminate
  | intros w m0 a0 sc0 HI0 H; exact H
  | intros w m0 a0 sc0 g HI0 HF0 H; exists []; rewrite app_nil_r; auto
  | apply merge_init
  | apply FT_init
  | apply R_init
  | reflexivity ].
Theorem merge_C16_trace scs ops : mon16 (length scs) (tr _ (merge_run scs ops)) = true.
Proof. unfold mon16. apply negb_true_iff. merge_gt C16_trace. Qed.
Ltac zip_gt T :=

  apply (T zst z_n z_awaited (fun _ i => i) z_handle false true z_order (fun _ => None) (fun _ => false) z_finish (fun s => s)
           z_drop m_final z_Q Z1 Z2 Z3 Z4 Z5 Z6 Z7 Z8 (fun _ _ _ _ _ _ => I)
           Z10 Z11
           Z12 Z13 (fun _ _ _ _ _ => I)
           (fun _ => eq_refl) (fun _ _ _ => eq_refl) (fun _ _ => I) (fun _ => eq_refl) (fun _ _ _ => eq_refl) (fun _ _ => I)
           zmut (fun w _ _ _ H => H) true);
  [ intros s0 i0 a; destruct a as [|r|v| |]; cbn; auto; match goal with |- context[if ?b then _ else _] => destruct b end; reflexivity
  | intros s; unfold z_drop; rewrite forallb_app, drop_vals_neutral, dac_neutral; reflexivity
  | discriminate
  | intros w m0 a0 sc0 HI0 H; exact H
  | intros w m0 a0 sc0 g HI0 HF0 H; exists []; rewrite app_nil_r; auto
  | apply zip_init
  | apply FT_init
  | apply R_init
  | reflexivity ].
Theorem zip_C16_trace scs ops : mon16 (length scs) (tr _ (zip_run scs ops)) = true.
Proof. unfold mon16. apply negb_true_iff. zip_gt C16_trace. Qed.

(* ---- groups: insert / remove / reserve / queries keep the relation (insert into slot k resets the slot: event EK k) ---- *)
Notation RG := (R gst g_awaited false None).
Lemma g_handle_neutral s i a : forallb neutral (snd (g_handle s i a)) = true.
Proof. destruct a as [|[v|e]|v| |]; cbn; reflexivity. Qed.
Lemma g_drop_neutral s : forallb neutral (g_drop s) = true.
Proof. unfold g_drop. induction (g_ent s) as [|[m|nx] l IH]; cbn; auto. Qed.
Lemma RG_reserve w a g : RG w g -> RG (g_reserve w a) g.
Proof.
  intros H. unfold g_reserve. destruct (_ <? _); auto. apply R_grow; auto.
  intros i. unfold g_awaited. cbn. rewrite nth_app_states. reflexivity.
Qed.
Lemma g_mutate_gt w m a sc g : GInv w -> FT gst g_slots w -> RG w g ->
  exists es, tr _ (g_mutate w m a sc) = tr _ w ++ es /\ RG (g_mutate w m a sc) (gfold g es).
Proof.
  intros HI _ HR. unfold g_mutate.
  assert (Hsame : forall w', RG w' g -> tr _ w' = tr _ w -> exists es, tr _ w' = tr _ w ++ es /\ RG w' (gfold g es))
    by (intros w' X E; exists []; rewrite app_nil_r; auto).
  assert (Hneu : forall w' es, RG w' g -> tr _ w' = tr _ w -> forallb neutral es = true -> exists es0, tr _ (emit _ w' es) = tr _ w ++ es0 /\ RG (emit _ w' es) (gfold g es0)).
  { intros w' es X E Hn. exists es. split; [cbn; rewrite E; reflexivity|]. rewrite gfold_neutral by exact Hn. eapply R_ext; [| | | | | | | | |exact X]; reflexivity. }
  destruct m as [|[|[|[|[|[|m]]]]]].
  - (* insert *)
    set (w1 := if g_cap (cs gst w) <=? g_len (cs gst w) then g_reserve w (g_cap (cs gst w) * 2 + 1) else w).
    assert (HI1 : GInv w1) by (unfold w1; destruct (_ <=? _); auto using Inv_reserve).
    assert (HR1 : RG w1 g) by (unfold w1; destruct (_ <=? _); auto using RG_reserve).
    assert (Et1 : tr _ w1 = tr _ w) by (unfold w1, g_reserve; destruct (_ <=? _); [destruct (_ <? _)|]; reflexivity).
    clearbody w1. set (s := cs gst w1). set (k := g_next s).
    destruct (if k =? length (g_ent s) then _ else _) as [ent' nx'].
    destruct ((k <? length (g_states s)) && g_clean s) eqn:Eg.
    + apply andb_true_iff in Eg as [Ek _]. apply Nat.ltb_lt in Ek.
      exists [EK k]. split; [cbn; rewrite Et1; reflexivity|]. cbn [gfold fold_left]. apply (R_occupy gst g_slots); auto; [apply HI1|].
      intros i Hi. unfold g_awaited. cbn. rewrite nth_upd_other by auto. reflexivity.
    + exists [EEndX]. split; [cbn; rewrite Et1; reflexivity|]. cbn [gfold fold_left]. destruct HR1 as [A A' B C D E F G H]. constructor; cbn; auto.
  - (* remove *)
    destruct (nth_error (g_ret (cs gst w)) a) as [k|]; [|apply Hsame; auto].
    destruct (existsb (fun x => x =? k) (g_keys (cs gst w))) eqn:Ex; [|apply Hneu; auto].
    apply existsb_exists in Ex as (x & Hx & Ex). apply Nat.eqb_eq in Ex. subst x.
    assert (HQ : g_Q (cs gst w)) by apply HI. destruct HQ as [Qc Qb Ql Qq].
    apply Hneu; [|reflexivity|reflexivity]. apply (R_vacate gst g_slots g_awaited false w g _ k HR); [apply HI|apply Qb; exact Hx|reflexivity| |].
    + unfold g_awaited; cbn. rewrite pend_upd_none, Nat.eqb_refl. reflexivity.
    + intros i Hi. unfold g_awaited; cbn. rewrite pend_upd_none. destruct (Nat.eqb_spec i k); [congruence|reflexivity].
  - apply Hsame; [apply RG_reserve; exact HR|unfold g_reserve; destruct (_ <? _); reflexivity].
  - apply Hneu; auto.
  - destruct (nth_error _ a); [apply Hneu|apply Hsame]; auto.
  - apply Hneu; auto.
  - apply Hneu; auto.
Qed.
Ltac group_gt T stream cap0 :=

  apply (T gst g_slots g_awaited g_member g_handle false false g_order g_pre_exit (fun _ => true) g_finish g_cleanup g_drop
           (fun _ => false) g_Q G1 G2 G3 G4 G5 G6 G7 G8 G9 G10 G11 G12 G13 G14 G15 G16 G17
           (fun _ => eq_refl) (fun _ _ _ => eq_refl) Q_cleanup g_mutate g_mutate_inv false g_handle_neutral g_drop_neutral);
  [ intros E0 s0 i0 x s' o e H; destruct x as [|[v|er]|v| |]; cbn in H; discriminate
  | exact g_mutate_FT
  | exact g_mutate_gt
  | apply group_init
  | split; cbn; intros; constructor
  | apply (R_init g_awaited false (g_init stream cap0) cap0 [])
  | reflexivity ].
Theorem group_C16_trace stream cap0 ops : mon16 0 (tr _ (group_run stream cap0 ops)) = true.
Proof. unfold mon16. apply negb_true_iff. group_gt C16_trace stream cap0. Qed.

(* C01 and C20 with the wake-up bookkeeping read off the trace: g = the fold of the world's own trace *)
Theorem join_C01_trace tuple tryj scs ops i : let w := join_run tuple tryj scs ops in let g := gfold (ginit (length scs)) (tr _ w) in
  t_ret g = true -> i < N _ j_slots w -> aw _ j_awaited w i = true -> t_polled g i = true -> t_fired g i = true -> t_out g = true.
Proof. join_gt C01_trace tuple. Qed.
Theorem merge_C01_trace scs ops i : let w := merge_run scs ops in let g := gfold (ginit (length scs)) (tr _ w) in
  t_ret g = true -> i < N _ m_n w -> aw _ m_awaited w i = true -> t_polled g i = true -> t_fired g i = true -> t_out g = true.
Proof. merge_gt C01_trace. Qed.
Theorem zip_C01_trace scs ops i : let w := zip_run scs ops in let g := gfold (ginit (length scs)) (tr _ w) in
  t_ret g = true -> i < N _ z_n w -> aw _ z_awaited w i = true -> t_polled g i = true -> t_fired g i = true -> t_out g = true.
Proof. zip_gt C01_trace. Qed.
Theorem group_C01_trace stream cap0 ops i : let w := group_run stream cap0 ops in let g := gfold (ginit 0) (tr _ w) in
  t_ret g = true -> i < N _ g_slots w -> aw _ g_awaited w i = true -> t_polled g i = true -> t_fired g i = true -> t_out g = true.
Proof. group_gt C01_trace stream cap0. Qed.
Theorem join_C20_trace tuple tryj scs ops i : let w := join_run tuple tryj scs ops in let g := gfold (ginit (length scs)) (tr _ w) in
  t_ret g = true -> t_quiet g = true -> i < N _ j_slots w -> aw _ j_awaited w i = true -> t_polled g i = true.
Proof. join_gt C20_trace tuple. Qed.
Theorem merge_C20_trace scs ops i : let w := merge_run scs ops in let g := gfold (ginit (length scs)) (tr _ w) in
  t_ret g = true -> t_quiet g = true -> i < N _ m_n w -> aw _ m_awaited w i = true -> t_polled g i = true.
Proof. merge_gt C20_trace. Qed.
Theorem zip_C20_trace scs ops i : let w := zip_run scs ops in let g := gfold (ginit (length scs)) (tr _ w) in
  t_ret g = true -> t_quiet g = true -> i < N _ z_n w -> aw _ z_awaited w i = true -> t_polled g i = true.
Proof. zip_gt C20_trace. Qed.
Theorem group_C20_trace stream cap0 ops i : let w := group_run stream cap0 ops in let g := gfold (ginit 0) (tr _ w) in
  t_ret g = true -> t_quiet g = true -> i < N _ g_slots w -> aw _ g_awaited w i = true -> t_polled g i = true.
Proof. group_gt C20_trace stream cap0. Qed.

(* sibling progress (C20, second sentence) with the wake-up bookkeeping read off the trace *)
Lemma run_snoc' {A B} (f: A -> B -> A) (l: list B) (x: B) (a: A) : fold_left f (l ++ [x]) a = f (fold_left f l a) x.
Proof. rewrite fold_left_app. reflexivity. Qed.
Theorem join_progress_trace tuple tryj scs ops nxt j : (nxt = OPollFresh \/ nxt = OPollSame) ->
  let w := join_run tuple tryj scs ops in let g := gfold (ginit (length scs)) (tr _ w) in
  finished _ w = false -> dropped _ w = false -> j < N _ j_slots w -> aw _ j_awaited w j = true -> (t_fired g j = true \/ t_polled g j = false) ->
  exists pid u, tr _ (join_run tuple tryj scs (ops ++ [nxt])) = tr _ w ++ EB pid :: u /\ (subpolled j u \/ (exists r, In (EEndR r) u) \/ In EEndX u).
Proof. intros Ho. unfold join_run, run_ops. rewrite run_snoc'. revert Ho. join_gt progress_trace tuple. Qed.
Theorem merge_progress_trace scs ops nxt j : (nxt = OPollFresh \/ nxt = OPollSame) ->
  let w := merge_run scs ops in let g := gfold (ginit (length scs)) (tr _ w) in
  finished _ w = false -> dropped _ w = false -> j < N _ m_n w -> aw _ m_awaited w j = true -> (t_fired g j = true \/ t_polled g j = false) ->
  exists pid u, tr _ (merge_run scs (ops ++ [nxt])) = tr _ w ++ EB pid :: u /\ (subpolled j u \/ (exists r, In (EEndR r) u) \/ In EEndX u).
Proof. intros Ho. unfold merge_run, run_ops. rewrite run_snoc'. revert Ho. merge_gt progress_trace. Qed.
Theorem zip_progress_trace scs ops nxt j : (nxt = OPollFresh \/ nxt = OPollSame) ->
  let w := zip_run scs ops in let g := gfold (ginit (length scs)) (tr _ w) in
  finished _ w = false -> dropped _ w = false -> j < N _ z_n w -> aw _ z_awaited w j = true -> (t_fired g j = true \/ t_polled g j = false) ->
  exists pid u, tr _ (zip_run scs (ops ++ [nxt])) = tr _ w ++ EB pid :: u /\ (subpolled j u \/ (exists r, In (EEndR r) u) \/ In EEndX u).
Proof. intros Ho. unfold zip_run, run_ops. rewrite run_snoc'. revert Ho. zip_gt progress_trace. Qed.
Theorem group_progress_trace stream cap0 ops nxt j : (nxt = OPollFresh \/ nxt = OPollSame) ->
  let w := group_run stream cap0 ops in let g := gfold (ginit 0) (tr _ w) in
  finished _ w = false -> dropped _ w = false -> j < N _ g_slots w -> aw _ g_awaited w j = true -> (t_fired g j = true \/ t_polled g j = false) ->
  exists pid u, tr _ (group_run stream cap0 (ops ++ [nxt])) = tr _ w ++ EB pid :: u /\ (subpolled j u \/ (exists r, In (EEndR r) u) \/ In EEndX u).
Proof. intros Ho. unfold group_run, run_ops. rewrite run_snoc'. revert Ho. group_gt progress_trace stream cap0. Qed.
