From Coq Require Import List Arith Lia Bool.
Import ListNotations.
Require Import ScanFull InstsFull ObligJoin ObligGroups C04Join C11Groups C05Join.

(* C04 / C05, "resolves in the very poll in which the last child resolves": completeness at operation boundaries.
   Tj / Uj of C05Join say what a result is when there is one; here: between operations, once at least one poll has been made, a join that has
   produced no result yet still waits for a child (pending > 0), i.e. some child has not answered a value.  Since this holds after EVERY poll, the
   poll in which the last child answers cannot end without the result.  The arity-0 tuple is excluded: it does not exist as an instance of the macro
   (the hand-written impl for () is the slice algorithm at n = 0, see runner/main.ml). *)
Section C04When.
  Variables (tryj tuple: bool) (n: nat).
  Notation Tj := (Tj tryj tuple n). Notation Uj := (Uj tryj tuple n).
  Definition CompT (s: jst) (t: list ev) : Prop := (tuple = true -> 0 < n) -> t <> [] -> j_consumed s = false -> 0 < pending s.
  Definition CompU (s: jst) : Prop := tuple = true -> 0 < n -> 0 < pending s.
  Definition Tc (s: jst) (t: list ev) := Tj s t /\ CompT s t.
  Definition Uc (s: jst) (t: list ev) := Uj s t /\ CompU s.

  Lemma count_all_pending l : (forall i, i < length l -> nth i l PNone = PPending) -> count_pending l = length l.
  Proof.
    unfold count_pending. induction l as [|p l IH]; intros H; cbn; auto.
    pose proof (H 0 ltac:(cbn; lia)) as H0. cbn in H0. subst p. cbn. f_equal. apply IH. intros i Hi. apply (H (S i)). cbn. lia.
  Qed.
  (* nothing polled yet: every child is still pending *)
  Lemma Live_fresh s : Base tryj tuple s -> Live n s [] -> pending s = n.
  Proof.
    intros (_ & _ & HQ) (_ & Hlp & Hli & Hsl & _). unfold j_Q in HQ. rewrite HQ, <- Hlp. apply count_all_pending.
    intros i Hi. rewrite Hlp in Hi. destruct (Hsl i Hi) as [A [[B _]|[_ [v B]]]]; auto. cbn in A. rewrite B in A. discriminate.
  Qed.
  Lemma snoc_not_nil {A} (l: list A) x : l ++ [x] <> [].
  Proof. destruct l; discriminate. Qed.
  Lemma app_cons_not_nil {A} (l: list A) x r : l ++ x :: r <> [].
  Proof. destruct l; discriminate. Qed.

  Lemma Uc_cont : forall s t i a s' eh wkr, Uc s t -> j_awaited s i = true -> i < j_slots s ->
    j_handle s i a = (s', Cont, eh) -> Uc s' (t ++ EC i wkr :: EAns a :: strip eh).
  Proof.
    intros s t i a s' eh wkr [HU HC] Ha Hi Hh. split; [eapply Uj_cont; eauto|].
    destruct HU as [(_ & Bu & _) _]. intros Ht Hn. specialize (HC Ht Hn).
    pose proof (j_handle_cases s i a) as Hc. destruct a as [|[v|e]|v| |]; cbn zeta in Hc; rewrite Hc in Hh; try (inversion Hh; subst; exact HC); try discriminate.
    rewrite Bu, Ht in Hh. cbn [andb] in Hh. destruct (Nat.eqb_spec (pending s - 1) 0); inversion Hh; subst. cbn [pending]. lia.
  Qed.
  Lemma Uc_stop : forall s t i a s' r o eh wkr, Uc s t -> j_awaited s i = true -> i < j_slots s ->
    j_handle s i a = (s', Stop r o, eh) -> Tc s' (t ++ EC i wkr :: EAns a :: strip eh ++ [EEndR o]).
  Proof.
    intros s t i a s' r o eh wkr [HU HC] Ha Hi Hh. split; [eapply Uj_stop; eauto|].
    intros _ _ Hcons. exfalso.
    pose proof (j_handle_cases s i a) as Hc. destruct a as [|[v|e]|v| |]; cbn zeta in Hc; rewrite Hc in Hh; try discriminate.
    - destruct (j_tup s && (pending s - 1 =? 0)); inversion Hh; subst. cbn in Hcons. discriminate.
    - inversion Hh; subst. cbn in Hcons. discriminate.
  Qed.
  Lemma Tc_order : forall s is s1 t, j_order s = Some (is, s1) -> Tc s t -> Uc s1 t.
  Proof.
    intros s is s1 t E [HT HC]. split; [eapply Tj_order; eauto|].
    unfold j_order in E. destruct (j_consumed s) eqn:Ec; [discriminate|]. inversion E; subst. intros Ht Hn.
    destruct t as [|e t].
    - destruct HT as [HB [HL|[Hc' _]]]; [|congruence]. rewrite (Live_fresh s1 HB HL). exact Hn.
    - apply HC; auto. discriminate.
  Qed.
  Lemma Uc_finish : forall s t, Uc s t ->
    match snd (j_finish s) with Some o => Tc (fst (j_finish s)) (t ++ [EEndR o]) | None => Tc (fst (j_finish s)) (t ++ [EEndP]) end.
  Proof.
    intros s t [HU HC]. pose proof (Uj_finish tryj tuple n s t HU) as HF. destruct HU as [(_ & Bu & _) (Hcons & _)].
    unfold j_finish in *. destruct (negb (j_consumed s) && negb (j_tup s) && (pending s =? 0)) eqn:E; cbn [fst snd] in *.
    - split; [exact HF|]. intros _ _ X. unfold j_reset in X. cbn in X. discriminate.
    - split; [exact HF|]. intros Ht _ _. rewrite Hcons, Bu in E. cbn [negb andb] in E.
      destruct (Bool.bool_dec tuple true) as [Etu|Etu].
      + apply HC; auto.
      + apply Bool.not_true_is_false in Etu. rewrite Etu in E. cbn in E. destruct (Nat.eqb_spec (pending s) 0); [discriminate|lia].
  Qed.
  Lemma Tc_endp : forall s t, j_pre_any s = true -> Tc s t -> Tc s (t ++ [EEndP]).
  Proof.
    intros s t Hp [HT HC]. split; [apply Tj_endp; exact HT|]. intros _ _ _. unfold j_pre_any in Hp.
    apply andb_true_iff in Hp as [_ Hp]. destruct (Nat.eqb_spec (pending s) 0); [discriminate|lia].
  Qed.
  Lemma Uc_endp : tuple = true -> forall s t, Uc s t -> Tc s (t ++ [EEndP]).
  Proof.
    intros Etu s t [HU HC]. split; [apply Uj_endp; exact HU|]. intros Ht _ _. apply HC; auto.
  Qed.
  Lemma Tc_Q : forall s t, Tc s t -> j_Q s. Proof. intros s t [H _]. eapply Tj_Q; eauto. Qed.
  Lemma Uc_Q : forall s t, Uc s t -> j_Q s. Proof. intros s t [H _]. eapply Uj_Q; eauto. Qed.
End C04When.

Lemma count_pos_nth l : 0 < count_pending l -> exists i, i < length l /\ nth i l PNone = PPending.
Proof.
  unfold count_pending. induction l as [|p l IH]; cbn; [lia|]. intros H. destruct p; cbn in H.
  - destruct (IH H) as (i & Hi & Hp). exists (S i). split; [lia|exact Hp].
  - exists 0. split; [lia|reflexivity].
  - destruct (IH H) as (i & Hi & Hp). exists (S i). split; [lia|exact Hp].
Qed.
(* between operations, after at least one poll, with no result yet: nobody has failed and some child has not answered its value yet *)
Theorem C04_when selective tryj tuple scs ops : let n := length scs in let w := join_run' selective tryj tuple scs ops in
  dropped _ w = false -> (tuple = true -> 0 < n) ->
  let t := strip (tr _ w) in
  t <> [] -> results t = [] -> errs (polls_from 0 t) = [] /\ exists i, i < n /\ okl i (polls_from 0 t) = [].
Proof.
  intros n w Hd Htn t Hne Hres.
  assert (H : Tc tryj tuple n (cs _ w) t).
  { apply (TW_run jst j_slots j_awaited (fun _ i => i) j_handle tuple tuple j_order (fun _ => None) j_pre_any j_finish (fun s => s) j_drop (fun _ => true)
             j_Q J1 J8 J9 J10 J12 (@no_mut jst) (Tc tryj tuple n) (Uc tryj tuple n)
             (Uc_cont tryj tuple n) (Uc_stop tryj tuple n) (fun s is s1 t _ => Tc_order tryj tuple n s is s1 t) (Uc_finish tryj tuple n)
             (fun s t o _ (E: None = Some o) => match E with eq_refl => I end) (fun s t _ Hp => Tc_endp tryj tuple n s t Hp) (Uc_endp tryj tuple n)
             (Tc_Q tryj tuple n) (Uc_Q tryj tuple n) (fun w _ _ _ _ H _ => H) ops); [|exact Hd].
    intros _. cbn. split.
    - split; [split; [reflexivity|split; [reflexivity|]]|].
      + unfold j_Q. cbn [pending pst cs mk_world]. rewrite count_pending_repeat. reflexivity.
      + left. split; [reflexivity|]. cbn. rewrite !repeat_length. split; [reflexivity|]. split; [reflexivity|]. split; [|split; reflexivity].
        intros i Hi. unfold slot_ok. cbn. rewrite !repeat_nth by auto. split; [reflexivity|]. left. auto.
    - intros _ X. contradiction. }
  destruct H as [[HB [HL|(_ & o & Hr & _)]] HC]; [|fold t in Hr; rewrite Hres in Hr; discriminate].
  destruct HL as (Hcons & Hlp & Hli & Hsl & He & _). split; [exact He|].
  specialize (HC Htn Hne Hcons). destruct HB as (_ & _ & HQ). unfold j_Q in HQ. rewrite HQ in HC.
  destruct (count_pos_nth (pst (cs _ w)) HC) as (i & Hi & Hp). exists i. split; [lia|].
  destruct (Hsl i ltac:(lia)) as [A [[_ B]|[B _]]]; [|congruence]. rewrite A, B. reflexivity.
Qed.
