From Coq Require Import List Arith Lia Bool.
Import ListNotations.
Require Import ScanFull InstsFull ObligMZ C08Merge.

(* C17: merge over n inputs; input f always has an item (its script consists of Item steps and is never exhausted along the history).
   Then the k-th result (k = 0, 1, ...) comes from f whenever k mod n = f: among any n consecutive yields at least one is f's. *)
Section C17.
  Variable f : nat.
  Lemma m_item_stop : forall s v, exists o, m_handle s f (AItem v) = (s, Stop RSelf o, []) /\ prov o = Some f.
  Proof. intros s v. eexists. split; reflexivity. Qed.
  Lemma m_other_aw : forall s j a, j <> f -> m_awaited s f = true -> m_awaited (fst (fst (m_handle s j a))) f = true.
  Proof.
    intros s j a Hne Ha. destruct a as [|r|v| |]; cbn; auto. destruct (_ =? _); cbn; rewrite m_aw_upd; destruct (Nat.eqb_spec f j); congruence.
  Qed.
  Lemma m_quiet : forall s i a, results (snd (m_handle s i a)) = [].
  Proof. intros s i a. destruct a as [|r|v| |]; cbn; auto. destruct (_ =? _); reflexivity. Qed.
  Lemma m_aw_lt s : m_awaited s f = true -> f < m_n s.
  Proof. unfold m_awaited, m_n. intros H. destruct (Nat.lt_ge_cases f (length (m_pst s))); auto. rewrite nth_overflow in H by auto. discriminate. Qed.
  Lemma m_pre_none : forall s, m_awaited s f = true -> m_pre_exit s = None /\ false = false.
  Proof. intros s Ha. pose proof (m_aw_lt s Ha). unfold m_pre_exit. destruct (Nat.eqb_spec (m_n s) 0); [lia|auto]. Qed.
  Lemma m_off_order : forall s, m_Q s -> m_awaited s f = true -> f < m_n s ->
    exists is s1, m_order s = Some (is, s1) /\ m_offset s1 = (m_offset s + 1) mod m_n s /\ hd_error is = Some (m_offset s) /\ In f is.
  Proof.
    intros s HQ Ha Hf.
    assert (Eo : m_order s = Some (map (fun k => (k + m_offset s) mod m_n s) (seq 0 (m_n s)),
                                  {| m_pst := m_pst s; m_complete := m_complete s; m_offset := (m_offset s + 1) mod m_n s |})).
    { unfold m_order. destruct (Nat.eqb_spec (m_n s) 0); [lia|reflexivity]. }
    eexists. eexists. split; [exact Eo|]. split; [reflexivity|]. destruct HQ as [X|Hoff]; [lia|]. split.
    - destruct (m_n s) as [|k] eqn:En; [lia|]. cbn [seq map hd_error]. rewrite Nat.add_0_l, Nat.mod_small by lia. reflexivity.
    - apply (M13 s _ _ (or_intror Hoff) Eo); auto.
  Qed.
  Lemma m_off_handle : forall s i a, m_offset (fst (fst (m_handle s i a))) = m_offset s.
  Proof. intros s i a. destruct a as [|r|v| |]; cbn; auto. destruct (_ =? _); reflexivity. Qed.
  Lemma m_drop_quiet : forall s, results (drop_all_children (m_n s)) = [].
  Proof. intros s. unfold drop_all_children. induction (seq 0 (m_n s)); cbn; auto. Qed.

  Theorem C17_merge selective scs ops : let n := length scs in f < n ->
    Forall (fun st => itemp (answer st)) (nth f scs []) ->
    (forall ops1 ops2, ops = ops1 ++ ops2 -> ops2 <> [] -> nth f (scripts _ (merge_run_fixed selective scs ops1)) [] <> []) ->
    let rs := results (tr _ (merge_run_fixed selective scs ops)) in
    forall k, k < length rs -> k mod n = f -> prov (nth k rs ONone) = Some f.
  Proof.
    intros n Hf Hit Hsc rs.
    assert (HI : InvF mst m_n m_awaited m_Q f m_offset n (merge_run_fixed selective scs ops)).
    { unfold merge_run_fixed.
      apply (fair_run mst m_n m_awaited (fun _ i => i) m_handle true true m_order m_pre_exit (fun _ => false) m_finish (fun s => s)
               (fun s => drop_all_children (m_n s)) m_final m_Q M1 M8 M9 M10 M11 M12 M14 mmut f (fun _ _ => eq_refl) m_item_stop m_other_aw m_quiet
               m_offset m_pre_none m_off_order m_off_handle (fun _ => eq_refl) m_drop_quiet (fun _ _ _ _ => eq_refl) n ops).
      - split; [intros k Hk; cbn in Hk; lia|]. intros _ _. unfold N, m_n. cbn. rewrite repeat_length. split; [reflexivity|].
        split; [|split; [unfold m_Q, m_n; cbn; rewrite repeat_length; right; fold n; lia|cbn; rewrite Nat.mod_0_l by (fold n; lia); reflexivity]].
        unfold GoodF, GoodB, aw, N, m_n, m_awaited. cbn. rewrite !repeat_length. fold n.
        split; [intros _ _; apply repeat_nth; auto|]. split; [rewrite repeat_nth by auto; reflexivity|]. split; [exact Hf|]. split; [reflexivity|exact Hit].
      - exact Hsc. }
    destruct HI as [HW _]. exact HW.
  Qed.
End C17.

(* the property's own wording: among any n consecutive yields at least one is f's *)
Lemma residue_in_window start n f : f < n -> exists k, start <= k < start + n /\ k mod n = f.
Proof.
  intros Hf. assert (Hn : n <> 0) by lia.
  pose proof (Nat.div_mod start n Hn) as Hdm. pose proof (Nat.mod_upper_bound start n Hn) as Hr.
  set (q := start / n) in *. set (r := start mod n) in *.
  destruct (Nat.le_gt_cases r f) as [Hle|Hgt].
  - exists (f + q * n). split; [nia|]. rewrite Nat.mod_add by exact Hn. apply Nat.mod_small; exact Hf.
  - exists (f + (q + 1) * n). split; [nia|]. rewrite Nat.mod_add by exact Hn. apply Nat.mod_small; exact Hf.
Qed.
Theorem C17_window f selective scs ops : let n := length scs in f < n ->
  Forall (fun st => itemp (answer st)) (nth f scs []) ->
  (forall ops1 ops2, ops = ops1 ++ ops2 -> ops2 <> [] -> nth f (scripts _ (merge_run_fixed selective scs ops1)) [] <> []) ->
  let rs := results (tr _ (merge_run_fixed selective scs ops)) in
  forall start, start + n <= length rs -> exists k, start <= k < start + n /\ prov (nth k rs ONone) = Some f.
Proof.
  intros n Hf Hit Hsc rs start Hlen. destruct (residue_in_window start n f Hf) as (k & Hk & Hm).
  exists k. split; [exact Hk|]. apply (C17_merge f selective scs ops Hf Hit Hsc); [unfold rs in *; lia|exact Hm].
Qed.
