From Coq Require Import List Arith Lia Bool.
Import ListNotations.
Require Import ScanFull InstsFull Pass PassProofs PassPolls.

(* C01, "consequently ... every race / race_ok future resolves and every chain stream yields its next item or ends once its children have made the
   progress that permits it", for the combinators that hand the caller's Context straight to their children.
   These combinators keep no readiness of their own: every poll polls every child that can still contribute (race, race_ok) or the current input (chain),
   so progress does not depend on WHICH wakers were invoked between two polls - only on the executor polling again, and it does that because every
   waker a child was handed is the caller's own (C01_race / C01_race_ok / C01_chain: invoking it wakes the task that polled most recently).
   The theorems below are therefore stated for EVERY schedule of waker invocations and polls, fresh or repeated wakers: within [mu + 1] polls the
   combinator returns a result, where mu counts the Pending answers the children still have to give before the progress "that permits it". *)

Section PassLive.
  Variable St : Type.
  Variable pollf : W St -> nat -> nat -> W St.
  Variable dropsf : St -> list ev.
  Variable I : nat -> St -> list (list step) -> Prop.       (* bound, combinator state, remaining scripts of the children *)
  Definition returns (w w': W St) := exists u o, tr St w' = tr St w ++ u ++ [EEndR o].
  Definition Iw (b: nat) (w: W St) := exists b', b' <= b /\ I b' (cs St w) (scripts St w).
  Definition Good (b: nat) (w: W St) := dropped St w = false /\ (finished St w = true \/ Iw b w).
  Hypothesis H_poll : forall b w pid np, I b (cs St w) (scripts St w) -> finished St w = false -> dropped St w = false ->
    let w' := pollf w pid np in
    (returns w w' /\ Good b w') \/
    (finished St w' = false /\ dropped St w' = false /\ exists b', b' < b /\ I b' (cs St w') (scripts St w')).

  Definition is_poll (o: op) : bool := match o with OPollFresh | OPollSame => true | _ => false end.
  Definition sched1 (o: op) : Prop := match o with OPollFresh | OPollSame | OFire _ _ => True | _ => False end.
  Definition sched (ops: list op) : Prop := Forall sched1 ops.
  Definition npolls (ops: list op) : nat := length (filter is_poll ops).

  Lemma fire_frame w c k : let w' := p_step St pollf dropsf w (OFire c k) in
    cs St w' = cs St w /\ scripts St w' = scripts St w /\ finished St w' = finished St w /\ dropped St w' = dropped St w.
  Proof.
    cbn [p_step]. destruct (fire_handle_pass St (fun _ => 0) (emit St w [EO]) c k) as [A B].
    destruct (fire_handle_T St (fun _ => 0) (emit St w [EO]) c k) as (_ & X & _). rewrite (fire_handle_fin St). auto.
  Qed.
  Lemma poll_is w o : is_poll o = true -> finished St w = false -> dropped St w = false -> exists pid np, p_step St pollf dropsf w o = pollf w pid np.
  Proof. intros Hp Hf Hd. destruct o; try discriminate; cbn [p_step]; rewrite Hf, Hd; cbn; eexists; eexists; reflexivity. Qed.
  Lemma Good_mono b b' w : b <= b' -> Good b w -> Good b' w.
  Proof. intros Hb [D [F|(b0 & H0 & HI)]]; split; auto. right. exists b0. split; [lia|exact HI]. Qed.

  Lemma good_step b w o : sched1 o -> Good b w -> Good b (p_step St pollf dropsf w o).
  Proof.
    intros Ho [Hd HG]. destruct (is_poll o) eqn:Hp.
    - destruct (finished St w) eqn:Hf.
      + replace (p_step St pollf dropsf w o) with w; [split; auto|]. destruct o; try discriminate; cbn [p_step]; rewrite Hf; reflexivity.
      + destruct HG as [X|(b0 & Hb0 & HI)]; [discriminate|]. destruct (poll_is w o Hp Hf Hd) as (pid & np & E). rewrite E.
        destruct (H_poll b0 w pid np HI Hf Hd) as [(_ & G)|(F & D & b1 & Hb1 & HI')]; [eapply Good_mono; eauto|].
        split; [exact D|]. right. exists b1. split; [lia|exact HI'].
    - destruct o; try discriminate; try contradiction. destruct (fire_frame w c k) as (A & B & F & D).
      split; [congruence|]. rewrite F. destruct HG as [X|(b0 & Hb0 & HI)]; [left; exact X|right]. exists b0. rewrite A, B. auto.
  Qed.
  (* after every schedule of waker invocations and polls: finished, or the invariant holds with a bound that has not grown *)
  Theorem pass_reach b ops : forall w, sched ops -> Good b w -> Good b (p_world St pollf dropsf w ops).
  Proof. induction ops as [|o r IH]; intros w Hs HG; [exact HG|]. inversion Hs; subst. cbn [p_world fold_left]. apply IH; [assumption|]. apply good_step; assumption. Qed.

  (* with bound b, one of the first b + 1 polls returns a result - whatever wakers are invoked in between *)
  Theorem pass_returns ops : forall b w, sched ops -> I b (cs St w) (scripts St w) -> finished St w = false -> dropped St w = false -> b < npolls ops ->
    exists ops1 p ops2, ops = ops1 ++ p :: ops2 /\ is_poll p = true /\ npolls ops1 <= b /\
      let w1 := p_world St pollf dropsf w ops1 in
      finished St w1 = false /\ dropped St w1 = false /\ returns w1 (p_step St pollf dropsf w1 p) /\ Good b (p_step St pollf dropsf w1 p).
  Proof.
    induction ops as [|o r IH]; intros b w Hs HI Hf Hd Hm; [cbn in Hm; lia|].
    inversion Hs as [|? ? Ho Hr]; subst.
    destruct (is_poll o) eqn:Hp.
    - destruct (poll_is w o Hp Hf Hd) as (pid & np & E).
      destruct (H_poll b w pid np HI Hf Hd) as [(R & G)|(F & D & b1 & Hb1 & HI')].
      + exists [], o, r. split; [reflexivity|]. split; [exact Hp|]. split; [cbn; lia|]. cbn. rewrite E. auto.
      + destruct (IH b1 (pollf w pid np) Hr HI' F D) as (ops1 & p & ops2 & E1 & E2 & E3 & E4 & E5 & E6 & E7).
        { unfold npolls in Hm |- *. cbn [filter] in Hm. rewrite Hp in Hm. cbn in Hm. lia. }
        exists (o :: ops1), p, ops2. split; [rewrite E1; reflexivity|]. split; [exact E2|].
        split; [unfold npolls in E3 |- *; cbn [filter]; rewrite Hp; cbn; lia|]. cbn [p_world fold_left]. rewrite E.
        split; [exact E4|]. split; [exact E5|]. split; [exact E6|]. eapply Good_mono; [|exact E7]. lia.
    - destruct o; try discriminate; try contradiction. destruct (fire_frame w c k) as (A & B & F & D).
      destruct (IH b (p_step St pollf dropsf w (OFire c k)) Hr) as (ops1 & p & ops2 & E1 & E2 & E3 & E4); [rewrite A, B; exact HI|congruence|congruence|exact Hm|].
      exists (OFire c k :: ops1), p, ops2. split; [rewrite E1; reflexivity|]. split; [exact E2|]. split; [exact E3|exact E4].
  Qed.

  (* from every reachable state: after any schedule from a state with bound b0, if not finished, any continuation with more than b0 polls returns *)
  Corollary pass_next b0 w0 ops0 ops : sched ops0 -> sched ops -> Good b0 w0 -> let w := p_world St pollf dropsf w0 ops0 in
    finished St w = false -> b0 < npolls ops ->
    exists ops1 p ops2, ops = ops1 ++ p :: ops2 /\ is_poll p = true /\ npolls ops1 <= b0 /\
      let w1 := p_world St pollf dropsf w ops1 in
      finished St w1 = false /\ dropped St w1 = false /\ returns w1 (p_step St pollf dropsf w1 p) /\ Good b0 (p_step St pollf dropsf w1 p).
  Proof.
    intros Hs0 Hs HG w Hf Hm. destruct (pass_reach b0 ops0 w0 Hs0 HG) as [D [F|(b & Hb & HI)]]; [fold w in F; congruence|].
    destruct (pass_returns ops b w Hs HI Hf D) as (ops1 & p & ops2 & E1 & E2 & E3 & E4 & E5 & E6 & E7); [lia|].
    exists ops1, p, ops2. split; [exact E1|]. split; [exact E2|]. split; [lia|]. cbn zeta. split; [exact E4|]. split; [exact E5|]. split; [exact E6|].
    eapply Good_mono; eauto.
  Qed.
End PassLive.

(* ---- scripts of futures: Pending^k then Ready ---- *)
Fixpoint lead (sc: list step) : option nat :=
  match sc with
  | [] => None
  | s :: rest => match answer s with APend => option_map S (lead rest) | AReady _ => Some 0 | _ => None end
  end.
Fixpoint goodf (sc: list step) : bool :=
  match sc with [] => true | s :: rest => match answer s with APend => goodf rest | AReady _ => true | _ => false end end.
Definition leadn (sc: list step) : nat := match lead sc with Some k => k | None => 0 end.

(* one direct child poll, with the remaining scripts exposed *)
Lemma poll_direct_live {St} (w: W St) m pid : let '(w', a) := poll_direct St w m pid in
  cs St w' = cs St w /\ dropped St w' = dropped St w /\ finished St w' = finished St w /\ (exists u, tr St w' = tr St w ++ u) /\
  length (scripts St w') = length (scripts St w) /\
  match nth m (scripts St w) [] with
  | [] => a = APend /\ scripts St w' = scripts St w
  | x :: rest => a = answer x /\ scripts St w' = upd (scripts St w) m rest
  end.
Proof.
  pose proof (poll_direct_spec St w m pid) as Hs. unfold poll_direct in *. unfold pop.
  destruct (nth m (scripts St w) []) as [|x rest] eqn:En.
  - match goal with |- context[fires_of St ?sl ?W0 m ?f] => destruct (fires_of_pass St sl W0 m f) as [A B]; destruct (fires_of_keeps St sl 0 W0 m f) as [(_ & _ & [u Hu]) _];
      destruct (fires_of_T St sl W0 m f) as (_ & D & _); pose proof (fires_of_fin St W0 m f) as F end.
    cbn [cs dropped finished tr emit scripts]. rewrite A, B, D, F, Hu. cbn.
    repeat split; try reflexivity. eexists. rewrite <- !app_assoc. reflexivity.
  - match goal with |- context[fires_of St ?sl ?W0 m ?f] => destruct (fires_of_pass St sl W0 m f) as [A B]; destruct (fires_of_keeps St sl 0 W0 m f) as [(_ & _ & [u Hu]) _];
      destruct (fires_of_T St sl W0 m f) as (_ & D & _); pose proof (fires_of_fin St W0 m f) as F end.
    cbn [cs dropped finished tr emit scripts]. rewrite A, B, D, F, Hu. cbn. rewrite upd_length.
    repeat split; try reflexivity. eexists. rewrite <- !app_assoc. reflexivity.
Qed.

Lemma NoDup_rot n off : NoDup (rot n off).
Proof.
  apply (@NoDup_incl_NoDup nat (seq 0 n)); [apply seq_NoDup|unfold rot; rewrite map_length; lia|].
  intros i Hi. apply in_seq in Hi. apply in_rot. lia.
Qed.

Definition allgood (sc: list (list step)) := Forall (fun x => goodf x = true) sc.
Lemma allgood_nth sc i : allgood sc -> goodf (nth i sc []) = true.
Proof. intros H. destruct (Nat.lt_ge_cases i (length sc)) as [Hi|Hi]; [eapply Forall_nth in H; eauto|rewrite nth_overflow; auto]. Qed.

(* ---------------- race ---------------- *)
Lemma race_scan_live is : forall (w: W rst) pid, NoDup is -> allgood (scripts _ w) ->
  let '(w', r) := race_scan w is pid in
  cs _ w' = cs _ w /\ dropped _ w' = dropped _ w /\ finished _ w' = finished _ w /\ (exists u, tr _ w' = tr _ w ++ u) /\
  match r with
  | None => allgood (scripts _ w') /\ length (scripts _ w') = length (scripts _ w) /\
            (forall j, In j is -> lead (nth j (scripts _ w) []) = option_map S (lead (nth j (scripts _ w') []))) /\
            (forall j, ~ In j is -> nth j (scripts _ w') [] = nth j (scripts _ w) [])
  | Some (Some o) => True
  | Some None => False
  end.
Proof.
  induction is as [|i rest IH]; intros w pid Hnd Hg; cbn [race_scan].
  - repeat split; auto. + exists []. rewrite app_nil_r. reflexivity. + intros j [].
  - inversion Hnd as [|? ? Hni Hnd']; subst.
    pose proof (poll_direct_live w i pid) as Hs. destruct (poll_direct rst w i pid) as [w1 a]. destruct Hs as (A & B & C & [u Hu] & L & E).
    pose proof (allgood_nth _ i Hg) as Hgi.
    assert (Hcont : a = APend -> (forall j, j <> i -> nth j (scripts _ w1) [] = nth j (scripts _ w) []) ->
              lead (nth i (scripts _ w) []) = option_map S (lead (nth i (scripts _ w1) [])) -> allgood (scripts _ w1) ->
              let '(w', r) := race_scan w1 rest pid in
              cs _ w' = cs _ w /\ dropped _ w' = dropped _ w /\ finished _ w' = finished _ w /\ (exists u, tr _ w' = tr _ w ++ u) /\
              match r with
              | None => allgood (scripts _ w') /\ length (scripts _ w') = length (scripts _ w) /\
                        (forall j, In j (i :: rest) -> lead (nth j (scripts _ w) []) = option_map S (lead (nth j (scripts _ w') []))) /\
                        (forall j, ~ In j (i :: rest) -> nth j (scripts _ w') [] = nth j (scripts _ w) [])
              | Some (Some o) => True
              | Some None => False
              end).
    { intros _ Hoth Hi Hg1. specialize (IH w1 pid Hnd' Hg1). destruct (race_scan w1 rest pid) as [w' r]. destruct IH as (A' & B' & C' & [u' Hu'] & R).
      split; [congruence|]. split; [congruence|]. split; [congruence|]. split; [exists (u ++ u'); rewrite Hu', Hu, app_assoc; reflexivity|].
      destruct r as [[o|]|]; auto. destruct R as (R1 & R2 & R3 & R4). split; [exact R1|]. split; [congruence|]. split.
      - intros j [<-|Hj]; [rewrite (R4 i Hni); exact Hi|]. rewrite <- (R3 j Hj). rewrite Hoth; [reflexivity|]. intros ->. contradiction.
      - intros j Hj. rewrite (R4 j); [apply Hoth|]; intros X; apply Hj; [left; auto|right; exact X]. }
    destruct (nth i (scripts _ w) []) as [|x rst0] eqn:En.
    + destruct E as [-> E]. apply Hcont; auto; [intros; rewrite E; reflexivity|rewrite E, En; reflexivity|rewrite E; exact Hg].
    + destruct E as [-> E]. cbn [goodf] in Hgi.
      assert (Hi : i < length (scripts _ w)). { destruct (Nat.lt_ge_cases i (length (scripts _ w))); auto. rewrite nth_overflow in En; [discriminate|auto]. }
      destruct (answer x) as [|[v|v]|v| |] eqn:Ex; try discriminate.
      * apply Hcont; auto.
        -- intros j Hj. rewrite E. apply nth_upd_other. auto.
        -- rewrite E, nth_upd_same by exact Hi. cbn [lead]. rewrite Ex. reflexivity.
        -- rewrite E. apply Forall_upd'; [exact Hg|exact Hgi].
      * repeat split; auto. exists u. exact Hu.
      * repeat split; auto. exists u. exact Hu.
Qed.

Definition I_race (i0: nat) (b: nat) (s: rst) (sc: list (list step)) : Prop :=
  r_n s = length sc /\ i0 < length sc /\ allgood sc /\ lead (nth i0 sc []) = Some b.

Lemma race_poll_live i0 : forall b (w: W rst) pid np, I_race i0 b (cs _ w) (scripts _ w) -> finished _ w = false -> dropped _ w = false ->
  let w' := race_poll w pid np in
  (returns rst w w' /\ Good rst (I_race i0) b w') \/
  (finished _ w' = false /\ dropped _ w' = false /\ exists b', b' < b /\ I_race i0 b' (cs _ w') (scripts _ w')).
Proof.
  intros b w pid np (Hn & Hi & Hg & Hl) Hf Hd. unfold race_poll.
  set (w0 := begin_p rst w pid np).
  assert (H0 : cs _ w0 = cs _ w /\ scripts _ w0 = scripts _ w /\ tr _ w0 = tr _ w ++ [EB pid] /\ finished _ w0 = false /\ dropped _ w0 = false) by (unfold w0, begin_p; cbn; auto).
  destruct H0 as (C0 & S0 & T0 & F0 & D0). rewrite C0.
  destruct (r_n (cs rst w) =? 0) eqn:Ez; [apply Nat.eqb_eq in Ez; lia|].
  set (w1 := set_cs rst w0 _).
  pose proof (race_scan_live (rot (r_n (cs rst w)) (r_off (cs rst w))) w1 pid (NoDup_rot _ _)) as Hs.
  destruct (race_scan w1 (rot (r_n (cs rst w)) (r_off (cs rst w))) pid) as [w2 r].
  destruct Hs as (A & B & C & [u Hu] & R); [unfold w1; cbn [scripts set_cs]; rewrite S0; exact Hg|].
  assert (T1 : tr _ w1 = tr _ w ++ [EB pid]) by (unfold w1; cbn [tr set_cs]; exact T0).
  destruct r as [[o|]|]; [| contradiction |].
  - left. split.
    { unfold returns, finish_p. exists (EB pid :: u), o. cbn [tr emit set_flags]. rewrite Hu, T1, <- !app_assoc. reflexivity. }
    unfold Good, finish_p. cbn [finished dropped set_flags emit]. split; [rewrite B; unfold w1; cbn; exact D0|left; reflexivity].
  - right. destruct R as (R1 & R2 & R3 & R4). cbn [finished dropped emit cs scripts].
    assert (Hin : In i0 (rot (r_n (cs rst w)) (r_off (cs rst w)))) by (apply in_rot; lia).
    pose proof (R3 i0 Hin) as Hlead. unfold w1 in Hlead, R2. cbn [scripts set_cs] in Hlead, R2. rewrite S0 in Hlead, R2.
    split; [rewrite C; unfold w1; cbn; exact F0|]. split; [rewrite B; unfold w1; cbn; exact D0|].
    rewrite Hl in Hlead. destruct (lead (nth i0 (scripts rst w2) [])) as [k'|] eqn:Ek'; [|discriminate]. cbn in Hlead. inversion Hlead; subst b.
    exists k'. split; [lia|]. unfold I_race. rewrite A. unfold w1. cbn [cs set_cs r_n]. rewrite R2. auto.
Qed.

Definition race_w0 (scs: list (list step)) : W rst := mk_world {| r_off := 0; r_n := length scs |} false (length scs) scs.
(* race over n >= 1 futures, each scripted Pending* then Ready (or Pending for ever): if child i0 resolves after k Pending answers, then under EVERY
   schedule of waker invocations and polls - fresh or repeated parent wakers - that contains more than k polls, one of the first k + 1 polls has
   returned the result and finished the race *)
Theorem race_returns scs ops i0 k : i0 < length scs -> allgood scs -> lead (nth i0 scs []) = Some k -> sched ops -> k < npolls ops ->
  exists ops1 p ops2, ops = ops1 ++ p :: ops2 /\ is_poll p = true /\ npolls ops1 <= k /\
    let w1 := race_world scs ops1 in
    finished _ w1 = false /\ dropped _ w1 = false /\ returns rst w1 (p_step rst race_poll r_drops w1 p).
Proof.
  intros Hi Hg Hl Hs Hk. unfold race_world. fold (race_w0 scs).
  destruct (pass_returns rst race_poll r_drops (I_race i0) (race_poll_live i0) ops k (race_w0 scs) Hs) as (ops1 & p & ops2 & E1 & E2 & E3 & E4 & E5 & E6 & E7);
    [unfold race_w0, I_race; cbn; auto|reflexivity|reflexivity|exact Hk|].
  exists ops1, p, ops2. split; [exact E1|]. split; [exact E2|]. split; [exact E3|]. cbn zeta. split; [exact E4|]. split; [exact E5|exact E6].
Qed.

(* ---------------- race_ok ---------------- *)
Record J0 (s: kst) (sc: list (list step)) : Prop := {
  j0_n : k_n s = length sc; j0_len : length (k_errs s) = length sc;
  j0_cnt : k_completed s = length (all_vals (k_errs s));
  j0_good : forall i, nth i (k_errs s) None = None -> goodf (nth i sc []) = true }.

Lemma exists_none (l: list (option nat)) : length (all_vals l) < length l -> exists i, i < length l /\ nth i l None = None.
Proof.
  unfold all_vals. induction l as [|[v|] l IH]; cbn; intros H; [lia| |exists 0; split; [lia|reflexivity]].
  destruct IH as (i & Hi & Hn); [lia|]. exists (S i). split; [lia|exact Hn].
Qed.

Lemma kdone_live (w: W kst) i : let '(w', e) := kdone w i in
  scripts _ w' = scripts _ w /\ k_kind (cs _ w') = k_kind (cs _ w) /\ k_n (cs _ w') = k_n (cs _ w) /\ k_off (cs _ w') = k_off (cs _ w) /\
  k_errs (cs _ w') = k_errs (cs _ w) /\ k_completed (cs _ w') = k_completed (cs _ w) /\ dropped _ w' = dropped _ w /\ finished _ w' = finished _ w /\ tr _ w' = tr _ w.
Proof. unfold kdone. destruct (k_kind (cs kst w) =? 2); cbn; repeat split; auto. Qed.

Definition scan_post (is: list nat) (w w': W kst) : Prop :=
  J0 (cs _ w') (scripts _ w') /\ length (scripts _ w') = length (scripts _ w) /\
  (forall j e, nth j (k_errs (cs _ w)) None = Some e -> nth j (k_errs (cs _ w')) None = Some e) /\
  (forall j, In j is -> nth j (k_errs (cs _ w')) None = None ->
     nth j (k_errs (cs _ w)) None = None /\ lead (nth j (scripts _ w) []) = option_map S (lead (nth j (scripts _ w') []))) /\
  (forall j, ~ In j is -> nth j (scripts _ w') [] = nth j (scripts _ w) [] /\ nth j (k_errs (cs _ w')) None = nth j (k_errs (cs _ w)) None).

Lemma rok_scan_live is : forall (w: W kst) pid, NoDup is -> Forall (fun i => i < length (scripts _ w)) is -> J0 (cs _ w) (scripts _ w) ->
  let '(w', r) := rok_scan w is pid in
  k_kind (cs _ w') = k_kind (cs _ w) /\ k_n (cs _ w') = k_n (cs _ w) /\ dropped _ w' = dropped _ w /\ finished _ w' = finished _ w /\ (exists u, tr _ w' = tr _ w ++ u) /\
  match r with
  | None => scan_post is w w'
  | Some (Some o) => True
  | Some None => False
  end.
Proof.
  induction is as [|i rest IH]; intros w pid Hnd Hlt HJ; cbn [rok_scan].
  - split; [reflexivity|]. split; [reflexivity|]. split; [reflexivity|]. split; [reflexivity|]. split; [exists []; rewrite app_nil_r; reflexivity|].
    unfold scan_post. split; [exact HJ|]. split; [reflexivity|]. split; [auto|]. split; [intros j []|auto].
  - inversion Hnd as [|? ? Hni Hnd']; subst. inversion Hlt as [|? ? Hi Hlt']; subst.
    (* common continuation: the rest of the scan runs from a world w1 related to w at index i *)
    assert (Hcont : forall w1, k_kind (cs _ w1) = k_kind (cs _ w) -> k_n (cs _ w1) = k_n (cs _ w) -> dropped _ w1 = dropped _ w -> finished _ w1 = finished _ w ->
              (exists u, tr _ w1 = tr _ w ++ u) -> J0 (cs _ w1) (scripts _ w1) -> length (scripts _ w1) = length (scripts _ w) ->
              (forall j e, nth j (k_errs (cs _ w)) None = Some e -> nth j (k_errs (cs _ w1)) None = Some e) ->
              (forall j, j <> i -> nth j (scripts _ w1) [] = nth j (scripts _ w) [] /\ nth j (k_errs (cs _ w1)) None = nth j (k_errs (cs _ w)) None) ->
              (nth i (k_errs (cs _ w1)) None = None -> nth i (k_errs (cs _ w)) None = None /\ lead (nth i (scripts _ w) []) = option_map S (lead (nth i (scripts _ w1) []))) ->
              let '(w', r) := rok_scan w1 rest pid in
              k_kind (cs _ w') = k_kind (cs _ w) /\ k_n (cs _ w') = k_n (cs _ w) /\ dropped _ w' = dropped _ w /\ finished _ w' = finished _ w /\ (exists u, tr _ w' = tr _ w ++ u) /\
              match r with None => scan_post (i :: rest) w w' | Some (Some o) => True | Some None => False end).
    { intros w1 K1 K2 K3 K4 [u Hu] HJ1 L1 M1 O1 P1.
      specialize (IH w1 pid Hnd'). destruct (rok_scan w1 rest pid) as [w' r].
      destruct IH as (A & B & C & D & [u' Hu'] & R); [rewrite L1; exact Hlt'|exact HJ1|].
      split; [congruence|]. split; [congruence|]. split; [congruence|]. split; [congruence|]. split; [exists (u ++ u'); rewrite Hu', Hu, app_assoc; reflexivity|].
      destruct r as [[o|]|]; auto. destruct R as (R1 & R2 & R3 & R4 & R5).
      split; [exact R1|]. split; [congruence|]. split; [intros j e He; apply R3, M1, He|]. split.
      - intros j [<-|Hj] Hn.
        + destruct (R5 i Hni) as [S5 E5]. rewrite E5 in Hn. destruct (P1 Hn) as [P11 P12]. split; [exact P11|]. rewrite S5. exact P12.
        + destruct (R4 j Hj Hn) as [R41 R42]. assert (Hji : j <> i) by (intros ->; contradiction). destruct (O1 j Hji) as [O11 O12].
          split; [rewrite <- O12; exact R41|rewrite <- O11; exact R42].
      - intros j Hj. assert (Hji : j <> i) by (intros ->; apply Hj; left; reflexivity). assert (Hjr : ~ In j rest) by (intros X; apply Hj; right; exact X).
        destruct (R5 j Hjr) as [S5 E5]. destruct (O1 j Hji) as [O11 O12]. split; congruence. }
    destruct (nth i (k_errs (cs kst w)) None) as [e0|] eqn:Eerr.
    + (* already failed: skipped *)
      apply Hcont; auto; [exists []; rewrite app_nil_r; reflexivity|]. intros X. congruence.
    + pose proof (poll_direct_live w i pid) as Hs. destruct (poll_direct kst w i pid) as [w1 a]. destruct Hs as (A & B & C & [u Hu] & L & E).
      pose proof (j0_good _ _ HJ i Eerr) as Hgi.
      assert (HJ1 : forall sc', length sc' = length (scripts _ w) -> (forall j, j <> i -> nth j sc' [] = nth j (scripts _ w) []) -> goodf (nth i sc' []) = true -> J0 (cs _ w) sc').
      { intros sc' Hl Ho Hg. destruct HJ as [a1 a2 a3 a4]. constructor; try congruence.
        intros j Hj. destruct (Nat.eq_dec j i) as [->|Hne]; [exact Hg|]. rewrite Ho by exact Hne. apply a4, Hj. }
      assert (Hpend : a = APend -> (forall j, j <> i -> nth j (scripts _ w1) [] = nth j (scripts _ w) []) -> goodf (nth i (scripts _ w1) []) = true ->
                lead (nth i (scripts _ w) []) = option_map S (lead (nth i (scripts _ w1) [])) ->
                let '(w', r) := rok_scan w1 rest pid in
                k_kind (cs _ w') = k_kind (cs _ w) /\ k_n (cs _ w') = k_n (cs _ w) /\ dropped _ w' = dropped _ w /\ finished _ w' = finished _ w /\ (exists u, tr _ w' = tr _ w ++ u) /\
                match r with None => scan_post (i :: rest) w w' | Some (Some o) => True | Some None => False end).
      { intros _ Ho Hg Hl. apply Hcont.
        - congruence. - congruence. - congruence. - congruence. - exists u; exact Hu. - rewrite A; apply HJ1; auto. - exact L.
        - intros j e He; rewrite A; exact He. - intros j Hj; rewrite A; split; [apply Ho, Hj|reflexivity]. - intros _; split; [first [exact Eerr|reflexivity]|exact Hl]. }
      destruct (nth i (scripts _ w) []) as [|x rst0] eqn:En.
      * destruct E as [-> E]. apply Hpend; auto; [intros; rewrite E; reflexivity|rewrite E, En; reflexivity|rewrite E, En; reflexivity].
      * destruct E as [-> E]. cbn [goodf] in Hgi.
        assert (Ho : forall j, j <> i -> nth j (scripts _ w1) [] = nth j (scripts _ w) []) by (intros j Hj; rewrite E; apply nth_upd_other; auto).
        destruct (answer x) as [|[v|e]|v| |] eqn:Ex; try discriminate.
        -- apply Hpend; auto; [rewrite E, nth_upd_same by exact Hi; exact Hgi|rewrite E, nth_upd_same by exact Hi; cbn [lead]; rewrite Ex; reflexivity].
        -- pose proof (kdone_live w1 i) as Hk. destruct (kdone w1 i) as [w1' ed]. destruct Hk as (K0 & K1 & K2 & K3 & K4 & K5 & K6 & K7 & K8).
           cbn [cs emit dropped finished tr]. rewrite K1, K2, K6, K7, K8, A, B, C, Hu. repeat split; auto. eexists. rewrite <- app_assoc. reflexivity.
        -- pose proof (kdone_live w1 i) as Hk. destruct (kdone w1 i) as [w1' ed]. destruct Hk as (K0 & K1 & K2 & K3 & K4 & K5 & K6 & K7 & K8).
           match goal with |- context[rok_scan ?W rest pid] => set (w3 := W) end.
           assert (Ec : k_errs (cs _ w3) = upd (k_errs (cs _ w)) i (Some e)) by (unfold w3; cbn; rewrite K4, A; reflexivity).
           assert (Hil : i < length (k_errs (cs _ w))) by (rewrite (j0_len _ _ HJ); exact Hi).
           apply Hcont; unfold w3; cbn [cs set_cs emit k_kind k_n dropped finished tr scripts k_errs]; try congruence.
           ++ eexists. rewrite K8, Hu, <- app_assoc. reflexivity.
           ++ destruct HJ as [a1 a2 a3 a4]. constructor; cbn [k_n k_errs k_completed]; rewrite ?K0, ?K2, ?K4, ?K5, ?A.
              ** congruence. ** rewrite upd_length. congruence. ** rewrite all_vals_upd_len by auto. lia.
              ** intros j Hj. destruct (Nat.eq_dec j i) as [->|Hne]; [rewrite nth_upd_same in Hj by exact Hil; discriminate|].
                 rewrite nth_upd_other in Hj by auto. rewrite Ho by exact Hne. apply a4, Hj.
           ++ intros j e' He. rewrite K4, A. destruct (Nat.eq_dec j i) as [->|Hne]; [congruence|]. rewrite nth_upd_other by auto. exact He.
           ++ intros j Hj. rewrite K0, K4, A. split; [apply Ho, Hj|apply nth_upd_other; auto].
           ++ rewrite K4, A, nth_upd_same by exact Hil. discriminate.
Qed.

Definition I_rok (b: nat) (s: kst) (sc: list (list step)) : Prop :=
  J0 s sc /\ forall i, i < length sc -> nth i (k_errs s) None = None -> exists k, lead (nth i sc []) = Some k /\ k <= b.

Lemma seq_lt' n : Forall (fun i => i < n) (seq 0 n).
Proof. apply Forall_forall. intros i Hi. apply in_seq in Hi. lia. Qed.

Lemma rok_poll_live : forall b (w: W kst) pid np, I_rok b (cs _ w) (scripts _ w) -> finished _ w = false -> dropped _ w = false ->
  let w' := rok_poll w pid np in
  (returns kst w w' /\ Good kst I_rok b w') \/
  (finished _ w' = false /\ dropped _ w' = false /\ exists b', b' < b /\ I_rok b' (cs _ w') (scripts _ w')).
Proof.
  intros b w pid np [HJ Hl] Hf Hd. unfold rok_poll.
  set (w0 := begin_p kst w pid np).
  assert (H0 : cs _ w0 = cs _ w /\ scripts _ w0 = scripts _ w /\ tr _ w0 = tr _ w ++ [EB pid] /\ finished _ w0 = false /\ dropped _ w0 = false) by (unfold w0, begin_p; cbn; auto).
  destruct H0 as (C0 & S0 & T0 & F0 & D0). rewrite C0.
  set (n := k_n (cs kst w)). assert (Hn : n = length (scripts _ w)) by apply (j0_n _ _ HJ).
  set (is := if k_kind (cs kst w) =? 1 then rot n (k_off (cs kst w)) else seq 0 n).
  set (w1 := if k_kind (cs kst w) =? 1 then set_cs kst w0 _ else w0).
  assert (His : NoDup is /\ Forall (fun i => i < n) is /\ forall i, i < n -> In i is).
  { unfold is. destruct (k_kind (cs kst w) =? 1).
    - split; [apply NoDup_rot|]. split; [apply rot_lt|intros; apply in_rot; auto].
    - split; [apply seq_NoDup|]. split; [apply seq_lt'|intros; apply in_seq; lia]. }
  destruct His as (Hnd & Hlt & Hcov).
  assert (H1 : scripts _ w1 = scripts _ w /\ k_errs (cs _ w1) = k_errs (cs _ w) /\ k_n (cs _ w1) = n /\ tr _ w1 = tr _ w ++ [EB pid] /\ finished _ w1 = false /\ dropped _ w1 = false /\ J0 (cs _ w1) (scripts _ w1)).
  { unfold w1. destruct (k_kind (cs kst w) =? 1); cbn [scripts cs set_cs k_errs k_n tr finished dropped]; rewrite ?C0, ?S0; repeat split; auto;
      destruct HJ as [a1 a2 a3 a4]; auto. }
  destruct H1 as (S1 & E1 & N1 & T1 & F1 & D1 & HJ1).
  pose proof (rok_scan_live is w1 pid Hnd) as Hs.
  destruct (rok_scan w1 is pid) as [w2 r].
  destruct Hs as (A & B & C & D & [u Hu] & R); [rewrite S1, <- Hn; exact Hlt|exact HJ1|].
  destruct r as [[o|]|]; [| contradiction |].
  - left. split.
    { unfold returns, finish_p. exists (EB pid :: u), o. cbn [tr emit set_flags]. rewrite Hu, T1, <- !app_assoc. reflexivity. }
    unfold Good, finish_p. cbn [finished dropped set_flags emit]. split; [congruence|left; reflexivity].
  - destruct R as (R1 & R2 & R3 & R4 & R5).
    destruct (k_completed (cs kst w2) =? k_n (cs kst w2)) eqn:Ec.
    + left. split.
      { unfold returns, finish_p. eexists (EB pid :: u), _. cbn [tr emit set_flags]. rewrite Hu, T1, <- !app_assoc. reflexivity. }
      unfold Good, finish_p. cbn [finished dropped set_flags emit]. split; [congruence|left; reflexivity].
    + right. cbn [finished dropped emit cs scripts]. split; [congruence|]. split; [congruence|].
      apply Nat.eqb_neq in Ec. rewrite (j0_cnt _ _ R1), (j0_n _ _ R1), <- (j0_len _ _ R1) in Ec.
      pose proof (all_vals_len_le (k_errs (cs kst w2))) as Hle.
      destruct (exists_none (k_errs (cs kst w2))) as (i1 & Hi1 & Hn1); [lia|].
      assert (Hstep : forall j, j < length (scripts _ w2) -> nth j (k_errs (cs _ w2)) None = None ->
                exists k, lead (nth j (scripts _ w2) []) = Some k /\ S k <= b).
      { intros j Hj Hnone. rewrite R2, S1 in Hj. destruct (R4 j (Hcov j ltac:(lia)) Hnone) as [Q1 Q2].
        rewrite E1 in Q1. rewrite S1 in Q2. destruct (Hl j Hj Q1) as (k & Hk & Hkb). rewrite Hk in Q2.
        destruct (lead (nth j (scripts kst w2) [])) as [k'|]; [|discriminate]. cbn in Q2. inversion Q2; subst k. exists k'. split; [reflexivity|exact Hkb]. }
      destruct (Hstep i1) as (k1 & _ & Hk1); [rewrite <- (j0_len _ _ R1); exact Hi1|exact Hn1|].
      exists (b - 1). split; [lia|]. split; [exact R1|]. intros j Hj Hnone. destruct (Hstep j Hj Hnone) as (k & Hk & Hkb). exists k. split; [exact Hk|lia].
Qed.

Definition rok_w0 (kind: nat) (scs: list (list step)) : W kst := mk_world (rok_init kind (length scs)) false (length scs) scs.
Lemma all_vals_repeat_none n : all_vals (repeat None n) = [].
Proof. unfold all_vals. induction n; cbn; auto. Qed.
Lemma nth_repeat_none n i : nth i (repeat (@None nat) n) None = None.
Proof. revert i. induction n; intros [|i]; cbn; auto. Qed.

(* race_ok (all three algorithms) over futures each scripted Pending* then Ready (Ok or Err), zero futures included: if every child resolves after at
   most b Pending answers, then under EVERY schedule of waker invocations and polls with more than b polls, one of the first b + 1 polls has
   returned the result (the first Ok, or the aggregate error once the last child has failed) *)
Theorem race_ok_returns kind scs ops b : (forall i, i < length scs -> goodf (nth i scs []) = true /\ exists k, lead (nth i scs []) = Some k /\ k <= b) ->
  sched ops -> b < npolls ops ->
  exists ops1 p ops2, ops = ops1 ++ p :: ops2 /\ is_poll p = true /\ npolls ops1 <= b /\
    let w1 := race_ok_world kind scs ops1 in
    finished _ w1 = false /\ dropped _ w1 = false /\ returns kst w1 (p_step kst rok_poll k_drops w1 p).
Proof.
  intros Hsc Hs Hk. unfold race_ok_world. fold (rok_w0 kind scs).
  destruct (pass_returns kst rok_poll k_drops I_rok rok_poll_live ops b (rok_w0 kind scs) Hs) as (ops1 & p & ops2 & E1 & E2 & E3 & E4 & E5 & E6 & E7);
    [|reflexivity|reflexivity|exact Hk|].
  - unfold rok_w0, I_rok. cbn [cs scripts mk_world]. split.
    + constructor; cbn [rok_init k_n k_errs k_completed]; [reflexivity|apply repeat_length|rewrite all_vals_repeat_none; reflexivity|].
      intros i _. destruct (Nat.lt_ge_cases i (length scs)) as [Hi|Hi]; [apply Hsc, Hi|rewrite nth_overflow; auto].
    + intros i Hi _. apply Hsc, Hi.
  - exists ops1, p, ops2. split; [exact E1|]. split; [exact E2|]. split; [exact E3|]. cbn zeta. split; [exact E4|]. split; [exact E5|exact E6].
Qed.

(* ---------------- chain ---------------- *)
(* scripts of streams: Pending and Item answers, then End *)
Fixpoint goods (sc: list step) : bool :=
  match sc with [] => false | s :: rest => match answer s with APend | AItem _ => goods rest | AEnd => true | _ => false end end.
Fixpoint pends (sc: list step) : nat :=
  match sc with [] => 0 | s :: rest => match answer s with APend => S (pends rest) | AItem _ => pends rest | _ => 0 end end.
Definition tot (idx: nat) (sc: list (list step)) : nat := list_sum (map (fun i => pends (nth i sc [])) (seq idx (length sc - idx))).

Lemma tot_unfold idx sc : idx < length sc -> tot idx sc = pends (nth idx sc []) + tot (S idx) sc.
Proof. intros H. unfold tot. replace (length sc - idx) with (S (length sc - S idx)) by lia. reflexivity. Qed.
Lemma tot_upd_lt idx sc j x : j < idx -> tot idx (upd sc j x) = tot idx sc.
Proof.
  intros H. unfold tot. rewrite upd_length. f_equal. apply map_ext_in. intros i Hi. apply in_seq in Hi. rewrite nth_upd_other by lia. reflexivity.
Qed.
Lemma tot_upd_at idx sc x : idx < length sc -> tot idx (upd sc idx x) = pends x + tot (S idx) sc.
Proof. intros H. rewrite tot_unfold by (rewrite upd_length; exact H). rewrite nth_upd_same by exact H. rewrite tot_upd_lt by lia. reflexivity. Qed.

Definition I_chain (b: nat) (s: cst) (sc: list (list step)) : Prop :=
  c_n s = length sc /\ c_idx s <= c_n s /\ (forall i, c_idx s <= i -> i < length sc -> goods (nth i sc []) = true) /\ tot (c_idx s) sc <= b.

Lemma chain_loop_live fuel : forall b (w: W cst) pid, I_chain b (cs _ w) (scripts _ w) -> S (c_n (cs _ w) - c_idx (cs _ w)) <= fuel ->
  finished _ w = false -> dropped _ w = false ->
  let w' := chain_loop fuel w pid in
  ((exists u o, tr _ w' = tr _ w ++ u ++ [EEndR o]) /\ dropped _ w' = false /\ (finished _ w' = true \/ I_chain b (cs _ w') (scripts _ w'))) \/
  ((exists u, tr _ w' = tr _ w ++ u) /\ finished _ w' = false /\ dropped _ w' = false /\ exists b', b' < b /\ I_chain b' (cs _ w') (scripts _ w')).
Proof.
  induction fuel as [|f IH]; intros b w pid (Hn & Hle & Hg & Ht) Hfu Hf Hd; [lia|]. cbn [chain_loop].
  destruct (c_idx (cs cst w) =? c_n (cs cst w)) eqn:Ei.
  - left. unfold finish_p. cbn [tr emit set_flags finished dropped]. split; [exists [], ONone; reflexivity|]. split; [exact Hd|left; reflexivity].
  - apply Nat.eqb_neq in Ei. set (idx := c_idx (cs cst w)) in *.
    assert (Hi : idx < length (scripts _ w)) by lia.
    pose proof (poll_direct_live w idx pid) as Hs. destruct (poll_direct cst w idx pid) as [w1 a]. destruct Hs as (A & B & C & [u Hu] & L & E).
    pose proof (Hg idx (Nat.le_refl _) Hi) as Hgi.
    destruct (nth idx (scripts _ w) []) as [|x rest] eqn:En; [discriminate|]. destruct E as [-> E]. cbn [goods] in Hgi.
    pose proof (tot_unfold idx (scripts _ w) Hi) as Hun. rewrite En in Hun. cbn [pends] in Hun.
    assert (Hoth : forall i, idx <= i -> i < length (scripts _ w1) -> i <> idx -> goods (nth i (scripts _ w1) []) = true).
    { intros i H1 H2 H3. rewrite E, nth_upd_other by auto. apply Hg; [exact H1|]. rewrite E, upd_length in H2. exact H2. }
    destruct (answer x) as [|r|v| |] eqn:Ex; try discriminate.
    + (* Pending *)
      right. cbn [tr emit finished dropped cs scripts]. split; [exists (u ++ [EEndP]); rewrite Hu, app_assoc; reflexivity|]. split; [congruence|]. split; [congruence|].
      exists (pends rest + tot (S idx) (scripts _ w)). split; [fold idx in Ht; lia|]. unfold I_chain. cbn [cs scripts emit]. rewrite A. fold idx.
      split; [rewrite L; exact Hn|]. split; [exact Hle|]. split.
      * intros i H1 H2. destruct (Nat.eq_dec i idx) as [->|Hne]; [rewrite E, nth_upd_same by exact Hi; exact Hgi|apply Hoth; auto].
      * rewrite E, tot_upd_at by exact Hi. lia.
    + (* Item *)
      left. unfold finish_p. cbn [tr emit finished dropped cs scripts]. split; [exists u, (OSome None [v]); rewrite Hu, app_assoc; reflexivity|]. split; [congruence|].
      right. unfold I_chain. cbn [cs scripts emit set_flags]. rewrite A. fold idx. split; [rewrite L; exact Hn|]. split; [exact Hle|]. split.
      * intros i H1 H2. destruct (Nat.eq_dec i idx) as [->|Hne]; [rewrite E, nth_upd_same by exact Hi; exact Hgi|apply Hoth; auto].
      * rewrite E, tot_upd_at by exact Hi. fold idx in Ht. lia.
    + (* End: on to the next input within the same poll *)
      match goal with |- context[chain_loop f ?W pid] => set (w2 := W) end.
      assert (HI2 : I_chain b (cs _ w2) (scripts _ w2)).
      { unfold w2. unfold I_chain. cbn [cs scripts set_cs c_idx c_n]. fold idx. split; [rewrite L; exact Hn|]. split; [lia|]. split.
        - intros i H1 H2. apply Hoth; lia.
        - rewrite E, tot_upd_lt by lia. fold idx in Ht. replace (idx + 1) with (S idx) by lia. lia. }
      destruct (IH b w2 pid HI2) as [([u2 [o Hu2]] & D2 & R2)|([u2 Hu2] & F2 & D2 & R2)].
      * unfold w2. cbn [cs set_cs c_idx c_n]. fold idx. lia.
      * unfold w2. cbn. congruence.
      * unfold w2. cbn. congruence.
      * left. split; [exists (u ++ u2), o; rewrite Hu2; unfold w2; cbn [tr set_cs]; rewrite Hu, <- !app_assoc; reflexivity|]. auto.
      * right. split; [exists (u ++ u2); rewrite Hu2; unfold w2; cbn [tr set_cs]; rewrite Hu, <- !app_assoc; reflexivity|]. auto.
Qed.

Lemma chain_poll_live : forall b (w: W cst) pid np, I_chain b (cs _ w) (scripts _ w) -> finished _ w = false -> dropped _ w = false ->
  let w' := chain_poll w pid np in
  (returns cst w w' /\ Good cst I_chain b w') \/
  (finished _ w' = false /\ dropped _ w' = false /\ exists b', b' < b /\ I_chain b' (cs _ w') (scripts _ w')).
Proof.
  intros b w pid np HI Hf Hd. unfold chain_poll. set (w0 := begin_p cst w pid np).
  assert (H0 : cs _ w0 = cs _ w /\ scripts _ w0 = scripts _ w /\ tr _ w0 = tr _ w ++ [EB pid] /\ finished _ w0 = false /\ dropped _ w0 = false) by (unfold w0, begin_p; cbn; auto).
  destruct H0 as (C0 & S0 & T0 & F0 & D0).
  destruct (chain_loop_live (S (c_n (cs cst w0) - c_idx (cs cst w0))) b w0 pid) as [([u [o Hu]] & D & R)|(_ & F & D & R)]; [rewrite C0, S0; exact HI|lia|exact F0|exact D0| |].
  - left. split; [exists (EB pid :: u), o; rewrite Hu, T0, <- !app_assoc; reflexivity|]. split; [exact D|]. destruct R as [R|R]; [left; exact R|right; exists b; split; [lia|exact R]].
  - right. auto.
Qed.

Definition chain_w0 (scs: list (list step)) : W cst := mk_world {| c_idx := 0; c_n := length scs |} false (length scs) scs.
Lemma chain_I0 scs : (forall i, i < length scs -> goods (nth i scs []) = true) -> I_chain (tot 0 scs) (cs _ (chain_w0 scs)) (scripts _ (chain_w0 scs)).
Proof. intros H. unfold chain_w0, I_chain. cbn [cs scripts mk_world c_idx c_n]. split; [reflexivity|]. split; [lia|]. split; [intros i _ Hi; apply H, Hi|apply Nat.le_refl]. Qed.

(* chain over inputs each scripted (Pending | Item)* then End, zero inputs included, from EVERY reachable state: after any schedule ops0 of waker
   invocations and polls, if the chained stream has not ended, any further schedule with more than b polls (b = the number of Pending answers the
   inputs were scripted to give, in total) has returned the next item or the end in one of its first b + 1 polls *)
Theorem chain_next_result scs ops0 ops : (forall i, i < length scs -> goods (nth i scs []) = true) -> sched ops0 -> sched ops ->
  let w := chain_world scs ops0 in finished _ w = false -> tot 0 scs < npolls ops ->
  exists ops1 p ops2, ops = ops1 ++ p :: ops2 /\ is_poll p = true /\ npolls ops1 <= tot 0 scs /\
    let w1 := p_world cst chain_poll c_drops w ops1 in
    finished _ w1 = false /\ dropped _ w1 = false /\ returns cst w1 (p_step cst chain_poll c_drops w1 p).
Proof.
  intros Hg Hs0 Hs w Hf Hk. unfold w, chain_world in *. fold (chain_w0 scs) in *.
  destruct (pass_next cst chain_poll c_drops I_chain chain_poll_live (tot 0 scs) (chain_w0 scs) ops0 ops Hs0 Hs) as (ops1 & p & ops2 & E1 & E2 & E3 & E4 & E5 & E6 & E7);
    [|exact Hf|exact Hk|].
  - split; [reflexivity|]. right. exists (tot 0 scs). split; [lia|apply chain_I0, Hg].
  - exists ops1, p, ops2. split; [exact E1|]. split; [exact E2|]. split; [exact E3|]. cbn zeta. split; [exact E4|]. split; [exact E5|exact E6].
Qed.

(* ---- and it ends: the chained stream returns None within (s + 1) polls, s the number of Pending and Item answers scripted before the Ends ---- *)
Section PassEnds.
  Variable St : Type.
  Variable pollf : W St -> nat -> nat -> W St.
  Variable dropsf : St -> list ev.
  Variable I : nat -> St -> list (list step) -> Prop.
  Hypothesis H_poll : forall b w pid np, I b (cs St w) (scripts St w) -> finished St w = false -> dropped St w = false ->
    let w' := pollf w pid np in dropped St w' = false /\
    (finished St w' = true \/ (finished St w' = false /\ exists b', b' < b /\ I b' (cs St w') (scripts St w'))).
  Theorem pass_finishes ops : forall b w, sched ops -> I b (cs St w) (scripts St w) -> finished St w = false -> dropped St w = false -> b < npolls ops ->
    let w' := p_world St pollf dropsf w ops in finished St w' = true /\ dropped St w' = false.
  Proof.
    induction ops as [|o r IH]; intros b w Hs HI Hf Hd Hm; [cbn in Hm; lia|].
    inversion Hs as [|? ? Ho Hr]; subst. cbn [p_world fold_left].
    assert (Hfin : forall ops w, sched ops -> finished St w = true -> dropped St w = false ->
              finished St (p_world St pollf dropsf w ops) = true /\ dropped St (p_world St pollf dropsf w ops) = false).
    { clear. induction ops as [|o r IH]; intros w Hs Hf Hd; [auto|]. inversion Hs; subst. cbn [p_world fold_left].
      destruct o; try contradiction; try (cbn [p_step]; rewrite Hf; cbn [orb]; apply IH; auto).
      destruct (fire_frame St pollf dropsf w c k) as (_ & _ & F & D). apply IH; auto; congruence. }
    destruct (is_poll o) eqn:Hp.
    - destruct (poll_is St pollf dropsf w o Hp Hf Hd) as (pid & np & E). rewrite E.
      destruct (H_poll b w pid np HI Hf Hd) as [D [F|(F & b1 & Hb1 & HI')]]; [apply Hfin; auto|].
      apply (IH b1); auto. unfold npolls in Hm |- *. cbn [filter] in Hm. rewrite Hp in Hm. cbn in Hm. lia.
    - destruct o; try discriminate; try contradiction. destruct (fire_frame St pollf dropsf w c k) as (A & B & F & D).
      apply (IH b); auto; [rewrite A, B; exact HI|congruence|congruence].
  Qed.
End PassEnds.

Fixpoint steps_before_end (sc: list step) : nat :=
  match sc with [] => 0 | s :: rest => match answer s with APend | AItem _ => S (steps_before_end rest) | _ => 0 end end.
Definition stot (idx: nat) (sc: list (list step)) : nat := list_sum (map (fun i => steps_before_end (nth i sc [])) (seq idx (length sc - idx))).
Lemma stot_unfold idx sc : idx < length sc -> stot idx sc = steps_before_end (nth idx sc []) + stot (S idx) sc.
Proof. intros H. unfold stot. replace (length sc - idx) with (S (length sc - S idx)) by lia. reflexivity. Qed.
Lemma stot_upd_lt idx sc j x : j < idx -> stot idx (upd sc j x) = stot idx sc.
Proof. intros H. unfold stot. rewrite upd_length. f_equal. apply map_ext_in. intros i Hi. apply in_seq in Hi. rewrite nth_upd_other by lia. reflexivity. Qed.
Lemma stot_upd_at idx sc x : idx < length sc -> stot idx (upd sc idx x) = steps_before_end x + stot (S idx) sc.
Proof. intros H. rewrite stot_unfold by (rewrite upd_length; exact H). rewrite nth_upd_same by exact H. rewrite stot_upd_lt by lia. reflexivity. Qed.

Definition I_chain2 (b: nat) (s: cst) (sc: list (list step)) : Prop :=
  c_n s = length sc /\ c_idx s <= c_n s /\ (forall i, c_idx s <= i -> i < length sc -> goods (nth i sc []) = true) /\ stot (c_idx s) sc <= b.

Lemma chain_loop_ends fuel : forall b (w: W cst) pid, I_chain2 b (cs _ w) (scripts _ w) -> S (c_n (cs _ w) - c_idx (cs _ w)) <= fuel ->
  finished _ w = false -> dropped _ w = false ->
  let w' := chain_loop fuel w pid in dropped _ w' = false /\
  (finished _ w' = true \/ (finished _ w' = false /\ exists b', b' < b /\ I_chain2 b' (cs _ w') (scripts _ w'))).
Proof.
  induction fuel as [|f IH]; intros b w pid (Hn & Hle & Hg & Ht) Hfu Hf Hd; [lia|]. cbn [chain_loop].
  destruct (c_idx (cs cst w) =? c_n (cs cst w)) eqn:Ei.
  - unfold finish_p. cbn [set_flags finished dropped emit]. split; [exact Hd|left; reflexivity].
  - apply Nat.eqb_neq in Ei. set (idx := c_idx (cs cst w)) in *.
    assert (Hi : idx < length (scripts _ w)) by lia.
    pose proof (poll_direct_live w idx pid) as Hs. destruct (poll_direct cst w idx pid) as [w1 a]. destruct Hs as (A & B & C & [u Hu] & L & E).
    pose proof (Hg idx (Nat.le_refl _) Hi) as Hgi.
    destruct (nth idx (scripts _ w) []) as [|x rest] eqn:En; [discriminate|]. destruct E as [-> E]. cbn [goods] in Hgi.
    pose proof (stot_unfold idx (scripts _ w) Hi) as Hun. rewrite En in Hun. cbn [steps_before_end] in Hun.
    assert (Hoth : forall i, idx <= i -> i < length (scripts _ w1) -> i <> idx -> goods (nth i (scripts _ w1) []) = true).
    { intros i H1 H2 H3. rewrite E, nth_upd_other by auto. apply Hg; [exact H1|]. rewrite E, upd_length in H2. exact H2. }
    assert (Hstay : forall w2, cs _ w2 = cs _ w1 -> scripts _ w2 = scripts _ w1 -> goods rest = true ->
              steps_before_end (x :: rest) = S (steps_before_end rest) ->
              exists b', b' < b /\ I_chain2 b' (cs _ w2) (scripts _ w2)).
    { intros w2 E1 E2 Hgr Hst. exists (steps_before_end rest + stot (S idx) (scripts _ w)). fold idx in Ht. split; [cbn [steps_before_end] in Hst; lia|].
      unfold I_chain2. rewrite E1, E2, A. fold idx. split; [rewrite L; exact Hn|]. split; [exact Hle|]. split.
      - intros i H1 H2. destruct (Nat.eq_dec i idx) as [->|Hne]; [rewrite E, nth_upd_same by exact Hi; exact Hgr|apply Hoth; auto].
      - rewrite E, stot_upd_at by exact Hi. lia. }
    destruct (answer x) as [|r|v| |] eqn:Ex; try discriminate.
    + cbn [finished dropped emit]. split; [congruence|]. right. split; [congruence|]. apply Hstay; auto. cbn [steps_before_end]. rewrite Ex. reflexivity.
    + unfold finish_p. cbn [finished dropped emit]. split; [congruence|]. right. split; [congruence|]. apply Hstay; auto. cbn [steps_before_end]. rewrite Ex. reflexivity.
    + match goal with |- context[chain_loop f ?W pid] => set (w2 := W) end.
      assert (HI2 : I_chain2 b (cs _ w2) (scripts _ w2)).
      { unfold w2, I_chain2. cbn [cs scripts set_cs c_idx c_n]. fold idx. split; [rewrite L; exact Hn|]. split; [lia|]. split.
        - intros i H1 H2. apply Hoth; lia.
        - rewrite E, stot_upd_lt by lia. fold idx in Ht. replace (idx + 1) with (S idx) by lia. lia. }
      apply (IH b w2 pid HI2); unfold w2; cbn [cs set_cs c_idx c_n finished dropped]; [fold idx; lia|congruence|congruence].
Qed.
Lemma chain_poll_ends : forall b (w: W cst) pid np, I_chain2 b (cs _ w) (scripts _ w) -> finished _ w = false -> dropped _ w = false ->
  let w' := chain_poll w pid np in dropped _ w' = false /\
  (finished _ w' = true \/ (finished _ w' = false /\ exists b', b' < b /\ I_chain2 b' (cs _ w') (scripts _ w'))).
Proof.
  intros b w pid np HI Hf Hd. unfold chain_poll. set (w0 := begin_p cst w pid np).
  apply (chain_loop_ends (S (c_n (cs cst w0) - c_idx (cs cst w0))) b w0 pid); [exact HI|apply Nat.le_refl|exact Hf|exact Hd].
Qed.

(* chain over inputs each scripted (Pending | Item)* then End, zero inputs included: under EVERY schedule of waker invocations and polls with more than
   s polls - s the number of Pending and Item answers scripted before the Ends - the chained stream has returned None (and C10 says what came before it) *)
Theorem chain_ends scs ops : (forall i, i < length scs -> goods (nth i scs []) = true) -> sched ops -> stot 0 scs < npolls ops ->
  let w := chain_world scs ops in finished _ w = true /\ dropped _ w = false.
Proof.
  intros Hg Hs Hk. unfold chain_world. fold (chain_w0 scs).
  apply (pass_finishes cst chain_poll c_drops I_chain2 chain_poll_ends ops (stot 0 scs) (chain_w0 scs) Hs); auto.
  unfold chain_w0, I_chain2. cbn [cs scripts mk_world c_idx c_n]. split; [reflexivity|]. split; [lia|]. split; [intros i _ Hi; apply Hg, Hi|apply Nat.le_refl].
Qed.

(* ---------------- wait_until: the deadline first, then the inner future / stream ---------------- *)
(* the future form: deadline and inner future each scripted Pending* then Ready; the bound is the number of Pending answers still to come *)
Definition I_wait (b: nat) (s: ust) (sc: list (list step)) : Prop :=
  u_stream s = false /\ goodf (nth 1 sc []) = true /\ exists k1, lead (nth 1 sc []) = Some k1 /\
  if u_started s then k1 <= b else goodf (nth 0 sc []) = true /\ exists k0, lead (nth 0 sc []) = Some k0 /\ k0 + k1 <= b.

Lemma poll_direct_other {St} (w: W St) m pid j : j <> m -> nth j (scripts St (fst (poll_direct St w m pid))) [] = nth j (scripts St w) [].
Proof.
  intros Hne. pose proof (poll_direct_live w m pid) as H. destruct (poll_direct St w m pid) as [w' a]. destruct H as (_ & _ & _ & _ & _ & E). cbn [fst].
  destruct (nth m (scripts St w) []); destruct E as [_ ->]; [reflexivity|apply nth_upd_other; auto].
Qed.
Lemma poll_direct_lead {St} (w: W St) m pid k : goodf (nth m (scripts St w) []) = true -> lead (nth m (scripts St w) []) = Some k ->
  let '(w', a) := poll_direct St w m pid in
  match k with
  | 0 => exists r, a = AReady r
  | S k' => a = APend /\ goodf (nth m (scripts St w') []) = true /\ lead (nth m (scripts St w') []) = Some k'
  end.
Proof.
  intros Hg Hl. pose proof (poll_direct_live w m pid) as H. destruct (poll_direct St w m pid) as [w' a]. destruct H as (_ & _ & _ & _ & _ & E).
  destruct (nth m (scripts St w) []) as [|x rest] eqn:En; [discriminate|]. destruct E as [-> E]. cbn [goodf lead] in Hg, Hl.
  assert (Hm : m < length (scripts St w)) by (destruct (Nat.lt_ge_cases m (length (scripts St w))); auto; rewrite nth_overflow in En by assumption; discriminate).
  destruct (answer x) as [|r|v| |]; try discriminate.
  - destruct (lead rest) as [k'|] eqn:El; [|discriminate]. cbn in Hl. inversion Hl; subst. rewrite E, nth_upd_same by exact Hm. auto.
  - inversion Hl; subst. eauto.
Qed.

Lemma wait_poll_live : forall b (w: W ust) pid np, I_wait b (cs _ w) (scripts _ w) -> finished _ w = false -> dropped _ w = false ->
  let w' := wait_poll w pid np in
  (returns ust w w' /\ Good ust I_wait b w') \/
  (finished _ w' = false /\ dropped _ w' = false /\ exists b', b' < b /\ I_wait b' (cs _ w') (scripts _ w')).
Proof.
  intros b w pid np (Hs & Hg1 & k1 & Hl1 & Hb) Hf Hd. unfold wait_poll.
  set (w0 := begin_p ust w pid np).
  assert (H0 : cs _ w0 = cs _ w /\ scripts _ w0 = scripts _ w /\ tr _ w0 = tr _ w ++ [EB pid] /\ finished _ w0 = false /\ dropped _ w0 = false) by (unfold w0, begin_p; cbn; auto).
  destruct H0 as (C0 & S0 & T0 & F0 & D0). rewrite C0.
  (* the inner poll, from a world whose state says "started" *)
  assert (Hinner : forall (w1: W ust) late, nth 1 (scripts _ w1) [] = nth 1 (scripts _ w) [] -> u_stream (cs _ w1) = false -> u_started (cs _ w1) = true ->
            (exists u, tr _ w1 = tr _ w ++ u) -> finished _ w1 = false -> dropped _ w1 = false -> k1 <= b ->
            let w' := (let '(w2, a) := poll_direct ust w1 1 pid in
                       let w3 := emit ust w2 late in
                       match a with
                       | AReady (ROk v) | AReady (RErr v) => finish_p ust w3 (OVals [v]) true
                       | AItem v => finish_p ust w3 (OSome None [v]) false
                       | AEnd => finish_p ust w3 ONone true
                       | APanic => unwind_p ust w3 [EDc 1; EDc 0]
                       | _ => emit ust w3 [EEndP]
                       end) in
            (returns ust w w' /\ Good ust I_wait b w') \/
            (finished _ w' = false /\ dropped _ w' = false /\ exists b', b' < b /\ I_wait b' (cs _ w') (scripts _ w'))).
  { intros w1 late S1 U1 U2 [u Hu] F1 D1 Hk.
    pose proof (poll_direct_lead w1 1 pid k1) as HL. rewrite S1 in HL. specialize (HL Hg1 Hl1).
    pose proof (poll_direct_live w1 1 pid) as HP. destruct (poll_direct ust w1 1 pid) as [w2 a]. destruct HP as (A & B & C & [u2 Hu2] & _ & _).
    destruct k1 as [|k1'].
    - destruct HL as [r ->]. left.
      assert (X : forall v, returns ust w (finish_p ust (emit ust w2 late) (OVals [v]) true) /\ Good ust I_wait b (finish_p ust (emit ust w2 late) (OVals [v]) true)).
      { intros v. split.
        - unfold returns, finish_p. exists (u ++ u2 ++ late), (OVals [v]). cbn [tr emit set_flags]. rewrite Hu2, Hu, <- !app_assoc. reflexivity.
        - unfold Good, finish_p. cbn [finished dropped set_flags emit]. split; [congruence|left; reflexivity]. }
      destruct r; apply X.
    - destruct HL as (-> & Hg' & Hl'). right. cbn [finished dropped emit cs scripts]. split; [congruence|]. split; [congruence|].
      exists k1'. split; [lia|]. unfold I_wait. rewrite A, U1, U2. split; [reflexivity|]. split; [exact Hg'|]. exists k1'. split; [exact Hl'|lia]. }
  destruct (u_started (cs ust w)) eqn:Est.
  - apply (Hinner w0 []).
    + rewrite S0. reflexivity.
    + rewrite C0. exact Hs.
    + rewrite C0. exact Est.
    + exists [EB pid]. exact T0.
    + exact F0.
    + exact D0.
    + exact Hb.
  - destruct Hb as (Hg0 & k0 & Hl0 & Hb).
    pose proof (poll_direct_lead w0 0 pid k0) as HL. rewrite S0 in HL. specialize (HL Hg0 Hl0).
    pose proof (poll_direct_other w0 0 pid 1 ltac:(lia)) as Ho. rewrite S0 in Ho.
    pose proof (poll_direct_live w0 0 pid) as HP. destruct (poll_direct ust w0 0 pid) as [w1 a]. destruct HP as (A & B & C & [u1 Hu1] & _ & _). cbn [fst] in Ho.
    destruct k0 as [|k0'].
    + destruct HL as [r ->]. rewrite Hs.
      assert (X : forall v, let w2 := emit ust (set_cs ust w1 {| u_stream := false; u_started := true |}) [EV v] in
                nth 1 (scripts _ w2) [] = nth 1 (scripts _ w) [] /\ u_stream (cs _ w2) = false /\ u_started (cs _ w2) = true /\
                (exists u, tr _ w2 = tr _ w ++ u) /\ finished _ w2 = false /\ dropped _ w2 = false).
      { intros v w2. unfold w2. cbn [scripts cs emit set_cs tr finished dropped u_stream u_started]. split; [exact Ho|]. split; [reflexivity|]. split; [reflexivity|].
        split; [exists ([EB pid] ++ u1 ++ [EV v]); rewrite Hu1, T0, <- !app_assoc; reflexivity|]. split; congruence. }
      destruct r as [v|v]; destruct (X v) as (X1 & X2 & X3 & X4 & X5 & X6); apply (Hinner _ [] X1 X2 X3 X4 X5 X6); lia.
    + destruct HL as (-> & Hg' & Hl'). right. cbn [finished dropped emit cs scripts]. split; [congruence|]. split; [congruence|].
      exists (k0' + k1). split; [lia|]. unfold I_wait. rewrite A, C0, Hs, Est. split; [reflexivity|]. rewrite Ho. split; [exact Hg1|]. exists k1. split; [exact Hl1|].
      split; [exact Hg'|]. exists k0'. split; [exact Hl'|lia].
Qed.

Definition wait_w0 (scs: list (list step)) : W ust := mk_world {| u_stream := false; u_started := false |} false 2 scs.
(* the future form of wait_until, deadline and inner future each scripted Pending* then Ready: under EVERY schedule of waker invocations and polls
   with more than k0 + k1 polls - the Pending answers of the deadline, then of the inner future - one of the first k0 + k1 + 1 polls has returned
   the inner future's output (C19: the inner future is not polled before the deadline has resolved) *)
Theorem wait_until_returns d i ops k0 k1 : goodf d = true -> goodf i = true -> lead d = Some k0 -> lead i = Some k1 -> sched ops -> k0 + k1 < npolls ops ->
  exists ops1 p ops2, ops = ops1 ++ p :: ops2 /\ is_poll p = true /\ npolls ops1 <= k0 + k1 /\
    let w1 := wait_world false [d; i] ops1 in
    finished _ w1 = false /\ dropped _ w1 = false /\ returns ust w1 (p_step ust wait_poll u_drops w1 p).
Proof.
  intros Hgd Hgi Hld Hli Hs Hk. unfold wait_world. fold (wait_w0 [d; i]).
  destruct (pass_returns ust wait_poll u_drops I_wait wait_poll_live ops (k0 + k1) (wait_w0 [d; i]) Hs) as (ops1 & p & ops2 & E1 & E2 & E3 & E4 & E5 & E6 & E7);
    [|reflexivity|reflexivity|exact Hk|].
  - unfold wait_w0, I_wait. cbn [cs scripts mk_world u_stream u_started nth]. split; [reflexivity|]. split; [exact Hgi|]. exists k1. split; [exact Hli|].
    split; [exact Hgd|]. exists k0. split; [exact Hld|lia].
  - exists ops1, p, ops2. split; [exact E1|]. split; [exact E2|]. split; [exact E3|]. cbn zeta. split; [exact E4|]. split; [exact E5|exact E6].
Qed.

(* ... race and race_ok from every reachable state: after ANY schedule ops0, if the race has not resolved, any further schedule with more than k polls
   resolves it (k the bound of the freshly constructed race: Pending answers only get consumed) *)
Theorem race_returns_from scs ops0 ops i0 k : i0 < length scs -> allgood scs -> lead (nth i0 scs []) = Some k -> sched ops0 -> sched ops ->
  let w := race_world scs ops0 in finished _ w = false -> k < npolls ops ->
  exists ops1 p ops2, ops = ops1 ++ p :: ops2 /\ is_poll p = true /\ npolls ops1 <= k /\
    let w1 := p_world rst race_poll r_drops w ops1 in
    finished _ w1 = false /\ dropped _ w1 = false /\ returns rst w1 (p_step rst race_poll r_drops w1 p).
Proof.
  intros Hi Hg Hl Hs0 Hs w Hf Hk. unfold w, race_world in *. fold (race_w0 scs) in *.
  destruct (pass_next rst race_poll r_drops (I_race i0) (race_poll_live i0) k (race_w0 scs) ops0 ops Hs0 Hs) as (ops1 & p & ops2 & E1 & E2 & E3 & E4 & E5 & E6 & E7);
    [|exact Hf|exact Hk|].
  - split; [reflexivity|]. right. exists k. split; [lia|]. unfold race_w0, I_race. cbn. auto.
  - exists ops1, p, ops2. split; [exact E1|]. split; [exact E2|]. split; [exact E3|]. cbn zeta. split; [exact E4|]. split; [exact E5|exact E6].
Qed.
Theorem race_ok_returns_from kind scs ops0 ops b : (forall i, i < length scs -> goodf (nth i scs []) = true /\ exists k, lead (nth i scs []) = Some k /\ k <= b) ->
  sched ops0 -> sched ops -> let w := race_ok_world kind scs ops0 in finished _ w = false -> b < npolls ops ->
  exists ops1 p ops2, ops = ops1 ++ p :: ops2 /\ is_poll p = true /\ npolls ops1 <= b /\
    let w1 := p_world kst rok_poll k_drops w ops1 in
    finished _ w1 = false /\ dropped _ w1 = false /\ returns kst w1 (p_step kst rok_poll k_drops w1 p).
Proof.
  intros Hsc Hs0 Hs w Hf Hk. unfold w, race_ok_world in *. fold (rok_w0 kind scs) in *.
  destruct (pass_next kst rok_poll k_drops I_rok rok_poll_live b (rok_w0 kind scs) ops0 ops Hs0 Hs) as (ops1 & p & ops2 & E1 & E2 & E3 & E4 & E5 & E6 & E7);
    [|exact Hf|exact Hk|].
  - split; [reflexivity|]. right. exists b. split; [lia|]. unfold rok_w0, I_rok. cbn [cs scripts mk_world]. split.
    + constructor; cbn [rok_init k_n k_errs k_completed]; [reflexivity|apply repeat_length|rewrite all_vals_repeat_none; reflexivity|].
      intros i _. destruct (Nat.lt_ge_cases i (length scs)) as [Hi|Hi]; [apply Hsc, Hi|rewrite nth_overflow; auto].
    + intros i Hi _. apply Hsc, Hi.
  - exists ops1, p, ops2. split; [exact E1|]. split; [exact E2|]. split; [exact E3|]. cbn zeta. split; [exact E4|]. split; [exact E5|exact E6].
Qed.
