From Coq Require Import List Arith Lia Bool.
Import ListNotations.
Require Import ScanFull InstsFull Pass ObligJoin ObligGroups C04Join C08Merge C11Groups C05Join C02Join C02Merge PassProofs PassLedger.

(* C02 for race_ok (array, tuple and Vec algorithms): over the complete history closed by a drop - at any point, after a panic at any child
   poll, after completion - every child has exactly one drop event (the Vec algorithm drops a child when it completes, the others with the
   combinator), the only value returned is the Ok value that was produced, and no value has a drop event.
   (Error values are plain integers in the harness and carry no drop event; the ledger is about the children and the Ok values.) *)
Definition producedK (P: list (nat * ans)) : list nat := flat_map (fun p => match snd p with AReady (ROk v) => [v] | _ => [] end) P.
Definition returnedK (t: list ev) : list nat := flat_map (fun e => match e with EEndR (OOk vs) => vs | _ => [] end) t.
Lemma producedK_app a b : producedK (a ++ b) = producedK a ++ producedK b. Proof. apply flat_map_app. Qed.
Lemma returnedK_app a b : returnedK (a ++ b) = returnedK a ++ returnedK b. Proof. apply flat_map_app. Qed.
Definition BalK (n: nat) (t: list ev) : Prop :=
  (forall x, cnt x (droppedl t) = if x <? n then 1 else 0) /\ producedK (polls_from 0 t) = returnedK t /\ dropv t = [].

(* live invariant: which children have been dropped so far = the `gone` table; values balanced; while unfinished a gone child has failed *)
Record Dk (n: nat) (s: kst) (t: list ev) : Prop := {
  dk_n : k_n s = n; dk_len : length (k_gone s) = n;
  dk_cnt : forall x, cnt x (droppedl t) = if nth x (k_gone s) false then 1 else 0;
  dk_v : dropv t = [];
  dk_val : producedK (polls_from 0 t) = returnedK t }.
Definition Gk (s: kst) : Prop := forall i, nth i (k_gone s) false = true -> nth i (k_errs s) None <> None.

Lemma cnt_single x i : cnt x [i] = if x =? i then 1 else 0.
Proof. unfold cnt. cbn. destruct (Nat.eq_dec i x) as [->|H]; [rewrite Nat.eqb_refl; reflexivity|]. destruct (Nat.eqb_spec x i); [congruence|reflexivity]. Qed.
Lemma nth_upd_bool (l: list bool) i b x : i < length l -> nth x (upd l i b) false = if x =? i then b else nth x l false.
Proof. intros Hi. destruct (Nat.eqb_spec x i) as [->|H]; [apply nth_upd_same; auto|apply nth_upd_other; auto]. Qed.
Lemma nth_upd_opt (l: list (option nat)) i e x : i < length l -> nth x (upd l i (Some e)) None = if x =? i then Some e else nth x l None.
Proof. intros Hi. destruct (Nat.eqb_spec x i) as [->|H]; [apply nth_upd_same; auto|apply nth_upd_other; auto]. Qed.

(* one child poll appended *)
Lemma Dk_poll n s t i wk a : Dk n s t -> (forall v, a <> AReady (ROk v)) -> Dk n s (t ++ [EC i wk; EAns a]).
Proof.
  intros [A B C D E] Hn. constructor; auto.
  - intros x. rewrite droppedl_app. cbn. rewrite app_nil_r. apply C.
  - rewrite dropv_app, D. reflexivity.
  - replace (t ++ [EC i wk; EAns a]) with (t ++ EC i wk :: EAns a :: []) by reflexivity. rewrite polls_from_app, producedK_app, returnedK_app. cbn.
    rewrite app_nil_r, E. destruct a as [|[v|e]|v| |]; try reflexivity. exfalso. eapply Hn; eauto.
Qed.
(* the child in slot i is dropped on completion (Vec algorithm) or not (array, tuple) *)
Lemma Dk_kdone n (w: W kst) i t : Dk n (cs _ w) t -> i < n -> nth i (k_gone (cs _ w)) false = false ->
  let '(w', e) := kdone w i in Dk n (cs _ w') (t ++ e) /\ (forall x, x <> i -> nth x (k_gone (cs _ w')) false = nth x (k_gone (cs _ w)) false).
Proof.
  intros [A B C D E] Hi Hg. unfold kdone. destruct (k_kind (cs kst w) =? 2); cbn [cs set_cs].
  - split; [|intros x Hx; cbn; apply nth_upd_other; auto]. constructor; cbn [k_n k_gone]; auto.
    + rewrite upd_length. exact B.
    + intros x. rewrite droppedl_app, cnt_app, C. change (droppedl [EDc i]) with [i]. rewrite cnt_single, nth_upd_bool by lia.
      destruct (Nat.eqb_spec x i) as [->|Hx]; [rewrite Hg; reflexivity|lia].
    + rewrite dropv_app, D. reflexivity.
    + replace (polls_from 0 (t ++ [EDc i])) with (polls_from 0 t) by (symmetry; apply polls_from_tail; intros e' [<-|[]]; exact I).
      rewrite returnedK_app. cbn. rewrite app_nil_r. exact E.
  - rewrite app_nil_r. split; [constructor; auto|auto].
Qed.

Lemma rok_scan_dk n is : forall (w: W kst) pid, Forall (fun i => i < n) is -> length (k_errs (cs _ w)) = n ->
  Dk n (cs _ w) (strip (tr _ w)) -> Gk (cs _ w) ->
  let '(w', r) := rok_scan w is pid in
  dropped _ w' = dropped _ w /\ length (k_errs (cs _ w')) = n /\
  match r with
  | Some (Some o) => exists v t', o = OOk [v] /\ strip (tr _ w') = t' /\ k_n (cs _ w') = n /\ length (k_gone (cs _ w')) = n /\
        (forall x, cnt x (droppedl t') = if nth x (k_gone (cs _ w')) false then 1 else 0) /\ dropv t' = [] /\
        producedK (polls_from 0 t') = returnedK t' ++ [v]
  | _ => Dk n (cs _ w') (strip (tr _ w')) /\ Gk (cs _ w')
  end.
Proof.
  induction is as [|i rest IH]; intros w pid His Hle HD HG; cbn [rok_scan]; [auto|].
  pose proof (Forall_inv His) as Hi. pose proof (Forall_inv_tail His) as His'. cbn beta in Hi.
  destruct (nth i (k_errs (cs kst w)) None) as [e0|] eqn:Ei; [apply IH; auto|].
  assert (Hgi : nth i (k_gone (cs kst w)) false = false).
  { destruct (nth i (k_gone (cs kst w)) false) eqn:Eg; auto. exfalso. apply (HG i Eg). exact Ei. }
  pose proof (poll_direct_spec kst w i pid) as Hs. destruct (poll_direct kst w i pid) as [w1 a]. destruct Hs as (A & B & C & D).
  assert (HD1 : (forall v, a <> AReady (ROk v)) -> Dk n (cs _ w1) (strip (tr _ w1))) by (intros Hn; rewrite A, C; apply Dk_poll; auto).
  assert (HG1 : Gk (cs _ w1)) by (unfold Gk; rewrite A; exact HG).
  assert (Hle1 : length (k_errs (cs kst w1)) = n) by (rewrite A; exact Hle).
  assert (Hcont : (forall v, a <> AReady (ROk v)) -> (forall e, a <> AReady (RErr e)) -> a <> APanic ->
            let '(w', r) := rok_scan w1 rest pid in
            dropped _ w' = dropped _ w /\ length (k_errs (cs _ w')) = n /\
            match r with
            | Some (Some o) => exists v t', o = OOk [v] /\ strip (tr _ w') = t' /\ k_n (cs _ w') = n /\ length (k_gone (cs _ w')) = n /\
                  (forall x, cnt x (droppedl t') = if nth x (k_gone (cs _ w')) false then 1 else 0) /\ dropv t' = [] /\
                  producedK (polls_from 0 t') = returnedK t' ++ [v]
            | _ => Dk n (cs _ w') (strip (tr _ w')) /\ Gk (cs _ w')
            end).
  { intros H1 H2 H3. specialize (IH w1 pid His' Hle1 (HD1 H1) HG1). destruct (rok_scan w1 rest pid) as [w' r]. rewrite <- B. exact IH. }
  destruct a as [|[v|e]|v| |].
  - apply Hcont; discriminate.
  - (* success *)
    assert (HDv : Dk n (cs kst w) (strip (tr kst w)) ) by exact HD.
    pose proof (kdone_spec w1 i) as Hk.
    assert (Hg1 : nth i (k_gone (cs kst w1)) false = false) by (rewrite A; exact Hgi).
    (* the drop part is as for any other answer; the value is produced here and returned by the caller *)
    assert (HDp : forall x, cnt x (droppedl (strip (tr kst w1))) = if nth x (k_gone (cs kst w1)) false then 1 else 0).
    { intros x. rewrite C, A, droppedl_app. cbn. rewrite app_nil_r. apply HD. }
    destruct (kdone w1 i) as [w1' ed] eqn:Ek. destruct Hk as (K1 & K2 & K3 & K4 & K5 & K6 & K7 & K8 & K9).
    split; [cbn [dropped emit]; congruence|]. split; [cbn [cs emit]; rewrite K4; exact Hle1|].
    exists v, (strip (tr kst w1) ++ ed). split; [reflexivity|]. split; [cbn [tr emit]; rewrite strip_app, K8; f_equal; destruct K9 as [->| ->]; reflexivity|].
    assert (Hn1 : k_n (cs kst w1) = n) by (rewrite A; apply HD).
    split; [cbn [cs emit]; rewrite K2; exact Hn1|].
    unfold kdone in Ek. destruct (k_kind (cs kst w1) =? 2); inversion Ek; subst; cbn [cs set_cs emit k_gone].
    + split; [rewrite upd_length, A; apply HD|]. split; [|split].
      * intros x. rewrite droppedl_app, cnt_app, HDp. change (droppedl [EDc i]) with [i]. rewrite cnt_single, nth_upd_bool by (rewrite A, (dk_len _ _ _ HD); exact Hi).
        destruct (Nat.eqb_spec x i) as [->|Hx]; [rewrite Hg1; reflexivity|lia].
      * rewrite dropv_app, C, dropv_app, (dk_v _ _ _ HD). reflexivity.
      * replace (polls_from 0 (strip (tr kst w1) ++ [EDc i])) with (polls_from 0 (strip (tr kst w1))) by (symmetry; apply polls_from_tail; intros e' [<-|[]]; exact I).
        rewrite returnedK_app. cbn. rewrite app_nil_r, C.
        replace (strip (tr kst w) ++ [EC i (WPar pid); EAns (AReady (ROk v))]) with (strip (tr kst w) ++ EC i (WPar pid) :: EAns (AReady (ROk v)) :: []) by reflexivity.
        rewrite polls_from_app, producedK_app, returnedK_app. cbn. rewrite app_nil_r, (dk_val _ _ _ HD). reflexivity.
    + rewrite app_nil_r. split; [rewrite A; apply HD|]. split; [exact HDp|]. split.
      * rewrite C, dropv_app, (dk_v _ _ _ HD). reflexivity.
      * rewrite C.
        replace (strip (tr kst w) ++ [EC i (WPar pid); EAns (AReady (ROk v))]) with (strip (tr kst w) ++ EC i (WPar pid) :: EAns (AReady (ROk v)) :: []) by reflexivity.
        rewrite polls_from_app, producedK_app, returnedK_app. cbn. rewrite app_nil_r, (dk_val _ _ _ HD). reflexivity.
  - (* failure: recorded, the scan goes on *)
    assert (H1 : Dk n (cs kst w1) (strip (tr kst w1))) by (apply HD1; discriminate).
    assert (Hg1 : nth i (k_gone (cs kst w1)) false = false) by (rewrite A; exact Hgi).
    pose proof (Dk_kdone n w1 i (strip (tr kst w1)) H1 Hi Hg1) as Hd2. pose proof (kdone_spec w1 i) as Hk.
    destruct (kdone w1 i) as [w1' ed]. destruct Hk as (K1 & K2 & K3 & K4 & K5 & K6 & K7 & K8 & K9). destruct Hd2 as [Hd2 Hoth].
    match goal with |- context[rok_scan ?W rest pid] => set (w2 := W) end.
    assert (Hle2 : length (k_errs (cs kst w2)) = n) by (unfold w2; cbn [cs emit set_cs k_errs]; rewrite upd_length, K4; exact Hle1).
    assert (HD2 : Dk n (cs kst w2) (strip (tr kst w2))).
    { unfold w2. cbn [cs tr emit set_cs]. rewrite strip_app, K8. replace (strip ed) with ed by (destruct K9 as [->| ->]; reflexivity).
      destruct Hd2 as [X1 X2 X3 X4 X5]. constructor; cbn [k_n k_gone]; auto. }
    assert (HG2 : Gk (cs kst w2)).
    { unfold Gk, w2. cbn [cs emit set_cs k_gone k_errs]. intros x Hx. rewrite nth_upd_opt by (rewrite K4; lia).
      destruct (Nat.eqb_spec x i); [discriminate|]. rewrite K4. apply HG1. rewrite <- (Hoth x n0). exact Hx. }
    specialize (IH w2 pid His' Hle2 HD2 HG2). destruct (rok_scan w2 rest pid) as [w' r].
    replace (dropped kst w) with (dropped kst w2) by (unfold w2; cbn [dropped emit set_cs]; congruence). exact IH.
  - apply Hcont; discriminate.
  - apply Hcont; discriminate.
  - (* the child's poll panicked *)
    split; [congruence|]. split; [exact Hle1|]. split; [apply HD1; discriminate|exact HG1].
Qed.

Definition PK (n: nat) (s: kst) (fin: bool) (t: list ev) : Prop := Dk n s t /\ length (k_errs s) = n /\ (fin = false -> Gk s).

Lemma kdrops_cnt_gen (gone: list bool) x : forall m a,
  cnt x (droppedl (flat_map (fun i => if nth i gone false then [] else [EDc i]) (seq a m))) = if (a <=? x) && (x <? a + m) && negb (nth x gone false) then 1 else 0.
Proof.
  assert (Hb : forall a m, ((a <=? x) && (x <? a + m)) = true <-> a <= x < a + m).
  { intros a m. rewrite andb_true_iff, Nat.leb_le, Nat.ltb_lt. tauto. }
  induction m as [|m IH]; intros a; cbn [seq flat_map].
  - change (cnt x (droppedl [])) with 0. destruct ((a <=? x) && (x <? a + 0)) eqn:E; [apply Hb in E; lia|reflexivity].
  - rewrite droppedl_app, cnt_app, IH.
    assert (Hh : cnt x (droppedl (if nth a gone false then [] else [EDc a])) = if (x =? a) && negb (nth a gone false) then 1 else 0).
    { destruct (nth a gone false); [rewrite andb_false_r; reflexivity|]. change (droppedl [EDc a]) with [a]. rewrite cnt_single, andb_true_r. reflexivity. }
    rewrite Hh. destruct (Nat.eqb_spec x a) as [->|Hne].
    + destruct ((S a <=? a) && (a <? S a + m)) eqn:E1; [apply Hb in E1; lia|].
      destruct ((a <=? a) && (a <? a + S m)) eqn:E2; [|exfalso; assert (X : a <= a < a + S m) by lia; apply Hb in X; congruence].
      cbn [andb]. destruct (negb (nth a gone false)); reflexivity.
    + cbn [andb]. destruct ((S a <=? x) && (x <? S a + m)) eqn:E1; destruct ((a <=? x) && (x <? a + S m)) eqn:E2; try reflexivity.
      * apply Hb in E1. exfalso. assert (X : a <= x < a + S m) by lia. apply Hb in X. congruence.
      * apply Hb in E2. exfalso. assert (X : S a <= x < S a + m) by lia. apply Hb in X. congruence.
Qed.
Lemma strip_kdrops s : strip (k_drops s) = k_drops s.
Proof. unfold k_drops. induction (seq 0 (k_n s)) as [|i l IH]; cbn; auto. rewrite strip_app, IH. destruct (nth i (k_gone s) false); reflexivity. Qed.
Lemma kdrops_quiet s : polls_from 0 (k_drops s) = [] /\ returnedK (k_drops s) = [] /\ dropv (k_drops s) = [] /\
  (forall e, In e (k_drops s) -> match e with EC _ _ | EAns _ => False | _ => True end).
Proof.
  unfold k_drops. induction (seq 0 (k_n s)) as [|i l IH]; cbn [flat_map].
  - split; [reflexivity|]. split; [reflexivity|]. split; [reflexivity|]. intros e [].
  - destruct IH as (A & B & C & D). destruct (nth i (k_gone s) false); cbn [app].
    + split; [exact A|]. split; [exact B|]. split; [exact C|exact D].
    + split; [cbn; exact A|]. split; [cbn; exact B|]. split; [cbn; exact C|]. intros e [<-|He]; [exact I|apply D; exact He].
Qed.
(* the destructor (explicit drop or unwinding) completes the ledger *)
Lemma Dk_final n s t tail : Dk n s t -> (tail = [] \/ tail = [EEndX]) -> BalK n (t ++ ED :: k_drops s ++ tail).
Proof.
  intros [A B C D E] Ht. destruct (kdrops_quiet s) as (Q1 & Q2 & Q3 & Q4).
  assert (Htl : droppedl tail = [] /\ dropv tail = [] /\ returnedK tail = [] /\ (forall e, In e tail -> match e with EC _ _ | EAns _ => False | _ => True end))
    by (destruct Ht as [->| ->]; (repeat split; auto); intros e He; cbn in He; [contradiction|destruct He as [<-|[]]; exact I]).
  destruct Htl as (T1 & T2 & T3 & T4).
  split; [|split].
  - intros x. rewrite droppedl_app, cnt_app, C. change (droppedl (ED :: k_drops s ++ tail)) with (droppedl (k_drops s ++ tail)).
    rewrite droppedl_app, T1, app_nil_r. unfold k_drops. rewrite kdrops_cnt_gen, A.
    assert (Hg : nth x (k_gone s) false = true -> x < n).
    { intros Eg. destruct (Nat.lt_ge_cases x n); auto. rewrite nth_overflow in Eg by lia. discriminate. }
    change (0 <=? x) with true. change (0 + n) with n. cbn [andb].
    destruct (nth x (k_gone s) false) eqn:Eg; cbn [negb].
    { rewrite andb_false_r. specialize (Hg eq_refl). apply Nat.ltb_lt in Hg. rewrite Hg. reflexivity. }
    { rewrite andb_true_r. destruct (x <? n); reflexivity. }
  - replace (polls_from 0 (t ++ ED :: k_drops s ++ tail)) with (polls_from 0 t).
    + rewrite returnedK_app. cbn. rewrite returnedK_app, Q2, T3, app_nil_r. exact E.
    + symmetry. apply polls_from_tail. intros e [<-|He]; [exact I|]. apply in_app_or in He as [He|He]; [apply Q4; exact He|apply T4; exact He].
  - rewrite dropv_app, D. cbn. rewrite dropv_app, Q3, T2. reflexivity.
Qed.
Lemma BalK_ED n t : BalK n t -> BalK n (t ++ [ED]).
Proof.
  intros (B1 & B2 & B3). split; [|split].
  - intros x. rewrite droppedl_app. change (droppedl [ED]) with (@nil nat). rewrite app_nil_r. apply B1.
  - rewrite returnedK_app. change (returnedK [ED]) with (@nil nat). rewrite app_nil_r.
    replace (polls_from 0 (t ++ [ED])) with (polls_from 0 t) by (symmetry; apply polls_from_tail; intros e [<-|[]]; exact I). exact B2.
  - rewrite dropv_app, B3. reflexivity.
Qed.
Lemma Dk_tail n s t e : Dk n s t -> (e = EEndP \/ exists es, e = EEndR (OErrs es)) -> Dk n s (t ++ [e]).
Proof.
  intros [A B C D E] He. constructor; auto.
  - intros x. rewrite droppedl_app. replace (droppedl [e]) with (@nil nat) by (destruct He as [->|[es ->]]; reflexivity). rewrite app_nil_r. apply C.
  - rewrite dropv_app, D. destruct He as [->|[es ->]]; reflexivity.
  - replace (polls_from 0 (t ++ [e])) with (polls_from 0 t) by (symmetry; apply polls_from_tail; intros e' [<-|[]]; destruct He as [->|[es ->]]; exact I).
    rewrite returnedK_app, E. destruct He as [->|[es ->]]; cbn; rewrite app_nil_r; reflexivity.
Qed.

Theorem C02_race_ok kind scs ops : let n := length scs in
  BalK n (strip (tr _ (race_ok_world kind scs (ops ++ [ODrop])))).
Proof.
  intros n. unfold race_ok_world, p_world.
  apply (PF_final kst rok_poll k_drops (PK n) (BalK n)).
  - (* a poll *) intros w pid np Hd Hf (HD & Hle & HG). specialize (HG eq_refl).
    unfold rok_poll. set (w0 := begin_p kst w pid np).
    assert (H0 : cs _ w0 = cs _ w /\ dropped _ w0 = false /\ strip (tr _ w0) = strip (tr _ w) /\ finished _ w0 = false).
    { unfold w0, begin_p. cbn. rewrite strip_app. cbn. rewrite app_nil_r. auto. }
    destruct H0 as (Hc0 & Hd0 & Ht0 & Hf0).
    set (s := cs kst w0) in *.
    set (is := if k_kind s =? 1 then rot (k_n s) (k_off s) else seq 0 (k_n s)).
    set (w1 := if k_kind s =? 1 then set_cs kst w0 _ else w0).
    assert (Hn : k_n s = n) by (replace s with (cs kst w) by (symmetry; exact Hc0); apply HD).
    assert (His : Forall (fun i => i < n) is) by (unfold is; rewrite Hn; destruct (k_kind s =? 1); [apply rot_lt|apply seq_lt]).
    assert (H1 : Dk n (cs _ w1) (strip (tr _ w1)) /\ Gk (cs _ w1) /\ length (k_errs (cs _ w1)) = n /\ dropped _ w1 = false /\ finished _ w1 = false).
    { unfold w1. destruct (k_kind s =? 1); cbn [cs tr set_cs dropped finished]; rewrite ?Ht0.
      - destruct HD as [A B C D E]. replace s with (cs kst w) by (symmetry; exact Hc0). split; [constructor; cbn [k_n k_gone]; auto|]. split; [exact HG|]. split; [exact Hle|auto].
      - replace (cs kst w0) with (cs kst w) by (symmetry; exact Hc0). auto. }
    destruct H1 as (HD1 & HG1 & Hle1 & Hd1 & Hf1).
    pose proof (rok_scan_dk n is w1 pid His Hle1 HD1 HG1) as Hs. destruct (rok_scan w1 is pid) as [w2 r]. destruct Hs as (S1 & S2 & S3).
    destruct r as [[o|]|].
    + destruct S3 as (v & t' & -> & Et & Sn & Sl & Sc & Sv & Sval).
      destruct (finish_p_spec kst w2 (OOk [v]) true) as (F1 & F2 & F3). rewrite F2, S1, Hd1. rewrite F1, F3, strip_app. cbn [strip filter noise negb]. rewrite Et.
      split; [|split; [exact S2|discriminate]]. constructor; auto.
      * intros x. rewrite droppedl_app. cbn. rewrite app_nil_r. apply Sc.
      * rewrite dropv_app, Sv. reflexivity.
      * replace (polls_from 0 (t' ++ [EEndR (OOk [v])])) with (polls_from 0 t') by (symmetry; apply polls_from_tail; intros e' [<-|[]]; exact I).
        rewrite returnedK_app, Sval. reflexivity.
    + destruct S3 as [HD2 _]. unfold unwind_p. cbn [dropped set_flags tr emit]. rewrite strip_app. cbn [strip filter noise negb]. rewrite strip_app, strip_kdrops.
      change (strip [EEndX]) with [EEndX]. apply Dk_final; auto.
    + destruct S3 as [HD2 HG2]. cbv zeta.
      destruct (k_completed (cs kst w2) =? k_n (cs kst w2)).
      * match goal with |- context[finish_p kst w2 ?O true] => destruct (finish_p_spec kst w2 O true) as (F1 & F2 & F3); set (oo := O) in * end.
        rewrite F2, S1, Hd1. rewrite F1, F3, strip_app. cbn [strip filter noise negb]. split; [|split; [exact S2|discriminate]].
        apply Dk_tail; [exact HD2|right; eexists; reflexivity].
      * cbn [dropped emit cs tr finished]. rewrite S1, Hd1. rewrite strip_app. cbn [strip filter noise negb].
        split; [apply Dk_tail; [exact HD2|left; reflexivity]|]. split; [exact S2|intros _; exact HG2].
  - (* drop *) intros s fin t (HD & _ & _). rewrite strip_kdrops, <- (app_nil_r (k_drops s)). apply Dk_final; auto.
  - apply BalK_ED.
  - unfold DWp. cbn [dropped mk_world cs tr finished strip filter rok_init k_errs k_gone k_n].
    split; [|split; [apply repeat_length|]].
    + constructor; cbn [k_n k_gone polls_from]; auto; [apply repeat_length|].
      intros x. cbn. replace (nth x (repeat false (length scs)) false) with false; [reflexivity|].
      clear. revert x. induction (length scs); destruct x; cbn; auto.
    + intros _ i Hi. cbn [k_gone rok_init cs mk_world] in Hi.
      assert (X : nth i (repeat false (length scs)) false = false) by (clear; revert i; induction (length scs); destruct i; cbn; auto). congruence.
Qed.

(* ---------------- wait_until (future and stream variants) ----------------
   child 0 = the deadline future, child 1 = the inner future / stream.  Over the complete history closed by a drop: both children are dropped exactly once
   (with the combinator: neither is dropped earlier), the deadline's output is dropped (never returned), and every value the inner produced is returned.
   A deadline is a future: an Item / End answer from child 0 is outside the harness (it maps to Pending there) and is not counted as a produced value. *)
Definition producedW (P: list (nat * ans)) : list nat :=
  flat_map (fun p => match snd p with AReady (ROk v) | AReady (RErr v) => [v] | AItem v => if fst p =? 1 then [v] else [] | _ => [] end) P.
Definition returnedW (t: list ev) : list nat := flat_map (fun e => match e with EEndR (OVals vs) | EEndR (OSome _ vs) => vs | _ => [] end) t.
Lemma producedW_app a b : producedW (a ++ b) = producedW a ++ producedW b. Proof. apply flat_map_app. Qed.
Lemma returnedW_app a b : returnedW (a ++ b) = returnedW a ++ returnedW b. Proof. apply flat_map_app. Qed.
Definition EqW (t: list ev) (pendingdrop: list nat) : Prop :=
  forall v, cnt v (producedW (polls_from 0 t)) = cnt v (returnedW t) + cnt v (dropv t) + cnt v pendingdrop.
Definition BalW (t: list ev) : Prop := (forall x, cnt x (droppedl t) = if x <? 2 then 1 else 0) /\ EqW t [].
Definition Lw (t: list ev) : Prop := droppedl t = [] /\ EqW t [].

Lemma cnt_nil x : cnt x [] = 0. Proof. reflexivity. Qed.
(* the tail of a history: events that are neither child polls nor answers *)
Definition plain (u: list ev) : Prop := forall e, In e u -> match e with EC _ _ | EAns _ => False | _ => True end.
Lemma EqW_seg t m wk a u pd pd' :
  EqW t pd -> plain u ->
  (forall v, cnt v (producedW [(m, a)]) + cnt v pd = cnt v (returnedW u) + cnt v (dropv u) + cnt v pd') ->
  EqW (t ++ EC m wk :: EAns a :: u) pd'.
Proof.
  intros H Hu Hv v. rewrite polls_from_app. replace (polls_from m u) with (@nil (nat * ans)) by (symmetry; replace u with ([] ++ u) by reflexivity; apply polls_from_tail; exact Hu).
  rewrite producedW_app, cnt_app, returnedW_app, cnt_app, dropv_app, cnt_app.
  change (returnedW (EC m wk :: EAns a :: u)) with (returnedW u). change (dropv (EC m wk :: EAns a :: u)) with (dropv u).
  specialize (H v). specialize (Hv v). lia.
Qed.
Lemma BalW_final t tail : Lw t -> (tail = [] \/ tail = [EEndX]) -> BalW (t ++ ED :: [EDc 1; EDc 0] ++ tail).
Proof.
  intros [Hd He] Ht. split.
  - intros x. rewrite droppedl_app, Hd. destruct Ht as [->| ->]; cbn [app droppedl flat_map]; unfold cnt; cbn;
      destruct x as [|[|x]]; cbn; reflexivity.
  - intros v. replace (polls_from 0 (t ++ ED :: [EDc 1; EDc 0] ++ tail)) with (polls_from 0 t).
    + rewrite returnedW_app, cnt_app, dropv_app, cnt_app. specialize (He v).
      replace (returnedW (ED :: [EDc 1; EDc 0] ++ tail)) with (@nil nat) by (destruct Ht as [->| ->]; reflexivity).
      replace (dropv (ED :: [EDc 1; EDc 0] ++ tail)) with (@nil nat) by (destruct Ht as [->| ->]; reflexivity). rewrite !cnt_nil in *. lia.
    + symmetry. apply polls_from_tail. intros e He'. destruct Ht as [->| ->]; cbn in He'; repeat (destruct He' as [<-|He']; [exact I|]); destruct He'.
Qed.
Lemma BalW_ED t : BalW t -> BalW (t ++ [ED]).
Proof.
  intros [B1 B2]. split.
  - intros x. rewrite droppedl_app. change (droppedl [ED]) with (@nil nat). rewrite app_nil_r. apply B1.
  - intros v. replace (polls_from 0 (t ++ [ED])) with (polls_from 0 t) by (symmetry; apply polls_from_tail; intros e [<-|[]]; exact I).
    rewrite returnedW_app, dropv_app, !cnt_app. change (returnedW [ED]) with (@nil nat). change (dropv [ED]) with (@nil nat). specialize (B2 v). rewrite !cnt_nil in *. lia.
Qed.

(* the inner is polled once; `late` (nothing, or the deadline's output) is dropped after that poll *)
Lemma w_inner_ledger (w1: W ust) late pid pd : dropped _ w1 = false -> droppedl (strip (tr _ w1)) = [] -> EqW (strip (tr _ w1)) pd ->
  strip late = late -> plain late -> droppedl late = [] -> returnedW late = [] -> dropv late = pd ->
  if dropped _ (w_inner w1 late pid) then BalW (strip (tr _ (w_inner w1 late pid)))
  else Lw (strip (tr _ (w_inner w1 late pid))) /\ cs _ (w_inner w1 late pid) = cs _ w1.
Proof.
  intros Hd Hdl He Hsl Hpl Hdll Hrl Hvl. unfold w_inner. pose proof (poll_direct_spec ust w1 1 pid) as Hs.
  destruct (poll_direct ust w1 1 pid) as [w2 a]. destruct Hs as (A & B & C & _).
  assert (Hw3 : strip (tr _ (emit ust w2 late)) = strip (tr _ w1) ++ EC 1 (WPar pid) :: EAns a :: late).
  { cbn. rewrite strip_app, C, Hsl, <- app_assoc. reflexivity. }
  assert (Hd3 : dropped _ (emit ust w2 late) = false) by (cbn; congruence).
  assert (Hfin : forall o fin vs, (forall v, cnt v (producedW [(1, a)]) = cnt v vs) -> returnedW [EEndR o] = vs ->
            let w' := finish_p ust (emit ust w2 late) o fin in
            if dropped _ w' then BalW (strip (tr _ w')) else Lw (strip (tr _ w')) /\ cs _ w' = cs _ w1).
  { intros o fin vs Hp Hr. destruct (finish_p_spec ust (emit ust w2 late) o fin) as (F1 & F2 & F3). cbv zeta. rewrite F2, Hd3, F1, F3, strip_app, Hw3.
    change (strip [EEndR o]) with [EEndR o]. split; [|cbn; exact A]. split.
    - rewrite !droppedl_app, Hdl. change (droppedl (EC 1 (WPar pid) :: EAns a :: late)) with (droppedl late). rewrite Hdll. reflexivity.
    - rewrite <- app_assoc. cbn [app]. apply (EqW_seg _ 1 _ a (late ++ [EEndR o]) pd []); auto.
      + intros e He'. apply in_app_or in He' as [He'|[<-|[]]]; [apply Hpl; exact He'|exact I].
      + intros v. rewrite returnedW_app, dropv_app, !cnt_app, Hrl, Hr, Hvl. change (dropv [EEndR o]) with (@nil nat). rewrite !cnt_nil, Hp. lia. }
  destruct a as [|[v|v]|v| |].
  - cbn [dropped emit]. rewrite B, Hd. split; [|cbn; exact A]. cbn [tr emit]. rewrite !strip_app, C, Hsl. change (strip [EEndP]) with [EEndP]. split.
    + rewrite !droppedl_app, Hdl. change (droppedl (EC 1 (WPar pid) :: EAns APend :: late)) with (droppedl late). rewrite Hdll. reflexivity.
    + rewrite <- !app_assoc. cbn [app]. apply (EqW_seg _ 1 _ APend (late ++ [EEndP]) pd []); auto.
      * intros e He'. apply in_app_or in He' as [He'|[<-|[]]]; [apply Hpl; exact He'|exact I].
      * intros v. rewrite returnedW_app, dropv_app, !cnt_app, Hrl, Hvl. change (returnedW [EEndP]) with (@nil nat). change (dropv [EEndP]) with (@nil nat). change (producedW [(1, APend)]) with (@nil nat). rewrite ?cnt_nil. lia.
  - apply (Hfin (OVals [v]) true [v]); reflexivity.
  - apply (Hfin (OVals [v]) true [v]); reflexivity.
  - apply (Hfin (OSome None [v]) false [v]); reflexivity.
  - apply (Hfin ONone true []); reflexivity.
  - unfold unwind_p. cbn [dropped set_flags].
    change (tr ust (set_flags ust (emit ust (emit ust w2 late) (ED :: [EDc 1; EDc 0] ++ [EEndX])) true true true))
      with (tr ust (emit ust w2 late) ++ ED :: [EDc 1; EDc 0] ++ [EEndX]).
    rewrite strip_app, Hw3. change (strip (ED :: [EDc 1; EDc 0] ++ [EEndX])) with (ED :: [EDc 1; EDc 0] ++ [EEndX]).
    apply BalW_final; [|right; reflexivity]. split.
    + rewrite droppedl_app, Hdl. cbn. exact Hdll.
    + apply (EqW_seg _ 1 _ APanic late pd []); auto. intros v. rewrite Hrl, Hvl. change (producedW [(1, APanic)]) with (@nil nat). rewrite ?cnt_nil. lia.
Qed.

Theorem C02_wait_until stream scs ops : BalW (strip (tr _ (wait_world stream scs (ops ++ [ODrop])))).
Proof.
  unfold wait_world, p_world.
  apply (PF_final ust wait_poll u_drops (fun _ _ t => Lw t) BalW).
  - intros w pid np Hd Hf [Hdl He]. rewrite wait_poll_eq. cbv zeta. set (w0 := begin_p ust w pid np).
    assert (H0 : dropped _ w0 = false /\ strip (tr _ w0) = strip (tr _ w)).
    { unfold w0, begin_p. cbn. rewrite strip_app. cbn. rewrite app_nil_r. auto. }
    destruct H0 as (Hd0 & Ht0).
    assert (Hin : forall w1 late pd, dropped _ w1 = false -> droppedl (strip (tr _ w1)) = [] -> EqW (strip (tr _ w1)) pd ->
              strip late = late -> plain late -> droppedl late = [] -> returnedW late = [] -> dropv late = pd ->
              if dropped _ (w_inner w1 late pid) then BalW (strip (tr _ (w_inner w1 late pid))) else Lw (strip (tr _ (w_inner w1 late pid)))).
    { intros w1 late pd X1 X2 X3 X4 X5 X6 X7 X8. pose proof (w_inner_ledger w1 late pid pd X1 X2 X3 X4 X5 X6 X7 X8) as Y.
      destruct (dropped ust (w_inner w1 late pid)); [exact Y|apply Y]. }
    assert (Pnil : plain []) by (intros e []).
    assert (Pev : forall v, plain [EV v]) by (intros v e [<-|[]]; exact I).
    destruct (u_started (cs ust w0)).
    + apply (Hin w0 [] []); [exact Hd0|rewrite Ht0; exact Hdl|rewrite Ht0; exact He|reflexivity|exact Pnil|reflexivity|reflexivity|reflexivity].
    + pose proof (poll_direct_spec ust w0 0 pid) as Hs. destruct (poll_direct ust w0 0 pid) as [w1 a]. destruct Hs as (A & B & C & _).
      assert (Hd1 : dropped _ w1 = false) by congruence.
      assert (Hdl1 : droppedl (strip (tr _ w1)) = []) by (rewrite C, Ht0, droppedl_app, Hdl; reflexivity).
      assert (He1 : forall pd, (forall v, cnt v (producedW [(0, a)]) = cnt v pd) -> EqW (strip (tr _ w1)) pd).
      { intros pd Hp. rewrite C, Ht0. apply (EqW_seg _ 0 _ a [] [] pd); auto. intros v. rewrite Hp. change (returnedW []) with (@nil nat). change (dropv []) with (@nil nat). rewrite ?cnt_nil. lia. }
      (* the deadline resolved with value v: dropped before (future variant) or after (stream variant) the inner's poll *)
      assert (Hres : forall v s', (forall v0, cnt v0 (producedW [(0, a)]) = cnt v0 [v]) ->
                if u_stream (cs ust w0)
                then (if dropped _ (w_inner (set_cs ust w1 s') [EV v] pid) then BalW (strip (tr _ (w_inner (set_cs ust w1 s') [EV v] pid))) else Lw (strip (tr _ (w_inner (set_cs ust w1 s') [EV v] pid))))
                else (if dropped _ (w_inner (emit ust (set_cs ust w1 s') [EV v]) [] pid) then BalW (strip (tr _ (w_inner (emit ust (set_cs ust w1 s') [EV v]) [] pid))) else Lw (strip (tr _ (w_inner (emit ust (set_cs ust w1 s') [EV v]) [] pid))))).
      { intros v s' Hp. destruct (u_stream (cs ust w0)).
        - apply (Hin _ [EV v] [v]); [exact Hd1|exact Hdl1|apply He1; exact Hp|reflexivity|apply Pev|reflexivity|reflexivity|reflexivity].
        - apply (Hin _ [] []); [exact Hd1| | |reflexivity|exact Pnil|reflexivity|reflexivity|reflexivity].
          + cbn [tr emit set_cs]. rewrite strip_app, droppedl_app, Hdl1. reflexivity.
          + cbn [tr emit set_cs]. rewrite strip_app. change (strip [EV v]) with [EV v]. pose proof (He1 [v] Hp) as X. intros v0. specialize (X v0).
            replace (polls_from 0 (strip (tr ust w1) ++ [EV v])) with (polls_from 0 (strip (tr ust w1))) by (symmetry; apply polls_from_tail; intros e [<-|[]]; exact I).
            rewrite returnedW_app, dropv_app, !cnt_app. change (returnedW [EV v]) with (@nil nat). change (dropv [EV v]) with [v]. rewrite ?cnt_nil in *. lia. }
      destruct a as [|[v|v]|v| |].
      * cbn [dropped emit]. rewrite Hd1. cbn [tr emit]. rewrite strip_app. change (strip [EEndP]) with [EEndP]. split.
        -- rewrite droppedl_app, Hdl1. reflexivity.
        -- pose proof (He1 [] (fun v => eq_refl)) as X. intros v0. specialize (X v0).
           replace (polls_from 0 (strip (tr ust w1) ++ [EEndP])) with (polls_from 0 (strip (tr ust w1))) by (symmetry; apply polls_from_tail; intros e [<-|[]]; exact I).
           rewrite returnedW_app, dropv_app, !cnt_app. change (returnedW [EEndP]) with (@nil nat). change (dropv [EEndP]) with (@nil nat). rewrite ?cnt_nil in *. lia.
      * pose proof (Hres v {| u_stream := u_stream (cs ust w0); u_started := true |} (fun _ => eq_refl)) as X. destruct (u_stream (cs ust w0)); exact X.
      * pose proof (Hres v {| u_stream := u_stream (cs ust w0); u_started := true |} (fun _ => eq_refl)) as X. destruct (u_stream (cs ust w0)); exact X.
      * apply (Hin _ [] []); [exact Hd1|exact Hdl1|apply (He1 []); intros v0; reflexivity|reflexivity|exact Pnil|reflexivity|reflexivity|reflexivity].
      * apply (Hin _ [] []); [exact Hd1|exact Hdl1|apply (He1 []); intros v0; reflexivity|reflexivity|exact Pnil|reflexivity|reflexivity|reflexivity].
      * unfold unwind_p. cbn [dropped set_flags].
        change (tr ust (set_flags ust (emit ust w1 (ED :: [EDc 1; EDc 0] ++ [EEndX])) true true true)) with (tr ust w1 ++ ED :: [EDc 1; EDc 0] ++ [EEndX]).
        rewrite strip_app. change (strip (ED :: [EDc 1; EDc 0] ++ [EEndX])) with (ED :: [EDc 1; EDc 0] ++ [EEndX]).
        apply BalW_final; [|right; reflexivity]. split; [exact Hdl1|apply (He1 []); intros v0; reflexivity].
  - intros s fin t H. change (strip (u_drops s)) with [EDc 1; EDc 0]. rewrite <- (app_nil_r [EDc 1; EDc 0]). apply BalW_final; auto.
  - apply BalW_ED.
  - unfold DWp. cbn [dropped mk_world cs tr finished strip filter]. split; [reflexivity|]. intros v. reflexivity.
Qed.
