From Coq Require Import List Arith Lia Bool.
Import ListNotations.
Require Import ScanFull InstsFull Pass ObligJoin ObligGroups C04Join C11Groups PassProofs.

(* C01 for the pass-through combinators on the model's own worlds: every waker a child was ever handed is the parent waker of the poll in
   which it was handed, and firing it - current, stale or repeated, at any time - wakes that parent (and never panics). *)
Lemma HPp_init {St} (s: St) n scs : HPp (mk_world s false n scs).
Proof. unfold HPp. cbn. induction (length scs); cbn; constructor; auto. Qed.

Theorem C01_race_world scs ops c k : let w := race_world scs ops in
  forall wk0, nth_error (nth c (handed _ w) []) k = Some wk0 ->
  exists pid, wk0 = WPar pid /\ tr _ (fire_handle _ (fun _ => 0) w c k) = tr _ w ++ [EF c k; EW pid].
Proof. exact (C01_pass race_poll r_drops _ ops c k race_poll_HP (HPp_init _ _ scs)). Qed.
Theorem C01_race_ok_world kind scs ops c k : let w := race_ok_world kind scs ops in
  forall wk0, nth_error (nth c (handed _ w) []) k = Some wk0 ->
  exists pid, wk0 = WPar pid /\ tr _ (fire_handle _ (fun _ => 0) w c k) = tr _ w ++ [EF c k; EW pid].
Proof. exact (C01_pass rok_poll k_drops _ ops c k rok_poll_HP (HPp_init _ _ scs)). Qed.
Theorem C01_chain_world scs ops c k : let w := chain_world scs ops in
  forall wk0, nth_error (nth c (handed _ w) []) k = Some wk0 ->
  exists pid, wk0 = WPar pid /\ tr _ (fire_handle _ (fun _ => 0) w c k) = tr _ w ++ [EF c k; EW pid].
Proof. exact (C01_pass chain_poll c_drops _ ops c k chain_poll_HP (HPp_init _ _ scs)). Qed.
Theorem C01_wait_world stream scs ops c k : let w := wait_world stream scs ops in
  forall wk0, nth_error (nth c (handed _ w) []) k = Some wk0 ->
  exists pid, wk0 = WPar pid /\ tr _ (fire_handle _ (fun _ => 0) w c k) = tr _ w ++ [EF c k; EW pid].
Proof. exact (C01_pass wait_poll u_drops _ ops c k wait_poll_HP (HPp_init _ _ scs)). Qed.
