From Coq Require Import List Arith Lia Bool.
Import ListNotations.
Require Import ScanFull InstsFull ObligGroups C11Groups.

(* C11 / C12: the capacity of a group never shrinks, over any history (and is at least len: C11_capacity). *)
Lemma g_handle_cap s i a : g_cap (fst (fst (g_handle s i a))) = g_cap s.
Proof. destruct a as [|[v|e]|v| |]; reflexivity. Qed.
Lemma g_reserve_cap w a : g_cap (cs _ w) <= g_cap (cs _ (g_reserve w a)).
Proof. unfold g_reserve. destruct (_ <? _); cbn; lia. Qed.
Lemma g_mutate_cap w m a sc : g_cap (cs _ w) <= g_cap (cs _ (g_mutate w m a sc)).
Proof.
  unfold g_mutate. destruct m as [|[|[|[|[|[|m]]]]]]; cbn [cs emit]; auto.
  - set (w1 := if g_cap (cs gst w) <=? g_len (cs gst w) then g_reserve w (g_cap (cs gst w) * 2 + 1) else w).
    assert (H1 : g_cap (cs gst w) <= g_cap (cs gst w1)) by (unfold w1; destruct (_ <=? _); [apply g_reserve_cap|lia]).
    destruct (if g_next (cs gst w1) =? length (g_ent (cs gst w1)) then _ else _) as [ent' nx'].
    destruct (_ && _); cbn; exact H1.
  - destruct (nth_error _ a) as [k|]; auto. destruct (existsb _ _); cbn; lia.
  - apply g_reserve_cap.
  - destruct (nth_error _ a); cbn; lia.
Qed.

Lemma g_poll_cap w pid np : g_Q (cs _ w) ->
  g_cap (cs _ (poll gst g_slots g_awaited g_member g_handle false false g_order g_pre_exit (fun _ => true) g_finish g_cleanup g_drop (fun _ => false) w pid np)) = g_cap (cs _ w).
Proof.
  intros HQ.
  apply (poll_P gst g_slots g_awaited g_member g_handle false false g_order g_pre_exit (fun _ => true) g_finish g_cleanup g_drop (fun _ => false) g_Q
           G1 G8 G10 G12 (fun s _ => g_Q s /\ g_cap s = g_cap (cs _ w))); unfold PW; auto.
  - intros s sc i stp sc' Ha Hi _ [H1 H2]. split; [apply G9; auto | rewrite g_handle_cap; exact H2].
  - intros s is s1 sc E [H1 H2]. split; [eapply G14; eauto | inversion E; subst; exact H2].
  - intros s sc [H1 H2]. split; [apply G17; auto | unfold g_finish; destruct (_ && _); exact H2].
  - intros s sc [H1 H2]. split; [apply Q_cleanup; auto | exact H2].
  - intros s sc [H1 _]. exact H1.
Qed.

Lemma g_step_cap w o : (dropped _ w = false -> g_Q (cs _ w)) ->
  g_cap (cs _ w) <= g_cap (cs _ (step_op gst g_slots g_awaited g_member g_handle false false g_order g_pre_exit (fun _ => true) g_finish g_cleanup g_drop (fun _ => false) g_mutate w o)).
Proof.
  intros HQ. destruct o as [| |c k| |m a sc]; cbn [step_op].
  - destruct (finished _ w || dropped _ w) eqn:E; auto. apply Bool.orb_false_elim in E as [_ E]. rewrite g_poll_cap; auto.
  - destruct (finished _ w || dropped _ w) eqn:E; auto. apply Bool.orb_false_elim in E as [_ E]. rewrite g_poll_cap; auto.
  - destruct (fire_handle_pass gst g_slots (emit _ w [EO]) c k) as [A _]. rewrite A. cbn. auto.
  - destruct (dropped _ w); cbn; auto.
  - destruct (dropped _ w); auto. apply g_mutate_cap.
Qed.

(* over any history of polls, wakes, inserts, removals, reserves and queries, in any order *)
Theorem group_capacity_monotone selective stream cap0 ops1 ops2 :
  g_cap (cs _ (group_run' selective stream cap0 ops1)) <= g_cap (cs _ (group_run' selective stream cap0 (ops1 ++ ops2))).
Proof.
  induction ops2 as [|o r IH] using rev_ind; [rewrite app_nil_r; auto|].
  etransitivity; [exact IH|]. rewrite app_assoc.
  assert (E : group_run' selective stream cap0 ((ops1 ++ r) ++ [o]) =
              step_op gst g_slots g_awaited g_member g_handle false false g_order g_pre_exit (fun _ => true) g_finish g_cleanup g_drop (fun _ => false) g_mutate
                (group_run' selective stream cap0 (ops1 ++ r)) o).
  { unfold group_run', run_ops. rewrite fold_left_app. reflexivity. }
  rewrite E. apply g_step_cap. intros Hd. eapply Tg_Q. apply (group_trace_inv selective stream cap0 (ops1 ++ r)). exact Hd.
Qed.
Print Assumptions group_capacity_monotone.
