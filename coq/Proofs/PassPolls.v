From Coq Require Import List Arith Lia Bool.
Import ListNotations.
Require Import ScanFull InstsFull Pass.

(* C20 (first sentence) and C01 for race / race_ok, as a statement about ONE poll from ANY state: a poll that returns Pending has polled, in that
   very poll and with the caller's own waker, every child (race) resp. every child that has not failed (race_ok).  Hence a child's most recent
   waker is the newest parent waker, and after a Pending return every owned child has been polled. *)
Definition quiet (e: ev) : Prop := match e with EC _ _ | EEndP => False | _ => True end.
Lemma tr_fire_handle {St} (w: W St) c k : exists u, tr St (fire_handle St (fun _ => 0) w c k) = tr St w ++ u /\ Forall quiet u.
Proof.
  unfold fire_handle. destruct (nth_error _ k) as [[slot|pid]|].
  - unfold do_fire. cbn [N cs emit]. cbn. exists [EF c k]. split; [reflexivity|repeat constructor].
  - exists [EF c k; EW pid]. cbn. split; [reflexivity|repeat constructor].
  - exists []. rewrite app_nil_r. split; [reflexivity|constructor].
Qed.
Lemma tr_fires_of {St} (w: W St) me hs : exists u, tr St (fires_of St (fun _ => 0) w me hs) = tr St w ++ u /\ Forall quiet u.
Proof.
  revert w. induction hs as [|h r IH]; intros w; cbn [fires_of]; [exists []; rewrite app_nil_r; split; [reflexivity|constructor]|].
  destruct (match h with HSelf => _ | HOf c k => (c, k) end) as [c k].
  destruct (IH (fire_handle St (fun _ => 0) w c k)) as (u & Eu & Hu). rewrite Eu.
  destruct (tr_fire_handle w c k) as (u0 & E0 & H0). rewrite E0. exists (u0 ++ u). rewrite app_assoc. split; auto. apply Forall_app; auto.
Qed.
Lemma poll_direct_tr {St} (w: W St) m pid : exists u,
  tr St (fst (poll_direct St w m pid)) = tr St w ++ EC m (WPar pid) :: u /\ cs St (fst (poll_direct St w m pid)) = cs St w.
Proof.
  unfold poll_direct. destruct (pop St w m) as [stp sc'].
  match goal with |- context[fires_of St _ ?W m _] => destruct (tr_fires_of W m (fires stp)) as (u & Eu & _); set (w1 := W) in * end.
  exists (u ++ [EAns (answer stp)]). cbn [fst tr emit]. rewrite Eu. cbn [tr emit w1 set_oracle]. rewrite <- !app_assoc. cbn. split; [reflexivity|].
  cbn [cs emit]. rewrite (proj1 (fires_of_pass St (fun _ => 0) w1 m (fires stp))). reflexivity.
Qed.

(* race: the scan either stops with a result / panic, or has polled every index it was given *)
Lemma race_scan_polls is : forall (w: W rst) pid, let '(w', r) := race_scan w is pid in
  cs _ w' = cs _ w /\ exists u, tr _ w' = tr _ w ++ u /\ (r = None -> forall i, In i is -> In (EC i (WPar pid)) u).
Proof.
  induction is as [|i rest IH]; intros w pid; cbn [race_scan].
  - split; [reflexivity|]. exists []. split; [rewrite app_nil_r; reflexivity|]. intros _ i Hi. destruct Hi.
  - destruct (poll_direct_tr w i pid) as (u & Eu & Ec). destruct (poll_direct rst w i pid) as [w1 a]. cbn [fst] in Eu, Ec.
    assert (Hstop : forall x : option out, cs rst w1 = cs rst w /\ exists u0, tr rst w1 = tr rst w ++ u0 /\ (Some x = None -> forall j, In j (i :: rest) -> In (EC j (WPar pid)) u0)).
    { intros x. split; auto. exists (EC i (WPar pid) :: u). split; auto. discriminate. }
    destruct a as [|[v|e]|v| |]; try apply Hstop.
    all: specialize (IH w1 pid); destruct (race_scan w1 rest pid) as [w' r]; destruct IH as (Ec' & u' & Eu' & Hu');
      (split; [congruence|]); exists (EC i (WPar pid) :: u ++ u'); (split; [rewrite Eu', Eu, <- app_assoc; reflexivity|]);
      intros Hr j [<-|Hj]; [left; reflexivity|right; apply in_or_app; right; auto].
Qed.
Lemma in_rot n off i : i < n -> In i (rot n off).
Proof.
  intros Hi. unfold rot. apply in_map_iff. exists ((i + n - off mod n) mod n). split; [|apply in_seq; split; [lia|apply Nat.mod_upper_bound; lia]].
  assert (Hn : n <> 0) by lia. pose proof (Nat.mod_upper_bound off n Hn) as Ho.
  rewrite Nat.add_mod_idemp_l by auto.
  replace (i + n - off mod n + off) with (i + (off - off mod n) + 1 * n) by (pose proof (Nat.mod_le off n Hn); lia).
  rewrite Nat.mod_add by auto.
  rewrite (Nat.div_mod off n Hn) at 1. replace (n * (off / n) + off mod n - off mod n) with ((off / n) * n) by lia.
  rewrite Nat.mod_add by auto. apply Nat.mod_small. exact Hi.
Qed.
Theorem race_pending_polls_all (w: W rst) pid np : forall u, tr _ (race_poll w pid np) = tr _ w ++ EB pid :: u ++ [EEndP] ->
  forall i, i < r_n (cs _ w) -> In (EC i (WPar pid)) u.
Proof.
  intros u Hu i Hi. unfold race_poll, begin_p in Hu. cbn [cs emit set_np] in Hu.
  destruct (Nat.eqb_spec (r_n (cs rst w)) 0) as [E0|E0]; [lia|].
  match type of Hu with context[race_scan ?W ?L pid] => pose proof (race_scan_polls L W pid) as Hs; destruct (race_scan W L pid) as [w2 r] end.
  destruct Hs as (_ & u2 & Eu2 & Hall). cbn [tr set_cs emit set_np] in Eu2.
  destruct r as [[o|]|].
  - exfalso. unfold finish_p in Hu. cbn in Hu. rewrite Eu2 in Hu. rewrite <- !app_assoc in Hu. apply app_inv_head in Hu. cbn in Hu. inversion Hu as [Hx].
    assert (Hl : last (u2 ++ [EEndR o]) EEndP = last (u ++ [EEndP]) EEndP) by (rewrite Hx; reflexivity). rewrite !last_last in Hl. discriminate.
  - exfalso. unfold unwind_p in Hu. cbn in Hu. rewrite Eu2 in Hu. rewrite <- !app_assoc in Hu. apply app_inv_head in Hu. cbn in Hu. inversion Hu as [Hx].
    assert (Hl : last (u2 ++ ED :: drops_all (r_n (cs rst w)) ++ [EEndX]) EEndP = last (u ++ [EEndP]) EEndP) by (rewrite Hx; reflexivity).
    rewrite last_last in Hl. replace (u2 ++ ED :: drops_all (r_n (cs rst w)) ++ [EEndX]) with ((u2 ++ ED :: drops_all (r_n (cs rst w))) ++ [EEndX]) in Hl by (rewrite <- app_assoc; reflexivity).
    rewrite last_last in Hl. discriminate.
  - cbn in Hu. rewrite Eu2 in Hu. rewrite <- !app_assoc in Hu. apply app_inv_head in Hu. cbn in Hu. inversion Hu as [Hx].
    apply app_inj_tail in Hx as [Hx _]. subst u2. apply Hall; auto. apply in_rot. exact Hi.
Qed.

(* race_ok (all three algorithms): a poll that returns Pending has polled every child that has not failed *)
Lemma nth_upd_none (l: list (option nat)) i e j : nth j (upd l i (Some e)) None = None -> nth j l None = None.
Proof.
  revert i j. induction l as [|x l IH]; intros [|i] [|j]; cbn; auto; try discriminate. apply IH.
Qed.
Lemma rok_scan_polls is : forall (w: W kst) pid, let '(w', r) := rok_scan w is pid in
  (forall j, nth j (k_errs (cs _ w')) None = None -> nth j (k_errs (cs _ w)) None = None) /\
  exists u, tr _ w' = tr _ w ++ u /\ (r = None -> forall i, In i is -> nth i (k_errs (cs _ w')) None = None -> In (EC i (WPar pid)) u).
Proof.
  induction is as [|i rest IH]; intros w pid; cbn [rok_scan].
  - split; [auto|]. exists []. split; [rewrite app_nil_r; reflexivity|]. intros _ i Hi. destruct Hi.
  - destruct (nth i (k_errs (cs kst w)) None) as [e0|] eqn:Ei.
    + specialize (IH w pid). destruct (rok_scan w rest pid) as [w' r]. destruct IH as (Hm & u & Eu & Hu). split; [exact Hm|].
      exists u. split; [exact Eu|]. intros Hr j [<-|Hj] Hn; [apply Hm in Hn; congruence|auto].
    + destruct (poll_direct_tr w i pid) as (u & Eu & Ec). destruct (poll_direct kst w i pid) as [w1 a]. cbn [fst] in Eu, Ec.
      assert (Hkd : forall w1', fst (kdone w1 i) = w1' -> k_errs (cs kst w1') = k_errs (cs kst w1) /\ exists ud, tr kst w1' = tr kst w1 /\ snd (kdone w1 i) = ud).
      { intros w1' <-. unfold kdone. destruct (_ =? 2); cbn; eauto. }
      destruct a as [|[v|e]|v| |].
      * specialize (IH w1 pid). destruct (rok_scan w1 rest pid) as [w' r]. destruct IH as (Hm & u' & Eu' & Hu'). rewrite Ec in Hm. split; [exact Hm|].
        exists (EC i (WPar pid) :: u ++ u'). split; [rewrite Eu', Eu, <- app_assoc; reflexivity|].
        intros Hr j [<-|Hj] Hn; [left; reflexivity|right; apply in_or_app; right; auto].
      * destruct (kdone w1 i) as [w1' ed] eqn:Ek. destruct (Hkd w1' eq_refl) as (He & _ & Et & _).
        split; [cbn [cs emit]; rewrite He, Ec; auto|]. exists (EC i (WPar pid) :: u ++ ed). split; [cbn [tr emit]; rewrite Et, Eu, <- app_assoc; reflexivity|discriminate].
      * destruct (kdone w1 i) as [w1' ed] eqn:Ek. destruct (Hkd w1' eq_refl) as (He & _ & Et & _).
        match goal with |- context[rok_scan ?W rest pid] => specialize (IH W pid); destruct (rok_scan W rest pid) as [w' r] end.
        destruct IH as (Hm & u' & Eu' & Hu'). cbn [cs tr emit set_cs k_errs] in Hm, Eu'.
        split; [intros j Hj; apply Hm in Hj; apply nth_upd_none in Hj; rewrite He, Ec in Hj; exact Hj|].
        exists (EC i (WPar pid) :: u ++ ed ++ u'). split; [rewrite Eu', Et, Eu, <- !app_assoc; reflexivity|].
        intros Hr j [<-|Hj] Hn; [left; reflexivity|right; apply in_or_app; right; apply in_or_app; right; auto].
      * specialize (IH w1 pid). destruct (rok_scan w1 rest pid) as [w' r]. destruct IH as (Hm & u' & Eu' & Hu'). rewrite Ec in Hm. split; [exact Hm|].
        exists (EC i (WPar pid) :: u ++ u'). split; [rewrite Eu', Eu, <- app_assoc; reflexivity|].
        intros Hr j [<-|Hj] Hn; [left; reflexivity|right; apply in_or_app; right; auto].
      * specialize (IH w1 pid). destruct (rok_scan w1 rest pid) as [w' r]. destruct IH as (Hm & u' & Eu' & Hu'). rewrite Ec in Hm. split; [exact Hm|].
        exists (EC i (WPar pid) :: u ++ u'). split; [rewrite Eu', Eu, <- app_assoc; reflexivity|].
        intros Hr j [<-|Hj] Hn; [left; reflexivity|right; apply in_or_app; right; auto].
      * split; [rewrite Ec; auto|]. exists (EC i (WPar pid) :: u). split; [exact Eu|discriminate].
Qed.
Theorem race_ok_pending_polls_all (w: W kst) pid np : forall u, tr _ (rok_poll w pid np) = tr _ w ++ EB pid :: u ++ [EEndP] ->
  forall i, i < k_n (cs _ w) -> nth i (k_errs (cs _ (rok_poll w pid np))) None = None -> In (EC i (WPar pid)) u.
Proof.
  intros u Hu i Hi Hn. unfold rok_poll, begin_p in Hu, Hn. cbn [cs emit set_np] in Hu, Hn.
  match type of Hu with context[rok_scan ?W ?L pid] => pose proof (rok_scan_polls L W pid) as Hs; destruct (rok_scan W L pid) as [w2 r] end.
  destruct Hs as (_ & u2 & Eu2 & Hall).
  assert (Etr0 : forall w1, tr kst w1 = tr kst w ++ [EB pid] -> tr kst w2 = tr kst w1 ++ u2 -> tr kst w2 = tr kst w ++ EB pid :: u2)
    by (intros w1 A B; rewrite B, A, <- app_assoc; reflexivity).
  assert (Ein : In i (if k_kind (cs kst w) =? 1 then rot (k_n (cs kst w)) (k_off (cs kst w)) else seq 0 (k_n (cs kst w))))
    by (destruct (_ =? 1); [apply in_rot; exact Hi|apply in_seq; lia]).
  assert (Etr : tr kst w2 = tr kst w ++ EB pid :: u2).
  { destruct (k_kind (cs kst w) =? 1); (eapply Etr0; [|exact Eu2]); reflexivity. }
  destruct r as [[o|]|].
  - exfalso. unfold finish_p in Hu. cbn in Hu. rewrite Etr in Hu. rewrite <- !app_assoc in Hu. apply app_inv_head in Hu. cbn in Hu. inversion Hu as [Hx].
    assert (Hl : last (u2 ++ [EEndR o]) EEndP = last (u ++ [EEndP]) EEndP) by (rewrite Hx; reflexivity). rewrite !last_last in Hl. discriminate.
  - exfalso. unfold unwind_p in Hu. cbn in Hu. rewrite Etr in Hu. rewrite <- !app_assoc in Hu. apply app_inv_head in Hu. cbn in Hu. inversion Hu as [Hx].
    assert (Hl : last ((u2 ++ ED :: k_drops (cs kst w2)) ++ [EEndX]) EEndP = last (u ++ [EEndP]) EEndP) by (rewrite <- app_assoc; cbn; rewrite Hx; reflexivity).
    rewrite !last_last in Hl. discriminate.
  - cbv zeta in Hu, Hn. destruct (k_completed (cs kst w2) =? k_n (cs kst w2)).
    + exfalso. unfold finish_p in Hu. cbn in Hu. rewrite Etr in Hu. rewrite <- !app_assoc in Hu. apply app_inv_head in Hu. cbn in Hu. inversion Hu as [Hx].
      match type of Hx with ?a ++ [?e] = _ => assert (Hl : last (a ++ [e]) EEndP = last (u ++ [EEndP]) EEndP) by (rewrite Hx; reflexivity) end.
      rewrite !last_last in Hl. discriminate.
    + cbn in Hu, Hn. rewrite Etr in Hu. rewrite <- !app_assoc in Hu. apply app_inv_head in Hu. cbn in Hu. inversion Hu as [Hx].
      apply app_inj_tail in Hx as [Hx _]. subst u2. apply Hall; auto.
Qed.
