From Coq Require Import List Arith Lia Bool.
Import ListNotations.
Require Import ScanFull InstsFull ObligJoin ObligGroups C04Join C11Groups.

(* C04 + C05 (+ the join-family part of C03) on the observable trace: join and try_join, slice and tuple variants,
   any child answers, any history, both waker strategies. *)
Definition okl (i: nat) (P: list (nat * ans)) : list nat :=
  flat_map (fun p => if fst p =? i then match snd p with AReady (ROk v) => [v] | _ => [] end else []) P.
Definition errs (P: list (nat * ans)) : list nat :=
  flat_map (fun p => match snd p with AReady (RErr e) => [e] | _ => [] end) P.
Definition itl (o: option nat) : list nat := match o with Some v => [v] | None => [] end.
Lemma okl_app i a b : okl i (a ++ b) = okl i a ++ okl i b. Proof. apply flat_map_app. Qed.
Lemma errs_app a b : errs (a ++ b) = errs a ++ errs b. Proof. apply flat_map_app. Qed.

Section C05.
  Variables (tryj tuple: bool) (n: nat).

  Definition Okres (o: out) (P: list (nat * ans)) : Prop :=
    match o with
    | OVals vs => tryj = false /\ errs P = [] /\ length vs = n /\ forall i, i < n -> okl i P = [nth i vs 0]
    | OOk vs => tryj = true /\ errs P = [] /\ length vs = n /\ forall i, i < n -> okl i P = [nth i vs 0]
    | OErr e => exists P0 i, P = P0 ++ [(i, AReady (RErr e))] /\ errs P0 = []
    | _ => False
    end.
  Definition slot_ok (s: jst) (P: list (nat * ans)) (i: nat) : Prop :=
    okl i P = itl (nth i (items s) None) /\
    ((nth i (pst s) PNone = PPending /\ nth i (items s) None = None) \/ (nth i (pst s) PNone = PReady /\ exists v, nth i (items s) None = Some v)).
  Definition Base (s: jst) := j_try s = tryj /\ j_tup s = tuple /\ j_Q s.
  Definition Live (s: jst) (t: list ev) : Prop :=
    j_consumed s = false /\ length (pst s) = n /\ length (items s) = n /\
    (forall i, i < n -> slot_ok s (polls_from 0 t) i) /\ errs (polls_from 0 t) = [] /\ results t = [].
  Definition Fin (s: jst) (t: list ev) : Prop :=
    j_consumed s = true /\ exists o, results t = [o] /\ Okres o (polls_from 0 t).
  Definition Tj (s: jst) (t: list ev) := Base s /\ (Live s t \/ Fin s t).
  Definition Uj (s: jst) (t: list ev) := Base s /\ Live s t.

  Lemma results_seg t i w a u : results (t ++ EC i w :: EAns a :: u) = results t ++ results u.
  Proof. rewrite results_app. reflexivity. Qed.

  Lemma j_handle_cases s i a :
    match a with
    | AReady (ROk v) =>
        let s' := {| j_try := j_try s; j_tup := j_tup s; j_consumed := j_consumed s; pending := pending s - 1; items := upd (items s) i (Some v); pst := upd (pst s) i PReady |} in
        j_handle s i a = if j_tup s && (pending s - 1 =? 0) then (j_reset s', Stop RNone (j_out s'), [EDc i]) else (s', Cont, [EDc i])
    | AReady (RErr e) =>
        j_handle s i a = ({| j_try := j_try s; j_tup := j_tup s; j_consumed := true; pending := pending s - 1; items := items s; pst := upd (pst s) i PNone |}, Stop RNone (OErr e), [EDc i])
    | APanic => j_handle s i a = (s, Abort, [])
    | _ => j_handle s i a = (s, Cont, [])
    end.
  Proof. destruct a as [|[v|e]|v| |]; reflexivity. Qed.

  (* a poll that changes nothing in the state and whose answer is neither Ok nor Err *)
  Lemma Live_idle s t i w a : Live s t -> (forall v, a <> AReady (ROk v)) -> (forall e, a <> AReady (RErr e)) ->
    Live s (t ++ EC i w :: EAns a :: []).
  Proof.
    intros (Hc & Hlp & Hli & Hsl & He & Hr) Hnv Hne.
    assert (Hp : polls_from 0 (t ++ [EC i w; EAns a]) = polls_from 0 t ++ [(i, a)]) by (rewrite polls_from_app; reflexivity).
    split; [auto|]. split; [auto|]. split; [auto|]. split; [|split].
    - intros j Hj. destruct (Hsl j Hj) as [A B]. split; [|exact B]. rewrite Hp, okl_app, A. cbn.
      destruct (i =? j); [|apply app_nil_r].
      destruct a as [|[v|e]|v| |]; cbn; rewrite ?app_nil_r; auto. exfalso; eapply Hnv; eauto.
    - rewrite Hp, errs_app, He. cbn. destruct a as [|[v|e]|v| |]; auto. exfalso; eapply Hne; eauto.
    - rewrite results_seg, Hr. reflexivity.
  Qed.
  Lemma polls_endp t : polls_from 0 (t ++ [EEndP]) = polls_from 0 t.
  Proof. apply polls_from_tail. intros e' [<-|[]]. exact I. Qed.
  Lemma results_endp t : results (t ++ [EEndP]) = results t.
  Proof. rewrite results_app. apply app_nil_r. Qed.
  Lemma Live_endp s t : Live s t -> Live s (t ++ [EEndP]).
  Proof.
    intros (Hc & Hlp & Hli & Hsl & He & Hr).
    split; [auto|]. split; [auto|]. split; [auto|]. rewrite polls_endp, results_endp. auto.
  Qed.
  Lemma Fin_endp s t : Fin s t -> Fin s (t ++ [EEndP]).
  Proof. intros (Hc & o & Hr & Ho). split; auto. exists o. rewrite polls_endp, results_endp. auto. Qed.

  (* everything has completed: the result is the positional vector of the children's own values *)
  Lemma complete_ok s P : j_try s = tryj -> length (pst s) = n -> length (items s) = n -> j_Q s -> pending s = 0 ->
    (forall i, i < n -> slot_ok s P i) -> errs P = [] -> Okres (j_out s) P.
  Proof.
    intros Ht Hlp Hli HQ Hp Hsl He.
    assert (Hall : forall i, i < n -> exists v, nth i (items s) None = Some v).
    { intros i Hi. destruct (Hsl i Hi) as [_ [[A _]|[_ B]]]; auto.
      assert (Hz : count_pending (pst s) = 0) by (unfold j_Q in HQ; rewrite <- HQ; exact Hp).
      pose proof (count0_nth (pst s) i Hz) as X. rewrite A in X. discriminate. }
    destruct (all_vals_some (items s)) as [HL HN]; [intros i Hi; apply Hall; lia|].
    assert (Hv : forall i, i < n -> okl i P = [nth i (all_vals (items s)) 0]).
    { intros i Hi. destruct (Hsl i Hi) as [A _]. rewrite A, HN by lia. reflexivity. }
    unfold j_out. rewrite Ht. destruct tryj eqn:Etry; unfold Okres; cbv iota beta; (split; [exact Etry|]; split; [exact He|]; split; [lia|exact Hv]).
  Qed.

  Lemma aw_pending s i : j_awaited s i = true -> nth i (pst s) PNone = PPending.
  Proof. intros H. apply (aw_in_range s i H). Qed.

  (* child i (awaited) answered Ok v and is stored *)
  Lemma Live_store s t i (w: wk) v :
    let s' := {| j_try := j_try s; j_tup := j_tup s; j_consumed := j_consumed s; pending := pending s - 1; items := upd (items s) i (Some v); pst := upd (pst s) i PReady |} in
    Live s t -> i < n -> nth i (pst s) PNone = PPending ->
    j_consumed s' = false /\ length (pst s') = n /\ length (items s') = n /\
    (forall j, j < n -> slot_ok s' (polls_from 0 t ++ [(i, AReady (ROk v))]) j) /\ errs (polls_from 0 t ++ [(i, AReady (ROk v))]) = [].
  Proof.
    intros s' (Hc & Hlp & Hli & Hsl & He & Hr) Hi Hpi.
    split; [exact Hc|]. split; [cbn; rewrite upd_length; auto|]. split; [cbn; rewrite upd_length; auto|]. split.
    - intros j Hj. destruct (Hsl j Hj) as [A B]. unfold slot_ok. cbn [items pst s']. rewrite okl_app, A. cbn.
      destruct (Nat.eqb_spec i j) as [<-|Hne].
      + rewrite !nth_upd_same by lia. destruct B as [[_ B]|[B _]]; [|congruence]. rewrite B. cbn. split; auto. right. eauto.
      + rewrite !nth_upd_other by auto. rewrite app_nil_r. auto.
    - rewrite errs_app, He. reflexivity.
  Qed.

  Lemma Uj_cont : forall s t i a s' eh wkr, Uj s t -> j_awaited s i = true -> i < j_slots s ->
    j_handle s i a = (s', Cont, eh) -> Uj s' (t ++ EC i wkr :: EAns a :: strip eh).
  Proof.
    intros s t i a s' eh wkr [[Bt [Bu BQ]] HL] Ha Hi Hh.
    pose proof (J9 s i a BQ Ha Hi) as HQ'. rewrite Hh in HQ'. cbn [fst] in HQ'.
    assert (Hin : i < n) by (destruct HL as (_ & Hlp & _); unfold j_slots in Hi; lia).
    pose proof (j_handle_cases s i a) as Hc.
    destruct a as [|[v|e]|v| |]; cbn zeta in Hc; rewrite Hc in Hh.
    - inversion Hh; subst. split; [split; auto|]. apply Live_idle; auto; discriminate.
    - destruct (j_tup s && (pending s - 1 =? 0)); inversion Hh; subst; clear Hh.
      split; [split; auto|].
      destruct (Live_store s t i wkr v HL Hin (aw_pending s i Ha)) as (A & B & C & D & E).
      assert (Hp : polls_from 0 (t ++ EC i wkr :: EAns (AReady (ROk v)) :: strip [EDc i]) = polls_from 0 t ++ [(i, AReady (ROk v))])
        by (rewrite polls_from_app; reflexivity).
      split; [exact A|]. split; [exact B|]. split; [exact C|]. rewrite Hp. split; [exact D|]. split; [exact E|].
      rewrite results_seg. cbn. rewrite app_nil_r. apply HL.
    - discriminate.
    - inversion Hh; subst. split; [split; auto|]. apply Live_idle; auto; discriminate.
    - inversion Hh; subst. split; [split; auto|]. apply Live_idle; auto; discriminate.
    - discriminate.
  Qed.

  Lemma Uj_stop : forall s t i a s' r o eh wkr, Uj s t -> j_awaited s i = true -> i < j_slots s ->
    j_handle s i a = (s', Stop r o, eh) -> Tj s' (t ++ EC i wkr :: EAns a :: strip eh ++ [EEndR o]).
  Proof.
    intros s t i a s' r o eh wkr [[Bt [Bu BQ]] HL] Ha Hi Hh.
    pose proof (J9 s i a BQ Ha Hi) as HQ'. rewrite Hh in HQ'. cbn [fst] in HQ'.
    assert (Hin : i < n) by (destruct HL as (_ & Hlp & _); unfold j_slots in Hi; lia).
    pose proof (j_handle_cases s i a) as Hc.
    destruct a as [|[v|e]|v| |]; cbn zeta in Hc; rewrite Hc in Hh; try discriminate.
    - (* the last child of a tuple join completed *)
      destruct (j_tup s && (pending s - 1 =? 0)) eqn:Elast; inversion Hh; subst; clear Hh.
      apply andb_true_iff in Elast as [_ Ez]. apply Nat.eqb_eq in Ez.
      destruct (Live_store s t i wkr v HL Hin (aw_pending s i Ha)) as (A & B & C & D & E).
      set (s1 := {| j_try := j_try s; j_tup := j_tup s; j_consumed := j_consumed s; pending := pending s - 1; items := upd (items s) i (Some v); pst := upd (pst s) i PReady |}) in *.
      assert (HQ1 : j_Q s1).
      { unfold j_Q in *. unfold s1. cbn [pending pst]. destruct (count_upd (pst s) i PReady) as [Y _]; [unfold j_slots in Hi; auto|apply aw_pending; auto|reflexivity|].
        rewrite Y, <- BQ. reflexivity. }
      split; [split; [exact Bt|split; [exact Bu|exact HQ']]|]. right. split; [reflexivity|].
      exists (j_out s1). split.
      + rewrite results_app. cbn. destruct HL as (_ & _ & _ & _ & _ & Hr). rewrite Hr. reflexivity.
      + assert (Hp : polls_from 0 (t ++ EC i wkr :: EAns (AReady (ROk v)) :: strip [EDc i] ++ [EEndR (j_out s1)]) = polls_from 0 t ++ [(i, AReady (ROk v))])
          by (rewrite polls_from_app; reflexivity).
        rewrite Hp. apply (complete_ok s1); auto.
    - (* a child failed *)
      inversion Hh; subst; clear Hh.
      split; [split; [exact Bt|split; [exact Bu|exact HQ']]|]. right. split; [reflexivity|].
      exists (OErr e). split.
      + rewrite results_app. cbn. destruct HL as (_ & _ & _ & _ & _ & Hr). rewrite Hr. reflexivity.
      + assert (Hp : polls_from 0 (t ++ EC i wkr :: EAns (AReady (RErr e)) :: strip [EDc i] ++ [EEndR (OErr e)]) = polls_from 0 t ++ [(i, AReady (RErr e))])
          by (rewrite polls_from_app; reflexivity).
        rewrite Hp. exists (polls_from 0 t), i. split; auto. apply HL.
  Qed.
End C05.

Section C05b.
  Variables (tryj tuple: bool) (n: nat).
  Notation Tj := (Tj tryj tuple n). Notation Uj := (Uj tryj tuple n).
  Lemma Tj_order : forall s is s1 t, j_order s = Some (is, s1) -> Tj s t -> Uj s1 t.
  Proof.
    intros s is s1 t E [HB [HL|[Hc _]]]; unfold j_order in E.
    - destruct (j_consumed s); [discriminate|]. inversion E; subst. split; auto.
    - rewrite Hc in E. discriminate.
  Qed.
  Lemma Uj_finish : forall s t, Uj s t ->
    match snd (j_finish s) with Some o => Tj (fst (j_finish s)) (t ++ [EEndR o]) | None => Tj (fst (j_finish s)) (t ++ [EEndP]) end.
  Proof.
    intros s t [[Bt [Bu BQ]] HL]. pose proof (J17 s BQ) as HQ'. unfold j_finish in *.
    destruct (negb (j_consumed s) && negb (j_tup s) && (pending s =? 0)) eqn:E; cbn [fst snd] in *.
    - apply andb_true_iff in E as [_ Ez]. apply Nat.eqb_eq in Ez.
      split; [split; [exact Bt|split; [exact Bu|exact HQ']]|]. right. split; [reflexivity|].
      destruct HL as (Hc & Hlp & Hli & Hsl & He & Hr).
      exists (j_out s). split; [rewrite results_app, Hr; reflexivity|].
      assert (Hp : polls_from 0 (t ++ [EEndR (j_out s)]) = polls_from 0 t) by (apply polls_from_tail; intros e' [<-|[]]; exact I).
      rewrite Hp. apply (complete_ok tryj n s); auto.
    - split; [split; auto|]. left. apply Live_endp. exact HL.
  Qed.
  Lemma Tj_endp : forall s t, Tj s t -> Tj s (t ++ [EEndP]).
  Proof. intros s t [HB [HL|HF]]; split; auto; [left; apply Live_endp|right; apply Fin_endp]; auto. Qed.
  Lemma Uj_endp : forall s t, Uj s t -> Tj s (t ++ [EEndP]).
  Proof. intros s t [HB HL]. split; auto. left. apply Live_endp; auto. Qed.
  Lemma Tj_Q : forall s t, Tj s t -> j_Q s. Proof. intros s t [[_ [_ H]] _]. exact H. Qed.
  Lemma Uj_Q : forall s t, Uj s t -> j_Q s. Proof. intros s t [[_ [_ H]] _]. exact H. Qed.
End C05b.

Definition join_run' (selective tryj tuple: bool) (scs: list (list step)) (ops: list op) :=
  let n := length scs in
  run_ops jst j_slots j_awaited (fun _ i => i) j_handle tuple tuple j_order (fun _ => None) j_pre_any j_finish (fun s => s) j_drop (fun _ => true)
    (@no_mut jst) (mk_world {| j_try := tryj; j_tup := tuple; j_consumed := false; pending := n; items := repeat None n; pst := repeat PPending n |} selective n scs) ops.

Lemma count_pending_repeat n : count_pending (repeat PPending n) = n.
Proof. unfold count_pending. induction n; cbn; auto. Qed.

(* C04 / C05: at any point of any history (until the combinator is dropped) join / try_join has returned nothing yet, or exactly one
   result, and that result is: the positional vector of the values the children themselves answered (each child answered exactly
   one value, nobody failed), or the error of the child whose failure was the last child poll ever made, no child having failed before. *)
Theorem C05_join selective tryj tuple scs ops : let n := length scs in let w := join_run' selective tryj tuple scs ops in
  dropped _ w = false ->
  let t := strip (tr _ w) in
  results t = [] \/ exists o, results t = [o] /\ Okres tryj n o (polls_from 0 t).
Proof.
  intros n w Hd t.
  assert (H : Tj tryj tuple n (cs _ w) t).
  { apply (TW_run jst j_slots j_awaited (fun _ i => i) j_handle tuple tuple j_order (fun _ => None) j_pre_any j_finish (fun s => s) j_drop (fun _ => true)
             j_Q J1 J8 J9 J10 J12 (@no_mut jst) (Tj tryj tuple n) (Uj tryj tuple n)
             (Uj_cont tryj tuple n) (Uj_stop tryj tuple n) (fun s is s1 t _ => Tj_order tryj tuple n s is s1 t) (Uj_finish tryj tuple n)
             (fun s t o _ (E: None = Some o) => match E with eq_refl => I end) (fun s t _ _ => Tj_endp tryj tuple n s t) (fun _ => Uj_endp tryj tuple n)
             (Tj_Q tryj tuple n) (Uj_Q tryj tuple n) (fun w _ _ _ _ H _ => H) ops); [|exact Hd].
    intros _. cbn. split; [split; [reflexivity|split; [reflexivity|]]|].
    - unfold j_Q. cbn [pending pst cs mk_world]. rewrite count_pending_repeat. reflexivity.
    - left. split; [reflexivity|]. cbn. rewrite !repeat_length. split; [reflexivity|]. split; [reflexivity|]. split; [|split; reflexivity].
      intros i Hi. unfold slot_ok. cbn. rewrite !repeat_nth by auto. split; [reflexivity|]. left. auto. }
  destruct H as [_ [HL|(_ & o & Hr & Ho)]]; [left; apply HL|right; eauto].
Qed.
