From Coq Require Import List Arith Lia Bool.
Import ListNotations.
Require Import ScanFull InstsFull ObligJoin.

(* C04 on the executable join instance: every result ever returned by join (slice or tuple variant) is the
   positional vector of its children's outputs, whatever the completion order and the history. *)
Fixpoint first_ready (l: list step) : option nat :=
  match l with
  | [] => None
  | r :: rest => match answer r with AReady (ROk v) => Some v | APend => first_ready rest | _ => None end
  end.
Definition all_pend (l: list step) := Forall (fun r => answer r = APend) l.
Lemma first_ready_app_pend pre l : all_pend pre -> first_ready (pre ++ l) = first_ready l.
Proof. induction 1 as [|r pre Hr _ IH]; cbn; auto. rewrite Hr. exact IH. Qed.
Definition fut_script (l: list step) := Forall (fun r => answer r = APend \/ exists v, answer r = AReady (ROk v)) l.

Lemma all_vals_some (its: list (option nat)) :
  (forall i, i < length its -> exists v, nth i its None = Some v) ->
  length (all_vals its) = length its /\ forall i, i < length its -> nth i its None = Some (nth i (all_vals its) 0).
Proof.
  induction its as [|o its IH]; intros H.
  - split; auto. intros i Hi. cbn in Hi. lia.
  - destruct (H 0) as [v Hv]; [cbn; lia|]. cbn in Hv. subst o.
    destruct IH as [IL IN]. { intros i Hi. apply (H (S i)). cbn; lia. }
    unfold all_vals in *. cbn [flat_map app length]. split; [lia|].
    intros [|i] Hi; [reflexivity|]. cbn [nth]. apply IN. cbn in Hi. lia.
Qed.

Section C04.
  Variable tuple : bool.
  Variable n : nat.
  Variable sc0 : list (list step).
  Hypothesis sc0_fut : forall i, fut_script (nth i sc0 []).

  Definition slot_ok (s: jst) (sc: list (list step)) (i: nat) : Prop :=
    match nth i (pst s) PNone with
    | PPending => nth i (items s) None = None /\ exists pre, nth i sc0 [] = pre ++ nth i sc [] /\ all_pend pre
    | PReady => exists pre fs v rest, nth i sc0 [] = pre ++ {| fires := fs; answer := AReady (ROk v) |} :: rest
                                      /\ all_pend pre /\ nth i (items s) None = Some v
    | PNone => False
    end.
  Definition Pmain (s: jst) (sc: list (list step)) := forall i, i < n -> slot_ok s sc i.
  Definition P (s: jst) (sc: list (list step)) : Prop :=
    j_tup s = tuple /\ j_try s = false /\ length (pst s) = n /\ length (items s) = n /\ j_Q s /\
    (j_consumed s = false -> Pmain s sc) /\ (j_consumed s = true -> forall i, nth i (pst s) PNone = PNone).
  Definition Good (o: out) : Prop :=
    exists vs, o = OVals vs /\ length vs = n /\ forall i, i < n -> first_ready (nth i sc0 []) = Some (nth i vs 0).

  Lemma complete_good s sc : length (pst s) = n -> length (items s) = n -> j_Q s -> Pmain s sc -> pending s = 0 ->
    Good (OVals (all_vals (items s))).
  Proof.
    intros Hls Hli HQ Hall Hp.
    assert (Hready : forall i, i < n -> exists pre fs v rest, nth i sc0 [] = pre ++ {| fires := fs; answer := AReady (ROk v) |} :: rest /\ all_pend pre /\ nth i (items s) None = Some v).
    { intros i Hi. specialize (Hall i Hi). unfold slot_ok in Hall.
      pose proof (count0_nth (pst s) i ltac:(unfold j_Q in HQ; lia)) as Hc.
      destruct (nth i (pst s) PNone); try contradiction; try discriminate. exact Hall. }
    destruct (all_vals_some (items s)) as [HL HN].
    { intros i Hi. destruct (Hready i ltac:(lia)) as (_ & _ & v & _ & _ & _ & Hv). eauto. }
    exists (all_vals (items s)). split; [reflexivity|]. split; [lia|].
    intros i Hi. destruct (Hready i Hi) as (pre & fs & v & rest & Hsc & Hpp & Hv).
    rewrite Hsc, first_ready_app_pend by auto. cbn. rewrite HN in Hv by lia. congruence.
  Qed.

  (* the popped step of an awaited slot, and what it does to Pmain *)
  Definition popped (sc: list (list step)) (m: nat) : step * list (list step) :=
    match nth m sc [] with [] => ({| fires := []; answer := APend |}, sc) | x :: rest => (x, upd sc m rest) end.
  Lemma nth_upd_same_sc (sc: list (list step)) i rest : nth i sc [] <> [] -> nth i (upd sc i rest) [] = rest.
  Proof. intros H. apply nth_upd_same. destruct (Nat.lt_ge_cases i (length sc)); auto. rewrite nth_overflow in H by auto. congruence. Qed.

  Lemma pop_cases s sc i stp sc' : length (pst s) = n -> length (items s) = n -> Pmain s sc -> i < n -> nth i (pst s) PNone = PPending -> (stp, sc') = popped sc i ->
    (answer stp = APend /\ Pmain s sc') \/
    (exists v, answer stp = AReady (ROk v) /\
       forall p c, p = pending s - 1 ->
         Pmain {| j_try := j_try s; j_tup := j_tup s; j_consumed := c; pending := p; items := upd (items s) i (Some v); pst := upd (pst s) i PReady |} sc').
  Proof.
    intros Hls Hli Hall Hi Hpi Hpop. unfold popped in Hpop.
    pose proof (Hall i Hi) as Hsi. unfold slot_ok in Hsi. rewrite Hpi in Hsi. destruct Hsi as (Hit & pre & Hpre & Hpp).
    destruct (nth i sc []) as [|x rest] eqn:Esc.
    - inversion Hpop; subst. left. split; auto.
    - inversion Hpop; subst stp sc'. clear Hpop.
      assert (Hx : answer x = APend \/ exists v, answer x = AReady (ROk v)).
      { pose proof (sc0_fut i) as Hf. rewrite Hpre in Hf. unfold fut_script in Hf. apply Forall_app in Hf as [_ Hf]. inversion Hf; auto. }
      assert (Hne : nth i sc [] <> []) by (rewrite Esc; discriminate).
      destruct Hx as [Hx|[v Hx]].
      + left. split; auto. intros j Hj. specialize (Hall j Hj). unfold slot_ok in *.
        destruct (Nat.eq_dec i j) as [->|Hne'].
        * rewrite Hpi in *. split; auto. exists (pre ++ [x]). rewrite nth_upd_same_sc by auto.
          split; [rewrite <- app_assoc; cbn; congruence | apply Forall_app; split; auto].
        * destruct (nth j (pst s) PNone); auto. rewrite nth_upd_other by auto. exact Hall.
      + right. exists v. split; auto. intros p c ->. intros j Hj. specialize (Hall j Hj). unfold slot_ok in *. cbn.
        destruct (Nat.eq_dec i j) as [->|Hne'].
        * rewrite nth_upd_same by lia.
          destruct x as [fs ans]; cbn in Hx; subst ans. exists pre, fs, v, rest.
          rewrite nth_upd_same by lia.
          repeat split; auto; congruence.
        * rewrite (nth_upd_other _ i j) by auto. destruct (nth j (pst s) PNone) eqn:Esj; auto.
          -- rewrite !nth_upd_other by auto. exact Hall.
          -- rewrite nth_upd_other by auto. exact Hall.
  Qed.

  Lemma P_consumed_false s sc i : P s sc -> j_awaited s i = true -> j_consumed s = false.
  Proof.
    intros (_ & _ & _ & _ & _ & _ & Hc) Ha. destruct (j_consumed s) eqn:E; auto.
    unfold j_awaited in Ha. rewrite (Hc eq_refl i) in Ha. discriminate.
  Qed.

  Lemma P_handle : forall s sc i stp sc', j_awaited s i = true -> i < j_slots s -> (stp, sc') = popped sc i ->
      P s sc -> P (fst (fst (j_handle s i (answer stp)))) sc'.
  Proof.
    intros s sc i stp sc' Ha Hi Hpop HP.
    pose proof (P_consumed_false s sc i HP Ha) as Hcf.
    pose proof (J9 s i (answer stp)) as HJ9.
    destruct HP as (Ht & Hy & Hls & Hli & HQ & Hm & Hc).
    destruct (aw_in_range s i Ha) as [Hi' Hpi]. unfold j_slots in Hi'.
    destruct (pop_cases s sc i stp sc' Hls Hli (Hm Hcf) ltac:(lia) Hpi Hpop) as [[Hp Hm']|(v & Hv & Hm')].
    - rewrite Hp. cbn. repeat split; auto; try (intros; congruence).
    - specialize (HJ9 HQ Ha Hi). rewrite Hv in *. cbn in *.
      destruct (j_tup s && (pending s - 1 =? 0)); cbn in *.
      + repeat split; cbn; rewrite ?map_length, ?upd_length; auto; try discriminate; try (intros _ k; apply nth_map_none).
      + repeat split; cbn; rewrite ?upd_length; auto; try (intros _; apply Hm'; reflexivity); try (intros; congruence).
  Qed.
  Lemma P_order s is s1 sc : j_order s = Some (is, s1) -> P s sc -> P s1 sc.
  Proof. intros E H. destruct (j_order_some _ _ _ E) as [_ ->]. exact H. Qed.
  Lemma P_finish s sc : P s sc -> P (fst (j_finish s)) sc.
  Proof.
    intros HP. pose proof (J17 s) as H17. unfold j_finish in *.
    destruct (negb (j_consumed s) && negb (j_tup s) && (pending s =? 0)); cbn in *; auto.
    destruct HP as (Ht & Hy & Hls & Hli & HQ & Hm & Hc).
    repeat split; cbn; rewrite ?map_length; auto; try discriminate; try (intros _ k; apply nth_map_none).
  Qed.
  Lemma P_Q s sc : P s sc -> j_Q s. Proof. intros H; apply H. Qed.

  Lemma good_finish s sc s' o : P s sc -> j_finish s = (s', Some o) -> Good o.
  Proof.
    intros (Ht & Hy & Hls & Hli & HQ & Hm & Hc) E. unfold j_finish in E.
    destruct (negb (j_consumed s) && negb (j_tup s) && (pending s =? 0)) eqn:Ec; [|discriminate].
    inversion E; subst. apply andb_true_iff in Ec as [Ec Ep]. apply andb_true_iff in Ec as [Ec _].
    apply negb_true_iff in Ec. apply Nat.eqb_eq in Ep. unfold j_out. rewrite Hy.
    eapply complete_good; eauto.
  Qed.
  Lemma good_stop s sc i stp sc' s' r o e : j_awaited s i = true -> i < j_slots s -> (stp, sc') = popped sc i ->
      P s sc -> j_handle s i (answer stp) = (s', Stop r o, e) -> Good o.
  Proof.
    intros Ha Hi Hpop HP E.
    pose proof (P_consumed_false s sc i HP Ha) as Hcf.
    destruct HP as (Ht & Hy & Hls & Hli & HQ & Hm & Hc).
    destruct (aw_in_range s i Ha) as [Hi' Hpi]. unfold j_slots in Hi'.
    destruct (pop_cases s sc i stp sc' Hls Hli (Hm Hcf) ltac:(lia) Hpi Hpop) as [[Hp Hm']|(v & Hv & Hm')].
    - rewrite Hp in E. cbn in E. discriminate.
    - rewrite Hv in E. cbn in E. destruct (j_tup s && (pending s - 1 =? 0)) eqn:Ec; [|discriminate].
      inversion E; subst. apply andb_true_iff in Ec as [_ Ep]. apply Nat.eqb_eq in Ep.
      unfold j_out; cbn [j_try]. rewrite Hy.
      destruct (count_upd (pst s) i PReady Hi' Hpi eq_refl) as [Ecu _].
      eapply (complete_good _ sc'); cbn [pst items pending]; rewrite ?upd_length; eauto.
      + unfold j_Q in *; cbn [pst pending]. unfold count_pending in *. lia.
      + rewrite <- Hy. apply Hm'. reflexivity.
  Qed.
  Lemma drop_vals_noend ps its o : ~ In (EEndR o) (drop_vals ps its).
  Proof.
    revert its. induction ps as [|p ps IH]; intros [|[v|] its]; cbn; try tauto; destruct p; cbn; try apply IH; try tauto.
    intros [H|H]; [discriminate|]. eapply IH; eauto.
  Qed.
  Lemma drop_futs_noend ps k o : ~ In (EEndR o) (drop_futs ps k).
  Proof. revert k. induction ps as [|p ps IH]; intros k; cbn; try tauto. destruct p; cbn; try apply IH. intros [H|H]; [discriminate|]. eapply IH; eauto. Qed.
  Lemma handle_noend s i a o : ~ In (EEndR o) (snd (j_handle s i a)).
  Proof.
    destruct a as [|[v|er]| | |]; cbn; try tauto.
    - destruct (j_tup s && _); cbn; intros [H|[]]; discriminate.
    - intros [H|[]]; discriminate.
  Qed.
  Lemma drop_noend s o : ~ In (EEndR o) (j_drop s).
  Proof. unfold j_drop. intros H. apply in_app_or in H as [H|H]; [eapply drop_vals_noend | eapply drop_futs_noend]; eauto. Qed.
End C04.

(* ---- the theorem over histories ---- *)
Definition jW := world jst.
Definition PWj tuple n sc0 (w: jW) := P tuple n sc0 (cs _ w) (scripts _ w).
Definition GTj n sc0 (w: jW) := GoodTr jst (Good n sc0) w.

Theorem C04_join (tuple: bool) (scs: list (list step)) (ops: list op) :
  (forall i, fut_script (nth i scs [])) ->
  forall o, In (EEndR o) (tr _ (join_run tuple false scs ops)) -> Good (length scs) scs o.
Proof.
  intros Hfut. set (n := length scs).
  assert (Hstep : forall w o', PWj tuple n scs w -> GTj n scs w ->
            let w' := step_op jst j_slots j_awaited (fun _ i => i) j_handle tuple tuple j_order (fun _ => None) j_pre_any j_finish (fun s => s) j_drop (fun _ => true) (jmut) w o' in
            PWj tuple n scs w' /\ GTj n scs w').
  { intros w o' HP HG. destruct o' as [| |c k| |m a sc]; cbn [step_op].
    1,2: destruct (finished jst w || dropped jst w); [split; auto|]; split;
      [ apply (poll_P jst j_slots j_awaited (fun _ i => i) j_handle tuple tuple j_order (fun _ => None) j_pre_any j_finish (fun s => s) j_drop (fun _ => true) j_Q
                 J1 J8 J10 J12 (P tuple n scs) (P_handle tuple n scs Hfut) (P_order tuple n scs) (P_finish tuple n scs) (fun _ _ H => H) (P_Q tuple n scs)); exact HP
      | apply (poll_G jst j_slots j_awaited (fun _ i => i) j_handle tuple tuple j_order (fun _ => None) j_pre_any j_finish (fun s => s) j_drop (fun _ => true) j_Q
                 J1 J8 J10 J12 (P tuple n scs) (P_handle tuple n scs Hfut) (P_order tuple n scs) (P_Q tuple n scs) (Good n scs)
                 (fun _ _ _ _ E => match E with end) (good_finish tuple n scs) (good_stop tuple n scs Hfut) handle_noend drop_noend); assumption ].
    - (* fire *)
      destruct (fire_handle_pass jst j_slots (emit jst w [EO]) c k) as [Hc Hs]. split.
      + unfold PWj. rewrite Hc, Hs. exact HP.
      + apply fire_handle_tr. apply GoodTr_emit; auto. intros o [H|[]]; discriminate.
    - (* drop *)
      destruct (dropped jst w); split; try exact HP; unfold GTj.
      + apply GoodTr_emit; auto. intros o [H|[]]; discriminate.
      + apply GoodTr_emit; auto. intros o [H|H]; [discriminate|]. exfalso. eapply drop_noend; eauto.
    - destruct (dropped jst w); split; auto. }
  assert (Hrun : forall ops w, PWj tuple n scs w -> GTj n scs w ->
            GTj n scs (run_ops jst j_slots j_awaited (fun _ i => i) j_handle tuple tuple j_order (fun _ => None) j_pre_any j_finish (fun s => s) j_drop (fun _ => true) jmut w ops)).
  { induction ops0 as [|o' r IH]; intros w HP HG; cbn; auto. destruct (Hstep w o' HP HG) as [HP' HG']. apply IH; auto. }
  intros o Ho. eapply Hrun; [| |exact Ho].
  - (* the initial state satisfies P *)
    unfold PWj, P, mk_world; cbn. rewrite !repeat_length. repeat split; auto.
    + unfold j_Q; cbn [pending pst]. rewrite count_repeat_pending. reflexivity.
    + intros _ i Hi. unfold slot_ok; cbn. rewrite !repeat_nth by auto. split; auto. exists []. split; auto. constructor.
    + discriminate.
  - intros o' [].
Qed.
