From Coq Require Import List Arith Lia Bool.
Import ListNotations.
Require Import ScanFull InstsFull ObligMZ.

(* C08 for merge (array / Vec / tuple share this model), post-fix semantics for zero inputs (pre_exit). *)
Definition is_item (a: ans) : list nat := match a with AItem v => [v] | _ => [] end.
Definition is_end (a: ans) : bool := match a with AEnd => true | _ => false end.
Definition items_of (l: list step) : list nat := flat_map (fun st => is_item (answer st)) l.
Definition ended (l: list step) : bool := existsb (fun st => is_end (answer st)) l.
Definition proj (i: nat) (rs: list out) : list nat :=
  flat_map (fun o => match o with OSome (Some j) vs => if j =? i then vs else [] | _ => [] end) rs.
Fixpoint count_none (l: list pstate) : nat := match l with [] => 0 | PNone :: r => S (count_none r) | _ :: r => count_none r end.

Lemma items_of_app a b : items_of (a ++ b) = items_of a ++ items_of b. Proof. apply flat_map_app. Qed.
Lemma ended_app a b : ended (a ++ b) = ended a || ended b. Proof. apply existsb_app. Qed.
Lemma proj_app i a b : proj i (a ++ b) = proj i a ++ proj i b. Proof. apply flat_map_app. Qed.

Lemma count_none_le l : count_none l <= length l.
Proof. induction l as [|[| |] l IH]; cbn; lia. Qed.
Lemma count_none_upd l i : i < length l -> is_none (nth i l PNone) = false -> count_none (upd l i PNone) = S (count_none l).
Proof.
  revert i. induction l as [|p l IH]; intros [|i] Hi Hn; cbn in *; try lia.
  - destruct p; cbn in *; auto; discriminate.
  - destruct p; cbn; rewrite IH; auto; lia.
Qed.
Lemma count_none_all l : count_none l = length l -> forall i, i < length l -> nth i l PNone = PNone.
Proof.
  induction l as [|p l IH]; intros H i Hi; cbn in *; [lia|].
  pose proof (count_none_le l). destruct p; try lia. destruct i; auto. apply IH; lia.
Qed.


Section C08.
  Variable sc0 : list (list step).
  Let n := length sc0.

  Definition okout (o: out) := o = ONone \/ exists i v, i < n /\ o = OSome (Some i) [v].
  Definition R (s: mst) (sc: list (list step)) (rs: list out) : Prop :=
    exists pre, length pre = n /\ m_n s = n /\ m_Q s /\
      (forall i, i < n -> nth i sc0 [] = nth i pre [] ++ nth i sc []) /\
      (forall i, i < n -> proj i rs = items_of (nth i pre [])) /\
      Forall okout rs /\
      (forall i, i < n -> is_none (nth i (m_pst s) PNone) = ended (nth i pre [])) /\
      m_complete s = count_none (m_pst s) /\
      ((In ONone rs -> m_complete s = n) /\ (m_complete s = n -> 0 < n -> In ONone rs)).

  (* consuming one scripted step of input i *)
  Lemma advance pre sc i stp sc' : length pre = n -> i < n ->
    (forall j, j < n -> nth j sc0 [] = nth j pre [] ++ nth j sc []) ->
    (stp, sc') = (match nth i sc [] with [] => ({| fires := []; answer := APend |}, sc) | x :: rest => (x, upd sc i rest) end) ->
    exists pre', length pre' = n /\
      (forall j, j < n -> nth j sc0 [] = nth j pre' [] ++ nth j sc' []) /\
      (forall j, j <> i -> nth j pre' [] = nth j pre []) /\
      items_of (nth i pre' []) = items_of (nth i pre []) ++ is_item (answer stp) /\
      ended (nth i pre' []) = ended (nth i pre []) || is_end (answer stp).
  Proof.
    intros Hl Hi Hpre E. destruct (nth i sc []) as [|x rest] eqn:En; inversion E; subst; clear E.
    - exists pre. cbn. rewrite app_nil_r, orb_false_r. repeat split; auto.
    - assert (Hisc : i < length sc).
      { destruct (Nat.lt_ge_cases i (length sc)); auto. rewrite nth_overflow in En by auto. discriminate. }
      exists (upd pre i (nth i pre [] ++ [x])). rewrite upd_length. split; [auto|]. split; [|split; [|split]].
      + intros j Hj. destruct (Nat.eq_dec i j) as [<-|Hne].
        * rewrite !nth_upd_same by lia. rewrite <- app_assoc. cbn. rewrite Hpre, En; auto.
        * rewrite !nth_upd_other by auto. apply Hpre; auto.
      + intros j Hne. apply nth_upd_other; auto.
      + rewrite nth_upd_same by lia. rewrite items_of_app. cbn. rewrite app_nil_r. reflexivity.
      + rewrite nth_upd_same by lia. rewrite ended_app. cbn. rewrite orb_false_r. reflexivity.
  Qed.

  Lemma proj_snoc_item j rs i v : proj j (rs ++ [OSome (Some i) [v]]) = proj j rs ++ (if i =? j then [v] else []).
  Proof. rewrite proj_app. cbn. rewrite app_nil_r. reflexivity. Qed.
  Lemma proj_snoc_none j rs : proj j (rs ++ [ONone]) = proj j rs.
  Proof. rewrite proj_app. cbn. apply app_nil_r. Qed.
  Lemma m_handle_cases s i a :
    match a with
    | AItem v => m_handle s i a = (s, Stop RSelf (OSome (Some i) [v]), [])
    | AEnd => let s' := {| m_pst := upd (m_pst s) i PNone; m_complete := m_complete s + 1; m_offset := m_offset s |} in
              m_handle s i a = (s', if m_complete s + 1 =? m_n s then Stop RNone ONone else Cont, [])
    | APanic => m_handle s i a = (s, Abort, [])
    | _ => m_handle s i a = (s, Cont, [])
    end.
  Proof. destruct a; cbn; auto. destruct (_ =? _); auto. Qed.

  Ltac popfix H := unfold popped_of in H; cbn beta in H.

  (* the common part: after consuming a step whose answer is neither Item nor End the relation is unchanged *)
  Lemma R_same s sc rs i stp sc' : i < n -> (stp, sc') = popped_of mst (fun _ i => i) s sc i ->
    is_item (answer stp) = [] -> is_end (answer stp) = false -> R s sc rs -> R s sc' rs.
  Proof.
    intros Hi Hp Hit Hen (pre & Hl & Hn & HQ & Hpre & Hproj & Hok & Hst & Hc & Hnone). popfix Hp.
    destruct (advance pre sc i stp sc' Hl Hi Hpre Hp) as (pre' & Hl' & Hpre' & Hoth & Hitems & Hended).
    rewrite Hit, app_nil_r in Hitems. rewrite Hen, orb_false_r in Hended.
    exists pre'. repeat split; auto.
    - intros j Hj. destruct (Nat.eq_dec j i) as [->|Hne]; [rewrite Hitems|rewrite Hoth by auto]; auto.
    - intros j Hj. destruct (Nat.eq_dec j i) as [->|Hne]; [rewrite Hended|rewrite Hoth by auto]; auto.
    - apply Hnone. - apply Hnone.
  Qed.

  Lemma R_end s sc rs i stp sc' : i < n -> m_awaited s i = true -> (stp, sc') = popped_of mst (fun _ i => i) s sc i ->
    answer stp = AEnd -> R s sc rs ->
    let s' := {| m_pst := upd (m_pst s) i PNone; m_complete := m_complete s + 1; m_offset := m_offset s |} in
    R s' sc' (if m_complete s + 1 =? m_n s then rs ++ [ONone] else rs).
  Proof.
    intros Hi Ha Hp Hans (pre & Hl & Hn & HQ & Hpre & Hproj & Hok & Hst & Hc & Hnone) s'. popfix Hp.
    destruct (advance pre sc i stp sc' Hl Hi Hpre Hp) as (pre' & Hl' & Hpre' & Hoth & Hitems & Hended).
    rewrite Hans in Hitems, Hended. cbn in Hitems, Hended. rewrite app_nil_r in Hitems. rewrite orb_true_r in Hended.
    assert (Hlen : length (m_pst s) = n) by exact Hn.
    assert (Hcnt : count_none (upd (m_pst s) i PNone) = S (count_none (m_pst s))).
    { apply count_none_upd; [lia|]. unfold m_awaited in Ha. destruct (is_none _); auto; discriminate. }
    assert (Hle : S (count_none (m_pst s)) <= n).
    { rewrite <- Hcnt, <- Hlen, <- (upd_length (m_pst s) i PNone). apply count_none_le. }
    destruct Hnone as [Hn1 Hn2].
    assert (Hnn : ~ In ONone rs) by (intros X; apply Hn1 in X; lia).
    exists pre'. split; [auto|]. split; [unfold m_n; cbn; rewrite upd_length; auto|].
    split; [unfold m_Q, m_n in *; cbn; rewrite upd_length; auto|].
    split; [auto|]. split; [|split; [|split; [|split]]].
    - intros j Hj. assert (X : proj j (if m_complete s + 1 =? m_n s then rs ++ [ONone] else rs) = proj j rs)
        by (destruct (_ =? _); [apply proj_snoc_none|reflexivity]). rewrite X.
      destruct (Nat.eq_dec j i) as [->|Hne]; [rewrite Hitems|rewrite Hoth by auto]; auto.
    - destruct (_ =? _); auto. apply Forall_app; split; auto. constructor; [left; reflexivity|constructor].
    - intros j Hj. cbn. destruct (Nat.eq_dec j i) as [->|Hne].
      + rewrite nth_upd_same by lia. rewrite Hended. reflexivity.
      + rewrite nth_upd_other by auto. rewrite Hoth by auto. auto.
    - cbn. rewrite Hcnt. lia.
    - cbn. destruct (Nat.eqb_spec (m_complete s + 1) (m_n s)) as [E|E].
      + split; [intros _; lia|intros _ _; apply in_or_app; right; left; reflexivity].
      + split; [intros X; contradiction|intros X; lia].
  Qed.

  Lemma R_item s sc rs i stp sc' v : i < n -> (stp, sc') = popped_of mst (fun _ i => i) s sc i ->
    answer stp = AItem v -> R s sc rs -> R s sc' (rs ++ [OSome (Some i) [v]]).
  Proof.
    intros Hi Hp Hans (pre & Hl & Hn & HQ & Hpre & Hproj & Hok & Hst & Hc & Hnone). popfix Hp.
    destruct (advance pre sc i stp sc' Hl Hi Hpre Hp) as (pre' & Hl' & Hpre' & Hoth & Hitems & Hended).
    rewrite Hans in Hitems, Hended. cbn in Hitems, Hended. rewrite orb_false_r in Hended.
    exists pre'. split; [auto|]. split; [auto|]. split; [auto|]. split; [auto|]. split; [|split; [|split; [|split]]]; auto.
    - intros j Hj. rewrite proj_snoc_item. destruct (Nat.eqb_spec i j) as [<-|Hne].
      + rewrite Hitems, Hproj; auto.
      + rewrite app_nil_r, Hoth by auto. auto.
    - apply Forall_app; split; auto. constructor; [right; exists i, v; auto|constructor].
    - intros j Hj. destruct (Nat.eq_dec j i) as [->|Hne]; [rewrite Hended|rewrite Hoth by auto]; auto.
    - destruct Hnone as [Hn1 Hn2]. split.
      + intros X. apply in_app_or in X as [X|[X|[]]]; [auto|discriminate].
      + intros X Y. apply in_or_app; auto.
  Qed.

  Lemma R_slots s sc rs : R s sc rs -> m_n s = n. Proof. intros (pre & _ & Hn & _). exact Hn. Qed.

  Lemma C08_cont : forall s sc rs i stp sc' s' e, m_awaited s i = true -> i < m_n s -> (stp, sc') = popped_of mst (fun _ i => i) s sc i ->
        R s sc rs -> m_handle s i (answer stp) = (s', Cont, e) -> R s' sc' rs.
  Proof.
    intros s sc rs i stp sc' s' e Ha Hi Hp HR Hh. rewrite (R_slots _ _ _ HR) in Hi.
    pose proof (m_handle_cases s i (answer stp)) as Hc. destruct (answer stp) eqn:Ea; cbn zeta in Hc; rewrite Hc in Hh.
    - inversion Hh; subst. eapply R_same; eauto; rewrite Ea; auto.
    - inversion Hh; subst. eapply R_same; eauto; rewrite Ea; auto.
    - discriminate.
    - pose proof (R_end s sc rs i stp sc' Hi Ha Hp Ea HR) as X. cbn zeta in X.
      destruct (m_complete s + 1 =? m_n s); [discriminate|]. inversion Hh; subst. exact X.
    - discriminate.
  Qed.
  Lemma C08_stop : forall s sc rs i stp sc' s' r o e, m_awaited s i = true -> i < m_n s -> (stp, sc') = popped_of mst (fun _ i => i) s sc i ->
        R s sc rs -> m_handle s i (answer stp) = (s', Stop r o, e) -> R s' sc' (rs ++ [o]).
  Proof.
    intros s sc rs i stp sc' s' r o e Ha Hi Hp HR Hh. rewrite (R_slots _ _ _ HR) in Hi.
    pose proof (m_handle_cases s i (answer stp)) as Hc. destruct (answer stp) eqn:Ea; cbn zeta in Hc; rewrite Hc in Hh; try discriminate.
    - inversion Hh; subst. eapply R_item; eauto.
    - pose proof (R_end s sc rs i stp sc' Hi Ha Hp Ea HR) as X. cbn zeta in X.
      destruct (m_complete s + 1 =? m_n s); [|discriminate]. inversion Hh; subst. exact X.
  Qed.
  Lemma C08_abort : forall s sc rs i stp sc' s' e, m_awaited s i = true -> i < m_n s -> (stp, sc') = popped_of mst (fun _ i => i) s sc i ->
        R s sc rs -> m_handle s i (answer stp) = (s', Abort, e) -> R s sc' rs.
  Proof.
    intros s sc rs i stp sc' s' e Ha Hi Hp HR Hh. rewrite (R_slots _ _ _ HR) in Hi.
    pose proof (m_handle_cases s i (answer stp)) as Hc. destruct (answer stp) eqn:Ea; cbn zeta in Hc; rewrite Hc in Hh; try discriminate.
    - destruct (_ =? _); discriminate.
    - eapply R_same; eauto; rewrite Ea; auto.
  Qed.
  Lemma C08_order : forall s is s1 sc rs, m_order s = Some (is, s1) -> R s sc rs -> R s1 sc rs.
  Proof.
    intros s is s1 sc rs Eo (pre & Hl & Hn & HQ & Hpre & Hproj & Hok & Hst & Hc & Hnone).
    pose proof (M14 s is s1 HQ Eo) as HQ1. pose proof (M10 s is s1 Eo) as Hn1.
    unfold m_order in Eo. destruct (m_n s =? 0); [discriminate|]. inversion Eo; subst. 
    exists pre. repeat split; auto; try apply Hnone.
  Qed.
  Lemma C08_finish : forall s sc rs, R s sc rs ->
        match snd (m_finish s) with Some o => R (fst (m_finish s)) sc (rs ++ [o]) | None => R (fst (m_finish s)) sc rs end.
  Proof. intros; cbn; auto. Qed.
  Lemma C08_pre : forall s sc rs o, R s sc rs -> m_pre_exit s = Some o -> R s sc (rs ++ [o]).
  Proof.
    intros s sc rs o (pre & Hl & Hn & HQ & Hpre & Hproj & Hok & Hst & Hc & Hnone) Ep.
    unfold m_pre_exit in Ep. destruct (Nat.eqb_spec (m_n s) 0) as [E0|]; [|discriminate]. inversion Ep; subst o.
    assert (Hz : n = 0) by lia.
    exists pre. repeat split; auto; try (intros; lia).
    - apply Forall_app; split; auto. constructor; [left; auto|constructor].
    - intros _. rewrite Hc. unfold m_n in E0. destruct (m_pst s); cbn in *; [lia|discriminate].
  Qed.
  Lemma C08_Q : forall s sc rs, R s sc rs -> m_Q s. Proof. intros s sc rs (pre & _ & _ & HQ & _). exact HQ. Qed.
  Lemma C08_hnores : forall s i a, no_results (snd (m_handle s i a)).
  Proof. intros s i a. pose proof (m_handle_cases s i a) as H. destruct a; cbn zeta in H; rewrite H; reflexivity. Qed.
  Lemma C08_dnores : forall s, no_results (drop_all_children (m_n s)).
  Proof. intros s. unfold no_results, drop_all_children. induction (seq 0 (m_n s)); cbn; auto. Qed.
End C08.

(* ---- the theorem ---- *)
Definition merge_run_fixed (selective: bool) scs ops :=
  run_ops mst m_n m_awaited (fun _ i => i) m_handle true true m_order m_pre_exit (fun _ => false) m_finish (fun s => s)
    (fun s => drop_all_children (m_n s)) m_final mmut
    (mk_world {| m_pst := repeat PPending (length scs); m_complete := 0; m_offset := 0 |} selective (length scs) scs) ops.

Lemma count_none_repeat n : count_none (repeat PPending n) = 0. Proof. induction n; cbn; auto. Qed.
Lemma count_none_all_rev l : (forall i, i < length l -> nth i l PNone = PNone) -> count_none l = length l.
Proof.
  induction l as [|p l IH]; intros H; cbn; auto.
  pose proof (H 0 ltac:(cbn; lia)) as H0. cbn in H0. subst p. f_equal. apply IH. intros i Hi. apply (H (S i)). cbn; lia.
Qed.
Lemma nth_repeat_nil {A} n i : nth i (repeat (@nil A) n) [] = [].
Proof. revert i; induction n; destruct i; cbn; auto. Qed.

Lemma R_init scs : R scs {| m_pst := repeat PPending (length scs); m_complete := 0; m_offset := 0 |} scs [].
Proof.
  exists (repeat [] (length scs)). unfold m_n, m_Q, m_n; cbn. rewrite !repeat_length.
  split; [auto|]. split; [auto|]. split; [destruct (length scs); [left|right]; lia|].
  split; [intros i _; rewrite nth_repeat_nil; reflexivity|].
  split; [intros i _; rewrite nth_repeat_nil; reflexivity|].
  split; [constructor|]. split; [|split].
  - intros i Hi. rewrite nth_repeat_nil, repeat_nth by auto. reflexivity.
  - rewrite count_none_repeat. reflexivity.
  - split; [intros []|]. intros <- H. lia.
Qed.

Definition all_ended (pre: list (list step)) n := forall i, i < n -> ended (nth i pre []) = true.

Theorem C08_merge selective scs ops : let n := length scs in let w := merge_run_fixed selective scs ops in let rs := results (tr _ w) in
  exists pre, length pre = n /\
    (forall i, i < n -> nth i scs [] = nth i pre [] ++ nth i (scripts _ w) []) /\     (* pre = what each input has produced so far *)
    (forall i, i < n -> proj i rs = items_of (nth i pre [])) /\                        (* exactly once, in order, per input *)
    Forall (okout scs) rs /\                                                          (* nothing else is ever returned *)
    (In ONone rs -> all_ended pre n) /\ (all_ended pre n -> 0 < n -> In ONone rs).
Proof.
  intros n w rs.
  assert (H : R scs (cs _ w) (scripts _ w) rs).
  { apply (RW_run mst m_n m_awaited (fun _ i => i) m_handle true true m_order m_pre_exit (fun _ => false) m_finish (fun s => s)
           (fun s => drop_all_children (m_n s)) m_final m_Q M1 M8 M9 M10 M12 mmut (R scs)
           (C08_cont scs) (C08_stop scs) (C08_abort scs) (C08_order scs) (C08_finish scs) (C08_pre scs) (C08_Q scs)
           (C08_hnores) (C08_dnores) (fun w _ _ _ H => H) ops). apply R_init. }
  destruct H as (pre & Hl & Hn & HQ & Hpre & Hproj & Hok & Hst & Hc & Hn1 & Hn2). subst n.
  exists pre. repeat split; auto.
  - intros X i Hi. rewrite <- Hst by auto. specialize (Hn1 X). rewrite Hc in Hn1. unfold m_n in Hn. rewrite <- Hn in Hn1.
    rewrite (count_none_all _ Hn1 i) by lia. reflexivity.
  - intros X Hpos. apply Hn2; auto. rewrite Hc. unfold m_n in Hn. rewrite <- Hn. apply count_none_all_rev.
    intros i Hi. specialize (X i ltac:(lia)). rewrite <- Hst in X by lia. destruct (nth i _ PNone); auto; discriminate.
Qed.
