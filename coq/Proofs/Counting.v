From Coq Require Import List Arith Lia Bool.
Import ListNotations.
Require Import ScanFull.

(* counting outputs and scripted items: the measures of the "every item comes out" theorems (LiveGroups, LiveMerge) *)
Definition nsome (rs: list out) : nat := length (filter (fun o => match o with ONone => false | _ => true end) rs).
Definition nnone (rs: list out) : nat := length (filter (fun o => match o with ONone => true | _ => false end) rs).
Lemma nsome_app a b : nsome (a ++ b) = nsome a + nsome b.
Proof. unfold nsome. rewrite filter_app, app_length. reflexivity. Qed.
Lemma nnone_app a b : nnone (a ++ b) = nnone a + nnone b.
Proof. unfold nnone. rewrite filter_app, app_length. reflexivity. Qed.
Definition nitems (sc: list step) : nat := length (filter (fun st => match answer st with AItem _ => true | _ => false end) sc).
Definition items_total (scs: list (list step)) : nat := list_sum (map nitems scs).
Lemma list_sum_upd {A} (f: A -> nat) (l: list A) i x d : i < length l -> list_sum (map f (upd l i x)) + f (nth i l d) = list_sum (map f l) + f x.
Proof. unfold list_sum. revert i. induction l as [|y l IH]; intros [|i] Hi; cbn in *; try lia. specialize (IH i ltac:(lia)). lia. Qed.

(* popping the next step of script m *)
Definition pop_at (sc: list (list step)) (m: nat) : step * list (list step) :=
  match nth m sc [] with [] => ({| fires := []; answer := APend |}, sc) | x :: rest => (x, upd sc m rest) end.
Lemma pop_at_len sc m B : (forall k, length (nth k sc []) <= B) -> forall k, length (nth k (snd (pop_at sc m)) []) <= B.
Proof.
  unfold pop_at. intros H k. destruct (nth m sc []) as [|x rest] eqn:En; cbn [snd]; [apply H|].
  destruct (Nat.eq_dec m k) as [<-|Hne]; [|rewrite nth_upd_other by auto; apply H].
  destruct (Nat.lt_ge_cases m (length sc)) as [L|G]; [rewrite nth_upd_same by exact L|rewrite nth_overflow by (rewrite upd_length; exact G); cbn; lia].
  specialize (H m). rewrite En in H. cbn in H. lia.
Qed.
Lemma pop_at_items sc m : items_total (snd (pop_at sc m)) + (match answer (fst (pop_at sc m)) with AItem _ => 1 | _ => 0 end) = items_total sc.
Proof.
  unfold pop_at. destruct (nth m sc []) as [|x rest] eqn:En; cbn [fst snd answer]; [lia|].
  assert (Hm : m < length sc) by (destruct (Nat.lt_ge_cases m (length sc)); auto; rewrite nth_overflow in En by assumption; discriminate).
  unfold items_total. pose proof (list_sum_upd nitems sc m rest [] Hm) as H. rewrite En in H.
  unfold nitems at 2 in H. cbn [filter] in H. destruct (answer x); cbn [length] in H; fold (nitems rest) in H; lia.
Qed.
Lemma pop_at_other sc m j : j <> m -> nth j (snd (pop_at sc m)) [] = nth j sc [].
Proof. intros H. unfold pop_at. destruct (nth m sc []); cbn [snd]; [reflexivity|]. apply nth_upd_other. auto. Qed.
Lemma pop_at_self sc m : nitems (nth m (snd (pop_at sc m)) []) + (match answer (fst (pop_at sc m)) with AItem _ => 1 | _ => 0 end) = nitems (nth m sc []).
Proof.
  unfold pop_at. destruct (nth m sc []) as [|x rest] eqn:En; cbn [fst snd answer]; [rewrite En; lia|].
  assert (Hm : m < length sc) by (destruct (Nat.lt_ge_cases m (length sc)); auto; rewrite nth_overflow in En by assumption; discriminate).
  rewrite nth_upd_same by exact Hm. unfold nitems at 2. cbn [filter]. destruct (answer x); cbn [length]; fold (nitems rest); lia.
Qed.
