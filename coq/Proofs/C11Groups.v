From Coq Require Import List Arith Lia Bool.
Import ListNotations.
Require Import ScanFull InstsFull ObligGroups.

(* ============ the slab (slab 0.4: entries + LIFO chain of vacant entries) ============ *)
Definition occ (ent: list entry) (k m: nat) := nth_error ent k = Some (Occ m).
Definition occupied (ent: list entry) (k: nat) := exists m, occ ent k m.
Inductive Chain (ent: list entry) : nat -> list nat -> Prop :=
| Ch_end : Chain ent (length ent) []
| Ch_cons k nx l : nth_error ent k = Some (Vac nx) -> Chain ent nx l -> ~ In k l -> Chain ent k (k :: l).
Definition is_occ (e: entry) : nat := match e with Occ _ => 1 | Vac _ => 0 end.
Fixpoint count_occ (ent: list entry) : nat := match ent with [] => 0 | e :: r => is_occ e + count_occ r end.

Lemma nth_error_upd_same {A} (l: list A) i x : i < length l -> nth_error (upd l i x) i = Some x.
Proof. revert i; induction l; destruct i; cbn; intros; auto; try lia. apply IHl; lia. Qed.
Lemma nth_error_upd_other {A} (l: list A) i j x : i <> j -> nth_error (upd l i x) j = nth_error l j.
Proof. revert i j; induction l; destruct i, j; cbn; intros; auto; try lia. Qed.
Lemma nth_error_nth' {A} (l: list A) i d x : nth_error l i = Some x -> nth i l d = x.
Proof. revert i; induction l; destruct i; cbn; intros; try discriminate; auto. inversion H; auto. Qed.

Lemma Chain_vac ent k l : Chain ent k l -> forall j, In j l -> exists nx, nth_error ent j = Some (Vac nx).
Proof. induction 1; intros j Hj; [destruct Hj|]. destruct Hj as [<-|Hj]; eauto. Qed.
Lemma Chain_head ent k l : Chain ent k l -> k <= length ent /\ (k = length ent -> l = []) /\ (k < length ent -> exists l', l = k :: l').
Proof.
  destruct 1 as [|k nx l H]; [split; [lia|split; [auto|lia]]|].
  assert (k < length ent) by (apply nth_error_Some; congruence). split; [lia|]. split; [lia|eauto].
Qed.
Lemma Chain_frame ent k l j e : Chain ent k l -> ~ In j l -> Chain (upd ent j e) k l.
Proof.
  induction 1 as [|k nx l H Hc IH Hn]; intros Hj.
  - rewrite <- (upd_length ent j e). constructor.
  - econstructor; [|apply IH; intros X; apply Hj; right; auto|auto].
    rewrite nth_error_upd_other; eauto. intros ->. apply Hj. left; auto.
Qed.
Lemma count_occ_upd ent k e : k < length ent -> count_occ (upd ent k e) + is_occ (nth k ent (Vac 0)) = count_occ ent + is_occ e.
Proof. revert k; induction ent as [|x ent IH]; intros [|k] Hk; cbn in *; try lia. specialize (IH k ltac:(lia)). lia. Qed.
Lemma count_occ_app ent e : count_occ (ent ++ [e]) = count_occ ent + is_occ e.
Proof. induction ent; cbn; lia. Qed.
Lemma count_occ_le ent : count_occ ent <= length ent.
Proof. induction ent as [|[|] ent IH]; cbn; lia. Qed.
Lemma count_occ_full ent : (forall k, k < length ent -> occupied ent k) -> count_occ ent = length ent.
Proof.
  induction ent as [|e ent IH]; intros H; cbn; auto.
  destruct (H 0 ltac:(cbn; lia)) as [m Hm]. cbn in Hm. inversion Hm; subst. cbn. f_equal. apply IH.
  intros k Hk. destruct (H (S k) ltac:(cbn; lia)) as [m' Hm']. exists m'. exact Hm'.
Qed.

Definition pc (s: gst) (k: nat) := g_last s = Some k \/ In k (g_queue s).     (* vacated in this poll, key not yet removed *)
Record Slab (s: gst) : Prop := {
  sl_chain : exists l, Chain (g_ent s) (g_next s) l /\ (forall k, k < length (g_ent s) -> occupied (g_ent s) k \/ In k l);
  sl_len : g_len s = count_occ (g_ent s);
  sl_cap : length (g_states s) = g_cap s /\ length (g_ent s) <= g_cap s;
  sl_pend : forall k, occupied (g_ent s) k <-> pend s k = true;
  sl_keys : forall k, In k (g_keys s) <-> occupied (g_ent s) k \/ pc s k;
  sl_pc : forall k, pc s k -> ~ occupied (g_ent s) k /\ k < length (g_ent s);
  sl_mem : forall k m, occ (g_ent s) k m -> m < g_nmem s /\ nth m (g_ret s) 0 = k;
  sl_ret : g_nmem s = length (g_ret s) }.

Lemma occupied_lt ent k : occupied ent k -> k < length ent.
Proof. intros [m H]. apply nth_error_Some. unfold occ in H. congruence. Qed.

(* vacating an occupied entry (completion or removal), leaving keys alone and recording k as pending cleanup or not *)
Lemma occ_upd_vac ent k nx k' m : occ (upd ent k (Vac nx)) k' m <-> k' <> k /\ occ ent k' m.
Proof.
  unfold occ. destruct (Nat.eq_dec k k') as [<-|Hne].
  - split; [|intros [X _]; congruence]. intros H. exfalso.
    destruct (Nat.lt_ge_cases k (length ent)) as [Hl|Hl].
    + rewrite nth_error_upd_same in H by auto. discriminate.
    + assert (nth_error (upd ent k (Vac nx)) k = None) by (apply nth_error_None; rewrite upd_length; auto). congruence.
  - rewrite nth_error_upd_other by auto. split; [intros H; split; auto|intros [_ H]; auto].
Qed.
Lemma occupied_upd_vac ent k nx k' : occupied (upd ent k (Vac nx)) k' <-> k' <> k /\ occupied ent k'.
Proof. unfold occupied. split; [intros [m H]; apply occ_upd_vac in H as [A B]; eauto|intros [A [m B]]; exists m; apply occ_upd_vac; auto]. Qed.

Lemma slab_vacate s k m : Slab s -> occ (g_ent s) k m ->
  let ent' := upd (g_ent s) k (Vac (g_next s)) in
  (exists l, Chain ent' k l /\ (forall j, j < length ent' -> occupied ent' j \/ In j l)) /\
  g_len s - 1 = count_occ ent' /\ 1 <= g_len s /\ length ent' = length (g_ent s).
Proof.
  intros [(l & Hc & Hall) Hlen _ _ _ _ _ _] Ho ent'.
  assert (Hk : k < length (g_ent s)) by (apply occupied_lt; exists m; auto).
  assert (Hnl : ~ In k l).
  { intros X. destruct (Chain_vac _ _ _ Hc k X) as [nx E]. unfold occ in Ho. congruence. }
  split; [|split; [|split]].
  - exists (k :: l). split.
    + econstructor; [apply nth_error_upd_same; auto|apply Chain_frame; auto|auto].
    + unfold ent'. rewrite upd_length. intros j Hj. destruct (Nat.eq_dec j k) as [->|Hne]; [right; left; auto|].
      destruct (Hall j Hj) as [X|X]; [left; apply occupied_upd_vac; auto|right; right; auto].
  - pose proof (count_occ_upd (g_ent s) k (Vac (g_next s)) Hk) as E. rewrite (nth_error_nth' _ _ _ _ Ho) in E. cbn in E. fold ent' in E. lia.
  - pose proof (count_occ_upd (g_ent s) k (Vac (g_next s)) Hk) as E. rewrite (nth_error_nth' _ _ _ _ Ho) in E. cbn in E. lia.
  - apply upd_length.
Qed.

Lemma pend_upd_none' st k j : is_pending (nth j (upd st k PNone) PNone) = if Nat.eqb j k then false else is_pending (nth j st PNone).
Proof.
  destruct (Nat.eqb_spec j k) as [->|Hne].
  - rewrite nth_upd_same'. destruct (k <? _); auto.
  - rewrite nth_upd_other; auto.
Qed.

Lemma slab_vacate_gen s s' k m : Slab s -> occ (g_ent s) k m ->
  g_ent s' = upd (g_ent s) k (Vac (g_next s)) -> g_next s' = k -> g_len s' = g_len s - 1 ->
  g_states s' = upd (g_states s) k PNone -> g_cap s' = g_cap s -> g_nmem s' = g_nmem s -> g_ret s' = g_ret s ->
  (forall x, In x (g_keys s') <-> (x <> k /\ In x (g_keys s)) \/ (x = k /\ pc s' k)) ->
  (forall x, x <> k -> (pc s' x <-> pc s x)) ->
  Slab s'.
Proof.
  intros HS Ho He Hn Hl Hst Hcap Hnm Hret Hkeys Hpc.
  destruct (slab_vacate s k m HS Ho) as ((l & Hc & Hall) & Hcnt & Hge & Hlen). cbn zeta in *.
  destruct HS as [_ Slen [Sc1 Sc2] Spend Skeys Spc Smem Sret].
  constructor.
  - rewrite He, Hn. eauto.
  - rewrite Hl, He. exact Hcnt.
  - rewrite Hst, He, Hcap, !upd_length. auto.
  - intros x. rewrite He. unfold pend. rewrite Hst, pend_upd_none', occupied_upd_vac.
    destruct (Nat.eqb_spec x k) as [->|Hne]; [split; [intros [X _]; congruence|discriminate]|].
    rewrite Spend. unfold pend. tauto.
  - intros x. rewrite Hkeys, He, occupied_upd_vac. destruct (Nat.eq_dec x k) as [->|Hne]; [tauto|].
    rewrite Skeys, (Hpc x Hne). tauto.
  - intros x Hx. rewrite He, occupied_upd_vac, upd_length. destruct (Nat.eq_dec x k) as [->|Hne].
    + split; [intros [X _]; congruence|]. apply occupied_lt. exists m; auto.
    + apply Hpc in Hx; auto. destruct (Spc x Hx) as [A B]. split; [intros [_ X]; auto|auto].
  - intros k' m'. rewrite He, occ_upd_vac, Hnm, Hret. intros [_ X]. apply Smem; auto.
  - rewrite Hnm, Hret. exact Sret.
Qed.

Lemma occ_upd_occ ent k m0 k' m : k < length ent -> (occ (upd ent k (Occ m0)) k' m <-> (k' = k /\ m = m0) \/ (k' <> k /\ occ ent k' m)).
Proof.
  intros Hk. unfold occ. destruct (Nat.eq_dec k k') as [<-|Hne].
  - rewrite nth_error_upd_same by auto. split; [intros H; inversion H; auto|intros [[_ ->]|[X _]]; [auto|congruence]].
  - rewrite nth_error_upd_other by auto. split; [intros H; right; split; auto|intros [[X _]|[_ H]]; [congruence|auto]].
Qed.
Lemma occ_app ent m0 k' m : occ (ent ++ [Occ m0]) k' m <-> (k' = length ent /\ m = m0) \/ occ ent k' m.
Proof.
  unfold occ. destruct (Nat.lt_ge_cases k' (length ent)) as [Hl|Hl].
  - rewrite nth_error_app1 by auto. split; [auto|intros [[X _]|H]; [lia|auto]].
  - rewrite nth_error_app2 by auto. assert (nth_error ent k' = None) by (apply nth_error_None; auto).
    destruct (k' - length ent) as [|d] eqn:E; cbn.
    + split; [intros H'; inversion H'; left; split; [lia|auto]|intros [[_ ->]|X]; [auto|congruence]].
    + split; [destruct d; discriminate|intros [[X _]|X]; [lia|congruence]].
Qed.

Lemma slab_occupy_gen s s' : Slab s -> (forall x, ~ pc s x) -> (forall x, ~ pc s' x) ->
  let k := g_next s in let m := g_nmem s in
  k < length (g_states s) ->
  (g_ent s', g_next s') = (if k =? length (g_ent s) then (g_ent s ++ [Occ m], k + 1)
                           else (upd (g_ent s) k (Occ m), match nth k (g_ent s) (Vac 0) with Vac nx => nx | _ => 0 end)) ->
  g_len s' = g_len s + 1 -> g_states s' = upd (g_states s) k PPending -> g_cap s' = g_cap s ->
  g_nmem s' = m + 1 -> g_ret s' = g_ret s ++ [k] -> g_keys s' = ins_sorted k (g_keys s) ->
  Slab s' /\ (forall k' m', occ (g_ent s') k' m' <-> (k' = k /\ m' = m) \/ occ (g_ent s) k' m') /\ ~ occupied (g_ent s) k.
Proof.
  intros [(l & Hc & Hall) Slen [Sc1 Sc2] Spend Skeys Spc Smem Sret] Hnpc Hnpc' k m Hk He Hl Hst Hcap Hnm Hret Hkeys.
  assert (Hpend' : forall x, pend s' x = if Nat.eqb x k then true else pend s x).
  { intros x. unfold pend. rewrite Hst. destruct (Nat.eqb_spec x k) as [->|Hne]; [rewrite nth_upd_same by auto; auto|rewrite nth_upd_other; auto]. }
  assert (Hmem' : forall k' m', (k' = k /\ m' = m) \/ (k' <> k /\ occ (g_ent s) k' m') -> m' < g_nmem s' /\ nth m' (g_ret s') 0 = k').
  { intros k' m' [[-> ->]|[_ X]]; rewrite Hnm, Hret.
    - split; [lia|]. unfold m. rewrite Sret, app_nth2, Nat.sub_diag by lia. reflexivity.
    - destruct (Smem k' m' X) as [A B]. split; [unfold m; lia|]. rewrite app_nth1 by lia. exact B. }
  destruct (Chain_head _ _ _ Hc) as (Hle & Hend & Hmid). fold k in Hle, Hend, Hmid, Hc.
  destruct (Nat.eqb_spec k (length (g_ent s))) as [Ek|Ek]; inversion He as [[He1 He2]]; clear He.
  - (* push *)
    specialize (Hend Ek). subst l.
    assert (Hfull : forall j, j < length (g_ent s) -> occupied (g_ent s) j) by (intros j Hj; destruct (Hall j Hj) as [X|[]]; auto).
    assert (Hnok : ~ occupied (g_ent s) k) by (intros X; apply occupied_lt in X; lia).
    split; [|split; [intros k' m'; rewrite He1, occ_app, Ek; tauto|exact Hnok]].
    constructor.
    + exists []. rewrite He1, He2. split.
      * replace (k + 1) with (length (g_ent s ++ [Occ m])) by (rewrite app_length; cbn; lia). constructor.
      * rewrite app_length. cbn. intros j Hj. left. destruct (Nat.eq_dec j (length (g_ent s))) as [->|Hne].
        -- exists m. apply occ_app. left; auto.
        -- destruct (Hfull j ltac:(lia)) as [m' X]. exists m'. apply occ_app. right; auto.
    + rewrite Hl, He1, count_occ_app. cbn. lia.
    + rewrite Hst, He1, Hcap, upd_length, app_length. cbn. split; [auto|lia].
    + intros x. rewrite Hpend', He1. unfold occupied. destruct (Nat.eqb_spec x k) as [->|Hne].
      * split; auto. intros _. exists m. apply occ_app. left; auto.
      * rewrite <- Spend. split; intros [m' X]; exists m'; [apply occ_app in X as [[X _]|X]; [lia|auto]|apply occ_app; auto].
    + intros x. rewrite Hkeys, In_ins_sorted, Skeys, He1. unfold occupied. split.
      * intros [->|[[m' X]|X]]; [left; exists m; apply occ_app; left; auto|left; exists m'; apply occ_app; auto|exfalso; eapply Hnpc; eauto].
      * intros [[m' X]|X]; [|exfalso; eapply Hnpc'; eauto]. apply occ_app in X as [[-> _]|X]; [left; lia|right; left; eauto].
    + intros x X. exfalso; eapply Hnpc'; eauto.
    + intros k' m' X. rewrite He1 in X. apply occ_app in X. apply Hmem'. destruct X as [[-> ->]|X]; [left; auto|].
      right. split; auto. intros ->. apply Hnok. exists m'; auto.
    + rewrite Hnm, Hret, app_length. cbn. unfold m. lia.
  - (* reuse the head of the vacant chain *)
    assert (Hlt : k < length (g_ent s)) by lia.
    destruct (Hmid Hlt) as [l' ->]. inversion Hc as [|k0 nx l0 Hv Hc' Hnin]; subst.
    assert (Hnok : ~ occupied (g_ent s) k) by (intros [m' X]; unfold occ in X; congruence).
    rewrite (nth_error_nth' _ _ (Vac 0) _ Hv) in He2.
    split; [|split; [intros k' m'; rewrite He1, (occ_upd_occ _ _ _ _ _ Hlt); split; [tauto|intros [X|X]; [auto|right; split; auto; intros ->; apply Hnok; exists m'; auto]]|exact Hnok]].
    constructor.
    + exists l'. rewrite He1, He2. split; [apply Chain_frame; auto|].
      rewrite upd_length. intros j Hj. destruct (Nat.eq_dec j k) as [->|Hne].
      * left. exists m. apply occ_upd_occ; auto.
      * destruct (Hall j Hj) as [[m' X]|[X|X]]; [left; exists m'; apply occ_upd_occ; auto|congruence|right; auto].
    + rewrite Hl, He1. pose proof (count_occ_upd (g_ent s) k (Occ m) Hlt) as E. rewrite (nth_error_nth' _ _ _ _ Hv) in E. cbn in E. lia.
    + rewrite Hst, He1, Hcap, !upd_length. auto.
    + intros x. rewrite Hpend', He1. unfold occupied. destruct (Nat.eqb_spec x k) as [->|Hne].
      * split; auto. intros _. exists m. apply occ_upd_occ; auto.
      * rewrite <- Spend. split; intros [m' X]; exists m'; [apply (occ_upd_occ _ _ _ _ _ Hlt) in X as [[X _]|[_ X]]; [congruence|auto]|apply occ_upd_occ; auto].
    + intros x. rewrite Hkeys, In_ins_sorted, Skeys, He1. unfold occupied. split.
      * intros [->|[[m' X]|X]]; [left; exists m; apply occ_upd_occ; auto| |exfalso; eapply Hnpc; eauto].
        left. exists m'. apply occ_upd_occ; auto. right. split; auto. intros ->. apply Hnok. exists m'; auto.
      * intros [[m' X]|X]; [|exfalso; eapply Hnpc'; eauto]. apply (occ_upd_occ _ _ _ _ _ Hlt) in X as [[-> _]|[_ X]]; [left; auto|right; left; eauto].
    + intros x X. exfalso; eapply Hnpc'; eauto.
    + intros k' m' X. rewrite He1 in X. apply (occ_upd_occ _ _ _ _ _ Hlt) in X; auto.
    + rewrite Hnm, Hret, app_length. cbn. unfold m. lia.
Qed.

Lemma Slab_Q s : Slab s -> g_Q s.
Proof.
  intros [_ _ [Sc1 Sc2] Spend Skeys Spc _ _]. constructor.
  - intros k Hk. apply Skeys. left. apply Spend. exact Hk.
  - intros k Hk. unfold g_slots. rewrite Sc1. apply Skeys in Hk as [X|X]; [apply occupied_lt in X; lia|apply Spc in X as [_ X]; lia].
  - intros k Hk. destruct (pend s k) eqn:E; auto. apply Spend in E. exfalso. apply (Spc k); [left; auto|auto].
  - intros k Hk. destruct (pend s k) eqn:E; auto. apply Spend in E. exfalso. apply (Spc k); [right; auto|auto].
Qed.

Lemma Slab_cleanup s : Slab s -> Slab (g_cleanup s) /\ g_clean (g_cleanup s) = true.
Proof.
  intros HS. split; [|reflexivity]. destruct HS as [Sch Slen Scap Spend Skeys Spc Smem Sret].
  constructor; cbn; auto.
  - intros k. change (In k (g_keys (g_cleanup s)) <-> occupied (g_ent s) k \/ pc (g_cleanup s) k).
    rewrite In_cleanup_keys, Skeys. unfold pc at 2. cbn. split.
    + intros ([X|X] & A & B); [auto|]. destruct X as [X|X]; [exfalso; apply A; auto|exfalso; auto].
    + intros [X|[X|[]]]; [|discriminate]. split; [auto|]. split.
      * intros E. apply (Spc k); [left; auto|auto].
      * intros E. apply (Spc k); [right; auto|auto].
  - intros k [X|[]]. discriminate.
Qed.

(* ============ the observable history ============ *)
Definition inserted (t: list ev) : list nat := flat_map (fun e => match e with EK k => [k] | _ => [] end) t.
Definition droppedl (t: list ev) : list nat := flat_map (fun e => match e with EDc m => [m] | _ => [] end) t.
Fixpoint polls_from (cur: nat) (t: list ev) : list (nat * ans) :=
  match t with
  | [] => []
  | EC m _ :: r => polls_from m r
  | EAns a :: r => (cur, a) :: polls_from cur r
  | _ :: r => polls_from cur r
  end.
Definition out_of (p: nat * ans) : list (nat * nat) :=
  match snd p with AReady (ROk v) | AReady (RErr v) | AItem v => [(fst p, v)] | _ => [] end.
Definition outs (p: list (nat * ans)) : list (nat * nat) := flat_map out_of p.
Definition yield_of (e: ev) : list (nat * nat) := match e with EEndR (OSome (Some k) [v]) => [(k, v)] | _ => [] end.
Definition yields (t: list ev) : list (nat * nat) := flat_map yield_of t.
Definition mem (m: nat) (l: list nat) := existsb (Nat.eqb m) l.
(* poll discipline and drop-once: members are polled only while inserted and not yet dropped; each is dropped at most once *)
Fixpoint chk (nm: nat) (dead: list nat) (t: list ev) : bool :=
  match t with
  | [] => true
  | EK _ :: r => chk (S nm) dead r
  | EDc m :: r => (m <? nm) && negb (mem m dead) && chk nm (m :: dead) r
  | EC m _ :: r => (m <? nm) && negb (mem m dead) && chk nm dead r
  | _ :: r => chk nm dead r
  end.

Lemma inserted_app a b : inserted (a ++ b) = inserted a ++ inserted b. Proof. apply flat_map_app. Qed.
Lemma droppedl_app a b : droppedl (a ++ b) = droppedl a ++ droppedl b. Proof. apply flat_map_app. Qed.
Lemma yields_app a b : yields (a ++ b) = yields a ++ yields b. Proof. apply flat_map_app. Qed.
Lemma outs_app a b : outs (a ++ b) = outs a ++ outs b. Proof. apply flat_map_app. Qed.
Lemma mem_In m l : mem m l = true <-> In m l.
Proof. unfold mem. rewrite existsb_exists. split; [intros (x & H & E); apply Nat.eqb_eq in E; subst; auto|intros H; exists m; split; auto; apply Nat.eqb_refl]. Qed.
Lemma mem_ext m l l' : (forall x, In x l <-> In x l') -> mem m l = mem m l'.
Proof. intros H. destruct (mem m l) eqn:E, (mem m l') eqn:E'; auto; [apply mem_In, H, mem_In in E|apply mem_In, H, mem_In in E']; congruence. Qed.
Lemma chk_ext nm t : forall dead dead', (forall x, In x dead <-> In x dead') -> chk nm dead t = chk nm dead' t.
Proof.
  revert nm. induction t as [|e t IH]; intros nm dead dead' H; cbn; auto.
  destruct e; auto.
  - rewrite (mem_ext m dead dead' H). f_equal. apply IH; auto.
  - rewrite (mem_ext m dead dead' H). f_equal. apply IH. intros x; cbn; rewrite H; tauto.
Qed.
Lemma chk_app t u : forall nm dead, chk nm dead (t ++ u) = chk nm dead t && chk (nm + length (inserted t)) (droppedl t ++ dead) u.
Proof.
  induction t as [|e t IH]; intros nm dead; cbn [app chk inserted droppedl flat_map length]; [rewrite Nat.add_0_r; reflexivity|].
  destruct e; cbn [app length]; rewrite ?IH; auto.
  - rewrite <- !andb_assoc. reflexivity.
  - rewrite <- !andb_assoc. f_equal. f_equal. f_equal. apply chk_ext. intros x. rewrite !in_app_iff. cbn. rewrite in_app_iff. tauto.
  - f_equal. f_equal. fold (inserted t). lia.
Qed.
Lemma polls_from_app t : forall cur m w a u, polls_from cur (t ++ EC m w :: EAns a :: u) = polls_from cur t ++ (m, a) :: polls_from m u.
Proof. induction t as [|e t IH]; intros cur m w a u; cbn; auto. destruct e; cbn; rewrite ?IH; auto. Qed.
Lemma polls_from_tail t : forall cur u, (forall e, In e u -> match e with EC _ _ | EAns _ => False | _ => True end) ->
  polls_from cur (t ++ u) = polls_from cur t.
Proof.
  induction t as [|e t IH]; intros cur u H; cbn.
  - induction u as [|e u IHu]; cbn; auto. pose proof (H e (or_introl eq_refl)) as He. destruct e; try contradiction; apply IHu; intros; apply H; right; auto.
  - destruct e; cbn; rewrite ?IH; auto.
Qed.

Definition keyof (ret: list nat) (p: nat * nat) := (nth (fst p) ret 0, snd p).
Record G (s: gst) (t: list ev) : Prop := {
  G_slab : Slab s;
  G_ret : g_ret s = inserted t;
  G_dead : forall m, m < g_nmem s -> (In m (droppedl t) <-> ~ occ (g_ent s) (nth m (g_ret s) 0) m);
  G_polls : Forall (fun p => fst p < g_nmem s) (polls_from 0 t);
  G_once : map (keyof (g_ret s)) (outs (polls_from 0 t)) = yields t;
  G_chk : chk 0 [] t = true;
  G_len : g_len s + length (droppedl t) = length (inserted t) }.

Lemma G_alive s t i m : G s t -> occ (g_ent s) i m -> m < g_nmem s /\ nth m (g_ret s) 0 = i /\ ~ In m (droppedl t) /\ length (inserted t) = g_nmem s.
Proof.
  intros [HS Hret Hdead _ _ _ _] Ho. destruct (sl_mem s HS i m Ho) as [A B]. split; [auto|]. split; [auto|]. split.
  - intros X. apply Hdead in X; auto. apply X. rewrite B. exact Ho.
  - rewrite <- Hret. symmetry. apply (sl_ret s HS).
Qed.

Lemma G_seg s s' t i m w a (d: bool) y : G s t -> occ (g_ent s) i m -> Slab s' -> g_ret s' = g_ret s -> g_nmem s' = g_nmem s ->
  (forall k' m', occ (g_ent s') k' m' <-> occ (g_ent s) k' m' /\ (d = true -> k' <> i)) ->
  g_len s' + (if d then 1 else 0) = g_len s ->
  ((y = [] /\ out_of (m, a) = []) \/ (exists v, y = [EEndR (OSome (Some i) [v])] /\ out_of (m, a) = [(m, v)])) ->
  G s' (t ++ EC m w :: EAns a :: (if d then [EDc m] else []) ++ y).
Proof.
  intros HG Ho HS' Hret' Hnm' Hocc Hlen' Hy.
  destruct (G_alive s t i m HG Ho) as (Hm & Hkey & Hnd & Hlen).
  destruct HG as [HS Hret Hdead Hpolls Honce Hchk Hglen].
  assert (Hy_ins : inserted y = []) by (destruct Hy as [[-> _]|(v & -> & _)]; reflexivity).
  assert (Hy_dr : droppedl y = []) by (destruct Hy as [[-> _]|(v & -> & _)]; reflexivity).
  assert (Hy_po : forall c, polls_from c ((if d then [EDc m] else []) ++ y) = []) by (intros c; destruct d, Hy as [[-> _]|(v & -> & _)]; reflexivity).
  assert (Hins : inserted (t ++ EC m w :: EAns a :: (if d then [EDc m] else []) ++ y) = inserted t).
  { rewrite inserted_app. cbn. rewrite inserted_app, Hy_ins. destruct d; cbn; rewrite app_nil_r; reflexivity. }
  assert (Hdr : droppedl (t ++ EC m w :: EAns a :: (if d then [EDc m] else []) ++ y) = droppedl t ++ (if d then [m] else [])).
  { rewrite droppedl_app. cbn. rewrite droppedl_app, Hy_dr. destruct d; cbn; reflexivity. }
  constructor.
  - exact HS'.
  - rewrite Hret', Hins. exact Hret.
  - intros m' Hm'. rewrite Hnm' in Hm'. rewrite Hdr, Hret', Hocc, in_app_iff, (Hdead m' Hm').
    destruct d; cbn; [|split; [intros [X|[]] [Y _]; auto|intros X; left; intros Y; apply X; split; auto; intros; discriminate]].
    destruct (Nat.eq_dec m' m) as [->|Hne].
    + rewrite Hkey. split; [intros _ [_ X]; apply X; auto|auto].
    + split.
      * intros [X|[X|[]]]; [intros [Y _]; auto|congruence].
      * intros X. left. intros Y. apply X. split; auto. intros _ E. rewrite E in Y. unfold occ in Y, Ho. congruence.
  - rewrite polls_from_app, Hy_po, Hnm'. apply Forall_app. split; auto.
  - rewrite polls_from_app, Hy_po, outs_app, map_app, Hret', Honce, yields_app. f_equal.
    cbn [outs flat_map]. rewrite app_nil_r. cbn [yields flat_map yield_of]. rewrite app_nil_l.
    change (flat_map yield_of ((if d then [EDc m] else []) ++ y)) with (yields ((if d then [EDc m] else []) ++ y)).
    rewrite yields_app. replace (yields (if d then [EDc m] else [])) with (@nil (nat * nat)) by (destruct d; reflexivity). cbn [app].
    destruct Hy as [[-> ->]|(v & -> & ->)]; cbn; [reflexivity|]. unfold keyof; cbn. rewrite Hkey. reflexivity.
  - rewrite chk_app, Hchk, Hlen, app_nil_r. cbn [andb chk Nat.add].
    assert (E1 : (m <? g_nmem s) = true) by (apply Nat.ltb_lt; auto).
    assert (E2 : mem m (droppedl t) = false) by (destruct (mem m (droppedl t)) eqn:E; auto; apply mem_In in E; contradiction).
    rewrite E1, E2. cbn [negb andb].
    destruct d, Hy as [[-> _]|(v & -> & _)]; cbn [app chk]; rewrite ?E1, ?E2; reflexivity.
  - rewrite Hdr, Hins, app_length. destruct d; cbn [length]; lia.
Qed.

Definition silent (e: ev) : Prop := match e with EEndP | EN _ | EBool _ | EEndR ONone => True | _ => False end.
Lemma G_silent s t e : G s t -> silent e -> G s (t ++ [e]).
Proof.
  intros [HS Hret Hdead Hpolls Honce Hchk Hlen] He.
  assert (A : inserted (t ++ [e]) = inserted t) by (rewrite inserted_app; destruct e; try contradiction; cbn; apply app_nil_r).
  assert (B : droppedl (t ++ [e]) = droppedl t) by (rewrite droppedl_app; destruct e; try contradiction; cbn; apply app_nil_r).
  assert (C : polls_from 0 (t ++ [e]) = polls_from 0 t).
  { apply polls_from_tail. intros e' [<-|[]]. destruct e; try contradiction; auto. }
  assert (D : yields (t ++ [e]) = yields t).
  { rewrite yields_app. destruct e; try contradiction; cbn; try apply app_nil_r. destruct o; try contradiction. cbn. apply app_nil_r. }
  constructor; rewrite ?A, ?B, ?C, ?D; auto.
  rewrite chk_app, Hchk. destruct e; try contradiction; reflexivity.
Qed.

Lemma Slab_same s s' : g_ent s' = g_ent s -> g_next s' = g_next s -> g_len s' = g_len s -> g_keys s' = g_keys s ->
  g_states s' = g_states s -> g_cap s' = g_cap s -> g_last s' = g_last s -> g_queue s' = g_queue s ->
  g_nmem s' = g_nmem s -> g_ret s' = g_ret s -> Slab s -> Slab s'.
Proof.
  intros E1 E2 E3 E4 E5 E6 E7 E8 E9 E10 [A B C D E F G0 H].
  constructor; unfold pc, pend in *; rewrite ?E1, ?E2, ?E3, ?E4, ?E5, ?E6, ?E7, ?E8, ?E9, ?E10; auto.
Qed.
Lemma G_same s s' t : g_ent s' = g_ent s -> g_len s' = g_len s -> g_nmem s' = g_nmem s -> g_ret s' = g_ret s -> Slab s' -> G s t -> G s' t.
Proof. intros E1 E2 E3 E4 HS' [HS Hret Hdead Hpolls Honce Hchk Hlen]. constructor; rewrite ?E1, ?E2, ?E3, ?E4; auto. Qed.
Lemma G_cleanup s t : G s t -> G (g_cleanup s) t /\ g_clean (g_cleanup s) = true.
Proof. intros HG. destruct (Slab_cleanup s (G_slab _ _ HG)) as [A B]. split; auto. apply (G_same s); auto. Qed.

Lemma chk_dropped_lt t : forall nm dead, chk nm dead t = true -> forall m, In m (droppedl t) -> m < nm + length (inserted t).
Proof.
  induction t as [|e t IH]; intros nm dead H m Hm; [destruct Hm|].
  destruct e; cbn [chk] in H; cbn [droppedl flat_map app In] in Hm; cbn [inserted flat_map app length]; try (eapply IH; eauto; fail).
  - apply andb_true_iff in H as [_ H]. eapply IH; eauto.
  - apply andb_true_iff in H as [H1 H]. apply andb_true_iff in H1 as [H1 _]. apply Nat.ltb_lt in H1.
    destruct Hm as [<-|Hm]; [lia|]. eapply IH; eauto.
  - specialize (IH (S nm) dead H m Hm). fold (inserted t). lia.
Qed.

Lemma pend_occ s i : Slab s -> g_awaited s i = true -> exists m, occ (g_ent s) i m /\ g_member s i = m.
Proof.
  intros HS Ha. destruct (proj2 (sl_pend s HS i) Ha) as [m Hm]. exists m. split; auto.
  unfold g_member. rewrite (nth_error_nth' _ _ _ _ Hm). reflexivity.
Qed.

(* the state after a member in slot k completed (fut = true: Ready, recorded in g_last; fut = false: None, queued) *)
Definition vac_state (s: gst) (k: nat) (fut: bool) : gst :=
  let s1 := slab_remove s k in
  if fut then gset s1 (g_ent s1) (g_next s1) (g_len s1) (g_keys s1) (upd (g_states s1) k PNone) (g_cap s1) (Some k) (g_queue s1) (g_done s1) (g_count s1) (g_nmem s1) (g_ret s1)
  else gset s1 (g_ent s1) (g_next s1) (g_len s1) (g_keys s1) (upd (g_states s1) k PNone) (g_cap s1) (g_last s1) (g_queue s1 ++ [k]) (g_done s1 + 1) (g_count s1) (g_nmem s1) (g_ret s1).
Lemma Slab_vac_state s k m fut : Slab s -> g_last s = None -> occ (g_ent s) k m -> Slab (vac_state s k fut).
Proof.
  intros HS Hl Ho. apply (slab_vacate_gen s _ k m HS Ho); try (destruct fut; reflexivity).
  - intros x. assert (Hk : In k (g_keys s)) by (apply (sl_keys s HS); left; exists m; auto).
    assert (Hpc : pc (vac_state s k fut) k) by (destruct fut; [left; reflexivity|right; cbn; apply in_or_app; right; left; auto]).
    replace (g_keys (vac_state s k fut)) with (g_keys s) by (destruct fut; reflexivity).
    destruct (Nat.eq_dec x k) as [->|Hne]; tauto.
  - intros x Hne. unfold pc. destruct fut; cbn; rewrite ?Hl.
    + split; [intros [X|X]; [inversion X; congruence|auto]|intros [X|X]; [discriminate|auto]].
    + rewrite in_app_iff. cbn. split; [intros [X|[X|[X|[]]]]; auto; congruence|intros [X|X]; auto].
Qed.
Lemma vac_state_occ s k fut k' m' : occ (g_ent (vac_state s k fut)) k' m' <-> occ (g_ent s) k' m' /\ (true = true -> k' <> k).
Proof. replace (g_ent (vac_state s k fut)) with (upd (g_ent s) k (Vac (g_next s))) by (destruct fut; reflexivity). rewrite occ_upd_vac. tauto. Qed.
Lemma vac_state_len s k m fut : Slab s -> occ (g_ent s) k m -> g_len (vac_state s k fut) + 1 = g_len s.
Proof.
  intros HS Ho. destruct (slab_vacate s k m HS Ho) as (_ & _ & Hge & _).
  replace (g_len (vac_state s k fut)) with (g_len s - 1) by (destruct fut; reflexivity). lia.
Qed.

Definition Ug (s: gst) (t: list ev) := G s t /\ g_last s = None.
Definition Tg (s: gst) (t: list ev) := G s t /\ g_clean s = true.

Lemma g_handle_cases s i a : let m := g_member s i in
  match a with
  | AReady (ROk v) | AReady (RErr v) => g_handle s i a = (vac_state s i true, Stop RNone (OSome (Some i) [v]), [EDc m])
  | AItem v => g_handle s i a = (s, Stop RSelf (OSome (Some i) [v]), [])
  | AEnd => g_handle s i a = (vac_state s i false, Cont, [EDc m])
  | APanic => g_handle s i a = (s, Abort, [])
  | APend => g_handle s i a = (s, Cont, [])
  end.
Proof. destruct a as [|[v|v]|v| |]; reflexivity. Qed.

Lemma Ug_cont : forall s t i a s' eh wkr, Ug s t -> g_awaited s i = true -> i < g_slots s ->
  g_handle s i a = (s', Cont, eh) -> Ug s' (t ++ EC (g_member s i) wkr :: EAns a :: strip eh).
Proof.
  intros s t i a s' eh wkr [HG Hl] Ha Hi Hh. destruct (pend_occ s i (G_slab _ _ HG) Ha) as (m & Ho & Hm). rewrite Hm.
  pose proof (g_handle_cases s i a) as Hc. cbn zeta in Hc. rewrite Hm in Hc. clear Hm.
  destruct a as [|[v|v]|v| |]; rewrite Hc in Hh; inversion Hh; subst; clear Hh.
  - split; auto. apply (G_seg s' s' t i m wkr APend false []); auto; [apply HG|intros; split; [intros X; split; [auto|discriminate]|intros [X _]; auto]].
  - split; [|exact Hl].
    apply (G_seg s (vac_state s i false) t i m wkr AEnd true []); auto.
    + apply (Slab_vac_state s i m); auto. apply HG.
    + intros. apply vac_state_occ.
    + apply (vac_state_len s i m); auto. apply HG.
Qed.

Lemma Ug_stop : forall s t i a s' r o eh wkr, Ug s t -> g_awaited s i = true -> i < g_slots s ->
  g_handle s i a = (s', Stop r o, eh) -> Tg (g_cleanup s') (t ++ EC (g_member s i) wkr :: EAns a :: strip eh ++ [EEndR o]).
Proof.
  intros s t i a s' r o eh wkr [HG Hl] Ha Hi Hh. destruct (pend_occ s i (G_slab _ _ HG) Ha) as (m & Ho & Hm). rewrite Hm.
  pose proof (g_handle_cases s i a) as Hc. cbn zeta in Hc. rewrite Hm in Hc. clear Hm.
  assert (Hready : forall v, out_of (m, a) = [(m, v)] -> 
            G (vac_state s i true) (t ++ EC m wkr :: EAns a :: (if true then [EDc m] else []) ++ [EEndR (OSome (Some i) [v])])).
  { intros v Hv. apply (G_seg s (vac_state s i true) t i m wkr a true); auto.
    - apply (Slab_vac_state s i m); auto. apply HG.
    - intros. apply vac_state_occ.
    - apply (vac_state_len s i m); auto. apply HG.
    - right. exists v. auto. }
  destruct a as [|[v|v]|v| |]; rewrite Hc in Hh; inversion Hh; subst; clear Hh.
  - apply G_cleanup. apply (Hready v). reflexivity.
  - apply G_cleanup. apply (Hready v). reflexivity.
  - apply G_cleanup. apply (G_seg s' s' t i m wkr (AItem v) false [EEndR (OSome (Some i) [v])]); auto;
      [apply HG|intros; split; [intros X; split; [auto|discriminate]|intros [X _]; auto]|right; exists v; auto].
Qed.

Lemma Tg_order : forall s is s1 t, g_order s = Some (is, s1) -> Tg s t -> Ug s1 t.
Proof.
  intros s is s1 t E [HG Hc]. unfold g_order in E. inversion E; subst; clear E.
  assert (Hcl : g_last s = None /\ g_queue s = []).
  { unfold g_clean in Hc. destruct (g_last s); [discriminate|]. destruct (g_queue s); [auto|discriminate]. }
  destruct Hcl as [Hl Hq]. split; [|reflexivity].
  apply (G_same s); auto. apply (Slab_same s); auto. apply HG.
Qed.
Lemma Ug_finish : forall s t, Ug s t ->
  match snd (g_finish s) with Some o => Tg (fst (g_finish s)) (t ++ [EEndR o]) | None => Tg (fst (g_finish s)) (t ++ [EEndP]) end.
Proof.
  intros s t [HG _]. unfold g_finish. destruct (g_stream s && (g_done s =? g_count s)); cbn [fst snd].
  - destruct (G_cleanup s _ (G_silent s t (EEndR ONone) HG I)) as [A B]; split; auto.
  - destruct (G_cleanup s _ (G_silent s t EEndP HG I)) as [A B]; split; auto.
Qed.
Lemma Tg_silent s t e : Tg s t -> silent e -> Tg s (t ++ [e]).
Proof. intros [HG Hc] He. split; auto. apply G_silent; auto. Qed.
Lemma Tg_pre : forall s t o, Tg s t -> g_pre_exit s = Some o -> Tg s (t ++ [EEndR o]).
Proof. intros s t o HT E. unfold g_pre_exit in E. destruct (g_len s =? 0); inversion E; subst. apply Tg_silent; auto. exact I. Qed.
Lemma Tg_endp : forall s t, Tg s t -> Tg s (t ++ [EEndP]).
Proof. intros. apply Tg_silent; auto. exact I. Qed.
Lemma Tg_Q : forall s t, Tg s t -> g_Q s. Proof. intros s t [HG _]. apply Slab_Q, HG. Qed.
Lemma Ug_Q : forall s t, Ug s t -> g_Q s. Proof. intros s t [HG _]. apply Slab_Q, HG. Qed.

(* ---------- mutations ---------- *)
Definition res_state (s: gst) (a: nat) : gst :=
  gset s (g_ent s) (g_next s) (g_len s) (g_keys s) (g_states s ++ repeat PNone a) (g_cap s + a) (g_last s) (g_queue s) (g_done s) (g_count s) (g_nmem s) (g_ret s).
Lemma Slab_res s a : Slab s -> Slab (res_state s a).
Proof.
  intros [A B [C1 C2] D E F G0 H]. constructor; cbn; auto.
  - rewrite app_length, repeat_length. split; lia.
  - intros k. rewrite D. unfold pend. cbn. rewrite nth_app_states. tauto.
Qed.
Lemma Tg_reserve (w: world gst) a : Tg (cs _ w) (strip (tr _ w)) ->
  Tg (cs _ (g_reserve w a)) (strip (tr _ (g_reserve w a))) /\ dropped _ (g_reserve w a) = dropped _ w /\ tr _ (g_reserve w a) = tr _ w.
Proof.
  intros [HG Hc]. unfold g_reserve. destruct (_ <? _); [split; [split|]; auto|]. cbn. split; [|auto]. split; [|exact Hc].
  apply (G_same (cs _ w)); auto. apply Slab_res, HG.
Qed.

Lemma clean_npc s : g_clean s = true -> forall x, ~ pc s x.
Proof. unfold g_clean, pc. destruct (g_last s); [discriminate|]. destruct (g_queue s); [|discriminate]. intros _ x [X|[]]. discriminate. Qed.

Lemma dead_vac s t i m ent' : G s t -> occ (g_ent s) i m ->
  (forall k' m', occ ent' k' m' <-> occ (g_ent s) k' m' /\ k' <> i) ->
  forall m', m' < g_nmem s -> (In m' (droppedl t ++ [m]) <-> ~ occ ent' (nth m' (g_ret s) 0) m').
Proof.
  intros HG Ho Hocc m' Hm'. destruct (G_alive s t i m HG Ho) as (Hm & Hkey & Hnd & Hlen).
  rewrite Hocc, in_app_iff, (G_dead _ _ HG m' Hm'). cbn.
  destruct (Nat.eq_dec m' m) as [->|Hne].
  - rewrite Hkey. split; [intros _ [_ X]; apply X; auto|auto].
  - split.
    + intros [X|[X|[]]]; [intros [Y _]; auto|congruence].
    + intros X. left. intros Y. apply X. split; auto. intros E. rewrite E in Y. unfold occ in Y, Ho. congruence.
Qed.

Lemma Tg_remove s t k m : Tg s t -> occ (g_ent s) k m ->
  let s1 := slab_remove s k in
  let s2 := gset s1 (g_ent s1) (g_next s1) (g_len s1) (rm_key k (g_keys s1)) (upd (g_states s1) k PNone) (g_cap s1) (g_last s1) (g_queue s1) (g_done s1) (g_count s1) (g_nmem s1) (g_ret s1) in
  Tg s2 (t ++ [EDc m; EBool true]).
Proof.
  intros [HG Hc] Ho s1 s2. pose proof (clean_npc s Hc) as Hnpc.
  assert (HS2 : Slab s2).
  { apply (slab_vacate_gen s s2 k m (G_slab _ _ HG) Ho); try reflexivity.
    - intros x. change (g_keys s2) with (rm_key k (g_keys s)). rewrite In_rm_key. split; [intros [A B]; left; auto|intros [[A B]|[A B]]; [auto|exfalso; apply (Hnpc k); exact B]]. }
  split; [|exact Hc].
  destruct (G_alive s t k m HG Ho) as (Hm & Hkey & Hnd & Hlen).
  destruct (slab_vacate s k m (G_slab _ _ HG) Ho) as (_ & _ & Hge & _).
  destruct HG as [HS Hret Hdead Hpolls Honce Hchk Hglen].
  assert (A : inserted (t ++ [EDc m; EBool true]) = inserted t) by (rewrite inserted_app; cbn; apply app_nil_r).
  assert (B : droppedl (t ++ [EDc m; EBool true]) = droppedl t ++ [m]) by (rewrite droppedl_app; reflexivity).
  assert (C : polls_from 0 (t ++ [EDc m; EBool true]) = polls_from 0 t).
  { apply polls_from_tail. intros e [<-|[<-|[]]]; auto. }
  assert (D : yields (t ++ [EDc m; EBool true]) = yields t) by (rewrite yields_app; cbn; apply app_nil_r).
  constructor; rewrite ?A, ?B, ?C, ?D; auto.
  - intros m' Hm'. apply (dead_vac s t k m); auto; [constructor; auto|]. intros. cbn. rewrite occ_upd_vac. tauto.
  - rewrite chk_app, Hchk, Hlen, app_nil_r. cbn [andb chk Nat.add].
    assert (E1 : (m <? g_nmem s) = true) by (apply Nat.ltb_lt; auto).
    assert (E2 : mem m (droppedl t) = false) by (destruct (mem m (droppedl t)) eqn:E; auto; apply mem_In in E; contradiction).
    rewrite E1, E2. reflexivity.
  - rewrite app_length. cbn. lia.
Qed.

Lemma keyof_ext ret k (l: list (nat * nat)) : Forall (fun p => fst p < length ret) l -> map (keyof (ret ++ [k])) l = map (keyof ret) l.
Proof. induction 1 as [|p l Hp _ IH]; cbn; auto. rewrite IH. unfold keyof. rewrite app_nth1 by auto. reflexivity. Qed.
Lemma outs_bound n (p: list (nat * ans)) : Forall (fun x => fst x < n) p -> Forall (fun x => fst x < n) (outs p).
Proof.
  induction 1 as [|[m a] l Hp _ IH]; cbn; auto. apply Forall_app. split; auto.
  unfold out_of. cbn. destruct a as [|[v|v]|v| |]; auto.
Qed.

Lemma Tg_insert s s' t : Tg s t ->
  let k := g_next s in let m := g_nmem s in
  k < length (g_states s) ->
  (g_ent s', g_next s') = (if k =? length (g_ent s) then (g_ent s ++ [Occ m], k + 1)
                           else (upd (g_ent s) k (Occ m), match nth k (g_ent s) (Vac 0) with Vac nx => nx | _ => 0 end)) ->
  g_len s' = g_len s + 1 -> g_states s' = upd (g_states s) k PPending -> g_cap s' = g_cap s ->
  g_nmem s' = m + 1 -> g_ret s' = g_ret s ++ [k] -> g_keys s' = ins_sorted k (g_keys s) ->
  g_last s' = g_last s -> g_queue s' = g_queue s ->
  Tg s' (t ++ [EK k]).
Proof.
  intros [HG Hc] k m Hk He Hl Hst Hcap Hnm Hret Hkeys Hlast Hqueue.
  pose proof (clean_npc s Hc) as Hnpc.
  assert (Hc' : g_clean s' = true) by (unfold g_clean in *; rewrite Hlast, Hqueue; exact Hc).
  destruct (slab_occupy_gen s s' (G_slab _ _ HG) Hnpc (clean_npc s' Hc') Hk He Hl Hst Hcap Hnm Hret Hkeys) as (HS' & Hocc & Hnok).
  split; [|exact Hc'].
  destruct HG as [HS Hret0 Hdead Hpolls Honce Hchk Hglen].
  pose proof (sl_ret s HS) as Hnr.
  assert (A : inserted (t ++ [EK k]) = inserted t ++ [k]) by (rewrite inserted_app; reflexivity).
  assert (B : droppedl (t ++ [EK k]) = droppedl t) by (rewrite droppedl_app; cbn; apply app_nil_r).
  assert (C : polls_from 0 (t ++ [EK k]) = polls_from 0 t).
  { apply polls_from_tail. intros e [<-|[]]; auto. }
  assert (D : yields (t ++ [EK k]) = yields t) by (rewrite yields_app; cbn; apply app_nil_r).
  assert (Hdlt : forall x, In x (droppedl t) -> x < g_nmem s).
  { intros x Hx. pose proof (chk_dropped_lt t 0 [] Hchk x Hx) as X. rewrite <- Hret0, <- Hnr in X. exact X. }
  constructor; rewrite ?A, ?B, ?C, ?D; auto.
  - rewrite Hret, Hret0. reflexivity.
  - intros m' Hm'. rewrite Hnm in Hm'. rewrite Hocc, Hret. fold m in Hm'.
    destruct (Nat.eq_dec m' m) as [->|Hne].
    + assert (Hnth : nth m (g_ret s ++ [k]) 0 = k) by (unfold m; rewrite Hnr, app_nth2, Nat.sub_diag by lia; reflexivity).
      rewrite Hnth.
      split; [intros X; apply Hdlt in X; unfold m in X; lia|intros X; exfalso; apply X; left; auto].
    + assert (Hlt : m' < g_nmem s) by (unfold m in *; lia).
      rewrite app_nth1 by lia. rewrite (Hdead m' Hlt). split.
      * intros X [[_ Y]|Y]; [apply Hne; exact Y|auto].
      * intros X Y. apply X. right. exact Y.
  - rewrite Hnm. eapply Forall_impl; [|exact Hpolls]. cbn. intros p Hp. unfold m. lia.
  - rewrite Hret, keyof_ext; auto. rewrite <- Hnr. apply outs_bound. exact Hpolls.
  - rewrite chk_app, Hchk. reflexivity.
  - rewrite Hl, app_length. cbn. lia.
Qed.

Lemma Tg_mut : forall (w: world gst) m a sc, dropped _ w = false -> Tg (cs _ w) (strip (tr _ w)) ->
  dropped _ (g_mutate w m a sc) = false -> Tg (cs _ (g_mutate w m a sc)) (strip (tr _ (g_mutate w m a sc))).
Proof.
  intros w m a sc Hd HT Hd'. unfold g_mutate in *.
  destruct m as [|[|[|[|[|[|m]]]]]].
  - (* insert *)
    set (w1 := if g_cap (cs gst w) <=? g_len (cs gst w) then g_reserve w (g_cap (cs gst w) * 2 + 1) else w) in *.
    assert (H1 : Tg (cs _ w1) (strip (tr _ w1))).
    { unfold w1. destruct (_ <=? _); [apply (Tg_reserve w _ HT)|exact HT]. }
    clearbody w1. clear HT Hd.
    set (s := cs gst w1) in *. set (k := g_next s) in *.
    destruct (if k =? length (g_ent s) then _ else _) as [ent' nx'] eqn:E.
    destruct ((k <? length (g_states s)) && g_clean s) eqn:Eg; [|cbn in Hd'; discriminate].
    apply andb_true_iff in Eg as [Ek _]. apply Nat.ltb_lt in Ek.
    cbn [cs tr emit w_occupy]. rewrite strip_app. change (strip [EK k]) with [EK k].
    apply (Tg_insert s _ _ H1 Ek); try reflexivity. cbn [g_ent g_next gset]. symmetry. exact E.
  - (* remove *)
    destruct (nth_error (g_ret (cs gst w)) a) as [k|]; [|exact HT].
    destruct (existsb (fun x => x =? k) (g_keys (cs gst w))) eqn:Ex.
    + apply existsb_exists in Ex as (x & Hx & Ex). apply Nat.eqb_eq in Ex. subst x.
      destruct HT as [HG Hc].
      assert (Ho : occupied (g_ent (cs gst w)) k).
      { apply (sl_keys _ (G_slab _ _ HG)) in Hx as [X|X]; auto. exfalso. eapply clean_npc; eauto. }
      destruct Ho as [m0 Ho].
      assert (Hm : g_member (cs gst w) k = m0) by (unfold g_member; rewrite (nth_error_nth' _ _ _ _ Ho); reflexivity).
      rewrite Hm. cbn [cs tr emit w_vacate]. rewrite strip_app. change (strip [EDc m0; EBool true]) with [EDc m0; EBool true].
      apply (Tg_remove _ _ k m0); auto. split; auto.
    + cbn [cs tr emit]. rewrite strip_app. apply Tg_silent; auto. exact I.
  - apply (Tg_reserve w a HT).
  - cbn [cs tr emit]. rewrite strip_app. apply Tg_silent; auto. exact I.
  - destruct (nth_error _ a); [|exact HT]. cbn [cs tr emit]. rewrite strip_app. apply Tg_silent; auto. exact I.
  - cbn [cs tr emit]. rewrite strip_app. apply Tg_silent; auto. exact I.
  - cbn [cs tr emit]. rewrite strip_app. apply Tg_silent; auto. exact I.
Qed.

Lemma Tg_init stream cap0 : Tg (g_init stream cap0) [].
Proof.
  split; [|reflexivity]. constructor; cbn; auto.
  - constructor; cbn; auto.
    + exists []. split; [apply (Ch_end [])|intros k Hk; lia].
    + rewrite repeat_length. split; lia.
    + intros k. unfold occupied, occ, pend. cbn. split.
      * intros [m H]. destruct k; discriminate.
      * intros H. exfalso. destruct (Nat.lt_ge_cases k cap0) as [Hl|Hl]; [rewrite repeat_nth in H by auto|rewrite nth_overflow in H by (rewrite repeat_length; auto)]; discriminate.
    + intros k. unfold occupied, occ, pc. cbn. split; [intros []|intros [[m H]|[H|[]]]; [destruct k|]; discriminate].
    + intros k [H|[]]. discriminate.
    + intros k m H. unfold occ in H. destruct k; discriminate.
  - intros m Hm. lia.
Qed.

(* ============ theorems: FutureGroup (stream = false) and StreamGroup (stream = true), plain and keyed views, both waker strategies ============ *)
Definition group_run' (selective stream: bool) (cap0: nat) (ops: list op) :=
  run_ops gst g_slots g_awaited g_member g_handle false false g_order g_pre_exit (fun _ => true) g_finish g_cleanup g_drop
    (fun _ => false) g_mutate (mk_world (g_init stream cap0) selective cap0 []) ops.

Theorem group_trace_inv selective stream cap0 ops : let w := group_run' selective stream cap0 ops in
  dropped _ w = false -> Tg (cs _ w) (strip (tr _ w)).
Proof.
  intros w. unfold w, group_run'.
  apply (TW_run gst g_slots g_awaited g_member g_handle false false g_order g_pre_exit (fun _ => true) g_finish g_cleanup g_drop
           (fun _ => false) g_Q G1 G8 G9 G10 G12 g_mutate Tg Ug Ug_cont Ug_stop (fun s is s1 t _ => Tg_order s is s1 t) Ug_finish Tg_pre (fun s t _ _ => Tg_endp s t)
           (fun (E: false = true) => match Bool.diff_false_true E with end) Tg_Q Ug_Q Tg_mut).
  intros _. apply Tg_init.
Qed.

Section Corollaries.
  Variables (selective stream: bool) (cap0: nat) (ops: list op).
  Let w := group_run' selective stream cap0 ops.
  Let t := strip (tr _ w).
  Let s := cs _ w.
  Hypothesis live : dropped _ w = false.
  Definition alive (m: nat) := m < length (inserted t) /\ ~ In m (droppedl t).

  (* every output / item a member produces is returned exactly once, at once, in production order,
     with the key that the member's insert returned; nothing else is ever returned *)
  Theorem C11_once : map (keyof (inserted t)) (outs (polls_from 0 t)) = yields t.
  Proof. destruct (group_trace_inv selective stream cap0 ops live) as [HG _]. change (G s t) in HG. rewrite <- (G_ret _ _ HG). apply HG. Qed.
  (* members are polled only while inserted and neither completed nor removed; each member is dropped at most once *)
  Theorem C11_discipline : chk 0 [] t = true.
  Proof. destruct (group_trace_inv selective stream cap0 ops live) as [HG _]. apply HG. Qed.
  (* the set view *)
  Theorem C11_len : g_len s + length (droppedl t) = length (inserted t).
  Proof. destruct (group_trace_inv selective stream cap0 ops live) as [HG _]. apply HG. Qed.
  Theorem C11_keys k : In k (g_keys s) <-> exists m, alive m /\ nth m (inserted t) 0 = k.
  Proof.
    destruct (group_trace_inv selective stream cap0 ops live) as [HG Hc]. change (G s t) in HG. change (g_clean s = true) in Hc.
    pose proof (G_slab _ _ HG) as HS. rewrite (sl_keys _ HS). rewrite <- (G_ret _ _ HG). split.
    - intros [[m Ho]|X]; [|exfalso; eapply clean_npc; eauto].
      destruct (G_alive _ _ _ _ HG Ho) as (A & B & C & D). exists m. split; [split; [lia|auto]|auto].
    - intros (m & [A B] & C). left. exists m.
      assert (Hm : m < g_nmem s) by (rewrite (sl_ret _ HS), (G_ret _ _ HG); exact A).
      pose proof (G_dead _ _ HG m Hm) as X. rewrite C in X.
      unfold occ. destruct (nth_error (g_ent s) k) as [[m'|nx]|] eqn:E.
      + destruct (Nat.eq_dec m' m) as [->|Hne]; auto. exfalso. apply B, X. unfold occ. rewrite E. congruence.
      + exfalso. apply B, X. unfold occ. rewrite E. discriminate.
      + exfalso. apply B, X. unfold occ. rewrite E. discriminate.
  Qed.
  Theorem C11_keys_distinct m1 m2 : alive m1 -> alive m2 -> nth m1 (inserted t) 0 = nth m2 (inserted t) 0 -> m1 = m2.
  Proof.
    destruct (group_trace_inv selective stream cap0 ops live) as [HG Hc]. change (G s t) in HG. change (g_clean s = true) in Hc.
    pose proof (G_slab _ _ HG) as HS. intros [A1 B1] [A2 B2] E.
    assert (H1 : m1 < g_nmem s) by (rewrite (sl_ret _ HS), (G_ret _ _ HG); exact A1).
    assert (H2 : m2 < g_nmem s) by (rewrite (sl_ret _ HS), (G_ret _ _ HG); exact A2).
    pose proof (G_dead _ _ HG m1 H1) as X1. pose proof (G_dead _ _ HG m2 H2) as X2. rewrite (G_ret _ _ HG) in X1, X2. rewrite E in X1.
    unfold occ in X1, X2. destruct (nth_error (g_ent s) (nth m2 (inserted t) 0)) as [[m'|nx]|].
    - destruct (Nat.eq_dec m' m1) as [->|N1]; [|exfalso; apply B1, X1; congruence].
      destruct (Nat.eq_dec m1 m2) as [->|N2]; auto. exfalso; apply B2, X2; congruence.
    - exfalso. apply B1, X1. discriminate.
    - exfalso. apply B1, X1. discriminate.
  Qed.
  Theorem C11_capacity : g_len s <= g_cap s.
  Proof.
    destruct (group_trace_inv selective stream cap0 ops live) as [HG _]. change (G s t) in HG. pose proof (G_slab _ _ HG) as HS.
    rewrite (sl_len _ HS). pose proof (count_occ_le (g_ent s)). destruct (sl_cap _ HS). lia.
  Qed.
End Corollaries.

(* the model's insert never takes its panic branch: the guard made explicit in g_mutate always holds *)
Lemma Slab_next_lt s : Slab s -> g_len s < g_cap s -> g_next s < length (g_states s).
Proof.
  intros [(l & Hc & Hall) Hlen [C1 C2] _ _ _ _ _] Hlt. destruct (Chain_head _ _ _ Hc) as (Hle & Hend & _).
  destruct (Nat.eq_dec (g_next s) (length (g_ent s))) as [E|E]; [|lia].
  specialize (Hend E). subst l.
  assert (count_occ (g_ent s) = length (g_ent s)) by (apply count_occ_full; intros k Hk; destruct (Hall k Hk) as [X|[]]; auto). lia.
Qed.
Theorem insert_never_panics (w: world gst) a sc : dropped _ w = false -> Tg (cs _ w) (strip (tr _ w)) ->
  dropped _ (g_mutate w 0 a sc) = false.
Proof.
  intros Hd HT. unfold g_mutate.
  set (w1 := if g_cap (cs gst w) <=? g_len (cs gst w) then g_reserve w (g_cap (cs gst w) * 2 + 1) else w).
  assert (H1 : Tg (cs _ w1) (strip (tr _ w1)) /\ dropped _ w1 = false /\ g_len (cs _ w1) < g_cap (cs _ w1)).
  { unfold w1. destruct (Nat.leb_spec (g_cap (cs gst w)) (g_len (cs gst w))) as [Hle|Hlt]; [|auto].
    destruct (Tg_reserve w (g_cap (cs gst w) * 2 + 1) HT) as (A & B & _). split; [exact A|]. split; [congruence|].
    unfold g_reserve. destruct (Nat.ltb_spec (g_len (cs gst w) + (g_cap (cs gst w) * 2 + 1)) (g_cap (cs gst w))) as [X|X]; [lia|].
    cbn. destruct HT as [HG _]. pose proof (G_slab _ _ HG) as HS. pose proof (count_occ_le (g_ent (cs gst w))).
    rewrite (sl_len _ HS). destruct (sl_cap _ HS). lia. }
  destruct H1 as ([HG Hc] & Hd1 & Hlt). clearbody w1.
  set (s := cs gst w1) in *. set (k := g_next s) in *.
  destruct (if k =? length (g_ent s) then _ else _) as [ent' nx'].
  assert (Hk : k < length (g_states s)) by (apply Slab_next_lt; [apply HG|auto]).
  apply Nat.ltb_lt in Hk. rewrite Hk, Hc. cbn. exact Hd1.
Qed.

(* ============ None iff empty ============ *)
(* every `None` is returned with no member alive; for a StreamGroup every `Pending` is returned with some member alive
   (for a FutureGroup the same holds as long as no member answers End, which a future cannot) *)
Fixpoint chkN (stream: bool) (nm nd: nat) (t: list ev) : bool :=
  match t with
  | [] => true
  | EK _ :: r => chkN stream (S nm) nd r
  | EDc _ :: r => chkN stream nm (S nd) r
  | EEndR ONone :: r => (nm =? nd) && chkN stream nm nd r
  | EEndP :: r => (negb stream || negb (nm =? nd)) && chkN stream nm nd r
  | _ :: r => chkN stream nm nd r
  end.
Lemma chkN_app st t u : forall nm nd, chkN st nm nd (t ++ u) = chkN st nm nd t && chkN st (nm + length (inserted t)) (nd + length (droppedl t)) u.
Proof.
  induction t as [|e t IH]; intros nm nd; cbn [app chkN inserted droppedl flat_map length]; [rewrite !Nat.add_0_r; reflexivity|].
  destruct e; cbn [app length]; rewrite ?IH; fold (inserted t); fold (droppedl t); rewrite ?Nat.add_succ_r; auto.
  - rewrite andb_assoc. reflexivity.
  - destruct o; rewrite ?IH; auto. rewrite andb_assoc. reflexivity.
Qed.

Section NoneIff.
Variable stream : bool.
Definition Nn (s: gst) (t: list ev) := g_stream s = stream /\ chkN stream 0 0 t = true.
Definition Tn (s: gst) (t: list ev) := Tg s t /\ Nn s t.
Definition Un (s: gst) (t: list ev) := Ug s t /\ Nn s t /\ g_count s = g_len s + g_done s.

Lemma Nn_seg s s' t u : G s t -> Nn s t -> g_stream s' = g_stream s ->
  chkN (g_stream s) (length (inserted t)) (length (droppedl t)) u = true -> Nn s' (t ++ u).
Proof. intros HG [Hst HN] Hs Hu. split; [congruence|]. rewrite chkN_app, HN. cbn. rewrite <- Hst. exact Hu. Qed.
Lemma vac_stream s k fut : g_stream (vac_state s k fut) = g_stream s. Proof. destruct fut; reflexivity. Qed.
Lemma vac_count s k fut : g_count (vac_state s k fut) = g_count s. Proof. destruct fut; reflexivity. Qed.

Lemma Un_cont : forall s t i a s' eh wkr, Un s t -> g_awaited s i = true -> i < g_slots s ->
  g_handle s i a = (s', Cont, eh) -> Un s' (t ++ EC (g_member s i) wkr :: EAns a :: strip eh).
Proof.
  intros s t i a s' eh wkr (HU & HN & Hcnt) Ha Hi Hh. split; [eapply Ug_cont; eauto|].
  destruct HU as [HG Hl]. destruct (pend_occ s i (G_slab _ _ HG) Ha) as (m & Ho & Hm). clear Hm.
  pose proof (g_handle_cases s i a) as Hc. cbn zeta in Hc.
  destruct a as [|[v|v]|v| |]; rewrite Hc in Hh; inversion Hh; subst; clear Hh.
  - split; [apply (Nn_seg s' s'); auto|exact Hcnt].
  - split; [apply (Nn_seg s); auto using vac_stream|].
    pose proof (vac_state_len s i m false (G_slab _ _ HG) Ho) as X. unfold vac_state in *. cbn in X |- *. lia.
Qed.
Lemma Un_stop : forall s t i a s' r o eh wkr, Un s t -> g_awaited s i = true -> i < g_slots s ->
  g_handle s i a = (s', Stop r o, eh) -> Tn (g_cleanup s') (t ++ EC (g_member s i) wkr :: EAns a :: strip eh ++ [EEndR o]).
Proof.
  intros s t i a s' r o eh wkr (HU & HN & Hcnt) Ha Hi Hh. split; [eapply Ug_stop; eauto|].
  destruct HU as [HG Hl]. pose proof (g_handle_cases s i a) as Hc. cbn zeta in Hc.
  assert (Hgo : forall s'' u, g_stream s'' = g_stream s -> chkN (g_stream s) (length (inserted t)) (length (droppedl t)) u = true -> Nn (g_cleanup s'') (t ++ u))
    by (intros; apply (Nn_seg s); auto).
  destruct a as [|[v|v]|v| |]; rewrite Hc in Hh; inversion Hh; subst; clear Hh.
  - apply Hgo; reflexivity.
  - apply Hgo; reflexivity.
  - apply Hgo; reflexivity.
Qed.
Lemma Tn_order : forall s is s1 t, g_order s = Some (is, s1) -> Tn s t -> Un s1 t.
Proof.
  intros s is s1 t E [HT HN]. split; [eapply Tg_order; eauto|]. unfold g_order in E. inversion E; subst. split; [destruct HN; split; auto|]. cbn. lia.
Qed.
Lemma G_empty_iff s t : G s t -> (g_len s = 0 <-> length (inserted t) = length (droppedl t)).
Proof. intros HG. pose proof (G_len _ _ HG). lia. Qed.
Lemma Un_finish : forall s t, Un s t ->
  match snd (g_finish s) with Some o => Tn (fst (g_finish s)) (t ++ [EEndR o]) | None => Tn (fst (g_finish s)) (t ++ [EEndP]) end.
Proof.
  intros s t (HU & HN & Hcnt). pose proof (Ug_finish s t HU) as HT. destruct HU as [HG Hl]. unfold g_finish in *.
  destruct (g_stream s) eqn:Es; cbn [andb] in *.
  - destruct (Nat.eqb_spec (g_done s) (g_count s)) as [E|E]; cbn [fst snd] in *; (split; [exact HT|]);
      (apply (Nn_seg s); [exact HG|exact HN|reflexivity|]); cbn [chkN]; rewrite ?Es; cbn [negb orb].
    + assert (g_len s = 0) by lia. apply (G_empty_iff _ _ HG) in H. rewrite H, Nat.eqb_refl. reflexivity.
    + assert (g_len s <> 0) by lia. destruct (Nat.eqb_spec (length (inserted t)) (length (droppedl t))) as [X|X]; [|reflexivity].
      apply (G_empty_iff _ _ HG) in X. contradiction.
  - cbn [fst snd] in *. split; [exact HT|]. apply (Nn_seg s); [exact HG|exact HN|reflexivity|]. cbn [chkN]. rewrite ?Es. reflexivity.
Qed.
Lemma Tn_pre : forall s t o, Tn s t -> g_pre_exit s = Some o -> Tn s (t ++ [EEndR o]).
Proof.
  intros s t o [HT HN] E. split; [apply Tg_pre; auto|]. unfold g_pre_exit in E. destruct (Nat.eqb_spec (g_len s) 0) as [E0|]; inversion E; subst.
  destruct HT as [HG _]. apply (Nn_seg s); auto. cbn. apply (G_empty_iff _ _ HG) in E0. rewrite E0, Nat.eqb_refl. reflexivity.
Qed.
Lemma Tn_endp : forall s t, g_pre_exit s = None -> Tn s t -> Tn s (t ++ [EEndP]).
Proof.
  intros s t E [HT HN]. split; [apply Tg_endp; auto|]. unfold g_pre_exit in E. destruct (Nat.eqb_spec (g_len s) 0) as [|E0]; [discriminate|].
  destruct HT as [HG _]. apply (Nn_seg s); auto. cbn.
  destruct (Nat.eqb_spec (length (inserted t)) (length (droppedl t))) as [X|X]; [apply (G_empty_iff _ _ HG) in X; contradiction|].
  cbn. rewrite orb_true_r. reflexivity.
Qed.

Lemma reserve_shape (w: world gst) a : strip (tr _ (g_reserve w a)) = strip (tr _ w) /\ g_stream (cs _ (g_reserve w a)) = g_stream (cs _ w).
Proof. unfold g_reserve. destruct (_ <? _); auto. Qed.
Lemma mut_shape (w: world gst) m a sc : dropped _ (g_mutate w m a sc) = false ->
  exists u, strip (tr _ (g_mutate w m a sc)) = strip (tr _ w) ++ u /\ g_stream (cs _ (g_mutate w m a sc)) = g_stream (cs _ w) /\
            forall st nm nd, chkN st nm nd u = true.
Proof.
  unfold g_mutate. destruct m as [|[|[|[|[|[|m]]]]]]; intros Hd.
  - set (w1 := if g_cap (cs gst w) <=? g_len (cs gst w) then g_reserve w (g_cap (cs gst w) * 2 + 1) else w) in *.
    assert (H1 : strip (tr _ w1) = strip (tr _ w) /\ g_stream (cs _ w1) = g_stream (cs _ w)).
    { unfold w1. destruct (_ <=? _); [apply reserve_shape|auto]. }
    destruct H1 as [A B]. clearbody w1.
    destruct (if g_next (cs gst w1) =? length (g_ent (cs gst w1)) then _ else _) as [ent' nx'].
    destruct ((g_next (cs gst w1) <? length (g_states (cs gst w1))) && g_clean (cs gst w1)); [|cbn in Hd; discriminate].
    exists [EK (g_next (cs gst w1))]. cbn [cs tr emit w_occupy]. rewrite strip_app, A. cbn [g_stream gset]. auto.
  - destruct (nth_error (g_ret (cs gst w)) a) as [k|]; [|exists []; rewrite app_nil_r; auto].
    destruct (existsb _ _).
    + exists [EDc (g_member (cs gst w) k); EBool true]. cbn [cs tr emit w_vacate]. rewrite strip_app. auto.
    + exists [EBool false]. cbn [cs tr emit]. rewrite strip_app. auto.
  - exists []. rewrite app_nil_r. destruct (reserve_shape w a). auto.
  - eexists. cbn [cs tr emit]. rewrite strip_app. split; [reflexivity|]. auto.
  - destruct (nth_error _ a); [|exists []; rewrite app_nil_r; auto]. eexists. cbn [cs tr emit]. rewrite strip_app. split; [reflexivity|]. auto.
  - eexists. cbn [cs tr emit]. rewrite strip_app. split; [reflexivity|]. auto.
  - eexists. cbn [cs tr emit]. rewrite strip_app. split; [reflexivity|]. auto.
Qed.
Lemma Tn_mut : forall (w: world gst) m a sc, dropped _ w = false -> Tn (cs _ w) (strip (tr _ w)) ->
  dropped _ (g_mutate w m a sc) = false -> Tn (cs _ (g_mutate w m a sc)) (strip (tr _ (g_mutate w m a sc))).
Proof.
  intros w m a sc Hd [HT HN] Hd'. split; [apply Tg_mut; auto|].
  destruct (mut_shape w m a sc Hd') as (u & A & B & C). destruct HN as [Hst HN]. split; [congruence|]. rewrite A, chkN_app, HN, C. reflexivity.
Qed.
End NoneIff.


(* ============ FutureGroup: the Pending half of "None exactly when empty" ============
   A future cannot answer End (Poll<Output> has no such value); the model's children are total and may.  For every history in which no member
   answers End, the trace of a FutureGroup passes the strict check as well: every Pending is returned with some member alive. *)
Definition noend (t: list ev) : bool := forallb (fun e => match e with EAns AEnd => false | _ => true end) t.
Lemma noend_app t u : noend (t ++ u) = noend t && noend u. Proof. apply forallb_app. Qed.
Section PendHalf.
Definition Nf (s: gst) (t: list ev) := g_stream s = false /\ (noend t = true -> chkN true 0 0 t = true).
Definition Tf (s: gst) (t: list ev) := Tg s t /\ Nf s t.
Definition Uf (s: gst) (t: list ev) := Ug s t /\ Nf s t /\ g_count s = g_len s + g_done s /\ g_count s <> 0 /\ (noend t = true -> g_done s = 0).

Lemma Nf_seg s s' t u : Nf s t -> g_stream s' = g_stream s ->
  (noend t = true -> noend u = true -> chkN true (length (inserted t)) (length (droppedl t)) u = true) -> Nf s' (t ++ u).
Proof.
  intros [Hst HN] Hs Hu. split; [congruence|]. rewrite noend_app. intros H. apply andb_true_iff in H as [H1 H2].
  rewrite chkN_app, (HN H1). cbn. exact (Hu H1 H2).
Qed.

Lemma Uf_cont : forall s t i a s' eh wkr, Uf s t -> g_awaited s i = true -> i < g_slots s ->
  g_handle s i a = (s', Cont, eh) -> Uf s' (t ++ EC (g_member s i) wkr :: EAns a :: strip eh).
Proof.
  intros s t i a s' eh wkr (HU & HN & Hcnt & Hnz & Hd0) Ha Hi Hh. split; [eapply Ug_cont; eauto|].
  destruct HU as [HG Hl]. destruct (pend_occ s i (G_slab _ _ HG) Ha) as (m & Ho & Hm). clear Hm.
  pose proof (g_handle_cases s i a) as Hc. cbn zeta in Hc.
  destruct a as [|[v|v]|v| |]; rewrite Hc in Hh; inversion Hh; subst; clear Hh.
  - split; [apply (Nf_seg s' s'); auto|]. split; [exact Hcnt|]. split; [exact Hnz|].
    rewrite noend_app. intros H. apply andb_true_iff in H as [H _]. auto.
  - split; [apply (Nf_seg s); auto using vac_stream; cbn; intros; discriminate|].
    pose proof (vac_state_len s i m false (G_slab _ _ HG) Ho) as X. unfold vac_state in *. cbn in X |- *.
    split; [lia|]. split; [exact Hnz|]. rewrite noend_app. cbn. rewrite andb_false_r. intros; discriminate.
Qed.
Lemma Uf_stop : forall s t i a s' r o eh wkr, Uf s t -> g_awaited s i = true -> i < g_slots s ->
  g_handle s i a = (s', Stop r o, eh) -> Tf (g_cleanup s') (t ++ EC (g_member s i) wkr :: EAns a :: strip eh ++ [EEndR o]).
Proof.
  intros s t i a s' r o eh wkr (HU & HN & _) Ha Hi Hh. split; [eapply Ug_stop; eauto|].
  pose proof (g_handle_cases s i a) as Hc. cbn zeta in Hc.
  assert (Hgo : forall s'' u, g_stream s'' = g_stream s -> chkN true (length (inserted t)) (length (droppedl t)) u = true -> Nf (g_cleanup s'') (t ++ u))
    by (intros; apply (Nf_seg s); auto).
  destruct a as [|[v|v]|v| |]; rewrite Hc in Hh; inversion Hh; subst; clear Hh; apply Hgo; reflexivity.
Qed.
Lemma Tf_order : forall s is s1 t, g_pre_exit s = None -> g_order s = Some (is, s1) -> Tf s t -> Uf s1 t.
Proof.
  intros s is s1 t Ep E [HT HN]. split; [eapply Tg_order; eauto|]. unfold g_order in E. inversion E; subst.
  split; [destruct HN; split; auto|]. cbn. split; [lia|]. split; [|reflexivity].
  unfold g_pre_exit in Ep. destruct (Nat.eqb_spec (g_len s) 0); [discriminate|auto].
Qed.
Lemma Uf_finish : forall s t, Uf s t ->
  match snd (g_finish s) with Some o => Tf (fst (g_finish s)) (t ++ [EEndR o]) | None => Tf (fst (g_finish s)) (t ++ [EEndP]) end.
Proof.
  intros s t (HU & HN & Hcnt & Hnz & Hd0). pose proof (Ug_finish s t HU) as HT. destruct HU as [HG Hl]. unfold g_finish in *.
  destruct HN as [Hst HN]. rewrite Hst in *. cbn [andb fst snd] in *. split; [exact HT|].
  apply (Nf_seg s); [split; auto|reflexivity|]. intros En _. cbn [chkN negb orb].
  specialize (Hd0 En). assert (g_len s <> 0) by lia.
  destruct (Nat.eqb_spec (length (inserted t)) (length (droppedl t))) as [X|X]; [|reflexivity].
  apply (G_empty_iff _ _ HG) in X. contradiction.
Qed.
Lemma Tf_pre : forall s t o, Tf s t -> g_pre_exit s = Some o -> Tf s (t ++ [EEndR o]).
Proof.
  intros s t o [HT HN] E. split; [apply Tg_pre; auto|]. unfold g_pre_exit in E. destruct (Nat.eqb_spec (g_len s) 0) as [E0|]; inversion E; subst.
  destruct HT as [HG _]. apply (Nf_seg s); auto. intros _ _. cbn. apply (G_empty_iff _ _ HG) in E0. rewrite E0, Nat.eqb_refl. reflexivity.
Qed.
Lemma Tf_endp : forall s t, g_pre_exit s = None -> Tf s t -> Tf s (t ++ [EEndP]).
Proof.
  intros s t E [HT HN]. split; [apply Tg_endp; auto|]. unfold g_pre_exit in E. destruct (Nat.eqb_spec (g_len s) 0) as [|E0]; [discriminate|].
  destruct HT as [HG _]. apply (Nf_seg s); auto. intros _ _. cbn.
  destruct (Nat.eqb_spec (length (inserted t)) (length (droppedl t))) as [X|X]; [apply (G_empty_iff _ _ HG) in X; contradiction|reflexivity].
Qed.
Lemma Tf_mut : forall (w: world gst) m a sc, dropped _ w = false -> Tf (cs _ w) (strip (tr _ w)) ->
  dropped _ (g_mutate w m a sc) = false -> Tf (cs _ (g_mutate w m a sc)) (strip (tr _ (g_mutate w m a sc))).
Proof.
  intros w m a sc Hd [HT HN] Hd'. split; [apply Tg_mut; auto|].
  destruct (mut_shape w m a sc Hd') as (u & A & B & C). rewrite A. apply (Nf_seg (cs _ w)); auto.
Qed.
End PendHalf.

Theorem fgroup_pending_nonempty selective cap0 ops : let w := group_run' selective false cap0 ops in
  dropped _ w = false -> noend (strip (tr _ w)) = true -> chkN true 0 0 (strip (tr _ w)) = true.
Proof.
  intros w Hd.
  assert (H : Tf (cs _ w) (strip (tr _ w))).
  { unfold w, group_run'.
    apply (TW_run gst g_slots g_awaited g_member g_handle false false g_order g_pre_exit (fun _ => true) g_finish g_cleanup g_drop
             (fun _ => false) g_Q G1 G8 G9 G10 G12 g_mutate Tf Uf Uf_cont Uf_stop Tf_order
             Uf_finish Tf_pre (fun s t E _ => Tf_endp s t E)
             (fun (E: false = true) => match Bool.diff_false_true E with end)
             (fun s t H => Tg_Q s t (proj1 H)) (fun s t H => Ug_Q s t (proj1 H)) Tf_mut); [|exact Hd].
    intros _. split; [apply Tg_init|split; [reflexivity|intros _; reflexivity]]. }
  destruct H as [_ [_ HN]]. exact HN.
Qed.

Theorem group_none_iff selective stream cap0 ops : let w := group_run' selective stream cap0 ops in
  dropped _ w = false -> chkN stream 0 0 (strip (tr _ w)) = true.
Proof.
  intros w Hd.
  assert (H : Tn stream (cs _ w) (strip (tr _ w))).
  { unfold w, group_run'.
    apply (TW_run gst g_slots g_awaited g_member g_handle false false g_order g_pre_exit (fun _ => true) g_finish g_cleanup g_drop
             (fun _ => false) g_Q G1 G8 G9 G10 G12 g_mutate (Tn stream) (Un stream) (Un_cont stream) (Un_stop stream) (fun s is s1 t _ => Tn_order stream s is s1 t)
             (Un_finish stream) (Tn_pre stream) (fun s t E _ => Tn_endp stream s t E)
             (fun (E: false = true) => match Bool.diff_false_true E with end)
             (fun s t H => Tg_Q s t (proj1 H)) (fun s t H => Ug_Q s t (proj1 H)) (Tn_mut stream)); [|exact Hd].
    intros _. split; [apply Tg_init|split; reflexivity]. }
  destruct H as [_ [_ HN]]. exact HN.
Qed.
