From Coq Require Import List Arith Lia Bool.
Import ListNotations.
Require Import ScanFull InstsFull ObligJoin ObligGroups C04Join C11Groups C05Join C02Join.

(* C02 (ownership ledger) for FutureGroup / StreamGroup: every member ever inserted is dropped exactly once - at completion, at removal, or by
   the group's destructor - and the values returned are exactly the values the members produced. *)
Definition BalG (t: list ev) : Prop :=
  (forall m, cnt m (droppedl t) = if m <? length (inserted t) then 1 else 0) /\
  map snd (outs (polls_from 0 t)) = map snd (yields t).

Definition occs (ent: list entry) : list nat := flat_map (fun e => match e with Occ m => [m] | Vac _ => [] end) ent.
Lemma droppedl_gdrop s : droppedl (g_drop s) = occs (g_ent s).
Proof. unfold g_drop, occs. induction (g_ent s) as [|[m|nx] l IH]; cbn; auto. f_equal. exact IH. Qed.
Lemma strip_gdrop s : strip (g_drop s) = g_drop s.
Proof. unfold g_drop. induction (g_ent s) as [|[m|nx] l IH]; cbn; auto. f_equal. exact IH. Qed.
Lemma gdrop_quiet s : (forall c, polls_from c (g_drop s) = []) /\ yields (g_drop s) = [] /\ inserted (g_drop s) = [].
Proof. unfold g_drop. split; [intros c|split]; induction (g_ent s) as [|[m|nx] l IH]; cbn; auto. Qed.

(* an occupant appears at one index only, so it is counted once *)
Lemma cnt_occs_zero ent m : (forall k, ~ occ ent k m) -> cnt m (occs ent) = 0.
Proof.
  unfold cnt, occs. induction ent as [|e ent IH]; intros H; cbn; auto.
  assert (H' : forall k, ~ occ ent k m) by (intros k X; apply (H (S k)); exact X).
  destruct e as [m'|nx]; cbn; [|apply IH; auto]. destruct (Nat.eq_dec m' m) as [->|Hne]; [exfalso; apply (H 0); reflexivity|apply IH; auto].
Qed.
Lemma cnt_occs_one ent m k : occ ent k m -> (forall k', occ ent k' m -> k' = k) -> cnt m (occs ent) = 1.
Proof.
  revert k. induction ent as [|e ent IH]; intros k Ho Hu; [destruct k; discriminate|].
  destruct k as [|k].
  - cbn in Ho. inversion Ho; subst e. unfold cnt, occs in *. cbn. destruct (Nat.eq_dec m m); [|congruence]. f_equal.
    apply (cnt_occs_zero ent m). intros k' X. specialize (Hu (S k') X). discriminate.
  - unfold cnt, occs in *. destruct e as [m'|nx]; cbn.
    + destruct (Nat.eq_dec m' m) as [->|Hne]; [specialize (Hu 0 eq_refl); discriminate|].
      apply (IH k Ho). intros k' X. specialize (Hu (S k') X). lia.
    + apply (IH k Ho). intros k' X. specialize (Hu (S k') X). lia.
Qed.

Lemma chk_nodup t : forall nm dead, chk nm dead t = true -> NoDup (droppedl t) /\ (forall m, In m (droppedl t) -> ~ In m dead).
Proof.
  induction t as [|e t IH]; intros nm dead H; [split; [constructor|intros m []]|].
  destruct e; cbn [chk] in H; cbn [droppedl flat_map app]; try (apply (IH _ _ H)).
  - apply andb_true_iff in H as [_ H]. apply (IH _ _ H).
  - apply andb_true_iff in H as [H1 H]. apply andb_true_iff in H1 as [_ H1]. apply negb_true_iff in H1.
    destruct (IH _ _ H) as [ND Hdis]. fold (droppedl t). split.
    + constructor; auto. intros X. apply (Hdis m X). left; auto.
    + intros m' [<-|X]; [intros Y; apply mem_In in Y; congruence|]. intros Y. apply (Hdis m' X). right; auto.
Qed.

Lemma G_final s t tail : G s t -> (tail = [] \/ tail = [EEndX]) -> BalG (t ++ ED :: strip (g_drop s) ++ tail).
Proof.
  intros HG Ht. rewrite strip_gdrop. destruct (gdrop_quiet s) as (Q1 & Q2 & Q3).
  assert (A : droppedl (t ++ ED :: g_drop s ++ tail) = droppedl t ++ occs (g_ent s)).
  { rewrite droppedl_app. cbn. rewrite droppedl_app, droppedl_gdrop. destruct Ht as [->| ->]; cbn; rewrite app_nil_r; reflexivity. }
  assert (B : polls_from 0 (t ++ ED :: g_drop s ++ tail) = polls_from 0 t).
  { apply polls_from_tail. intros e [<-|He]; [exact I|]. apply in_app_or in He as [He|He].
    - unfold g_drop in He. apply in_flat_map in He as (x & _ & Hx). destruct x; [destruct Hx as [<-|[]]; exact I|destruct Hx].
    - destruct Ht as [->| ->]; [destruct He|destruct He as [<-|[]]; exact I]. }
  assert (C : yields (t ++ ED :: g_drop s ++ tail) = yields t).
  { rewrite yields_app. cbn. rewrite yields_app, Q2. destruct Ht as [->| ->]; cbn; apply app_nil_r. }
  assert (D : inserted (t ++ ED :: g_drop s ++ tail) = inserted t).
  { rewrite inserted_app. cbn. rewrite inserted_app, Q3. destruct Ht as [->| ->]; cbn; apply app_nil_r. }
  split.
  - intros m. rewrite A, D, cnt_app.
    pose proof (G_slab _ _ HG) as HS. pose proof (sl_ret _ HS) as Hnr. pose proof (G_ret _ _ HG) as Hret.
    destruct (chk_nodup t 0 [] (G_chk _ _ HG)) as [ND _].
    destruct (Nat.ltb_spec m (length (inserted t))) as [Hm|Hm].
    + assert (Hm' : m < g_nmem s) by (rewrite Hnr, Hret; exact Hm).
      pose proof (G_dead _ _ HG m Hm') as Hd.
      destruct (List.In_dec Nat.eq_dec m (droppedl t)) as [Hin|Hnin].
      * (* already dropped: no longer an occupant anywhere *)
        assert (Hz : cnt m (occs (g_ent s)) = 0).
        { apply cnt_occs_zero. intros k X. destruct (sl_mem _ HS k m X) as [_ Hk]. apply (proj1 Hd Hin). rewrite Hk. exact X. }
        pose proof (proj1 (NoDup_count_occ Nat.eq_dec (droppedl t)) ND m) as H1.
        pose proof (proj1 (List.count_occ_In Nat.eq_dec (droppedl t) m) Hin) as H2. unfold cnt in *. lia.
      * assert (Ho : occ (g_ent s) (nth m (g_ret s) 0) m).
        { destruct (nth_error (g_ent s) (nth m (g_ret s) 0)) as [[m'|nx]|] eqn:E; unfold occ.
          - destruct (Nat.eq_dec m' m) as [->|Hne]; [exact E|]. exfalso. apply Hnin, Hd. unfold occ. rewrite E. congruence.
          - exfalso. apply Hnin, Hd. unfold occ. rewrite E. discriminate.
          - exfalso. apply Hnin, Hd. unfold occ. rewrite E. discriminate. }
        assert (H1 : cnt m (occs (g_ent s)) = 1).
        { apply (cnt_occs_one _ m _ Ho). intros k' X. destruct (sl_mem _ HS k' m X) as [_ Hk]. congruence. }
        pose proof (List.count_occ_not_In Nat.eq_dec (droppedl t) m) as H2. unfold cnt in *. rewrite (proj1 H2 Hnin). lia.
    + assert (Hz : cnt m (occs (g_ent s)) = 0).
      { apply cnt_occs_zero. intros k X. destruct (sl_mem _ HS k m X) as [Hlt _]. rewrite Hnr, Hret in Hlt. lia. }
      assert (Hnin : ~ In m (droppedl t)).
      { intros X. pose proof (chk_dropped_lt t 0 [] (G_chk _ _ HG) m X). lia. }
      pose proof (List.count_occ_not_In Nat.eq_dec (droppedl t) m) as H2. unfold cnt in *. rewrite (proj1 H2 Hnin). lia.
  - rewrite B, C. rewrite <- (G_once _ _ HG). rewrite map_map. apply map_ext. intros [m v]. reflexivity.
Qed.

Lemma BalG_ED t : BalG t -> BalG (t ++ [ED]).
Proof.
  intros [B1 B2]. split.
  - intros m. rewrite droppedl_app, inserted_app. cbn. rewrite !app_nil_r. apply B1.
  - rewrite yields_app. cbn. rewrite app_nil_r. replace (polls_from 0 (t ++ [ED])) with (polls_from 0 t) by (symmetry; apply polls_from_tail; intros e [<-|[]]; exact I). exact B2.
Qed.

Theorem C02_groups selective stream cap0 ops :
  BalG (strip (tr _ (group_run' selective stream cap0 (ops ++ [ODrop])))).
Proof.
  unfold group_run'.
  apply (F_final gst g_slots g_awaited g_member g_handle false false g_order g_pre_exit (fun _ => true) g_finish g_cleanup g_drop
           (fun _ => false) g_Q G1 G8 G9 G10 G12 g_mutate Tg Ug BalG Ug_cont Ug_stop).
  - (* U_abort *) intros s t i a s' eh wkr [HG Hl] Ha Hi Hh. destruct (pend_occ s i (G_slab _ _ HG) Ha) as (m & Ho & Hm). rewrite Hm.
    pose proof (g_handle_cases s i a) as Hc. cbn zeta in Hc. destruct a as [|[v|v]|v| |]; rewrite Hc in Hh; try discriminate.
    inversion Hh; subst eh; subst s'. apply G_final; [|right; reflexivity].
    apply (G_seg s s t i m wkr APanic false []); auto; try apply HG; try lia; try (intros; split; [intros X; split; [auto|discriminate]|intros [X _]; auto]).
  - exact Tg_order.
  - (* T_noorder: g_order never refuses *) intros s t E. unfold g_order in E. discriminate.
  - exact Ug_finish.
  - exact Tg_pre.
  - intros s t _ HT. apply Tg_endp. exact HT.
  - intros E. discriminate.
  - exact Tg_Q.
  - exact Ug_Q.
  - (* T_drop *) intros s t [HG _]. rewrite <- (app_nil_r (strip (g_drop s))). apply G_final; auto.
  - exact BalG_ED.
  - (* T_mut *) intros w m a sc Hd HT. destruct (dropped _ (g_mutate w m a sc)) eqn:Ed; [|apply Tg_mut; auto].
    exfalso. destruct m as [|[|[|[|[|[|m]]]]]].
    + rewrite (insert_never_panics w a sc Hd HT) in Ed. discriminate.
    + unfold g_mutate in Ed. destruct (nth_error _ a); [destruct (existsb _ _)|]; cbn in Ed; congruence.
    + cbn in Ed. destruct (Tg_reserve w a HT) as (_ & X & _). congruence.
    + cbn in Ed. congruence.
    + unfold g_mutate in Ed. destruct (nth_error _ a); cbn in Ed; congruence.
    + cbn in Ed. congruence.
    + cbn in Ed. congruence.
  - unfold DW. cbn [dropped mk_world]. apply Tg_init.
Qed.
