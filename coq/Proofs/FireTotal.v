From Coq Require Import List Arith Lia Bool.
Import ListNotations.
Require Import ScanFull InstsFull ObligJoin ObligMZ ObligGroups.

(* C01, "no invocation of any waker ever handed out panics" (selective strategy): instances of ScanFull.fire_total.
   fire_panics w c k = the waker member c got at its k-th poll names a slot beyond the readiness table, or no parent waker is registered -
   the two panics of InlineWaker::wake.  It is false in every reachable state, for every handle, current or stale. *)
Lemma FT_init {St} slots (s: St) n scs : FT St slots (mk_world s true n scs).
Proof.
  split; cbn; intros; induction (length scs); cbn; constructor; auto.
Qed.

Theorem join_fire_total tuple tryj scs ops c k :
  fire_panics jst j_slots (join_run tuple tryj scs ops) c k = false.
Proof.
  apply (fire_total jst j_slots j_awaited (fun _ i => i) j_handle tuple tuple j_order (fun _ => None) j_pre_any j_finish (fun s => s) j_drop
           (fun _ => true) j_Q J1 J2 J3 J4 J5 J6 J7 J8 J9 J10 J11 J12 J13 J14 J15 J16 J17 (fun _ => eq_refl) (fun _ _ _ => eq_refl) (fun _ H => H)
           (@no_mut jst) (fun w _ _ _ H => H) (fun w _ _ _ _ H => H)); [apply join_init|apply FT_init].
Qed.
Theorem merge_fire_total scs ops c k : fire_panics mst m_n (merge_run scs ops) c k = false.
Proof.
  apply (fire_total mst m_n m_awaited (fun _ i => i) m_handle true true m_order m_pre_exit (fun _ => false) m_finish (fun s => s)
           (fun s => drop_all_children (m_n s)) m_final m_Q M1 M2 M3 M4 M5 M6 M7 M8 M9 M10 M11 M12 M13 M14
           (fun _ => eq_refl) (fun _ _ _ => eq_refl) (fun _ H => H) (fun _ => eq_refl) (fun _ _ _ => eq_refl) (fun _ H => H)
           mmut (fun w _ _ _ H => H) (fun w _ _ _ _ H => H)); [apply merge_init|apply FT_init].
Qed.
Theorem zip_fire_total scs ops c k : fire_panics zst z_n (zip_run scs ops) c k = false.
Proof.
  apply (fire_total zst z_n z_awaited (fun _ i => i) z_handle false true z_order (fun _ => None) (fun _ => false) z_finish (fun s => s)
           z_drop m_final z_Q Z1 Z2 Z3 Z4 Z5 Z6 Z7 Z8 (fun _ _ _ _ _ _ => I)
           Z10 Z11
           Z12 Z13 (fun _ _ _ _ _ => I)
           (fun _ => eq_refl) (fun _ _ _ => eq_refl) (fun _ _ => I) (fun _ => eq_refl) (fun _ _ _ => eq_refl) (fun _ _ => I)
           zmut (fun w _ _ _ H => H) (fun w _ _ _ _ H => H)); [apply zip_init|apply FT_init].
Qed.

(* groups: insert / remove / reserve keep the table of handles within the (growing) slot range *)
Lemma FT_reserve w a : FT gst g_slots w -> FT gst g_slots (g_reserve w a).
Proof.
  intros H. unfold g_reserve. destruct (_ <? _); auto. apply FT_grow; auto.
  unfold N, g_slots; cbn. rewrite app_length, repeat_length. reflexivity.
Qed.
Lemma g_mutate_FT w m a sc : GInv w -> FT gst g_slots w -> FT gst g_slots (g_mutate w m a sc).
Proof.
  intros _ H. unfold g_mutate.
  assert (Hemit : forall w' es, FT gst g_slots w' -> FT gst g_slots (emit gst w' es)) by (intros w' es X; exact X).
  destruct m as [|[|[|[|[|[|m]]]]]].
  - set (w1 := if g_cap (cs gst w) <=? g_len (cs gst w) then g_reserve w (g_cap (cs gst w) * 2 + 1) else w).
    assert (H1 : FT gst g_slots w1) by (unfold w1; destruct (_ <=? _); auto using FT_reserve).
    clearbody w1. set (s := cs gst w1). set (k := g_next s).
    destruct (if k =? length (g_ent s) then _ else _) as [ent' nx'].
    destruct ((k <? length (g_states s)) && g_clean s); [|exact H1].
    apply Hemit, FT_occupy; auto. unfold N, g_slots; cbn. apply upd_length.
  - destruct (nth_error (g_ret (cs gst w)) a) as [k|]; auto.
    destruct (existsb (fun x => x =? k) (g_keys (cs gst w))); [|exact H].
    apply Hemit, FT_vacate; auto. unfold N, g_slots; cbn. apply upd_length.
  - apply FT_reserve, H.
  - exact H.
  - destruct (nth_error _ a); exact H.
  - exact H.
  - exact H.
Qed.
Theorem group_fire_total stream cap0 ops c k : fire_panics gst g_slots (group_run stream cap0 ops) c k = false.
Proof.
  apply (fire_total gst g_slots g_awaited g_member g_handle false false g_order g_pre_exit (fun _ => true) g_finish g_cleanup g_drop
           (fun _ => false) g_Q G1 G2 G3 G4 G5 G6 G7 G8 G9 G10 G11 G12 G13 G14 G15 G16 G17
           (fun _ => eq_refl) (fun _ _ _ => eq_refl) Q_cleanup g_mutate g_mutate_inv g_mutate_FT); [apply group_init|].
  split; cbn; intros; constructor.
Qed.
