From Coq Require Import List Arith Lia Bool.
Import ListNotations.
Require Import ScanFull InstsFull.

(* Obligations of the generic scan for the executable join / try_join instance (slice and tuple variants). *)
Definition count_pending (l: list pstate) := length (filter is_pending l).
Definition j_Q (s: jst) := pending s = count_pending (pst s).

Lemma count_upd l i p : i < length l -> nth i l PNone = PPending -> is_pending p = false ->
  count_pending (upd l i p) = count_pending l - 1 /\ count_pending l > 0.
Proof.
  unfold count_pending. revert i. induction l as [|a l IH]; intros [|i] Hi Hn Hp; cbn in *; try lia.
  - subst. cbn. rewrite Hp. cbn. lia.
  - destruct (IH i) as [E G]; auto; try lia. destruct (is_pending a); cbn; lia.
Qed.
Lemma count0_nth l i : count_pending l = 0 -> is_pending (nth i l PNone) = false.
Proof.
  unfold count_pending. revert i. induction l as [|a l IH]; intros [|i] H; cbn in *; auto.
  - destruct (is_pending a); cbn in *; auto; discriminate.
  - apply IH. destruct (is_pending a); cbn in *; auto; discriminate.
Qed.
Lemma count_map_none (l: list pstate) : count_pending (map (fun _ => PNone) l) = 0.
Proof. unfold count_pending. induction l; cbn; auto. Qed.
Lemma nth_map_none (l: list pstate) i : nth i (map (fun _ : pstate => PNone) l) PNone = PNone.
Proof. revert i. induction l; destruct i; cbn; auto. Qed.
Lemma aw_in_range s i : j_awaited s i = true -> i < j_slots s /\ nth i (pst s) PNone = PPending.
Proof.
  unfold j_awaited, j_slots. intros H. destruct (Nat.lt_ge_cases i (length (pst s))) as [Hi|Hi].
  - split; auto. destruct (nth i (pst s) PNone); auto; discriminate.
  - rewrite nth_overflow in H by auto. discriminate.
Qed.
Lemma aw_upd s i k p x y c z it : is_pending p = false ->
  j_awaited {| j_try := x; j_tup := y; j_consumed := c; pending := z; items := it; pst := upd (pst s) i p |} k = if Nat.eqb k i then false else j_awaited s k.
Proof.
  intros Hp. unfold j_awaited; cbn. destruct (Nat.eqb_spec k i) as [->|Hne].
  - destruct (Nat.lt_ge_cases i (length (pst s))); [rewrite nth_upd_same by auto; auto | rewrite nth_overflow by (rewrite upd_length; auto); auto].
  - rewrite nth_upd_other; auto.
Qed.
Lemma aw_reset s k : j_awaited (j_reset s) k = false.
Proof. unfold j_awaited, j_reset; cbn. rewrite nth_map_none. reflexivity. Qed.
(* if exactly one slot is pending and it is i, nobody else is *)
Lemma only_one l i k : i < length l -> nth i l PNone = PPending -> count_pending l - 1 = 0 -> k <> i -> is_pending (nth k l PNone) = false.
Proof.
  intros Hi Hn Hc Hne. destruct (count_upd l i PReady Hi Hn eq_refl) as [E _].
  rewrite <- (nth_upd_other l i k PReady PNone) by auto. apply count0_nth. lia.
Qed.

Lemma J1 s i a : j_slots (fst (fst (j_handle s i a))) = j_slots s.
Proof.
  unfold j_handle. destruct a as [|[v|e]| | |]; cbn; auto.
  - destruct (j_tup s && _); cbn; unfold j_slots, j_reset; cbn; rewrite ?map_length, upd_length; auto.
  - unfold j_slots; cbn. apply upd_length.
Qed.
Lemma J2 s i a s' e : j_handle s i a = (s', Cont, e) -> forall j, j <> i -> j_awaited s' j = j_awaited s j.
Proof.
  unfold j_handle. destruct a as [|[v|er]| | |]; cbn; intros E j Hne; try (inversion E; subst; auto; fail).
  destruct (j_tup s && _); inversion E; subst. rewrite aw_upd by auto. destruct (Nat.eqb_spec j i); congruence.
Qed.
Lemma J3 s i a s' e : j_handle s i a = (s', Cont, e) -> j_awaited s' i = true -> j_awaited s i = true.
Proof.
  unfold j_handle. destruct a as [|[v|er]| | |]; cbn; intros E H; try (inversion E; subst; auto; fail).
  destruct (j_tup s && _); inversion E; subst. rewrite aw_upd, Nat.eqb_refl in H by auto. discriminate.
Qed.
Lemma J4 s i a s' r o e : j_Q s -> j_awaited s i = true -> j_handle s i a = (s', Stop r o, e) -> r <> RAll ->
  forall k, k <> i -> j_awaited s' k = j_awaited s k.
Proof.
  unfold j_handle. destruct a as [|[v|er]| | |]; cbn; intros HQ Ha E Hr k Hne; try discriminate.
  - destruct (j_tup s && (pending s - 1 =? 0)) eqn:Ec; [|discriminate]. inversion E; subst. rewrite aw_reset.
    apply andb_true_iff in Ec as [_ Ec]. apply Nat.eqb_eq in Ec. destruct (aw_in_range s i Ha) as [Hi Hn].
    symmetry. unfold j_awaited. apply (only_one (pst s) i k); auto. unfold j_Q in HQ. lia.
  - inversion E; subst. rewrite aw_upd by auto. destruct (Nat.eqb_spec k i); congruence.
Qed.
Lemma J5 s i a s' o e : j_handle s i a = (s', Stop RSelf o, e) -> is_pend a = false.
Proof. unfold j_handle. destruct a as [|[v|er]| | |]; cbn; intros E; auto; try discriminate. Qed.
Lemma J6 s i a s' o e : j_Q s -> j_awaited s i = true -> j_handle s i a = (s', Stop RAll o, e) ->
  is_pend a = false /\ forall k, k <> i -> j_awaited s k = false.
Proof. unfold j_handle. destruct a as [|[v|er]| | |]; cbn; intros _ _ E; try discriminate. destruct (j_tup s && _); discriminate. Qed.
Lemma J7 s i a : j_awaited s i = true -> j_awaited (fst (fst (j_handle s i a))) i = false -> is_pend a = false.
Proof. unfold j_handle. destruct a as [|[v|er]| | |]; cbn; intros H1 H2; auto; congruence. Qed.
Lemma J8 s i a s' e : j_handle s i a = (s', Abort, e) -> s' = s.
Proof. unfold j_handle. destruct a as [|[v|er]| | |]; cbn; intros E; try discriminate; try (inversion E; auto). destruct (j_tup s && _); discriminate. Qed.
Lemma J9 s i a : j_Q s -> j_awaited s i = true -> i < j_slots s -> j_Q (fst (fst (j_handle s i a))).
Proof.
  intros HQ Ha _. destruct (aw_in_range s i Ha) as [Hi Hn]. unfold j_slots in Hi.
  unfold j_handle. destruct a as [|[v|er]| | |]; cbn; auto.
  - destruct (count_upd (pst s) i PReady Hi Hn eq_refl) as [E G].
    destruct (j_tup s && _); cbn; unfold j_Q, j_reset in *; cbn [pending pst]; rewrite ?count_map_none; auto. lia.
  - destruct (count_upd (pst s) i PNone Hi Hn eq_refl) as [E G]. unfold j_Q in *; cbn [pending pst]. lia.
Qed.
Lemma j_order_some s is s1 : j_order s = Some (is, s1) -> is = seq 0 (j_slots s) /\ s1 = s.
Proof. unfold j_order. destruct (j_consumed s); [discriminate|]. intros E; inversion E; auto. Qed.
Lemma J10 s is s1 : j_order s = Some (is, s1) -> j_slots s1 = j_slots s. Proof. intros E; destruct (j_order_some _ _ _ E) as [_ ->]; auto. Qed.
Lemma J11 s is s1 : j_order s = Some (is, s1) -> forall i, j_awaited s1 i = j_awaited s i. Proof. intros E; destruct (j_order_some _ _ _ E) as [_ ->]; auto. Qed.
Lemma J12 s is s1 : j_Q s -> j_order s = Some (is, s1) -> forall i, In i is -> i < j_slots s.
Proof. intros _ E i H; destruct (j_order_some _ _ _ E) as [-> _]. apply in_seq in H. lia. Qed.
Lemma J13 s is s1 : j_Q s -> j_order s = Some (is, s1) -> forall i, i < j_slots s -> j_awaited s i = true -> In i is.
Proof. intros _ E i H _; destruct (j_order_some _ _ _ E) as [-> _]. apply in_seq. lia. Qed.
Lemma J14 s is s1 : j_Q s -> j_order s = Some (is, s1) -> j_Q s1. Proof. intros H E; destruct (j_order_some _ _ _ E) as [_ ->]; auto. Qed.
Lemma J15 s : j_slots (fst (j_finish s)) = j_slots s.
Proof. unfold j_finish. destruct (negb _ && negb _ && _); cbn; auto. unfold j_slots; cbn. apply map_length. Qed.
Lemma J16 s i : j_Q s -> j_awaited (fst (j_finish s)) i = j_awaited s i.
Proof.
  intros HQ. unfold j_finish. destruct (negb (j_consumed s) && negb (j_tup s) && (pending s =? 0)) eqn:E; cbn; auto.
  apply andb_true_iff in E as [_ E]. apply Nat.eqb_eq in E. rewrite aw_reset. symmetry. apply count0_nth. unfold j_Q in HQ. lia.
Qed.
Lemma J17 s : j_Q s -> j_Q (fst (j_finish s)).
Proof. intros HQ. unfold j_finish. destruct (negb _ && negb _ && _); cbn [fst]; auto. unfold j_Q, j_reset; cbn [pending pst]. rewrite count_map_none. reflexivity. Qed.

Section JoinTheorems.
  Variables (tuple : bool).
  Definition jmut := @no_mut jst.
  Lemma jmut_inv w m a sc : Inv jst j_slots j_awaited j_Q w -> Inv jst j_slots j_awaited j_Q (jmut w m a sc).
  Proof. auto. Qed.

  (* the initial world satisfies the invariant, in the selective mode *)
  Lemma repeat_nth {A} (x d: A) n i : i < n -> nth i (repeat x n) d = x.
  Proof. revert i; induction n; destruct i; cbn; intros; auto; try lia. apply IHn; lia. Qed.
  Lemma count_repeat_pending n : count_pending (repeat PPending n) = n.
  Proof. unfold count_pending. induction n; cbn; auto. Qed.
  Lemma join_init tryj scs : let n := length scs in
    Inv jst j_slots j_awaited j_Q
      (mk_world {| j_try := tryj; j_tup := tuple; j_consumed := false; pending := n; items := repeat None n; pst := repeat PPending n |} true n scs).
  Proof.
    intros n. split; [|split; intros; discriminate].
    split; [constructor; unfold N, j_slots; cbn; rewrite ?repeat_length; auto|].
    split; [unfold j_Q; cbn [cs pending pst mk_world]; rewrite count_repeat_pending; reflexivity|].
    unfold I2, I3, I4, I5, bit, aw, fired, polled, lastpend, N, j_slots; cbn. rewrite !repeat_length.
    split; [|split; [|split; [|split]]]; auto.
    - intros i Hi _ Hf. rewrite repeat_nth in Hf by auto. discriminate.
    - intros i Hi _ _. apply repeat_nth; auto.
    - intros i Hi _. apply repeat_nth; auto.
  Qed.

  Definition join_run tryj scs ops :=
    run_ops jst j_slots j_awaited (fun _ i => i) j_handle tuple tuple j_order (fun _ => None) j_pre_any j_finish (fun s => s) j_drop
      (fun _ => true) jmut
      (mk_world {| j_try := tryj; j_tup := tuple; j_consumed := false; pending := length scs; items := repeat None (length scs); pst := repeat PPending (length scs) |} true (length scs) scs) ops.

  Theorem join_C01 tryj scs ops i : let w := join_run tryj scs ops in
    g_retpend _ w = true -> i < N _ j_slots w -> Sig _ j_awaited w i -> g_out _ w = true.
  Proof.
    apply (C01_generic jst j_slots j_awaited (fun _ i => i) j_handle tuple tuple j_order (fun _ => None) j_pre_any j_finish (fun s => s) j_drop
             (fun _ => true) j_Q J1 J2 J3 J4 J5 J6 J7 J8 J9 J10 J11 J12 J13 J14 J15 J16 J17 (fun _ => eq_refl) (fun _ _ _ => eq_refl) (fun _ H => H)
             jmut jmut_inv). apply join_init.
  Qed.
  Theorem join_C01_quiescent tryj scs ops i : let w := join_run tryj scs ops in
    g_retpend _ w = true -> g_quiet _ w = true -> g_out _ w = false -> i < N _ j_slots w -> aw _ j_awaited w i = true ->
    polled _ w i = true /\ fired _ w i = false.
  Proof.
    apply (C01_quiescent jst j_slots j_awaited (fun _ i => i) j_handle tuple tuple j_order (fun _ => None) j_pre_any j_finish (fun s => s) j_drop
             (fun _ => true) j_Q J1 J2 J3 J4 J5 J6 J7 J8 J9 J10 J11 J12 J13 J14 J15 J16 J17 (fun _ => eq_refl) (fun _ _ _ => eq_refl) (fun _ H => H)
             jmut jmut_inv). apply join_init.
  Qed.
  Theorem join_C16 tryj scs ops : g_bad16 _ (join_run tryj scs ops) = false.
  Proof.
    apply (C16_generic jst j_slots j_awaited (fun _ i => i) j_handle tuple tuple j_order (fun _ => None) j_pre_any j_finish (fun s => s) j_drop
             (fun _ => true) j_Q J1 J2 J3 J4 J5 J6 J7 J8 J9 J10 J11 J12 J13 J14 J15 J16 J17 (fun _ => eq_refl) (fun _ _ _ => eq_refl) (fun _ H => H)
             jmut jmut_inv). apply join_init.
  Qed.
  Theorem join_C20 tryj scs ops i : let w := join_run tryj scs ops in
    g_retpend _ w = true -> g_quiet _ w = true -> i < N _ j_slots w -> aw _ j_awaited w i = true -> polled _ w i = true.
  Proof.
    apply (C20_generic jst j_slots j_awaited (fun _ i => i) j_handle tuple tuple j_order (fun _ => None) j_pre_any j_finish (fun s => s) j_drop
             (fun _ => true) j_Q J1 J2 J3 J4 J5 J6 J7 J8 J9 J10 J11 J12 J13 J14 J15 J16 J17 (fun _ => eq_refl) (fun _ _ _ => eq_refl) (fun _ H => H)
             jmut jmut_inv). apply join_init.
  Qed.
End JoinTheorems.
