From Coq Require Import List Arith Lia Bool.
Import ListNotations.
Require Import ScanFull InstsFull ObligJoin ObligMZ ObligGroups C04Join C08Merge C11Groups C05Join C02Join.

(* C02 (ownership ledger) for merge: the inputs are held until the merge itself is dropped; an item is handed to the caller in the poll that took it *)
Definition producedS (P: list (nat * ans)) : list nat := flat_map (fun p => match snd p with AItem v => [v] | _ => [] end) P.
Definition returnedS (t: list ev) : list nat := flat_map (fun e => match e with EEndR (OSome _ vs) => vs | _ => [] end) t.
Lemma producedS_app a b : producedS (a ++ b) = producedS a ++ producedS b. Proof. apply flat_map_app. Qed.
Lemma returnedS_app a b : returnedS (a ++ b) = returnedS a ++ returnedS b. Proof. apply flat_map_app. Qed.
Definition BalS (n: nat) (t: list ev) : Prop :=
  (forall x, cnt x (droppedl t) = if x <? n then 1 else 0) /\
  (forall v, cnt v (producedS (polls_from 0 t)) = cnt v (returnedS t) + cnt v (dropv t)).

Lemma cnt_seq x n : cnt x (seq 0 n) = if x <? n then 1 else 0.
Proof.
  unfold cnt. destruct (Nat.ltb_spec x n) as [H|H].
  - assert (Hin : In x (seq 0 n)) by (apply in_seq; lia).
    pose proof (proj1 (List.count_occ_In Nat.eq_dec (seq 0 n) x) Hin) as H1.
    pose proof (proj1 (NoDup_count_occ Nat.eq_dec (seq 0 n)) (seq_NoDup n 0) x) as H2. lia.
  - apply List.count_occ_not_In. intros Hin. apply in_seq in Hin. lia.
Qed.
Lemma droppedl_children n : droppedl (drop_all_children n) = seq 0 n.
Proof. unfold drop_all_children. induction (seq 0 n) as [|a l IH]; cbn; auto. f_equal. exact IH. Qed.
Lemma strip_children n : strip (drop_all_children n) = drop_all_children n.
Proof. unfold drop_all_children. induction (seq 0 n) as [|a l IH]; cbn; auto. f_equal. exact IH. Qed.
Lemma quiet_children n : (forall c, polls_from c (drop_all_children n) = []) /\ returnedS (drop_all_children n) = [] /\ dropv (drop_all_children n) = [].
Proof. unfold drop_all_children. split; [intros c|split]; induction (seq 0 n) as [|a l IH]; cbn; auto. Qed.

Section C02M.
  Variable n : nat.
  Definition Lm (s: mst) (t: list ev) : Prop :=
    m_n s = n /\ m_Q s /\ droppedl t = [] /\ dropv t = [] /\ (forall v, cnt v (producedS (polls_from 0 t)) = cnt v (returnedS t)).

  Lemma Lm_final s t tail : Lm s t -> (tail = [] \/ tail = [EEndX]) -> BalS n (t ++ ED :: strip (drop_all_children (m_n s)) ++ tail).
  Proof.
    intros (Hn & _ & Hd & Hv & Hp) Ht. rewrite Hn, strip_children. destruct (quiet_children n) as (Q1 & Q2 & Q3).
    assert (A : droppedl (t ++ ED :: drop_all_children n ++ tail) = seq 0 n).
    { rewrite droppedl_app, Hd. cbn. rewrite droppedl_app, droppedl_children. destruct Ht as [->| ->]; cbn; apply app_nil_r. }
    assert (B : polls_from 0 (t ++ ED :: drop_all_children n ++ tail) = polls_from 0 t).
    { apply polls_from_tail. intros e [<-|He]; [exact I|]. apply in_app_or in He as [He|He].
      - unfold drop_all_children in He. apply in_map_iff in He as (k & <- & _). exact I.
      - destruct Ht as [->| ->]; [destruct He|destruct He as [<-|[]]; exact I]. }
    assert (C : returnedS (t ++ ED :: drop_all_children n ++ tail) = returnedS t).
    { rewrite returnedS_app. cbn. rewrite returnedS_app, Q2. destruct Ht as [->| ->]; cbn; apply app_nil_r. }
    assert (D : dropv (t ++ ED :: drop_all_children n ++ tail) = []).
    { rewrite dropv_app, Hv. cbn. rewrite dropv_app, Q3. destruct Ht as [->| ->]; reflexivity. }
    split; [intros x|intros v]; rewrite ?A, ?B, ?C, ?D.
    - apply cnt_seq.
    - rewrite Hp. change (cnt v []) with 0. lia.
  Qed.

  Lemma Lm_seg s s' t i w a u : Lm s t -> m_n s' = n -> m_Q s' ->
    (u = [] /\ (forall v, a <> AItem v)) \/ (u = [EEndR ONone] /\ (forall v, a <> AItem v)) \/ (exists v k, a = AItem v /\ u = [EEndR (OSome k [v])]) ->
    Lm s' (t ++ EC i w :: EAns a :: u).
  Proof.
    intros (Hn & HQ & Hd & Hv & Hp) Hn' HQ' Hu.
    assert (Hq : (forall c, polls_from c u = []) /\ droppedl u = [] /\ dropv u = []) by (destruct Hu as [[-> _]|[[-> _]|(v & k & _ & ->)]]; repeat split).
    destruct Hq as (Q1 & Q2 & Q3).
    split; [exact Hn'|]. split; [exact HQ'|]. split; [rewrite droppedl_app, Hd; cbn; exact Q2|]. split; [rewrite dropv_app, Hv; cbn; exact Q3|].
    intros v. rewrite polls_from_app, Q1, producedS_app, returnedS_app, !cnt_app, Hp. cbn [returnedS flat_map app].
    destruct Hu as [[-> Ha]|[[-> Ha]|(v0 & k & -> & ->)]]; cbn.
    - destruct a as [|r|v0| |]; cbn; try lia. exfalso; eapply Ha; eauto.
    - destruct a as [|r|v0| |]; cbn; try lia. exfalso; eapply Ha; eauto.
    - rewrite ?app_nil_r. lia.
  Qed.
End C02M.

Theorem C02_merge selective scs ops : let n := length scs in
  BalS n (strip (tr _ (merge_run_fixed selective scs (ops ++ [ODrop])))).
Proof.
  intros n. unfold merge_run_fixed.
  apply (F_final mst m_n m_awaited (fun _ i => i) m_handle true true m_order m_pre_exit (fun _ => false) m_finish (fun s => s)
           (fun s => drop_all_children (m_n s)) m_final m_Q M1 M8 M9 M10 M12 mmut (Lm n) (Lm n) (BalS n)).
  - (* U_cont *) intros s t i a s' eh wkr HL Ha Hi Hh. pose proof (M9 s i a (proj1 (proj2 HL)) Ha Hi) as HQ'. pose proof (M1 s i a) as Hn'. rewrite Hh in HQ', Hn'. cbn [fst] in *.
    assert (Hn'' : m_n s' = n) by (destruct HL as [X _]; congruence).
    pose proof (m_handle_cases s i a) as Hc. destruct a as [|r|v| |]; cbn zeta in Hc; rewrite Hc in Hh; try discriminate.
    + inversion Hh; subst eh; subst s'. apply (Lm_seg n s _ t i wkr APend [] HL Hn'' HQ'). left; split; [reflexivity|discriminate].
    + inversion Hh; subst eh; subst s'. apply (Lm_seg n s _ t i wkr (AReady r) [] HL Hn'' HQ'). left; split; [reflexivity|discriminate].
    + destruct (m_complete s + 1 =? m_n s); inversion Hh; subst eh; subst s'. apply (Lm_seg n s _ t i wkr AEnd [] HL Hn'' HQ'). left; split; [reflexivity|discriminate].
  - (* U_stop *) intros s t i a s' r o eh wkr HL Ha Hi Hh. pose proof (M9 s i a (proj1 (proj2 HL)) Ha Hi) as HQ'. pose proof (M1 s i a) as Hn'. rewrite Hh in HQ', Hn'. cbn [fst] in *.
    assert (Hn'' : m_n s' = n) by (destruct HL as [X _]; congruence).
    pose proof (m_handle_cases s i a) as Hc. destruct a as [|r0|v| |]; cbn zeta in Hc; rewrite Hc in Hh; try discriminate.
    + inversion Hh; subst eh o; subst s'. apply (Lm_seg n s _ t i wkr (AItem v) [EEndR (OSome (Some i) [v])] HL Hn'' HQ'). right; right. eauto.
    + destruct (m_complete s + 1 =? m_n s); inversion Hh; subst eh o; subst s'. apply (Lm_seg n s _ t i wkr AEnd [EEndR ONone] HL Hn'' HQ'). right; left; split; [reflexivity|discriminate].
  - (* U_abort *) intros s t i a s' eh wkr HL Ha Hi Hh.
    pose proof (m_handle_cases s i a) as Hc. destruct a as [|r0|v| |]; cbn zeta in Hc; rewrite Hc in Hh; try discriminate.
    + destruct (m_complete s + 1 =? m_n s); discriminate.
    + inversion Hh; subst eh; subst s'. apply Lm_final; [|right; reflexivity].
      apply (Lm_seg n s s t i wkr APanic [] HL (proj1 HL) (proj1 (proj2 HL))). left; split; [reflexivity|discriminate].
  - (* T_order *) intros s is s1 t E (Hn & HQ & R). split; [rewrite (M10 _ _ _ E); exact Hn|]. split; [eapply M14; eauto|exact R].
  - (* T_noorder *) intros s t _ HL. apply Lm_final; auto.
  - (* U_finish *) intros s t (Hn & HQ & Hd & Hv & Hp). cbn. split; [exact Hn|]. split; [exact HQ|]. split; [rewrite droppedl_app, Hd; reflexivity|].
    split; [rewrite dropv_app, Hv; reflexivity|]. intros v. rewrite returnedS_app, cnt_app. cbn. rewrite <- Hp, Nat.add_0_r. f_equal. f_equal.
    apply polls_from_tail. intros e [<-|[]]. exact I.
  - (* T_pre *) intros s t o (Hn & HQ & Hd & Hv & Hp) E. unfold m_pre_exit in E. destruct (m_n s =? 0); inversion E; subst.
    split; [exact Hn|]. split; [exact HQ|]. split; [rewrite droppedl_app, Hd; reflexivity|]. split; [rewrite dropv_app, Hv; reflexivity|].
    intros v. rewrite returnedS_app, cnt_app. cbn. rewrite <- Hp, Nat.add_0_r. f_equal. f_equal. apply polls_from_tail. intros e [<-|[]]. exact I.
  - (* T_endp *) intros s t _ (Hn & HQ & Hd & Hv & Hp). split; [exact Hn|]. split; [exact HQ|]. split; [rewrite droppedl_app, Hd; reflexivity|].
    split; [rewrite dropv_app, Hv; reflexivity|]. intros v. rewrite returnedS_app, cnt_app. cbn. rewrite <- Hp, Nat.add_0_r. f_equal. f_equal.
    apply polls_from_tail. intros e [<-|[]]. exact I.
  - (* U_endp *) intros _ s t (Hn & HQ & Hd & Hv & Hp). split; [exact Hn|]. split; [exact HQ|]. split; [rewrite droppedl_app, Hd; reflexivity|].
    split; [rewrite dropv_app, Hv; reflexivity|]. intros v. rewrite returnedS_app, cnt_app. cbn. rewrite <- Hp, Nat.add_0_r. f_equal. f_equal.
    apply polls_from_tail. intros e [<-|[]]. exact I.
  - intros s t HL. apply HL.
  - intros s t HL. apply HL.
  - (* T_drop *) intros s t HL. rewrite <- (app_nil_r (strip _)). apply Lm_final; auto.
  - (* F_drop *) intros t [B1 B2]. split; [intros x|intros v].
    + rewrite droppedl_app. change (droppedl [ED]) with (@nil nat). rewrite app_nil_r. apply B1.
    + rewrite returnedS_app, dropv_app. change (returnedS [ED]) with (@nil nat). change (dropv [ED]) with (@nil nat). rewrite !app_nil_r.
      replace (polls_from 0 (t ++ [ED])) with (polls_from 0 t) by (symmetry; apply polls_from_tail; intros e [<-|[]]; exact I). apply B2.
  - (* T_mut *) intros w0 m a sc Hd HT. unfold mmut, no_mut. rewrite Hd. exact HT.
  - unfold DW. cbn [dropped mk_world cs tr strip filter]. split; [unfold m_n; cbn; apply repeat_length|].
    split; [unfold m_Q, m_n; cbn; rewrite repeat_length; destruct (length scs); [left|right]; lia|]. repeat split.
Qed.
