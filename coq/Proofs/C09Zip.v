From Coq Require Import List Arith Lia Bool.
Import ListNotations.
Require Import ScanFull InstsFull ObligJoin ObligMZ ObligGroups C04Join C11Groups.

(* C09 on the observable trace: zip over n inputs (array / Vec / tuple share the model), any answers, any history, both waker strategies *)
Definition itemsl (i: nat) (P: list (nat * ans)) : list nat :=
  flat_map (fun p => if fst p =? i then match snd p with AItem v => [v] | _ => [] end else []) P.
Definition ends (P: list (nat * ans)) : list nat := flat_map (fun p => match snd p with AEnd => [fst p] | _ => [] end) P.
Definition rows (t: list ev) : list (list nat) := flat_map (fun e => match e with EEndR (OSome None vs) => [vs] | _ => [] end) t.
Definition col (i: nat) (rs: list (list nat)) : list nat := map (fun r => nth i r 0) rs.
Definition itl (o: option nat) : list nat := match o with Some v => [v] | None => [] end.
Lemma itemsl_app i a b : itemsl i (a ++ b) = itemsl i a ++ itemsl i b. Proof. apply flat_map_app. Qed.
Lemma ends_app a b : ends (a ++ b) = ends a ++ ends b. Proof. apply flat_map_app. Qed.
Lemma rows_app a b : rows (a ++ b) = rows a ++ rows b. Proof. apply flat_map_app. Qed.
Lemma col_app i a b : col i (a ++ b) = col i a ++ col i b. Proof. apply map_app. Qed.

Section C09.
  Variable n : nat.
  Definition slotz (s: zst) (i: nat) : Prop :=
    (nth i (z_pst s) PReady = PPending /\ nth i (z_out s) None = None) \/ (nth i (z_pst s) PReady = PReady /\ exists v, nth i (z_out s) None = Some v).
  Definition Zl (s: zst) (t: list ev) : Prop :=
    z_done s = false /\ length (z_pst s) = n /\ length (z_out s) = n /\
    (forall i, i < n -> itemsl i (polls_from 0 t) = col i (rows t) ++ itl (nth i (z_out s) None) /\ slotz s i) /\
    Forall (fun r => length r = n) (rows t) /\ ends (polls_from 0 t) = [] /\ results t = map (OSome None) (rows t).
  Definition Zf (s: zst) (t: list ev) : Prop :=
    z_done s = true /\ exists P0 i rs, polls_from 0 t = P0 ++ [(i, AEnd)] /\ ends P0 = [] /\ results t = map (OSome None) rs ++ [ONone] /\
      Forall (fun r => length r = n) rs /\ forall j, j < n -> exists buf, itemsl j P0 = col j rs ++ buf /\ length buf <= 1.
  Definition Tz (s: zst) (t: list ev) := Zl s t \/ Zf s t.

  Lemma seg_z t i w a u : (forall e, In e u -> match e with EC _ _ | EAns _ => False | _ => True end) ->
    polls_from 0 (t ++ EC i w :: EAns a :: u) = polls_from 0 t ++ [(i, a)] /\ rows (t ++ EC i w :: EAns a :: u) = rows t ++ rows u /\
    results (t ++ EC i w :: EAns a :: u) = results t ++ results u.
  Proof.
    intros Hu. split; [|split; [rewrite rows_app; reflexivity|rewrite results_app; reflexivity]].
    rewrite polls_from_app. f_equal. f_equal. replace u with ([] ++ u) by reflexivity. rewrite polls_from_tail; auto.
  Qed.

  Lemma Zl_endp s t : Zl s t -> Zl s (t ++ [EEndP]).
  Proof.
    intros (A & B & C & D & E & F & G).
    assert (Hp : polls_from 0 (t ++ [EEndP]) = polls_from 0 t) by (apply polls_from_tail; intros e [<-|[]]; exact I).
    assert (Hr : rows (t ++ [EEndP]) = rows t) by (rewrite rows_app; apply app_nil_r).
    assert (Hs : results (t ++ [EEndP]) = results t) by (rewrite results_app; apply app_nil_r).
    unfold Zl. rewrite Hp, Hr, Hs. auto 10.
  Qed.
  Lemma Zf_endp s t : Zf s t -> Zf s (t ++ [EEndP]).
  Proof.
    intros (A & P0 & i & rs & B & C & D & E & F).
    assert (Hp : polls_from 0 (t ++ [EEndP]) = polls_from 0 t) by (apply polls_from_tail; intros e [<-|[]]; exact I).
    assert (Hs : results (t ++ [EEndP]) = results t) by (rewrite results_app; apply app_nil_r).
    split; auto. exists P0, i, rs. rewrite Hp, Hs. auto.
  Qed.

  Lemma Zl_idle s t i w a : Zl s t -> (forall v, a <> AItem v) -> a <> AEnd -> Zl s (t ++ [EC i w; EAns a]).
  Proof.
    intros (A & B & C & D & E & F & G) Hni Hne. destruct (seg_z t i w a []) as (Hp & Hr & Hs); [intros e []|].
    unfold Zl. rewrite Hp, Hr, Hs, !app_nil_r. split; [auto|]. split; [auto|]. split; [auto|]. split; [|split; [auto|split; [|auto]]].
    - intros j Hj. destruct (D j Hj) as [X Y]. split; auto. rewrite itemsl_app, X. cbn. destruct (i =? j); [|apply app_nil_r].
      destruct a as [|r|v| |]; cbn; rewrite ?app_nil_r; auto. exfalso; eapply Hni; eauto.
    - rewrite ends_app, F. cbn. destruct a as [|r|v| |]; auto. congruence.
  Qed.

  Lemma z_handle_cases s i a :
    match a with
    | AItem v => let st' := upd (z_pst s) i PReady in let out' := upd (z_out s) i (Some v) in
        z_handle s i a = if forallb is_ready st'
                         then ({| z_pst := map (fun _ => PPending) st'; z_out := map (fun _ => None) out'; z_done := z_done s |}, Stop RAll (OSome None (all_vals out')), [])
                         else ({| z_pst := st'; z_out := out'; z_done := z_done s |}, Cont, [])
    | AEnd => z_handle s i a = ({| z_pst := z_pst s; z_out := z_out s; z_done := true |}, Stop RNone ONone, [])
    | APanic => z_handle s i a = (s, Abort, [])
    | _ => z_handle s i a = (s, Cont, [])
    end.
  Proof. destruct a as [|r|v| |]; reflexivity. Qed.

  Lemma aw_slot s i : z_awaited s i = true -> slotz s i -> nth i (z_pst s) PReady = PPending /\ nth i (z_out s) None = None.
  Proof. unfold z_awaited. intros H [X|[X _]]; auto. rewrite X in H. discriminate. Qed.

  (* input i delivered an item that is stored *)
  Lemma Zl_store s t i w v : Zl s t -> i < n -> z_awaited s i = true ->
    Zl {| z_pst := upd (z_pst s) i PReady; z_out := upd (z_out s) i (Some v); z_done := z_done s |} (t ++ [EC i w; EAns (AItem v)]).
  Proof.
    intros (A & B & C & D & E & F & G) Hi Ha. destruct (seg_z t i w (AItem v) []) as (Hp & Hr & Hs); [intros e []|].
    destruct (aw_slot s i Ha (proj2 (D i Hi))) as [Hpi Hoi].
    unfold Zl. cbn [z_done z_pst z_out]. rewrite Hp, Hr, Hs, !app_nil_r, !upd_length.
    split; [auto|]. split; [auto|]. split; [auto|]. split; [|split; [auto|split; [|auto]]].
    - intros j Hj. destruct (D j Hj) as [X Y]. rewrite itemsl_app, X. cbn. destruct (Nat.eqb_spec i j) as [<-|Hne].
      + rewrite Hoi. cbn. rewrite nth_upd_same by lia. split; [rewrite app_nil_r; reflexivity|].
        right. cbn. rewrite !nth_upd_same by lia. eauto.
      + rewrite app_nil_r, nth_upd_other by auto. split; [reflexivity|]. unfold slotz. cbn. rewrite !nth_upd_other by auto. exact Y.
    - rewrite ends_app, F. reflexivity.
  Qed.

  Lemma nth_map_const {A B} (l: list A) (b d: B) j : j < length l -> nth j (map (fun _ => b) l) d = b.
  Proof. revert j. induction l; destruct j; cbn; intros; auto; try lia. apply IHl. lia. Qed.

  (* the row is complete: it is returned and the state is reset *)
  Lemma Zl_row s t : Zl s t -> forallb is_ready (z_pst s) = true ->
    Zl {| z_pst := map (fun _ => PPending) (z_pst s); z_out := map (fun _ => None) (z_out s); z_done := z_done s |}
       (t ++ [EEndR (OSome None (all_vals (z_out s)))]).
  Proof.
    intros (A & B & C & D & E & F & G) Hall.
    assert (Hsome : forall j, j < length (z_out s) -> exists v, nth j (z_out s) None = Some v).
    { intros j Hj. destruct (D j ltac:(lia)) as [_ [[X _]|[_ X]]]; auto.
      pose proof (forallb_nth _ j Hall ltac:(lia)) as Y. congruence. }
    destruct (all_vals_some (z_out s) Hsome) as [HL HN].
    assert (Hp : polls_from 0 (t ++ [EEndR (OSome None (all_vals (z_out s)))]) = polls_from 0 t) by (apply polls_from_tail; intros e [<-|[]]; exact I).
    assert (Hr : rows (t ++ [EEndR (OSome None (all_vals (z_out s)))]) = rows t ++ [all_vals (z_out s)]) by (rewrite rows_app; reflexivity).
    unfold Zl. cbn [z_done z_pst z_out]. rewrite Hp, Hr, !map_length.
    split; [auto|]. split; [auto|]. split; [auto|]. split; [|split; [|split; [auto|]]].
    - intros j Hj. destruct (D j Hj) as [X _]. rewrite X, col_app. cbn. rewrite HN by lia. cbn.
      rewrite nth_map_const by lia. cbn. rewrite app_nil_r. split; [reflexivity|].
      left. cbn. rewrite !nth_map_const by lia. auto.
    - apply Forall_app. split; auto. constructor; [lia|constructor].
    - rewrite results_app, G, map_app. reflexivity.
  Qed.

  Lemma Uz_cont : forall s t i a s' eh wkr, Zl s t -> z_awaited s i = true -> i < z_n s ->
    z_handle s i a = (s', Cont, eh) -> Zl s' (t ++ EC i wkr :: EAns a :: strip eh).
  Proof.
    intros s t i a s' eh wkr HZ Ha Hi Hh. assert (Hin : i < n) by (destruct HZ as (_ & B & _); unfold z_n in Hi; lia).
    pose proof (z_handle_cases s i a) as Hc. destruct a as [|r|v| |]; cbn zeta in Hc; rewrite Hc in Hh; try discriminate.
    - inversion Hh; subst. apply Zl_idle; auto; discriminate.
    - inversion Hh; subst. apply Zl_idle; auto; discriminate.
    - destruct (forallb is_ready (upd (z_pst s) i PReady)); inversion Hh; subst. apply Zl_store; auto.
  Qed.

  Lemma Uz_stop : forall s t i a s' r o eh wkr, Zl s t -> z_awaited s i = true -> i < z_n s ->
    z_handle s i a = (s', Stop r o, eh) -> Tz s' (t ++ EC i wkr :: EAns a :: strip eh ++ [EEndR o]).
  Proof.
    intros s t i a s' r o eh wkr HZ Ha Hi Hh. assert (Hin : i < n) by (destruct HZ as (_ & B & _); unfold z_n in Hi; lia).
    pose proof (z_handle_cases s i a) as Hc. destruct a as [|r0|v| |]; cbn zeta in Hc; rewrite Hc in Hh; try discriminate.
    - destruct (forallb is_ready (upd (z_pst s) i PReady)) eqn:Hall; inversion Hh; subst; clear Hh. left.
      pose proof (Zl_store s t i wkr v HZ Hin Ha) as H1.
      pose proof (Zl_row _ _ H1 Hall) as H2. cbn [z_pst z_out z_done] in H2. rewrite <- app_assoc in H2. exact H2.
    - inversion Hh; subst; clear Hh. right. destruct HZ as (A & B & C & D & E & F & G).
      split; [reflexivity|]. exists (polls_from 0 t), i, (rows t).
      destruct (seg_z t i wkr AEnd [EEndR ONone]) as (Hp & Hr & Hs); [intros e [<-|[]]; exact I|].
      cbn [strip filter app]. rewrite Hp, Hs, G. split; [reflexivity|]. split; [exact F|]. split; [reflexivity|]. split; [exact E|].
      intros j Hj. destruct (D j Hj) as [X _]. exists (itl (nth j (z_out s) None)). split; [exact X|]. destruct (nth j (z_out s) None); cbn; lia.
  Qed.
End C09.

Definition zip_run' (selective: bool) (scs: list (list step)) (ops: list op) :=
  run_ops zst z_n z_awaited (fun _ i => i) z_handle false true z_order (fun _ => None) (fun _ => false) z_finish (fun s => s)
    z_drop m_final zmut
    (mk_world {| z_pst := repeat PPending (length scs); z_out := repeat None (length scs); z_done := false |} selective (length scs) scs) ops.

(* C09: while not dropped and no input has ended: no input answered End, the results are exactly the rows, every row has n entries, and for every input
   i the items it has answered so far are column i of the rows followed by at most one buffered item - so the k-th row holds the k-th item of every
   input at that input's position.  Once an input has ended: the End is the last child poll ever made, None was returned in that poll and is the last
   result, and each input has delivered its column plus at most one further item, which is never part of a row. *)
Theorem C09_zip selective scs ops : let n := length scs in let w := zip_run' selective scs ops in
  dropped _ w = false -> Tz n (cs _ w) (strip (tr _ w)).
Proof.
  intros n w. unfold w, zip_run'.
  apply (TW_run zst z_n z_awaited (fun _ i => i) z_handle false true z_order (fun _ => None) (fun _ => false) z_finish (fun s => s) z_drop m_final
           z_Q Z1 Z8 (fun _ _ _ _ _ _ => I) Z10 Z12 zmut (Tz n) (Zl n)
           (Uz_cont n) (Uz_stop n)).
  - intros s is s1 t _ E [HZ|[Hd _]]; [destruct (z_order_some _ _ _ E) as [_ ->]; exact HZ|]. unfold z_order in E. rewrite Hd in E. discriminate.
  - intros s t HZ. cbn. left. apply Zl_endp. exact HZ.
  - intros s t o _ E. discriminate.
  - intros s t _ _ [HZ|HZ]; [left; apply Zl_endp|right; apply Zf_endp]; auto.
  - intros _ s t HZ. left. apply Zl_endp. exact HZ.
  - intros; exact I.
  - intros; exact I.
  - intros w0 m a sc _ H _. exact H.
  - intros _. left. unfold Zl. cbn [cs tr mk_world strip filter z_done z_pst z_out polls_from]. rewrite !repeat_length.
    split; [reflexivity|]. split; [reflexivity|]. split; [reflexivity|]. split; [|split; [constructor|split; reflexivity]].
    intros i Hi. split; [cbn; rewrite repeat_nth by auto; reflexivity|unfold slotz; cbn [z_pst z_out]; left; rewrite !repeat_nth by auto; auto].
Qed.
