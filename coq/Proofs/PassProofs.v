From Coq Require Import List Arith Lia Bool.
Import ListNotations.
Require Import ScanFull InstsFull Pass ObligJoin ObligGroups C04Join C11Groups.

(* Invariants for the combinators that pass the caller's Context through (race, race_ok, chain, wait_until). *)
Section PassInv.
  Variable St : Type.
  Variable pollf : W St -> nat -> nat -> W St.
  Variable dropsf : St -> list ev.
  Variable P : St -> bool -> list ev -> Prop.      (* state, "the final result has been returned", history *)
  Hypothesis P_poll : forall w pid np, dropped St w = false -> finished St w = false -> P (cs St w) false (strip (tr St w)) ->
    dropped St (pollf w pid np) = false -> P (cs St (pollf w pid np)) (finished St (pollf w pid np)) (strip (tr St (pollf w pid np))).
  Definition PWp (w: W St) := dropped St w = false -> P (cs St w) (finished St w) (strip (tr St w)).
  Lemma do_fire_fin (w: W St) j : finished St (do_fire St (fun _ => 0) w j) = finished St w.
  Proof. unfold do_fire. destruct (j <? _); auto. destruct (nth j (bits St w) true); auto. Qed.
  Lemma fire_handle_fin (w: W St) c k : finished St (fire_handle St (fun _ => 0) w c k) = finished St w.
  Proof. unfold fire_handle. destruct (nth_error _ k) as [[slot|pid]|]; auto; try (rewrite do_fire_fin; reflexivity). Qed.
  Lemma PWp_step w o : PWp w -> PWp (p_step St pollf dropsf w o).
  Proof.
    intros H. destruct o; cbn [p_step].
    - destruct (finished St w || dropped St w) eqn:E; auto. apply orb_false_iff in E as [E1 E]. intros Hd. apply P_poll; auto. rewrite <- E1. apply H; auto.
    - destruct (finished St w || dropped St w) eqn:E; auto. apply orb_false_iff in E as [E1 E]. intros Hd. apply P_poll; auto. rewrite <- E1. apply H; auto.
    - destruct (fire_handle_T St (fun _ => 0) (emit St w [EO]) c k) as (A & B & C). intros Hd. rewrite B in Hd. rewrite A, C, fire_handle_fin. cbn.
      rewrite strip_app. cbn. rewrite app_nil_r. apply H. exact Hd.
    - destruct (dropped St w); intros X; discriminate.
    - exact H.
  Qed.
  Theorem PWp_run ops : forall w, PWp w -> PWp (fold_left (p_step St pollf dropsf) ops w).
  Proof. induction ops as [|o r IH]; intros w H; cbn; auto. apply IH, PWp_step, H. Qed.

  Lemma fires_of_fin (w: W St) me hs : finished St (fires_of St (fun _ => 0) w me hs) = finished St w.
  Proof.
    revert w. induction hs as [|h r IH]; intros w; cbn [fires_of]; auto.
    destruct (match h with HSelf => (me, length (nth me (handed St w) []) - 1) | HOf c k => (c, k) end) as [c k].
    rewrite IH. apply fire_handle_fin.
  Qed.
  Lemma poll_direct_spec (w: W St) m pid : let '(w', a) := poll_direct St w m pid in
    cs St w' = cs St w /\ dropped St w' = dropped St w /\ strip (tr St w') = strip (tr St w) ++ [EC m (WPar pid); EAns a] /\
    finished St w' = finished St w.
  Proof.
    unfold poll_direct. destruct (pop St w m) as [stp sc'].
    match goal with |- context[fires_of St ?sl ?W0 m _] => destruct (fires_of_T St sl W0 m (fires stp)) as (A & B & C); pose proof (fires_of_fin W0 m (fires stp)) as D end.
    cbn [cs dropped tr emit finished]. rewrite A, B, D. split; [reflexivity|]. split; [reflexivity|]. split; [|reflexivity].
    rewrite strip_app, C. cbn [tr emit set_oracle]. rewrite strip_app, <- app_assoc. reflexivity.
  Qed.
End PassInv.

(* ---------------- C19: wait_until ---------------- *)
Definition res_of (a: ans) : list out :=
  match a with AReady (ROk v) | AReady (RErr v) => [OVals [v]] | AItem v => [OSome None [v]] | AEnd => [ONone] | _ => [] end.
Definition Pw (s: ust) (t: list ev) : Prop :=
  if u_started s then
    exists P0 a0 P1, polls_from 0 t = P0 ++ (0, a0) :: P1 /\ Forall (fun p => p = (0, APend)) P0 /\ a0 <> APend /\ a0 <> APanic /\
      P1 <> [] /\ Forall (fun p => fst p = 1) P1 /\ results t = flat_map (fun p => res_of (snd p)) P1
  else Forall (fun p => p = (0, APend)) (polls_from 0 t) /\ results t = [].

Lemma polls_from_app_EC t : forall c m w u, polls_from c (t ++ EC m w :: u) = polls_from c t ++ polls_from m u.
Proof. induction t as [|e t IH]; intros c m w u; cbn; auto. destruct e; cbn; rewrite ?IH; auto. Qed.

Definition w_inner (w1: W ust) (late: list ev) (pid: nat) : W ust :=
  let '(w2, a) := poll_direct ust w1 1 pid in
  let w3 := emit ust w2 late in
  match a with
  | AReady (ROk v) | AReady (RErr v) => finish_p ust w3 (OVals [v]) true
  | AItem v => finish_p ust w3 (OSome None [v]) false
  | AEnd => finish_p ust w3 ONone true
  | APanic => unwind_p ust w3 [EDc 1; EDc 0]
  | _ => emit ust w3 [EEndP]
  end.
Definition end_of (a: ans) : list ev := match res_of a with o :: _ => [EEndR o] | [] => [EEndP] end.
Lemma finish_p_spec St (w: W St) o fin : cs St (finish_p St w o fin) = cs St w /\ dropped St (finish_p St w o fin) = dropped St w /\
  tr St (finish_p St w o fin) = tr St w ++ [EEndR o].
Proof. unfold finish_p. destruct fin; cbn; auto. Qed.
Lemma w_inner_spec w1 late pid : strip late = late -> dropped _ (w_inner w1 late pid) = false ->
  cs _ (w_inner w1 late pid) = cs _ w1 /\ dropped _ w1 = false /\
  exists a, a <> APanic /\ strip (tr _ (w_inner w1 late pid)) = strip (tr _ w1) ++ EC 1 (WPar pid) :: EAns a :: late ++ end_of a.
Proof.
  intros Hl Hd. unfold w_inner in *. pose proof (poll_direct_spec ust w1 1 pid) as Hs.
  destruct (poll_direct ust w1 1 pid) as [w2 a]. destruct Hs as (A & B & C & _).
  assert (Hw3 : strip (tr _ (emit ust w2 late)) = strip (tr _ w1) ++ EC 1 (WPar pid) :: EAns a :: late).
  { cbn. rewrite strip_app, C, Hl, <- app_assoc. reflexivity. }
  destruct a as [|[v|v]|v| |]; cbv iota beta in Hd |- *;
    try (destruct (finish_p_spec ust (emit ust w2 late) (OVals [v]) true) as (F1 & F2 & F3));
    try (destruct (finish_p_spec ust (emit ust w2 late) (OSome None [v]) false) as (G1 & G2 & G3));
    try (destruct (finish_p_spec ust (emit ust w2 late) ONone true) as (H1 & H2 & H3)).
  - split; [exact A|]. split; [rewrite <- B; exact Hd|]. exists APend. split; [discriminate|].
    cbn [tr emit]. rewrite !strip_app, C, Hl, <- !app_assoc. reflexivity.
  - rewrite F1, F2 in *. split; [exact A|]. split; [cbn in Hd; rewrite <- B; exact Hd|]. exists (AReady (ROk v)). split; [discriminate|].
    rewrite F3, strip_app, Hw3, <- app_assoc. reflexivity.
  - rewrite F1, F2 in *. split; [exact A|]. split; [cbn in Hd; rewrite <- B; exact Hd|]. exists (AReady (RErr v)). split; [discriminate|].
    rewrite F3, strip_app, Hw3, <- app_assoc. reflexivity.
  - rewrite G1, G2 in *. split; [exact A|]. split; [cbn in Hd; rewrite <- B; exact Hd|]. exists (AItem v). split; [discriminate|].
    rewrite G3, strip_app, Hw3, <- app_assoc. reflexivity.
  - rewrite H1, H2 in *. split; [exact A|]. split; [cbn in Hd; rewrite <- B; exact Hd|]. exists AEnd. split; [discriminate|].
    rewrite H3, strip_app, Hw3, <- app_assoc. reflexivity.
  - cbn in Hd. discriminate.
Qed.

Lemma wait_poll_eq w pid np : wait_poll w pid np =
  let w0 := begin_p ust w pid np in
  let s := cs ust w0 in
  if u_started s then w_inner w0 [] pid else
  let '(w1, a) := poll_direct ust w0 0 pid in
  match a with
  | APend => emit ust w1 [EEndP]
  | APanic => unwind_p ust w1 [EDc 1; EDc 0]
  | AReady (ROk v) | AReady (RErr v) =>
      let w2 := set_cs ust w1 {| u_stream := u_stream s; u_started := true |} in
      if u_stream s then w_inner w2 [EV v] pid else w_inner (emit ust w2 [EV v]) [] pid
  | _ => w_inner (set_cs ust w1 {| u_stream := u_stream s; u_started := true |}) [] pid
  end.
Proof. reflexivity. Qed.

Lemma results_tail t u : results (t ++ u) = results t ++ results u. Proof. apply results_app. Qed.
Lemma end_of_results a : results (end_of a) = res_of a.
Proof. destruct a as [|[v|v]|v| |]; reflexivity. Qed.
Lemma polls_end_of c a : polls_from c (end_of a) = [].
Proof. destruct a as [|[v|v]|v| |]; reflexivity. Qed.

Definition quiet (l: list ev) := (forall c, polls_from c l = []) /\ results l = [] /\ strip l = l.
Lemma quiet_nil : quiet []. Proof. repeat split. Qed.
Lemma quiet_EV v : quiet [EV v]. Proof. repeat split. Qed.

Lemma Pw_start t W a a' pre late strm : Forall (fun p => p = (0, APend)) (polls_from 0 t) -> results t = [] -> a <> APend -> a <> APanic ->
  quiet pre -> quiet late ->
  Pw {| u_stream := strm; u_started := true |} (t ++ EC 0 W :: EAns a :: pre ++ EC 1 W :: EAns a' :: late ++ end_of a').
Proof.
  intros F0 R Na Np (Qp1 & Qp2 & _) (Ql1 & Ql2 & _). unfold Pw. cbn [u_started].
  exists (polls_from 0 t), a, [(1, a')].
  assert (E : polls_from 0 (t ++ EC 0 W :: EAns a :: pre ++ EC 1 W :: EAns a' :: late ++ end_of a') = polls_from 0 t ++ [(0, a); (1, a')]).
  { rewrite polls_from_app_EC. f_equal. cbn [polls_from]. f_equal. rewrite polls_from_app_EC, Qp1. cbn [app polls_from]. f_equal.
    replace (late ++ end_of a') with (late ++ end_of a') by reflexivity.
    assert (X : forall l1 c l2, polls_from c l1 = [] -> (forall c', polls_from c' l2 = []) -> polls_from c (l1 ++ l2) = []).
    { induction l1 as [|e l1 IH]; intros c l2 H1 H2; cbn; auto.
      destruct e; cbn in *; try (apply IH; auto; fail). discriminate. }
    apply X; auto. intros c'. apply polls_end_of. }
  rewrite E. split; [reflexivity|]. split; [exact F0|]. split; [exact Na|]. split; [exact Np|]. split; [discriminate|].
  split; [constructor; auto|].
  rewrite results_tail. cbn [results]. rewrite results_tail, Qp2. cbn [app results]. rewrite results_tail, Ql2, end_of_results, R. cbn. rewrite app_nil_r. reflexivity.
Qed.

Lemma Pw_poll : forall w pid np, dropped _ w = false -> finished _ w = false -> Pw (cs _ w) (strip (tr _ w)) ->
  dropped _ (wait_poll w pid np) = false -> Pw (cs _ (wait_poll w pid np)) (strip (tr _ (wait_poll w pid np))).
Proof.
  intros w pid np Hd _ HP. rewrite wait_poll_eq. cbv zeta.
  set (w0 := begin_p ust w pid np).
  assert (H0 : cs _ w0 = cs _ w /\ dropped _ w0 = false /\ strip (tr _ w0) = strip (tr _ w)).
  { unfold w0, begin_p. cbn. rewrite strip_app. cbn. rewrite app_nil_r. auto. }
  destruct H0 as (Hc0 & Hd0 & Ht0). rewrite Hc0.
  unfold Pw in HP. destruct (u_started (cs ust w)) eqn:Est.
  - (* already started: one more poll of the inner *)
    intros Hd'. destruct (w_inner_spec w0 [] pid eq_refl Hd') as (A & _ & a & Ha & C).
    rewrite A, Hc0, C, Ht0. unfold Pw. rewrite Est.
    destruct HP as (P0 & a0 & P1 & E1 & F0 & N1 & N2 & N3 & F1 & R).
    exists P0, a0, (P1 ++ [(1, a)]). cbn [app].
    rewrite polls_from_app_EC. cbn [polls_from]. rewrite polls_end_of, E1, <- app_assoc. cbn [app].
    split; [reflexivity|]. split; [exact F0|]. split; [exact N1|]. split; [exact N2|].
    split; [destruct P1; discriminate|]. split; [apply Forall_app; split; auto|].
    rewrite results_tail. cbn [results]. rewrite end_of_results, R, flat_map_app. cbn. rewrite app_nil_r. reflexivity.
  - (* not started: poll the deadline *)
    destruct HP as [F0 R].
    pose proof (poll_direct_spec ust w0 0 pid) as Hs. destruct (poll_direct ust w0 0 pid) as [w1 a]. destruct Hs as (A1 & B1 & C1 & _).
    rewrite Ht0 in C1.
    set (st1 := {| u_stream := u_stream (cs ust w); u_started := true |}).
    assert (Hgo : forall wl lt pre, cs _ wl = st1 -> quiet lt -> quiet pre -> a <> APend -> a <> APanic ->
              strip (tr _ wl) = strip (tr _ w) ++ EC 0 (WPar pid) :: EAns a :: pre ->
              dropped _ (w_inner wl lt pid) = false -> Pw (cs _ (w_inner wl lt pid)) (strip (tr _ (w_inner wl lt pid)))).
    { intros wl lt pre Hcl Hqlt Hqpre Na Np Htl Hd'.
      destruct (w_inner_spec wl lt pid (proj2 (proj2 Hqlt)) Hd') as (A & _ & a' & Ha' & C).
      rewrite A, Hcl, C, Htl, <- app_assoc. cbn [app]. apply Pw_start; auto. }
    destruct a as [|[v|v]|v| |].
    + intros _. cbn [cs tr emit]. rewrite A1, Hc0, strip_app, C1. unfold Pw. rewrite Est.
      rewrite <- app_assoc. cbn [app strip filter noise negb].
      replace (polls_from 0 (strip (tr ust w) ++ [EC 0 (WPar pid); EAns APend; EEndP])) with (polls_from 0 (strip (tr ust w)) ++ [(0, APend)])
        by (rewrite polls_from_app_EC; reflexivity).
      split; [apply Forall_app; split; auto|]. rewrite results_tail, R. reflexivity.
    + destruct (u_stream (cs ust w)) eqn:Es.
      * apply (Hgo _ [EV v] []); auto using quiet_EV, quiet_nil; try discriminate; try (cbn [tr set_cs]; rewrite C1; reflexivity).
      * apply (Hgo _ [] [EV v]); auto using quiet_EV, quiet_nil; try discriminate; try (cbn [tr set_cs emit]; rewrite strip_app, C1, <- app_assoc; reflexivity).
    + destruct (u_stream (cs ust w)) eqn:Es.
      * apply (Hgo _ [EV v] []); auto using quiet_EV, quiet_nil; try discriminate; try (cbn [tr set_cs]; rewrite C1; reflexivity).
      * apply (Hgo _ [] [EV v]); auto using quiet_EV, quiet_nil; try discriminate; try (cbn [tr set_cs emit]; rewrite strip_app, C1, <- app_assoc; reflexivity).
    + apply (Hgo _ [] []); auto using quiet_nil; try discriminate; try (cbn [tr set_cs]; rewrite C1; reflexivity).
    + apply (Hgo _ [] []); auto using quiet_nil; try discriminate; try (cbn [tr set_cs]; rewrite C1; reflexivity).
    + intros X. cbn in X. discriminate.
Qed.

(* C19: in the observable history of f.wait_until(d) / s.wait_until(d) (child 0 = deadline, child 1 = inner), as long as it has not been dropped:
   before the deadline resolved only the deadline was polled, it always answered Pending, and nothing was returned; afterwards the list of
   child polls is  (0,Pending)* (0, a0) (1, _)+  with a0 not Pending: the inner was never polled before, the deadline never after, the
   inner was polled in the very poll in which the deadline resolved, and the results are exactly the inner's non-Pending answers, in order. *)
Theorem C19_wait_until stream scs ops :
  let w := fold_left (p_step ust wait_poll (fun _ => [EDc 1; EDc 0])) ops (mk_world {| u_stream := stream; u_started := false |} false 2 scs) in
  dropped _ w = false -> Pw (cs _ w) (strip (tr _ w)).
Proof.
  intros w. apply (PWp_run ust wait_poll (fun _ => [EDc 1; EDc 0]) (fun s _ t => Pw s t) Pw_poll ops).
  intros _. cbn. split; [constructor|reflexivity].
Qed.

(* ---------------- C10: chain ---------------- *)
Definition stepC (st: option nat) (p: nat * ans) : option nat :=
  match st with
  | Some j => if fst p =? j then Some (match snd p with AEnd => j + 1 | _ => j end) else None
  | None => None
  end.
Definition runC (P: list (nat * ans)) : option nat := fold_left stepC P (Some 0).     (* strictly sequential evaluation *)
Definition itemsC (P: list (nat * ans)) : list out := flat_map (fun p => match snd p with AItem v => [OSome None [v]] | _ => [] end) P.
Lemma runC_snoc P m a : runC (P ++ [(m, a)]) = stepC (runC P) (m, a).
Proof. unfold runC. rewrite fold_left_app. reflexivity. Qed.
Lemma itemsC_app a b : itemsC (a ++ b) = itemsC a ++ itemsC b. Proof. apply flat_map_app. Qed.

Definition Lc (s: cst) (t: list ev) : Prop :=
  c_idx s <= c_n s /\ runC (polls_from 0 t) = Some (c_idx s) /\ results t = itemsC (polls_from 0 t).
Definition Pc (s: cst) (fin: bool) (t: list ev) : Prop :=
  c_idx s <= c_n s /\ runC (polls_from 0 t) = Some (c_idx s) /\
  results t = itemsC (polls_from 0 t) ++ (if fin then [ONone] else []) /\ (fin = true -> c_idx s = c_n s).

Lemma chain_loop_spec fuel : forall (w: W cst) pid, fuel = S (c_n (cs _ w) - c_idx (cs _ w)) -> dropped _ w = false -> finished _ w = false ->
  Lc (cs _ w) (strip (tr _ w)) ->
  let w' := chain_loop fuel w pid in
  dropped _ w' = false -> Pc (cs _ w') (finished _ w') (strip (tr _ w')) /\ (c_idx (cs _ w') = c_n (cs _ w') -> finished _ w' = true).
Proof.
  induction fuel as [|f IH]; intros w pid Hf Hd Hfin (Hle & Hrun & Hres); [discriminate|].
  cbn [chain_loop]. set (s := cs cst w) in *.
  destruct (Nat.eqb_spec (c_idx s) (c_n s)) as [E|E].
  - (* past the last input: None *)
    destruct (finish_p_spec cst w ONone true) as (A & B & C). intros Hd'. rewrite A, C, strip_app. cbn [strip filter noise negb app].
    unfold finish_p. cbn [finished set_flags emit].
    split; [|reflexivity]. split; [exact Hle|].
    replace (polls_from 0 (strip (tr cst w) ++ [EEndR ONone])) with (polls_from 0 (strip (tr cst w))) by (symmetry; apply polls_from_tail; intros e [<-|[]]; exact I).
    split; [exact Hrun|]. split; [rewrite results_tail, Hres; reflexivity|auto].
  - pose proof (poll_direct_spec cst w (c_idx s) pid) as Hs. destruct (poll_direct cst w (c_idx s) pid) as [w1 a]. destruct Hs as (A1 & B1 & C1 & D1).
    assert (Hp1 : polls_from 0 (strip (tr cst w1)) = polls_from 0 (strip (tr cst w)) ++ [(c_idx s, a)]) by (rewrite C1, polls_from_app_EC; reflexivity).
    assert (Hr1 : results (strip (tr cst w1)) = results (strip (tr cst w))) by (rewrite C1, results_tail; cbn; apply app_nil_r).
    assert (Hrun1 : forall j, stepC (Some (c_idx s)) (c_idx s, a) = Some j -> runC (polls_from 0 (strip (tr cst w1))) = Some j)
      by (intros j Hj; rewrite Hp1, runC_snoc, Hrun; exact Hj).
    assert (Hst : stepC (Some (c_idx s)) (c_idx s, a) = Some (match a with AEnd => c_idx s + 1 | _ => c_idx s end))
      by (cbn; rewrite Nat.eqb_refl; reflexivity).
    (* the cases that end the poll without changing the state *)
    assert (Hquiet : forall e, ((e = EEndP /\ forall v, a <> AItem v) \/ exists v, e = EEndR (OSome None [v]) /\ a = AItem v) -> a <> AEnd ->
              Pc (cs _ w1) false (strip (tr _ w1) ++ [e]) /\ (c_idx (cs _ w1) = c_n (cs _ w1) -> false = true)).
    { intros e He Hne. rewrite A1. fold s. split; [|intros X; contradiction].
      assert (Hpe : polls_from 0 (strip (tr cst w1) ++ [e]) = polls_from 0 (strip (tr cst w1))).
      { apply polls_from_tail. intros e' [<-|[]]. destruct He as [[-> _]|(v & -> & _)]; exact I. }
      split; [exact Hle|]. rewrite Hpe. split; [rewrite (Hrun1 _ Hst); destruct a; try reflexivity; contradiction|].
      split; [|discriminate]. rewrite results_tail, Hr1, Hres, Hp1, itemsC_app, app_nil_r. f_equal.
      destruct He as [[-> Hni]|(v & -> & ->)]; [|reflexivity]. cbn. destruct a as [|[v|v]|v| |]; try reflexivity. exfalso; eapply Hni; eauto. }
    destruct a as [|[v|v]|v| |].
    + intros _. cbn [cs tr emit finished]. rewrite strip_app. cbn [strip filter noise negb]. rewrite D1, Hfin. apply Hquiet; [left; split; [reflexivity|discriminate]|discriminate].
    + intros _. cbn [cs tr emit finished]. rewrite strip_app. cbn [strip filter noise negb]. rewrite D1, Hfin. apply Hquiet; [left; split; [reflexivity|discriminate]|discriminate].
    + intros _. cbn [cs tr emit finished]. rewrite strip_app. cbn [strip filter noise negb]. rewrite D1, Hfin. apply Hquiet; [left; split; [reflexivity|discriminate]|discriminate].
    + intros _. destruct (finish_p_spec cst w1 (OSome None [v]) false) as (A & B & C). rewrite A, C, strip_app. cbn [strip filter noise negb].
      unfold finish_p. cbn [finished emit]. rewrite D1, Hfin. apply Hquiet; [right; eauto|discriminate].
    + (* this input ended: go on with the next one in the same poll *)
      apply IH.
      * cbn [cs set_cs c_n c_idx]. fold s. lia.
      * cbn. rewrite B1. exact Hd.
      * cbn. rewrite D1. exact Hfin.
      * cbn [cs set_cs tr]. unfold Lc. cbn [c_idx c_n]. fold s. split; [lia|]. split; [apply Hrun1; exact Hst|]. rewrite Hr1, Hres, Hp1, itemsC_app. cbn. rewrite app_nil_r. reflexivity.
    + intros X. cbn in X. discriminate.
Qed.

Lemma Pc_poll : forall w pid np, dropped _ w = false -> finished _ w = false -> Pc (cs _ w) false (strip (tr _ w)) ->
  dropped _ (chain_poll w pid np) = false -> Pc (cs _ (chain_poll w pid np)) (finished _ (chain_poll w pid np)) (strip (tr _ (chain_poll w pid np))).
Proof.
  intros w pid np Hd Hf (Hle & Hrun & Hres & _) Hd'. unfold chain_poll in *.
  set (w0 := begin_p cst w pid np) in *.
  assert (H0 : cs _ w0 = cs _ w /\ dropped _ w0 = false /\ strip (tr _ w0) = strip (tr _ w) /\ finished _ w0 = false).
  { unfold w0, begin_p. cbn. rewrite strip_app. cbn. rewrite app_nil_r. auto. }
  destruct H0 as (Hc0 & Hd0 & Ht0 & Hf0).
  apply (chain_loop_spec _ w0 pid eq_refl Hd0 Hf0); auto.
  rewrite Hc0, Ht0. split; [exact Hle|]. split; [exact Hrun|]. rewrite Hres. apply app_nil_r.
Qed.

(* C10: while not dropped, the child polls of a chain are strictly sequential (runC: input j is polled only when every earlier input has answered
   End, and never after its own End), the results are exactly the items the inputs answered, in that order, followed by None iff the chain
   has finished, which requires that the last input has ended. *)
Theorem C10_chain scs ops :
  let n := length scs in
  let w := fold_left (p_step cst chain_poll (fun s => drops_all (c_n s))) ops (mk_world {| c_idx := 0; c_n := n |} false n scs) in
  dropped _ w = false -> Pc (cs _ w) (finished _ w) (strip (tr _ w)).
Proof.
  intros n w. apply (PWp_run cst chain_poll (fun s => drops_all (c_n s)) Pc Pc_poll ops).
  intros _. unfold Pc. cbn. split; [lia|]. split; [reflexivity|]. split; [reflexivity|discriminate].
Qed.

(* ---------------- C06: race ---------------- *)
Definition is_win (a: ans) : bool := match a with AReady _ => true | _ => false end.
Definition win_val (a: ans) : list out := match a with AReady (ROk v) | AReady (RErr v) => [OVals [v]] | _ => [] end.
Definition losing (P: list (nat * ans)) : Prop := Forall (fun p => is_win (snd p) = false /\ snd p <> APanic) P.
Definition Pr (s: rst) (fin: bool) (t: list ev) : Prop :=
  if fin then exists P0 i a, polls_from 0 t = P0 ++ [(i, a)] /\ losing P0 /\ is_win a = true /\ results t = win_val a
  else losing (polls_from 0 t) /\ results t = [].

Lemma race_scan_spec is : forall (w: W rst) pid, dropped _ w = false -> finished _ w = false ->
  losing (polls_from 0 (strip (tr _ w))) -> results (strip (tr _ w)) = [] ->
  let '(w', r) := race_scan w is pid in
  cs _ w' = cs _ w /\ dropped _ w' = false /\ finished _ w' = false /\ results (strip (tr _ w')) = [] /\
  match r with
  | None => losing (polls_from 0 (strip (tr _ w')))
  | Some (Some o) => exists P0 i a, polls_from 0 (strip (tr _ w')) = P0 ++ [(i, a)] /\ losing P0 /\ is_win a = true /\ [o] = win_val a
  | Some None => True
  end.
Proof.
  induction is as [|i rest IH]; intros w pid Hd Hf HL HR; cbn [race_scan]; [auto|].
  pose proof (poll_direct_spec rst w i pid) as Hs. destruct (poll_direct rst w i pid) as [w1 a]. destruct Hs as (A & B & C & D).
  assert (Hp : polls_from 0 (strip (tr rst w1)) = polls_from 0 (strip (tr rst w)) ++ [(i, a)]) by (rewrite C, polls_from_app_EC; reflexivity).
  assert (Hr : results (strip (tr rst w1)) = []) by (rewrite C, results_tail, HR; reflexivity).
  assert (Hcont : is_win a = false -> a <> APanic ->
            let '(w', r) := race_scan w1 rest pid in
            cs _ w' = cs _ w /\ dropped _ w' = false /\ finished _ w' = false /\ results (strip (tr _ w')) = [] /\
            match r with
            | None => losing (polls_from 0 (strip (tr _ w')))
            | Some (Some o) => exists P0 i a, polls_from 0 (strip (tr _ w')) = P0 ++ [(i, a)] /\ losing P0 /\ is_win a = true /\ [o] = win_val a
            | Some None => True
            end).
  { intros Hw Hnp. specialize (IH w1 pid ltac:(congruence) ltac:(congruence)).
    destruct (race_scan w1 rest pid) as [w' r]. rewrite <- A. apply IH; auto. rewrite Hp. apply Forall_app. split; auto. }
  assert (Hwin : forall o, is_win a = true -> [o] = win_val a ->
            cs _ w1 = cs _ w /\ dropped _ w1 = false /\ finished _ w1 = false /\ results (strip (tr _ w1)) = [] /\
            exists P0 i0 a0, polls_from 0 (strip (tr _ w1)) = P0 ++ [(i0, a0)] /\ losing P0 /\ is_win a0 = true /\ [o] = win_val a0).
  { intros o Hw Ho. repeat split; try congruence. exists (polls_from 0 (strip (tr rst w))), i, a. auto. }
  destruct a as [|[v|v]|v| |].
  - apply Hcont; [reflexivity|discriminate].
  - apply (Hwin (OVals [v])); reflexivity.
  - apply (Hwin (OVals [v])); reflexivity.
  - apply Hcont; [reflexivity|discriminate].
  - apply Hcont; [reflexivity|discriminate].
  - repeat split; congruence.
Qed.

Lemma Pr_poll : forall w pid np, dropped _ w = false -> finished _ w = false -> Pr (cs _ w) false (strip (tr _ w)) ->
  dropped _ (race_poll w pid np) = false -> Pr (cs _ (race_poll w pid np)) (finished _ (race_poll w pid np)) (strip (tr _ (race_poll w pid np))).
Proof.
  intros w pid np Hd Hf [HL HR]. unfold race_poll.
  set (w0 := begin_p rst w pid np).
  assert (H0 : dropped _ w0 = false /\ strip (tr _ w0) = strip (tr _ w) /\ finished _ w0 = false).
  { unfold w0, begin_p. cbn. rewrite strip_app. cbn. rewrite app_nil_r. auto. }
  destruct H0 as (Hd0 & Ht0 & Hf0).
  destruct (r_n (cs rst w0) =? 0); [intros X; cbn in X; discriminate|].
  set (w1 := set_cs rst w0 _).
  pose proof (race_scan_spec (rot (r_n (cs rst w0)) (r_off (cs rst w0))) w1 pid) as Hs.
  destruct (race_scan w1 (rot (r_n (cs rst w0)) (r_off (cs rst w0))) pid) as [w2 r].
  destruct Hs as (A & B & C & D & E); [exact Hd0|exact Hf0|unfold w1; cbn [tr set_cs]; rewrite Ht0; exact HL|unfold w1; cbn [tr set_cs]; rewrite Ht0; exact HR|].
  destruct r as [[o|]|].
  - intros _. destruct (finish_p_spec rst w2 o true) as (F1 & F2 & F3). rewrite F3, strip_app. cbn [strip filter noise negb].
    unfold finish_p. cbn [finished set_flags emit]. unfold Pr.
    destruct E as (P0 & i & a & E1 & E2 & E3 & E4). exists P0, i, a.
    replace (polls_from 0 (strip (tr rst w2) ++ [EEndR o])) with (polls_from 0 (strip (tr rst w2))) by (symmetry; apply polls_from_tail; intros e [<-|[]]; exact I).
    split; [exact E1|]. split; [exact E2|]. split; [exact E3|]. rewrite results_tail, D, <- E4. reflexivity.
  - intros X. cbn in X. discriminate.
  - intros _. cbn [cs tr emit finished]. rewrite C, strip_app. cbn [strip filter noise negb]. unfold Pr.
    replace (polls_from 0 (strip (tr rst w2) ++ [EEndP])) with (polls_from 0 (strip (tr rst w2))) by (symmetry; apply polls_from_tail; intros e [<-|[]]; exact I).
    split; [exact E|]. rewrite results_tail, D. reflexivity.
Qed.

(* C06: while not dropped, either nobody has resolved (every child poll so far answered something other than Ready, nothing returned), or the race
   is finished: the list of child polls is P0 ++ [(i, Ready r)] with nobody resolved in P0 - so the winner is the first child seen to resolve,
   the race resolved in that very poll with that child's output, and that was the last child poll ever made. *)
Theorem C06_race scs ops :
  let n := length scs in
  let w := fold_left (p_step rst race_poll (fun s => drops_all (r_n s))) ops (mk_world {| r_off := 0; r_n := n |} false n scs) in
  dropped _ w = false -> Pr (cs _ w) (finished _ w) (strip (tr _ w)).
Proof.
  intros n w. apply (PWp_run rst race_poll (fun s => drops_all (r_n s)) Pr Pr_poll ops).
  intros _. cbn. split; [constructor|reflexivity].
Qed.

(* ---------------- C07: race_ok (array, tuple and Vec algorithms) ---------------- *)
Definition errl (i: nat) (P: list (nat * ans)) : list nat :=
  flat_map (fun p => if fst p =? i then match snd p with AReady (RErr e) => [e] | _ => [] end else []) P.
Definition noOk (P: list (nat * ans)) : Prop := Forall (fun p => forall v, snd p <> AReady (ROk v)) P.
Definition stepK (st: option (list nat)) (p: nat * ans) : option (list nat) :=
  match st with
  | Some dead => if mem (fst p) dead then None else Some (match snd p with AReady (RErr _) => fst p :: dead | _ => dead end)
  | None => None
  end.
Definition runK (P: list (nat * ans)) : option (list nat) := fold_left stepK P (Some []).   (* a failed child is never polled again *)
Lemma errl_app i a b : errl i (a ++ b) = errl i a ++ errl i b. Proof. apply flat_map_app. Qed.
Lemma runK_snoc P p : runK (P ++ [p]) = stepK (runK P) p. Proof. unfold runK. rewrite fold_left_app. reflexivity. Qed.

Lemma all_vals_len_le (l: list (option nat)) : length (all_vals l) <= length l.
Proof. unfold all_vals. induction l as [|[v|] l IH]; cbn; lia. Qed.
Lemma all_vals_full (l: list (option nat)) : length (all_vals l) = length l -> forall i, i < length l -> exists v, nth i l None = Some v.
Proof.
  induction l as [|o l IH]; intros H i Hi; cbn in Hi; [lia|]. pose proof (all_vals_len_le l) as Hle.
  destruct o as [v|]; unfold all_vals in *; cbn in H.
  - destruct i; [cbn; eauto|]. cbn. apply IH; lia.
  - lia.
Qed.
Lemma all_vals_upd_len (l: list (option nat)) i e : i < length l -> nth i l None = None -> length (all_vals (upd l i (Some e))) = S (length (all_vals l)).
Proof.
  unfold all_vals. revert i. induction l as [|o l IH]; intros [|i] Hi Hn; cbn in *; try lia.
  - subst o. reflexivity.
  - destruct o; cbn; rewrite IH; auto; lia.
Qed.

Definition itl (o: option nat) : list nat := match o with Some v => [v] | None => [] end.
Record Lk (n: nat) (s: kst) (t: list ev) : Prop := {
  lk_n : k_n s = n; lk_len : length (k_errs s) = n; lk_cnt : k_completed s = length (all_vals (k_errs s));
  lk_err : forall i, i < n -> errl i (polls_from 0 t) = itl (nth i (k_errs s) None);
  lk_run : exists dead, runK (polls_from 0 t) = Some dead /\ forall i, In i dead <-> exists e, nth i (k_errs s) None = Some e;
  lk_nook : noOk (polls_from 0 t); lk_res : results t = [] }.

Definition rok_res (n: nat) (s: kst) (P: list (nat * ans)) (o: out) : Prop :=
  match o with
  | OOk [v] => exists P0 i, P = P0 ++ [(i, AReady (ROk v))] /\ noOk P0
  | OErrs es => noOk P /\ length es = n /\ forall i, i < n -> errl i P = [nth i es 0]
  | _ => False
  end.

Lemma kdone_spec (w: W kst) i : let '(w', e) := kdone w i in
  k_kind (cs _ w') = k_kind (cs _ w) /\ k_n (cs _ w') = k_n (cs _ w) /\ k_off (cs _ w') = k_off (cs _ w) /\ k_errs (cs _ w') = k_errs (cs _ w) /\
  k_completed (cs _ w') = k_completed (cs _ w) /\ dropped _ w' = dropped _ w /\ finished _ w' = finished _ w /\ tr _ w' = tr _ w /\
  (e = [] \/ e = [EDc i]).
Proof. unfold kdone. destruct (k_kind (cs kst w) =? 2); cbn; repeat split; auto. Qed.

Lemma mem_false_iff m l : mem m l = false <-> ~ In m l.
Proof. split; [intros H X; apply mem_In in X; congruence|intros H; destruct (mem m l) eqn:E; auto; apply mem_In in E; contradiction]. Qed.

Lemma polls_tail_drop t e i : (e = [] \/ e = [EDc i]) -> polls_from 0 (t ++ e) = polls_from 0 t /\ results (t ++ e) = results t /\ strip e = e.
Proof.
  intros [->| ->]; [rewrite app_nil_r; auto|]. split; [apply polls_from_tail; intros e' [<-|[]]; exact I|].
  split; [rewrite results_tail; apply app_nil_r|reflexivity].
Qed.

Lemma rok_scan_spec n is : forall (w: W kst) pid, Forall (fun i => i < n) is -> Lk n (cs _ w) (strip (tr _ w)) ->
  let '(w', r) := rok_scan w is pid in
  k_kind (cs _ w') = k_kind (cs _ w) /\ k_n (cs _ w') = n /\ k_off (cs _ w') = k_off (cs _ w) /\
  dropped _ w' = dropped _ w /\ finished _ w' = finished _ w /\ results (strip (tr _ w')) = [] /\
  match r with
  | None => Lk n (cs _ w') (strip (tr _ w'))
  | Some (Some o) => (exists v, o = OOk [v]) /\ rok_res n (cs _ w') (polls_from 0 (strip (tr _ w'))) o
  | Some None => True
  end.
Proof.
  induction is as [|i rest IH]; intros w pid Hin HL; cbn [rok_scan].
  { repeat split; auto; apply HL. }
  inversion Hin as [|? ? Hi Hrest]; subst.
  destruct (nth i (k_errs (cs kst w)) None) as [e0|] eqn:Ei.
  { apply IH; auto. }
  pose proof (poll_direct_spec kst w i pid) as Hs. destruct (poll_direct kst w i pid) as [w1 a]. destruct Hs as (A & B & C & D).
  destruct HL as [Ln Llen Lcnt Lerr (dead & Lrun & Ldead) Lnook Lres]. rewrite <- A in *.
  assert (Hp : polls_from 0 (strip (tr kst w1)) = polls_from 0 (strip (tr kst w)) ++ [(i, a)]) by (rewrite C, polls_from_app_EC; reflexivity).
  assert (Hr : results (strip (tr kst w1)) = []) by (rewrite C, results_tail, Lres; reflexivity).
  assert (Hnd : mem i dead = false).
  { apply mem_false_iff. intros X. apply Ldead in X as [e X]. congruence. }
  (* an answer that is neither Ok nor Err nor a panic: nothing changes *)
  assert (Hidle : (forall v, a <> AReady (ROk v)) -> (forall e, a <> AReady (RErr e)) -> Lk n (cs _ w1) (strip (tr _ w1))).
  { intros Hnv Hne. constructor; auto.
    - intros j Hj. rewrite Hp, errl_app, (Lerr j Hj). cbn. destruct (i =? j); [|apply app_nil_r].
      destruct a as [|[v|e]|v| |]; cbn; rewrite ?app_nil_r; auto. exfalso; eapply Hne; eauto.
    - exists dead. split; [|exact Ldead]. rewrite Hp, runK_snoc, Lrun. cbn. rewrite Hnd.
      destruct a as [|[v|e]|v| |]; auto. exfalso; eapply Hne; eauto.
    - unfold noOk. rewrite Hp. apply Forall_app. split; auto. }
  destruct a as [|[v|e]|v| |].
  - specialize (IH w1 pid Hrest (Hidle ltac:(discriminate) ltac:(discriminate))). destruct (rok_scan w1 rest pid) as [w' r].
    rewrite B, D in IH. exact IH.
  - (* success *)
    pose proof (kdone_spec w1 i) as Hk. destruct (kdone w1 i) as [w1' ed]. destruct Hk as (K1 & K2 & K3 & K4 & K5 & K6 & K7 & K8 & K9).
    destruct (polls_tail_drop (strip (tr kst w1)) ed i K9) as (T1 & T2 & T3).
    cbn [cs tr emit dropped finished]. rewrite K1, K2, K3, K6, K7, K8, strip_app, T3, T1, T2.
    repeat split; auto; try congruence. eexists; reflexivity. exists (polls_from 0 (strip (tr kst w))), i. auto.
  - (* this child failed: record the error, go on *)
    pose proof (kdone_spec w1 i) as Hk. destruct (kdone w1 i) as [w1' ed]. destruct Hk as (K1 & K2 & K3 & K4 & K5 & K6 & K7 & K8 & K9).
    destruct (polls_tail_drop (strip (tr kst w1)) ed i K9) as (T1 & T2 & T3).
    match goal with |- context[rok_scan ?W rest pid] => set (w2 := W) end.
    assert (HL2 : Lk n (cs _ w2) (strip (tr _ w2))).
    { unfold w2. cbn [cs tr emit set_cs]. rewrite K8, strip_app, T3. constructor; cbn [k_n k_errs k_completed]; rewrite ?T1, ?T2; try congruence.
      - rewrite K4, upd_length. exact Llen.
      - rewrite K4, K5, all_vals_upd_len by (auto; lia). lia.
      - intros j Hj. rewrite K4, Hp, errl_app, (Lerr j Hj). cbn. destruct (Nat.eqb_spec i j) as [<-|Hne].
        + rewrite nth_upd_same by lia. rewrite Ei. reflexivity.
        + rewrite nth_upd_other by auto. apply app_nil_r.
      - exists (i :: dead). split; [rewrite Hp, runK_snoc, Lrun; cbn; rewrite Hnd; reflexivity|].
        intros j. rewrite K4. cbn [In]. destruct (Nat.eq_dec i j) as [<-|Hne].
        + rewrite nth_upd_same by lia. split; eauto.
        + rewrite nth_upd_other by auto. rewrite Ldead. split; [intros [X|X]; [congruence|auto]|auto].
      - unfold noOk. rewrite Hp. apply Forall_app. split; auto. constructor; [cbn; discriminate|constructor]. }
    specialize (IH w2 pid Hrest HL2). destruct (rok_scan w2 rest pid) as [w' r].
    unfold w2 in IH. cbn [cs set_cs emit k_kind k_off dropped finished] in IH. rewrite K1, K3, K6, K7, B, D in IH. exact IH.
  - specialize (IH w1 pid Hrest (Hidle ltac:(discriminate) ltac:(discriminate))). destruct (rok_scan w1 rest pid) as [w' r].
    rewrite B, D in IH. exact IH.
  - specialize (IH w1 pid Hrest (Hidle ltac:(discriminate) ltac:(discriminate))). destruct (rok_scan w1 rest pid) as [w' r].
    rewrite B, D in IH. exact IH.
  - repeat split; auto; congruence.
Qed.

Definition Pk (n: nat) (s: kst) (fin: bool) (t: list ev) : Prop :=
  if fin then k_n s = n /\ exists o, results t = [o] /\ rok_res n s (polls_from 0 t) o else Lk n s t.

Lemma rot_lt n off : Forall (fun i => i < n) (rot n off).
Proof.
  unfold rot. apply Forall_forall. intros i Hi. apply in_map_iff in Hi as (k & <- & Hk). apply in_seq in Hk.
  apply Nat.mod_upper_bound. lia.
Qed.
Lemma seq_lt n : Forall (fun i => i < n) (seq 0 n).
Proof. apply Forall_forall. intros i Hi. apply in_seq in Hi. lia. Qed.

Lemma Pk_poll n : forall w pid np, dropped _ w = false -> finished _ w = false -> Pk n (cs _ w) false (strip (tr _ w)) ->
  dropped _ (rok_poll w pid np) = false -> Pk n (cs _ (rok_poll w pid np)) (finished _ (rok_poll w pid np)) (strip (tr _ (rok_poll w pid np))).
Proof.
  intros w pid np Hd Hf HL. unfold Pk in HL. unfold rok_poll.
  set (w0 := begin_p kst w pid np).
  assert (H0 : cs _ w0 = cs _ w /\ dropped _ w0 = false /\ strip (tr _ w0) = strip (tr _ w) /\ finished _ w0 = false).
  { unfold w0, begin_p. cbn. rewrite strip_app. cbn. rewrite app_nil_r. auto. }
  destruct H0 as (Hc0 & Hd0 & Ht0 & Hf0).
  set (s := cs kst w0) in *.
  set (is := if k_kind s =? 1 then rot (k_n s) (k_off s) else seq 0 (k_n s)).
  set (w1 := if k_kind s =? 1 then set_cs kst w0 _ else w0).
  assert (Hn : k_n s = n) by (rewrite Hc0; apply HL).
  assert (His : Forall (fun i => i < n) is) by (unfold is; rewrite Hn; destruct (k_kind s =? 1); [apply rot_lt|apply seq_lt]).
  assert (HL1 : Lk n (cs _ w1) (strip (tr _ w1)) /\ dropped _ w1 = false /\ finished _ w1 = false).
  { unfold w1. destruct (k_kind s =? 1); cbn [cs tr set_cs dropped finished]; rewrite ?Ht0; (split; [|auto]).
    - destruct HL as [Ln Llen Lcnt Lerr Lrun Lnook Lres]. constructor; cbn [k_n k_errs k_completed]; rewrite ?Hc0; auto.
    - fold s. rewrite Hc0. exact HL. }
  destruct HL1 as (HL1 & Hd1 & Hf1).
  pose proof (rok_scan_spec n is w1 pid His HL1) as Hs. destruct (rok_scan w1 is pid) as [w2 r].
  destruct Hs as (S1 & S2 & S3 & S4 & S5 & S6 & S7).
  destruct r as [[o|]|].
  - intros _. destruct (finish_p_spec kst w2 o true) as (F1 & F2 & F3). rewrite F1, F3, strip_app. cbn [strip filter noise negb].
    unfold finish_p. cbn [finished set_flags emit]. unfold Pk. split; [exact S2|]. exists o.
    replace (polls_from 0 (strip (tr kst w2) ++ [EEndR o])) with (polls_from 0 (strip (tr kst w2))) by (symmetry; apply polls_from_tail; intros e [<-|[]]; exact I).
    split; [rewrite results_tail, S6; reflexivity|apply S7].
  - intros X. cbn in X. discriminate.
  - destruct (Nat.eqb_spec (k_completed (cs kst w2)) (k_n (cs kst w2))) as [E|E].
    + (* everybody failed: the aggregate error *)
      intros _. set (es := flat_map (fun o => match o with Some e => [e] | None => [] end) (k_errs (cs kst w2))).
      destruct (finish_p_spec kst w2 (OErrs es) true) as (F1 & F2 & F3). rewrite F1, F3, strip_app. cbn [strip filter noise negb].
      unfold finish_p. cbn [finished set_flags emit]. unfold Pk. split; [exact S2|]. exists (OErrs es).
      replace (polls_from 0 (strip (tr kst w2) ++ [EEndR (OErrs es)])) with (polls_from 0 (strip (tr kst w2))) by (symmetry; apply polls_from_tail; intros e [<-|[]]; exact I).
      split; [rewrite results_tail, S6; reflexivity|].
      destruct S7 as [Ln Llen Lcnt Lerr Lrun Lnook Lres]. change es with (all_vals (k_errs (cs kst w2))).
      assert (Hfull : length (all_vals (k_errs (cs kst w2))) = length (k_errs (cs kst w2))) by lia.
      destruct (all_vals_some (k_errs (cs kst w2))) as [HLn HN]; [apply all_vals_full; exact Hfull|].
      cbn [rok_res]. split; [exact Lnook|]. split; [lia|]. intros i Hi. rewrite (Lerr i Hi), HN by lia. reflexivity.
    + intros _. cbn [cs tr emit finished]. rewrite S5, Hf1, strip_app. cbn [strip filter noise negb]. unfold Pk.
      destruct S7 as [Ln Llen Lcnt Lerr Lrun Lnook Lres]. constructor; auto.
      all: try (replace (polls_from 0 (strip (tr kst w2) ++ [EEndP])) with (polls_from 0 (strip (tr kst w2))) by (symmetry; apply polls_from_tail; intros e [<-|[]]; exact I)); auto.
      rewrite results_tail, Lres. reflexivity.
Qed.

(* C07: while not dropped and not finished: no child has succeeded, nothing has been returned, the error table holds exactly the error each failed
   child answered (once), a failed child has not been polled again (runK).  Finished: the single result is Ok v and the last child poll ever made is
   that success, no success before it; or it is the aggregate of all n errors, each at its child's position, and nobody succeeded.  n = 0: the first
   poll returns the empty aggregate. *)
Theorem C07_race_ok kind scs ops :
  let n := length scs in
  let w := fold_left (p_step kst rok_poll k_drops) ops
             (mk_world {| k_kind := kind; k_n := n; k_off := 0; k_errs := repeat None n; k_completed := 0; k_gone := repeat false n |} false n scs) in
  dropped _ w = false -> Pk n (cs _ w) (finished _ w) (strip (tr _ w)).
Proof.
  intros n w. apply (PWp_run kst rok_poll k_drops (Pk n) (Pk_poll n) ops).
  intros _. cbn [finished mk_world cs tr strip filter]. unfold Pk. constructor; cbn [k_n k_errs k_completed polls_from results]; auto.
  - apply repeat_length.
  - clear. induction n; cbn; auto.
  - intros i Hi. rewrite repeat_nth by auto. reflexivity.
  - exists []. split; [reflexivity|]. intros i. split; [intros []|]. intros [e He]. destruct (Nat.lt_ge_cases i n) as [Hl|Hl].
    + rewrite repeat_nth in He by auto. discriminate.
    + rewrite nth_overflow in He by (rewrite repeat_length; auto). discriminate.
  - constructor.
Qed.

(* ---------------- C01 for the pass-through combinators: every waker a child is handed is the caller's waker of that poll ---------------- *)
Definition HPp {St} (w: W St) := Forall (Forall (is_par)) (handed St w).
Lemma Forall_upd' {A} (P: A -> Prop) (l: list A) i x : Forall P l -> P x -> Forall P (upd l i x).
Proof. revert i. induction l as [|a l IH]; intros [|i] Hl Hx; cbn; auto; inversion Hl; subst; constructor; auto. Qed.
Lemma Forall_nth' {A} (P: A -> Prop) (l: list A) i d : Forall P l -> P d -> P (nth i l d).
Proof. revert i. induction l as [|a l IH]; intros [|i] Hl Hd; cbn; auto; inversion Hl; subst; auto. Qed.
Lemma fire_handle_handed {St} (w: W St) c k : handed St (fire_handle St (fun _ => 0) w c k) = handed St w.
Proof. unfold fire_handle. destruct (nth_error _ k) as [[slot|pid]|]; auto; unfold do_fire; destruct (slot <? _); auto; destruct (nth slot _ true); auto. Qed.
Lemma fires_of_handed {St} (w: W St) me hs : handed St (fires_of St (fun _ => 0) w me hs) = handed St w.
Proof.
  revert w. induction hs as [|h r IH]; intros w; cbn [fires_of]; auto.
  destruct (match h with HSelf => (me, length (nth me (handed St w) []) - 1) | HOf c k => (c, k) end) as [c k].
  rewrite IH. apply fire_handle_handed.
Qed.
Lemma poll_direct_HP {St} (w: W St) m pid : HPp w -> HPp (fst (poll_direct St w m pid)).
Proof.
  intros H. unfold poll_direct. destruct (pop St w m) as [stp sc']. cbn [fst]. unfold HPp. cbn [handed emit]. rewrite fires_of_handed. cbn [handed emit set_oracle].
  apply Forall_upd'; auto. apply Forall_app. split; [apply Forall_nth'; auto|constructor; [exact I|constructor]].
Qed.
Lemma HP_frame {St} (w w': W St) : handed St w' = handed St w -> HPp w -> HPp w'.
Proof. intros E H. unfold HPp. rewrite E. exact H. Qed.

Lemma race_scan_HP is : forall (w: W rst) pid, HPp w -> HPp (fst (race_scan w is pid)).
Proof.
  induction is as [|i rest IH]; intros w pid H; cbn [race_scan]; auto.
  pose proof (poll_direct_HP w i pid H) as H1. destruct (poll_direct rst w i pid) as [w1 a]. cbn [fst] in H1.
  destruct a as [|[v|v]|v| |]; auto.
Qed.
Lemma race_poll_HP w pid np : HPp w -> HPp (race_poll w pid np).
Proof.
  intros H. unfold race_poll. set (w0 := begin_p rst w pid np). assert (H0 : HPp w0) by exact H.
  destruct (r_n (cs rst w0) =? 0); [exact H0|].
  match goal with |- context[race_scan ?W ?L pid] => pose proof (race_scan_HP L W pid H0) as Hs; destruct (race_scan W L pid) as [w2 r] end.
  cbn [fst] in Hs. destruct r as [[o|]|]; exact Hs.
Qed.

Lemma HPp_step {St} (pollf: W St -> nat -> nat -> W St) dropsf : (forall w pid np, HPp w -> HPp (pollf w pid np)) ->
  forall ops w, HPp w -> HPp (fold_left (p_step St pollf dropsf) ops w).
Proof.
  intros Hp. induction ops as [|o r IH]; intros w H; cbn; auto. apply IH. destruct o; cbn [p_step].
  - destruct (finished St w || dropped St w); auto.
  - destruct (finished St w || dropped St w); auto.
  - apply (HP_frame (emit St w [EO])); [apply fire_handle_handed|exact H].
  - destruct (dropped St w); exact H.
  - exact H.
Qed.
Theorem C01_race scs ops c k : let n := length scs in
  let w := fold_left (p_step rst race_poll (fun s => drops_all (r_n s))) ops (mk_world {| r_off := 0; r_n := n |} false n scs) in
  forall wk0, nth_error (nth c (handed _ w) []) k = Some wk0 -> exists pid, wk0 = WPar pid /\ tr _ (fire_handle _ (fun _ => 0) w c k) = tr _ w ++ [EF c k; EW pid].
Proof.
  intros n w wk0 E.
  assert (H : HPp w).
  { apply HPp_step; [apply race_poll_HP|]. unfold HPp. cbn. clear. induction (length scs); cbn; constructor; auto. }
  assert (Hp : is_par wk0).
  { assert (Hc : Forall is_par (nth c (handed _ w) [])) by (apply Forall_nth'; [exact H|constructor]).
    rewrite Forall_forall in Hc. apply Hc. eapply nth_error_In; eauto. }
  destruct wk0 as [slot|pid]; [contradiction|]. exists pid. split; [reflexivity|]. unfold fire_handle. rewrite E. reflexivity.
Qed.

Lemma rok_scan_HP is : forall (w: W kst) pid, HPp w -> HPp (fst (rok_scan w is pid)).
Proof.
  induction is as [|i rest IH]; intros w pid H; cbn [rok_scan]; auto.
  destruct (nth i (k_errs (cs kst w)) None); [apply IH; exact H|].
  pose proof (poll_direct_HP w i pid H) as H1. destruct (poll_direct kst w i pid) as [w1 a]. cbn [fst] in H1.
  assert (Hk : HPp (fst (kdone w1 i))) by (unfold kdone; destruct (_ =? 2); exact H1).
  destruct a as [|[v|e]|v| |]; auto.
  - destruct (kdone w1 i) as [w1' ed]. exact Hk.
  - destruct (kdone w1 i) as [w1' ed]. apply IH. exact Hk.
Qed.
Lemma rok_poll_HP w pid np : HPp w -> HPp (rok_poll w pid np).
Proof.
  intros H. unfold rok_poll. set (w0 := begin_p kst w pid np). assert (H0 : HPp w0) by exact H.
  match goal with |- context[rok_scan ?W ?L pid] => assert (HW : HPp W) by (destruct (k_kind (cs kst w0) =? 1); exact H0);
    pose proof (rok_scan_HP L W pid HW) as Hs; destruct (rok_scan W L pid) as [w2 r] end.
  cbn [fst] in Hs. destruct r as [[o|]|]; try exact Hs. cbv zeta. destruct (k_completed (cs kst w2) =? k_n (cs kst w2)); exact Hs.
Qed.
Lemma chain_loop_HP fuel : forall (w: W cst) pid, HPp w -> HPp (chain_loop fuel w pid).
Proof.
  induction fuel as [|f IH]; intros w pid H; cbn [chain_loop]; auto.
  destruct (_ =? _); [exact H|].
  pose proof (poll_direct_HP w (c_idx (cs cst w)) pid H) as H1. destruct (poll_direct cst w (c_idx (cs cst w)) pid) as [w1 a]. cbn [fst] in H1.
  destruct a as [|r|v| |]; try exact H1. apply IH. exact H1.
Qed.
Lemma chain_poll_HP w pid np : HPp w -> HPp (chain_poll w pid np).
Proof. intros H. unfold chain_poll. apply chain_loop_HP. exact H. Qed.
Lemma w_inner_HP w late pid : HPp w -> HPp (w_inner w late pid).
Proof.
  intros H. unfold w_inner. pose proof (poll_direct_HP w 1 pid H) as H1. destruct (poll_direct ust w 1 pid) as [w2 a]. cbn [fst] in H1.
  destruct a as [|[v|v]|v| |]; exact H1.
Qed.
Lemma wait_poll_HP w pid np : HPp w -> HPp (wait_poll w pid np).
Proof.
  intros H. rewrite wait_poll_eq. cbv zeta. set (w0 := begin_p ust w pid np). assert (H0 : HPp w0) by exact H.
  destruct (u_started (cs ust w0)); [apply w_inner_HP; exact H0|].
  pose proof (poll_direct_HP w0 0 pid H0) as H1. destruct (poll_direct ust w0 0 pid) as [w1 a]. cbn [fst] in H1.
  destruct a as [|[v|v]|v| |]; try exact H1; try (apply w_inner_HP; exact H1); destruct (u_stream (cs ust w0)); apply w_inner_HP; exact H1.
Qed.

(* one statement for the four machines *)
Theorem C01_pass {St} (pollf: W St -> nat -> nat -> W St) dropsf (w0: W St) ops c k :
  (forall w pid np, HPp w -> HPp (pollf w pid np)) -> HPp w0 ->
  let w := fold_left (p_step St pollf dropsf) ops w0 in
  forall wk0, nth_error (nth c (handed _ w) []) k = Some wk0 -> exists pid, wk0 = WPar pid /\ tr _ (fire_handle _ (fun _ => 0) w c k) = tr _ w ++ [EF c k; EW pid].
Proof.
  intros Hp H0 w wk0 E. assert (H : HPp w) by (apply HPp_step; auto).
  assert (Hpar : is_par wk0).
  { assert (Hc : Forall is_par (nth c (handed _ w) [])) by (apply Forall_nth'; [exact H|constructor]).
    rewrite Forall_forall in Hc. apply Hc. eapply nth_error_In; eauto. }
  destruct wk0 as [slot|pid]; [contradiction|]. exists pid. split; [reflexivity|]. unfold fire_handle. rewrite E. reflexivity.
Qed.
Definition C01_race_ok := fun dropsf => @C01_pass kst rok_poll dropsf.
Definition C01_chain := fun dropsf => @C01_pass cst chain_poll dropsf.
Definition C01_wait_until := fun dropsf => @C01_pass ust wait_poll dropsf.
