From Coq Require Import List Arith Lia Bool.
Import ListNotations.
Require Import ScanFull InstsFull.

(* Obligations of the generic scan for the executable FutureGroup / StreamGroup instance, incl. the mutations. *)
Lemma nth_upd_same' {A} (l: list A) i x d : nth i (upd l i x) d = if i <? length l then x else d.
Proof.
  destruct (i <? length l) eqn:E; [apply Nat.ltb_lt in E; apply nth_upd_same; auto|].
  apply Nat.ltb_ge in E. apply nth_overflow. rewrite upd_length. auto.
Qed.
Lemma repeat_nth {A} (x d: A) n i : i < n -> nth i (repeat x n) d = x.
Proof. revert i; induction n; destruct i; cbn; intros; auto; try lia. apply IHn; lia. Qed.
Lemma In_rm_key x k l : In x (rm_key k l) <-> In x l /\ x <> k.
Proof.
  unfold rm_key. rewrite filter_In. split; intros [A B]; split; auto.
  - apply negb_true_iff in B. apply Nat.eqb_neq in B. auto.
  - apply negb_true_iff. apply Nat.eqb_neq. auto.
Qed.
Lemma In_fold_rm x q l : In x (fold_left (fun l k => rm_key k l) q l) <-> In x l /\ ~ In x q.
Proof.
  revert l. induction q as [|k q IH]; intros l; cbn.
  - tauto.
  - rewrite IH, In_rm_key. split.
    + intros [[A B] C]. split; auto. intros [D|D]; auto.
    + intros [A B]. split; [split; auto|]; intros D; apply B; auto.
Qed.
Lemma In_ins_sorted x k l : In x (ins_sorted k l) <-> x = k \/ In x l.
Proof.
  induction l as [|y r IH]; cbn [ins_sorted].
  - cbn. split; [intros [H|[]]; left; auto | intros [H|[]]; left; auto].
  - destruct (k <? y).
    + cbn [In]. split; [intros [H|H]; [left; auto | right; auto] | intros [H|H]; [left; auto | right; auto]].
    + destruct (k =? y) eqn:E.
      * apply Nat.eqb_eq in E; subst. cbn [In]. split; [intros H; right; auto | intros [H|H]; [left; auto | auto]].
      * cbn [In]. rewrite IH. split; [intros [H|[H|H]]; [right; left | left | right; right]; auto | intros [H|[H|H]]; [right; left | left | right; right]; auto].
Qed.

Definition pend (s: gst) (k: nat) := is_pending (nth k (g_states s) PNone).
Record g_Q (s: gst) : Prop := {
  q_cover : forall k, pend s k = true -> In k (g_keys s);
  q_bound : forall k, In k (g_keys s) -> k < g_slots s;
  q_last  : forall k, g_last s = Some k -> pend s k = false;
  q_queue : forall k, In k (g_queue s) -> pend s k = false }.
Lemma pend_upd_none s k j : is_pending (nth j (upd (g_states s) k PNone) PNone) = if Nat.eqb j k then false else pend s j.
Proof.
  unfold pend. destruct (Nat.eqb_spec j k) as [->|Hne].
  - rewrite nth_upd_same'. destruct (k <? _); auto.
  - rewrite nth_upd_other; auto.
Qed.

(* the handler touches states only by setting slot k to None *)
Lemma g_handle_states s k a : g_states (fst (fst (g_handle s k a))) = g_states s \/
                              g_states (fst (fst (g_handle s k a))) = upd (g_states s) k PNone.
Proof. destruct a as [|[v|e]|v| |]; cbn; auto. Qed.
Lemma g_handle_keys s k a : g_keys (fst (fst (g_handle s k a))) = g_keys s.
Proof. destruct a as [|[v|e]|v| |]; cbn; auto. Qed.

Lemma G1 s i a : g_slots (fst (fst (g_handle s i a))) = g_slots s.
Proof. unfold g_slots. destruct (g_handle_states s i a) as [->| ->]; auto. apply upd_length. Qed.
Lemma aw_after s i a j : g_awaited (fst (fst (g_handle s i a))) j = true -> g_awaited s j = true.
Proof.
  unfold g_awaited. destruct (g_handle_states s i a) as [->| ->]; auto. rewrite pend_upd_none.
  destruct (Nat.eqb j i); [discriminate|auto].
Qed.
Lemma aw_other s i a j : j <> i -> g_awaited (fst (fst (g_handle s i a))) j = g_awaited s j.
Proof.
  intros Hne. unfold g_awaited. destruct (g_handle_states s i a) as [->| ->]; auto. rewrite pend_upd_none.
  destruct (Nat.eqb_spec j i); [congruence|reflexivity].
Qed.
Lemma G2 s i a s' e : g_handle s i a = (s', Cont, e) -> forall j, j <> i -> g_awaited s' j = g_awaited s j.
Proof. intros E j Hne. pose proof (aw_other s i a j Hne) as X. rewrite E in X. exact X. Qed.
Lemma G3 s i a s' e : g_handle s i a = (s', Cont, e) -> g_awaited s' i = true -> g_awaited s i = true.
Proof. intros E H. pose proof (aw_after s i a i) as X. rewrite E in X. auto. Qed.
Lemma G4 s i a s' r o e : g_Q s -> g_awaited s i = true -> g_handle s i a = (s', Stop r o, e) -> r <> RAll ->
  forall k, k <> i -> g_awaited s' k = g_awaited s k.
Proof. intros _ _ E _ k Hne. pose proof (aw_other s i a k Hne) as X. rewrite E in X. exact X. Qed.
Lemma G5 s i a s' o e : g_handle s i a = (s', Stop RSelf o, e) -> is_pend a = false.
Proof. destruct a as [|[v|er]|v| |]; cbn; intros E; auto; discriminate. Qed.
Lemma G6 s i a s' o e : g_Q s -> g_awaited s i = true -> g_handle s i a = (s', Stop RAll o, e) ->
  is_pend a = false /\ forall k, k <> i -> g_awaited s k = false.
Proof. destruct a as [|[v|er]|v| |]; cbn; intros _ _ E; discriminate. Qed.
Lemma G7 s i a : g_awaited s i = true -> g_awaited (fst (fst (g_handle s i a))) i = false -> is_pend a = false.
Proof. destruct a as [|[v|er]|v| |]; cbn; intros H1 H2; auto; congruence. Qed.
Lemma G8 s i a s' e : g_handle s i a = (s', Abort, e) -> s' = s.
Proof. destruct a as [|[v|er]|v| |]; cbn; intros E; try discriminate; inversion E; auto. Qed.
Lemma G9 s i a : g_Q s -> g_awaited s i = true -> i < g_slots s -> g_Q (fst (fst (g_handle s i a))).
Proof.
  intros [Qc Qb Ql Qq] _ _.
  assert (Hready : forall v, g_Q (fst (fst (g_handle s i (AReady v))))).
  { intros v. destruct v; cbn; constructor; unfold pend, g_slots in *; cbn; rewrite ?upd_length; auto.
    all: try (intros k Hk; rewrite pend_upd_none in Hk; destruct (Nat.eqb k i); [discriminate|]; apply Qc; exact Hk).
    all: try (intros k Hk; inversion Hk; subst; rewrite pend_upd_none, Nat.eqb_refl; reflexivity).
    all: intros k Hk; rewrite pend_upd_none; destruct (Nat.eqb k i); [reflexivity|]; apply Qq; exact Hk. }
  destruct a as [|r|v| |]; auto; try (cbn; constructor; auto; fail).
  cbn. constructor; unfold pend, g_slots in *; cbn; rewrite ?upd_length; auto.
  - intros k Hk. rewrite pend_upd_none in Hk. destruct (Nat.eqb k i); [discriminate|]. apply Qc; exact Hk.
  - intros k Hk. rewrite pend_upd_none. destruct (Nat.eqb k i); [reflexivity|]. apply Ql; exact Hk.
  - intros k Hk. rewrite pend_upd_none. destruct (Nat.eqb_spec k i) as [->|Hne]; [reflexivity|].
    apply in_app_or in Hk as [Hk|[Hk|[]]]; [apply Qq; exact Hk | congruence].
Qed.

(* order: a snapshot of the keys; bookkeeping fields reset *)
Lemma g_order_some s is s1 : g_order s = Some (is, s1) ->
  is = g_keys s /\ g_states s1 = g_states s /\ g_keys s1 = g_keys s /\ g_last s1 = None /\ g_queue s1 = [].
Proof. unfold g_order. intros E; inversion E; subst; cbn; auto. Qed.
Lemma G10 s is s1 : g_order s = Some (is, s1) -> g_slots s1 = g_slots s.
Proof. intros E. destruct (g_order_some _ _ _ E) as (_ & P & _). unfold g_slots. congruence. Qed.
Lemma G11 s is s1 : g_order s = Some (is, s1) -> forall i, g_awaited s1 i = g_awaited s i.
Proof. intros E i. destruct (g_order_some _ _ _ E) as (_ & P & _). unfold g_awaited. congruence. Qed.
Lemma G12 s is s1 : g_Q s -> g_order s = Some (is, s1) -> forall i, In i is -> i < g_slots s.
Proof. intros [Qc Qb Ql Qq] E i H. destruct (g_order_some _ _ _ E) as (-> & _). auto. Qed.
Lemma G13 s is s1 : g_Q s -> g_order s = Some (is, s1) -> forall i, i < g_slots s -> g_awaited s i = true -> In i is.
Proof. intros [Qc Qb Ql Qq] E i _ H. destruct (g_order_some _ _ _ E) as (-> & _). apply Qc. exact H. Qed.
Lemma G14 s is s1 : g_Q s -> g_order s = Some (is, s1) -> g_Q s1.
Proof.
  intros [Qc Qb Ql Qq] E. destruct (g_order_some _ _ _ E) as (_ & P1 & P2 & P3 & P4).
  constructor; unfold pend, g_slots in *; rewrite ?P1, ?P2, ?P3, ?P4; auto; try discriminate. intros j [].
Qed.

(* cleanup removes only keys whose slot is no longer pending *)
Lemma g_cleanup_states s : g_states (g_cleanup s) = g_states s. Proof. reflexivity. Qed.
Lemma In_cleanup_keys s x : In x (g_keys (g_cleanup s)) <->
  In x (g_keys s) /\ g_last s <> Some x /\ ~ In x (g_queue s).
Proof.
  unfold g_cleanup; cbn. rewrite In_fold_rm. destruct (g_last s) as [k|].
  - rewrite In_rm_key. split; [intros [[A B] C]|intros [A [B C]]]; repeat split; auto; congruence.
  - split; [intros [A C]|intros [A [B C]]]; repeat split; auto; discriminate.
Qed.
Lemma Q_cleanup s : g_Q s -> g_Q (g_cleanup s).
Proof.
  intros [Qc Qb Ql Qq]. constructor; unfold pend, g_slots in *; rewrite ?g_cleanup_states.
  - intros k Hk. apply In_cleanup_keys. split; [auto|]. split.
    + intros E. rewrite (Ql k E) in Hk. discriminate.
    + intros E. rewrite (Qq k E) in Hk. discriminate.
  - intros k Hk. apply In_cleanup_keys in Hk as [Hk _]. auto.
  - cbn. discriminate.
  - cbn. intros k [].
Qed.
Lemma G15 s : g_slots (fst (g_finish s)) = g_slots s.
Proof. unfold g_finish. destruct (g_stream s && _); reflexivity. Qed.
Lemma G16 s i : g_Q s -> g_awaited (fst (g_finish s)) i = g_awaited s i.
Proof. intros _. unfold g_finish. destruct (g_stream s && _); reflexivity. Qed.
Lemma G17 s : g_Q s -> g_Q (fst (g_finish s)).
Proof. intros HQ. unfold g_finish. destruct (g_stream s && _); cbn; apply Q_cleanup; auto. Qed.

(* the initial world *)
Definition g_init (stream: bool) (cap0: nat) : gst :=
  {| g_stream := stream; g_ent := []; g_next := 0; g_len := 0; g_keys := []; g_states := repeat PNone cap0; g_cap := cap0;
     g_last := None; g_queue := []; g_done := 0; g_count := 0; g_nmem := 0; g_ret := [] |}.
Lemma group_init stream cap0 : Inv gst g_slots g_awaited g_Q (mk_world (g_init stream cap0) true cap0 []).
Proof.
  split; [|split; intros; discriminate].
  split; [constructor; unfold N, g_slots; cbn; rewrite ?repeat_length; auto|].
  assert (Hnp : forall k, is_pending (nth k (repeat PNone cap0) PNone) = false).
  { intros k. destruct (Nat.lt_ge_cases k cap0); [rewrite repeat_nth by auto; auto | rewrite nth_overflow by (rewrite repeat_length; auto); auto]. }
  split.
  { constructor; unfold pend; cbn.
    - intros k Hk. rewrite Hnp in Hk. discriminate.
    - intros k Hk. destruct Hk.
    - intros k Hk. discriminate.
    - intros k Hk. destruct Hk. }
  unfold I2, I3, I4, I5, bit, aw, fired, polled, lastpend, N, g_slots, g_awaited; cbn. rewrite !repeat_length.
  split; [|split; [|split; [|split]]]; auto.
  - intros i Hi Ha. rewrite Hnp in Ha. discriminate.
  - intros i Hi Ha. rewrite Hnp in Ha. discriminate.
  - intros i Hi _. apply repeat_nth; auto.
Qed.

(* ---------------- the mutations preserve the invariant ---------------- *)
Notation GInv := (Inv gst g_slots g_awaited g_Q).
Lemma nth_app_states (l: list pstate) a k : nth k (l ++ repeat PNone a) PNone = nth k l PNone.
Proof.
  destruct (Nat.lt_ge_cases k (length l)); [apply app_nth1; auto|].
  rewrite app_nth2 by auto. rewrite (nth_overflow l) by auto.
  destruct (Nat.lt_ge_cases (k - length l) a); [apply repeat_nth; auto | apply nth_overflow; rewrite repeat_length; auto].
Qed.
Lemma Inv_reserve w a : GInv w -> GInv (g_reserve w a).
Proof.
  intros HI. unfold g_reserve. destruct (g_len (cs gst w) + a <? g_cap (cs gst w)); auto.
  assert (HQ : g_Q (cs gst w)) by apply HI. destruct HQ as [Qc Qb Ql Qq].
  apply Inv_grow; auto.
  - constructor; unfold pend, g_slots in *; cbn.
    + intros k Hk. rewrite nth_app_states in Hk. auto.
    + intros k Hk. rewrite app_length. specialize (Qb k Hk). lia.
    + intros k Hk. rewrite nth_app_states. auto.
    + intros k Hk. rewrite nth_app_states. auto.
  - unfold N, g_slots; cbn. rewrite app_length, repeat_length. reflexivity.
  - intros i Hi. unfold aw, g_awaited; cbn. rewrite nth_app_states. reflexivity.
  - intros i Hi. unfold g_awaited; cbn. rewrite nth_app_states. unfold N, g_slots in Hi. rewrite nth_overflow by auto. reflexivity.
Qed.
Lemma pend_upd_pending s k j : is_pending (nth j (upd (g_states s) k PPending) PNone) = true -> j = k \/ pend s j = true.
Proof.
  unfold pend. destruct (Nat.eq_dec j k) as [->|Hne]; auto. rewrite nth_upd_other by auto. auto.
Qed.

Lemma g_mutate_inv w m a sc : GInv w -> GInv (g_mutate w m a sc).
Proof.
  intros HI. unfold g_mutate.
  destruct m as [|[|[|[|[|[|m]]]]]].
  - (* insert *)
    set (w1 := if g_cap (cs gst w) <=? g_len (cs gst w) then g_reserve w (g_cap (cs gst w) * 2 + 1) else w).
    assert (HI1 : GInv w1) by (unfold w1; destruct (_ <=? _); auto using Inv_reserve).
    clearbody w1. clear HI.
    set (s := cs gst w1). set (k := g_next s).
    destruct (if k =? length (g_ent s) then _ else _) as [ent' nx'].
    destruct ((k <? length (g_states s)) && g_clean s) eqn:Eg; [|apply Inv_flags, Inv_not_pending; [apply K_ret, K_emit, HI1|reflexivity]].
    apply andb_true_iff in Eg as [Ek Ecl]. apply Nat.ltb_lt in Ek.
    assert (Hcl : g_last s = None /\ g_queue s = []).
    { unfold g_clean in Ecl. destruct (g_last s); [discriminate|]. destruct (g_queue s); [auto|discriminate]. }
    destruct Hcl as [Hl Hq].
    assert (HQ : g_Q s) by apply HI1. destruct HQ as [Qc Qb Ql Qq].
    apply Inv_emit, Inv_occupy; auto.
    + constructor; unfold pend, g_slots in *; cbn; rewrite ?upd_length.
      * intros j Hj. apply In_ins_sorted. destruct (pend_upd_pending s k j Hj) as [->|Hp]; auto.
      * intros j Hj. apply In_ins_sorted in Hj as [->|Hj]; auto.
      * rewrite Hl. discriminate.
      * rewrite Hq. intros j [].
    + unfold N, g_slots; cbn. apply upd_length.
    + intros i Hi. unfold aw, g_awaited; cbn. rewrite nth_upd_other by auto. reflexivity.
  - (* remove *)
    destruct (nth_error (g_ret (cs gst w)) a) as [k|]; auto.
    destruct (existsb (fun x => x =? k) (g_keys (cs gst w))) eqn:Ex; [|apply Inv_emit, HI].
    apply existsb_exists in Ex as (x & Hx & Ex). apply Nat.eqb_eq in Ex. subst x.
    assert (HQ : g_Q (cs gst w)) by apply HI. destruct HQ as [Qc Qb Ql Qq].
    apply Inv_emit, Inv_vacate; auto.
    + constructor; unfold pend, g_slots in *; cbn; rewrite ?upd_length.
      * intros j Hj. rewrite pend_upd_none in Hj. destruct (Nat.eqb_spec j k); [discriminate|]. apply In_rm_key. split; auto.
      * intros j Hj. apply In_rm_key in Hj as [Hj _]. auto.
      * intros j Hj. rewrite pend_upd_none. destruct (Nat.eqb j k); [reflexivity|]. unfold pend. apply Ql. exact Hj.
      * intros j Hj. rewrite pend_upd_none. destruct (Nat.eqb j k); [reflexivity|]. unfold pend. apply Qq. exact Hj.
    + unfold N, g_slots; cbn. apply upd_length.
    + unfold g_awaited; cbn. rewrite pend_upd_none, Nat.eqb_refl. reflexivity.
    + intros i Hi. unfold aw, g_awaited; cbn. rewrite pend_upd_none. destruct (Nat.eqb_spec i k); [congruence|reflexivity].
  - apply Inv_reserve, HI.
  - apply Inv_emit, HI.
  - destruct (nth_error _ a); [apply Inv_emit|]; exact HI.
  - apply Inv_emit, HI.
  - apply Inv_emit, HI.
Qed.

(* ---------------- theorems for FutureGroup / StreamGroup (plain and keyed share the model) ---------------- *)
Definition group_run (stream: bool) (cap0: nat) (ops: list op) :=
  run_ops gst g_slots g_awaited g_member g_handle false false g_order g_pre_exit (fun _ => true) g_finish g_cleanup g_drop
    (fun _ => false) g_mutate (mk_world (g_init stream cap0) true cap0 []) ops.
Ltac group_apply T :=
  apply (T gst g_slots g_awaited g_member g_handle false false g_order g_pre_exit (fun _ => true) g_finish g_cleanup g_drop
           (fun _ => false) g_Q G1 G2 G3 G4 G5 G6 G7 G8 G9 G10 G11 G12 G13 G14 G15 G16 G17
           (fun _ => eq_refl) (fun _ _ _ => eq_refl) Q_cleanup g_mutate g_mutate_inv); apply group_init.
Theorem group_C01 stream cap0 ops i : let w := group_run stream cap0 ops in
  g_retpend _ w = true -> i < N _ g_slots w -> Sig _ g_awaited w i -> g_out _ w = true.
Proof. group_apply C01_generic. Qed.
Theorem group_C01_quiescent stream cap0 ops i : let w := group_run stream cap0 ops in
  g_retpend _ w = true -> g_quiet _ w = true -> g_out _ w = false -> i < N _ g_slots w -> aw _ g_awaited w i = true ->
  polled _ w i = true /\ fired _ w i = false.
Proof. group_apply C01_quiescent. Qed.
Theorem group_C16 stream cap0 ops : g_bad16 _ (group_run stream cap0 ops) = false.
Proof. group_apply C16_generic. Qed.
Theorem group_C20 stream cap0 ops i : let w := group_run stream cap0 ops in
  g_retpend _ w = true -> g_quiet _ w = true -> i < N _ g_slots w -> aw _ g_awaited w i = true -> polled _ w i = true.
Proof. group_apply C20_generic. Qed.
