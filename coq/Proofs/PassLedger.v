From Coq Require Import List Arith Lia Bool.
Import ListNotations.
Require Import ScanFull InstsFull Pass ObligJoin ObligGroups C04Join C08Merge C11Groups C05Join C02Join C02Merge PassProofs.

(* End-of-life extension of the pass-through invariant lemma, and the ownership ledger (C02) of chain and race. *)
Section PassFin.
  Variable St : Type.
  Variable pollf : W St -> nat -> nat -> W St.
  Variable dropsf : St -> list ev.
  Variable P : St -> bool -> list ev -> Prop.
  Variable F : list ev -> Prop.
  Hypothesis PF_poll : forall w pid np, dropped St w = false -> finished St w = false -> P (cs St w) false (strip (tr St w)) ->
    if dropped St (pollf w pid np) then F (strip (tr St (pollf w pid np)))
    else P (cs St (pollf w pid np)) (finished St (pollf w pid np)) (strip (tr St (pollf w pid np))).
  Hypothesis P_dropF : forall s fin t, P s fin t -> F (t ++ ED :: strip (dropsf s)).
  Hypothesis F_ED : forall t, F t -> F (t ++ [ED]).
  Definition DWp (w: W St) := if dropped St w then F (strip (tr St w)) else P (cs St w) (finished St w) (strip (tr St w)).
  Lemma DWp_step w o : DWp w -> DWp (p_step St pollf dropsf w o).
  Proof.
    intros H. destruct o; cbn [p_step].
    - destruct (finished St w || dropped St w) eqn:E; auto. apply orb_false_iff in E as [E1 E2]. unfold DWp in H. rewrite E2, E1 in H. apply PF_poll; auto.
    - destruct (finished St w || dropped St w) eqn:E; auto. apply orb_false_iff in E as [E1 E2]. unfold DWp in H. rewrite E2, E1 in H. apply PF_poll; auto.
    - destruct (fire_handle_T St (fun _ => 0) (emit St w [EO]) c k) as (A & B & C). unfold DWp in *. rewrite A, B, C, (fire_handle_fin St). cbn.
      rewrite strip_app. cbn. rewrite app_nil_r. exact H.
    - unfold DWp in H. destruct (dropped St w) eqn:E; unfold DWp; cbn; rewrite strip_app.
      + apply F_ED. exact H.
      + cbn. apply (P_dropF _ _ _ H).
    - exact H.
  Qed.
  Theorem PF_final ops w : DWp w -> F (strip (tr St (fold_left (p_step St pollf dropsf) (ops ++ [ODrop]) w))).
  Proof.
    intros H. assert (X : forall l w0, DWp w0 -> DWp (fold_left (p_step St pollf dropsf) l w0)).
    { induction l as [|o r IH]; intros w0 H0; cbn; auto. apply IH, DWp_step, H0. }
    specialize (X (ops ++ [ODrop]) w H). unfold DWp in X.
    assert (Hd : dropped St (fold_left (p_step St pollf dropsf) (ops ++ [ODrop]) w) = true).
    { rewrite fold_left_app. cbn. destruct (dropped St (fold_left (p_step St pollf dropsf) ops w)); reflexivity. }
    rewrite Hd in X. exact X.
  Qed.
End PassFin.

(* ---------------- chain ---------------- *)
Definition vals_of (o: out) : list nat := match o with OSome _ vs => vs | _ => [] end.
Lemma retS_results t : returnedS t = flat_map vals_of (results t).
Proof.
  induction t as [|e t IH]; [reflexivity|]. change (returnedS (e :: t)) with ((match e with EEndR (OSome _ vs) => vs | _ => [] end) ++ returnedS t).
  rewrite IH. destruct e; try reflexivity; destruct o; reflexivity.
Qed.
Lemma itemsC_vals P : flat_map vals_of (itemsC P) = producedS P.
Proof.
  induction P as [|[m a] P IH]; [reflexivity|]. unfold itemsC, producedS in *. cbn [flat_map snd].
  rewrite flat_map_app, IH. destruct a as [|r|v| |]; reflexivity.
Qed.
Lemma drops_all_children n : drops_all n = drop_all_children n. Proof. reflexivity. Qed.

Section ChainLedger.
  Variable n : nat.
  Definition Qd (t: list ev) := droppedl t = [] /\ dropv t = [].
  Lemma Qd_seg t i w a : Qd t -> Qd (t ++ [EC i w; EAns a]).
  Proof. intros [A B]. split; [rewrite droppedl_app, A|rewrite dropv_app, B]; reflexivity. Qed.
  Lemma Qd_tail t e : Qd t -> (e = EEndP \/ exists o, e = EEndR o) -> Qd (t ++ [e]).
  Proof. intros [A B] He. split; [rewrite droppedl_app, A|rewrite dropv_app, B]; destruct He as [->|[o ->]]; reflexivity. Qed.

  (* what the balance needs from the functional invariant: the results are the items, possibly followed by None *)
  Lemma chain_bal t tail last : Qd t -> results t = itemsC (polls_from 0 t) ++ last -> (last = [] \/ last = [ONone]) ->
    (tail = [] \/ tail = [EEndX]) -> BalS n (t ++ ED :: strip (drops_all n) ++ tail).
  Proof.
    intros [Hd Hv] Hr Hl Ht. rewrite drops_all_children, strip_children. destruct (quiet_children n) as (Q1 & Q2 & Q3).
    assert (A : droppedl (t ++ ED :: drop_all_children n ++ tail) = seq 0 n).
    { rewrite droppedl_app, Hd. cbn. rewrite droppedl_app, droppedl_children. destruct Ht as [->| ->]; cbn; apply app_nil_r. }
    assert (B : polls_from 0 (t ++ ED :: drop_all_children n ++ tail) = polls_from 0 t).
    { apply polls_from_tail. intros e [<-|He]; [exact I|]. apply in_app_or in He as [He|He].
      - unfold drop_all_children in He. apply in_map_iff in He as (k & <- & _). exact I.
      - destruct Ht as [->| ->]; [destruct He|destruct He as [<-|[]]; exact I]. }
    assert (C : returnedS (t ++ ED :: drop_all_children n ++ tail) = returnedS t).
    { rewrite returnedS_app. cbn. rewrite returnedS_app, Q2. destruct Ht as [->| ->]; cbn; apply app_nil_r. }
    assert (D : dropv (t ++ ED :: drop_all_children n ++ tail) = []).
    { rewrite dropv_app, Hv. cbn. rewrite dropv_app, Q3. destruct Ht as [->| ->]; reflexivity. }
    split; [intros x|intros v]; rewrite ?A, ?B, ?C, ?D.
    - apply cnt_seq.
    - rewrite retS_results, Hr, flat_map_app, itemsC_vals. destruct Hl as [->| ->]; cbn; rewrite app_nil_r; change (cnt v []) with 0; lia.
  Qed.

  Lemma chain_loop_fin fuel : forall (w: W cst) pid, fuel = S (c_n (cs _ w) - c_idx (cs _ w)) -> dropped _ w = false -> finished _ w = false ->
    c_n (cs _ w) = n -> Lc (cs _ w) (strip (tr _ w)) -> Qd (strip (tr _ w)) ->
    let w' := chain_loop fuel w pid in
    if dropped _ w' then BalS n (strip (tr _ w'))
    else c_n (cs _ w') = n /\ Qd (strip (tr _ w')) /\ exists last, results (strip (tr _ w')) = itemsC (polls_from 0 (strip (tr _ w'))) ++ last /\ (last = [] \/ last = [ONone]).
  Proof.
    induction fuel as [|f IH]; intros w pid Hf Hd Hfin Hn (Hle & Hrun & Hres) HQ; [discriminate|].
    cbn [chain_loop]. set (s := cs cst w) in *.
    destruct (Nat.eqb_spec (c_idx s) (c_n s)) as [E|E].
    - destruct (finish_p_spec cst w ONone true) as (A & B & C). cbv zeta. rewrite B, Hd, A, C, strip_app. cbn [strip filter noise negb].
      split; [exact Hn|]. split; [apply Qd_tail; eauto|]. exists [ONone]. split; [|auto].
      replace (polls_from 0 (strip (tr cst w) ++ [EEndR ONone])) with (polls_from 0 (strip (tr cst w))) by (symmetry; apply polls_from_tail; intros e [<-|[]]; exact I).
      rewrite results_tail, Hres. reflexivity.
    - pose proof (poll_direct_spec cst w (c_idx s) pid) as Hs. destruct (poll_direct cst w (c_idx s) pid) as [w1 a]. destruct Hs as (A1 & B1 & C1 & D1).
      assert (Hp1 : polls_from 0 (strip (tr cst w1)) = polls_from 0 (strip (tr cst w)) ++ [(c_idx s, a)]) by (rewrite C1, polls_from_app_EC; reflexivity).
      assert (Hr1 : results (strip (tr cst w1)) = results (strip (tr cst w))) by (rewrite C1, results_tail; cbn; apply app_nil_r).
      assert (HQ1 : Qd (strip (tr cst w1))) by (rewrite C1; apply Qd_seg; exact HQ).
      assert (Hend : forall e, (e = EEndP /\ (forall v, a <> AItem v)) \/ (exists v, e = EEndR (OSome None [v]) /\ a = AItem v) ->
                c_n (cs cst w1) = n /\ Qd (strip (tr cst w1) ++ [e]) /\
                exists last, results (strip (tr cst w1) ++ [e]) = itemsC (polls_from 0 (strip (tr cst w1) ++ [e])) ++ last /\ (last = [] \/ last = [ONone])).
      { intros e He. rewrite A1. split; [exact Hn|]. split; [apply Qd_tail; auto; destruct He as [[-> _]|(v & -> & _)]; eauto|].
        exists []. split; [|auto]. rewrite app_nil_r.
        replace (polls_from 0 (strip (tr cst w1) ++ [e])) with (polls_from 0 (strip (tr cst w1)))
          by (symmetry; apply polls_from_tail; intros e' [<-|[]]; destruct He as [[-> _]|(v & -> & _)]; exact I).
        rewrite results_tail, Hr1, Hres, Hp1, itemsC_app. f_equal.
        destruct He as [[-> Hni]|(v & -> & ->)]; [|reflexivity]. cbn. destruct a as [|r|v| |]; try reflexivity. exfalso; eapply Hni; eauto. }
      destruct a as [|r|v| |].
      + cbv zeta. cbn [dropped emit cs tr]. rewrite B1, Hd, strip_app. cbn [strip filter noise negb]. apply Hend. left. split; [reflexivity|discriminate].
      + cbv zeta. cbn [dropped emit cs tr]. rewrite B1, Hd, strip_app. cbn [strip filter noise negb]. apply Hend. left. split; [reflexivity|discriminate].
      + destruct (finish_p_spec cst w1 (OSome None [v]) false) as (A & B & C). cbv zeta. rewrite B, B1, Hd, A, C, strip_app. cbn [strip filter noise negb].
        apply Hend. right. eauto.
      + apply IH.
        * cbn [cs set_cs c_n c_idx]. fold s. lia.
        * cbn. rewrite B1. exact Hd.
        * cbn. rewrite D1. exact Hfin.
        * cbn [cs set_cs c_n]. fold s. exact Hn.
        * cbn [cs set_cs tr]. unfold Lc. cbn [c_idx c_n]. fold s. split; [lia|]. split.
          -- rewrite Hp1, runC_snoc, Hrun. cbn. rewrite Nat.eqb_refl. reflexivity.
          -- rewrite Hr1, Hres, Hp1, itemsC_app. cbn. rewrite app_nil_r. reflexivity.
        * cbn [tr set_cs]. exact HQ1.
      + (* the input's poll panicked: the chain unwinds *)
        cbv zeta. unfold unwind_p. cbn [dropped set_flags tr emit]. rewrite strip_app. cbn [strip filter noise negb]. rewrite strip_app.
        change (strip [EEndX]) with [EEndX]. fold s. rewrite Hn.
        apply (chain_bal _ [EEndX] []); auto.
        rewrite app_nil_r, Hr1, Hres, Hp1, itemsC_app. cbn. rewrite app_nil_r. reflexivity.
  Qed.
End ChainLedger.

Lemma BalS_ED' n t : BalS n t -> BalS n (t ++ [ED]).
Proof.
  intros [B1 B2]. split; [intros x|intros v].
  - rewrite droppedl_app. change (droppedl [ED]) with (@nil nat). rewrite app_nil_r. apply B1.
  - rewrite returnedS_app, dropv_app. change (returnedS [ED]) with (@nil nat). change (dropv [ED]) with (@nil nat). rewrite !app_nil_r.
    replace (polls_from 0 (t ++ [ED])) with (polls_from 0 t) by (symmetry; apply polls_from_tail; intros e [<-|[]]; exact I). apply B2.
Qed.

Theorem C02_chain scs ops : let n := length scs in
  BalS n (strip (tr _ (fold_left (p_step cst chain_poll (fun s => drops_all (c_n s))) (ops ++ [ODrop]) (mk_world {| c_idx := 0; c_n := n |} false n scs)))).
Proof.
  intros n.
  apply (PF_final cst chain_poll (fun s => drops_all (c_n s)) (fun s fin t => Pc s fin t /\ c_n s = n /\ Qd t) (BalS n)).
  - (* a poll *) intros w pid np Hd Hf (HP & Hn & HQ).
    assert (HL : Lc (cs _ w) (strip (tr _ w))).
    { destruct HP as (A & B & C & _). split; [exact A|]. split; [exact B|]. rewrite C. apply app_nil_r. }
    unfold chain_poll. set (w0 := begin_p cst w pid np).
    assert (H0 : cs _ w0 = cs _ w /\ dropped _ w0 = false /\ strip (tr _ w0) = strip (tr _ w) /\ finished _ w0 = false).
    { unfold w0, begin_p. cbn. rewrite strip_app. cbn. rewrite app_nil_r. auto. }
    destruct H0 as (Hc0 & Hd0 & Ht0 & Hf0).
    assert (Hn0 : c_n (cs _ w0) = n) by (rewrite Hc0; exact Hn).
    assert (HL0 : Lc (cs _ w0) (strip (tr _ w0))) by (rewrite Hc0, Ht0; exact HL).
    assert (HQ0 : Qd (strip (tr _ w0))) by (rewrite Ht0; exact HQ).
    pose proof (chain_loop_fin n _ w0 pid eq_refl Hd0 Hf0 Hn0 HL0 HQ0) as Hfin. cbv zeta in Hfin.
    pose proof (chain_loop_spec _ w0 pid eq_refl Hd0 Hf0 HL0) as Hspec. cbv zeta in Hspec.
    destruct (dropped cst (chain_loop (S (c_n (cs cst w0) - c_idx (cs cst w0))) w0 pid)) eqn:Edr; [exact Hfin|].
    destruct (Hspec eq_refl) as [HPc _]. destruct Hfin as (A & B & _). auto.
  - (* drop *) intros s fin t (HP & Hn & HQ). rewrite Hn, <- (app_nil_r (strip (drops_all n))).
    destruct HP as (_ & _ & C & _). apply (chain_bal n t [] (if fin then [ONone] else [])); auto. destruct fin; auto.
  - apply BalS_ED'.
  - unfold DWp. cbn [dropped mk_world cs tr finished strip filter]. split; [|split; [reflexivity|split; reflexivity]].
    unfold Pc. cbn. split; [lia|]. split; [reflexivity|]. split; [reflexivity|discriminate].
Qed.

(* ---------------- race ---------------- *)
Definition producedR (P: list (nat * ans)) : list nat := flat_map (fun p => match snd p with AReady (ROk v) | AReady (RErr v) => [v] | _ => [] end) P.
Definition returnedR (t: list ev) : list nat := flat_map (fun e => match e with EEndR (OVals vs) => vs | _ => [] end) t.
Lemma producedR_app a b : producedR (a ++ b) = producedR a ++ producedR b. Proof. apply flat_map_app. Qed.
Lemma returnedR_app a b : returnedR (a ++ b) = returnedR a ++ returnedR b. Proof. apply flat_map_app. Qed.
Definition BalR (n: nat) (t: list ev) : Prop :=
  (forall x, cnt x (droppedl t) = if x <? n then 1 else 0) /\ producedR (polls_from 0 t) = returnedR t /\ dropv t = [].
Definition valsR (o: out) : list nat := match o with OVals vs => vs | _ => [] end.
Lemma retR_results t : returnedR t = flat_map valsR (results t).
Proof.
  induction t as [|e t IH]; [reflexivity|]. change (returnedR (e :: t)) with ((match e with EEndR (OVals vs) => vs | _ => [] end) ++ returnedR t).
  rewrite IH. destruct e; try reflexivity; destruct o; reflexivity.
Qed.
Lemma losing_producedR P : losing P -> producedR P = [].
Proof.
  induction 1 as [|[m a] P [Hw _] _ IH]; [reflexivity|]. unfold producedR in *. cbn [flat_map snd]. rewrite IH.
  destruct a as [|[v|v]|v| |]; try reflexivity; discriminate.
Qed.

Lemma race_bal n t tail : Qd t -> (losing (polls_from 0 t) /\ results t = [] \/
     exists P0 i a, polls_from 0 t = P0 ++ [(i, a)] /\ losing P0 /\ (is_win a = true /\ results t = win_val a \/ a = APanic /\ results t = [])) ->
  (tail = [] \/ tail = [EEndX]) -> BalR n (t ++ ED :: strip (drops_all n) ++ tail).
Proof.
  intros [Hd Hv] Hr Ht. rewrite drops_all_children, strip_children. destruct (quiet_children n) as (Q1 & _ & Q3).
  assert (A : droppedl (t ++ ED :: drop_all_children n ++ tail) = seq 0 n).
  { rewrite droppedl_app, Hd. cbn. rewrite droppedl_app, droppedl_children. destruct Ht as [->| ->]; cbn; apply app_nil_r. }
  assert (B : polls_from 0 (t ++ ED :: drop_all_children n ++ tail) = polls_from 0 t).
  { apply polls_from_tail. intros e [<-|He]; [exact I|]. apply in_app_or in He as [He|He].
    - unfold drop_all_children in He. apply in_map_iff in He as (k & <- & _). exact I.
    - destruct Ht as [->| ->]; [destruct He|destruct He as [<-|[]]; exact I]. }
  assert (C : returnedR (t ++ ED :: drop_all_children n ++ tail) = returnedR t).
  { rewrite returnedR_app. cbn. rewrite returnedR_app.
    assert (X : forall l, returnedR (map EDc l) = []) by (induction l as [|a l IHl]; [reflexivity|exact IHl]).
    unfold drop_all_children. rewrite X. destruct Ht as [->| ->]; cbn; apply app_nil_r. }
  assert (D : dropv (t ++ ED :: drop_all_children n ++ tail) = []).
  { rewrite dropv_app, Hv. cbn. rewrite dropv_app, Q3. destruct Ht as [->| ->]; reflexivity. }
  split; [intros x; rewrite A; apply cnt_seq|]. split; [|exact D].
  rewrite B, C, retR_results. destruct Hr as [[HL Hres]|(P0 & i & a & E & HL & [[Hw Hres]|[-> Hres]])].
  - rewrite Hres, losing_producedR; auto.
  - rewrite E, producedR_app, losing_producedR, Hres by auto. destruct a as [|[v|v]|v| |]; try discriminate; reflexivity.
  - rewrite E, producedR_app, losing_producedR, Hres by auto. reflexivity.
Qed.

Lemma race_scan_fin is : forall (w: W rst) pid, dropped _ w = false ->
  losing (polls_from 0 (strip (tr _ w))) -> results (strip (tr _ w)) = [] -> Qd (strip (tr _ w)) ->
  let '(w', r) := race_scan w is pid in
  cs _ w' = cs _ w /\ dropped _ w' = false /\ Qd (strip (tr _ w')) /\ results (strip (tr _ w')) = [] /\
  match r with
  | None => losing (polls_from 0 (strip (tr _ w')))
  | Some (Some o) => exists P0 i a, polls_from 0 (strip (tr _ w')) = P0 ++ [(i, a)] /\ losing P0 /\ is_win a = true /\ [o] = win_val a
  | Some None => exists P0 i, polls_from 0 (strip (tr _ w')) = P0 ++ [(i, APanic)] /\ losing P0
  end.
Proof.
  induction is as [|i rest IH]; intros w pid Hd HL HR HQ; cbn [race_scan]; [auto|].
  pose proof (poll_direct_spec rst w i pid) as Hs. destruct (poll_direct rst w i pid) as [w1 a]. destruct Hs as (A & B & C & D).
  assert (Hp : polls_from 0 (strip (tr rst w1)) = polls_from 0 (strip (tr rst w)) ++ [(i, a)]) by (rewrite C, polls_from_app_EC; reflexivity).
  assert (Hr : results (strip (tr rst w1)) = []) by (rewrite C, results_tail, HR; reflexivity).
  assert (HQ1 : Qd (strip (tr rst w1))) by (rewrite C; apply Qd_seg; exact HQ).
  assert (Hd1 : dropped _ w1 = false) by congruence.
  assert (Hcont : is_win a = false -> a <> APanic -> losing (polls_from 0 (strip (tr rst w1)))).
  { intros Hw Hnp. rewrite Hp. apply Forall_app. split; auto. }
  assert (Hfin : forall r, match r with
            | None => False
            | Some (Some o) => is_win a = true /\ [o] = win_val a
            | Some None => a = APanic end ->
            cs _ w1 = cs _ w /\ dropped _ w1 = false /\ Qd (strip (tr _ w1)) /\ results (strip (tr _ w1)) = [] /\
            match r with
            | None => losing (polls_from 0 (strip (tr _ w1)))
            | Some (Some o) => exists P0 i0 a0, polls_from 0 (strip (tr _ w1)) = P0 ++ [(i0, a0)] /\ losing P0 /\ is_win a0 = true /\ [o] = win_val a0
            | Some None => exists P0 i0, polls_from 0 (strip (tr _ w1)) = P0 ++ [(i0, APanic)] /\ losing P0
            end).
  { intros r Hr'. split; [exact A|]. split; [exact Hd1|]. split; [exact HQ1|]. split; [exact Hr|].
    destruct r as [[o|]|]; [|subst a|contradiction].
    - destruct Hr' as [X Y]. exists (polls_from 0 (strip (tr rst w))), i, a. auto.
    - exists (polls_from 0 (strip (tr rst w))), i. auto. }
  assert (Hrec : is_win a = false -> a <> APanic ->
            let '(w', r) := race_scan w1 rest pid in
            cs _ w' = cs _ w /\ dropped _ w' = false /\ Qd (strip (tr _ w')) /\ results (strip (tr _ w')) = [] /\
            match r with
            | None => losing (polls_from 0 (strip (tr _ w')))
            | Some (Some o) => exists P0 i0 a0, polls_from 0 (strip (tr _ w')) = P0 ++ [(i0, a0)] /\ losing P0 /\ is_win a0 = true /\ [o] = win_val a0
            | Some None => exists P0 i0, polls_from 0 (strip (tr _ w')) = P0 ++ [(i0, APanic)] /\ losing P0
            end).
  { intros Hw Hnp. specialize (IH w1 pid Hd1 (Hcont Hw Hnp) Hr HQ1). destruct (race_scan w1 rest pid) as [w' r]. rewrite <- A. exact IH. }
  destruct a as [|[v|v]|v| |].
  - apply Hrec; [reflexivity|discriminate].
  - apply (Hfin (Some (Some (OVals [v])))). auto.
  - apply (Hfin (Some (Some (OVals [v])))). auto.
  - apply Hrec; [reflexivity|discriminate].
  - apply Hrec; [reflexivity|discriminate].
  - apply (Hfin (Some None)). reflexivity.
Qed.

Lemma BalR_ED n t : BalR n t -> BalR n (t ++ [ED]).
Proof.
  intros (B1 & B2 & B3). split; [|split].
  - intros x. rewrite droppedl_app. change (droppedl [ED]) with (@nil nat). rewrite app_nil_r. apply B1.
  - rewrite returnedR_app. change (returnedR [ED]) with (@nil nat). rewrite app_nil_r.
    replace (polls_from 0 (t ++ [ED])) with (polls_from 0 t) by (symmetry; apply polls_from_tail; intros e [<-|[]]; exact I). exact B2.
  - rewrite dropv_app, B3. reflexivity.
Qed.

Theorem C02_race scs ops : let n := length scs in
  BalR n (strip (tr _ (fold_left (p_step rst race_poll (fun s => drops_all (r_n s))) (ops ++ [ODrop]) (mk_world {| r_off := 0; r_n := n |} false n scs)))).
Proof.
  intros n.
  apply (PF_final rst race_poll (fun s => drops_all (r_n s)) (fun s fin t => Pr s fin t /\ r_n s = n /\ Qd t) (BalR n)).
  - intros w pid np Hd Hf (HP & Hn & HQ). pose proof (Pr_poll w pid np Hd Hf HP) as HPr. destruct HP as [HL HR].
    unfold race_poll in *. set (w0 := begin_p rst w pid np) in *.
    assert (H0 : cs _ w0 = cs _ w /\ dropped _ w0 = false /\ strip (tr _ w0) = strip (tr _ w)).
    { unfold w0, begin_p. cbn. rewrite strip_app. cbn. rewrite app_nil_r. auto. }
    destruct H0 as (Hc0 & Hd0 & Ht0). rewrite Hc0 in *. rewrite Hn in *.
    destruct (Nat.eqb_spec n 0) as [E0|E0].
    + (* racing nothing: the poll panics *)
      unfold unwind_p. cbn [dropped set_flags tr emit]. rewrite strip_app, Ht0. cbn [strip filter noise negb app].
      pose proof (race_bal n (strip (tr rst w)) [EEndX] HQ (or_introl (conj HL HR)) (or_intror eq_refl)) as X. rewrite E0 in X. cbn in X. rewrite E0. exact X.
    + match goal with |- context[race_scan ?W ?L pid] => set (w1 := W) in *; set (L0 := L) in * end.
      pose proof (race_scan_fin L0 w1 pid) as Hs.
      destruct (race_scan w1 L0 pid) as [w2 r].
      destruct Hs as (A & B & C & D & E); [exact Hd0|unfold w1; cbn [tr set_cs]; rewrite Ht0; exact HL|unfold w1; cbn [tr set_cs]; rewrite Ht0; exact HR|unfold w1; cbn [tr set_cs]; rewrite Ht0; exact HQ|].
      destruct r as [[o|]|].
      * destruct (finish_p_spec rst w2 o true) as (F1 & F2 & F3). rewrite F2, B in *. split; [apply HPr; reflexivity|]. rewrite F1, A. split; [unfold w1; cbn; first [reflexivity|exact Hn]|].
        rewrite F3, strip_app. apply Qd_tail; eauto.
      * unfold unwind_p. cbn [dropped set_flags tr emit]. rewrite strip_app. cbn [strip filter noise negb]. rewrite strip_app. change (strip [EEndX]) with [EEndX].
        destruct E as (P0 & i & E1 & E2). apply race_bal; auto. right. exists P0, i, APanic. auto.
      * cbn [dropped emit] in *. rewrite B in *. split; [apply HPr; reflexivity|]. cbn [cs emit]. rewrite A. split; [unfold w1; cbn; first [reflexivity|exact Hn]|].
        cbn [tr emit]. rewrite strip_app. apply Qd_tail; auto.
  - intros s fin t (HP & Hn & HQ). rewrite Hn, <- (app_nil_r (strip (drops_all n))). apply race_bal; auto.
    unfold Pr in HP. destruct fin; [right|left; exact HP]. destruct HP as (P0 & i & a & E1 & E2 & E3 & E4). exists P0, i, a. auto.
  - apply BalR_ED.
  - unfold DWp. cbn [dropped mk_world cs tr finished strip filter]. split; [split; [constructor|reflexivity]|]. split; [reflexivity|split; reflexivity].
Qed.
