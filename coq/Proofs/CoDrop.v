(* C13 / C14, the drop clause: every closure future that was created is completed or dropped by the end of an accepted history in whose final
   state no work is in flight (the acceptance condition `settled`, evaluated by the acceptor driver on every trace of the crate: a trace always
   ends with the drop of the operation's future). *)
From Coq Require Import List Arith Lia Bool.
Import ListNotations.
Require Import CoStream CoFacts.

Definition dstate (stg: nat) : wst := match stg with 0 => WMap | _ => WTerm end.
Definition DP (s: st) (t: list event) := forall stg j, In (stg, j) (calls s) ->
  stg <= 1 /\ ((exists e, In (EDone stg j e) t) \/ In (EDropWork stg j) t \/ find j (works s) = Some (dstate stg)).

Lemma dstate_inj a b : a <= 1 -> b <= 1 -> dstate a = dstate b -> a = b.
Proof. destruct a as [|[|a]], b as [|[|b]]; cbn; intros; try lia; try discriminate. Qed.

Lemma D_grow s s' t e : works s' = works s -> calls s' = calls s -> DP s t -> DP s' (t ++ [e]).
Proof.
  intros Ew Ec H stg j Hin. rewrite Ec in Hin. destruct (H stg j Hin) as [A [[x B]|[B|B]]]; (split; [exact A|]).
  - left. exists x. apply in_or_app. left. exact B.
  - right. left. apply in_or_app. left. exact B.
  - right. right. rewrite Ew. exact B.
Qed.
Lemma D_setw s s' t e j x0 x : find j (works s) = Some x0 -> works s' = setw j x (works s) -> calls s' = calls s ->
  (forall stg, stg <= 1 -> x0 = dstate stg -> In (stg, j) (calls s) -> exists err, e = EDone stg j err) -> DP s t -> DP s' (t ++ [e]).
Proof.
  intros Ef Ew Ec Hx H stg j' Hin. rewrite Ec in Hin. destruct (H stg j' Hin) as [A [[y B]|[B|B]]]; (split; [exact A|]).
  - left. exists y. apply in_or_app. left. exact B.
  - right. left. apply in_or_app. left. exact B.
  - destruct (Nat.eq_dec j' j) as [->|Hne].
    + rewrite Ef in B. inversion B as [B']. destruct (Hx stg A B' Hin) as [err ->]. left. exists err. apply in_or_app. right. left. reflexivity.
    + right. right. rewrite Ew, find_setw_other by exact Hne. exact B.
Qed.
Lemma D_call s s' t e stg j x0 : find j (works s) = Some x0 -> x0 <> WMap -> x0 <> WTerm -> stg <= 1 ->
  works s' = setw j (dstate stg) (works s) -> calls s' = (stg, j) :: calls s -> DP s t -> DP s' (t ++ [e]).
Proof.
  intros Ef N1 N2 Hs Ew Ec H stg' j' Hin. rewrite Ec in Hin. destruct Hin as [X|Hin].
  - inversion X; subst stg' j'. split; [exact Hs|]. right. right. rewrite Ew. apply find_setw_same. eapply find_some_in; eauto.
  - destruct (H stg' j' Hin) as [A [[y B]|[B|B]]]; (split; [exact A|]).
    + left. exists y. apply in_or_app. left. exact B.
    + right. left. apply in_or_app. left. exact B.
    + destruct (Nat.eq_dec j' j) as [->|Hne].
      * rewrite Ef in B. inversion B as [B']. exfalso. destruct stg' as [|[|?]]; cbn in B'; [apply N1|apply N2|apply N2]; exact B'.
      * right. right. rewrite Ew, find_setw_other by exact Hne. exact B.
Qed.
Lemma D_rem s s' t e j : works s' = remw j (works s) -> calls s' = calls s ->
  (forall stg, stg <= 1 -> find j (works s) = Some (dstate stg) -> In (stg, j) (calls s) -> e = EDropWork stg j) -> DP s t -> DP s' (t ++ [e]).
Proof.
  intros Ew Ec Hx H stg j' Hin. rewrite Ec in Hin. destruct (H stg j' Hin) as [A [[y B]|[B|B]]]; (split; [exact A|]).
  - left. exists y. apply in_or_app. left. exact B.
  - right. left. apply in_or_app. left. exact B.
  - destruct (Nat.eq_dec j' j) as [->|Hne].
    + rewrite (Hx stg A B Hin). right. left. apply in_or_app. right. left. reflexivity.
    + right. right. rewrite Ew, find_remw. destruct (Nat.eqb_spec j' j); [congruence|exact B].
Qed.
Lemma D_push c s t j : find j (works s) = None -> DP s t -> DP (push c s j) t.
Proof.
  intros Ef H stg j' Hin.
  assert (Ec : calls (push c s j) = calls s) by (unfold push; destruct (c_take c) as [n|]; [destruct (n <=? _)|]; reflexivity).
  rewrite Ec in Hin. destruct (H stg j' Hin) as [A [B|[B|B]]]; (split; [exact A|]); auto.
  right. right. rewrite works_push, find_app_fresh by (apply find_none_notin; exact Ef).
  destruct (Nat.eqb_spec j' j) as [->|Hne]; [congruence|exact B].
Qed.

Definition DI (s: st) (t: list event) := OInv s /\ DP s t.

Theorem DI_step c s t e s' : DI s t -> step c s e = Some s' -> DI s' (t ++ [e]).
Proof.
  intros [HI HD] Hs. split; [eapply C13_once_step; eauto|]. pose proof HI as (A & B & C & D).
  destruct e as [[j|]|stage j idx|stage j err|stage j|j|r|]; cbn [step] in Hs.
  - (* source item *)
    destruct (ph s) eqn:Eph; try discriminate. destruct (src_done s); [discriminate|]. cbn [orb] in Hs.
    destruct (Nat.eqb_spec j (taken s)) as [->|]; cbn [negb] in Hs; [|discriminate].
    set (s1 := upd_st s PRun false (S (taken s)) (S (tcount s)) (works s) (residual s) (outputs s) (broke s) (calls s)) in *.
    assert (Hfn : find (taken s) (works s) = None).
    { destruct (find (taken s) (works s)) eqn:E; auto. destruct (B _ _ E). lia. }
    assert (H1 : DP s1 (t ++ [ESrc (Some (taken s))])) by (apply (D_grow s); auto).
    destruct (limit_ok c s1); injection Hs as <-.
    + apply D_push; auto.
    + intros stg j Hin. apply (H1 stg j Hin).
  - destruct (ph s) eqn:Eph; try discriminate. destruct (src_done s); [discriminate|]. injection Hs as <-. apply (D_grow s); auto.
  - (* closure call *)
    destruct (ph s) eqn:Eph; try discriminate;
      (destruct (negb _); [discriminate|]);
      destruct (find j (works s)) as [[| | | |]|] eqn:Ef; try discriminate; destruct stage as [|[|?]]; try discriminate;
      repeat match type of Hs with (if ?b then _ else _) = _ => destruct b; try discriminate end; injection Hs as <-;
      match goal with |- DP ?S' (?T ++ [ECall ?st ?jj ?ix]) => apply (D_call s S' T (ECall st jj ix) st jj _ Ef); [discriminate|discriminate|lia|reflexivity|reflexivity|exact HD] end.
  - (* closure done *)
    assert (Hdone : forall x0, x0 = dstate stage -> stage <= 1 ->
              forall stg', stg' <= 1 -> x0 = dstate stg' -> In (stg', j) (calls s) -> exists err', EDone stage j err = EDone stg' j err').
    { intros x0 E0 Hst stg' Hs' E1 _. exists err. rewrite (dstate_inj stage stg' Hst Hs'); congruence. }
    destruct (ph s) eqn:Eph; try discriminate;
      destruct (find j (works s)) as [[| | | |]|] eqn:Ef; try discriminate; destruct stage as [|[|?]]; try discriminate.
    all: try (destruct (has_term c); repeat match type of Hs with (match ?b with _ => _ end) = _ => destruct b eqn:?; try discriminate end; injection Hs as <-;
              (eapply (D_setw s _ _ _ j _ _ Ef); [reflexivity|reflexivity| |exact HD]); (apply Hdone; [reflexivity|lia]); fail).
    all: destruct (tfe_blocked c s) eqn:Etb; [discriminate|].
    all: cbv zeta in Hs.
    all: set (s1 := set_works s (setw j WDone (works s))) in *.
    all: assert (D1 : DP s1 (t ++ [EDone 1 j err])) by ((eapply (D_setw s _ _ _ j _ _ Ef); [reflexivity|reflexivity| |exact HD]); (apply Hdone; [reflexivity|lia])).
    all: assert (I1 : OInv s1) by (eapply (H_setw s); [exact HI|exact Ef|reflexivity|reflexivity|reflexivity|left; reflexivity|cbn; tauto]).
    all: match type of Hs with (match ph ?S2 with _ => _ end) = _ => set (s2 := S2) in * end.
    all: assert (D2 : DP s2 (t ++ [EDone 1 j err])) by (unfold s2; destruct err; destruct (c_term c); try exact D1; destruct (residual s1); try exact D1;
           intros stg j' Hin; apply (D1 stg j' Hin)).
    all: assert (I2 : OInv s2) by (unfold s2; destruct err; destruct (c_term c); try exact I1; destruct (residual s1); try exact I1;
           apply (H_same s1); auto; right; apply no_back_flush; discriminate).
    all: destruct (ph s2) eqn:Eph2; try (injection Hs as <-; exact D2).
    all: destruct (limit_ok c s2); injection Hs as <-; [|exact D2].
    all: destruct I2 as (A2 & B2 & C2 & D2'); destruct (D2' _ Eph2) as (P1 & P2 & P3 & P4); apply D_push; auto.
  - (* in-flight work dropped *)
    destruct (ph s) eqn:Eph; try discriminate; destruct (residual s); try discriminate;
      destruct (find j (works s)) as [[| | | |]|] eqn:Ef; try discriminate; destruct stage as [|[|?]]; try discriminate; injection Hs as <-;
      (apply (D_rem s _ _ _ j); [reflexivity|reflexivity| |exact HD]);
      intros stg Hst E _; rewrite Ef in E; inversion E as [E']; f_equal;
      (apply (dstate_inj _ stg); [lia|exact Hst|exact E']).
  - (* item dropped *)
    destruct (ph s) eqn:Eph; try discriminate.
    all: try (destruct (residual s) eqn:Er; try discriminate).
    all: destruct (find j (works s)) as [[| | | |]|] eqn:Ef; try discriminate.
    all: try (injection Hs as <-; first [apply (D_grow s); auto; fail | (apply (D_rem s _ _ _ j); [reflexivity|reflexivity| |exact HD]);
              intros stg Hst E _; rewrite Ef in E; destruct stg as [|[|?]]; discriminate]; fail).
    all: destruct (c_term c); try discriminate; injection Hs as <-; (apply (D_rem s _ _ _ j); [reflexivity|reflexivity| |exact HD]);
              intros stg Hst E _; rewrite Ef in E; destruct stg as [|[|?]]; discriminate.
  - (* result *)
    destruct (ph s) eqn:Eph; try discriminate. destruct (c_term c), r; try discriminate;
      repeat match type of Hs with (match ?b with _ => _ end) = _ => destruct b; try discriminate end; injection Hs as <-;
      (apply (D_grow s); auto).
  - destruct (ph s) eqn:Eph; injection Hs as <-; (apply (D_grow s); auto).
Qed.

Lemma DI_run c : forall es s0 t0 s k, run c s0 es k = (s, None) -> DI s0 t0 -> DI s (t0 ++ es).
Proof.
  induction es as [|e r IH]; intros s0 t0 s k Hr HD; cbn in Hr.
  - inversion Hr; subst. rewrite app_nil_r. exact HD.
  - destruct (step c s0 e) as [s1|] eqn:Es; [|discriminate].
    replace (t0 ++ e :: r) with ((t0 ++ [e]) ++ r) by (rewrite <- app_assoc; reflexivity).
    eapply IH; [exact Hr|]. eapply DI_step; eauto.
Qed.
Lemma DI_init c : DI (init c) [].
Proof.
  split.
  - unfold init; destruct (c_take c) as [[|t]|]; (split; [constructor|]; split; [intros j x Hf; discriminate|]; split; [intros stg j []|intros j Hj; discriminate]).
  - intros stg j Hin. unfold init in Hin; destruct (c_take c) as [[|t]|]; destruct Hin.
Qed.
Lemma find_in j w x : find j w = Some x -> In (j, x) w.
Proof.
  induction w as [|[k y] r IH]; cbn; [discriminate|]. destruct (Nat.eqb_spec k j) as [->|Hne]; intros H; [inversion H; left; reflexivity|right; auto].
Qed.

(* calls is the log of the closure invocations of the history *)
Lemma calls_step c s e s' : step c s e = Some s' ->
  (forall p, In p (calls s) -> In p (calls s')) /\ (forall stg j idx, e = ECall stg j idx -> In (stg, j) (calls s')).
Proof.
  intros Hs.
  assert (Hpush : forall s0 j, calls (push c s0 j) = calls s0) by (intros s0 j; unfold push; destruct (c_take c) as [n|]; [destruct (n <=? _)|]; reflexivity).
  destruct e as [[j|]|stage j idx|stage j err|stage j|j|r|]; cbn [step] in Hs.
  - destruct (ph s); try discriminate. destruct (src_done s || _); [discriminate|]. destruct (limit_ok c _); injection Hs as <-; rewrite ?Hpush; cbn; split; auto; intros; discriminate.
  - destruct (ph s); try discriminate. destruct (src_done s); [discriminate|]. injection Hs as <-. cbn. split; auto; intros; discriminate.
  - destruct (ph s); try discriminate; (destruct (negb _); [discriminate|]);
      destruct (find j (works s)) as [[| | | |]|]; try discriminate; destruct stage as [|[|?]]; try discriminate;
      repeat match type of Hs with (if ?b then _ else _) = _ => destruct b; try discriminate end; injection Hs as <-; cbn;
      (split; [intros p Hp; right; exact Hp|intros stg j' idx' E; inversion E; subst; left; reflexivity]).
  - destruct (ph s); try discriminate; destruct (find j (works s)) as [[| | | |]|]; try discriminate; destruct stage as [|[|?]]; try discriminate.
    all: try (destruct (has_term c); repeat match type of Hs with (match ?b with _ => _ end) = _ => destruct b eqn:?; try discriminate end; injection Hs as <-; cbn;
              (split; [auto|intros; discriminate]); fail).
    all: destruct (tfe_blocked c s) eqn:Etb; [discriminate|].
    all: cbv zeta in Hs.
    all: match type of Hs with (match ph ?S2 with _ => _ end) = _ => set (s2 := S2) in *; assert (C2 : calls s2 = calls s) by
           (unfold s2; destruct err; destruct (c_term c); try reflexivity; cbn; destruct (residual s); reflexivity) end.
    all: destruct (ph s2); try (injection Hs as <-; rewrite C2; split; [auto|intros; discriminate]).
    all: destruct (limit_ok c s2); injection Hs as <-; rewrite ?Hpush, C2; (split; [auto|intros; discriminate]).
  - destruct (ph s); try discriminate; destruct (residual s); try discriminate;
      destruct (find j (works s)) as [[| | | |]|]; try discriminate; destruct stage as [|[|?]]; try discriminate; injection Hs as <-; cbn; (split; [auto|intros; discriminate]).
  - destruct (ph s); try discriminate.
    all: try (destruct (residual s); try discriminate).
    all: destruct (find j (works s)) as [[| | | |]|]; try discriminate.
    all: try (injection Hs as <-; cbn; (split; [auto|intros; discriminate]); fail).
    all: destruct (c_term c); try discriminate; injection Hs as <-; cbn; (split; [auto|intros; discriminate]).
  - destruct (ph s); try discriminate. destruct (c_term c), r; try discriminate;
      repeat match type of Hs with (match ?b with _ => _ end) = _ => destruct b; try discriminate end; injection Hs as <-; cbn; (split; [auto|intros; discriminate]).
  - destruct (ph s); injection Hs as <-; cbn; (split; [auto|intros; discriminate]).
Qed.
Lemma calls_run c : forall es s0 s k, run c s0 es k = (s, None) ->
  (forall p, In p (calls s0) -> In p (calls s)) /\ (forall stg j idx, In (ECall stg j idx) es -> In (stg, j) (calls s)).
Proof.
  induction es as [|e r IH]; intros s0 s k Hr; cbn in Hr.
  - inversion Hr; subst. split; [auto|intros ? ? ? []].
  - destruct (step c s0 e) as [s1|] eqn:Es; [|discriminate]. destruct (calls_step c s0 e s1 Es) as [M1 M2]. destruct (IH s1 s _ Hr) as [N1 N2].
    split; [auto|]. intros stg j idx [->|Hin]; [apply N1; eapply M2; reflexivity|eapply N2; eauto].
Qed.

(* Every closure future that was created in an accepted history whose final state is settled was completed, or dropped unfinished, within that
   history: none outlives the operation (the trace ends with the drop of the operation's future and what that drop drops). *)
Theorem closure_futures_completed_or_dropped c es s k : run c (init c) es k = (s, None) -> settled s = true ->
  forall stg j idx, In (ECall stg j idx) es -> (exists e, In (EDone stg j e) es) \/ In (EDropWork stg j) es.
Proof.
  intros Hr Hst stg j idx Hin.
  destruct (calls_run c es (init c) s k Hr) as [_ Hc]. specialize (Hc stg j idx Hin).
  destruct (DI_run c es (init c) [] s k Hr (DI_init c)) as [_ HD]. cbn [app] in HD.
  destruct (HD stg j Hc) as [Hs [A|[A|A]]]; auto.
  exfalso. apply find_in in A. unfold settled in Hst. rewrite forallb_forall in Hst. specialize (Hst _ A). cbn in Hst.
  destruct stg as [|[|?]]; cbn in Hst; discriminate.
Qed.
Print Assumptions closure_futures_completed_or_dropped.
