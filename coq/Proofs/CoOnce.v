From Coq Require Import List Arith Lia Bool.
Import ListNotations.
Require Import CoStream CoFacts.

(* C13 / C15, the "at least once" half of exactly-once: when a result is returned and no error was recorded, every item taken from the source
   has been passed to the terminal closure (and to the map closure, if there is one).  Together with C13_once (no closure twice per item):
   exactly once.  The acceptor admits the drop of an unprocessed item or of in-flight work only once an error is recorded or the operation is dropped. *)
Definition called (c: cfg) (x: wst) (j: nat) (cl: list (nat * nat)) : Prop :=
  (has_map c = true -> x <> WQueued -> In (0, j) cl) /\ (has_term c = true -> (x = WTerm \/ x = WDone) -> In (1, j) cl).
Definition A1 (s: st) : Prop :=
  residual s = None -> ph s <> PDropped -> forall j, j < taken s -> ph s = PBack j \/ exists x, find j (works s) = Some x.
Definition A2 (c: cfg) (s: st) : Prop := forall j x, find j (works s) = Some x -> called c x j (calls s).
Definition AInv (c: cfg) (s: st) : Prop := OInv s /\ A1 s /\ A2 c s.

Lemma AInv_init c : AInv c (init c).
Proof.
  unfold init. destruct (c_take c) as [[|t]|]; (split; [|split]).
  all: try (split; [constructor|]; split; [intros j x Hf; discriminate|]; split; [intros stg j []|intros j Hj; discriminate]).
  all: try (intros _ _ j Hj; cbn in Hj; lia).
  all: intros j x Hf; discriminate.
Qed.

Lemma called_mono c x j cl cl' : (forall p, In p cl -> In p cl') -> called c x j cl -> called c x j cl'.
Proof. intros H [A B]. split; auto. Qed.

(* the works table only changes at j, to a state whose calls are present; everything else the same *)
Lemma A_setw c s s' j x0 x : AInv c s -> OInv s' -> find j (works s) = Some x0 -> works s' = setw j x (works s) ->
  (forall p, In p (calls s) -> In p (calls s')) -> taken s' = taken s -> residual s' = residual s -> ph s' = ph s ->
  called c x j (calls s') -> A1 s' /\ A2 c s'.
Proof.
  intros (_ & H1 & H2) _ Ef Hw Hc Ht Hr Hp Hx. split.
  - intros R P i Hi. rewrite Ht in Hi. rewrite Hr in R. rewrite Hp in P |- *. destruct (H1 R P i Hi) as [X|[y Hy]]; [left; exact X|right].
    rewrite Hw. destruct (Nat.eq_dec i j) as [->|Hne]; [exists x; apply find_setw_same; eapply find_some_in; eauto|exists y; rewrite find_setw_other; auto].
  - intros i y Hy. rewrite Hw in Hy. destruct (Nat.eq_dec i j) as [->|Hne].
    + rewrite find_setw_same in Hy by (eapply find_some_in; eauto). inversion Hy; subst y. exact Hx.
    + rewrite find_setw_other in Hy by auto. eapply called_mono; [exact Hc|]. apply H2. exact Hy.
Qed.
(* nothing about the items changes; the phase stays or was not a back-pressure wait *)
Lemma A_same c s s' : AInv c s -> works s' = works s -> calls s' = calls s -> taken s' = taken s -> residual s' = residual s ->
  (ph s' = ph s \/ (forall j, ph s <> PBack j) \/ ph s' = PDropped) -> (ph s = PDropped -> ph s' = PDropped) -> A1 s' /\ A2 c s'.
Proof.
  intros (_ & H1 & H2) Hw Hc Ht Hr Hp Hd. split.
  - intros R P i Hi. rewrite Ht in Hi. rewrite Hr in R. rewrite Hw.
    assert (P0 : ph s <> PDropped) by (intros X; apply P, Hd, X).
    destruct (H1 R P0 i Hi) as [X|Y]; [|right; exact Y]. destruct Hp as [Hp|[Hp|Hp]]; [left; congruence|exfalso; eapply Hp; eauto|contradiction].
  - intros i y Hy. rewrite Hw in Hy. rewrite Hc. apply H2. exact Hy.
Qed.
(* something is removed: only allowed once an error is recorded or the operation was dropped *)
Lemma A_rem c s s' j : AInv c s -> works s' = remw j (works s) -> calls s' = calls s -> residual s' = residual s -> ph s' = ph s ->
  (residual s <> None \/ ph s = PDropped) -> A1 s' /\ A2 c s'.
Proof.
  intros (_ & H1 & H2) Hw Hc Hr Hp Hv. split.
  - intros R P. exfalso. destruct Hv as [Hv|Hv]; [apply Hv; congruence|apply P; congruence].
  - intros i y Hy. rewrite Hw, find_remw in Hy. destruct (i =? j); [discriminate|]. rewrite Hc. apply H2. exact Hy.
Qed.
Lemma A_push c s j : A2 c s -> find j (works s) = None ->
  (residual s = None -> forall i, i < taken s -> i = j \/ exists x, find i (works s) = Some x) ->
  A1 (push c s j) /\ A2 c (push c s j).
Proof.
  intros H2 Hf H1.
  assert (Hw : works (push c s j) = works s ++ [(j, WQueued)]) by apply works_push.
  assert (Hc : calls (push c s j) = calls s) by (unfold push; destruct (c_take c) as [n|]; [destruct (n <=? _)|]; reflexivity).
  assert (Ht : taken (push c s j) = taken s) by (unfold push; destruct (c_take c) as [n|]; [destruct (n <=? _)|]; reflexivity).
  assert (Hr : residual (push c s j) = residual s) by apply push_residual.
  assert (Hnk : ~ In j (keys (works s))) by (apply find_none_notin; exact Hf).
  split.
  - intros R P i Hi. rewrite Ht in Hi. rewrite Hr in R. right. rewrite Hw, find_app_fresh by exact Hnk.
    destruct (Nat.eqb_spec i j); [eauto|]. destruct (H1 R i Hi) as [X|X]; [contradiction|exact X].
  - intros i y Hy. rewrite Hw, find_app_fresh in Hy by exact Hnk. rewrite Hc. destruct (Nat.eqb_spec i j) as [->|Hne].
    + inversion Hy; subst y. split; [intros _ X; contradiction|intros _ [X|X]; discriminate].
    + apply H2. exact Hy.
Qed.

Theorem AInv_step c s e s' : AInv c s -> step c s e = Some s' -> AInv c s'.
Proof.
  intros HI Hs. pose proof HI as (HO & H1 & H2). pose proof (C13_once_step c s e s' HO Hs) as HO'.
  split; [exact HO'|]. pose proof HO as (_ & B & _ & D).
  destruct e as [[j|]|stage j idx|stage j err|stage j|j|r|]; cbn [step] in Hs.
  - (* source item *)
    destruct (ph s) eqn:Eph; try discriminate. destruct (src_done s); [discriminate|]. cbn [orb] in Hs.
    destruct (Nat.eqb_spec j (taken s)) as [->|]; cbn [negb] in Hs; [|discriminate].
    set (s1 := upd_st s PRun false (S (taken s)) (S (tcount s)) (works s) (residual s) (outputs s) (broke s) (calls s)) in *.
    assert (Hfn : find (taken s) (works s) = None).
    { destruct (find (taken s) (works s)) eqn:E; auto. destruct (B _ _ E). lia. }
    assert (Hall : residual s = None -> forall i, i < S (taken s) -> i = taken s \/ exists x, find i (works s) = Some x).
    { intros R i Hi. destruct (Nat.eq_dec i (taken s)); [auto|right]. destruct (H1 R ltac:(rewrite Eph; discriminate) i ltac:(lia)) as [X|X]; [rewrite Eph in X; discriminate|exact X]. }
    destruct (limit_ok c s1); injection Hs as <-.
    + apply A_push; auto.
    + split.
      * intros R P i Hi. cbn in *. destruct (Hall R i Hi) as [->|X]; auto.
      * exact H2.
  - (* source end *)
    destruct (ph s) eqn:Eph; try discriminate. destruct (src_done s); [discriminate|]. injection Hs as <-.
    apply (A_same c s); auto; cbn; rewrite ?Eph; auto; [right; left; intros j; discriminate|discriminate].
  - (* closure call *)
    destruct (ph s) eqn:Eph; try discriminate;
      (destruct (negb _); [discriminate|]);
      destruct (find j (works s)) as [[| | | |]|] eqn:Ef; try discriminate; destruct stage as [|[|?]]; try discriminate;
      repeat match type of Hs with (if ?b then _ else _) = _ => destruct b eqn:?; try discriminate end; injection Hs as <-;
      (eapply (A_setw c s); [exact HI|exact HO'|exact Ef|reflexivity|cbn; auto|reflexivity|reflexivity|cbn; congruence|]);
      pose proof (H2 _ _ Ef) as [Hm Ht]; (split; cbn; [intros Y Z|intros Y Z]; auto).
    all: try (destruct Z as [Z|Z]; discriminate).
    all: try (right; apply Hm; [exact Y|discriminate]).
    all: try match goal with E : negb (has_map _) && _ = true |- _ => apply andb_true_iff in E as [E _]; rewrite Y in E; discriminate end.
  - (* closure done *)
    destruct (ph s) eqn:Eph; try discriminate;
      destruct (find j (works s)) as [[| | | |]|] eqn:Ef; try discriminate; destruct stage as [|[|?]]; try discriminate.
    all: pose proof (H2 _ _ Ef) as [Hm Ht].
    all: try (destruct (has_term c) eqn:Eht;
              [ destruct err; [discriminate|]; injection Hs as <-;
                (eapply (A_setw c s); [exact HI|exact HO'|exact Ef|reflexivity|cbn; auto|reflexivity|reflexivity|cbn; congruence|]);
                (split; [intros Y _; apply Hm; [exact Y|discriminate]|intros Y [Z|Z]; discriminate])
              | destruct err as [e|]; destruct (c_term c) eqn:Et; try discriminate; try (destruct (residual s) eqn:Er; try discriminate); injection Hs as <-;
                first [ (eapply (A_setw c s); [exact HI|exact HO'|exact Ef|reflexivity|cbn; auto|reflexivity|cbn; congruence|cbn; congruence|]);
                        (split; [intros Y _; apply Hm; [exact Y|discriminate]|intros Y _; congruence])
                      | (split; [intros R; cbn in R; discriminate|];
                         intros i y Hy; cbn [works upd_st calls] in *; destruct (Nat.eq_dec i j) as [->|Hne];
                         [ rewrite find_setw_same in Hy by (eapply find_some_in; eauto); inversion Hy; subst y;
                           split; [intros Y _; apply Hm; [exact Y|discriminate]|intros Y _; congruence]
                         | rewrite find_setw_other in Hy by auto; apply H2; exact Hy ]) ] ]; fail).
    all: destruct (tfe_blocked c s) eqn:Etb; [discriminate|].
    all: cbv zeta in Hs.
    all: set (s1 := set_works s (setw j WDone (works s))) in *.
    all: assert (O1 : OInv s1) by (eapply (H_setw s); [exact HO|exact Ef|reflexivity|reflexivity|reflexivity|left; reflexivity|cbn; tauto]).
    all: assert (I1 : A1 s1 /\ A2 c s1) by
          (eapply (A_setw c s); [exact HI|exact O1|exact Ef|reflexivity|cbn; auto|reflexivity|reflexivity|reflexivity|];
           split; [intros Y _; apply Hm; [exact Y|discriminate]|intros Y _; apply Ht; auto]).
    all: match type of Hs with (match ph ?S2 with _ => _ end) = _ => set (s2 := S2) in * end.
    all: assert (I2 : A1 s2 /\ A2 c s2) by
          (unfold s2; destruct err; destruct (c_term c); try exact I1; destruct (residual s1) eqn:Er1; try exact I1;
           split; [intros R; cbn in R; discriminate|exact (proj2 I1)]).
    all: assert (O2 : OInv s2) by (unfold s2; destruct err; destruct (c_term c); try exact O1; destruct (residual s1); try exact O1;
           apply (H_same s1); auto; right; apply no_back_flush; discriminate).
    all: destruct (ph s2) eqn:Eph2; try (injection Hs as <-; exact I2).
    all: destruct (limit_ok c s2); injection Hs as <-; [|exact I2].
    all: destruct O2 as (_ & _ & _ & D2); destruct (D2 _ Eph2) as (P1 & P2 & _); destruct I2 as [I2a I2b]; apply A_push; [exact I2b|exact P2|].
    all: intros R i Hi; assert (Pn : ph s2 <> PDropped) by (rewrite Eph2; discriminate); destruct (I2a R Pn i Hi) as [X|X]; [left; rewrite Eph2 in X; congruence|right; exact X].
  - (* in-flight work dropped *)
    destruct (ph s) eqn:Eph; try discriminate; destruct (residual s) eqn:Er; try discriminate;
      destruct (find j (works s)) as [[| | | |]|]; try discriminate; destruct stage as [|[|?]]; try discriminate; injection Hs as <-;
      (apply (A_rem c s _ j); [exact HI|reflexivity|reflexivity|reflexivity|cbn; congruence|first [left; congruence|right; exact Eph]]).
  - (* item dropped *)
    destruct (ph s) eqn:Eph; try discriminate.
    all: try (destruct (residual s) eqn:Er; try discriminate).
    all: destruct (find j (works s)) as [[| | | |]|]; try discriminate.
    all: try (injection Hs as <-; first [exact (conj H1 H2)|apply (A_rem c s _ j); [exact HI|reflexivity|reflexivity|reflexivity|cbn; congruence|first [left; congruence|right; exact Eph]]]; fail).
    all: destruct (c_term c); try discriminate; injection Hs as <-; apply (A_rem c s _ j); first [exact HI|reflexivity|cbn; congruence|left; congruence|right; exact Eph].
  - (* result *)
    destruct (ph s) eqn:Eph; try discriminate. destruct (c_term c), r; try discriminate;
      repeat match type of Hs with (match ?b with _ => _ end) = _ => destruct b; try discriminate end; injection Hs as <-;
      (apply (A_same c s); [exact HI|reflexivity|reflexivity|reflexivity|reflexivity|right; left; intros j'; rewrite Eph; discriminate|rewrite Eph; discriminate]).
  - (* the operation is dropped *)
    destruct (ph s) eqn:Eph; injection Hs as <-; try exact (conj H1 H2);
      (apply (A_same c s); [exact HI|reflexivity|reflexivity|reflexivity|reflexivity|right; right; reflexivity|intros _; reflexivity]).
Qed.

Lemma all_done w j x : filter live w = [] -> find j w = Some x -> x = WDone.
Proof.
  induction w as [|[k y] r IH]; cbn; [discriminate|]. unfold live at 1. cbn [snd].
  destruct y; try discriminate. destruct (k =? j); [intros _ E; inversion E; reflexivity|exact IH].
Qed.
Lemma forallb_find (P: nat * wst -> bool) w j x : forallb P w = true -> find j w = Some x -> P (j, x) = true.
Proof.
  induction w as [|[k y] r IH]; cbn; [discriminate|]. intros H. apply andb_true_iff in H as [H1 H2].
  destruct (Nat.eqb_spec k j) as [->|]; [intros E; inversion E; subst; exact H1|auto].
Qed.
(* when a result is returned and no error was recorded, every item taken from the source has been through every closure of the pipeline *)
Theorem C13_at_least_once c es s k r s' : run c (init c) es k = (s, None) -> step c s (EResult r) = Some s' -> residual s = None ->
  forall j, j < taken s -> (has_term c = true -> In (1, j) (calls s)) /\ (has_map c = true -> In (0, j) (calls s)).
Proof.
  intros Hr Hs Hres j Hj.
  assert (HI : AInv c s) by (apply (inv_reach c (AInv c)) with (es := es) (k := k) (s0 := init c); [apply AInv_step|apply AInv_init|exact Hr]).
  destruct HI as (_ & H1 & H2). cbn [step] in Hs. destruct (ph s) eqn:Eph; try discriminate.
  destruct (H1 Hres ltac:(rewrite Eph; discriminate) j Hj) as [X|[x Hx]]; [rewrite Eph in X; discriminate|].
  destruct (H2 j x Hx) as [Hm Ht].
  assert (Hd : x = WDone \/ (x = WQueued /\ has_map c = false /\ has_term c = false)).
  { destruct (c_term c) eqn:Et, r; try discriminate.
    - destruct (length (filter live (works s)) =? 0) eqn:E; [|discriminate]. apply Nat.eqb_eq in E. left. eapply all_done; eauto. destruct (filter live (works s)); [auto|discriminate].
    - rewrite Hres in Hs. destruct (length (filter live (works s)) =? 0) eqn:E; [|discriminate]. apply Nat.eqb_eq in E. left. eapply all_done; eauto. destruct (filter live (works s)); [auto|discriminate].
    - rewrite Hres in Hs. discriminate.
    - destruct (_ && _) eqn:E; [|discriminate]. apply andb_true_iff in E as [_ E].
      pose proof (forallb_find _ _ _ _ E Hx) as Y. cbn [snd] in Y. destruct x; try discriminate; auto.
      right. unfold zero_stage, has_term in *. rewrite Et in *. apply andb_true_iff in Y as [Y1 _]. apply negb_true_iff in Y1. auto.
    - rewrite Hres in Hs. discriminate.
    - rewrite Hres in Hs. destruct (_ && _) eqn:E; [|discriminate]. apply andb_true_iff in E as [_ E].
      pose proof (forallb_find _ _ _ _ E Hx) as Y. cbn [snd] in Y. destruct x; try discriminate; auto.
      right. unfold zero_stage, has_term in *. rewrite Et in *. apply andb_true_iff in Y as [Y1 _]. apply negb_true_iff in Y1. auto. }
  destruct Hd as [->|(-> & Em & Et)].
  - split; [intros Y; apply Ht; auto|intros Y; apply Hm; [exact Y|discriminate]].
  - split; intros Y; congruence.
Qed.
