(* Towards C01's "consequently": under a wake-driven executor - fire the most recent waker of every child, poll with the same task, repeat -
   a join over n >= 1 futures whose scripts are Pending* then Ready returns its result within B rounds, B the longest script.  Instance of
   ScanFull.fair_executor_returns (Section Live) for join, slice and tuple variants, selective strategy. *)
From Coq Require Import List Arith Bool Lia.
Import ListNotations.
Require Import ScanFull InstsFull ObligJoin C04Join C05Join C04When.

Section JoinLive.
  Variable tuple : bool.
  Variable scs : list (list step).
  Let n := length scs.
  Hypothesis Hfut : forall i, fut_script (nth i scs []).
  Hypothesis Hres : forall i, i < n -> first_ready (nth i scs []) <> None.
  Hypothesis Hn : 0 < n.

  Definition TSj (s: jst) := j_tup s = tuple /\ j_consumed s = false /\ 0 < pending s.
  Definition USj (s: jst) := j_tup s = tuple /\ j_consumed s = false /\ (tuple = true -> 0 < pending s).

  Lemma USj_cont s i a s' e : USj s -> j_awaited s i = true -> j_handle s i a = (s', Cont, e) -> USj s'.
  Proof.
    intros (Ht & Hc & Hp) _ Hh. pose proof (j_handle_cases s i a) as X. cbn zeta in X.
    destruct a as [|[v|er]|v| |]; rewrite X in Hh.
    - inversion Hh; subst. split; [exact Ht|split; [exact Hc|exact Hp]].
    - destruct (j_tup s && (pending s - 1 =? 0)) eqn:Eb; inversion Hh; subst. unfold USj. cbn.
      split; [exact Ht|]. split; [exact Hc|]. intros Et. rewrite Ht, Et in Eb. cbn in Eb. apply Nat.eqb_neq in Eb. lia.
    - discriminate.
    - inversion Hh; subst. split; [exact Ht|split; [exact Hc|exact Hp]].
    - inversion Hh; subst. split; [exact Ht|split; [exact Hc|exact Hp]].
    - discriminate.
  Qed.
  Lemma TSj_order s is s1 : TSj s -> j_order s = Some (is, s1) -> USj s1.
  Proof. intros (Ht & Hc & Hp) E. destruct (j_order_some _ _ _ E) as [_ ->]. repeat split; auto. Qed.
  Lemma USj_finish s : j_Q s -> USj s -> snd (j_finish s) = None -> TSj (fst (j_finish s)).
  Proof.
    unfold TSj, USj. intros _ (Ht & Hc & Hp). unfold j_finish. rewrite Hc, Ht. cbn [negb andb].
    destruct tuple eqn:Etu; cbn [negb andb fst snd].
    - intros _. split; [exact Ht|]. split; [exact Hc|]. apply Hp. reflexivity.
    - destruct (Nat.eqb_spec (pending s) 0) as [E0|E0]; cbn [fst snd]; [discriminate|]. intros _. split; [exact Ht|]. split; [exact Hc|]. lia.
  Qed.
  Lemma USj_endp : tuple = true -> forall s, USj s -> TSj s.
  Proof. intros Et s (A & B & C). repeat split; auto. Qed.
  Lemma TSj_order_some s : TSj s -> j_order s <> None.
  Proof. intros (_ & Hc & _). unfold j_order. rewrite Hc. discriminate. Qed.
  Lemma j_abort_panic s i a s' e : j_handle s i a = (s', Abort, e) -> a = APanic.
  Proof.
    intros Hh. pose proof (j_handle_cases s i a) as X. destruct a as [|[v|er]|v| |]; cbn zeta in X; rewrite X in Hh; try discriminate; auto.
    destruct (j_tup s && _); discriminate.
  Qed.
  Lemma TSj_some s : j_Q s -> TSj s -> exists j, j < j_slots s /\ j_awaited s j = true.
  Proof.
    intros HQ (_ & _ & Hp). unfold j_Q in HQ. rewrite HQ in Hp. destruct (count_pos_nth _ Hp) as (i & Hi & Hpi).
    exists i. split; [exact Hi|]. unfold j_awaited. rewrite Hpi. reflexivity.
  Qed.
  (* the script invariant of C04Join holds in every reachable world *)
  Notation jstep := (step_op jst j_slots j_awaited (fun _ i => i) j_handle tuple tuple j_order (fun _ => None) j_pre_any j_finish (fun s => s) j_drop (fun _ => true) jmut).
  Notation jrun := (run_ops jst j_slots j_awaited (fun _ i => i) j_handle tuple tuple j_order (fun _ => None) j_pre_any j_finish (fun s => s) j_drop (fun _ => true) jmut).
  Lemma PWj_step w o : PWj tuple n scs w -> PWj tuple n scs (jstep w o).
  Proof.
    intros HP. destruct o as [| |c k| |m a sc]; cbn [step_op].
    1,2: destruct (finished jst w || dropped jst w); [exact HP|];
      apply (poll_P jst j_slots j_awaited (fun _ i => i) j_handle tuple tuple j_order (fun _ => None) j_pre_any j_finish (fun s => s) j_drop (fun _ => true) j_Q
                 J1 J8 J10 J12 (P tuple n scs) (P_handle tuple n scs Hfut) (P_order tuple n scs) (P_finish tuple n scs) (fun _ _ H => H) (P_Q tuple n scs)); exact HP.
    - destruct (fire_handle_pass jst j_slots (emit jst w [EO]) c k) as [Hc Hs]. unfold PWj. rewrite Hc, Hs. exact HP.
    - destruct (dropped jst w); exact HP.
    - destruct (dropped jst w); exact HP.
  Qed.
  Lemma PWj_run ops : forall w, PWj tuple n scs w -> PWj tuple n scs (jrun w ops).
  Proof. induction ops as [|o r IH]; intros w HP; cbn; auto. apply IH, PWj_step, HP. Qed.
  Definition w0 := mk_world {| j_try := false; j_tup := tuple; j_consumed := false; pending := length scs; items := repeat None (length scs); pst := repeat PPending (length scs) |} true (length scs) scs.
  Lemma PWj_init : PWj tuple n scs w0.
  Proof.
    unfold PWj, P, w0, mk_world; cbn. rewrite !repeat_length. repeat split; auto.
    - unfold j_Q; cbn [pending pst]. rewrite count_repeat_pending. reflexivity.
    - intros _ i Hi. unfold C04Join.slot_ok; cbn. rewrite !repeat_nth by exact Hi. split; auto. exists []. split; auto. constructor.
    - discriminate.
  Qed.

  (* a child that is still awaited has not exhausted its script: the Ready step is still ahead *)
  Lemma awaited_has_steps (w: jW) j : PWj tuple n scs w -> j_consumed (cs _ w) = false -> j < n -> j_awaited (cs _ w) j = true ->
    1 <= length (nth j (scripts _ w) []).
  Proof.
    intros (_ & _ & _ & _ & _ & Hm & _) Hc Hj Ha. specialize (Hm Hc j Hj). unfold C04Join.slot_ok in Hm.
    destruct (aw_in_range _ _ Ha) as [_ Hp]. rewrite Hp in Hm. destruct Hm as (_ & pre & Hpre & Hpp).
    destruct (nth j (scripts jst w) []) as [|x r] eqn:E; [|cbn; lia]. exfalso.
    apply (Hres j Hj). rewrite Hpre, first_ready_app_pend by exact Hpp. reflexivity.
  Qed.

  Notation jrounds := (rounds jst j_slots j_awaited (fun _ i => i) j_handle tuple tuple j_order (fun _ => None) j_pre_any j_finish (fun s => s) j_drop (fun _ => true) jmut).
  Definition bound := Nat.max 1 (list_max (map (@length step) scs)).

  Theorem join_fair_returns : let w := jrounds bound w0 in
    finished _ w = true /\ returned _ w /\ dropped _ w = false.
  Proof.
    apply (fair_executor_returns jst j_slots j_awaited (fun _ i => i) j_handle tuple tuple j_order (fun _ => None) j_pre_any j_finish (fun s => s) j_drop
             (fun _ => true) j_Q J1 J2 J3 J4 J5 J6 J7 J8 J9 J10 J11 J12 J13 J14 J15 J16 J17 (fun _ => eq_refl) (fun _ _ _ => eq_refl) (fun _ H => H)
             jmut jmut_inv (fun _ _ => true) (fun _ _ _ _ _ => eq_refl) (fun _ _ _ _ _ _ _ _ H => H) j_slots (fun _ _ _ H _ => H) (fun s i a _ _ _ => conj (J1 s i a) (fun _ _ _ => conj eq_refl eq_refl)) (fun s is s1 _ E => conj (J10 s is s1 E) (fun _ _ _ => conj eq_refl eq_refl)) (fun s _ => conj (J15 s) (fun _ _ _ => conj eq_refl eq_refl)) (fun s _ => conj eq_refl (fun _ _ _ => conj eq_refl eq_refl)) j_abort_panic (fun a => a <> APanic) (fun _ H => H) APend_not_panic TSj USj (fun s i a s' e _ _ _ => USj_cont s i a s' e) TSj_order USj_finish USj_endp TSj_order_some).
    - apply (join_init tuple).
    - (* LiveI *)
      split; [reflexivity|]. split.
      + intros m st Hin. cbn in Hin. pose proof (Hfut m) as Hf. unfold fut_script in Hf. rewrite Forall_forall in Hf.
        destruct (Hf st Hin) as [E|[v E]]; rewrite E; discriminate.
      + unfold HT, N, j_slots, polled. cbn. rewrite !repeat_length. split; [reflexivity|]. split; [reflexivity|].
        intros c Hc _. rewrite !repeat_nth by exact Hc. split; [intros h []|discriminate].
    - split; [reflexivity|]. split; [reflexivity|]. exact Hn.
    - reflexivity.
    - reflexivity.
    - reflexivity.
    - intros j. unfold rem, bound, w0, mk_world. cbn [scripts].
      eapply Nat.le_trans; [|apply Nat.le_max_r]. destruct (Nat.lt_ge_cases j (length scs)) as [L|G].
      + pose proof (proj1 (list_max_le (map (@length step) scs) (list_max (map (@length step) scs))) (Nat.le_refl _)) as Hle.
        rewrite Forall_forall in Hle. apply Hle. apply in_map. apply nth_In. exact L.
      + rewrite nth_overflow by exact G. cbn. lia.
    - unfold bound. apply Nat.le_max_l.
    - intros r j Hj (_ & Hc & _) Ha.
      destruct (rounds_is_run jst j_slots j_awaited (fun _ i => i) j_handle tuple tuple j_order (fun _ => None) j_pre_any j_finish (fun s => s) j_drop (fun _ => true) jmut r w0) as [ops Hops].
      unfold rem. apply awaited_has_steps; auto.
      + rewrite Hops. apply PWj_run, PWj_init.
      + unfold N, j_slots in Hj. cbn in Hj. rewrite repeat_length in Hj. exact Hj.
    - intros s HQ HT. apply TSj_some; auto.
  Qed.
  (* ... and what it returns is the positional vector of the values its children's scripts resolve to (C04Join) *)
  Theorem join_fair_resolves : let w := jrounds bound w0 in
    (exists ops, w = join_run tuple false scs ops) /\ dropped _ w = false /\
    exists vs, In (EEndR (OVals vs)) (tr _ w) /\ length vs = n /\ forall i, i < n -> first_ready (nth i scs []) = Some (nth i vs 0).
  Proof.
    cbv zeta. destruct join_fair_returns as (_ & [o Ho] & Hd).
    destruct (rounds_is_run jst j_slots j_awaited (fun _ i => i) j_handle tuple tuple j_order (fun _ => None) j_pre_any j_finish (fun s => s) j_drop (fun _ => true) jmut bound w0) as [ops Hops].
    split; [exists ops; exact Hops|]. split; [exact Hd|].
    assert (HG : Good n scs o).
    { apply (C04_join tuple scs ops Hfut o). change (join_run tuple false scs ops) with (jrun w0 ops). rewrite <- Hops. exact Ho. }
    destruct HG as (vs & -> & Hl & Hv). exists vs. split; [exact Ho|]. split; [exact Hl|exact Hv].
  Qed.
End JoinLive.
Print Assumptions join_fair_resolves.

(* ---- the same for try_join (and join again), with a smaller script invariant: a child that is still awaited has a Ready step ahead ---- *)
Definition hasready (l: list step) : bool := existsb (fun st => match answer st with AReady _ => true | _ => false end) l.
Section JoinFamLive.
  Variables (tuple tryj : bool).
  Variable scs : list (list step).
  Let n := length scs.
  Hypothesis Hready : forall i, i < n -> hasready (nth i scs []) = true.
  Hypothesis Hnp : forall m st, In st (nth m scs []) -> answer st <> APanic.
  Hypothesis Hn : 0 < n.

  Definition P' (s: jst) (sc: list (list step)) : Prop :=
    j_Q s /\ length (pst s) = n /\ (j_consumed s = false -> forall i, i < n -> nth i (pst s) PNone = PPending -> hasready (nth i sc []) = true).

  Lemma P'_handle : forall s sc i stp sc', j_awaited s i = true -> i < j_slots s -> (stp, sc') = popped sc i ->
      P' s sc -> P' (fst (fst (j_handle s i (answer stp)))) sc'.
  Proof.
    intros s sc i stp sc' Ha Hi Hpop (HQ & Hl & Hm).
    pose proof (J9 s i (answer stp) HQ Ha Hi) as HQ'. destruct (aw_in_range s i Ha) as [Hi' Hpi]. unfold j_slots in Hi'.
    assert (Hsc : forall j, j <> i -> nth j sc' [] = nth j sc []).
    { intros j Hne. unfold popped in Hpop. destruct (nth i sc []); inversion Hpop; subst; auto. rewrite nth_upd_other by auto. reflexivity. }
    assert (Hsi : j_consumed s = false -> (match answer stp with AReady _ => False | _ => True end) -> hasready (nth i sc' []) = true).
    { intros Hc Hna. specialize (Hm Hc i ltac:(lia) Hpi). unfold popped in Hpop. destruct (nth i sc []) as [|x rest] eqn:E; [discriminate|].
      inversion Hpop; subst stp sc'. rewrite nth_upd_same_sc by (rewrite E; discriminate).
      cbn in Hm. destruct (answer x); try contradiction; cbn in Hm; exact Hm. }
    split; [exact HQ'|]. pose proof (j_handle_cases s i (answer stp)) as X. cbn zeta in X.
    destruct (answer stp) as [|[v|er]|v| |] eqn:Ea; rewrite X in *; cbn [fst].
    - split; [exact Hl|]. intros Hc j Hj Hp. destruct (Nat.eq_dec j i) as [->|Hne]; [apply Hsi; auto|rewrite Hsc by exact Hne; apply Hm; auto].
    - destruct (j_tup s && (pending s - 1 =? 0)); cbn [fst].
      + unfold j_reset; cbn. rewrite map_length, upd_length. split; [exact Hl|]. intros; discriminate.
      + cbn. rewrite upd_length. split; [exact Hl|]. intros Hc j Hj Hp. destruct (Nat.eq_dec j i) as [->|Hne].
        * rewrite nth_upd_same in Hp by lia. discriminate.
        * rewrite nth_upd_other in Hp by auto. rewrite Hsc by exact Hne. apply Hm; auto.
    - cbn. rewrite upd_length. split; [exact Hl|]. intros; discriminate.
    - split; [exact Hl|]. intros Hc j Hj Hp. destruct (Nat.eq_dec j i) as [->|Hne]; [apply Hsi; auto|rewrite Hsc by exact Hne; apply Hm; auto].
    - split; [exact Hl|]. intros Hc j Hj Hp. destruct (Nat.eq_dec j i) as [->|Hne]; [apply Hsi; auto|rewrite Hsc by exact Hne; apply Hm; auto].
    - split; [exact Hl|]. intros Hc j Hj Hp. destruct (Nat.eq_dec j i) as [->|Hne]; [apply Hsi; auto|rewrite Hsc by exact Hne; apply Hm; auto].
  Qed.
  Lemma P'_order s is s1 sc : j_order s = Some (is, s1) -> P' s sc -> P' s1 sc.
  Proof. intros E H. destruct (j_order_some _ _ _ E) as [_ ->]. exact H. Qed.
  Lemma P'_finish s sc : P' s sc -> P' (fst (j_finish s)) sc.
  Proof.
    intros (HQ & Hl & Hm). pose proof (J17 s HQ) as H17. unfold j_finish in *.
    destruct (negb (j_consumed s) && negb (j_tup s) && (pending s =? 0)); cbn [fst] in *; [|split; [exact HQ|split; [exact Hl|exact Hm]]].
    split; [exact H17|]. unfold j_reset; cbn. rewrite map_length. split; [exact Hl|]. intros; discriminate.
  Qed.
  Notation fstep := (step_op jst j_slots j_awaited (fun _ i => i) j_handle tuple tuple j_order (fun _ => None) j_pre_any j_finish (fun s => s) j_drop (fun _ => true) jmut).
  Notation frun := (run_ops jst j_slots j_awaited (fun _ i => i) j_handle tuple tuple j_order (fun _ => None) j_pre_any j_finish (fun s => s) j_drop (fun _ => true) jmut).
  Notation frounds := (rounds jst j_slots j_awaited (fun _ i => i) j_handle tuple tuple j_order (fun _ => None) j_pre_any j_finish (fun s => s) j_drop (fun _ => true) jmut).
  Definition PW' (w: jW) := P' (cs _ w) (scripts _ w).
  Lemma PW'_step w o : PW' w -> PW' (fstep w o).
  Proof.
    intros HP. destruct o as [| |c k| |m a sc]; cbn [step_op].
    1,2: destruct (finished jst w || dropped jst w); [exact HP|];
      apply (poll_P jst j_slots j_awaited (fun _ i => i) j_handle tuple tuple j_order (fun _ => None) j_pre_any j_finish (fun s => s) j_drop (fun _ => true) j_Q
                 J1 J8 J10 J12 P' P'_handle P'_order P'_finish (fun _ _ H => H) (fun s sc H => proj1 H)); exact HP.
    - destruct (fire_handle_pass jst j_slots (emit jst w [EO]) c k) as [Hc Hs]. unfold PW'. rewrite Hc, Hs. exact HP.
    - destruct (dropped jst w); exact HP.
    - destruct (dropped jst w); exact HP.
  Qed.
  Lemma PW'_run ops : forall w, PW' w -> PW' (frun w ops).
  Proof. induction ops as [|o r IH]; intros w HP; cbn; auto. apply IH, PW'_step, HP. Qed.
  Definition fw0 := mk_world {| j_try := tryj; j_tup := tuple; j_consumed := false; pending := length scs; items := repeat None (length scs); pst := repeat PPending (length scs) |} true (length scs) scs.
  Lemma PW'_init : PW' fw0.
  Proof.
    unfold PW', P', fw0, mk_world; cbn. rewrite !repeat_length. split; [|split; [reflexivity|]].
    - unfold j_Q; cbn [pending pst]. rewrite count_repeat_pending. reflexivity.
    - intros _ i Hi _. apply Hready. exact Hi.
  Qed.

  (* join and try_join, slice and tuple variants: within [bound scs] rounds the wake-driven executor has been handed the result (what the result
     is, is C04 / C05: the positional vector, or the first error) *)
  Theorem joinfam_fair_returns : let w := frounds (bound scs) fw0 in
    finished _ w = true /\ returned _ w /\ dropped _ w = false /\ exists ops, w = join_run tuple tryj scs ops.
  Proof.
    cbv zeta.
    assert (X : finished _ (frounds (bound scs) fw0) = true /\ returned _ (frounds (bound scs) fw0) /\ dropped _ (frounds (bound scs) fw0) = false).
    { apply (fair_executor_returns jst j_slots j_awaited (fun _ i => i) j_handle tuple tuple j_order (fun _ => None) j_pre_any j_finish (fun s => s) j_drop
             (fun _ => true) j_Q J1 J2 J3 J4 J5 J6 J7 J8 J9 J10 J11 J12 J13 J14 J15 J16 J17 (fun _ => eq_refl) (fun _ _ _ => eq_refl) (fun _ H => H)
             jmut jmut_inv (fun _ _ => true) (fun _ _ _ _ _ => eq_refl) (fun _ _ _ _ _ _ _ _ H => H) j_slots (fun _ _ _ H _ => H) (fun s i a _ _ _ => conj (J1 s i a) (fun _ _ _ => conj eq_refl eq_refl)) (fun s is s1 _ E => conj (J10 s is s1 E) (fun _ _ _ => conj eq_refl eq_refl)) (fun s _ => conj (J15 s) (fun _ _ _ => conj eq_refl eq_refl)) (fun s _ => conj eq_refl (fun _ _ _ => conj eq_refl eq_refl)) j_abort_panic (fun a => a <> APanic) (fun _ H => H) APend_not_panic (TSj tuple) (USj tuple) (fun s i a s' e _ _ _ => USj_cont tuple scs Hn s i a s' e) (TSj_order tuple) (USj_finish tuple scs Hn) (USj_endp tuple) (TSj_order_some tuple)).
      - apply (join_init tuple).
      - split; [reflexivity|]. split; [exact Hnp|].
        unfold HT, N, j_slots, polled. cbn. rewrite !repeat_length. split; [reflexivity|]. split; [reflexivity|].
        intros c Hc _. rewrite !repeat_nth by exact Hc. split; [intros h []|discriminate].
      - split; [reflexivity|]. split; [reflexivity|]. exact Hn.
      - reflexivity.
      - reflexivity.
      - reflexivity.
      - intros j. unfold rem, bound, fw0, mk_world. cbn [scripts].
        eapply Nat.le_trans; [|apply Nat.le_max_r]. destruct (Nat.lt_ge_cases j (length scs)) as [L|G].
        + pose proof (proj1 (list_max_le (map (@length step) scs) (list_max (map (@length step) scs))) (Nat.le_refl _)) as Hle.
          rewrite Forall_forall in Hle. apply Hle. apply in_map. apply nth_In. exact L.
        + rewrite nth_overflow by exact G. cbn. lia.
      - unfold bound. apply Nat.le_max_l.
      - intros r j Hj (_ & Hc & _) Ha.
        destruct (rounds_is_run jst j_slots j_awaited (fun _ i => i) j_handle tuple tuple j_order (fun _ => None) j_pre_any j_finish (fun s => s) j_drop (fun _ => true) jmut r fw0) as [ops Hops].
        unfold rem. pose proof (PW'_run ops fw0 PW'_init) as (_ & _ & Hm). rewrite <- Hops in Hm.
        unfold N, j_slots in Hj. cbn in Hj. rewrite repeat_length in Hj.
        destruct (aw_in_range _ _ Ha) as [_ Hp]. specialize (Hm Hc j Hj Hp).
        destruct (nth j (scripts jst (frounds r fw0)) []); [discriminate|cbn; lia].
      - intros s HQ HT. apply (TSj_some tuple); auto. }
    destruct X as (A & B & C). split; [exact A|]. split; [exact B|]. split; [exact C|].
    destruct (rounds_is_run jst j_slots j_awaited (fun _ i => i) j_handle tuple tuple j_order (fun _ => None) j_pre_any j_finish (fun s => s) j_drop (fun _ => true) jmut (bound scs) fw0) as [ops Hops].
    exists ops. exact Hops.
  Qed.
  (* ... and from every reachable state: after ANY history, while the join has not returned (nothing consumed, a child still pending) and has not
     been dropped, B rounds suffice, B any bound on the remaining script lengths *)
  Definition Ptup (s: jst) (sc: list (list step)) : Prop := P' s sc /\ j_tup s = tuple.
  Lemma tup_handle s i a : j_tup (fst (fst (j_handle s i a))) = j_tup s.
  Proof. destruct a as [|[v|e]|v| |]; cbn; auto. destruct (_ && _); reflexivity. Qed.
  Lemma Ptup_run ops : Ptup (cs _ (frun fw0 ops)) (scripts _ (frun fw0 ops)).
  Proof.
    assert (H : forall ops w, Ptup (cs _ w) (scripts _ w) -> Ptup (cs _ (frun w ops)) (scripts _ (frun w ops))).
    { clear ops. induction ops as [|o r IH]; intros w HP; [exact HP|]. cbn [run_ops fold_left]. apply IH.
      destruct o as [| |c k| |m a sc]; cbn [step_op].
      1,2: destruct (finished jst w || dropped jst w); [exact HP|];
        apply (poll_P jst j_slots j_awaited (fun _ i => i) j_handle tuple tuple j_order (fun _ => None) j_pre_any j_finish (fun s => s) j_drop (fun _ => true) j_Q
                 J1 J8 J10 J12 Ptup); try exact HP; unfold Ptup.
      - intros s sc i stp sc' Ha Hi E [H1 H2]. split; [apply (P'_handle s sc i stp sc' Ha Hi E H1)|rewrite tup_handle; exact H2].
      - intros s is s1 sc E [H1 H2]. split; [eapply P'_order; eauto|destruct (j_order_some _ _ _ E) as [_ ->]; exact H2].
      - intros s sc [H1 H2]. split; [apply P'_finish, H1|unfold j_finish; destruct (_ && _); cbn; exact H2].
      - intros s sc H. exact H.
      - intros s sc [H1 _]. apply H1.
      - intros s sc i stp sc' Ha Hi E [H1 H2]. split; [apply (P'_handle s sc i stp sc' Ha Hi E H1)|rewrite tup_handle; exact H2].
      - intros s is s1 sc E [H1 H2]. split; [eapply P'_order; eauto|destruct (j_order_some _ _ _ E) as [_ ->]; exact H2].
      - intros s sc [H1 H2]. split; [apply P'_finish, H1|unfold j_finish; destruct (_ && _); cbn; exact H2].
      - intros s sc H. exact H.
      - intros s sc [H1 _]. apply H1.
      - destruct (fire_handle_pass jst j_slots (emit jst w [EO]) c k) as [Hc Hs]. rewrite Hc, Hs. exact HP.
      - destruct (dropped jst w); exact HP.
      - destruct (dropped jst w); exact HP. }
    apply H. split; [apply PW'_init|reflexivity].
  Qed.
  Lemma frun_app w a b : frun (frun w a) b = frun w (a ++ b).
  Proof. unfold run_ops. rewrite fold_left_app. reflexivity. Qed.
  Lemma join_Inv_run ops : Inv jst j_slots j_awaited j_Q (frun fw0 ops).
  Proof.
    apply (Inv_run jst j_slots j_awaited (fun _ i => i) j_handle tuple tuple j_order (fun _ => None) j_pre_any j_finish (fun s => s) j_drop
             (fun _ => true) j_Q J1 J2 J3 J4 J5 J6 J7 J8 J9 J10 J11 J12 J13 J14 J15 J16 J17 (fun _ => eq_refl) (fun _ _ _ => eq_refl) (fun _ H => H)
             jmut jmut_inv). apply (join_init tuple).
  Qed.
  Lemma join_LiveI_run ops : LiveI jst j_slots (fun _ i => i) (fun _ _ => true) j_slots (fun a => a <> APanic) (frun fw0 ops).
  Proof.
    eapply (LiveI_run jst j_slots j_awaited (fun _ i => i) j_handle tuple tuple j_order (fun _ => None) j_pre_any j_finish (fun s => s) j_drop (fun _ => true) j_Q)
      with (US := USj tuple) (okscript := fun _ => True);
      try first [exact J1|exact J2|exact J3|exact J4|exact J5|exact J6|exact J7|exact J8|exact J9|exact J10|exact J11|exact J12|exact J13|exact J14|exact J15|exact J16|exact J17
                |exact (fun _ => eq_refl)|exact (fun _ _ _ => eq_refl)|exact (fun _ H => H)|exact jmut_inv|exact (fun _ _ _ _ _ => eq_refl)
                |exact (fun _ _ _ _ _ _ _ _ H => H)|exact (fun _ _ _ H _ => H)|exact (fun s i a _ _ _ => conj (J1 s i a) (fun _ _ _ => conj eq_refl eq_refl))
                |exact (fun s is s1 _ E => conj (J10 s is s1 E) (fun _ _ _ => conj eq_refl eq_refl))|exact (fun s _ => conj (J15 s) (fun _ _ _ => conj eq_refl eq_refl))
                |exact (fun s _ => conj eq_refl (fun _ _ _ => conj eq_refl eq_refl))|exact (j_abort_panic)|exact APend_not_panic
                |exact (fun s i a s' e _ _ _ => USj_cont tuple scs Hn s i a s' e)|exact (fun w _ _ _ _ H _ => H)].
    - apply (join_init tuple).
    - split; [reflexivity|]. split; [exact Hnp|].
      unfold HT, N, j_slots, polled. cbn. rewrite !repeat_length. split; [reflexivity|]. split; [reflexivity|].
      intros c Hc _. rewrite !repeat_nth by exact Hc. split; [intros h []|discriminate].
    - apply Forall_forall. intros o _. destruct o; exact I.
  Qed.

  Theorem joinfam_returns_from ops B : let w := frun fw0 ops in
    finished _ w = false -> dropped _ w = false -> j_consumed (cs _ w) = false -> 0 < pending (cs _ w) ->
    (forall j, length (nth j (scripts _ w) []) <= B) -> 1 <= B ->
    let w' := frounds B w in finished _ w' = true /\ returned _ w' /\ dropped _ w' = false /\ exists ops', w' = join_run tuple tryj scs ops'.
  Proof.
    intros w Hf Hd Hc Hp HB HB1. cbv zeta.
    assert (X : finished _ (frounds B w) = true /\ returned _ (frounds B w) /\ dropped _ (frounds B w) = false).
    { eapply (fair_executor_returns jst j_slots j_awaited (fun _ i => i) j_handle tuple tuple j_order (fun _ => None) j_pre_any j_finish (fun s => s) j_drop (fun _ => true) j_Q)
        with (occ := fun _ _ => true) (nmem := j_slots) (okans := fun a => a <> APanic) (TS := TSj tuple) (US := USj tuple);
        try first [exact J1|exact J2|exact J3|exact J4|exact J5|exact J6|exact J7|exact J8|exact J9|exact J10|exact J11|exact J12|exact J13|exact J14|exact J15|exact J16|exact J17
                  |exact (fun _ => eq_refl)|exact (fun _ _ _ => eq_refl)|exact (fun _ H => H)|exact jmut_inv|exact (fun _ _ _ _ _ => eq_refl)
                  |exact (fun _ _ _ _ _ _ _ _ H => H)|exact (fun _ _ _ H _ => H)|exact (fun s i a _ _ _ => conj (J1 s i a) (fun _ _ _ => conj eq_refl eq_refl))
                  |exact (fun s is s1 _ E => conj (J10 s is s1 E) (fun _ _ _ => conj eq_refl eq_refl))|exact (fun s _ => conj (J15 s) (fun _ _ _ => conj eq_refl eq_refl))
                  |exact (fun s _ => conj eq_refl (fun _ _ _ => conj eq_refl eq_refl))|exact (j_abort_panic)|exact APend_not_panic
                  |exact (fun s i a s' e _ _ _ => USj_cont tuple scs Hn s i a s' e)|exact (TSj_order tuple)|exact (USj_finish tuple scs Hn)|exact (USj_endp tuple)|exact (TSj_order_some tuple)
                  |exact Hd|exact Hf|exact HB|exact HB1].
      - apply join_Inv_run.
      - apply join_LiveI_run.
      - split; [apply (proj2 (Ptup_run ops))|]. split; [exact Hc|exact Hp].
      - intros r j Hj (_ & Hc' & _) Ha.
        destruct (rounds_is_run jst j_slots j_awaited (fun _ i => i) j_handle tuple tuple j_order (fun _ => None) j_pre_any j_finish (fun s => s) j_drop (fun _ => true) jmut r w) as [ops' Hops].
        unfold rem. pose proof (PW'_run (ops ++ ops') fw0 PW'_init) as (_ & Hlen & Hm). rewrite <- frun_app in Hlen, Hm. fold w in Hlen, Hm. rewrite <- Hops in Hlen, Hm.
        pose proof (PW'_run ops fw0 PW'_init) as (_ & Hlen0 & _). fold w in Hlen0.
        assert (Hj' : j < n) by (unfold N, j_slots in Hj; rewrite Hlen0 in Hj; exact Hj).
        destruct (aw_in_range _ _ Ha) as [_ Hpj]. specialize (Hm Hc' j Hj' Hpj).
        destruct (nth j (scripts jst (frounds r w)) []); [discriminate|cbn; lia].
      - intros s HQ HT. apply (TSj_some tuple); auto. }
    destruct X as (A & Bx & C). split; [exact A|]. split; [exact Bx|]. split; [exact C|].
    destruct (rounds_is_run jst j_slots j_awaited (fun _ i => i) j_handle tuple tuple j_order (fun _ => None) j_pre_any j_finish (fun s => s) j_drop (fun _ => true) jmut B w) as [ops' Hops].
    exists (ops ++ ops'). rewrite Hops. unfold w. apply frun_app.
  Qed.
End JoinFamLive.
Print Assumptions joinfam_fair_returns.
