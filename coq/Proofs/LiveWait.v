(* wait_until, stream form: after any schedule, the next result (an item of the inner stream, or its end) arrives within a bounded number of polls.
   The future form is in LivePass.v (wait_until_returns); this file adds the stream form, from the initial state and from every reachable state. *)
From Coq Require Import List Arith Bool Lia.
Import ListNotations.
Require Import ScanFull InstsFull Pass LivePass.

(* the stream form: the deadline scripted Pending* then Ready, the inner stream (Pending | Item)* then End; the bound counts the Pending answers
   the deadline still has to give (while it has not resolved) plus those of the inner stream *)
Definition I_waits (b: nat) (s: ust) (sc: list (list step)) : Prop :=
  u_stream s = true /\ goods (nth 1 sc []) = true /\
  if u_started s then pends (nth 1 sc []) <= b else goodf (nth 0 sc []) = true /\ exists k0, lead (nth 0 sc []) = Some k0 /\ k0 + pends (nth 1 sc []) <= b.

(* one poll of a stream scripted (Pending | Item)* End *)
Lemma poll_direct_goods {St} (w: W St) m pid : goods (nth m (scripts St w) []) = true ->
  let '(w', a) := poll_direct St w m pid in
  (a = APend /\ goods (nth m (scripts St w') []) = true /\ pends (nth m (scripts St w) []) = S (pends (nth m (scripts St w') []))) \/
  (exists v, a = AItem v /\ goods (nth m (scripts St w') []) = true /\ pends (nth m (scripts St w') []) = pends (nth m (scripts St w) [])) \/
  a = AEnd.
Proof.
  intros Hg. pose proof (poll_direct_live w m pid) as H. destruct (poll_direct St w m pid) as [w' a]. destruct H as (_ & _ & _ & _ & _ & E).
  destruct (nth m (scripts St w) []) as [|x rest] eqn:En; [discriminate|]. destruct E as [-> E]. cbn [goods pends] in Hg |- *.
  assert (Hm : m < length (scripts St w)) by (destruct (Nat.lt_ge_cases m (length (scripts St w))); auto; rewrite nth_overflow in En by assumption; discriminate).
  destruct (answer x) as [|r|v| |]; try discriminate.
  - left. rewrite E, nth_upd_same by exact Hm. auto.
  - right. left. exists v. rewrite E, nth_upd_same by exact Hm. auto.
  - right. right. reflexivity.
Qed.

Lemma waits_poll_live : forall b (w: W ust) pid np, I_waits b (cs _ w) (scripts _ w) -> finished _ w = false -> dropped _ w = false ->
  let w' := wait_poll w pid np in
  (returns ust w w' /\ Good ust I_waits b w') \/
  (finished _ w' = false /\ dropped _ w' = false /\ exists b', b' < b /\ I_waits b' (cs _ w') (scripts _ w')).
Proof.
  intros b w pid np (Hs & Hg1 & Hb) Hf Hd. unfold wait_poll.
  set (w0 := begin_p ust w pid np).
  assert (H0 : cs _ w0 = cs _ w /\ scripts _ w0 = scripts _ w /\ tr _ w0 = tr _ w ++ [EB pid] /\ finished _ w0 = false /\ dropped _ w0 = false) by (unfold w0, begin_p; cbn; auto).
  destruct H0 as (C0 & S0 & T0 & F0 & D0). rewrite C0.
  assert (Hinner : forall (w1: W ust) late, nth 1 (scripts _ w1) [] = nth 1 (scripts _ w) [] -> u_stream (cs _ w1) = true -> u_started (cs _ w1) = true ->
            (exists u, tr _ w1 = tr _ w ++ u) -> finished _ w1 = false -> dropped _ w1 = false -> pends (nth 1 (scripts _ w) []) <= b ->
            let w' := (let '(w2, a) := poll_direct ust w1 1 pid in
                       let w3 := emit ust w2 late in
                       match a with
                       | AReady (ROk v) | AReady (RErr v) => finish_p ust w3 (OVals [v]) true
                       | AItem v => finish_p ust w3 (OSome None [v]) false
                       | AEnd => finish_p ust w3 ONone true
                       | APanic => unwind_p ust w3 [EDc 1; EDc 0]
                       | _ => emit ust w3 [EEndP]
                       end) in
            (returns ust w w' /\ Good ust I_waits b w') \/
            (finished _ w' = false /\ dropped _ w' = false /\ exists b', b' < b /\ I_waits b' (cs _ w') (scripts _ w'))).
  { intros w1 late S1 U1 U2 [u Hu] F1 D1 Hk.
    pose proof (poll_direct_goods w1 1 pid) as HL. rewrite S1 in HL. specialize (HL Hg1).
    pose proof (poll_direct_live w1 1 pid) as HP. destruct (poll_direct ust w1 1 pid) as [w2 a]. destruct HP as (A & B & C & [u2 Hu2] & _ & _).
    destruct HL as [(-> & Hg' & Hp')|[(v & -> & Hg' & Hp')| ->]].
    - right. cbn [finished dropped emit cs scripts]. split; [congruence|]. split; [congruence|].
      exists (pends (nth 1 (scripts ust w2) [])). split; [lia|]. unfold I_waits. rewrite A, U1, U2. split; [reflexivity|]. split; [exact Hg'|]. apply Nat.le_refl.
    - left. split.
      + unfold returns, finish_p. exists (u ++ u2 ++ late), (OSome None [v]). cbn [tr emit set_flags]. rewrite Hu2, Hu, <- !app_assoc. reflexivity.
      + unfold Good, finish_p. cbn [finished dropped set_flags emit cs scripts]. split; [congruence|]. right. exists b. split; [apply Nat.le_refl|].
        unfold I_waits. cbn [cs scripts set_flags emit]. rewrite A, U1, U2. split; [reflexivity|]. split; [exact Hg'|]. lia.
    - left. split.
      + unfold returns, finish_p. exists (u ++ u2 ++ late), ONone. cbn [tr emit set_flags]. rewrite Hu2, Hu, <- !app_assoc. reflexivity.
      + unfold Good, finish_p. cbn [finished dropped set_flags emit]. split; [congruence|left; reflexivity]. }
  destruct (u_started (cs ust w)) eqn:Est.
  - apply (Hinner w0 []).
    + rewrite S0. reflexivity.
    + rewrite C0. exact Hs.
    + rewrite C0. exact Est.
    + exists [EB pid]. exact T0.
    + exact F0.
    + exact D0.
    + exact Hb.
  - destruct Hb as (Hg0 & k0 & Hl0 & Hb).
    pose proof (poll_direct_lead w0 0 pid k0) as HL. rewrite S0 in HL. specialize (HL Hg0 Hl0).
    pose proof (poll_direct_other w0 0 pid 1 ltac:(lia)) as Ho. rewrite S0 in Ho.
    pose proof (poll_direct_live w0 0 pid) as HP. destruct (poll_direct ust w0 0 pid) as [w1 a]. destruct HP as (A & B & C & [u1 Hu1] & _ & _). cbn [fst] in Ho.
    destruct k0 as [|k0'].
    + destruct HL as [r ->]. rewrite Hs.
      assert (X : let w2 := set_cs ust w1 {| u_stream := true; u_started := true |} in
                nth 1 (scripts _ w2) [] = nth 1 (scripts _ w) [] /\ u_stream (cs _ w2) = true /\ u_started (cs _ w2) = true /\
                (exists u, tr _ w2 = tr _ w ++ u) /\ finished _ w2 = false /\ dropped _ w2 = false).
      { intros w2. unfold w2. cbn [scripts cs emit set_cs tr finished dropped u_stream u_started]. split; [exact Ho|]. split; [reflexivity|]. split; [reflexivity|].
        split; [exists ([EB pid] ++ u1); rewrite Hu1, T0, <- !app_assoc; reflexivity|]. split; congruence. }
      destruct X as (X1 & X2 & X3 & X4 & X5 & X6).
      destruct r as [v|v]; apply (Hinner _ [EV v] X1 X2 X3 X4 X5 X6); lia.
    + destruct HL as (-> & Hg' & Hl'). right. cbn [finished dropped emit cs scripts]. split; [congruence|]. split; [congruence|].
      exists (k0' + pends (nth 1 (scripts ust w) [])). split; [lia|]. unfold I_waits. rewrite A, C0, Hs, Est. split; [reflexivity|]. rewrite Ho. split; [exact Hg1|].
      split; [exact Hg'|]. exists k0'. split; [exact Hl'|lia].
Qed.

Definition waits_w0 (scs: list (list step)) : W ust := mk_world {| u_stream := true; u_started := false |} false 2 scs.

(* the stream form of wait_until from EVERY reachable state: deadline scripted Pending^k0 Ready, inner stream (Pending | Item)* End with p Pending answers;
   after any schedule ops0 of polls and waker invocations, if the stream has not ended, any further schedule with more than k0 + p polls contains - among
   its first k0 + p + 1 polls - one that returns the next result (an item of the inner stream, or None).  The bound of the fresh combinator is never
   exceeded later: Pending answers only get consumed. *)
Theorem wait_until_stream_next_result d i ops0 ops k0 : goodf d = true -> goods i = true -> lead d = Some k0 -> sched ops0 -> sched ops ->
  let w := wait_world true [d; i] ops0 in finished _ w = false -> k0 + pends i < npolls ops ->
  exists ops1 p ops2, ops = ops1 ++ p :: ops2 /\ is_poll p = true /\ npolls ops1 <= k0 + pends i /\
    let w1 := p_world ust wait_poll u_drops w ops1 in
    finished _ w1 = false /\ dropped _ w1 = false /\ returns ust w1 (p_step ust wait_poll u_drops w1 p).
Proof.
  intros Hgd Hgi Hld Hs0 Hs w Hf Hk. unfold w, wait_world in *. fold (waits_w0 [d; i]) in *.
  destruct (pass_next ust wait_poll u_drops I_waits waits_poll_live (k0 + pends i) (waits_w0 [d; i]) ops0 ops Hs0 Hs) as (ops1 & p & ops2 & E1 & E2 & E3 & E4 & E5 & E6 & E7);
    [|exact Hf|exact Hk|].
  - unfold Good. split; [reflexivity|]. right. exists (k0 + pends i). split; [apply Nat.le_refl|].
    unfold waits_w0, I_waits. cbn [cs scripts mk_world u_stream u_started nth]. split; [reflexivity|]. split; [exact Hgi|].
    split; [exact Hgd|]. exists k0. split; [exact Hld|apply Nat.le_refl].
  - exists ops1, p, ops2. split; [exact E1|]. split; [exact E2|]. split; [exact E3|]. cbn zeta. split; [exact E4|]. split; [exact E5|exact E6].
Qed.

(* ---- the future form from every reachable state (wait_until_returns of LivePass.v starts at the fresh combinator) ---- *)
Theorem wait_until_returns_from d i ops0 ops k0 k1 : goodf d = true -> goodf i = true -> lead d = Some k0 -> lead i = Some k1 -> sched ops0 -> sched ops ->
  let w := wait_world false [d; i] ops0 in finished _ w = false -> k0 + k1 < npolls ops ->
  exists ops1 p ops2, ops = ops1 ++ p :: ops2 /\ is_poll p = true /\ npolls ops1 <= k0 + k1 /\
    let w1 := p_world ust wait_poll u_drops w ops1 in
    finished _ w1 = false /\ dropped _ w1 = false /\ returns ust w1 (p_step ust wait_poll u_drops w1 p).
Proof.
  intros Hgd Hgi Hld Hli Hs0 Hs w Hf Hk. unfold w, wait_world in *. fold (wait_w0 [d; i]) in *.
  destruct (pass_next ust wait_poll u_drops I_wait wait_poll_live (k0 + k1) (wait_w0 [d; i]) ops0 ops Hs0 Hs) as (ops1 & p & ops2 & E1 & E2 & E3 & E4 & E5 & E6 & E7);
    [|exact Hf|exact Hk|].
  - unfold Good. split; [reflexivity|]. right. exists (k0 + k1). split; [apply Nat.le_refl|].
    unfold wait_w0, I_wait. cbn [cs scripts mk_world u_stream u_started nth]. split; [reflexivity|]. split; [exact Hgi|]. exists k1. split; [exact Hli|].
    split; [exact Hgd|]. exists k0. split; [exact Hld|apply Nat.le_refl].
  - exists ops1, p, ops2. split; [exact E1|]. split; [exact E2|]. split; [exact E3|]. cbn zeta. split; [exact E4|]. split; [exact E5|exact E6].
Qed.

(* ---- the stream form ENDS: the bound counts the deadline's Pending answers plus every Pending and Item answer of the inner stream ---- *)
Definition I_waite (b: nat) (s: ust) (sc: list (list step)) : Prop :=
  u_stream s = true /\ goods (nth 1 sc []) = true /\
  if u_started s then steps_before_end (nth 1 sc []) <= b
  else goodf (nth 0 sc []) = true /\ exists k0, lead (nth 0 sc []) = Some k0 /\ k0 + steps_before_end (nth 1 sc []) <= b.

Lemma poll_direct_steps {St} (w: W St) m pid : goods (nth m (scripts St w) []) = true ->
  let '(w', a) := poll_direct St w m pid in
  ((a = APend \/ exists v, a = AItem v) /\ goods (nth m (scripts St w') []) = true /\
     steps_before_end (nth m (scripts St w) []) = S (steps_before_end (nth m (scripts St w') []))) \/
  a = AEnd.
Proof.
  intros Hg. pose proof (poll_direct_live w m pid) as H. destruct (poll_direct St w m pid) as [w' a]. destruct H as (_ & _ & _ & _ & _ & E).
  destruct (nth m (scripts St w) []) as [|x rest] eqn:En; [discriminate|]. destruct E as [-> E]. cbn [goods steps_before_end] in Hg |- *.
  assert (Hm : m < length (scripts St w)) by (destruct (Nat.lt_ge_cases m (length (scripts St w))); auto; rewrite nth_overflow in En by assumption; discriminate).
  destruct (answer x) as [|r|v| |]; try discriminate.
  - left. rewrite E, nth_upd_same by exact Hm. auto.
  - left. rewrite E, nth_upd_same by exact Hm. split; [right; exists v; reflexivity|auto].
  - right. reflexivity.
Qed.

Lemma waits_poll_ends : forall b (w: W ust) pid np, I_waite b (cs _ w) (scripts _ w) -> finished _ w = false -> dropped _ w = false ->
  let w' := wait_poll w pid np in dropped _ w' = false /\
  (finished _ w' = true \/ (finished _ w' = false /\ exists b', b' < b /\ I_waite b' (cs _ w') (scripts _ w'))).
Proof.
  intros b w pid np (Hs & Hg1 & Hb) Hf Hd. unfold wait_poll.
  set (w0 := begin_p ust w pid np).
  assert (H0 : cs _ w0 = cs _ w /\ scripts _ w0 = scripts _ w /\ finished _ w0 = false /\ dropped _ w0 = false) by (unfold w0, begin_p; cbn; auto).
  destruct H0 as (C0 & S0 & F0 & D0). rewrite C0.
  assert (Hinner : forall (w1: W ust) late, nth 1 (scripts _ w1) [] = nth 1 (scripts _ w) [] -> u_stream (cs _ w1) = true -> u_started (cs _ w1) = true ->
            finished _ w1 = false -> dropped _ w1 = false -> steps_before_end (nth 1 (scripts _ w) []) <= b ->
            let w' := (let '(w2, a) := poll_direct ust w1 1 pid in
                       let w3 := emit ust w2 late in
                       match a with
                       | AReady (ROk v) | AReady (RErr v) => finish_p ust w3 (OVals [v]) true
                       | AItem v => finish_p ust w3 (OSome None [v]) false
                       | AEnd => finish_p ust w3 ONone true
                       | APanic => unwind_p ust w3 [EDc 1; EDc 0]
                       | _ => emit ust w3 [EEndP]
                       end) in
            dropped _ w' = false /\
            (finished _ w' = true \/ (finished _ w' = false /\ exists b', b' < b /\ I_waite b' (cs _ w') (scripts _ w')))).
  { intros w1 late S1 U1 U2 F1 D1 Hk.
    pose proof (poll_direct_steps w1 1 pid) as HL. rewrite S1 in HL. specialize (HL Hg1).
    pose proof (poll_direct_live w1 1 pid) as HP. destruct (poll_direct ust w1 1 pid) as [w2 a]. destruct HP as (A & B & C & _ & _ & _).
    destruct HL as [([-> | [v ->]] & Hg' & Hp')| ->].
    - cbn [finished dropped emit cs scripts]. split; [congruence|]. right. split; [congruence|].
      exists (steps_before_end (nth 1 (scripts ust w2) [])). split; [lia|]. unfold I_waite. rewrite A, U1, U2. split; [reflexivity|]. split; [exact Hg'|]. apply Nat.le_refl.
    - unfold finish_p. cbn [finished dropped set_flags emit cs scripts]. split; [congruence|]. right. split; [congruence|].
      exists (steps_before_end (nth 1 (scripts ust w2) [])). split; [lia|]. unfold I_waite. rewrite A, U1, U2. split; [reflexivity|]. split; [exact Hg'|]. apply Nat.le_refl.
    - unfold finish_p. cbn [finished dropped set_flags emit]. split; [congruence|left; reflexivity]. }
  destruct (u_started (cs ust w)) eqn:Est.
  - apply (Hinner w0 []).
    + rewrite S0. reflexivity.
    + rewrite C0. exact Hs.
    + rewrite C0. exact Est.
    + exact F0.
    + exact D0.
    + exact Hb.
  - destruct Hb as (Hg0 & k0 & Hl0 & Hb).
    pose proof (poll_direct_lead w0 0 pid k0) as HL. rewrite S0 in HL. specialize (HL Hg0 Hl0).
    pose proof (poll_direct_other w0 0 pid 1 ltac:(lia)) as Ho. rewrite S0 in Ho.
    pose proof (poll_direct_live w0 0 pid) as HP. destruct (poll_direct ust w0 0 pid) as [w1 a]. destruct HP as (A & B & C & _ & _ & _). cbn [fst] in Ho.
    destruct k0 as [|k0'].
    + destruct HL as [r ->]. rewrite Hs.
      assert (X : let w2 := set_cs ust w1 {| u_stream := true; u_started := true |} in
                nth 1 (scripts _ w2) [] = nth 1 (scripts _ w) [] /\ u_stream (cs _ w2) = true /\ u_started (cs _ w2) = true /\
                finished _ w2 = false /\ dropped _ w2 = false).
      { intros w2. unfold w2. cbn [scripts cs emit set_cs tr finished dropped u_stream u_started]. split; [exact Ho|]. split; [reflexivity|]. split; [reflexivity|].
        split; congruence. }
      destruct X as (X1 & X2 & X3 & X5 & X6).
      destruct r as [v|v]; apply (Hinner _ [EV v] X1 X2 X3 X5 X6); lia.
    + destruct HL as (-> & Hg' & Hl'). cbn [finished dropped emit cs scripts]. split; [congruence|]. right. split; [congruence|].
      exists (k0' + steps_before_end (nth 1 (scripts ust w) [])). split; [lia|]. unfold I_waite. rewrite A, C0, Hs, Est. split; [reflexivity|]. rewrite Ho. split; [exact Hg1|].
      split; [exact Hg'|]. exists k0'. split; [exact Hl'|lia].
Qed.

(* the stream form of wait_until ends: under EVERY schedule of waker invocations and polls with more than k0 + s polls - k0 the deadline's Pending answers,
   s the Pending and Item answers the inner stream has scripted before its End - the stream has returned None (and C19_wait_until_gate says what came before) *)
Theorem wait_until_stream_ends d i ops k0 : goodf d = true -> goods i = true -> lead d = Some k0 -> sched ops -> k0 + steps_before_end i < npolls ops ->
  let w := wait_world true [d; i] ops in finished _ w = true /\ dropped _ w = false.
Proof.
  intros Hgd Hgi Hld Hs Hk. unfold wait_world. fold (waits_w0 [d; i]).
  apply (pass_finishes ust wait_poll u_drops I_waite waits_poll_ends ops (k0 + steps_before_end i) (waits_w0 [d; i]) Hs); auto.
  unfold waits_w0, I_waite. cbn [cs scripts mk_world u_stream u_started nth]. split; [reflexivity|]. split; [exact Hgi|].
  split; [exact Hgd|]. exists k0. split; [exact Hld|apply Nat.le_refl].
Qed.
