(* C20, second sentence: a sibling that has signalled (or has never been polled) is polled in the very next poll of the combinator, unless that
   poll delivers a result before the scan reaches it (or unwinds) - whatever the other children answer, in particular a child that stays
   Pending for ever.  Instances of ScanFull.sibling_progress for join / try_join, merge, zip and the two groups (selective strategy; in the
   non-selective strategy every awaited child is polled in every poll: NonSel). *)
From Coq Require Import List Arith Bool Lia.
Import ListNotations.
Require Import ScanFull InstsFull ObligJoin ObligMZ ObligGroups.

Lemma run_snoc {A B} (f: A -> B -> A) (l: list B) (x: B) (a: A) : fold_left f (l ++ [x]) a = f (fold_left f l a) x.
Proof. rewrite fold_left_app. reflexivity. Qed.

Theorem join_progress tuple tryj scs ops o j : (o = OPollFresh \/ o = OPollSame) -> let w := join_run tuple tryj scs ops in
  finished _ w = false -> dropped _ w = false -> j < N _ j_slots w -> aw _ j_awaited w j = true -> (fired _ w j = true \/ polled _ w j = false) ->
  exists pid u, tr _ (join_run tuple tryj scs (ops ++ [o])) = tr _ w ++ EB pid :: u /\ (subpolled j u \/ (exists r, In (EEndR r) u) \/ In EEndX u).
Proof.
  intros Ho. unfold join_run, run_ops. rewrite run_snoc.
  apply (sibling_progress jst j_slots j_awaited (fun _ i => i) j_handle tuple tuple j_order (fun _ => None) j_pre_any j_finish (fun s => s) j_drop
           (fun _ => true) j_Q J1 J2 J3 J4 J5 J6 J7 J8 J9 J10 J11 J12
           J13 J14 J15 J16 J17 (fun _ => eq_refl) (fun _ _ _ => eq_refl) (fun _ H => H)
           jmut jmut_inv); [apply (join_init tuple)|exact Ho].
Qed.

Theorem merge_progress scs ops o j : (o = OPollFresh \/ o = OPollSame) -> let w := merge_run scs ops in
  finished _ w = false -> dropped _ w = false -> j < N _ m_n w -> aw _ m_awaited w j = true -> (fired _ w j = true \/ polled _ w j = false) ->
  exists pid u, tr _ (merge_run scs (ops ++ [o])) = tr _ w ++ EB pid :: u /\ (subpolled j u \/ (exists r, In (EEndR r) u) \/ In EEndX u).
Proof.
  intros Ho. unfold merge_run, run_ops. rewrite run_snoc. revert Ho. revert o j. intros o j Ho.
  apply (sibling_progress mst m_n m_awaited (fun _ i => i) m_handle true true m_order m_pre_exit (fun _ => false) m_finish (fun s => s)
           (fun s => drop_all_children (m_n s)) m_final m_Q M1 M2 M3 M4 M5 M6 M7 M8 M9 M10 M11 M12 M13 M14
           (fun _ => eq_refl) (fun _ _ _ => eq_refl) (fun _ H => H) (fun _ => eq_refl) (fun _ _ _ => eq_refl) (fun _ H => H)
           mmut (fun w _ _ _ H => H)); [apply merge_init|exact Ho].
Qed.

Theorem zip_progress scs ops o j : (o = OPollFresh \/ o = OPollSame) -> let w := zip_run scs ops in
  finished _ w = false -> dropped _ w = false -> j < N _ z_n w -> aw _ z_awaited w j = true -> (fired _ w j = true \/ polled _ w j = false) ->
  exists pid u, tr _ (zip_run scs (ops ++ [o])) = tr _ w ++ EB pid :: u /\ (subpolled j u \/ (exists r, In (EEndR r) u) \/ In EEndX u).
Proof.
  intros Ho. unfold zip_run, run_ops. rewrite run_snoc.
  apply (sibling_progress zst z_n z_awaited (fun _ i => i) z_handle false true z_order (fun _ => None) (fun _ => false) z_finish (fun s => s)
           z_drop m_final z_Q Z1 Z2 Z3 Z4 Z5 Z6 Z7 Z8 (fun _ _ _ _ _ _ => I)
           Z10 Z11
           Z12 Z13 (fun _ _ _ _ _ => I)
           (fun _ => eq_refl) (fun _ _ _ => eq_refl) (fun _ _ => I) (fun _ => eq_refl) (fun _ _ _ => eq_refl) (fun _ _ => I)
           zmut (fun w _ _ _ H => H)); [apply zip_init|exact Ho].
Qed.

Theorem group_progress stream cap0 ops o j : (o = OPollFresh \/ o = OPollSame) -> let w := group_run stream cap0 ops in
  finished _ w = false -> dropped _ w = false -> j < N _ g_slots w -> aw _ g_awaited w j = true -> (fired _ w j = true \/ polled _ w j = false) ->
  exists pid u, tr _ (group_run stream cap0 (ops ++ [o])) = tr _ w ++ EB pid :: u /\ (subpolled j u \/ (exists r, In (EEndR r) u) \/ In EEndX u).
Proof.
  intros Ho. unfold group_run, run_ops. rewrite run_snoc.
  apply (sibling_progress gst g_slots g_awaited g_member g_handle false false g_order g_pre_exit (fun _ => true) g_finish g_cleanup g_drop
           (fun _ => false) g_Q G1 G2 G3 G4 G5 G6 G7 G8 G9 G10 G11 G12 G13 G14 G15 G16 G17
           (fun _ => eq_refl) (fun _ _ _ => eq_refl) Q_cleanup g_mutate g_mutate_inv); [apply group_init|exact Ho].
Qed.
Print Assumptions join_progress. Print Assumptions merge_progress. Print Assumptions zip_progress. Print Assumptions group_progress.
