From Coq Require Import List Arith Lia Bool.
Import ListNotations.
Require Import CoStream.

(* Invariants of the acceptor = the theorems-to-be of C13-C15 (every accepted event list satisfies them). *)
Definition reach (c: cfg) (s: st) := exists es k, run c (init c) es k = (s, None).
Lemma run_app c s es k : forall s', run c s es k = (s', None) -> forall e s'', step c s' e = Some s'' -> run c s (es ++ [e]) k = (s'', None).
Proof.
  revert s k. induction es as [|x es IH]; intros s k s' H e s'' He; cbn in *.
  - inversion H; subst. rewrite He. reflexivity.
  - destruct (step c s x) as [s1|]; [|discriminate]. eapply IH; eauto.
Qed.

(* an invariant holds in every reachable state if it holds initially and every accepted step preserves it *)
Lemma inv_reach c (I: st -> Prop) : (forall s e s', I s -> step c s e = Some s' -> I s') ->
  forall es s k s0, I s0 -> run c s0 es k = (s, None) -> I s.
Proof.
  intros Hs es. induction es as [|e es IH]; intros s k s0 HI Hr; cbn in Hr.
  - inversion Hr; subst; auto.
  - destruct (step c s0 e) as [s1|] eqn:E; [|discriminate]. apply (IH s (S k) s1); [eapply Hs; eauto | exact Hr].
Qed.

(* ---- C13: with a concurrency limit l, never more than l items are in flight ---- *)
Definition limited (c: cfg) (l: nat) := c_lim c = Some l /\ has_term c = true.
Lemma count_app s x : count (set_works s (works s ++ [x])) = count s + (if live x then 1 else 0).
Proof. unfold count; cbn. rewrite filter_app, app_length. cbn. destruct (live x); cbn; lia. Qed.
Definition cnt (w: list (nat * wst)) := length (filter live w).
Lemma cnt_setw_le j x w y : find j w = Some y -> live (j, y) = true -> cnt (setw j x w) <= cnt w.
Proof.
  unfold cnt. induction w as [|[k z] r IH]; cbn [find setw]; [discriminate|].
  destruct (k =? j) eqn:E.
  - intros H Hl. inversion H; subst z. cbn [filter].
    replace (live (k, y)) with true by (unfold live in *; cbn in *; congruence).
    destruct (live (k, x)); cbn [length]; lia.
  - intros H Hl. specialize (IH H Hl). cbn [filter]. destruct (live (k, z)); cbn [length]; lia.
Qed.
Lemma cnt_remw_le j w : cnt (remw j w) <= cnt w.
Proof.
  unfold cnt, remw. induction w as [|[k y] r IH]; cbn [filter fst]; auto.
  destruct (negb (k =? j)); cbn [filter]; destruct (live (k, y)); cbn [length]; lia.
Qed.
Lemma cnt_app w x : cnt (w ++ [x]) = cnt w + (if live x then 1 else 0).
Proof. unfold cnt. rewrite filter_app, app_length. cbn. destruct (live x); cbn; lia. Qed.

Definition CInv (c: cfg) (l: nat) (s: st) := cnt (works s) <= l.

Lemma works_push c s j : works (push c s j) = works s ++ [(j, WQueued)].
Proof. unfold push. destruct (c_take c) as [n|]; [destruct (n <=? _)|]; reflexivity. Qed.
Lemma push_cnt c s j : cnt (works (push c s j)) = cnt (works s) + 1.
Proof. rewrite works_push, cnt_app. reflexivity. Qed.
Lemma limit_ok_lt c l s : limited c l -> limit_ok c s = true -> cnt (works s) < l.
Proof.
  intros [Hl Ht] H. unfold limit_ok in H. unfold has_term in Ht. rewrite Hl in H. destruct (c_term c); try discriminate; apply Nat.ltb_lt in H; exact H.
Qed.

Theorem C13_limit_step c l s e s' : limited c l -> CInv c l s -> step c s e = Some s' -> CInv c l s'.
Proof.
  intros HL HI Hs. unfold CInv in *.
  destruct e as [[j|]|stage j idx|stage j err|stage j|j|r|]; cbn [step] in Hs.
  - (* source item *)
    destruct (ph s); try discriminate.
    destruct (src_done s || negb (j =? taken s)); [discriminate|].
    match type of Hs with context[limit_ok c ?S1] => set (s1 := S1) in * end.
    destruct (limit_ok c s1) eqn:El; inversion Hs; subst.
    + rewrite push_cnt. pose proof (limit_ok_lt c l s1 HL El) as X. lia.
    + cbn. exact HI.
  - destruct (ph s); try discriminate; destruct (src_done s); try discriminate; inversion Hs; subst; cbn [works set_works upd_st set_ph]; exact HI.
  - (* closure call: a live item stays live *)
    destruct (ph s); try discriminate.
    all: destruct (negb _); [discriminate|].
    all: destruct (find j (works s)) as [y|] eqn:Ef; [|discriminate].
    all: destruct y, stage as [|[|?]]; try discriminate.
    all: repeat match type of Hs with (if ?b then _ else _) = _ => destruct b; try discriminate end.
    all: inversion Hs; subst; cbn [works set_works upd_st set_ph]; (eapply Nat.le_trans; [eapply cnt_setw_le; [exact Ef | reflexivity]|]); auto.
  - (* completion *)
    destruct (ph s) eqn:Eph; try discriminate.
    all: destruct (find j (works s)) as [y|] eqn:Ef; [|discriminate].
    all: destruct y, stage as [|[|?]]; try discriminate.
    all: try (destruct (has_term c); repeat match type of Hs with (match ?b with _ => _ end) = _ => destruct b; try discriminate end;
              inversion Hs; subst; cbn [works set_works upd_st set_ph]; (eapply Nat.le_trans; [eapply cnt_setw_le; [exact Ef | reflexivity]|]); auto; fail).
    all: destruct (tfe_blocked c s) eqn:Etb; [discriminate|].
    all: match type of Hs with context[match ph ?S2 with _ => _ end] => set (s2 := S2) in * end.
    all: assert (Hw2 : cnt (works s2) <= l)
           by (assert (E2 : works s2 = setw j WDone (works s)) by (unfold s2; destruct err; [destruct (c_term c); try reflexivity; destruct (residual _); reflexivity|reflexivity]);
               rewrite E2; (eapply Nat.le_trans; [eapply cnt_setw_le; [exact Ef | reflexivity]|]); auto).
    all: destruct (ph s2); try (inversion Hs; subst; exact Hw2).
    all: destruct (limit_ok c s2) eqn:El; inversion Hs; subst; [rewrite push_cnt; pose proof (limit_ok_lt c l s2 HL El); lia | exact Hw2].
  - (* in-flight work dropped *)
    destruct (ph s); try discriminate.
    all: try (destruct (residual s); try discriminate).
    all: destruct (find j (works s)) as [y|]; try discriminate; destruct y, stage as [|[|?]]; try discriminate.
    all: inversion Hs; subst; cbn [works set_works upd_st set_ph]; (eapply Nat.le_trans; [apply cnt_remw_le|]); auto.
  - (* item dropped *)
    destruct (ph s); try discriminate.
    all: try (destruct (residual s); try discriminate).
    all: destruct (find j (works s)) as [y|]; [destruct y|]; try discriminate.
    all: try (inversion Hs; subst; cbn [works set_works upd_st set_ph]; try (eapply Nat.le_trans; [apply cnt_remw_le|]); auto; fail).
    all: destruct (c_term c); try discriminate; inversion Hs; subst; cbn [works set_works upd_st set_ph]; (eapply Nat.le_trans; [apply cnt_remw_le|]); auto.
  - destruct (ph s); try discriminate.
    destruct (c_term c), r; try discriminate.
    all: repeat match type of Hs with context[match ?x with _ => _ end] => destruct x; try discriminate end.
    all: inversion Hs; subst; cbn [works set_works upd_st set_ph]; exact HI.
  - destruct (ph s); inversion Hs; subst; cbn [works set_works upd_st set_ph]; exact HI.
Qed.

(* every accepted trace keeps the number of in-flight items within the limit *)
Theorem C13_limit c l es s k : limited c l -> 1 <= l -> run c (init c) es k = (s, None) -> cnt (works s) <= l.
Proof.
  intros HL Hl Hr. eapply (inv_reach c (CInv c l)); eauto.
  - intros; eapply C13_limit_step; eauto.
  - unfold CInv, init. destruct (c_take c) as [[|t]|]; cbn; lia.
Qed.

(* ---- C14: once an error has been observed the consumer has left the running phase for good, so no further
        source item is ever accepted; and a returned error is one that some closure future actually produced ---- *)
Definition not_running (s: st) := match ph s with PRun | PBack _ => False | _ => True end.
Definition EInv (s: st) := residual s <> None -> not_running s.
Lemma push_residual c s j : residual (push c s j) = residual s.
Proof. unfold push. destruct (c_take c) as [n|]; [destruct (n <=? _)|]; reflexivity. Qed.

Theorem C14_stop_step c s e s' : EInv s -> step c s e = Some s' -> EInv s'.
Proof.
  intros HI Hs. unfold EInv, not_running in *.
  destruct e as [[j|]|stage j idx|stage j err|stage j|j|r|]; cbn [step] in Hs.
  - destruct (ph s) eqn:Eph; try discriminate.
    destruct (src_done s || negb (j =? taken s)); [discriminate|].
    match type of Hs with context[limit_ok c ?S1] => set (s1 := S1) in * end.
    assert (Hr : residual s = None) by (destruct (residual s) eqn:Er; auto; exfalso; apply HI; congruence).
    destruct (limit_ok c s1); inversion Hs; subst; [rewrite push_residual|]; cbn; congruence.
  - destruct (ph s) eqn:Eph; try discriminate. destruct (src_done s); inversion Hs; subst; cbn; auto.
  - destruct (ph s) eqn:Eph; try discriminate.
    all: destruct (negb _); [discriminate|].
    all: destruct (find j (works s)) as [y|]; [|discriminate].
    all: destruct y, stage as [|[|?]]; try discriminate.
    all: repeat match type of Hs with (if ?b then _ else _) = _ => destruct b; try discriminate end.
    all: inversion Hs; subst; cbn [ph residual upd_st]; (try rewrite Eph in HI); rewrite ?Eph; exact HI.
  - destruct (ph s) eqn:Eph; try discriminate.
    all: destruct (find j (works s)) as [y|]; [|discriminate].
    all: destruct y, stage as [|[|?]]; try discriminate.
    all: try (destruct (has_term c); repeat match type of Hs with (match ?b with _ => _ end) = _ => destruct b eqn:?; try discriminate end;
              inversion Hs; subst; cbn [ph residual upd_st set_works]; (try rewrite Eph in HI); rewrite ?Eph; first [exact HI|intros _; exact I|intros X; congruence]; fail).
    all: destruct (tfe_blocked c s) eqn:Etb; [discriminate|].
    all: match type of Hs with context[match ph ?S2 with _ => _ end] => set (s2 := S2) in * end.
    all: assert (H2 : residual s2 <> None -> match ph s2 with PRun | PBack _ => False | _ => True end).
    all: try (unfold s2; destruct err as [e|]; [destruct (c_term c)|]; cbn [ph residual upd_st set_works];
              try ((try rewrite Eph in HI); rewrite ?Eph; exact HI);
              destruct (residual s) eqn:Er; cbn [ph residual upd_st set_works]; rewrite ?Eph; auto; (try rewrite Eph in HI); intros _; apply HI; congruence).
    all: destruct (ph s2) eqn:E2; try (inversion Hs; subst; rewrite E2; exact H2).
    all: destruct (limit_ok c s2); inversion Hs; subst; [|rewrite E2; exact H2].
    all: rewrite push_residual; intros Hr; exfalso; apply (H2 Hr).
  - destruct (ph s) eqn:Eph; try discriminate.
    all: try (destruct (residual s) eqn:Er; try discriminate).
    all: destruct (find j (works s)) as [y|]; try discriminate; destruct y, stage as [|[|?]]; try discriminate.
    all: inversion Hs; subst; cbn [ph residual set_works upd_st]; rewrite ?Eph; auto.
  - destruct (ph s) eqn:Eph; try discriminate.
    all: try (destruct (residual s) eqn:Er; try discriminate).
    all: destruct (find j (works s)) as [y|]; [destruct y|]; try discriminate.
    all: try (inversion Hs; subst; cbn [ph residual set_works upd_st]; rewrite ?Eph in *; auto; fail).
    all: destruct (c_term c); try discriminate; inversion Hs; subst; cbn [ph residual set_works upd_st]; rewrite ?Eph; auto.
  - destruct (ph s) eqn:Eph; try discriminate.
    destruct (c_term c), r; try discriminate.
    all: repeat match type of Hs with context[match ?x with _ => _ end] => destruct x; try discriminate end.
    all: inversion Hs; subst; cbn [ph residual set_ph upd_st]; auto.
  - destruct (ph s) eqn:Eph; inversion Hs; subst; cbn [ph residual set_ph upd_st]; rewrite ?Eph; auto.
Qed.

Theorem C14_stop c es s k j : run c (init c) es k = (s, None) -> residual s <> None -> step c s (ESrc (Some j)) = None.
Proof.
  intros Hr Hres.
  assert (HI : EInv s).
  { eapply (inv_reach c EInv); eauto; [intros; eapply C14_stop_step; eauto | intros H; unfold init in H; destruct (c_take c) as [[|t]|]; cbn in H; congruence]. }
  specialize (HI Hres). unfold not_running in HI. cbn [step]. destruct (ph s); try reflexivity; contradiction.
Qed.

(* ---- C13_structured / C14_ok_iff (result half): a result is only accepted when nothing is in flight (or an error decided the outcome) ---- *)
Theorem C13_structured c s r s' : step c s (EResult r) = Some s' ->
  match c_term c, r with
  | TForEach, _ => r = RUnit /\ filter live (works s) = []
  | TTryForEach, ROkUnit => residual s = None /\ filter live (works s) = []
  | TTryForEach, RErrV e => residual s = Some e
  | TTryForEach, _ => False
  | TCollect, RVec items => length items = length (works s)
  | TCollect, _ => False
  | TCollectRes, RVec items => residual s = None /\ length items = length (works s)
  | TCollectRes, RErrV e => residual s = Some e
  | TCollectRes, _ => False
  end.
Proof.
  cbn [step]. destruct (ph s); try discriminate. destruct (c_term c), r; try discriminate.
  - destruct (length (filter live (works s)) =? 0) eqn:E; [|discriminate]. intros _. apply Nat.eqb_eq in E. split; auto. destruct (filter live (works s)); [auto|discriminate].
  - destruct (residual s); [discriminate|]. destruct (length (filter live (works s)) =? 0) eqn:E; [|discriminate]. intros _. apply Nat.eqb_eq in E.
    split; auto. destruct (filter live (works s)); [auto|discriminate].
  - destruct (residual s) as [e'|]; [|discriminate]. destruct (Nat.eqb_spec e e'); [|discriminate]. intros _. congruence.
  - destruct (_ && _) eqn:E; [|discriminate]. intros _. apply andb_true_iff in E as [E _]. apply andb_true_iff in E as [E _]. apply Nat.eqb_eq in E.
    rewrite map_length in E. exact E.
  - destruct (residual s) as [e'|]; [|discriminate]. destruct (Nat.eqb_spec e e'); [|discriminate]. intros _. congruence.
  - destruct (residual s); [discriminate|]. destruct (_ && _) eqn:E; [|discriminate]. intros _. apply andb_true_iff in E as [E _]. apply andb_true_iff in E as [E _].
    apply Nat.eqb_eq in E. rewrite map_length in E. split; [reflexivity|exact E].
Qed.

(* ---- C14_err_genuine: the error that is reported was delivered by some terminal closure ---- *)
Definition errs_seen (es: list event) : list nat := flat_map (fun e => match e with EDone _ _ (Some x) => [x] | _ => [] end) es.
Lemma residual_step c s x s1 e : step c s x = Some s1 -> residual s1 = Some e -> residual s = Some e \/ exists stg j, x = EDone stg j (Some e).
Proof.
  intros H Hr.
  assert (Hp : forall s0 j, residual (push c s0 j) = residual s0) by (intros; apply push_residual).
  destruct x as [[j|]|stage j idx|stage j err|stage j|j|r|]; cbn [step] in H.
  - destruct (ph s); try discriminate. destruct (_ || _); [discriminate|]. destruct (limit_ok c _); inversion H; subst; [rewrite Hp in Hr|]; cbn in Hr; auto.
  - destruct (ph s); try discriminate. destruct (src_done s); inversion H; subst; cbn in Hr; auto.
  - destruct (ph s); try discriminate; destruct (negb _); try discriminate;
      destruct (find j (works s)) as [[| | | |]|]; try discriminate; destruct stage as [|[|?]]; try discriminate;
      repeat match type of H with (if ?b then _ else _) = _ => destruct b; try discriminate end; inversion H; subst; cbn in Hr; auto.
  - destruct (ph s) eqn:Eph; try discriminate;
      destruct (find j (works s)) as [[| | | |]|]; try discriminate; destruct stage as [|[|?]]; try discriminate;
      try (destruct (has_term c); repeat match type of H with (match ?b with _ => _ end) = _ => destruct b eqn:?; try discriminate end;
           inversion H; subst; cbn in Hr; auto; try (left; congruence); try (right; eexists; eexists; f_equal; congruence); fail);
      cbn [set_works upd_st ph residual] in H;
      destruct err as [e0|]; destruct (c_term c) eqn:Et; cbn [residual set_works upd_st] in H;
      try destruct (residual s) eqn:Er; cbn [ph upd_st set_works] in H; rewrite ?Eph in H;
      repeat match type of H with (if ?b then _ else _) = _ => destruct b end; inversion H; subst; rewrite ?Hp in Hr; cbn in Hr; rewrite ?Er in Hr;
      try (left; assumption); try (left; congruence); try (right; eexists; eexists; f_equal; f_equal; congruence); auto.
  - destruct (ph s); try discriminate; destruct (residual s) eqn:Er; try discriminate;
      destruct (find j (works s)) as [[| | | |]|]; try discriminate; destruct stage as [|[|?]]; try discriminate; inversion H; subst; cbn in Hr; auto; try (left; congruence); try (exfalso; congruence).
  - destruct (ph s); try discriminate; try (destruct (residual s) eqn:Er; try discriminate); destruct (find j (works s)) as [[| | | |]|]; try discriminate;
      try (inversion H; subst; cbn in Hr; auto; try (left; congruence); fail); destruct (c_term c); try discriminate; inversion H; subst; cbn in Hr; auto; try (left; congruence).
  - destruct (ph s); try discriminate. destruct (c_term c), r; try discriminate;
      repeat match type of H with (match ?b with _ => _ end) = _ => destruct b eqn:?; try discriminate end; inversion H; subst; cbn in Hr; auto;
      try (left; congruence); try (exfalso; congruence).
  - destruct (ph s); inversion H; subst; cbn in Hr; auto.
Qed.

Theorem C14_err_seen c es : forall s0 s k e seen, (residual s0 = Some e -> In e seen) -> run c s0 es k = (s, None) ->
  residual s = Some e -> In e (seen ++ errs_seen es).
Proof.
  induction es as [|x es IH]; intros s0 s k e seen H0 Hr He; cbn in Hr.
  - inversion Hr; subst. rewrite app_nil_r. auto.
  - destruct (step c s0 x) as [s1|] eqn:Es; [|discriminate].
    assert (H1 : residual s1 = Some e -> In e (seen ++ errs_seen [x])).
    { intros E1. destruct (residual_step c s0 x s1 e Es E1) as [E0|(stg & j & ->)]; [apply in_or_app; left; auto|apply in_or_app; right; cbn; auto]. }
    specialize (IH s1 s (S k) e (seen ++ errs_seen [x]) H1 Hr He). rewrite <- app_assoc in IH. replace (x :: es) with ([x] ++ es) by reflexivity. unfold errs_seen in *. rewrite flat_map_app. exact IH.
Qed.
(* the error a fallible driver reports is one that a terminal closure actually returned *)
Theorem C14_err_genuine c es s k e s' : run c (init c) es k = (s, None) -> step c s (EResult (RErrV e)) = Some s' -> (c_term c = TTryForEach \/ c_term c = TCollectRes) ->
  exists stg j, In (EDone stg j (Some e)) es.
Proof.
  intros Hr Hs Ht. pose proof (C13_structured c s (RErrV e) s' Hs) as X.
  assert (X' : residual s = Some e) by (destruct Ht as [Ht|Ht]; rewrite Ht in X; exact X).
  assert (H0 : residual (init c) = Some e -> In e []) by (unfold init; destruct (c_take c) as [[|t]|]; cbn; discriminate).
  pose proof (C14_err_seen c es (init c) s k e [] H0 Hr X') as Hin. cbn in Hin.
  unfold errs_seen in Hin. apply in_flat_map in Hin as (x & Hx & Hin). destruct x; try contradiction.
  destruct err; [|contradiction]. destruct Hin as [->|[]]. eauto.
Qed.

(* ---- C15 ---- *)
(* enumerate: a closure that sees an index sees the position of its item in the source (items are numbered by ESrc acceptance) *)
Theorem C15_enumerate c s stage j i s' : step c s (ECall stage j (Some i)) = Some s' -> has_enum c = true /\ i = j.
Proof.
  cbn [step]. destruct (ph s); try discriminate;
    (destruct (has_enum c && (i =? j)) eqn:E; cbn [negb]; [|discriminate]; intros _; apply andb_true_iff in E as [A B]; apply Nat.eqb_eq in B; auto).
Qed.
Theorem C15_source_numbering c s j s' : step c s (ESrc (Some j)) = Some s' -> j = taken s /\ taken s' = S (taken s).
Proof.
  cbn [step]. destruct (ph s); try discriminate. destruct (src_done s); [discriminate|]. cbn [orb].
  destruct (Nat.eqb_spec j (taken s)); cbn [negb]; [|discriminate]. destruct (limit_ok c _); intros H; inversion H; subst; split; auto.
  unfold push. cbn. destruct (c_take c) as [n|]; [destruct (n <=? _)|]; reflexivity.
Qed.
(* collect: the vector that is returned contains every item that was pushed, and has as many entries *)
Theorem C15_collect c s items s' : c_term c = TCollect -> step c s (EResult (RVec items)) = Some s' ->
  length items = length (works s) /\ forall j, In j (map fst (works s)) -> In j items.
Proof.
  intros Ht. cbn [step]. destruct (ph s); try discriminate. rewrite Ht.
  destruct (_ && _) eqn:E; [|discriminate]. intros _. apply andb_true_iff in E as [E _]. apply andb_true_iff in E as [E1 E2].
  apply Nat.eqb_eq in E1. rewrite map_length in E1. split; [exact E1|].
  intros j Hj. rewrite forallb_forall in E2. specialize (E2 j Hj). apply existsb_exists in E2 as (k & Hk & Ek). apply Nat.eqb_eq in Ek. subst. exact Hk.
Qed.

(* ---- C13_once (at-most-once half): no closure is ever invoked twice for the same item ---- *)
Definition keys (w: list (nat * wst)) := map fst w.
Lemma find_none_notin j w : find j w = None <-> ~ In j (keys w).
Proof.
  induction w as [|[k x] r IH]; cbn; [tauto|]. destruct (Nat.eqb_spec k j) as [->|Hne]; [split; [discriminate|intros H; exfalso; apply H; auto]|].
  rewrite IH. split; [intros H [X|X]; [congruence|auto]|intros H X; apply H; auto].
Qed.
Lemma find_some_in j w x : find j w = Some x -> In j (keys w).
Proof. intros H. destruct (in_dec Nat.eq_dec j (keys w)); auto. apply find_none_notin in n. congruence. Qed.
Lemma keys_setw j x w : keys (setw j x w) = keys w.
Proof. induction w as [|[k y] r IH]; cbn; auto. destruct (k =? j); cbn; [reflexivity|f_equal; exact IH]. Qed.
Lemma find_setw_same j x w : In j (keys w) -> find j (setw j x w) = Some x.
Proof.
  induction w as [|[k y] r IH]; cbn; [intros []|]. destruct (Nat.eqb_spec k j) as [->|Hne]; cbn.
  - rewrite Nat.eqb_refl. reflexivity.
  - intros [X|X]; [congruence|]. destruct (Nat.eqb_spec k j); [congruence|]. auto.
Qed.
Lemma find_setw_other j i x w : i <> j -> find i (setw j x w) = find i w.
Proof.
  intros Hne. induction w as [|[k y] r IH]; cbn; auto. destruct (Nat.eqb_spec k j) as [->|Hkj]; cbn.
  - destruct (Nat.eqb_spec j i); [congruence|reflexivity].
  - destruct (k =? i); auto.
Qed.
Lemma find_remw j i w : find i (remw j w) = if i =? j then None else find i w.
Proof.
  unfold remw. induction w as [|[k y] r IH]; cbn [filter fst find]; [destruct (i =? j); reflexivity|].
  destruct (Nat.eqb_spec k j) as [->|Hkj]; cbn [negb].
  - rewrite IH. destruct (Nat.eqb_spec i j) as [->|Hij]; [reflexivity|]. destruct (Nat.eqb_spec j i); [congruence|reflexivity].
  - cbn [find]. rewrite IH. destruct (Nat.eqb_spec k i) as [->|Hki]; [destruct (Nat.eqb_spec i j); [congruence|reflexivity]|reflexivity].
Qed.
Lemma find_app_fresh i w j x : ~ In j (keys w) -> find i (w ++ [(j, x)]) = if i =? j then Some x else find i w.
Proof.
  intros Hn. induction w as [|[k y] r IH]; cbn.
  - destruct (Nat.eqb_spec j i) as [->|H]; [rewrite Nat.eqb_refl; reflexivity|]. destruct (Nat.eqb_spec i j); [congruence|reflexivity].
  - destruct (Nat.eqb_spec k i) as [->|Hki].
    + destruct (Nat.eqb_spec i j) as [->|H]; [exfalso; apply Hn; cbn; auto|reflexivity].
    + apply IH. intros X. apply Hn. cbn. auto.
Qed.

(* never called yet for the stages still ahead of the item *)
Definition fresh_for (s: st) (j: nat) (x: wst) : Prop :=
  match x with
  | WQueued => ~ In (0, j) (calls s) /\ ~ In (1, j) (calls s)
  | WMap | WMapped => ~ In (1, j) (calls s)
  | _ => True
  end.
Definition OInv (s: st) : Prop :=
  NoDup (calls s) /\
  (forall j x, find j (works s) = Some x -> j < taken s /\ fresh_for s j x) /\
  (forall stg j, In (stg, j) (calls s) -> j < taken s) /\
  (forall j, ph s = PBack j -> j < taken s /\ find j (works s) = None /\ ~ In (0, j) (calls s) /\ ~ In (1, j) (calls s)).

Definition no_back (s: st) := forall j, ph s <> PBack j.
Lemma fresh_for_calls s s' j x : calls s' = calls s -> fresh_for s j x -> fresh_for s' j x.
Proof. intros E H. unfold fresh_for in *. rewrite E. exact H. Qed.

(* the state of one item advances; nothing is called *)
Lemma H_setw s s' j x0 x : OInv s -> find j (works s) = Some x0 -> works s' = setw j x (works s) -> calls s' = calls s -> taken s' = taken s ->
  (ph s' = ph s \/ no_back s') -> (fresh_for s j x0 -> fresh_for s j x) -> OInv s'.
Proof.
  intros (A & B & C & D) Hf Hw Hc Ht Hp Hfr. pose proof (find_some_in _ _ _ Hf) as Hin.
  split; [rewrite Hc; exact A|]. split; [|split].
  - intros i y Hi. rewrite Hw in Hi. rewrite Ht. destruct (Nat.eq_dec i j) as [->|Hne].
    + rewrite find_setw_same in Hi by auto. inversion Hi; subst y. destruct (B j x0 Hf) as [B1 B2]. split; [exact B1|].
      apply (fresh_for_calls s); auto.
    + rewrite find_setw_other in Hi by auto. destruct (B i y Hi) as [B1 B2]. split; [exact B1|apply (fresh_for_calls s); auto].
  - intros stg i Hi. rewrite Hc in Hi. rewrite Ht. eauto.
  - intros j' Hj'. destruct Hp as [Hp|Hp]; [|exfalso; eapply Hp; eauto]. rewrite Hp in Hj'. destruct (D j' Hj') as (D1 & D2 & D3 & D4).
    rewrite Ht, Hw, Hc. split; [exact D1|]. split; [|auto]. destruct (Nat.eq_dec j' j) as [->|Hne]; [congruence|]. rewrite find_setw_other; auto.
Qed.
(* a closure of stage stg is invoked for item j *)
Lemma H_call s s' stg j x0 x : OInv s -> find j (works s) = Some x0 -> works s' = setw j x (works s) -> calls s' = (stg, j) :: calls s ->
  taken s' = taken s -> ph s' = ph s -> ~ In (stg, j) (calls s) ->
  (match x with WMap => stg = 0 /\ ~ In (1, j) (calls s) | WTerm => True | _ => False end) -> OInv s'.
Proof.
  intros (A & B & C & D) Hf Hw Hc Ht Hp Hnin Hx. pose proof (find_some_in _ _ _ Hf) as Hin. destruct (B j x0 Hf) as [Bj _].
  split; [rewrite Hc; constructor; auto|]. split; [|split].
  - intros i y Hi. rewrite Hw in Hi. rewrite Ht. destruct (Nat.eq_dec i j) as [->|Hne].
    + rewrite find_setw_same in Hi by auto. inversion Hi; subst y. split; [exact Bj|]. unfold fresh_for. rewrite Hc.
      destruct x; try contradiction; auto. destruct Hx as [-> Hx]. intros [X|X]; [discriminate|auto].
    + rewrite find_setw_other in Hi by auto. destruct (B i y Hi) as [B1 B2]. split; [exact B1|]. unfold fresh_for in *. rewrite Hc.
      destruct y; auto; cbn [In]; [destruct B2 as [P1 P2]; split; intros [X|X]; try (inversion X; congruence); auto| |];
        intros [X|X]; try (inversion X; congruence); auto.
  - intros st0 i Hi. rewrite Hc in Hi. rewrite Ht. destruct Hi as [X|X]; [inversion X; subst; exact Bj|eauto].
  - intros j' Hj'. rewrite Hp in Hj'. destruct (D j' Hj') as (D1 & D2 & D3 & D4). rewrite Ht, Hw, Hc.
    assert (Hne : j' <> j) by congruence.
    split; [exact D1|]. split; [rewrite find_setw_other; auto|]. split; intros [X|X]; try (inversion X; congruence); auto.
Qed.
(* an item is forgotten *)
Lemma H_rem s s' j : OInv s -> works s' = remw j (works s) -> calls s' = calls s -> taken s' = taken s -> ph s' = ph s -> OInv s'.
Proof.
  intros (A & B & C & D) Hw Hc Ht Hp. split; [rewrite Hc; exact A|]. split; [|split].
  - intros i y Hi. rewrite Hw, find_remw in Hi. destruct (i =? j); [discriminate|]. destruct (B i y Hi). rewrite Ht. split; auto. apply (fresh_for_calls s); auto.
  - intros stg i Hi. rewrite Hc in Hi. rewrite Ht. eauto.
  - intros j' Hj'. rewrite Hp in Hj'. destruct (D j' Hj') as (D1 & D2 & D3 & D4). rewrite Ht, Hw, Hc, find_remw. destruct (j' =? j); auto.
Qed.
(* nothing about items changes *)
Lemma H_same s s' : OInv s -> works s' = works s -> calls s' = calls s -> taken s' = taken s -> (ph s' = ph s \/ no_back s') -> OInv s'.
Proof.
  intros (A & B & C & D) Hw Hc Ht Hp. split; [rewrite Hc; exact A|]. split; [|split].
  - intros i y Hi. rewrite Hw in Hi. destruct (B i y Hi). rewrite Ht. split; auto. apply (fresh_for_calls s); auto.
  - intros stg i Hi. rewrite Hc in Hi. rewrite Ht. eauto.
  - intros j' Hj'. destruct Hp as [Hp|Hp]; [|exfalso; eapply Hp; eauto]. rewrite Hp in Hj'. destruct (D j' Hj') as (D1 & D2 & D3 & D4). rewrite Ht, Hw, Hc. auto.
Qed.
(* a fresh item enters the consumer *)
Lemma H_push c s j : NoDup (calls s) ->
  (forall i x, find i (works s) = Some x -> i < taken s /\ fresh_for s i x) -> (forall stg i, In (stg, i) (calls s) -> i < taken s) ->
  j < taken s -> find j (works s) = None -> ~ In (0, j) (calls s) -> ~ In (1, j) (calls s) -> OInv (push c s j).
Proof.
  intros A B C Hj Hf H0 H1.
  assert (Hw : works (push c s j) = works s ++ [(j, WQueued)]) by apply works_push.
  assert (Hc : calls (push c s j) = calls s) by (unfold push; destruct (c_take c) as [n|]; [destruct (n <=? _)|]; reflexivity).
  assert (Ht : taken (push c s j) = taken s) by (unfold push; destruct (c_take c) as [n|]; [destruct (n <=? _)|]; reflexivity).
  assert (Hp : no_back (push c s j)) by (intros j'; unfold push; destruct (c_take c) as [n|]; [destruct (n <=? _)|]; cbn; discriminate).
  split; [rewrite Hc; exact A|]. split; [|split].
  - intros i y Hi. rewrite Hw, find_app_fresh in Hi by (apply find_none_notin; exact Hf). rewrite Ht.
    destruct (Nat.eqb_spec i j) as [->|Hne].
    + inversion Hi; subst y. split; [exact Hj|]. unfold fresh_for. rewrite Hc. auto.
    + destruct (B i y Hi). split; auto. apply (fresh_for_calls s); auto.
  - intros stg i Hi. rewrite Hc in Hi. rewrite Ht. eauto.
  - intros j' Hj'. exfalso. eapply Hp; eauto.
Qed.

Lemma no_back_flush s p : (forall j, p <> PBack j) -> forall sd tk tc w r o b c, no_back (upd_st s p sd tk tc w r o b c).
Proof. intros H sd tk tc w r o b c j. cbn. apply H. Qed.

Theorem C13_once_step c s e s' : OInv s -> step c s e = Some s' -> OInv s'.
Proof.
  intros HI Hs. pose proof HI as (A & B & C & D).
  destruct e as [[j|]|stage j idx|stage j err|stage j|j|r|]; cbn [step] in Hs.
  - (* source item *)
    destruct (ph s) eqn:Eph; try discriminate. destruct (src_done s); [discriminate|]. cbn [orb] in Hs.
    destruct (Nat.eqb_spec j (taken s)) as [->|]; cbn [negb] in Hs; [|discriminate].
    set (s1 := upd_st s PRun false (S (taken s)) (S (tcount s)) (works s) (residual s) (outputs s) (broke s) (calls s)) in *.
    assert (Hfn : find (taken s) (works s) = None).
    { destruct (find (taken s) (works s)) eqn:E; auto. destruct (B _ _ E). lia. }
    assert (Hn0 : forall stg, ~ In (stg, taken s) (calls s)) by (intros stg X; apply C in X; lia).
    destruct (limit_ok c s1); injection Hs as <-.
    + apply H_push; cbn; auto.
      * intros i x Hi. destruct (B i x Hi) as [B1 B2]. split; [lia|exact B2].
      * intros stg i Hi. apply C in Hi. lia.
    + split; [exact A|]. split; [|split].
      * intros i x Hi. cbn in Hi. destruct (B i x Hi). cbn. split; [lia|auto].
      * intros stg i Hi. cbn in Hi. apply C in Hi. cbn. lia.
      * intros j' Hj'. cbn in Hj'. inversion Hj'; subst j'. cbn. split; [lia|]. split; [exact Hfn|]. split; apply Hn0.
  - (* source end *)
    destruct (ph s) eqn:Eph; try discriminate. destruct (src_done s); [discriminate|]. injection Hs as <-.
    apply (H_same s); auto. right. apply no_back_flush. discriminate.
  - (* closure call *)
    destruct (ph s) eqn:Eph; try discriminate;
      (destruct (negb _); [discriminate|]);
      destruct (find j (works s)) as [[| | | |]|] eqn:Ef; try discriminate; destruct stage as [|[|?]]; try discriminate;
      repeat match type of Hs with (if ?b then _ else _) = _ => destruct b; try discriminate end; injection Hs as <-;
      destruct (B j _ Ef) as [_ Hfr]; cbn [fresh_for] in Hfr;
      (eapply (H_call s); [exact HI|exact Ef|reflexivity|reflexivity|reflexivity|cbn; congruence| |]); cbn; tauto.
  - (* closure done *)
    destruct (ph s) eqn:Eph; try discriminate;
      destruct (find j (works s)) as [[| | | |]|] eqn:Ef; try discriminate; destruct stage as [|[|?]]; try discriminate.
    all: try (destruct (has_term c); repeat match type of Hs with (match ?b with _ => _ end) = _ => destruct b eqn:?; try discriminate end; injection Hs as <-;
              (eapply (H_setw s); [exact HI|exact Ef|reflexivity|reflexivity|reflexivity|first [left; cbn; congruence|right; apply no_back_flush; discriminate]|cbn; tauto]); fail).
    (* the terminal closure's future resolved *)
    all: destruct (tfe_blocked c s) eqn:Etb; [discriminate|].
    all: cbv zeta in Hs.
    all: set (s1 := set_works s (setw j WDone (works s))) in *.
    all: assert (I1 : OInv s1) by (eapply (H_setw s); [exact HI|exact Ef|reflexivity|reflexivity|reflexivity|left; reflexivity|cbn; tauto]).
    all: match type of Hs with (match ph ?S2 with _ => _ end) = _ => set (s2 := S2) in * end.
    all: assert (I2 : OInv s2) by (unfold s2; destruct err; destruct (c_term c); try exact I1; destruct (residual s1); try exact I1;
           apply (H_same s1); auto; right; apply no_back_flush; discriminate).
    all: destruct (ph s2) eqn:Eph2; try (injection Hs as <-; exact I2).
    all: destruct (limit_ok c s2); injection Hs as <-; [|exact I2].
    all: destruct I2 as (A2 & B2 & C2 & D2); destruct (D2 _ Eph2) as (P1 & P2 & P3 & P4); apply H_push; auto.
  - (* in-flight work dropped *)
    destruct (ph s) eqn:Eph; try discriminate; destruct (residual s); try discriminate;
      destruct (find j (works s)) as [[| | | |]|]; try discriminate; destruct stage as [|[|?]]; try discriminate; injection Hs as <-;
      (apply (H_rem s _ j); [exact HI|reflexivity|reflexivity|reflexivity|cbn; congruence]).
  - (* item dropped *)
    destruct (ph s) eqn:Eph; try discriminate.
    all: try (destruct (residual s) eqn:Er; try discriminate).
    all: destruct (find j (works s)) as [[| | | |]|]; try discriminate.
    all: try (injection Hs as <-; first [exact HI|apply (H_rem s _ j); [exact HI|reflexivity|reflexivity|reflexivity|cbn; congruence]]; fail).
    all: destruct (c_term c); try discriminate; injection Hs as <-; apply (H_rem s _ j); first [exact HI|reflexivity|cbn; congruence].
  - (* result *)
    destruct (ph s) eqn:Eph; try discriminate. destruct (c_term c), r; try discriminate;
      repeat match type of Hs with (match ?b with _ => _ end) = _ => destruct b; try discriminate end; injection Hs as <-;
      (apply (H_same s); [exact HI|reflexivity|reflexivity|reflexivity|right; intros j'; cbn; discriminate]).
  - (* the operation is dropped *)
    destruct (ph s) eqn:Eph; injection Hs as <-; try exact HI; (apply (H_same s); [exact HI|reflexivity|reflexivity|reflexivity|right; intros j'; cbn; discriminate]).
Qed.

Theorem C13_once c es s k : run c (init c) es k = (s, None) -> NoDup (calls s).
Proof.
  intros H. apply (inv_reach c OInv) with (es := es) (k := k) (s0 := init c) in H.
  - apply H.
  - intros s0 e s1. apply C13_once_step.
  - unfold init; destruct (c_take c) as [[|t]|]; (split; [constructor|]; split; [intros j x Hf; discriminate|]; split; [intros stg j []|intros j Hj; discriminate]).
Qed.

(* ---- C14_cancel: nothing completes, and no closure runs, once the result has been returned or the operation was dropped ---- *)
Theorem C14_cancel c s e s' : step c s e = Some s' -> (ph s = PDone \/ ph s = PDropped) ->
  match e with EDone _ _ _ | ECall _ _ _ | ESrc _ | EResult _ => False | _ => True end.
Proof.
  intros H Hp. destruct e; auto; cbn [step] in H; destruct Hp as [Hp|Hp]; rewrite Hp in H; try discriminate; destruct item; discriminate.
Qed.

(* ---- C14_ok_iff (source half): without `take`, an Ok / unit result means the source was exhausted ---- *)
Definition FInv (c: cfg) (s: st) : Prop :=
  (ph s = PFlush -> src_done s = true \/ broke s = true) /\ (broke s = true -> c_take c <> None \/ residual s <> None).
Lemma push_flush c s j : ph (push c s j) = PFlush -> c_take c <> None /\ broke (push c s j) = true.
Proof. unfold push. destruct (c_take c) as [n|]; [destruct (n <=? _); cbn; intros H; [split; [discriminate|reflexivity]|discriminate]|cbn; discriminate]. Qed.
Lemma push_keeps c s j : src_done (push c s j) = src_done s /\ residual (push c s j) = residual s /\ (broke (push c s j) = true -> broke s = true \/ c_take c <> None).
Proof. unfold push. destruct (c_take c) as [n|]; [destruct (n <=? _)|]; cbn; repeat split; auto; intros _; right; discriminate. Qed.
Theorem FInv_step c s e s' : FInv c s -> step c s e = Some s' -> FInv c s'.
Proof.
  intros [F1 F2] H.
  assert (Hpush : forall s0 j, (broke s0 = true -> c_take c <> None \/ residual s0 <> None) -> FInv c (push c s0 j)).
  { intros s0 j H0. destruct (push_keeps c s0 j) as (A & B & C). split.
    - intros E. right. apply (push_flush c s0 j E).
    - intros E. rewrite B. destruct (C E) as [X|X]; auto. }
  destruct e as [[j|]|stage j idx|stage j err|stage j|j|r|]; cbn [step] in H.
  - destruct (ph s) eqn:Eph; try discriminate. destruct (_ || _); [discriminate|]. destruct (limit_ok c _); injection H as <-.
    + apply Hpush. cbn. exact F2.
    + split; cbn; [discriminate|exact F2].
  - destruct (ph s) eqn:Eph; try discriminate. destruct (src_done s); [discriminate|]. injection H as <-. split; cbn; auto.
  - destruct (ph s) eqn:Eph; try discriminate; (destruct (negb _); [discriminate|]);
      destruct (find j (works s)) as [[| | | |]|]; try discriminate; destruct stage as [|[|?]]; try discriminate;
      repeat match type of H with (if ?b then _ else _) = _ => destruct b; try discriminate end; injection H as <-; split; cbn; rewrite ?Eph; auto; try discriminate.
  - destruct (ph s) eqn:Eph; try discriminate;
      destruct (find j (works s)) as [[| | | |]|] eqn:Ef; try discriminate; destruct stage as [|[|?]]; try discriminate.
    all: try (destruct (has_term c); repeat match type of H with (match ?b with _ => _ end) = _ => destruct b eqn:?; try discriminate end; injection H as <-;
              split; cbn; rewrite ?Eph; auto; try discriminate; try (intros _; right; discriminate); fail).
    all: destruct (tfe_blocked c s) eqn:Etb; [discriminate|].
    all: cbv zeta in H.
    all: set (s1 := set_works s (setw j WDone (works s))) in *.
    all: assert (I1 : FInv c s1) by (split; cbn; rewrite ?Eph; auto; try discriminate).
    all: match type of H with (match ph ?S2 with _ => _ end) = _ => set (s2 := S2) in * end.
    all: assert (I2 : FInv c s2) by (unfold s2; destruct err; destruct (c_term c); try exact I1; destruct (residual s1) eqn:Er; try exact I1;
           split; cbn; [intros _; right; reflexivity|intros _; right; discriminate]).
    all: destruct (ph s2) eqn:Eph2; try (injection H as <-; exact I2).
    all: destruct (limit_ok c s2); injection H as <-; [|exact I2].
    all: apply Hpush; apply I2.
  - destruct (ph s) eqn:Eph; try discriminate; destruct (residual s) eqn:Er; try discriminate;
      destruct (find j (works s)) as [[| | | |]|]; try discriminate; destruct stage as [|[|?]]; try discriminate; injection H as <-;
      split; cbn; rewrite ?Eph, ?Er; auto; try discriminate.
  - destruct (ph s) eqn:Eph; try discriminate.
    all: try (destruct (residual s) eqn:Er; try discriminate).
    all: destruct (find j (works s)) as [[| | | |]|]; try discriminate.
    all: try (injection H as <-; split; cbn; rewrite ?Eph, ?Er; auto; try discriminate; try (intros _; right; discriminate); fail).
    all: destruct (c_term c); try discriminate; injection H as <-; split; cbn; rewrite ?Eph, ?Er; auto; try discriminate; try (intros _; right; discriminate).
  - destruct (ph s) eqn:Eph; try discriminate. destruct (c_term c), r; try discriminate;
      repeat match type of H with (match ?b with _ => _ end) = _ => destruct b eqn:?; try discriminate end; injection H as <-; split; cbn; try exact F2; try discriminate; auto;
      try (match goal with E: residual s = _ |- _ => rewrite E end; exact F2).
  - destruct (ph s) eqn:Eph; injection H as <-; split; cbn; rewrite ?Eph; auto; discriminate.
Qed.
Theorem C14_ok_source c es s k s' : run c (init c) es k = (s, None) -> c_take c = None -> c_term c = TTryForEach ->
  step c s (EResult ROkUnit) = Some s' -> src_done s = true.
Proof.
  intros Hr Ht Hterm Hs.
  assert (HI : FInv c s).
  { apply (inv_reach c (FInv c)) with (es := es) (k := k) (s0 := init c); auto; [intros; eapply FInv_step; eauto|].
    unfold init. rewrite Ht. split; cbn; discriminate. }
  pose proof (C13_structured c s ROkUnit s' Hs) as X. rewrite Hterm in X. destruct X as [Xr _].
  cbn [step] in Hs. destruct (ph s) eqn:Eph; try discriminate. destruct HI as [F1 F2]. destruct (F1 Eph) as [A|B]; auto.
  destruct (F2 B) as [Y|Y]; congruence.
Qed.

(* the same for collect::<Result<Vec<_>, E>>(): an Ok vector means the source was exhausted (no `take`) and no error was stored *)
Theorem C14_ok_source_collect c es s k items s' : run c (init c) es k = (s, None) -> c_take c = None -> c_term c = TCollectRes ->
  step c s (EResult (RVec items)) = Some s' -> src_done s = true /\ residual s = None.
Proof.
  intros Hr Ht Hterm Hs.
  assert (HI : FInv c s).
  { apply (inv_reach c (FInv c)) with (es := es) (k := k) (s0 := init c); auto; [intros; eapply FInv_step; eauto|].
    unfold init. rewrite Ht. split; cbn; discriminate. }
  pose proof (C13_structured c s (RVec items) s' Hs) as X. rewrite Hterm in X. destruct X as [Xr _]. split; [|exact Xr].
  cbn [step] in Hs. destruct (ph s) eqn:Eph; try discriminate. destruct HI as [F1 F2]. destruct (F1 Eph) as [A|B]; auto.
  destruct (F2 B) as [Y|Y]; congruence.
Qed.

(* "in-flight futures are dropped unfinished": once an error is stored no fallible future completes any more - the acceptor takes no completion
   of a try_for_each closure future (stage 1), nor of an item future of collect into Result (stage 0), in a state that holds a residual *)
Theorem C14_no_completion_after_error c s stg j e s' : step c s (EDone stg j e) = Some s' ->
  (c_term c = TTryForEach -> stg = 1 -> residual s = None) /\ (c_term c = TCollectRes -> stg = 0 -> residual s = None).
Proof.
  intros H. unfold step in H. split; intros Ht ->.
  - destruct (ph s); try discriminate; destruct (find j (works s)) as [[| | | |]|]; try discriminate.
    all: unfold tfe_blocked in H; rewrite Ht in H; destruct (residual s); [discriminate|reflexivity].
  - destruct (ph s); try discriminate; destruct (find j (works s)) as [[| | | |]|]; try discriminate.
    all: unfold has_term in H; rewrite Ht in H; cbn in H; destruct e; destruct (residual s); try discriminate; reflexivity.
Qed.
