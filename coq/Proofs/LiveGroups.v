From Coq Require Import List Arith Lia Bool.
Import ListNotations.
Require Import ScanFull InstsFull ObligGroups C11Groups Counting.

(* C01, "consequently ... every FutureGroup / StreamGroup stream yields its next item or ends once its children have made the progress that permits
   it": the groups as an instance of ScanFull.Section Live.  Unlike join / merge / zip a group is not fixed-arity: members come and go, a slot is
   vacated when its member completes and may be occupied again by another member, so the generic section speaks about occupied slots ([occ]) and
   the member a slot holds ([member]); what it needs from the slab is stated here as a state invariant W and proved for every step. *)

Definition occb (s: gst) (k: nat) : bool := match nth k (g_ent s) (Vac 0) with Occ _ => true | _ => false end.

Record W (s: gst) : Prop := {
  w_pend : forall k, occb s k = true <-> pend s k = true;                   (* a slot holds a member exactly while it is awaited *)
  w_lt   : forall k, occb s k = true -> g_member s k < g_nmem s;
  w_inj  : forall i j, occb s i = true -> occb s j = true -> g_member s i = g_member s j -> i = j;
  w_next : g_next s <= length (g_ent s);
  w_vac  : forall j nx, nth_error (g_ent s) j = Some (Vac nx) -> nx <= length (g_ent s);
  w_keys : forall k, In k (g_keys s) -> k < length (g_ent s) }.
Definition gq (s: gst) : Prop := g_Q s /\ W s.

Lemma occb_lt s k : occb s k = true -> k < length (g_ent s).
Proof.
  unfold occb. intros H. destruct (Nat.lt_ge_cases k (length (g_ent s))) as [L|G]; auto. rewrite nth_overflow in H by exact G. discriminate.
Qed.
Lemma occb_occ s k : occb s k = true <-> occupied (g_ent s) k.
Proof.
  unfold occb, occupied, occ. split.
  - intros H. pose proof (occb_lt s k H) as L. destruct (nth_error (g_ent s) k) as [e|] eqn:E; [|apply nth_error_None in E; lia].
    rewrite (nth_error_nth' _ _ (Vac 0) _ E) in H. destruct e as [m|nx]; [exists m; reflexivity|discriminate].
  - intros [m H]. rewrite (nth_error_nth' _ _ (Vac 0) _ H). reflexivity.
Qed.
Lemma pend_lt s k : pend s k = true -> k < length (g_states s).
Proof.
  unfold pend. intros H. destruct (Nat.lt_ge_cases k (length (g_states s))) as [L|G]; auto. rewrite nth_overflow in H by exact G. discriminate.
Qed.

(* ---- vacating slot k: completion (g_handle) or removal ---- *)
Lemma nth_upd_vac ent k nx j : nth j (upd ent k (Vac nx)) (Vac 0) = if j =? k then (if k <? length ent then Vac nx else Vac 0) else nth j ent (Vac 0).
Proof.
  destruct (Nat.eqb_spec j k) as [->|Hne]; [apply nth_upd_same'|apply nth_upd_other; auto].
Qed.

Section Vacate.
  Variables (s s': gst) (k: nat).
  Hypothesis Hent : g_ent s' = upd (g_ent s) k (Vac (g_next s)).
  Hypothesis Hnext : g_next s' = k.
  Hypothesis Hst : g_states s' = upd (g_states s) k PNone.
  Hypothesis Hnm : g_nmem s' = g_nmem s.
  Hypothesis Hkeys : forall x, In x (g_keys s') -> In x (g_keys s).
  Hypothesis Hk : k < length (g_ent s).

  Lemma vac_occb j : occb s' j = if j =? k then false else occb s j.
  Proof. unfold occb. rewrite Hent, nth_upd_vac. destruct (j =? k); [destruct (k <? _); reflexivity|reflexivity]. Qed.
  Lemma vac_member j : j <> k -> g_member s' j = g_member s j.
  Proof. intros Hne. unfold g_member. rewrite Hent, nth_upd_other by auto. reflexivity. Qed.
  Lemma vac_pend j : pend s' j = if j =? k then false else pend s j.
  Proof. unfold pend. rewrite Hst. apply pend_upd_none'. Qed.
  Lemma W_vacate : W s -> W s'.
  Proof.
    intros [P L I N V K]. constructor.
    - intros j. rewrite vac_occb, vac_pend. destruct (j =? k); [split; discriminate|apply P].
    - intros j. rewrite vac_occb, Hnm. destruct (Nat.eqb_spec j k) as [->|Hne]; [discriminate|]. rewrite vac_member by exact Hne. apply L.
    - intros i j. rewrite !vac_occb. destruct (Nat.eqb_spec i k) as [->|Hi]; [discriminate|]. destruct (Nat.eqb_spec j k) as [->|Hj]; [discriminate|].
      rewrite !vac_member by assumption. apply I.
    - rewrite Hnext, Hent, upd_length. lia.
    - intros j nx. rewrite Hent, upd_length. destruct (Nat.eq_dec k j) as [<-|Hne].
      + rewrite nth_error_upd_same by exact Hk. intros E. inversion E; subst. exact N.
      + rewrite nth_error_upd_other by exact Hne. apply V.
    - intros x Hx. rewrite Hent, upd_length. apply K, Hkeys, Hx.
  Qed.
End Vacate.

(* a step that leaves entries, states, member count and (a subset of) the keys alone *)
Lemma W_same s s' : g_ent s' = g_ent s -> g_next s' = g_next s -> g_states s' = g_states s -> g_nmem s' = g_nmem s ->
  (forall x, In x (g_keys s') -> In x (g_keys s)) -> W s -> W s'.
Proof.
  intros E1 E2 E3 E4 E5 [P L I N V K]. constructor; unfold occb, pend, g_member in *; rewrite ?E1, ?E2, ?E3, ?E4; auto.
Qed.

(* ---- the scan obligations for the stronger state invariant ---- *)
Lemma W_vac_state s k fut : W s -> pend s k = true -> W (vac_state s k fut).
Proof.
  intros HW Hp. assert (Hk : k < length (g_ent s)) by (apply occb_lt, (w_pend s HW), Hp).
  apply (W_vacate s (vac_state s k fut) k); try (destruct fut; reflexivity); auto. intros x. destruct fut; cbn; auto.
Qed.
Lemma W_handle s i a : W s -> g_awaited s i = true -> W (fst (fst (g_handle s i a))).
Proof.
  intros HW Ha. pose proof (g_handle_cases s i a) as H. cbv zeta in H.
  destruct a as [|[v|v]|v| |]; rewrite H; cbn [fst]; auto; apply W_vac_state; auto.
Qed.
Lemma Q9 s i a : gq s -> g_awaited s i = true -> i < g_slots s -> gq (fst (fst (g_handle s i a))).
Proof. intros [HQ HW] Ha Hi. split; [apply G9; auto|apply W_handle; auto]. Qed.
Lemma W_order s is s1 : g_order s = Some (is, s1) -> W s -> W s1.
Proof. unfold g_order. intros E. inversion E; subst. apply W_same; cbn; auto. Qed.
Lemma Q14 s is s1 : gq s -> g_order s = Some (is, s1) -> gq s1.
Proof. intros [HQ HW] E. split; [eapply G14; eauto|eapply W_order; eauto]. Qed.
Lemma W_cleanup s : W s -> W (g_cleanup s).
Proof. apply W_same; cbn; auto. intros x Hx. apply (In_cleanup_keys s x) in Hx. apply Hx. Qed.
Lemma Q_cleanup' s : gq s -> gq (g_cleanup s).
Proof. intros [HQ HW]. split; [apply Q_cleanup; auto|apply W_cleanup; auto]. Qed.
Lemma finish_cleanup s : fst (g_finish s) = g_cleanup s.
Proof. unfold g_finish. destruct (g_stream s && _); reflexivity. Qed.
Lemma Q17 s : gq s -> gq (fst (g_finish s)).
Proof. rewrite finish_cleanup. apply Q_cleanup'. Qed.

Definition gstable (s s': gst) := g_nmem s' = g_nmem s /\ forall k, k < g_slots s -> occb s' k = true -> occb s k = true /\ g_member s' k = g_member s k.
Lemma gstable_same s s' : g_ent s' = g_ent s -> g_nmem s' = g_nmem s -> gstable s s'.
Proof. intros E1 E2. split; [exact E2|]. intros k _ H. unfold occb, g_member in *. rewrite E1 in *. auto. Qed.
Lemma gstable_vac s k fut : pend s k = true -> W s -> gstable s (vac_state s k fut).
Proof.
  intros Hp HW. assert (Hk : k < length (g_ent s)) by (apply occb_lt, (w_pend s HW), Hp).
  split; [destruct fut; reflexivity|]. intros j _.
  rewrite (vac_occb s (vac_state s k fut) k) by (destruct fut; reflexivity). destruct (Nat.eqb_spec j k) as [->|Hne]; [discriminate|].
  intros H. split; [exact H|]. apply (vac_member s (vac_state s k fut) k); [destruct fut; reflexivity|exact Hne].
Qed.
Lemma handle_gstable s i a : gq s -> g_awaited s i = true -> i < g_slots s -> gstable s (fst (fst (g_handle s i a))).
Proof.
  intros [_ HW] Ha _. pose proof (g_handle_cases s i a) as H. cbv zeta in H.
  destruct a as [|[v|v]|v| |]; rewrite H; cbn [fst]; try (apply gstable_same; reflexivity); apply gstable_vac; auto.
Qed.
Lemma order_gstable s is s1 : gq s -> g_order s = Some (is, s1) -> gstable s s1.
Proof. intros _ E. unfold g_order in E. inversion E; subst. apply gstable_same; reflexivity. Qed.
Lemma finish_gstable s : gq s -> gstable s (fst (g_finish s)).
Proof. intros _. rewrite finish_cleanup. apply gstable_same; reflexivity. Qed.
Lemma after_gstable s : gq s -> gstable s (g_cleanup s).
Proof. intros _. apply gstable_same; reflexivity. Qed.
Lemma g_aw_occ s k : gq s -> k < g_slots s -> g_awaited s k = true -> occb s k = true.
Proof. intros [_ HW] _ H. apply (w_pend s HW). exact H. Qed.
Lemma g_member_inj s i j : gq s -> i < g_slots s -> j < g_slots s -> occb s i = true -> occb s j = true -> g_member s i = g_member s j -> i = j.
Proof. intros [_ HW] _ _. apply (w_inj s HW). Qed.
Lemma g_member_lt s k : gq s -> k < g_slots s -> occb s k = true -> g_member s k < g_nmem s.
Proof. intros [_ HW] _. apply (w_lt s HW). Qed.
Lemma g_abort_panic s i a s' e : g_handle s i a = (s', Abort, e) -> a = APanic.
Proof. destruct a as [|[v|v]|v| |]; cbn; intros E; try discriminate; reflexivity. Qed.

Lemma count_occ_pos ent : count_occ ent <> 0 -> exists k, occupied ent k.
Proof.
  induction ent as [|e ent IH]; cbn; intros H; [lia|]. destruct e as [m|nx].
  - exists 0, m. reflexivity.
  - destruct IH as [k [m Hk]]; [cbn in H; lia|]. exists (S k), m. exact Hk.
Qed.

Section GroupLive.
  Variable stream : bool.
  (* what a member may answer: never a panic; a member of a FutureGroup is a future and answers neither End nor Item, a member of a StreamGroup never Ready *)
  Definition okg (a: ans) : Prop := a <> APanic /\ (stream = false -> a <> AEnd /\ forall v, a <> AItem v) /\ (stream = true -> forall r, a <> AReady r).
  Definition TSg (s: gst) := g_stream s = stream /\ g_len s = count_occ (g_ent s) /\ g_len s <> 0.
  Definition USg (s: gst) := g_stream s = stream /\ g_len s = count_occ (g_ent s) /\ g_count s = g_done s + g_len s /\ (stream = false -> g_len s <> 0).

  Lemma USg_cont s i a s' e : okg a -> gq s -> i < g_slots s -> USg s -> g_awaited s i = true -> g_handle s i a = (s', Cont, e) -> USg s'.
  Proof.
    intros [Hnp [Hne _]] [_ HW] _ (U1 & U2 & U3 & U4) Ha E. pose proof (g_handle_cases s i a) as H. cbv zeta in H.
    destruct a as [|[v|v]|v| |]; rewrite H in E; inversion E; subst; clear E; [split; auto|].
    assert (Hst : stream = true) by (destruct stream; auto; exfalso; apply (proj1 (Hne eq_refl)); reflexivity).
    assert (Ho : occb s i = true) by (apply (w_pend s HW); exact Ha).
    pose proof (occb_lt s i Ho) as Hk.
    pose proof (count_occ_upd (g_ent s) i (Vac (g_next s)) Hk) as Hc. unfold occb in Ho. destruct (nth i (g_ent s) (Vac 0)) as [m|nx] eqn:En; [|discriminate]. cbn in Hc.
    unfold USg, vac_state. cbn. split; [exact U1|]. split; [lia|]. split; [lia|]. intros X. congruence.
  Qed.
  Lemma TSg_order s is s1 : TSg s -> g_order s = Some (is, s1) -> USg s1.
  Proof. intros (T1 & T2 & T3) E. unfold g_order in E. inversion E; subst. unfold USg. cbn. auto. Qed.
  Lemma USg_finish s : gq s -> USg s -> snd (g_finish s) = None -> TSg (fst (g_finish s)).
  Proof.
    intros _ (U1 & U2 & U3 & U4) E. rewrite finish_cleanup. unfold TSg. cbn. split; [exact U1|]. split; [exact U2|].
    unfold g_finish in E. destruct (g_stream s && (g_done s =? g_count s)) eqn:Eb; [discriminate|].
    apply andb_false_iff in Eb as [Eb|Eb]; [apply U4; congruence|apply Nat.eqb_neq in Eb; lia].
  Qed.
  Lemma TSg_some s : gq s -> TSg s -> exists j, j < g_slots s /\ g_awaited s j = true.
  Proof.
    intros [_ HW] (T1 & T2 & T3). destruct (count_occ_pos (g_ent s)) as [k Hk]; [lia|].
    apply occb_occ in Hk. apply (w_pend s HW) in Hk. exists k. split; [apply pend_lt; exact Hk|exact Hk].
  Qed.
  Lemma g_order_some' s : TSg s -> g_order s <> None. Proof. intros _. discriminate. Qed.
End GroupLive.

(* ---- the run invariant with the stronger state invariant ---- *)
Notation GInv' := (Inv gst g_slots g_awaited gq).
Lemma GInv_split w : GInv' w <-> GInv w /\ W (cs _ w).
Proof.
  unfold Inv, K. split.
  - intros ((A & [B B'] & C) & D). split; [split; [split; [exact A|split; [exact B|exact C]]|exact D]|exact B'].
  - intros [((A & B & C) & D) B']. split; [split; [exact A|split; [split; [exact B|exact B']|exact C]]|exact D].
Qed.

Lemma W_reserve (w: world gst) a : W (cs _ w) -> W (cs _ (g_reserve w a)).
Proof.
  intros HW. unfold g_reserve. destruct (_ <? _); [exact HW|]. cbn [cs w_grow].
  destruct HW as [P L I N V K]. constructor; unfold occb, pend, g_member in *; cbn; auto.
  intros k. rewrite nth_app_states. apply P.
Qed.

Lemma nth_ins ent k m j : k <= length ent ->
  nth j (if k =? length ent then ent ++ [Occ m] else upd ent k (Occ m)) (Vac 0) = if j =? k then Occ m else nth j ent (Vac 0).
Proof.
  intros Hk. destruct (Nat.eqb_spec k (length ent)) as [->|Hne].
  - destruct (Nat.eqb_spec j (length ent)) as [->|Hj].
    + rewrite app_nth2 by lia. rewrite Nat.sub_diag. reflexivity.
    + destruct (Nat.lt_ge_cases j (length ent)) as [L|G]; [rewrite app_nth1 by exact L; reflexivity|].
      rewrite !nth_overflow; auto; rewrite ?app_length; cbn; lia.
  - destruct (Nat.eqb_spec j k) as [->|Hj]; [rewrite nth_upd_same by lia; reflexivity|rewrite nth_upd_other by auto; reflexivity].
Qed.

Lemma W_insert s : W s -> g_next s < length (g_states s) ->
  let k := g_next s in let m := g_nmem s in
  forall ent' nx', (ent', nx') = (if k =? length (g_ent s) then (g_ent s ++ [Occ m], k + 1)
                                 else (upd (g_ent s) k (Occ m), match nth k (g_ent s) (Vac 0) with Vac nx => nx | _ => 0 end)) ->
  W (gset s ent' nx' (g_len s + 1) (ins_sorted k (g_keys s)) (upd (g_states s) k PPending) (g_cap s) (g_last s) (g_queue s) (g_done s) (g_count s) (m + 1) (g_ret s ++ [k])).
Proof.
  intros [P L I N V K] Hks k m ent' nx' E.
  assert (Hent : ent' = if k =? length (g_ent s) then g_ent s ++ [Occ m] else upd (g_ent s) k (Occ m)) by (destruct (k =? _); inversion E; reflexivity).
  assert (Hnth : forall j, nth j ent' (Vac 0) = if j =? k then Occ m else nth j (g_ent s) (Vac 0)) by (intros j; rewrite Hent; apply nth_ins; exact N).
  assert (Hlen : length (g_ent s) <= length ent' /\ k < length ent').
  { rewrite Hent. destruct (Nat.eqb_spec k (length (g_ent s))) as [->|Hne]; [rewrite app_length; cbn; lia|rewrite upd_length; unfold k in *; lia]. }
  assert (Ho : forall j, occb (gset s ent' nx' (g_len s + 1) (ins_sorted k (g_keys s)) (upd (g_states s) k PPending) (g_cap s) (g_last s) (g_queue s) (g_done s) (g_count s) (m + 1) (g_ret s ++ [k])) j
                       = if j =? k then true else occb s j).
  { intros j. unfold occb. cbn. rewrite Hnth. destruct (j =? k); reflexivity. }
  assert (Hm : forall j, g_member (gset s ent' nx' (g_len s + 1) (ins_sorted k (g_keys s)) (upd (g_states s) k PPending) (g_cap s) (g_last s) (g_queue s) (g_done s) (g_count s) (m + 1) (g_ret s ++ [k])) j
                       = if j =? k then m else g_member s j).
  { intros j. unfold g_member. cbn. rewrite Hnth. destruct (j =? k); reflexivity. }
  constructor.
  - intros j. rewrite Ho. unfold pend. cbn. destruct (Nat.eqb_spec j k) as [->|Hne].
    + rewrite nth_upd_same by exact Hks. split; reflexivity.
    + rewrite nth_upd_other by auto. apply P.
  - intros j. rewrite Ho, Hm. cbn. destruct (j =? k); [lia|]. intros H. specialize (L j H). unfold m. lia.
  - intros i j. rewrite !Ho, !Hm. destruct (Nat.eqb_spec i k) as [->|Hi]; destruct (Nat.eqb_spec j k) as [->|Hj]; auto.
    + intros _ H X. specialize (L j H). unfold m in X. lia.
    + intros H _ X. specialize (L i H). unfold m in X. lia.
  - cbn. destruct (Nat.eqb_spec k (length (g_ent s))) as [Ek|Hne]; inversion E; subst.
    + rewrite app_length. cbn. lia.
    + rewrite upd_length. destruct (nth k (g_ent s) (Vac 0)) as [m0|nx] eqn:En; [lia|].
      apply (V k nx). unfold k in *. destruct (nth_error (g_ent s) (g_next s)) as [e|] eqn:Ee; [|apply nth_error_None in Ee; lia].
      rewrite (nth_error_nth' _ _ (Vac 0) _ Ee) in En. congruence.
  - cbn. intros j nx H. destruct Hlen as [Hl1 Hl2].
    assert (Hj : j <> k).
    { intros ->. pose proof (Hnth k) as X. rewrite Nat.eqb_refl in X. rewrite (nth_error_nth' _ _ (Vac 0) _ H) in X. discriminate. }
    assert (Hold : nth_error (g_ent s) j = Some (Vac nx)).
    { pose proof (Hnth j) as X. destruct (Nat.eqb_spec j k); [contradiction|]. rewrite (nth_error_nth' _ _ (Vac 0) _ H) in X.
      destruct (nth_error (g_ent s) j) as [e|] eqn:Ee.
      - rewrite (nth_error_nth' _ _ (Vac 0) _ Ee) in X. congruence.
      - (* j beyond the old entries: only the appended one is there, and it is k *)
        apply nth_error_None in Ee. assert (j < length ent') by (apply nth_error_Some; congruence).
        rewrite Hent in H0. destruct (Nat.eqb_spec k (length (g_ent s))); [rewrite app_length in H0; cbn in H0; lia|rewrite upd_length in H0; lia]. }
    specialize (V j nx Hold). lia.
  - cbn. intros x Hx. apply In_ins_sorted in Hx as [->|Hx]; [apply Hlen|]. specialize (K x Hx). lia.
Qed.

Lemma W_mutate (w: world gst) m a sc : W (cs _ w) -> W (cs _ (g_mutate w m a sc)).
Proof.
  intros HW. unfold g_mutate.
  destruct m as [|[|[|[|[|[|m]]]]]].
  - set (w1 := if g_cap (cs gst w) <=? g_len (cs gst w) then g_reserve w (g_cap (cs gst w) * 2 + 1) else w).
    assert (HW1 : W (cs _ w1)) by (unfold w1; destruct (_ <=? _); auto using W_reserve).
    clearbody w1. set (s := cs gst w1) in *. set (k := g_next s).
    destruct (if k =? length (g_ent s) then _ else _) as [ent' nx'] eqn:Ee.
    destruct ((k <? length (g_states s)) && g_clean s) eqn:Eg; [|exact HW1].
    apply andb_true_iff in Eg as [Ek _]. apply Nat.ltb_lt in Ek.
    cbn [cs emit w_occupy]. apply (W_insert s HW1 Ek ent' nx'). symmetry. exact Ee.
  - destruct (nth_error (g_ret (cs gst w)) a) as [k|]; auto.
    destruct (existsb (fun x => x =? k) (g_keys (cs gst w))) eqn:Ex; [|exact HW].
    apply existsb_exists in Ex as (x & Hx & Ex). apply Nat.eqb_eq in Ex. subst x.
    cbn [cs emit w_vacate]. apply (W_vacate (cs _ w) _ k); try reflexivity; auto.
    + cbn. intros x H. apply In_rm_key in H. apply H.
    + apply (w_keys _ HW). exact Hx.
  - apply W_reserve, HW.
  - exact HW.
  - destruct (nth_error _ a); exact HW.
  - exact HW.
  - exact HW.
Qed.
Lemma g_mutate_inv' w m a sc : GInv' w -> GInv' (g_mutate w m a sc).
Proof. intros H. apply GInv_split in H as [H1 H2]. apply GInv_split. split; [apply g_mutate_inv; exact H1|apply W_mutate; exact H2]. Qed.
Lemma nth_repeat_PNone n k : nth k (repeat PNone n) PNone = PNone.
Proof. destruct (Nat.lt_ge_cases k n) as [L|G]; [apply repeat_nth; exact L|apply nth_overflow; rewrite repeat_length; exact G]. Qed.
Lemma W_init stream cap0 : W (g_init stream cap0).
Proof.
  constructor; unfold occb, pend, g_member; cbn [g_init g_ent g_states g_next g_nmem g_keys length]; auto.
  - intros k. rewrite nth_repeat_PNone. destruct k; cbn; split; discriminate.
  - intros k. destruct k; discriminate.
  - intros i j. destruct i; discriminate.
  - intros j nx. destruct j; discriminate.
  - intros k [].
Qed.

(* ---- LiveI (scripts never panic; the handles of the member in an occupied slot all name that slot) across insert / remove / reserve ---- *)
Section GroupLiveI.
  Variable stream : bool.
  Notation GLive := (LiveI gst g_slots g_member occb g_nmem (okg stream)).
  Definition okscript (sc: list step) : Prop := forall st, In st sc -> okg stream (answer st).

  Lemma ins_facts s : W s -> let k := g_next s in let m := g_nmem s in
    forall ent' nx', (ent', nx') = (if k =? length (g_ent s) then (g_ent s ++ [Occ m], k + 1)
                                   else (upd (g_ent s) k (Occ m), match nth k (g_ent s) (Vac 0) with Vac nx => nx | _ => 0 end)) ->
    forall ln keys st cap last q dn cnt ret,
    let s' := gset s ent' nx' ln keys st cap last q dn cnt (m + 1) ret in
    (forall j, occb s' j = if j =? k then true else occb s j) /\ (forall j, g_member s' j = if j =? k then m else g_member s j).
  Proof.
    intros HW k m ent' nx' E ln keys st cap last q dn cnt ret s'.
    assert (Hent : ent' = if k =? length (g_ent s) then g_ent s ++ [Occ m] else upd (g_ent s) k (Occ m)) by (destruct (k =? _); inversion E; reflexivity).
    assert (Hnth : forall j, nth j ent' (Vac 0) = if j =? k then Occ m else nth j (g_ent s) (Vac 0)) by (intros j; rewrite Hent; apply nth_ins; apply (w_next s HW)).
    split; intros j; unfold s', occb, g_member; cbn; rewrite Hnth; destruct (j =? k); reflexivity.
  Qed.

  Lemma GLive_reserve (w: world gst) a : W (cs _ w) -> GLive w -> GLive (g_reserve w a).
  Proof.
    intros HW (Hsel & Hnp & HL & HP & HH). unfold g_reserve. destruct (_ <? _); [split; [exact Hsel|split; [exact Hnp|split; [exact HL|split; [exact HP|exact HH]]]]|].
    split; [exact Hsel|]. split; [exact Hnp|]. unfold HT, N, polled, g_slots in *. cbn [cs w_grow handed g_polled g_states gset g_nmem g_ent].
    split; [exact HL|]. split; [rewrite !app_length, !repeat_length; lia|].
    intros c Hc Hoc. assert (Ho : occb (cs _ w) c = true) by exact Hoc.
    assert (Hcn : c < length (g_states (cs _ w))) by (apply pend_lt, (w_pend _ HW), Ho).
    destruct (HH c Hcn Ho) as [H1 H2]. split; [exact H1|]. rewrite app_nth1 by lia. exact H2.
  Qed.

  Lemma GLive_mutate w m a sc : GInv' w -> GLive w -> okscript sc -> GLive (g_mutate w m a sc).
  Proof.
    intros HI HLv Hok. apply GInv_split in HI as [HI HW]. unfold g_mutate.
    destruct m as [|[|[|[|[|[|m]]]]]].
    - set (w1 := if g_cap (cs gst w) <=? g_len (cs gst w) then g_reserve w (g_cap (cs gst w) * 2 + 1) else w).
      assert (HW1 : W (cs _ w1)) by (unfold w1; destruct (_ <=? _); auto using W_reserve).
      assert (HL1 : GLive w1) by (unfold w1; destruct (_ <=? _); auto using GLive_reserve).
      clearbody w1. set (s := cs gst w1) in *. set (k := g_next s).
      destruct (if k =? length (g_ent s) then _ else _) as [ent' nx'] eqn:Ee.
      destruct ((k <? length (g_states s)) && g_clean s) eqn:Eg; [|apply (LiveI_frame _ _ _ _ _ _ w1); auto].
      apply andb_true_iff in Eg as [Ek _]. apply Nat.ltb_lt in Ek.
      subst k.
      destruct (ins_facts s HW1 ent' nx' (eq_sym Ee) (g_len s + 1) (ins_sorted (g_next s) (g_keys s)) (upd (g_states s) (g_next s) PPending) (g_cap s) (g_last s) (g_queue s) (g_done s) (g_count s) (g_ret s ++ [g_next s])) as [Ho Hm].
      destruct HL1 as (Hsel & Hnp & HL & HP & HH).
      split; [exact Hsel|]. split.
      + (* scripts: the new member's script is the one handed over *)
        intros mm st Hin. cbn [scripts emit w_occupy] in Hin. destruct (Nat.lt_ge_cases mm (length (scripts _ w1))) as [L|G].
        * rewrite app_nth1 in Hin by exact L. apply (Hnp mm st Hin).
        * destruct (Nat.eq_dec mm (length (scripts _ w1))) as [->|Hne].
          -- rewrite app_nth2, Nat.sub_diag in Hin by lia. apply Hok. exact Hin.
          -- rewrite nth_overflow in Hin by (rewrite app_length; cbn; lia). destruct Hin.
      + unfold HT, N, polled, g_slots in *. cbn [cs emit w_occupy handed g_polled]. fold s.
        split; [rewrite app_length; cbn [length gset g_nmem]; fold s in HL; rewrite HL; reflexivity|].
        split; [cbn [gset g_states]; rewrite !upd_length; exact HP|].
        intros c Hc Hoc. cbn [gset g_states] in Hc. rewrite upd_length in Hc. rewrite Ho in Hoc. rewrite Hm.
        destruct (Nat.eqb_spec c (g_next s)) as [->|Hne].
        * fold s in HL. rewrite <- HL. rewrite app_nth2, Nat.sub_diag by lia. split; [intros h []|].
          rewrite nth_upd_same by (rewrite HP; exact Hc). discriminate.
        * destruct (HH c Hc Hoc) as [H1 H2]. pose proof (w_lt s HW1 c Hoc) as Hlt. fold s in HL. rewrite <- HL in Hlt.
          rewrite app_nth1 by exact Hlt. rewrite nth_upd_other by auto. split; [exact H1|exact H2].
    - destruct (nth_error (g_ret (cs gst w)) a) as [k|]; auto.
      destruct (existsb (fun x => x =? k) (g_keys (cs gst w))) eqn:Ex; [|apply (LiveI_frame _ _ _ _ _ _ w); auto].
      apply existsb_exists in Ex as (x & Hx & Ex). apply Nat.eqb_eq in Ex. subst x.
      pose proof (w_keys _ HW k Hx) as Hk.
      destruct HLv as (Hsel & Hnp & HL & HP & HH). split; [exact Hsel|]. split; [exact Hnp|].
      unfold HT, N, polled, g_slots in *. cbn [cs emit w_vacate handed g_polled gset g_nmem g_states slab_remove]. rewrite upd_length.
      split; [exact HL|]. split; [exact HP|]. intros c Hc Hoc.
      match type of Hoc with occb ?S c = true => rewrite (vac_occb (cs _ w) S k) in Hoc by reflexivity end.
      destruct (Nat.eqb_spec c k) as [->|Hne]; [discriminate|].
      match goal with |- context[g_member ?S c] => rewrite (vac_member (cs _ w) S k) by (try reflexivity; exact Hne) end.
      apply HH; auto.
    - apply GLive_reserve; auto.
    - apply (LiveI_frame _ _ _ _ _ _ w); auto.
    - destruct (nth_error _ a); [apply (LiveI_frame _ _ _ _ _ _ w); auto|exact HLv].
    - apply (LiveI_frame _ _ _ _ _ _ w); auto.
    - apply (LiveI_frame _ _ _ _ _ _ w); auto.
  Qed.
End GroupLiveI.

(* ---- scripts of members: (Pending | Item)* then Ready or End, never a panic ---- *)
Fixpoint goodg (sc: list step) : bool :=
  match sc with [] => false | s :: rest => match answer s with APend | AItem _ => goodg rest | AReady _ | AEnd => true | APanic => false end end.

Section GroupNext.
  Variable stream : bool.
  Notation GLive := (LiveI gst g_slots g_member occb g_nmem (okg stream)).
  Definition Pg (s: gst) (sc: list (list step)) : Prop :=
    gq s /\ g_stream s = stream /\ g_nmem s = length sc /\ forall k, pend s k = true -> goodg (nth (g_member s k) sc []) = true.

  Lemma Pg_handle s sc i stp sc' : g_awaited s i = true -> i < g_slots s ->
    (stp, sc') = (match nth (g_member s i) sc [] with [] => ({| fires := []; answer := APend |}, sc) | x :: rest => (x, upd sc (g_member s i) rest) end) ->
    Pg s sc -> Pg (fst (fst (g_handle s i (answer stp)))) sc'.
  Proof.
    intros Ha Hi Epop (HQ & Hs & Hn & Hg). pose proof HQ as [_ HW].
    pose proof (Hg i Ha) as Hgi.
    destruct (nth (g_member s i) sc []) as [|x rest] eqn:En; [discriminate|]. inversion Epop; subst stp sc'; clear Epop.
    assert (Hm : g_member s i < length sc) by (rewrite <- Hn; apply (w_lt s HW), (w_pend s HW), Ha).
    assert (Hoth : forall k, pend s k = true -> k <> i -> nth (g_member s k) (upd sc (g_member s i) rest) [] = nth (g_member s k) sc []).
    { intros k Hk Hne. apply nth_upd_other. intros X. apply Hne. symmetry. apply (w_inj s HW); auto; apply (w_pend s HW); auto. }
    pose proof (g_handle_cases s i (answer x)) as H. cbv zeta in H. cbn [goodg] in Hgi.
    split; [apply Q9; auto|]. rewrite upd_length.
    destruct (answer x) as [|[v|v]|v| |] eqn:Ex; try discriminate; rewrite H; cbn [fst].
    - split; [exact Hs|]. split; [exact Hn|]. intros k Hk. destruct (Nat.eq_dec k i) as [->|Hne]; [rewrite nth_upd_same by exact Hm; exact Hgi|rewrite Hoth by auto; apply Hg, Hk].
    - split; [destruct stream; exact Hs|]. split; [exact Hn|]. intros k Hk. rewrite (vac_pend s (vac_state s i true) i) in Hk by reflexivity.
      destruct (Nat.eqb_spec k i) as [Ek|Hne]; [discriminate|]. rewrite (vac_member s (vac_state s i true) i) by (try reflexivity; exact Hne). rewrite Hoth by auto. apply Hg, Hk.
    - split; [destruct stream; exact Hs|]. split; [exact Hn|]. intros k Hk. rewrite (vac_pend s (vac_state s i true) i) in Hk by reflexivity.
      destruct (Nat.eqb_spec k i) as [Ek|Hne]; [discriminate|]. rewrite (vac_member s (vac_state s i true) i) by (try reflexivity; exact Hne). rewrite Hoth by auto. apply Hg, Hk.
    - split; [exact Hs|]. split; [exact Hn|]. intros k Hk. destruct (Nat.eq_dec k i) as [->|Hne]; [rewrite nth_upd_same by exact Hm; exact Hgi|rewrite Hoth by auto; apply Hg, Hk].
    - split; [destruct stream; exact Hs|]. split; [exact Hn|]. intros k Hk. rewrite (vac_pend s (vac_state s i false) i) in Hk by reflexivity.
      destruct (Nat.eqb_spec k i) as [Ek|Hne]; [discriminate|]. rewrite (vac_member s (vac_state s i false) i) by (try reflexivity; exact Hne). rewrite Hoth by auto. apply Hg, Hk.
  Qed.
  Lemma Pg_same s s' sc : gq s' -> g_stream s' = g_stream s -> g_ent s' = g_ent s -> g_states s' = g_states s -> g_nmem s' = g_nmem s -> Pg s sc -> Pg s' sc.
  Proof. intros HQ' E0 E1 E2 E3 (HQ & Hs & Hn & Hg). split; [exact HQ'|]. unfold pend, g_member in *. rewrite E0, E1, E2, E3. auto. Qed.
  Lemma Pg_order s is s1 sc : g_order s = Some (is, s1) -> Pg s sc -> Pg s1 sc.
  Proof. intros E HP. assert (HQ : gq s1) by (eapply Q14; [apply HP|exact E]). unfold g_order in E. inversion E; subst. revert HP. apply Pg_same; auto. Qed.
  Lemma Pg_cleanup s sc : Pg s sc -> Pg (g_cleanup s) sc.
  Proof. intros HP. apply (Pg_same s); auto. apply Q_cleanup', HP. Qed.
  Lemma Pg_finish s sc : Pg s sc -> Pg (fst (g_finish s)) sc.
  Proof. rewrite finish_cleanup. apply Pg_cleanup. Qed.
End GroupNext.

Section GroupFinal.
  Variable stream : bool.
  Notation GLive := (LiveI gst g_slots g_member occb g_nmem (okg stream)).
  Notation gstep := (step_op gst g_slots g_awaited g_member g_handle false false g_order g_pre_exit (fun _ => true) g_finish g_cleanup g_drop (fun _ => false) g_mutate).
  Notation grun := (run_ops gst g_slots g_awaited g_member g_handle false false g_order g_pre_exit (fun _ => true) g_finish g_cleanup g_drop (fun _ => false) g_mutate).
  Notation grounds := (rounds gst g_slots g_awaited g_member g_handle false false g_order g_pre_exit (fun _ => true) g_finish g_cleanup g_drop (fun _ => false) g_mutate).
  (* a history whose inserted members are scripted (Pending | Item)* then Ready or End, never a panic, and - for a FutureGroup - never End *)
  Definition goodop (o: op) : Prop := match o with OMut c _ sc => okscript stream sc /\ (c = 0 -> goodg sc = true) | _ => True end.
  Definition PWg (w: world gst) := Pg stream (cs _ w) (scripts _ w).

  Lemma okg_np a : okg stream a -> a <> APanic. Proof. intros [H _]. exact H. Qed.
  Lemma okg_pend : okg stream APend. Proof. split; [discriminate|]. split; [intros _; split; [discriminate|intros v; discriminate]|intros _ r; discriminate]. Qed.

  Lemma GInv'_step w o : GInv' w -> GInv' (gstep w o).
  Proof.
    apply (Inv_step gst g_slots g_awaited g_member g_handle false false g_order g_pre_exit (fun _ => true) g_finish g_cleanup g_drop (fun _ => false) gq
             G1 G2 G3 (fun s i a s' r o e H => G4 s i a s' r o e (proj1 H)) G5 (fun s i a s' o e H => G6 s i a s' o e (proj1 H)) G7 G8 Q9 G10 G11
             (fun s is s1 H => G12 s is s1 (proj1 H)) (fun s is s1 H => G13 s is s1 (proj1 H)) Q14 G15 (fun s i H => G16 s i (proj1 H)) Q17
             (fun _ => eq_refl) (fun _ _ _ => eq_refl) Q_cleanup' g_mutate g_mutate_inv').
  Qed.
  Lemma GLive_step w o : GInv' w -> GLive w -> goodop o -> GLive (gstep w o).
  Proof.
    intros HI HL Hok.
    apply (LiveI_step gst g_slots g_awaited g_member g_handle false false g_order g_pre_exit (fun _ => true) g_finish g_cleanup g_drop (fun _ => false) gq
             G1 G2 Q9 G10 (fun s is s1 H => G12 s is s1 (proj1 H)) Q14 G15 (fun _ => eq_refl) g_mutate
             occb g_aw_occ g_member_inj g_nmem g_member_lt handle_gstable order_gstable finish_gstable after_gstable g_abort_panic
             (okg stream) okg_np okg_pend (USg stream) (USg_cont stream) (okscript stream) (GLive_mutate stream)); auto.
    destruct o; cbn; auto. apply Hok.
  Qed.
  Lemma PWg_mutate w m a sc : GInv' w -> PWg w -> goodop (OMut m a sc) -> PWg (g_mutate w m a sc).
  Proof.
    intros HI (HQ & Hs & Hn & Hg) [Hok Hgood].
    assert (HQ' : gq (cs _ (g_mutate w m a sc))) by apply (g_mutate_inv' w m a sc HI).
    split; [exact HQ'|]. clear HQ'. pose proof HQ as [_ HW]. unfold g_mutate.
    destruct m as [|[|[|[|[|[|m]]]]]].
    - set (w1 := if g_cap (cs gst w) <=? g_len (cs gst w) then g_reserve w (g_cap (cs gst w) * 2 + 1) else w).
      assert (H1 : W (cs _ w1) /\ g_stream (cs _ w1) = stream /\ g_nmem (cs _ w1) = length (scripts _ w1) /\
                   forall k, pend (cs _ w1) k = true -> goodg (nth (g_member (cs _ w1) k) (scripts _ w1) []) = true).
      { unfold w1. destruct (_ <=? _); [|auto]. split; [apply W_reserve; exact HW|]. unfold g_reserve. destruct (_ <? _); [auto|].
        cbn [cs w_grow scripts gset g_stream g_nmem]. split; [exact Hs|]. split; [exact Hn|]. intros k. unfold pend, g_member. cbn [gset g_states g_ent]. rewrite nth_app_states. apply Hg. }
      clearbody w1. destruct H1 as (HW1 & Hs1 & Hn1 & Hg1). set (s := cs gst w1) in *.
      destruct (if g_next s =? length (g_ent s) then _ else _) as [ent' nx'] eqn:Ee.
      destruct ((g_next s <? length (g_states s)) && g_clean s) eqn:Eg; [|cbn; auto].
      apply andb_true_iff in Eg as [Ek _]. apply Nat.ltb_lt in Ek.
      destruct (ins_facts s HW1 ent' nx' (eq_sym Ee) (g_len s + 1) (ins_sorted (g_next s) (g_keys s)) (upd (g_states s) (g_next s) PPending) (g_cap s) (g_last s) (g_queue s) (g_done s) (g_count s) (g_ret s ++ [g_next s])) as [Ho Hm].
      cbn [cs emit w_occupy scripts]. split; [exact Hs1|]. split; [cbn [gset g_nmem]; rewrite app_length; cbn; lia|].
      intros k Hk. rewrite Hm. destruct (Nat.eqb_spec k (g_next s)) as [Ekk|Hne].
      + rewrite Hn1, app_nth2, Nat.sub_diag by lia. apply Hgood. reflexivity.
      + unfold pend in Hk. cbn [gset g_states] in Hk. rewrite nth_upd_other in Hk by auto.
        assert (Hlt : g_member s k < length (scripts _ w1)) by (rewrite <- Hn1; apply (w_lt s HW1), (w_pend s HW1), Hk).
        rewrite app_nth1 by exact Hlt. apply Hg1, Hk.
    - destruct (nth_error (g_ret (cs gst w)) a) as [k|]; [|auto].
      destruct (existsb (fun x => x =? k) (g_keys (cs gst w))) eqn:Ex; [|cbn; auto].
      apply existsb_exists in Ex as (x & Hx & Ex). apply Nat.eqb_eq in Ex. subst x.
      pose proof (w_keys _ HW k Hx) as Hk.
      cbn [cs emit w_vacate scripts]. split; [exact Hs|]. split; [exact Hn|]. intros j Hj.
      match type of Hj with pend ?S j = true => rewrite (vac_pend (cs _ w) S k) in Hj by reflexivity end.
      destruct (Nat.eqb_spec j k) as [Ejk|Hne]; [discriminate|].
      match goal with |- context[g_member ?S j] => rewrite (vac_member (cs _ w) S k) by (try reflexivity; exact Hne) end. apply Hg, Hj.
    - unfold g_reserve. destruct (_ <? _); [auto|]. cbn [cs w_grow scripts gset g_stream g_nmem]. split; [exact Hs|]. split; [exact Hn|].
      intros k. unfold pend, g_member. cbn [gset g_states g_ent]. rewrite nth_app_states. apply Hg.
    - cbn; auto.
    - destruct (nth_error _ a); cbn; auto.
    - cbn; auto.
    - cbn; auto.
  Qed.
  Lemma PWg_step w o : GInv' w -> PWg w -> goodop o -> PWg (gstep w o).
  Proof.
    intros HI HP Hok. destruct o as [| |c k| |m a sc]; cbn [step_op].
    1,2: destruct (finished gst w || dropped gst w); [exact HP|];
      apply (poll_P gst g_slots g_awaited g_member g_handle false false g_order g_pre_exit (fun _ => true) g_finish g_cleanup g_drop (fun _ => false) gq
               G1 G8 G10 (fun s is s1 H => G12 s is s1 (proj1 H)) (Pg stream) (Pg_handle stream) (Pg_order stream) (Pg_finish stream) (Pg_cleanup stream) (fun s sc H => proj1 H)); exact HP.
    - destruct (fire_handle_pass gst g_slots (emit gst w [EO]) c k) as [Hc Hs]. unfold PWg. rewrite Hc, Hs. exact HP.
    - destruct (dropped gst w); exact HP.
    - destruct (dropped gst w); [exact HP|]. apply PWg_mutate; auto.
  Qed.
  Definition RI (w: world gst) := GInv' w /\ GLive w /\ PWg w.
  Lemma RI_run ops : forall w, RI w -> Forall goodop ops -> RI (grun w ops).
  Proof.
    induction ops as [|o r IH]; intros w HR Hok; [exact HR|]. destruct HR as (A & B & C). inversion Hok as [|? ? Ho Hr]; subst.
    cbn [run_ops fold_left]. apply IH; [|exact Hr]. split; [apply GInv'_step; auto|]. split; [apply GLive_step; auto|apply PWg_step; auto].
  Qed.
End GroupFinal.

Section GroupTheorem.
  Variable stream : bool.
  Variable cap0 : nat.
  Notation GLive := (LiveI gst g_slots g_member occb g_nmem (okg stream)).
  Notation grun := (run_ops gst g_slots g_awaited g_member g_handle false false g_order g_pre_exit (fun _ => true) g_finish g_cleanup g_drop (fun _ => false) g_mutate).
  Notation grounds := (rounds gst g_slots g_awaited g_member g_handle false false g_order g_pre_exit (fun _ => true) g_finish g_cleanup g_drop (fun _ => false) g_mutate).
  Definition gw0 : world gst := mk_world (g_init stream cap0) true cap0 [].

  Lemma RI_init : RI stream gw0.
  Proof.
    split; [apply GInv_split; split; [apply group_init|apply W_init]|]. split.
    - split; [reflexivity|]. split; [intros m st Hin; cbn in Hin; destruct m; destruct Hin|].
      unfold HT, N, polled, g_slots, gw0, mk_world. cbn. rewrite !repeat_length. split; [reflexivity|]. split; [reflexivity|].
      intros c _ Hoc. unfold occb in Hoc. cbn in Hoc. destruct c; discriminate.
    - split; [split; [apply group_init|apply W_init]|]. split; [reflexivity|]. split; [reflexivity|].
      intros k Hk. unfold pend, gw0, mk_world in Hk. cbn in Hk. rewrite nth_repeat_PNone in Hk. discriminate.
  Qed.
  Lemma goodop_nomut o : nomut o -> goodop stream o.
  Proof. destruct o; cbn; auto. intros []. Qed.

  Theorem group_next_result ops B : Forall (goodop stream) ops ->
    let w := grun gw0 ops in
    finished _ w = false -> dropped _ w = false -> g_len (cs _ w) <> 0 ->
    (forall m, length (nth m (scripts _ w) []) <= B) -> 1 <= B ->
    exists r, r < B /\ dropped _ (grounds (S r) w) = false /\ g_retpend _ (grounds (S r) w) = false /\
              (forall r', r' <= r -> finished _ (grounds r' w) = false) /\
              exists u o, tr _ (grounds (S r) w) = tr _ (grounds r w) ++ u ++ [EEndR o].
  Proof.
    intros Hok w Hf Hd Hlen HB HB1.
    destruct (RI_run stream ops gw0 RI_init Hok) as (HI & HL & HP). fold w in HI, HL, HP.
    pose proof (group_trace_inv true stream cap0 ops Hd) as [HG _]. fold w in HG.
    apply (next_result gst g_slots g_awaited g_member g_handle false false g_order g_pre_exit (fun _ => true) g_finish g_cleanup g_drop (fun _ => false) gq
             G1 G2 G3 (fun s i a s' r o e H => G4 s i a s' r o e (proj1 H)) G5 (fun s i a s' o e H => G6 s i a s' o e (proj1 H)) G7 G8 Q9 G10 G11
             (fun s is s1 H => G12 s is s1 (proj1 H)) (fun s is s1 H => G13 s is s1 (proj1 H)) Q14 G15 (fun s i H => G16 s i (proj1 H)) Q17
             (fun _ => eq_refl) (fun _ _ _ => eq_refl) Q_cleanup' g_mutate g_mutate_inv'
             occb g_aw_occ g_member_inj g_nmem g_member_lt handle_gstable order_gstable finish_gstable after_gstable g_abort_panic
             (okg stream) (okg_np stream) (okg_pend stream) (TSg stream) (USg stream) (USg_cont stream) (TSg_order stream) (USg_finish stream)
             (fun (E: false = true) => match Bool.diff_false_true E with end) (g_order_some' stream)); auto.
    - (* TS: the group is not empty *)
      split; [apply HP|]. split; [apply (sl_len _ (G_slab _ _ HG))|exact Hlen].
    - (* an awaited member has a step left *)
      intros r j Hj _ Ha.
      destruct (rounds_is_run' gst g_slots g_awaited g_member g_handle false false g_order g_pre_exit (fun _ => true) g_finish g_cleanup g_drop (fun _ => false) g_mutate r w) as (ops' & Hops & Hn).
      destruct (RI_run stream ops' w (conj HI (conj HL HP))) as (_ & _ & (_ & _ & _ & Hg)).
      { eapply Forall_impl; [|exact Hn]. apply goodop_nomut. }
      rewrite <- Hops in Hg. specialize (Hg j Ha). unfold rem.
      destruct (nth (g_member (cs gst (grounds r w)) j) (scripts gst (grounds r w)) []); [discriminate|cbn; lia].
    - intros s HQ HT. apply (TSg_some stream); auto.
  Qed.
End GroupTheorem.
Print Assumptions group_next_result.

(* ---- a FutureGroup is drained: under the wake-driven executor every member comes out ---- *)
(* scripts of futures: Pending* then Ready *)
Fixpoint goodfg (sc: list step) : bool :=
  match sc with [] => false | s :: rest => match answer s with APend => goodfg rest | AReady _ => true | _ => false end end.

(* C: members held + outputs yielded so far; Z: the number of times None has been returned, unless the group is empty; B: a bound on every script length.  Invariant of polls and wake-ups (not of inserts and removes) *)
Definition Rf (C: nat) (Z: nat * nat) (B: nat) (s: gst) (sc: list (list step)) (rs: list out) : Prop :=
  gq s /\ g_stream s = false /\ (forall k, pend s k = true -> goodfg (nth (g_member s k) sc []) = true) /\
  g_len s = count_occ (g_ent s) /\ g_len s + nsome rs = C /\ (nnone rs = fst Z \/ g_len s = 0) /\ (fst Z <= nnone rs /\ snd Z <= nsome rs) /\ forall m, length (nth m sc []) <= B.

Section FDrain.
  Variable C : nat.
  Variable Z : nat * nat.
  Variable B : nat.
  Lemma popped_len (s: gst) (sc: list (list step)) i stp sc' : (stp, sc') = popped_of gst g_member s sc i -> (forall m, length (nth m sc []) <= B) -> forall m, length (nth m sc' []) <= B.
  Proof.
    unfold popped_of. intros E H m. destruct (nth (g_member s i) sc []) as [|x rest] eqn:En; inversion E; subst; [apply H|].
    destruct (Nat.eq_dec (g_member s i) m) as [<-|Hne]; [|rewrite nth_upd_other by auto; apply H].
    destruct (Nat.lt_ge_cases (g_member s i) (length sc)) as [L|G]; [rewrite nth_upd_same by exact L|rewrite nth_overflow by (rewrite upd_length; exact G); cbn; lia].
    specialize (H (g_member s i)). rewrite En in H. cbn in H. lia.
  Qed.
  Lemma Rf_head (s: gst) (sc: list (list step)) rs i stp sc' : g_awaited s i = true -> (stp, sc') = popped_of gst g_member s sc i -> Rf C Z B s sc rs ->
    exists rest, nth (g_member s i) sc [] = stp :: rest /\ sc' = upd sc (g_member s i) rest /\ g_member s i < length sc /\
                 ((answer stp = APend /\ goodfg rest = true) \/ exists r, answer stp = AReady r).
  Proof.
    intros Ha E (HQ & _ & Hg & _). specialize (Hg i Ha). unfold popped_of in E.
    destruct (nth (g_member s i) sc []) as [|x rest] eqn:En; [discriminate|]. inversion E; subst. exists rest. split; [reflexivity|]. split; [reflexivity|].
    split; [destruct (Nat.lt_ge_cases (g_member s i) (length sc)); auto; rewrite nth_overflow in En by assumption; discriminate|].
    cbn [goodfg] in Hg. destruct (answer x) as [|r|v| |]; try discriminate; [left; auto|right; eauto].
  Qed.
  Lemma Rf_other (s: gst) (sc: list (list step)) i rest k : W s -> pend s i = true -> pend s k = true -> k <> i -> nth (g_member s k) (upd sc (g_member s i) rest) [] = nth (g_member s k) sc [].
  Proof. intros HW Hi Hk Hne. apply nth_upd_other. intros X. apply Hne. symmetry. apply (w_inj s HW); auto; apply (w_pend s HW); auto. Qed.

  Lemma Rf_cont s sc rs i stp sc' s' e : g_awaited s i = true -> i < g_slots s -> (stp, sc') = popped_of gst g_member s sc i ->
    Rf C Z B s sc rs -> g_handle s i (answer stp) = (s', Cont, e) -> Rf C Z B s' sc' rs.
  Proof.
    intros Ha Hi E HR Eh. destruct (Rf_head s sc rs i stp sc' Ha E HR) as (rest & En & -> & Hm & Hans). pose proof (popped_len s sc i stp _ E) as Hl.
    destruct HR as (HQ & Hs & Hg & Hc & Hn & Hz & Hlo & Hb). pose proof HQ as [_ HW].
    destruct Hans as [[Hp Hgr]|[r Hr]]; [|rewrite Hr in Eh; destruct r; cbn in Eh; discriminate].
    rewrite Hp in Eh. cbn in Eh. inversion Eh; subst s' e. split; [exact HQ|]. split; [exact Hs|]. split; [|split; [exact Hc|split; [exact Hn|split; [exact Hz|split; [exact Hlo|apply Hl, Hb]]]]].
    intros k Hk. destruct (Nat.eq_dec k i) as [->|Hne]; [rewrite nth_upd_same by exact Hm; exact Hgr|rewrite (Rf_other s sc i rest k HW Ha Hk Hne); apply Hg, Hk].
  Qed.
  Lemma Rf_stop s sc rs i stp sc' s' r o e : g_awaited s i = true -> i < g_slots s -> (stp, sc') = popped_of gst g_member s sc i ->
    Rf C Z B s sc rs -> g_handle s i (answer stp) = (s', Stop r o, e) -> Rf C Z B (g_cleanup s') sc' (rs ++ [o]).
  Proof.
    intros Ha Hi E HR Eh. destruct (Rf_head s sc rs i stp sc' Ha E HR) as (rest & En & -> & Hm & Hans). pose proof (popped_len s sc i stp _ E) as Hl.
    destruct HR as (HQ & Hs & Hg & Hc & Hn & Hz & Hlo & Hb). pose proof HQ as [_ HW].
    destruct Hans as [[Hp _]|[rr Hr]]; [rewrite Hp in Eh; cbn in Eh; discriminate|].
    assert (Es : s' = vac_state s i true /\ exists v, o = OSome (Some i) [v]).
    { rewrite Hr in Eh. destruct rr; cbn in Eh; inversion Eh; subst; split; try reflexivity; eauto. }
    destruct Es as [-> [v ->]].
    assert (Ho : occb s i = true) by (apply (w_pend s HW); exact Ha). pose proof (occb_lt s i Ho) as Hk.
    pose proof (count_occ_upd (g_ent s) i (Vac (g_next s)) Hk) as Hcnt. unfold occb in Ho. destruct (nth i (g_ent s) (Vac 0)) as [m0|nx] eqn:Eni; [|discriminate]. cbn in Hcnt.
    split; [apply Q_cleanup'; pose proof (Q9 s i (AReady (ROk 0)) HQ Ha Hi) as X; exact X|].
    split; [exact Hs|]. split; [|split; [cbn; lia|split; [rewrite nsome_app; cbn; lia|split; [left; rewrite nnone_app; cbn; destruct Hz as [Hz|Hz]; lia|split; [rewrite nnone_app, nsome_app; cbn; lia|apply Hl, Hb]]]]].
    intros k Hk'. change (pend (g_cleanup (vac_state s i true)) k) with (pend (vac_state s i true) k) in Hk'.
    rewrite (vac_pend s (vac_state s i true) i) in Hk' by reflexivity. destruct (Nat.eqb_spec k i) as [Ek|Hne]; [discriminate|].
    change (g_member (g_cleanup (vac_state s i true)) k) with (g_member (vac_state s i true) k).
    rewrite (vac_member s (vac_state s i true) i) by (try reflexivity; exact Hne). rewrite (Rf_other s sc i rest k HW Ha Hk' Hne). apply Hg, Hk'.
  Qed.
  Lemma Rf_abort s sc rs i stp sc' s' e : g_awaited s i = true -> i < g_slots s -> (stp, sc') = popped_of gst g_member s sc i ->
    Rf C Z B s sc rs -> g_handle s i (answer stp) = (s', Abort, e) -> Rf C Z B s sc' rs.
  Proof.
    intros Ha Hi E HR Eh. destruct (Rf_head s sc rs i stp sc' Ha E HR) as (rest & En & -> & Hm & Hans).
    destruct Hans as [[Hp _]|[rr Hr]]; [rewrite Hp in Eh; cbn in Eh; discriminate|rewrite Hr in Eh; destruct rr; cbn in Eh; discriminate].
  Qed.
  Lemma Rf_same s s' sc rs : gq s' -> g_stream s' = g_stream s -> g_ent s' = g_ent s -> g_states s' = g_states s -> g_len s' = g_len s -> Rf C Z B s sc rs -> Rf C Z B s' sc rs.
  Proof. intros HQ' E0 E1 E2 E3 (HQ & Hs & Hg & Hc & Hn & Hz & Hlo & Hb). split; [exact HQ'|]. unfold pend, g_member in *. rewrite E0, E1, E2, E3. destruct Hlo. repeat split; assumption. Qed.
  Lemma Rf_order s is s1 sc rs : g_order s = Some (is, s1) -> Rf C Z B s sc rs -> Rf C Z B s1 sc rs.
  Proof. intros E HR. assert (HQ : gq s1) by (eapply Q14; [apply HR|exact E]). unfold g_order in E. inversion E; subst. revert HR. apply Rf_same; auto. Qed.
  Lemma Rf_finish s sc rs : Rf C Z B s sc rs -> match snd (g_finish s) with Some o => Rf C Z B (fst (g_finish s)) sc (rs ++ [o]) | None => Rf C Z B (fst (g_finish s)) sc rs end.
  Proof.
    intros HR. rewrite finish_cleanup. unfold g_finish. assert (Hs : g_stream s = false) by apply HR. rewrite Hs. cbn [andb snd].
    assert (HQc : gq (g_cleanup s)) by (apply Q_cleanup'; apply HR). revert HR. apply Rf_same; auto.
  Qed.
  Lemma Rf_pre s sc rs o : Rf C Z B s sc rs -> g_pre_exit s = Some o -> Rf C Z B s sc (rs ++ [o]).
  Proof.
    intros (HQ & Hs & Hg & Hc & Hn & Hz & Hlo & Hb) E. unfold g_pre_exit in E. destruct (Nat.eqb_spec (g_len s) 0) as [E0|]; inversion E; subst.
    split; [exact HQ|]. split; [exact Hs|]. split; [exact Hg|]. split; [exact Hc|]. split; [rewrite nsome_app; cbn; lia|]. split; [right; exact E0|]. split; [rewrite nnone_app, nsome_app; cbn; lia|exact Hb].
  Qed.
  Lemma g_hnores s i a : no_results (snd (g_handle s i a)).
  Proof. destruct a as [|[v|v]|v| |]; reflexivity. Qed.
  Lemma g_dnores s : no_results (g_drop s).
  Proof. unfold no_results, g_drop. induction (g_ent s) as [|[m|nx] l IH]; cbn; auto. Qed.
End FDrain.

Lemma okg_goodfg sc : (forall st, In st sc -> okg false (answer st)) -> goodg sc = true -> goodfg sc = true.
Proof.
  induction sc as [|x rest IH]; intros Hok Hg; [discriminate|]. cbn [goodg goodfg] in *.
  destruct (Hok x (or_introl eq_refl)) as [Hnp [Hf _]]. destruct (Hf eq_refl) as [He Hi].
  destruct (answer x) as [|r|v| |].
  - apply IH; auto. intros st Hin. apply Hok. right. exact Hin.
  - reflexivity.
  - exfalso. apply (Hi v). reflexivity.
  - exfalso. apply He. reflexivity.
  - discriminate.
Qed.

Section FDrainRun.
  Variable cap0 : nat.
  Notation GLive := (LiveI gst g_slots g_member occb g_nmem (okg false)).
  Notation gstep := (step_op gst g_slots g_awaited g_member g_handle false false g_order g_pre_exit (fun _ => true) g_finish g_cleanup g_drop (fun _ => false) g_mutate).
  Notation grun := (run_ops gst g_slots g_awaited g_member g_handle false false g_order g_pre_exit (fun _ => true) g_finish g_cleanup g_drop (fun _ => false) g_mutate).
  Notation ground := (round gst g_slots g_awaited g_member g_handle false false g_order g_pre_exit (fun _ => true) g_finish g_cleanup g_drop (fun _ => false) g_mutate).
  Notation grounds := (rounds gst g_slots g_awaited g_member g_handle false false g_order g_pre_exit (fun _ => true) g_finish g_cleanup g_drop (fun _ => false) g_mutate).
  Definition RWf (C: nat) (Z: nat * nat) (B: nat) (w: world gst) := Rf C Z B (cs _ w) (scripts _ w) (results (tr _ w)).

  Lemma RWf_step C Z B w o : nomut o -> RWf C Z B w -> RWf C Z B (gstep w o).
  Proof.
    intros Hn HR. destruct o as [| |c k| |m a sc]; cbn [step_op]; try contradiction.
    1,2: destruct (finished gst w || dropped gst w); [exact HR|];
      apply (poll_R gst g_slots g_awaited g_member g_handle false false g_order g_pre_exit (fun _ => true) g_finish g_cleanup g_drop (fun _ => false) gq
               G1 G8 Q9 G10 (fun s is s1 H => G12 s is s1 (proj1 H)) (Rf C Z B) (Rf_cont C Z B) (Rf_stop C Z B) (Rf_abort C Z B) (Rf_order C Z B) (Rf_finish C Z B) (Rf_pre C Z B)
               (fun s sc rs H => proj1 H) g_hnores g_dnores); exact HR.
    destruct (fire_handle_pass gst g_slots (emit gst w [EO]) c k) as [Hc Hs]. unfold RWf. rewrite Hc, Hs, (fire_handle_res gst g_slots). cbn [cs scripts emit tr].
    rewrite results_app. cbn. rewrite app_nil_r. exact HR.
  Qed.
  Lemma RWf_run C Z B ops : Forall nomut ops -> forall w, RWf C Z B w -> RWf C Z B (grun w ops).
  Proof. induction 1 as [|o r Ho Hr IH]; intros w HR; [exact HR|]. cbn [run_ops fold_left]. apply IH, RWf_step; auto. Qed.

  (* the worlds reachable by histories whose inserted members are futures *)
  Definition Reach (w: world gst) := exists ops, Forall (goodop false) ops /\ w = grun (gw0 false cap0) ops.
  Lemma Reach_run w ops : Reach w -> Forall nomut ops -> Reach (grun w ops).
  Proof.
    intros (ops0 & H0 & ->) Hn. exists (ops0 ++ ops). split.
    - apply Forall_app. split; [exact H0|]. eapply Forall_impl; [|exact Hn]. apply goodop_nomut.
    - unfold run_ops. rewrite fold_left_app. reflexivity.
  Qed.
  Lemma Reach_rounds r w : Reach w -> Reach (grounds r w).
  Proof.
    intros H. destruct (rounds_is_run' gst g_slots g_awaited g_member g_handle false false g_order g_pre_exit (fun _ => true) g_finish g_cleanup g_drop (fun _ => false) g_mutate r w) as (ops' & -> & Hn).
    apply Reach_run; auto.
  Qed.
  Lemma Reach_RI w : Reach w -> RI false w.
  Proof. intros (ops & Hok & ->). apply RI_run; [apply RI_init|exact Hok]. Qed.

  Lemma results_ext (w w': world gst) : ext gst w w' -> exists x, results (tr _ w') = results (tr _ w) ++ x.
  Proof. intros [u Hu]. rewrite Hu, results_app. eauto. Qed.

  (* one more output: from a non-empty reachable FutureGroup, within B rounds the executor is at a reachable world holding fewer members *)
  Lemma fgroup_progress w B : Reach w -> finished _ w = false -> dropped _ w = false -> g_len (cs _ w) <> 0 ->
    (forall m, length (nth m (scripts _ w) []) <= B) -> 1 <= B ->
    exists r, r < B /\ let w' := grounds (S r) w in
      dropped _ w' = false /\ finished _ w' = false /\ g_len (cs _ w') < g_len (cs _ w) /\ forall m, length (nth m (scripts _ w') []) <= B.
  Proof.
    intros HR Hf Hd Hlen HB HB1. pose proof (Reach_RI w HR) as (HI & HL & HP). destruct HR as (ops & Hok & Ew).
    pose proof (group_next_result false cap0 ops B Hok) as Hnext. cbv zeta in Hnext. rewrite <- Ew in Hnext.
    destruct (Hnext Hf Hd Hlen HB HB1) as (r & Hr & Hd1 & _ & Hfin & u & o & Hu). clear Hnext.
    exists r. split; [exact Hr|]. cbv zeta.
    (* the invariant Rf along the rounds *)
    pose proof (group_trace_inv true false cap0 ops) as HT. cbv zeta in HT. unfold group_run' in HT. fold (gw0 false cap0) in HT. rewrite <- Ew in HT. destruct (HT Hd) as [HG _].
    set (C := g_len (cs _ w) + nsome (results (tr _ w))). set (Z := (nnone (results (tr _ w)), nsome (results (tr _ w)))).
    assert (HR0 : RWf C Z B w).
    { destruct HP as (HQ & Hs & Hn & Hg). destruct HL as (_ & Hnp & _). split; [exact HQ|]. split; [exact Hs|]. split.
      - intros k Hk. apply okg_goodfg; [intros st Hin; apply (Hnp _ st Hin)|apply Hg, Hk].
      - split; [apply (sl_len _ (G_slab _ _ HG))|]. split; [reflexivity|]. split; [left; reflexivity|]. split; [cbn; lia|exact HB]. }
    destruct (rounds_is_run' gst g_slots g_awaited g_member g_handle false false g_order g_pre_exit (fun _ => true) g_finish g_cleanup g_drop (fun _ => false) g_mutate (S r) w) as (ops1 & E1 & Hn1).
    destruct (rounds_is_run' gst g_slots g_awaited g_member g_handle false false g_order g_pre_exit (fun _ => true) g_finish g_cleanup g_drop (fun _ => false) g_mutate r w) as (opsr & Er & Hnr).
    pose proof (RWf_run C Z B ops1 Hn1 w HR0) as HR1. rewrite <- E1 in HR1.
    pose proof (RWf_run C Z B opsr Hnr w HR0) as HRr. rewrite <- Er in HRr.
    destruct HR1 as (_ & _ & _ & _ & Hc1 & Hz1 & _ & Hb1). destruct HRr as (_ & _ & _ & _ & Hcr & Hzr & [Hlr1 Hlr2] & _).
    split; [exact Hd1|]. split.
    { (* not finished: no result of a group is final *)
      rewrite rounds_S.
      eapply (round_unfinished gst g_slots g_awaited g_member g_handle false false g_order g_pre_exit (fun _ => true) g_finish g_cleanup g_drop (fun _ => false) gq) with (occ := occb) (nmem := g_nmem) (okans := okg false) (US := USg false);
        try first [exact G1|exact G2|exact G3|exact (fun s i a s' r o e H => G4 s i a s' r o e (proj1 H))|exact G5|exact (fun s i a s' o e H => G6 s i a s' o e (proj1 H))|exact G7|exact G8|exact Q9
                  |exact G10|exact G11|exact (fun s is s1 H => G12 s is s1 (proj1 H))|exact (fun s is s1 H => G13 s is s1 (proj1 H))|exact Q14|exact G15|exact (fun s i H => G16 s i (proj1 H))|exact Q17
                  |exact (fun _ => eq_refl)|exact (fun _ _ _ => eq_refl)|exact Q_cleanup'|exact g_mutate_inv'|exact g_aw_occ|exact g_member_inj|exact g_member_lt|exact handle_gstable|exact order_gstable
                  |exact finish_gstable|exact after_gstable|exact g_abort_panic|exact (okg_np false)|exact (okg_pend false)|exact (USg_cont false)].
      - apply (Reach_RI _ (Reach_rounds r w (ex_intro _ ops (conj Hok Ew)))).
      - apply (Reach_RI _ (Reach_rounds r w (ex_intro _ ops (conj Hok Ew)))).
      - apply Hfin. lia.
      - rewrite <- rounds_S. exact Hd1. }
    split; [|exact Hb1].
    (* fewer members: the results grew by o; either o is an output, or it is None and the group is empty *)
    rewrite Hu, !results_app in Hc1, Hz1. cbn [results flat_map] in Hc1, Hz1.
    set (w1 := grounds (S r) w) in *. set (wr := grounds r w) in *. clearbody w1 wr. unfold Z in *. cbn [fst snd] in *. rewrite !nsome_app in Hc1. rewrite !nnone_app in Hz1. unfold C in Hc1, Hcr.
    (* o = None: the group was empty when it was returned; otherwise one more output *)
    destruct o; cbn in Hc1, Hz1; lia.
  Qed.

  (* every member comes out: a reachable FutureGroup holding n members is empty after at most n * B rounds of the wake-driven executor, and the world
     reached is again one of the histories every C11 theorem speaks about (so: each member's output has been yielded exactly once, with its key) *)
  Theorem fgroup_drains B : 1 <= B -> forall n w, Reach w -> finished _ w = false -> dropped _ w = false -> g_len (cs _ w) <= n ->
    (forall m, length (nth m (scripts _ w) []) <= B) ->
    exists R, R <= n * B /\ let w' := grounds R w in
      dropped _ w' = false /\ finished _ w' = false /\ g_len (cs _ w') = 0 /\ Reach w'.
  Proof.
    intros HB1. induction n as [|n IH]; intros w HR Hf Hd Hn HB.
    - exists 0. split; [lia|]. cbn. repeat split; auto. lia.
    - destruct (Nat.eq_dec (g_len (cs _ w)) 0) as [E0|Hne]; [exists 0; split; [lia|]; cbn; repeat split; auto|].
      destruct (fgroup_progress w B HR Hf Hd Hne HB HB1) as (r & Hr & Hd1 & Hf1 & Hl1 & Hb1).
      destruct (IH (grounds (S r) w) (Reach_rounds (S r) w HR) Hf1 Hd1 ltac:(lia) Hb1) as (R & HRb & Hd2 & Hf2 & Hl2 & HR2).
      exists (S r + R). split; [nia|]. cbv zeta.
      rewrite (rounds_add gst g_slots g_awaited g_member g_handle false false g_order g_pre_exit (fun _ => true) g_finish g_cleanup g_drop (fun _ => false) g_mutate (S r) R w).
      repeat split; auto.
  Qed.
End FDrainRun.
Print Assumptions fgroup_drains.

(* ---- a StreamGroup is drained: every item of every member comes out, then the group is empty ---- *)
(* scripts of streams: (Pending | Item)* then End *)
Fixpoint goodsg (sc: list step) : bool :=
  match sc with [] => false | s :: rest => match answer s with APend | AItem _ => goodsg rest | AEnd => true | _ => false end end.
Lemma okg_goodsg sc : (forall st, In st sc -> okg true (answer st)) -> goodg sc = true -> goodsg sc = true.
Proof.
  induction sc as [|x rest IH]; intros Hok Hg; [discriminate|]. cbn [goodg goodsg] in *.
  destruct (Hok x (or_introl eq_refl)) as [Hnp [_ Hs]].
  destruct (answer x) as [|r|v| |].
  - apply IH; auto. intros st Hin. apply Hok. right. exact Hin.
  - exfalso. apply (Hs eq_refl r). reflexivity.
  - apply IH; auto. intros st Hin. apply Hok. right. exact Hin.
  - reflexivity.
  - discriminate.
Qed.

(* C: items still scripted + outputs returned so far; N0: a lower bound on the outputs; B: a bound on every script length *)
Definition Rs (C N0 B: nat) (s: gst) (sc: list (list step)) (rs: list out) : Prop :=
  gq s /\ g_stream s = true /\ (forall k, pend s k = true -> goodsg (nth (g_member s k) sc []) = true) /\
  items_total sc + nsome rs = C /\ N0 <= nsome rs /\ forall m, length (nth m sc []) <= B.

Section SDrain.
  Variables C N0 B : nat.
  Lemma Rs_head (s: gst) (sc: list (list step)) rs i stp sc' : g_awaited s i = true -> (stp, sc') = popped_of gst g_member s sc i -> Rs C N0 B s sc rs ->
    exists rest, nth (g_member s i) sc [] = stp :: rest /\ sc' = upd sc (g_member s i) rest /\ g_member s i < length sc /\
                 ((answer stp = APend /\ goodsg rest = true) \/ (exists v, answer stp = AItem v /\ goodsg rest = true) \/ answer stp = AEnd).
  Proof.
    intros Ha E (HQ & _ & Hg & _). specialize (Hg i Ha). unfold popped_of in E.
    destruct (nth (g_member s i) sc []) as [|x rest] eqn:En; [discriminate|]. inversion E; subst. exists rest. split; [reflexivity|]. split; [reflexivity|].
    split; [destruct (Nat.lt_ge_cases (g_member s i) (length sc)); auto; rewrite nth_overflow in En by assumption; discriminate|].
    cbn [goodsg] in Hg. destruct (answer x) as [|r|v| |]; try discriminate; [left; auto|right; left; eauto|right; right; reflexivity].
  Qed.
  Lemma items_upd (sc: list (list step)) m x rest : m < length sc -> nth m sc [] = x :: rest ->
    items_total (upd sc m rest) + (match answer x with AItem _ => 1 | _ => 0 end) = items_total sc.
  Proof.
    intros Hm En. unfold items_total. pose proof (list_sum_upd nitems sc m rest [] Hm) as H. rewrite En in H.
    unfold nitems at 2 in H. cbn [filter] in H. destruct (answer x); cbn [length] in H; fold (nitems rest) in H; lia.
  Qed.

  Lemma Rs_cont s sc rs i stp sc' s' e : g_awaited s i = true -> i < g_slots s -> (stp, sc') = popped_of gst g_member s sc i ->
    Rs C N0 B s sc rs -> g_handle s i (answer stp) = (s', Cont, e) -> Rs C N0 B s' sc' rs.
  Proof.
    intros Ha Hi E HR Eh. destruct (Rs_head s sc rs i stp sc' Ha E HR) as (rest & En & -> & Hm & Hans). pose proof (popped_len B s sc i stp _ E) as Hl.
    destruct HR as (HQ & Hs & Hg & Hn & Hlo & Hb). pose proof HQ as [_ HW]. pose proof (items_upd sc _ stp rest Hm En) as Hit.
    destruct Hans as [[Hp Hgr]|[(v & Hv & _)|He]].
    - rewrite Hp in Eh, Hit. cbn in Eh. inversion Eh; subst s' e. split; [exact HQ|]. split; [exact Hs|]. split; [|split; [lia|split; [exact Hlo|apply Hl, Hb]]].
      intros k Hk. destruct (Nat.eq_dec k i) as [->|Hne]; [rewrite nth_upd_same by exact Hm; exact Hgr|rewrite (Rf_other s sc i rest k HW Ha Hk Hne); apply Hg, Hk].
    - rewrite Hv in Eh. cbn in Eh. discriminate.
    - rewrite He in Eh, Hit. pose proof (g_handle_cases s i AEnd) as H. cbv zeta in H. rewrite H in Eh. inversion Eh; subst s' e.
      split; [pose proof (Q9 s i AEnd HQ Ha Hi) as X; rewrite H in X; exact X|]. split; [exact Hs|]. split; [|split; [lia|split; [exact Hlo|apply Hl, Hb]]].
      intros k Hk. rewrite (vac_pend s (vac_state s i false) i) in Hk by reflexivity. destruct (Nat.eqb_spec k i) as [Ek|Hne]; [discriminate|].
      rewrite (vac_member s (vac_state s i false) i) by (try reflexivity; exact Hne). rewrite (Rf_other s sc i rest k HW Ha Hk Hne). apply Hg, Hk.
  Qed.
  Lemma Rs_stop s sc rs i stp sc' s' r o e : g_awaited s i = true -> i < g_slots s -> (stp, sc') = popped_of gst g_member s sc i ->
    Rs C N0 B s sc rs -> g_handle s i (answer stp) = (s', Stop r o, e) -> Rs C N0 B (g_cleanup s') sc' (rs ++ [o]).
  Proof.
    intros Ha Hi E HR Eh. destruct (Rs_head s sc rs i stp sc' Ha E HR) as (rest & En & -> & Hm & Hans). pose proof (popped_len B s sc i stp _ E) as Hl.
    destruct HR as (HQ & Hs & Hg & Hn & Hlo & Hb). pose proof HQ as [_ HW]. pose proof (items_upd sc _ stp rest Hm En) as Hit.
    destruct Hans as [[Hp _]|[(v & Hv & Hgr)|He]]; [rewrite Hp in Eh; cbn in Eh; discriminate| |rewrite He in Eh; cbn in Eh; discriminate].
    rewrite Hv in Eh, Hit. cbn in Eh. inversion Eh; subst s' r o e.
    assert (HQc : gq (g_cleanup s)) by (apply Q_cleanup'; exact HQ).
    split; [exact HQc|]. split; [exact Hs|]. split; [|split; [rewrite nsome_app; cbn; lia|split; [rewrite nsome_app; lia|apply Hl, Hb]]].
    intros k Hk. change (pend (g_cleanup s) k) with (pend s k) in Hk. change (g_member (g_cleanup s) k) with (g_member s k).
    destruct (Nat.eq_dec k i) as [->|Hne]; [rewrite nth_upd_same by exact Hm; exact Hgr|rewrite (Rf_other s sc i rest k HW Ha Hk Hne); apply Hg, Hk].
  Qed.
  Lemma Rs_abort s sc rs i stp sc' s' e : g_awaited s i = true -> i < g_slots s -> (stp, sc') = popped_of gst g_member s sc i ->
    Rs C N0 B s sc rs -> g_handle s i (answer stp) = (s', Abort, e) -> Rs C N0 B s sc' rs.
  Proof.
    intros Ha Hi E HR Eh. destruct (Rs_head s sc rs i stp sc' Ha E HR) as (rest & En & -> & Hm & Hans).
    destruct Hans as [[Hp _]|[(v & Hv & _)|He]]; [rewrite Hp in Eh|rewrite Hv in Eh|rewrite He in Eh]; cbn in Eh; discriminate.
  Qed.
  Lemma Rs_same s s' sc rs : gq s' -> g_stream s' = g_stream s -> g_ent s' = g_ent s -> g_states s' = g_states s -> Rs C N0 B s sc rs -> Rs C N0 B s' sc rs.
  Proof. intros HQ' E0 E1 E2 (HQ & Hs & Hg & Hn & Hlo & Hb). split; [exact HQ'|]. unfold pend, g_member in *. rewrite E0, E1, E2. repeat split; assumption. Qed.
  Lemma Rs_order s is s1 sc rs : g_order s = Some (is, s1) -> Rs C N0 B s sc rs -> Rs C N0 B s1 sc rs.
  Proof. intros E HR. assert (HQ : gq s1) by (eapply Q14; [apply HR|exact E]). unfold g_order in E. inversion E; subst. revert HR. apply Rs_same; auto. Qed.
  Lemma Rs_none s sc rs : Rs C N0 B s sc rs -> Rs C N0 B s sc (rs ++ [ONone]).
  Proof. intros (HQ & Hs & Hg & Hn & Hlo & Hb). split; [exact HQ|]. split; [exact Hs|]. split; [exact Hg|]. rewrite nsome_app. cbn. split; [lia|]. split; [lia|exact Hb]. Qed.
  Lemma Rs_finish s sc rs : Rs C N0 B s sc rs -> match snd (g_finish s) with Some o => Rs C N0 B (fst (g_finish s)) sc (rs ++ [o]) | None => Rs C N0 B (fst (g_finish s)) sc rs end.
  Proof.
    intros HR. rewrite finish_cleanup. assert (HQc : gq (g_cleanup s)) by (apply Q_cleanup'; apply HR).
    assert (HRc : Rs C N0 B (g_cleanup s) sc rs) by (revert HR; apply Rs_same; auto).
    unfold g_finish. destruct (g_stream s && (g_done s =? g_count s)); cbn [snd]; [apply Rs_none; exact HRc|exact HRc].
  Qed.
  Lemma Rs_pre s sc rs o : Rs C N0 B s sc rs -> g_pre_exit s = Some o -> Rs C N0 B s sc (rs ++ [o]).
  Proof. intros HR E. unfold g_pre_exit in E. destruct (g_len s =? 0); inversion E; subst. apply Rs_none, HR. Qed.
End SDrain.

Section SDrainRun.
  Variable cap0 : nat.
  Notation gstep := (step_op gst g_slots g_awaited g_member g_handle false false g_order g_pre_exit (fun _ => true) g_finish g_cleanup g_drop (fun _ => false) g_mutate).
  Notation grun := (run_ops gst g_slots g_awaited g_member g_handle false false g_order g_pre_exit (fun _ => true) g_finish g_cleanup g_drop (fun _ => false) g_mutate).
  Notation grounds := (rounds gst g_slots g_awaited g_member g_handle false false g_order g_pre_exit (fun _ => true) g_finish g_cleanup g_drop (fun _ => false) g_mutate).
  Definition RWs (C N0 B: nat) (w: world gst) := Rs C N0 B (cs _ w) (scripts _ w) (results (tr _ w)).

  Lemma RWs_step C N0 B w o : nomut o -> RWs C N0 B w -> RWs C N0 B (gstep w o).
  Proof.
    intros Hn HR. destruct o as [| |c k| |m a sc]; cbn [step_op]; try contradiction.
    1,2: destruct (finished gst w || dropped gst w); [exact HR|];
      apply (poll_R gst g_slots g_awaited g_member g_handle false false g_order g_pre_exit (fun _ => true) g_finish g_cleanup g_drop (fun _ => false) gq
               G1 G8 Q9 G10 (fun s is s1 H => G12 s is s1 (proj1 H)) (Rs C N0 B) (Rs_cont C N0 B) (Rs_stop C N0 B) (Rs_abort C N0 B) (Rs_order C N0 B) (Rs_finish C N0 B) (Rs_pre C N0 B)
               (fun s sc rs H => proj1 H) g_hnores g_dnores); exact HR.
    destruct (fire_handle_pass gst g_slots (emit gst w [EO]) c k) as [Hc Hs]. unfold RWs. rewrite Hc, Hs, (fire_handle_res gst g_slots). cbn [cs scripts emit tr].
    rewrite results_app. cbn. rewrite app_nil_r. exact HR.
  Qed.
  Lemma RWs_run C N0 B ops : Forall nomut ops -> forall w, RWs C N0 B w -> RWs C N0 B (grun w ops).
  Proof. induction 1 as [|o r Ho Hr IH]; intros w HR; [exact HR|]. cbn [run_ops fold_left]. apply IH, RWs_step; auto. Qed.

  (* the worlds reachable by histories whose inserted members are streams *)
  Definition ReachS (w: world gst) := exists ops, Forall (goodop true) ops /\ w = grun (gw0 true cap0) ops.
  Lemma ReachS_rounds r w : ReachS w -> ReachS (grounds r w).
  Proof.
    intros (ops0 & H0 & ->).
    destruct (rounds_is_run' gst g_slots g_awaited g_member g_handle false false g_order g_pre_exit (fun _ => true) g_finish g_cleanup g_drop (fun _ => false) g_mutate r (grun (gw0 true cap0) ops0)) as (ops' & -> & Hn).
    exists (ops0 ++ ops'). split.
    - apply Forall_app. split; [exact H0|]. eapply Forall_impl; [|exact Hn]. apply goodop_nomut.
    - unfold run_ops. rewrite fold_left_app. reflexivity.
  Qed.
  Lemma ReachS_RI w : ReachS w -> RI true w.
  Proof. intros (ops & Hok & ->). apply RI_run; [apply RI_init|exact Hok]. Qed.

  (* a None is only ever returned by an empty group (C12_none_iff_empty and C12_len, read at the last event of the trace) *)
  Lemma none_means_empty ops t' : let w := grun (gw0 true cap0) ops in dropped _ w = false -> strip (tr _ w) = t' ++ [EEndR ONone] -> g_len (cs _ w) = 0.
  Proof.
    intros w Hd Et. pose proof (group_none_iff true true cap0 ops Hd) as HN. pose proof (group_trace_inv true true cap0 ops Hd) as [HG _].
    unfold group_run' in HN, HG. fold (gw0 true cap0) in HN, HG. fold w in HN, HG. rewrite Et in HN. rewrite chkN_app in HN. apply andb_true_iff in HN as [_ HN]. cbn in HN.
    apply andb_true_iff in HN as [HN _]. apply Nat.eqb_eq in HN.
    pose proof (G_len _ _ HG) as HL. rewrite Et, inserted_app, droppedl_app, !app_length in HL. cbn in HL. lia.
  Qed.

  (* from a non-empty reachable StreamGroup, within B rounds: one item fewer is scripted, or the group is empty *)
  Lemma sgroup_progress w B : ReachS w -> finished _ w = false -> dropped _ w = false -> g_len (cs _ w) <> 0 ->
    (forall m, length (nth m (scripts _ w) []) <= B) -> 1 <= B ->
    exists r, r < B /\ let w' := grounds (S r) w in
      dropped _ w' = false /\ finished _ w' = false /\
      (g_len (cs _ w') = 0 \/ items_total (scripts _ w') < items_total (scripts _ w)) /\ items_total (scripts _ w') <= items_total (scripts _ w) /\
      forall m, length (nth m (scripts _ w') []) <= B.
  Proof.
    intros HR Hf Hd Hlen HB HB1. pose proof (ReachS_RI w HR) as (HI & HL & HP). pose proof HR as (ops & Hok & Ew).
    pose proof (group_next_result true cap0 ops B Hok) as Hnext. cbv zeta in Hnext. rewrite <- Ew in Hnext.
    destruct (Hnext Hf Hd Hlen HB HB1) as (r & Hr & Hd1 & _ & Hfin & u & o & Hu). clear Hnext.
    exists r. split; [exact Hr|]. cbv zeta.
    set (C := items_total (scripts _ w) + nsome (results (tr _ w))). set (N0 := nsome (results (tr _ w))).
    assert (HR0 : RWs C N0 B w).
    { destruct HP as (HQ & Hs & Hn & Hg). destruct HL as (_ & Hnp & _). split; [exact HQ|]. split; [exact Hs|]. split.
      - intros k Hk. apply okg_goodsg; [intros st Hin; apply (Hnp _ st Hin)|apply Hg, Hk].
      - split; [reflexivity|]. split; [apply Nat.le_refl|exact HB]. }
    destruct (rounds_is_run' gst g_slots g_awaited g_member g_handle false false g_order g_pre_exit (fun _ => true) g_finish g_cleanup g_drop (fun _ => false) g_mutate (S r) w) as (ops1 & E1 & Hn1).
    destruct (rounds_is_run' gst g_slots g_awaited g_member g_handle false false g_order g_pre_exit (fun _ => true) g_finish g_cleanup g_drop (fun _ => false) g_mutate r w) as (opsr & Er & Hnr).
    pose proof (RWs_run C N0 B ops1 Hn1 w HR0) as HR1. rewrite <- E1 in HR1.
    pose proof (RWs_run C N0 B opsr Hnr w HR0) as HRr. rewrite <- Er in HRr.
    destruct HR1 as (_ & _ & _ & Hc1 & Hlo1 & Hb1). destruct HRr as (_ & _ & _ & Hcr & Hlor & _).
    split; [exact Hd1|]. split.
    { rewrite rounds_S.
      eapply (round_unfinished gst g_slots g_awaited g_member g_handle false false g_order g_pre_exit (fun _ => true) g_finish g_cleanup g_drop (fun _ => false) gq) with (occ := occb) (nmem := g_nmem) (okans := okg true) (US := USg true);
        try first [exact G1|exact G2|exact G3|exact (fun s i a s' r o e H => G4 s i a s' r o e (proj1 H))|exact G5|exact (fun s i a s' o e H => G6 s i a s' o e (proj1 H))|exact G7|exact G8|exact Q9
                  |exact G10|exact G11|exact (fun s is s1 H => G12 s is s1 (proj1 H))|exact (fun s is s1 H => G13 s is s1 (proj1 H))|exact Q14|exact G15|exact (fun s i H => G16 s i (proj1 H))|exact Q17
                  |exact (fun _ => eq_refl)|exact (fun _ _ _ => eq_refl)|exact Q_cleanup'|exact g_mutate_inv'|exact g_aw_occ|exact g_member_inj|exact g_member_lt|exact handle_gstable|exact order_gstable
                  |exact finish_gstable|exact after_gstable|exact g_abort_panic|exact (okg_np true)|exact (okg_pend true)|exact (USg_cont true)].
      - apply (ReachS_RI _ (ReachS_rounds r w HR)).
      - apply (ReachS_RI _ (ReachS_rounds r w HR)).
      - apply Hfin. lia.
      - rewrite <- rounds_S. exact Hd1. }
    split; [|split; [|exact Hb1]].
    - (* the result is an item (one scripted item fewer), or None (the group is empty) *)
      destruct (ReachS_rounds (S r) w HR) as (opsx & Hokx & Ex).
      assert (Hnone : o = ONone -> g_len (cs _ (grounds (S r) w)) = 0).
      { intros ->. rewrite Ex. apply (none_means_empty opsx (strip (tr _ (grounds r w) ++ u))); [rewrite <- Ex; exact Hd1|].
        rewrite <- Ex, Hu, app_assoc, strip_app. reflexivity. }
      rewrite Hu, !results_app, !nsome_app in Hc1. cbn [results flat_map] in Hc1.
      set (w1 := grounds (S r) w) in *. set (wr := grounds r w) in *. clearbody w1 wr. unfold C, N0 in *.
      destruct o; cbn in Hc1; try (right; lia). left. apply Hnone. reflexivity.
    - unfold C, N0 in *. lia.
  Qed.

  (* every item of every member comes out and the group becomes empty: within (n + 1) * B rounds, n the number of items still scripted *)
  Theorem sgroup_drains B : 1 <= B -> forall n w, ReachS w -> finished _ w = false -> dropped _ w = false -> items_total (scripts _ w) <= n ->
    (forall m, length (nth m (scripts _ w) []) <= B) ->
    exists R, R <= (n + 1) * B /\ let w' := grounds R w in
      dropped _ w' = false /\ finished _ w' = false /\ g_len (cs _ w') = 0 /\ ReachS w'.
  Proof.
    intros HB1. induction n as [|n IH]; intros w HR Hf Hd Hn HB;
      (destruct (Nat.eq_dec (g_len (cs _ w)) 0) as [E0|Hne]; [exists 0; split; [lia|]; cbn; repeat split; auto|]);
      destruct (sgroup_progress w B HR Hf Hd Hne HB HB1) as (r & Hr & Hd1 & Hf1 & Hprog & Hmono & Hb1).
    - destruct Hprog as [Hz|Hlt]; [|lia]. exists (S r). split; [lia|]. cbv zeta. repeat split; auto. apply ReachS_rounds; exact HR.
    - destruct Hprog as [Hz|Hlt].
      + exists (S r). split; [nia|]. cbv zeta. repeat split; auto. apply ReachS_rounds; exact HR.
      + destruct (IH (grounds (S r) w) (ReachS_rounds (S r) w HR) Hf1 Hd1 ltac:(lia) Hb1) as (R & HRb & Hd2 & Hf2 & Hl2 & HR2).
        exists (S r + R). split; [nia|]. cbv zeta.
        rewrite (rounds_add gst g_slots g_awaited g_member g_handle false false g_order g_pre_exit (fun _ => true) g_finish g_cleanup g_drop (fun _ => false) g_mutate (S r) R w).
        repeat split; auto.
  Qed.
End SDrainRun.
Print Assumptions sgroup_drains.
