From Coq Require Import List Arith Lia Bool.
Import ListNotations.
Require Import ScanFull InstsFull.

Lemma nth_upd_same' {A} (l: list A) i x d : nth i (upd l i x) d = if i <? length l then x else d.
Proof.
  destruct (i <? length l) eqn:E; [apply Nat.ltb_lt in E; apply nth_upd_same; auto|].
  apply Nat.ltb_ge in E. apply nth_overflow. rewrite upd_length. auto.
Qed.
Lemma repeat_nth {A} (x d: A) n i : i < n -> nth i (repeat x n) d = x.
Proof. revert i; induction n; destruct i; cbn; intros; auto; try lia. apply IHn; lia. Qed.

(* ======================= merge ======================= *)
Definition m_Q (s: mst) := m_n s = 0 \/ m_offset s < m_n s.
Lemma m_aw_upd s i k c : m_awaited {| m_pst := upd (m_pst s) i PNone; m_complete := c; m_offset := m_offset s |} k
  = if Nat.eqb k i then false else m_awaited s k.
Proof.
  unfold m_awaited; cbn. destruct (Nat.eqb_spec k i) as [->|Hne].
  - rewrite nth_upd_same'. destruct (i <? _); auto.
  - rewrite nth_upd_other; auto.
Qed.
Lemma M1 s i a : m_n (fst (fst (m_handle s i a))) = m_n s.
Proof. destruct a as [|r|v| |]; cbn; auto. destruct (_ =? _); cbn; unfold m_n; cbn; apply upd_length. Qed.
Lemma M2 s i a s' e : m_handle s i a = (s', Cont, e) -> forall j, j <> i -> m_awaited s' j = m_awaited s j.
Proof.
  destruct a as [|r|v| |]; cbn; intros E j Hne; try (inversion E; subst; auto; fail).
  destruct (_ =? _); inversion E; subst. rewrite m_aw_upd. destruct (Nat.eqb_spec j i); congruence.
Qed.
Lemma M3 s i a s' e : m_handle s i a = (s', Cont, e) -> m_awaited s' i = true -> m_awaited s i = true.
Proof.
  destruct a as [|r|v| |]; cbn; intros E H; try (inversion E; subst; auto; fail).
  destruct (_ =? _); inversion E; subst. rewrite m_aw_upd, Nat.eqb_refl in H. discriminate.
Qed.
Lemma M4 s i a s' r o e : m_Q s -> m_awaited s i = true -> m_handle s i a = (s', Stop r o, e) -> r <> RAll ->
  forall k, k <> i -> m_awaited s' k = m_awaited s k.
Proof.
  destruct a as [|r0|v| |]; cbn; intros _ _ E Hr k Hne; try (inversion E; subst; auto; fail).
  destruct (_ =? _); inversion E; subst. rewrite m_aw_upd. destruct (Nat.eqb_spec k i); congruence.
Qed.
Lemma M5 s i a s' o e : m_handle s i a = (s', Stop RSelf o, e) -> is_pend a = false.
Proof. destruct a as [|r|v| |]; cbn; intros E; auto; try discriminate. Qed.
Lemma M6 s i a s' o e : m_Q s -> m_awaited s i = true -> m_handle s i a = (s', Stop RAll o, e) ->
  is_pend a = false /\ forall k, k <> i -> m_awaited s k = false.
Proof. destruct a as [|r|v| |]; cbn; intros _ _ E; try discriminate. destruct (_ =? _); discriminate. Qed.
Lemma M7 s i a : m_awaited s i = true -> m_awaited (fst (fst (m_handle s i a))) i = false -> is_pend a = false.
Proof. destruct a as [|r|v| |]; cbn; intros H1 H2; auto; congruence. Qed.
Lemma M8 s i a s' e : m_handle s i a = (s', Abort, e) -> s' = s.
Proof. destruct a as [|r|v| |]; cbn; intros E; try discriminate; try (inversion E; auto). destruct (_ =? _); discriminate. Qed.
Lemma M9 s i a : m_Q s -> m_awaited s i = true -> i < m_n s -> m_Q (fst (fst (m_handle s i a))).
Proof.
  intros HQ _ _. destruct a as [|r|v| |]; cbn; auto. destruct (_ =? _); cbn; unfold m_Q, m_n in *; cbn; rewrite upd_length; auto.
Qed.
Lemma m_order_some s is s1 : m_order s = Some (is, s1) ->
  m_n s <> 0 /\ is = map (fun k => (k + m_offset s) mod m_n s) (seq 0 (m_n s)) /\ m_pst s1 = m_pst s /\ m_offset s1 = (m_offset s + 1) mod m_n s.
Proof. unfold m_order. destruct (m_n s =? 0) eqn:E; [discriminate|]. apply Nat.eqb_neq in E. intros H; inversion H; subst; cbn; auto. Qed.
Lemma M10 s is s1 : m_order s = Some (is, s1) -> m_n s1 = m_n s.
Proof. intros E. destruct (m_order_some _ _ _ E) as (_ & _ & P & _). unfold m_n. congruence. Qed.
Lemma M11 s is s1 : m_order s = Some (is, s1) -> forall i, m_awaited s1 i = m_awaited s i.
Proof. intros E i. destruct (m_order_some _ _ _ E) as (_ & _ & P & _). unfold m_awaited. congruence. Qed.
Lemma M12 s is s1 : m_Q s -> m_order s = Some (is, s1) -> forall i, In i is -> i < m_n s.
Proof.
  intros _ E i H. destruct (m_order_some _ _ _ E) as (Hn & -> & _). apply in_map_iff in H as (k & <- & _). apply Nat.mod_upper_bound; auto.
Qed.
Lemma M13 s is s1 : m_Q s -> m_order s = Some (is, s1) -> forall i, i < m_n s -> m_awaited s i = true -> In i is.
Proof.
  intros [H0|Ho] E i Hi _; destruct (m_order_some _ _ _ E) as (Hn & -> & _); [congruence|].
  apply in_map_iff. set (n := m_n s) in *. set (off := m_offset s) in *.
  exists ((i + n - off) mod n). split.
  - rewrite Nat.add_mod_idemp_l by lia. replace (i + n - off + off) with (i + 1 * n) by lia.
    rewrite Nat.mod_add by lia. apply Nat.mod_small; auto.
  - apply in_seq. split; [lia|]. cbn. apply Nat.mod_upper_bound. lia.
Qed.
Lemma M14 s is s1 : m_Q s -> m_order s = Some (is, s1) -> m_Q s1.
Proof.
  intros _ E. destruct (m_order_some _ _ _ E) as (Hn & _ & P & O). right. unfold m_n in *. rewrite P, O. apply Nat.mod_upper_bound; auto.
Qed.
Definition mmut := @no_mut mst.
Lemma merge_init scs : let n := length scs in
  Inv mst m_n m_awaited m_Q (mk_world {| m_pst := repeat PPending n; m_complete := 0; m_offset := 0 |} true n scs).
Proof.
  intros n. split; [|split; intros; discriminate].
  split; [constructor; unfold N, m_n; cbn; rewrite ?repeat_length; auto|].
  split; [unfold m_Q, m_n; cbn; rewrite repeat_length; destruct n; [left|right]; lia|].
  unfold I2, I3, I4, I5, bit, aw, fired, polled, lastpend, N, m_n; cbn. rewrite !repeat_length.
  split; [|split; [|split; [|split]]]; auto.
  - intros i Hi _ Hf. rewrite repeat_nth in Hf by auto. discriminate.
  - intros i Hi _ _. apply repeat_nth; auto.
  - intros i Hi _. apply repeat_nth; auto.
Qed.
Definition merge_run scs ops :=
  run_ops mst m_n m_awaited (fun _ i => i) m_handle true true m_order m_pre_exit (fun _ => false) m_finish (fun s => s)
    (fun s => drop_all_children (m_n s)) m_final mmut
    (mk_world {| m_pst := repeat PPending (length scs); m_complete := 0; m_offset := 0 |} true (length scs) scs) ops.
Ltac merge_apply T :=
  apply (T mst m_n m_awaited (fun _ i => i) m_handle true true m_order m_pre_exit (fun _ => false) m_finish (fun s => s)
           (fun s => drop_all_children (m_n s)) m_final m_Q M1 M2 M3 M4 M5 M6 M7 M8 M9 M10 M11 M12 M13 M14
           (fun _ => eq_refl) (fun _ _ _ => eq_refl) (fun _ H => H) (fun _ => eq_refl) (fun _ _ _ => eq_refl) (fun _ H => H)
           mmut (fun w _ _ _ H => H)); apply merge_init.
Theorem merge_C01 scs ops i : let w := merge_run scs ops in
  g_retpend _ w = true -> i < N _ m_n w -> Sig _ m_awaited w i -> g_out _ w = true.
Proof. merge_apply C01_generic. Qed.
Theorem merge_C01_quiescent scs ops i : let w := merge_run scs ops in
  g_retpend _ w = true -> g_quiet _ w = true -> g_out _ w = false -> i < N _ m_n w -> aw _ m_awaited w i = true ->
  polled _ w i = true /\ fired _ w i = false.
Proof. merge_apply C01_quiescent. Qed.
Theorem merge_C16 scs ops : g_bad16 _ (merge_run scs ops) = false.
Proof. merge_apply C16_generic. Qed.
Theorem merge_C20 scs ops i : let w := merge_run scs ops in
  g_retpend _ w = true -> g_quiet _ w = true -> i < N _ m_n w -> aw _ m_awaited w i = true -> polled _ w i = true.
Proof. merge_apply C20_generic. Qed.

(* ======================= zip ======================= *)
Definition z_Q (s: zst) := True.
Lemma z_aw_upd s i k o d : z_awaited {| z_pst := upd (z_pst s) i PReady; z_out := o; z_done := d |} k = if Nat.eqb k i then false else z_awaited s k.
Proof.
  unfold z_awaited; cbn. destruct (Nat.eqb_spec k i) as [->|Hne].
  - rewrite nth_upd_same'. destruct (i <? _); auto.
  - rewrite nth_upd_other; auto.
Qed.
Lemma forallb_nth l k : forallb is_ready l = true -> k < length l -> nth k l PReady = PReady.
Proof.
  revert k. induction l as [|p l IH]; intros [|k] H Hk; cbn in *; try lia.
  - apply andb_true_iff in H as [H _]. destruct p; auto; discriminate.
  - apply andb_true_iff in H as [_ H]. apply IH; auto; lia.
Qed.
Lemma Z1 s i a : z_n (fst (fst (z_handle s i a))) = z_n s.
Proof. destruct a as [|r|v| |]; cbn; auto. destruct (forallb _ _); cbn; unfold z_n; cbn; rewrite ?map_length, upd_length; auto. Qed.
Lemma Z2 s i a s' e : z_handle s i a = (s', Cont, e) -> forall j, j <> i -> z_awaited s' j = z_awaited s j.
Proof.
  destruct a as [|r|v| |]; cbn; intros E j Hne; try (inversion E; subst; auto; fail).
  destruct (forallb _ _); inversion E; subst. rewrite z_aw_upd. destruct (Nat.eqb_spec j i); congruence.
Qed.
Lemma Z3 s i a s' e : z_handle s i a = (s', Cont, e) -> z_awaited s' i = true -> z_awaited s i = true.
Proof.
  destruct a as [|r|v| |]; cbn; intros E H; try (inversion E; subst; auto; fail).
  destruct (forallb _ _); inversion E; subst. rewrite z_aw_upd, Nat.eqb_refl in H. discriminate.
Qed.
Lemma Z4 s i a s' r o e : z_Q s -> z_awaited s i = true -> z_handle s i a = (s', Stop r o, e) -> r <> RAll ->
  forall k, k <> i -> z_awaited s' k = z_awaited s k.
Proof.
  destruct a as [|r0|v| |]; cbn; intros _ _ E Hr k Hne; try (inversion E; subst; auto; fail).
  destruct (forallb _ _); inversion E; subst. congruence.
Qed.
Lemma Z5 s i a s' o e : z_handle s i a = (s', Stop RSelf o, e) -> is_pend a = false.
Proof. destruct a as [|r|v| |]; cbn; intros E; auto; try discriminate. Qed.
Lemma Z6 s i a s' o e : z_Q s -> z_awaited s i = true -> z_handle s i a = (s', Stop RAll o, e) ->
  is_pend a = false /\ forall k, k <> i -> z_awaited s k = false.
Proof.
  destruct a as [|r|v| |]; cbn; intros _ _ E; try discriminate.
  destruct (forallb is_ready (upd (z_pst s) i PReady)) eqn:Ear; [|discriminate]. split; auto.
  intros k Hne. unfold z_awaited. destruct (Nat.lt_ge_cases k (length (z_pst s))) as [Hk|Hk].
  - pose proof (forallb_nth _ k Ear ltac:(rewrite upd_length; auto)) as X. rewrite nth_upd_other in X by auto. rewrite X. auto.
  - rewrite nth_overflow by auto. auto.
Qed.
Lemma Z7 s i a : z_awaited s i = true -> z_awaited (fst (fst (z_handle s i a))) i = false -> is_pend a = false.
Proof. destruct a as [|r|v| |]; cbn; intros H1 H2; auto; congruence. Qed.
Lemma Z8 s i a s' e : z_handle s i a = (s', Abort, e) -> s' = s.
Proof. destruct a as [|r|v| |]; cbn; intros E; try discriminate; try (inversion E; auto). destruct (forallb _ _); discriminate. Qed.
Lemma z_order_some s is s1 : z_order s = Some (is, s1) -> is = seq 0 (z_n s) /\ s1 = s.
Proof. unfold z_order. destruct (z_done s); [discriminate|]. intros E; inversion E; auto. Qed.
Lemma Z10 s is s1 : z_order s = Some (is, s1) -> z_n s1 = z_n s. Proof. intros E; destruct (z_order_some _ _ _ E) as [_ ->]; auto. Qed.
Lemma Z11 s is s1 : z_order s = Some (is, s1) -> forall i, z_awaited s1 i = z_awaited s i. Proof. intros E; destruct (z_order_some _ _ _ E) as [_ ->]; auto. Qed.
Lemma Z12 s is s1 : z_Q s -> z_order s = Some (is, s1) -> forall i, In i is -> i < z_n s.
Proof. intros _ E i H. destruct (z_order_some _ _ _ E) as [-> _]. apply in_seq in H. lia. Qed.
Lemma Z13 s is s1 : z_Q s -> z_order s = Some (is, s1) -> forall i, i < z_n s -> z_awaited s i = true -> In i is.
Proof. intros _ E i H _. destruct (z_order_some _ _ _ E) as [-> _]. apply in_seq. lia. Qed.
Definition zmut := @no_mut zst.
Lemma zip_init scs : let n := length scs in
  Inv zst z_n z_awaited z_Q (mk_world {| z_pst := repeat PPending n; z_out := repeat None n; z_done := false |} true n scs).
Proof.
  intros n. split; [|split; intros; discriminate].
  split; [constructor; unfold N, z_n; cbn; rewrite ?repeat_length; auto|].
  split; [exact I|].
  unfold I2, I3, I4, I5, bit, aw, fired, polled, lastpend, N, z_n; cbn. rewrite !repeat_length.
  split; [|split; [|split; [|split]]]; auto.
  - intros i Hi _ Hf. rewrite repeat_nth in Hf by auto. discriminate.
  - intros i Hi _ _. apply repeat_nth; auto.
  - intros i Hi _. apply repeat_nth; auto.
Qed.
Definition zip_run scs ops :=
  run_ops zst z_n z_awaited (fun _ i => i) z_handle false true z_order (fun _ => None) (fun _ => false) z_finish (fun s => s)
    z_drop m_final zmut
    (mk_world {| z_pst := repeat PPending (length scs); z_out := repeat None (length scs); z_done := false |} true (length scs) scs) ops.
Ltac zip_apply T :=
  apply (T zst z_n z_awaited (fun _ i => i) z_handle false true z_order (fun _ => None) (fun _ => false) z_finish (fun s => s)
           z_drop m_final z_Q Z1 Z2 Z3 Z4 Z5 Z6 Z7 Z8 (fun _ _ _ _ _ _ => I)
           Z10 Z11
           Z12 Z13 (fun _ _ _ _ _ => I)
           (fun _ => eq_refl) (fun _ _ _ => eq_refl) (fun _ _ => I) (fun _ => eq_refl) (fun _ _ _ => eq_refl) (fun _ _ => I)
           zmut (fun w _ _ _ H => H)); apply zip_init.
Theorem zip_C01 scs ops i : let w := zip_run scs ops in
  g_retpend _ w = true -> i < N _ z_n w -> Sig _ z_awaited w i -> g_out _ w = true.
Proof. zip_apply C01_generic. Qed.
Theorem zip_C01_quiescent scs ops i : let w := zip_run scs ops in
  g_retpend _ w = true -> g_quiet _ w = true -> g_out _ w = false -> i < N _ z_n w -> aw _ z_awaited w i = true ->
  polled _ w i = true /\ fired _ w i = false.
Proof. zip_apply C01_quiescent. Qed.
Theorem zip_C16 scs ops : g_bad16 _ (zip_run scs ops) = false.
Proof. zip_apply C16_generic. Qed.
Theorem zip_C20 scs ops i : let w := zip_run scs ops in
  g_retpend _ w = true -> g_quiet _ w = true -> i < N _ z_n w -> aw _ z_awaited w i = true -> polled _ w i = true.
Proof. zip_apply C20_generic. Qed.
