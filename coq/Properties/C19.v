(* Property C19 - wait_until: the inner future/stream is untouched until the deadline resolves. *)
From Coq Require Import List Arith Bool.
Import ListNotations.
Require Import ScanFull InstsFull Pass C11Groups PassProofs Monitors.

(* child 0 = the deadline, child 1 = the inner future (stream = false) or stream (stream = true).
   [Pw s t]: before the deadline resolved every child poll is (deadline, Pending) and nothing has been returned; afterwards the poll list is
   (deadline, Pending)* (deadline, a0) (inner, _)+ with a0 neither Pending nor a panic, and the results are exactly the inner's non-Pending
   answers in order: the inner is never polled before, the deadline never after, the inner is polled in the very poll in which the deadline resolved. *)
Theorem C19_wait_until_gate stream scs ops :
  let w := wait_world stream scs ops in
  dropped _ w = false -> Pw (cs _ w) (strip (tr _ w)).
Proof. exact (C19_wait_until stream scs ops). Qed.
Print Assumptions C19_wait_until_gate.

Example C19_witness :
  let scs := [[{| fires := []; answer := APend |}; {| fires := []; answer := AReady (ROk 0) |}]; [{| fires := []; answer := AItem 4 |}; {| fires := []; answer := AEnd |}]] in
  let w := wait_world true scs [OPollFresh; OFire 0 0; OPollFresh; OPollFresh] in
  dropped _ w = false /\ results (strip (tr _ w)) = [OSome None [4]; ONone].
Proof. vm_compute. split; reflexivity. Qed.

(* the same statement as a boolean predicate over the observable trace (wait_b, Proofs/Monitors.v): the function that runner/montool.ml evaluates on
   every trace of the crate *)
Theorem C19_gate_predicate_holds stream scs ops :
  let w := wait_world stream scs ops in
  dropped _ w = false -> wait_b (strip (tr _ w)) = true.
Proof. exact (wait_b_holds stream scs ops). Qed.
Print Assumptions C19_gate_predicate_holds.
