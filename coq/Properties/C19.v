(* Property C19 - wait_until: the inner future/stream is untouched until the deadline resolves. *)
From Coq Require Import List Arith Bool.
Import ListNotations.
Require Import ScanFull InstsFull Pass C11Groups PassProofs Monitors LivePass LiveWait PassNoUnwind.

(* child 0 = the deadline, child 1 = the inner future (stream = false) or stream (stream = true).
   [Pw s t]: before the deadline resolved every child poll is (deadline, Pending) and nothing has been returned; afterwards the poll list is
   (deadline, Pending)* (deadline, a0) (inner, _)+ with a0 neither Pending nor a panic, and the results are exactly the inner's non-Pending
   answers in order: the inner is never polled before, the deadline never after, the inner is polled in the very poll in which the deadline resolved. *)
Theorem C19_wait_until_gate stream scs ops :
  let w := wait_world stream scs ops in
  dropped _ w = false -> Pw (cs _ w) (strip (tr _ w)).
Proof. exact (C19_wait_until stream scs ops). Qed.
Print Assumptions C19_wait_until_gate.

Example C19_witness :
  let scs := [[{| fires := []; answer := APend |}; {| fires := []; answer := AReady (ROk 0) |}]; [{| fires := []; answer := AItem 4 |}; {| fires := []; answer := AEnd |}]] in
  let w := wait_world true scs [OPollFresh; OFire 0 0; OPollFresh; OPollFresh] in
  dropped _ w = false /\ results (strip (tr _ w)) = [OSome None [4]; ONone].
Proof. vm_compute. split; reflexivity. Qed.

(* the same statement as a boolean predicate over the observable trace (wait_b, Proofs/Monitors.v): the function that runner/montool.ml evaluates on
   every trace of the crate *)
Theorem C19_gate_predicate_holds stream scs ops :
  let w := wait_world stream scs ops in
  dropped _ w = false -> wait_b (strip (tr _ w)) = true.
Proof. exact (wait_b_holds stream scs ops). Qed.
Print Assumptions C19_gate_predicate_holds.

(* ---- and it does resolve (the future form): deadline and inner future each scripted Pending* then Ready; under EVERY schedule of waker invocations
        and polls containing more than k0 + k1 polls, one of the first k0 + k1 + 1 polls returns the inner future's output.  (wait_until hands the
        caller's waker straight to the deadline and to the inner future - C01_wait_until - so only being polled matters.) *)
Theorem C19_wait_until_resolves_under_any_schedule d i ops k0 k1 :
  goodf d = true -> goodf i = true -> lead d = Some k0 -> lead i = Some k1 -> sched ops -> k0 + k1 < npolls ops ->
  exists ops1 p ops2, ops = ops1 ++ p :: ops2 /\ is_poll p = true /\ npolls ops1 <= k0 + k1 /\
    let w1 := wait_world false [d; i] ops1 in
    finished _ w1 = false /\ dropped _ w1 = false /\ returns ust w1 (p_step ust wait_poll u_drops w1 p).
Proof. exact (wait_until_returns d i ops k0 k1). Qed.
Print Assumptions C19_wait_until_resolves_under_any_schedule.
Example C19_resolves_witness :
  let P := {| fires := []; answer := APend |} in let R v := {| fires := []; answer := AReady (ROk v) |} in
  map (fun k => results (strip (tr _ (wait_world false [[P; R 0]; [P; P; R 7]] (repeat OPollFresh k))))) [3; 4] = [[]; [OVals [7]]].
Proof. vm_compute. reflexivity. Qed.

(* ---- the stream form, from EVERY reachable state: deadline scripted Pending^k0 Ready, inner stream (Pending | Item)* End with `pends i` Pending answers.
        After any schedule ops0 of polls and waker invocations, while the stream has not ended, any further schedule with more than k0 + pends i polls
        contains - among its first k0 + pends i + 1 polls - one that returns the next result: an item of the inner stream or None (C19_wait_until_gate
        says which, and that the inner stream was untouched before the deadline resolved). *)
Theorem C19_wait_until_stream_next_result_under_any_schedule d i ops0 ops k0 :
  goodf d = true -> goods i = true -> lead d = Some k0 -> sched ops0 -> sched ops ->
  let w := wait_world true [d; i] ops0 in finished _ w = false -> k0 + pends i < npolls ops ->
  exists ops1 p ops2, ops = ops1 ++ p :: ops2 /\ is_poll p = true /\ npolls ops1 <= k0 + pends i /\
    let w1 := p_world ust wait_poll u_drops w ops1 in
    finished _ w1 = false /\ dropped _ w1 = false /\ returns ust w1 (p_step ust wait_poll u_drops w1 p).
Proof. exact (wait_until_stream_next_result d i ops0 ops k0). Qed.
Print Assumptions C19_wait_until_stream_next_result_under_any_schedule.
Example C19_stream_next_result_witness :
  let P := {| fires := []; answer := APend |} in let I v := {| fires := []; answer := AItem v |} in let E := {| fires := []; answer := AEnd |} in
  let d := [P; {| fires := []; answer := AReady (ROk 0) |}] in let i := [P; I 4; P; I 5; E] in
  goodf d = true /\ goods i = true /\ lead d = Some 1 /\ pends i = 2 /\
  map (fun k => results (strip (tr _ (wait_world true [d; i] (repeat OPollFresh k))))) [2; 3; 5; 6] =
    [[]; [OSome None [4]]; [OSome None [4]; OSome None [5]]; [OSome None [4]; OSome None [5]; ONone]].
Proof. vm_compute. repeat split; reflexivity. Qed.

(* ---- the stream form ends: under EVERY schedule with more than k0 + s polls - s the Pending and Item answers the inner stream has scripted before its
        End - the stream has returned None, without any drop or panic. *)
Theorem C19_wait_until_stream_ends_under_any_schedule d i ops k0 :
  goodf d = true -> goods i = true -> lead d = Some k0 -> sched ops -> k0 + steps_before_end i < npolls ops ->
  let w := wait_world true [d; i] ops in finished _ w = true /\ dropped _ w = false.
Proof. exact (wait_until_stream_ends d i ops k0). Qed.
Print Assumptions C19_wait_until_stream_ends_under_any_schedule.

(* ---- the future form from every reachable state (the theorem above starts at the fresh combinator): after any schedule ops0, while unresolved,
        any further schedule with more than k0 + k1 polls returns the inner future's output among its first k0 + k1 + 1 polls. *)
Theorem C19_wait_until_resolves_from_every_reachable_state d i ops0 ops k0 k1 :
  goodf d = true -> goodf i = true -> lead d = Some k0 -> lead i = Some k1 -> sched ops0 -> sched ops ->
  let w := wait_world false [d; i] ops0 in finished _ w = false -> k0 + k1 < npolls ops ->
  exists ops1 p ops2, ops = ops1 ++ p :: ops2 /\ is_poll p = true /\ npolls ops1 <= k0 + k1 /\
    let w1 := p_world ust wait_poll u_drops w ops1 in
    finished _ w1 = false /\ dropped _ w1 = false /\ returns ust w1 (p_step ust wait_poll u_drops w1 p).
Proof. exact (wait_until_returns_from d i ops0 ops k0 k1). Qed.
Print Assumptions C19_wait_until_resolves_from_every_reachable_state.

(* wait_until never unwinds by itself: an `EEndX` in the history implies that the deadline's or the inner's poll panicked *)
Theorem C19_wait_until_unwinds_only_on_child_panic stream scs ops :
  In EEndX (strip (tr _ (wait_world stream scs ops))) -> In (EAns APanic) (strip (tr _ (wait_world stream scs ops))).
Proof. exact (wait_until_unwinds_only_on_child_panic stream scs ops). Qed.
Print Assumptions C19_wait_until_unwinds_only_on_child_panic.

Theorem C19_hypothesis_fails_only_by_drop_or_child_panic stream scs ops :
  dropped _ (wait_world stream scs ops) = true -> In ODrop ops \/ In (EAns APanic) (strip (tr _ (wait_world stream scs ops))).
Proof. exact (wait_until_dropped_means stream scs ops). Qed.
Print Assumptions C19_hypothesis_fails_only_by_drop_or_child_panic.
