(* Property C05 - try_join: Ok iff all Ok (positional); the first observed error short-circuits.
   Statements over the executable model (join_world with tryj = true), closed by `exact`. *)
From Coq Require Import List Arith Bool.
Import ListNotations.
Require Import ScanFull InstsFull Monitors ObligJoin C04Join C11Groups C05Join C02Join C04When.

(* For all n, child behaviours, histories, both strategies, slice and tuple variants, while not dropped: no result yet, or exactly
   one result o with [Okres true n o P] where P is the list of all child polls made so far:
   - o = Ok vs : nobody failed, |vs| = n and child i's only Ok value is vs[i];
   - o = Err e : P = P0 ++ [(i, Err e)] with no failure in P0 - it is the first failure seen, the result appears with it, and that
     poll is the last child poll ever made (the statement holds at every later point of the history as well). *)
Theorem C05_try_join selective tuple scs ops :
  let n := length scs in let w := join_world selective true tuple scs ops in
  dropped _ w = false ->
  let t := strip (tr _ w) in
  results t = [] \/ exists o, results t = [o] /\ Okres true n o (polls_from 0 t).
Proof. exact (C05_join selective true tuple scs ops). Qed.
Print Assumptions C05_try_join.


(* "resolves to Ok exactly when every child resolved to Ok ... in the same poll": between operations, after at least one poll, a try_join without a
   result has seen no failure and still has a child that has not answered its value - so the poll in which the last child answers Ok, or in which a
   child is first seen to fail, cannot end without the result. *)
Theorem C05_resolves_when_decided selective tuple scs ops :
  let n := length scs in let w := join_world selective true tuple scs ops in
  dropped _ w = false -> (tuple = true -> 0 < n) ->
  let t := strip (tr _ w) in
  t <> [] -> results t = [] -> errs (polls_from 0 t) = [] /\ exists i, i < n /\ okl i (polls_from 0 t) = [].
Proof. exact (C04_when selective true tuple scs ops). Qed.
Print Assumptions C05_resolves_when_decided.

(* values already produced by other children are dropped, not returned: the ownership ledger over the complete history
   (every child dropped exactly once; #produced v = #returned v + #dropped v for every value v) *)
Theorem C05_ledger selective tuple scs ops :
  let n := length scs in
  Bal n (strip (tr _ (join_world selective true tuple scs (ops ++ [ODrop])))).
Proof. exact (C02_join selective true tuple scs ops). Qed.
Print Assumptions C05_ledger.

Example C05_witness :
  let scs := [[{| fires := []; answer := AReady (ROk 7) |}]; [{| fires := []; answer := APend |}; {| fires := []; answer := AReady (RErr 3) |}];
              [{| fires := []; answer := APend |}]] in
  let ops := [OPollFresh; OFire 1 0; OPollFresh] in
  let w := join_world true true false scs ops in
  dropped _ w = false /\ results (strip (tr _ w)) = [OErr 3] /\
  existsb (fun e => match e with EV 7 => true | _ => false end) (tr _ (join_world true true false scs (ops ++ [ODrop]))) = true.
Proof. vm_compute. repeat split; reflexivity. Qed.

(* the same statement as a boolean predicate over the observable trace (c05_b_spec: it is equivalent to the disjunction above); this is the function
   that runner/montool.ml evaluates on every trace of the crate *)
Theorem C05_result_predicate_holds selective tryj tuple scs ops : let w := join_world selective tryj tuple scs ops in
  dropped _ w = false -> c05_b tryj (length scs) (strip (tr _ w)) = true.
Proof. exact (c05_b_holds selective tryj tuple scs ops). Qed.
Print Assumptions C05_result_predicate_holds.
