(* Property C12 - StreamGroup: every member item exactly once, in member order; exact set view.
   Statements over the executable model (group_world, stream = true), closed by `exact`.
   Trace functions (Proofs/C11Groups.v): [inserted t] = keys returned by insert, in order (member m is the m-th insert); [droppedl t] = members
   dropped (at completion / end, at remove, or by the destructor); [polls_from 0 t] = (member, answer) for every child poll;
   [outs] = the (member, value) pairs among them; [yields t] = the (key, value) pairs the group returned. *)
From Coq Require Import List Arith Bool.
Import ListNotations.
Require Import ScanFull InstsFull ObligGroups C11Groups C02Join C02Groups Counting LiveGroups.

Section C12.
  Variables (selective: bool) (cap0: nat) (ops: list op).
  Let w := group_world selective true cap0 ops.
  Let t := strip (tr _ w).
  Let s := cs _ w.
  Hypothesis live : dropped _ w = false.

  (* what the group returns is, in order, exactly what its members answered, each paired with the key its insert returned:
     every output and item exactly once, none invented, none re-keyed; the equation is between sequences, so each member's own item order is kept *)
  Theorem C12_exactly_once : map (keyof (inserted t)) (outs (polls_from 0 t)) = yields t.
  Proof. exact (C11_once selective true cap0 ops live). Qed.

  (* a member is polled only after its insert and before its drop event (completion, End or remove), and is dropped at most once:
     never polled or yielded after remove or after it finished *)
  Theorem C12_discipline : chk 0 [] t = true.
  Proof. exact (C11_discipline selective true cap0 ops live). Qed.

  (* the set view: len, is_empty, contains_key are these by definition of the model's queries (Model/InstsFull.v g_mutate 3/4/6) *)
  Theorem C12_len : g_len s + length (droppedl t) = length (inserted t).
  Proof. exact (C11_len selective true cap0 ops live). Qed.
  Theorem C12_keys k : In k (g_keys s) <-> exists m, alive selective true cap0 ops m /\ nth m (inserted t) 0 = k.
  Proof. exact (C11_keys selective true cap0 ops live k). Qed.
  Theorem C12_keys_distinct m1 m2 : alive selective true cap0 ops m1 -> alive selective true cap0 ops m2 ->
    nth m1 (inserted t) 0 = nth m2 (inserted t) 0 -> m1 = m2.
  Proof. exact (C11_keys_distinct selective true cap0 ops live m1 m2). Qed.
  Theorem C12_capacity : g_len s <= g_cap s.
  Proof. exact (C11_capacity selective true cap0 ops live). Qed.

  (* None is returned only at a moment when as many members have been dropped as inserted (the group is empty), and Pending only at a moment when some member is alive;
     a later insert continues the same history, so the group can be refilled and used again *)
  Theorem C12_none_iff_empty : chkN true 0 0 t = true.
  Proof. exact (group_none_iff selective true cap0 ops live). Qed.
End C12.
Print Assumptions C12_exactly_once.
Print Assumptions C12_discipline.
Print Assumptions C12_len.
Print Assumptions C12_keys.
Print Assumptions C12_keys_distinct.
Print Assumptions C12_capacity.
Print Assumptions C12_none_iff_empty.

(* every member ever inserted is dropped exactly once over the complete history (at completion, at remove, or by the destructor), and the
   values returned are exactly the values produced *)
Theorem C12_ledger selective cap0 ops :
  BalG (strip (tr _ (group_world selective true cap0 (ops ++ [ODrop])))).
Proof. exact (C02_groups selective true cap0 ops). Qed.
Print Assumptions C12_ledger.

(* the explicit "cannot happen" branch of the model's insert is unreachable, so the theorems above are not vacuous after an insert *)
Theorem C12_insert_total (w: world gst) a sc : dropped _ w = false -> Tg (cs _ w) (strip (tr _ w)) -> dropped _ (g_mutate w 0 a sc) = false.
Proof. exact (insert_never_panics w a sc). Qed.
Print Assumptions C12_insert_total.

(* ---- "yields every item of every member stream": every item does come out, and then the group is empty.  After ANY history whose inserted members
        are streams scripted (Pending | Item)* then End ([goodop true]: no panic, no Ready), the wake-driven executor of C01 (a round = invoke the most
        recent waker of the member of every slot, then poll with the same task) empties the group within (n + 1) * B rounds, n the number of items
        still scripted and B any bound on the remaining script lengths; the world reached is again a history of the model, so C12_exactly_once,
        C12_discipline, C12_len ... hold of it: with len = 0 every member has been dropped - at its End, after all its items were returned in order
        (C12_exactly_once), or at its removal.  (Proofs/LiveGroups.v: sgroup_progress - within B rounds one scripted item fewer or the group empty,
        items still scripted + outputs returned being invariant along polls and wake-ups; a None is only ever returned by an empty group.) *)
Theorem C12_every_item_comes_out_under_wake_driven_executor cap0 ops B :
  Forall (goodop true) ops ->
  let rnd := rounds gst g_slots g_awaited g_member g_handle false false g_order g_pre_exit (fun _ => true) g_finish g_cleanup g_drop (fun _ => false) g_mutate in
  let w := group_world true true cap0 ops in
  finished _ w = false -> dropped _ w = false -> (forall m, length (nth m (scripts _ w) []) <= B) -> 1 <= B ->
  exists R, R <= (items_total (scripts _ w) + 1) * B /\ let w' := rnd R w in
    dropped _ w' = false /\ finished _ w' = false /\ g_len (cs _ w') = 0 /\
    exists ops', Forall (goodop true) ops' /\ w' = group_world true true cap0 ops'.
Proof. intros Hok rnd w Hf Hd HB HB1. exact (sgroup_drains cap0 B HB1 (items_total (scripts _ w)) w (ex_intro _ ops (conj Hok eq_refl)) Hf Hd (le_n _) HB). Qed.
Print Assumptions C12_every_item_comes_out_under_wake_driven_executor.
Example C12_drain_witness :
  let P := {| fires := []; answer := APend |} in let I v := {| fires := []; answer := AItem v |} in let E := {| fires := []; answer := AEnd |} in
  let ops := [OMut 0 0 [I 1; P; I 2; E]; OMut 0 0 [P; I 5; E]] in
  let rnd := rounds gst g_slots g_awaited g_member g_handle false false g_order g_pre_exit (fun _ => true) g_finish g_cleanup g_drop (fun _ => false) g_mutate in
  let w := group_world true true 0 ops in
  items_total (scripts _ w) = 3 /\ dropped _ w = false /\ finished _ w = false /\
  map (fun k => (g_len (cs _ (rnd k w)), yields (strip (tr _ (rnd k w))))) [1; 2; 3; 4; 5] =
    [(2, [(0, 1)]); (2, [(0, 1)]); (2, [(0, 1); (0, 2)]); (1, [(0, 1); (0, 2); (1, 5)]); (0, [(0, 1); (0, 2); (1, 5)])].
Proof. vm_compute. repeat split; reflexivity. Qed.

Example C12_witness :
  let ops := [OMut 0 0 [{| fires := []; answer := AItem 5 |}; {| fires := []; answer := AEnd |}]; OMut 0 0 [{| fires := []; answer := AItem 6 |}];
              OPollFresh; OPollFresh; OPollFresh] in
  let w := group_world true true 0 ops in
  dropped _ w = false /\ yields (strip (tr _ w)) = [(0, 5); (1, 6)] /\ g_len (cs _ w) = 1.
Proof. vm_compute. repeat split; reflexivity. Qed.
