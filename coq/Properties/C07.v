(* Property C07 - race_ok: first success wins; error only when all failed, positional aggregate. *)
From Coq Require Import List Arith Bool.
Import ListNotations.
Require Import ScanFull InstsFull Pass C11Groups PassProofs PassNoUnwind.

(* kind = 0: array algorithm (in-order scan), 1: tuple algorithm (Indexer order), 2: Vec algorithm (MaybeDone).
   [Pk n s fin t] (Proofs/PassProofs.v): not finished - nobody succeeded, nothing returned, the error table holds for every child exactly
   the errors it answered (none or one), the sequential automaton runK accepts the poll list (a failed child is never polled again);
   finished - exactly one result: Ok v with polls P0 ++ [(i, Ok v)] and no success in P0, or Err es with |es| = n, nobody succeeded and
   child i's only error is es[i]. *)
Theorem C07_race_ok_first_success kind scs ops :
  let n := length scs in let w := race_ok_world kind scs ops in
  dropped _ w = false -> Pk n (cs _ w) (finished _ w) (strip (tr _ w)).
Proof. exact (C07_race_ok kind scs ops). Qed.
Print Assumptions C07_race_ok_first_success.

Example C07_zero_futures :
  results (strip (tr _ (race_ok_world 0 [] [OPollFresh]))) = [OErrs []] /\ results (strip (tr _ (race_ok_world 2 [] [OPollFresh]))) = [OErrs []].
Proof. vm_compute. split; reflexivity. Qed.

Example C07_witness :
  let scs := [[{| fires := []; answer := APend |}; {| fires := []; answer := AReady (RErr 8) |}]; [{| fires := []; answer := AReady (RErr 9) |}]] in
  let w := race_ok_world 0 scs [OPollFresh; OFire 0 0; OPollFresh] in
  dropped _ w = false /\ results (strip (tr _ w)) = [OErrs [8; 9]].
Proof. vm_compute. split; reflexivity. Qed.

(* race_ok never unwinds by itself, for any number of children - zero included - and all three algorithms: an `EEndX` in the history implies that
   a child's poll panicked.  So the hypothesis `dropped = false` above fails only through a drop or a child's panic. *)
Theorem C07_race_ok_unwinds_only_on_child_panic kind scs ops :
  In EEndX (strip (tr _ (race_ok_world kind scs ops))) -> In (EAns APanic) (strip (tr _ (race_ok_world kind scs ops))).
Proof. exact (race_ok_unwinds_only_on_child_panic kind scs ops). Qed.
Print Assumptions C07_race_ok_unwinds_only_on_child_panic.

Theorem C07_hypothesis_fails_only_by_drop_or_child_panic kind scs ops :
  dropped _ (race_ok_world kind scs ops) = true -> In ODrop ops \/ In (EAns APanic) (strip (tr _ (race_ok_world kind scs ops))).
Proof. exact (race_ok_dropped_means kind scs ops). Qed.
Print Assumptions C07_hypothesis_fails_only_by_drop_or_child_panic.
