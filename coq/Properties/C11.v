(* Property C11 - FutureGroup: each member's output yielded exactly once; set view always exact.
   Statements over the executable model (group_world, stream = false), closed by `exact`.
   Trace functions (Proofs/C11Groups.v): [inserted t] = keys returned by insert, in order (member m is the m-th insert); [droppedl t] = members
   dropped (at completion / end, at remove, or by the destructor); [polls_from 0 t] = (member, answer) for every child poll;
   [outs] = the (member, value) pairs among them; [yields t] = the (key, value) pairs the group returned. *)
From Coq Require Import List Arith Bool.
Import ListNotations.
Require Import ScanFull InstsFull ObligGroups C11Groups C02Join C02Groups GroupCap LiveGroups.

Section C11.
  Variables (selective: bool) (cap0: nat) (ops: list op).
  Let w := group_world selective false cap0 ops.
  Let t := strip (tr _ w).
  Let s := cs _ w.
  Hypothesis live : dropped _ w = false.

  (* what the group returns is, in order, exactly what its members answered, each paired with the key its insert returned:
     every output exactly once, none invented, none re-keyed *)
  Theorem C11_exactly_once : map (keyof (inserted t)) (outs (polls_from 0 t)) = yields t.
  Proof. exact (C11_once selective false cap0 ops live). Qed.

  (* a member is polled only after its insert and before its drop event (completion or remove), and is dropped at most once:
     never polled or yielded after remove or after it finished *)
  Theorem C11_discipline : chk 0 [] t = true.
  Proof. exact (C11_discipline selective false cap0 ops live). Qed.

  (* the set view: len, is_empty, contains_key are these by definition of the model's queries (Model/InstsFull.v g_mutate 3/4/6) *)
  Theorem C11_len : g_len s + length (droppedl t) = length (inserted t).
  Proof. exact (C11_len selective false cap0 ops live). Qed.
  Theorem C11_keys k : In k (g_keys s) <-> exists m, alive selective false cap0 ops m /\ nth m (inserted t) 0 = k.
  Proof. exact (C11_keys selective false cap0 ops live k). Qed.
  Theorem C11_keys_distinct m1 m2 : alive selective false cap0 ops m1 -> alive selective false cap0 ops m2 ->
    nth m1 (inserted t) 0 = nth m2 (inserted t) 0 -> m1 = m2.
  Proof. exact (C11_keys_distinct selective false cap0 ops live m1 m2). Qed.
  Theorem C11_capacity : g_len s <= g_cap s.
  Proof. exact (C11_capacity selective false cap0 ops live). Qed.

  (* None is returned only at a moment when as many members have been dropped as inserted (the group is empty) (the Pending half needs "a future never answers End", which the total model allows, and is left to the correspondence);
     a later insert continues the same history, so the group can be refilled and used again *)
  Theorem C11_none_iff_empty : chkN false 0 0 t = true.
  Proof. exact (group_none_iff selective false cap0 ops live). Qed.
End C11.
Print Assumptions C11_exactly_once.
Print Assumptions C11_discipline.
Print Assumptions C11_len.
Print Assumptions C11_keys.
Print Assumptions C11_keys_distinct.
Print Assumptions C11_capacity.
Print Assumptions C11_none_iff_empty.

(* every member ever inserted is dropped exactly once over the complete history (at completion, at remove, or by the destructor), and the
   values returned are exactly the values produced *)
Theorem C11_ledger selective cap0 ops :
  BalG (strip (tr _ (group_world selective false cap0 (ops ++ [ODrop])))).
Proof. exact (C02_groups selective false cap0 ops). Qed.
Print Assumptions C11_ledger.

(* the Pending half: a future cannot answer End (the total model's children may); over every history in which no member does, the strict check
   holds too - every Pending is returned with some member alive, so with C11_none_iff_empty: None exactly when the group is empty *)
Theorem C11_pending_means_nonempty selective cap0 ops : let w := group_world selective false cap0 ops in
  dropped _ w = false -> noend (strip (tr _ w)) = true -> chkN true 0 0 (strip (tr _ w)) = true.
Proof. exact (fgroup_pending_nonempty selective cap0 ops). Qed.
Print Assumptions C11_pending_means_nonempty.

(* the capacity reported never shrinks along a history, whatever is inserted, removed, reserved, polled or woken in between
   (so together with C11_capacity: capacity >= len at every moment, and reserve's effect is never undone) *)
Theorem C11_capacity_never_shrinks selective cap0 ops1 ops2 :
  g_cap (cs _ (group_world selective false cap0 ops1)) <= g_cap (cs _ (group_world selective false cap0 (ops1 ++ ops2))).
Proof. exact (group_capacity_monotone selective false cap0 ops1 ops2). Qed.
Print Assumptions C11_capacity_never_shrinks.

(* the explicit "cannot happen" branch of the model's insert is unreachable, so the theorems above are not vacuous after an insert *)
Theorem C11_insert_total (w: world gst) a sc : dropped _ w = false -> Tg (cs _ w) (strip (tr _ w)) -> dropped _ (g_mutate w 0 a sc) = false.
Proof. exact (insert_never_panics w a sc). Qed.
Print Assumptions C11_insert_total.

(* ---- "yields the output of each inserted future": every member does come out.  After ANY history whose inserted members are futures scripted
        Pending* then Ready ([goodop false]: no panic, no End, no Item), the wake-driven executor of C01 (a round = invoke the most recent waker of
        the member of every slot, then poll with the same task) empties the group within len * B rounds, B any bound on the remaining script
        lengths; the world reached is again a history of the model, so C11_exactly_once, C11_discipline, C11_len ... hold of it: with len = 0,
        C11_len says that every member ever inserted has been dropped - at its completion, i.e. after its output was returned (C11_exactly_once:
        with the key its insert returned), or at its removal.  (Proofs/LiveGroups.v: fgroup_progress - one more output within B rounds, the count
        len + outputs being invariant along polls and wake-ups - and induction on len.) *)
Theorem C11_every_member_comes_out_under_wake_driven_executor cap0 ops B :
  Forall (goodop false) ops ->
  let rnd := rounds gst g_slots g_awaited g_member g_handle false false g_order g_pre_exit (fun _ => true) g_finish g_cleanup g_drop (fun _ => false) g_mutate in
  let w := group_world true false cap0 ops in
  finished _ w = false -> dropped _ w = false -> (forall m, length (nth m (scripts _ w) []) <= B) -> 1 <= B ->
  exists R, R <= g_len (cs _ w) * B /\ let w' := rnd R w in
    dropped _ w' = false /\ finished _ w' = false /\ g_len (cs _ w') = 0 /\
    exists ops', Forall (goodop false) ops' /\ w' = group_world true false cap0 ops'.
Proof. intros Hok rnd w Hf Hd HB HB1. exact (fgroup_drains cap0 B HB1 (g_len (cs _ w)) w (ex_intro _ ops (conj Hok eq_refl)) Hf Hd (le_n _) HB). Qed.
Print Assumptions C11_every_member_comes_out_under_wake_driven_executor.
Example C11_drain_witness :
  let P := {| fires := []; answer := APend |} in let R v := {| fires := []; answer := AReady (ROk v) |} in
  let ops := [OMut 0 0 [P; P; R 7]; OPollFresh; OMut 0 0 [P; R 9]] in
  let rnd := rounds gst g_slots g_awaited g_member g_handle false false g_order g_pre_exit (fun _ => true) g_finish g_cleanup g_drop (fun _ => false) g_mutate in
  let w := group_world true false 0 ops in
  g_len (cs _ w) = 2 /\ dropped _ w = false /\ finished _ w = false /\
  map (fun k => (g_len (cs _ (rnd k w)), yields (strip (tr _ (rnd k w))))) [1; 2; 3] = [(2, []); (1, [(0, 7)]); (0, [(0, 7); (1, 9)])].
Proof. vm_compute. repeat split; reflexivity. Qed.

Example C11_witness :
  let ops := [OMut 0 0 [{| fires := []; answer := APend |}; {| fires := []; answer := AReady (ROk 5) |}]; OMut 0 0 [{| fires := []; answer := AReady (ROk 6) |}];
              OPollFresh; OMut 1 0 []; OPollFresh; OMut 3 0 []] in
  let w := group_world true false 0 ops in
  dropped _ w = false /\ yields (strip (tr _ w)) = [(1, 6)] /\ g_len (cs _ w) = 0.
Proof. vm_compute. repeat split; reflexivity. Qed.
Example C11_pending_witness :
  let ops := [OMut 0 0 [{| fires := []; answer := APend |}]; OPollFresh] in
  let w := group_world true false 0 ops in
  dropped _ w = false /\ noend (strip (tr _ w)) = true /\ In EEndP (strip (tr _ w)).
Proof. vm_compute. repeat split; auto. Qed.
