(* Property C01 - no lost wake-ups.
   Selective strategy (std: one sub-waker per slot, readiness bits): ghost history in the model state (Model/ScanFull.v):
     g_retpend  the last poll of the combinator returned Pending;   g_out   the newest parent waker has been invoked since that poll began;
     aw w i     child (slot) i is still awaited;  polled w i  it has been polled;  fired w i  one of its wakers has fired since its last poll began.
   [Sig w i] = awaited, polled, fired.  Non-selective strategy (alloc-only, no_std) and the pass-through combinators: the waker a child is handed
   IS the parent waker of that poll, so firing it wakes that parent directly. *)
From Coq Require Import List Arith Bool.
Import ListNotations.
Require Import ScanFull InstsFull Pass ObligJoin ObligMZ ObligGroups FireTotal GhostTrace NonSel C11Groups PassProofs PassC01 C04Join Live C08Merge LiveMerge LiveZip LivePass LiveGroups.

(* ---- selective strategy: in every state reached at or after a poll that returned Pending, a signalled child implies that the
        newest parent waker has been woken (for all sizes, child behaviours, histories of polls / wakes through any handle / drop / group ops) *)
Theorem C01_join tuple tryj scs ops i : let w := join_world true tryj tuple scs ops in
  g_retpend _ w = true -> i < N _ j_slots w -> Sig _ j_awaited w i -> g_out _ w = true.
Proof. exact (join_C01 tuple tryj scs ops i). Qed.
Theorem C01_merge scs ops i : let w := merge_world true scs ops in
  g_retpend _ w = true -> i < N _ m_n w -> Sig _ m_awaited w i -> g_out _ w = true.
Proof. exact (merge_C01 scs ops i). Qed.
Theorem C01_zip scs ops i : let w := zip_world true scs ops in
  g_retpend _ w = true -> i < N _ z_n w -> Sig _ z_awaited w i -> g_out _ w = true.
Proof. exact (zip_C01 scs ops i). Qed.
Theorem C01_group stream cap0 ops i : let w := group_world true stream cap0 ops in
  g_retpend _ w = true -> i < N _ g_slots w -> Sig _ g_awaited w i -> g_out _ w = true.
Proof. exact (group_C01 stream cap0 ops i). Qed.


(* ---- the same with the wake-up bookkeeping read off the TRACE: g is the fold (Model/ScanFull.v gfold) of the world's own trace, which recomputes
        "returned Pending" (t_ret), "polled" (t_polled), "fired since its last poll began" (t_fired) and "the parent was woken since the poll
        began" (t_out) from the events alone; which slots are still awaited is the model's state *)
Theorem C01_join_trace tuple tryj scs ops i : let w := join_world true tryj tuple scs ops in let g := gfold (ginit (length scs)) (tr _ w) in
  t_ret g = true -> i < N _ j_slots w -> aw _ j_awaited w i = true -> t_polled g i = true -> t_fired g i = true -> t_out g = true.
Proof. exact (join_C01_trace tuple tryj scs ops i). Qed.
Theorem C01_merge_trace scs ops i : let w := merge_world true scs ops in let g := gfold (ginit (length scs)) (tr _ w) in
  t_ret g = true -> i < N _ m_n w -> aw _ m_awaited w i = true -> t_polled g i = true -> t_fired g i = true -> t_out g = true.
Proof. exact (merge_C01_trace scs ops i). Qed.
Theorem C01_zip_trace scs ops i : let w := zip_world true scs ops in let g := gfold (ginit (length scs)) (tr _ w) in
  t_ret g = true -> i < N _ z_n w -> aw _ z_awaited w i = true -> t_polled g i = true -> t_fired g i = true -> t_out g = true.
Proof. exact (zip_C01_trace scs ops i). Qed.
Theorem C01_group_trace stream cap0 ops i : let w := group_world true stream cap0 ops in let g := gfold (ginit 0) (tr _ w) in
  t_ret g = true -> i < N _ g_slots w -> aw _ g_awaited w i = true -> t_polled g i = true -> t_fired g i = true -> t_out g = true.
Proof. exact (group_C01_trace stream cap0 ops i). Qed.
Print Assumptions C01_join_trace. Print Assumptions C01_merge_trace. Print Assumptions C01_zip_trace. Print Assumptions C01_group_trace.

(* ---- quiescence: if the last poll returned Pending, nothing was inserted since, and no wake-up of the newest parent waker is
        outstanding, then every awaited child has been polled and none of its wakers has fired since: the combinator is only ever blocked
        on children that have not signalled *)
Theorem C01_join_quiescent tuple tryj scs ops i : let w := join_world true tryj tuple scs ops in
  g_retpend _ w = true -> g_quiet _ w = true -> g_out _ w = false -> i < N _ j_slots w -> aw _ j_awaited w i = true ->
  polled _ w i = true /\ fired _ w i = false.
Proof. exact (join_C01_quiescent tuple tryj scs ops i). Qed.
Theorem C01_merge_quiescent scs ops i : let w := merge_world true scs ops in
  g_retpend _ w = true -> g_quiet _ w = true -> g_out _ w = false -> i < N _ m_n w -> aw _ m_awaited w i = true ->
  polled _ w i = true /\ fired _ w i = false.
Proof. exact (merge_C01_quiescent scs ops i). Qed.
Theorem C01_zip_quiescent scs ops i : let w := zip_world true scs ops in
  g_retpend _ w = true -> g_quiet _ w = true -> g_out _ w = false -> i < N _ z_n w -> aw _ z_awaited w i = true ->
  polled _ w i = true /\ fired _ w i = false.
Proof. exact (zip_C01_quiescent scs ops i). Qed.
Theorem C01_group_quiescent stream cap0 ops i : let w := group_world true stream cap0 ops in
  g_retpend _ w = true -> g_quiet _ w = true -> g_out _ w = false -> i < N _ g_slots w -> aw _ g_awaited w i = true ->
  polled _ w i = true /\ fired _ w i = false.
Proof. exact (group_C01_quiescent stream cap0 ops i). Qed.

(* ---- non-selective strategy: every waker child c was handed at its k-th poll is a parent waker, and firing it appends exactly
        [fire c.k; wake of that parent] to the trace - whatever the state, however stale the handle *)
Theorem C01_join_nonsel tryj tuple scs ops c k : let w := join_world false tryj tuple scs ops in
  forall wk0, nth_error (nth c (handed _ w) []) k = Some wk0 ->
  exists pid, wk0 = WPar pid /\ tr _ (fire_handle _ j_slots w c k) = tr _ w ++ [EF c k; EW pid].
Proof. exact (join_C01_nonsel tryj tuple scs ops c k). Qed.
Theorem C01_merge_nonsel scs ops c k : let w := merge_world false scs ops in
  forall wk0, nth_error (nth c (handed _ w) []) k = Some wk0 ->
  exists pid, wk0 = WPar pid /\ tr _ (fire_handle _ m_n w c k) = tr _ w ++ [EF c k; EW pid].
Proof. exact (merge_C01_nonsel scs ops c k). Qed.
Theorem C01_zip_nonsel scs ops c k : let w := zip_world false scs ops in
  forall wk0, nth_error (nth c (handed _ w) []) k = Some wk0 ->
  exists pid, wk0 = WPar pid /\ tr _ (fire_handle _ z_n w c k) = tr _ w ++ [EF c k; EW pid].
Proof. exact (zip_C01_nonsel scs ops c k). Qed.
Theorem C01_group_nonsel stream cap0 ops c k : let w := group_world false stream cap0 ops in
  forall wk0, nth_error (nth c (handed _ w) []) k = Some wk0 ->
  exists pid, wk0 = WPar pid /\ tr _ (fire_handle _ g_slots w c k) = tr _ w ++ [EF c k; EW pid].
Proof. exact (group_C01_nonsel stream cap0 ops c k). Qed.

(* ---- race, race_ok (array / tuple / Vec algorithms), chain, wait_until hand the caller's Context straight to their children *)
Theorem C01_race scs ops c k : let w := race_world scs ops in
  forall wk0, nth_error (nth c (handed _ w) []) k = Some wk0 ->
  exists pid, wk0 = WPar pid /\ tr _ (fire_handle _ (fun _ => 0) w c k) = tr _ w ++ [EF c k; EW pid].
Proof. exact (C01_race_world scs ops c k). Qed.
Theorem C01_race_ok kind scs ops c k : let w := race_ok_world kind scs ops in
  forall wk0, nth_error (nth c (handed _ w) []) k = Some wk0 ->
  exists pid, wk0 = WPar pid /\ tr _ (fire_handle _ (fun _ => 0) w c k) = tr _ w ++ [EF c k; EW pid].
Proof. exact (C01_race_ok_world kind scs ops c k). Qed.
Theorem C01_chain scs ops c k : let w := chain_world scs ops in
  forall wk0, nth_error (nth c (handed _ w) []) k = Some wk0 ->
  exists pid, wk0 = WPar pid /\ tr _ (fire_handle _ (fun _ => 0) w c k) = tr _ w ++ [EF c k; EW pid].
Proof. exact (C01_chain_world scs ops c k). Qed.
Theorem C01_wait_until stream scs ops c k : let w := wait_world stream scs ops in
  forall wk0, nth_error (nth c (handed _ w) []) k = Some wk0 ->
  exists pid, wk0 = WPar pid /\ tr _ (fire_handle _ (fun _ => 0) w c k) = tr _ w ++ [EF c k; EW pid].
Proof. exact (C01_wait_world stream scs ops c k). Qed.

Print Assumptions C01_join. Print Assumptions C01_merge. Print Assumptions C01_zip. Print Assumptions C01_group.
Print Assumptions C01_join_quiescent. Print Assumptions C01_merge_quiescent. Print Assumptions C01_zip_quiescent. Print Assumptions C01_group_quiescent.
Print Assumptions C01_join_nonsel. Print Assumptions C01_merge_nonsel. Print Assumptions C01_zip_nonsel. Print Assumptions C01_group_nonsel.
Print Assumptions C01_race. Print Assumptions C01_race_ok. Print Assumptions C01_chain. Print Assumptions C01_wait_until.


(* ---- firing never panics (selective strategy): for every handle ever handed out - current, stale, of a finished or removed child - the slot
        it names exists in the readiness table and a parent waker is registered, so InlineWaker::wake neither indexes out of bounds nor hits
        its `expect("parent_waker not available")`.  (In the non-selective strategy and for the pass-through combinators a handle IS a parent
        waker: the theorems above.)  fire_panics is defined in Model/ScanFull.v next to do_fire, whose totalised branches it names. *)
Theorem C01_fire_total_join tuple tryj scs ops c k : fire_panics jst j_slots (join_world true tryj tuple scs ops) c k = false.
Proof. exact (join_fire_total tuple tryj scs ops c k). Qed.
Theorem C01_fire_total_merge scs ops c k : fire_panics mst m_n (merge_world true scs ops) c k = false.
Proof. exact (merge_fire_total scs ops c k). Qed.
Theorem C01_fire_total_zip scs ops c k : fire_panics zst z_n (zip_world true scs ops) c k = false.
Proof. exact (zip_fire_total scs ops c k). Qed.
Theorem C01_fire_total_group stream cap0 ops c k : fire_panics gst g_slots (group_world true stream cap0 ops) c k = false.
Proof. exact (group_fire_total stream cap0 ops c k). Qed.
Print Assumptions C01_fire_total_join. Print Assumptions C01_fire_total_merge. Print Assumptions C01_fire_total_zip. Print Assumptions C01_fire_total_group.

(* ---- "consequently ... every join resolves once its children have made the progress that permits it": bounded progress under a wake-driven
        executor.  [round w] (Model/ScanFull.v, Section Live) = invoke the most recent waker of every child, then poll with the same task;
        [rounds B] = B such rounds, starting from the freshly constructed join (the first round's wakers do not exist yet: it is the first poll).
        For n >= 1 children whose scripts are Pending* then Ready (with any wake-ups of any handles inside their polls), after B = the length of the
        longest script rounds the join has not unwound and has returned - to that executor, which never polls without a preceding wake-up - the
        positional vector of its children's values; and the world reached is one of the histories all the theorems above speak about.
        (Generic part: poll_live / round_live / rounds_progress / fair_executor_returns - one poll on panic-free scripts never unwinds, no script
        grows, and a Pending poll consumes one step of every signalled awaited child.) *)
Theorem C01_join_resolves_under_wake_driven_executor tuple scs :
  (forall i, fut_script (nth i scs [])) -> (forall i, i < length scs -> first_ready (nth i scs []) <> None) -> 0 < length scs ->
  let w := rounds jst j_slots j_awaited (fun _ i => i) j_handle tuple tuple j_order (fun _ => None) j_pre_any j_finish (fun s => s) j_drop (fun _ => true)
             (@no_mut jst) (bound scs) (join_world true false tuple scs []) in
  (exists ops, w = join_world true false tuple scs ops) /\ dropped _ w = false /\
  exists vs, In (EEndR (OVals vs)) (tr _ w) /\ length vs = length scs /\ forall i, i < length scs -> first_ready (nth i scs []) = Some (nth i vs 0).
Proof. exact (join_fair_resolves tuple scs). Qed.
Print Assumptions C01_join_resolves_under_wake_driven_executor.
Example C01_resolves_witness :
  let scs := [[{| fires := []; answer := APend |}; {| fires := []; answer := APend |}; {| fires := []; answer := AReady (ROk 7) |}]; [{| fires := []; answer := AReady (ROk 9) |}]] in
  let w := rounds jst j_slots j_awaited (fun _ i => i) j_handle false false j_order (fun _ => None) j_pre_any j_finish (fun s => s) j_drop (fun _ => true)
             (@no_mut jst) (bound scs) (join_world true false false scs []) in
  bound scs = 3 /\ results (strip (tr _ w)) = [OVals [7; 9]].
Proof. vm_compute. split; reflexivity. Qed.

(* ... join and try_join alike (slice and tuple variants), with only "every script has a Ready step and never panics" assumed: within [bound scs]
   rounds the executor has been handed the result - for try_join the Ok vector or the first error, whichever C05 says it is *)
Theorem C01_join_family_returns_under_wake_driven_executor tuple tryj scs :
  (forall i, i < length scs -> hasready (nth i scs []) = true) -> (forall m st, In st (nth m scs []) -> answer st <> APanic) -> 0 < length scs ->
  let w := rounds jst j_slots j_awaited (fun _ i => i) j_handle tuple tuple j_order (fun _ => None) j_pre_any j_finish (fun s => s) j_drop (fun _ => true)
             (@no_mut jst) (bound scs) (join_world true tryj tuple scs []) in
  finished _ w = true /\ returned _ w /\ dropped _ w = false /\ exists ops, w = join_world true tryj tuple scs ops.
Proof. exact (joinfam_fair_returns tuple tryj scs). Qed.
Print Assumptions C01_join_family_returns_under_wake_driven_executor.
(* ... and from every reachable state: after ANY history, while the join / try_join has not returned (nothing consumed yet, a child still pending)
   and has not been dropped, B rounds suffice, B any bound on the remaining script lengths *)
Theorem C01_join_family_returns_from_every_reachable_state tuple tryj scs ops B :
  (forall i, i < length scs -> hasready (nth i scs []) = true) -> (forall m st, In st (nth m scs []) -> answer st <> APanic) -> 0 < length scs ->
  let rnd := rounds jst j_slots j_awaited (fun _ i => i) j_handle tuple tuple j_order (fun _ => None) j_pre_any j_finish (fun s => s) j_drop (fun _ => true) (@no_mut jst) in
  let w := join_world true tryj tuple scs ops in
  finished _ w = false -> dropped _ w = false -> j_consumed (cs _ w) = false -> 0 < pending (cs _ w) ->
  (forall j, length (nth j (scripts _ w) []) <= B) -> 1 <= B ->
  let w' := rnd B w in finished _ w' = true /\ returned _ w' /\ dropped _ w' = false /\ exists ops', w' = join_world true tryj tuple scs ops'.
Proof. intros Hr Hp Hn. exact (joinfam_returns_from tuple tryj scs Hr Hp Hn ops B). Qed.
Print Assumptions C01_join_family_returns_from_every_reachable_state.

(* ---- the stream form (generic part: ScanFull.next_result, for every fixed-arity instance; here merge): from the freshly constructed merge of
        n >= 1 inputs whose scripts never panic and all reach their End, the wake-driven executor obtains the first result - an item or None -
        within [bound scs] rounds: some round r < bound returns it (the trace of that round ends with the result), no earlier round finished or
        unwound.  What that result is, is C08. *)
Theorem C01_merge_first_result_under_wake_driven_executor scs :
  (forall i, i < length scs -> ended (nth i scs []) = true) -> (forall m st, In st (nth m scs []) -> answer st <> APanic) -> 0 < length scs ->
  let rnd := rounds mst m_n m_awaited (fun _ i => i) m_handle true true m_order m_pre_exit (fun _ => false) m_finish (fun s => s)
               (fun s => drop_all_children (m_n s)) m_final (@no_mut mst) in
  let w0 := merge_world true scs [] in
  exists r, r < LiveMerge.bound scs /\ dropped _ (rnd (S r) w0) = false /\ g_retpend _ (rnd (S r) w0) = false /\
            (forall r', r' <= r -> finished _ (rnd r' w0) = false) /\
            exists u o, tr _ (rnd (S r) w0) = tr _ (rnd r w0) ++ u ++ [EEndR o].
Proof. exact (merge_first_result scs). Qed.
Print Assumptions C01_merge_first_result_under_wake_driven_executor.

(* ... and from every reachable state: after ANY history ops, if the merge has not ended, has not been dropped and some input is still alive, the
   wake-driven executor obtains the next item (or the end) within B rounds, B any bound on the remaining script lengths. *)
Theorem C01_merge_next_result_under_wake_driven_executor scs ops B :
  (forall i, i < length scs -> ended (nth i scs []) = true) -> (forall m st, In st (nth m scs []) -> answer st <> APanic) ->
  let rnd := rounds mst m_n m_awaited (fun _ i => i) m_handle true true m_order m_pre_exit (fun _ => false) m_finish (fun s => s)
               (fun s => drop_all_children (m_n s)) m_final (@no_mut mst) in
  let w := merge_world true scs ops in
  finished _ w = false -> dropped _ w = false -> m_complete (cs _ w) < length scs ->
  (forall j, length (nth j (scripts _ w) []) <= B) -> 1 <= B ->
  exists r, r < B /\ dropped _ (rnd (S r) w) = false /\ g_retpend _ (rnd (S r) w) = false /\
            (forall r', r' <= r -> finished _ (rnd r' w) = false) /\
            exists u o, tr _ (rnd (S r) w) = tr _ (rnd r w) ++ u ++ [EEndR o].
Proof. intros He Hp rnd w Hf Hd Hc. exact (merge_next_result scs He Hp (Nat.le_lt_trans _ _ _ (Nat.le_0_l _) Hc) ops B Hf Hd Hc). Qed.
Print Assumptions C01_merge_next_result_under_wake_driven_executor.

(* zip: after any history, while the zip has not seen an End, has not been dropped and the current row is incomplete (the state between
   operations of a zip that has returned Pending or a row), the next result - a row or None - arrives within B rounds *)
Theorem C01_zip_next_result_under_wake_driven_executor scs ops B :
  (forall i, i < length scs -> ended (nth i scs []) = true) -> (forall m st, In st (nth m scs []) -> answer st <> APanic) ->
  let rnd := rounds zst z_n z_awaited (fun _ i => i) z_handle false true z_order (fun _ => None) (fun _ => false) z_finish (fun s => s)
               z_drop m_final (@no_mut zst) in
  let w := zip_world true scs ops in
  finished _ w = false -> dropped _ w = false -> z_done (cs _ w) = false -> forallb is_ready (z_pst (cs _ w)) = false ->
  (forall j, length (nth j (scripts _ w) []) <= B) -> 1 <= B ->
  exists r, r < B /\ dropped _ (rnd (S r) w) = false /\ g_retpend _ (rnd (S r) w) = false /\
            (forall r', r' <= r -> finished _ (rnd r' w) = false) /\
            exists u o, tr _ (rnd (S r) w) = tr _ (rnd r w) ++ u ++ [EEndR o].
Proof. intros He Hp. exact (zip_next_result scs He Hp ops B). Qed.
Print Assumptions C01_zip_next_result_under_wake_driven_executor.

(* the rounds on concrete inputs: merge yields its item in the second round and ends in the third; zip yields its row in the second round *)
Example C01_rounds_witness :
  let P := {| fires := []; answer := APend |} in let I v := {| fires := []; answer := AItem v |} in let E := {| fires := []; answer := AEnd |} in
  let mrnd := rounds mst m_n m_awaited (fun _ i => i) m_handle true true m_order m_pre_exit (fun _ => false) m_finish (fun s => s)
                (fun s => drop_all_children (m_n s)) m_final (@no_mut mst) in
  let zrnd := rounds zst z_n z_awaited (fun _ i => i) z_handle false true z_order (fun _ => None) (fun _ => false) z_finish (fun s => s)
                z_drop m_final (@no_mut zst) in
  map (fun k => results (strip (tr _ (mrnd k (merge_world true [[P; I 1; E]; [P; P; E]] []))))) [1; 2; 3] = [[]; [OSome (Some 0) [1]]; [OSome (Some 0) [1]; ONone]] /\
  map (fun k => results (strip (tr _ (zrnd k (zip_world true [[P; I 1; E]; [I 5; P; E]] []))))) [1; 2; 3] = [[]; [OSome None [1; 5]]; [OSome None [1; 5]; ONone]].
Proof. vm_compute. split; reflexivity. Qed.

(* ---- race, race_ok, chain: they keep no readiness of their own and poll every child that can still contribute (the current input for chain) in
        every poll, so their progress does not depend on which wakers fired - only on being polled again, which the theorems C01_race /
        C01_race_ok / C01_chain above guarantee for a wake-driven executor (every waker a child holds is the caller's own).  Hence the statements
        are for EVERY schedule of waker invocations (current, stale, repeated) and polls (same or fresh parent waker), Proofs/LivePass.v:
        [sched ops] = ops contains only waker invocations and polls; [npolls ops] = the number of polls in it;
        [returns w w'] = the trace of w' is that of w followed by one poll ending with a result. *)
(* race: children scripted Pending* then Ready (or Pending for ever); if child i0 resolves after k Pending answers, one of the first k + 1 polls
   returns the race's result *)
Theorem C01_race_resolves_under_any_schedule scs ops i0 k :
  i0 < length scs -> allgood scs -> lead (nth i0 scs []) = Some k -> sched ops -> k < npolls ops ->
  exists ops1 p ops2, ops = ops1 ++ p :: ops2 /\ is_poll p = true /\ npolls ops1 <= k /\
    let w1 := race_world scs ops1 in
    finished _ w1 = false /\ dropped _ w1 = false /\ returns rst w1 (p_step rst race_poll r_drops w1 p).
Proof. exact (race_returns scs ops i0 k). Qed.
(* race_ok (array / tuple / Vec algorithms, zero futures included): if every child resolves - Ok or Err - after at most b Pending answers, one of
   the first b + 1 polls returns the result (what it is, is C07) *)
Theorem C01_race_ok_resolves_under_any_schedule kind scs ops b :
  (forall i, i < length scs -> goodf (nth i scs []) = true /\ exists k, lead (nth i scs []) = Some k /\ k <= b) -> sched ops -> b < npolls ops ->
  exists ops1 p ops2, ops = ops1 ++ p :: ops2 /\ is_poll p = true /\ npolls ops1 <= b /\
    let w1 := race_ok_world kind scs ops1 in
    finished _ w1 = false /\ dropped _ w1 = false /\ returns kst w1 (p_step kst rok_poll k_drops w1 p).
Proof. exact (race_ok_returns kind scs ops b). Qed.
(* chain, from every reachable state: inputs scripted (Pending | Item)* then End; after any schedule ops0, if the chained stream has not ended, one
   of the next b + 1 polls returns the next item or the end, b = the total number of Pending answers scripted *)
Theorem C01_chain_next_result_under_any_schedule scs ops0 ops :
  (forall i, i < length scs -> goods (nth i scs []) = true) -> sched ops0 -> sched ops ->
  let w := chain_world scs ops0 in finished _ w = false -> tot 0 scs < npolls ops ->
  exists ops1 p ops2, ops = ops1 ++ p :: ops2 /\ is_poll p = true /\ npolls ops1 <= tot 0 scs /\
    let w1 := p_world cst chain_poll c_drops w ops1 in
    finished _ w1 = false /\ dropped _ w1 = false /\ returns cst w1 (p_step cst chain_poll c_drops w1 p).
Proof. exact (chain_next_result scs ops0 ops). Qed.
Print Assumptions C01_race_resolves_under_any_schedule. Print Assumptions C01_race_ok_resolves_under_any_schedule. Print Assumptions C01_chain_next_result_under_any_schedule.
(* ... race and race_ok from every reachable state as well: after ANY schedule ops0, if the race has not resolved, any further schedule with more
   polls than the bound of the freshly constructed race resolves it *)
Theorem C01_race_resolves_from_every_reachable_state scs ops0 ops i0 k :
  i0 < length scs -> allgood scs -> lead (nth i0 scs []) = Some k -> sched ops0 -> sched ops ->
  let w := race_world scs ops0 in finished _ w = false -> k < npolls ops ->
  exists ops1 p ops2, ops = ops1 ++ p :: ops2 /\ is_poll p = true /\ npolls ops1 <= k /\
    let w1 := p_world rst race_poll r_drops w ops1 in
    finished _ w1 = false /\ dropped _ w1 = false /\ returns rst w1 (p_step rst race_poll r_drops w1 p).
Proof. exact (race_returns_from scs ops0 ops i0 k). Qed.
Theorem C01_race_ok_resolves_from_every_reachable_state kind scs ops0 ops b :
  (forall i, i < length scs -> goodf (nth i scs []) = true /\ exists k, lead (nth i scs []) = Some k /\ k <= b) -> sched ops0 -> sched ops ->
  let w := race_ok_world kind scs ops0 in finished _ w = false -> b < npolls ops ->
  exists ops1 p ops2, ops = ops1 ++ p :: ops2 /\ is_poll p = true /\ npolls ops1 <= b /\
    let w1 := p_world kst rok_poll k_drops w ops1 in
    finished _ w1 = false /\ dropped _ w1 = false /\ returns kst w1 (p_step kst rok_poll k_drops w1 p).
Proof. exact (race_ok_returns_from kind scs ops0 ops b). Qed.
Print Assumptions C01_race_resolves_from_every_reachable_state. Print Assumptions C01_race_ok_resolves_from_every_reachable_state.
(* the premises are satisfiable, and the bounds are attained: child 1 of the race resolves after 2 Pending answers and the third poll returns 9;
   race_ok with bound 1 returns the aggregate error in the second poll; the chain with 2 scripted Pending answers needs 3 polls for its first item *)
Example C01_pass_witness :
  let P := {| fires := []; answer := APend |} in let R v := {| fires := []; answer := AReady (ROk v) |} in let X e := {| fires := []; answer := AReady (RErr e) |} in
  let I v := {| fires := []; answer := AItem v |} in let E := {| fires := []; answer := AEnd |} in
  (allgood [[P; P; P; R 7]; [P; P; R 9]] /\ lead [P; P; R 9] = Some 2 /\
   map (fun k => results (strip (tr _ (race_world [[P; P; P; R 7]; [P; P; R 9]] (repeat OPollFresh k))))) [2; 3] = [[]; [OVals [9]]]) /\
  (map (fun k => results (strip (tr _ (race_ok_world 2 [[X 4]; [P; X 5]] (repeat OPollFresh k))))) [1; 2] = [[]; [OErrs [4; 5]]]) /\
  (tot 0 [[P; E]; [P; I 3; E]] = 2 /\
   map (fun k => results (strip (tr _ (chain_world [[P; E]; [P; I 3; E]] (repeat OPollFresh k))))) [2; 3; 4] = [[]; [OSome None [3]]; [OSome None [3]; ONone]]).
Proof. vm_compute. repeat split; try reflexivity. repeat constructor. Qed.

(* ---- FutureGroup / StreamGroup (Proofs/LiveGroups.v: the groups as an instance of ScanFull.Section Live, which speaks about occupied slots and the
        member a slot currently holds, so that members may come and go): after ANY history of inserts, removes, reserves, polls and wake-ups whose
        inserted members are scripted (Pending | Item)* then Ready or End without a panic (in a FutureGroup without End or Item - its members are
        futures -, in a StreamGroup without Ready), if the group is not empty the wake-driven executor obtains the next output within B rounds, B any bound on the remaining script
        lengths.  [goodop] is that condition on the history's insert operations; a round invokes the most recent waker of the member of every slot
        and polls with the same task. *)
Theorem C01_group_next_result_under_wake_driven_executor stream cap0 ops B :
  Forall (goodop stream) ops ->
  let rnd := rounds gst g_slots g_awaited g_member g_handle false false g_order g_pre_exit (fun _ => true) g_finish g_cleanup g_drop (fun _ => false) g_mutate in
  let w := group_world true stream cap0 ops in
  finished _ w = false -> dropped _ w = false -> g_len (cs _ w) <> 0 ->
  (forall m, length (nth m (scripts _ w) []) <= B) -> 1 <= B ->
  exists r, r < B /\ dropped _ (rnd (S r) w) = false /\ g_retpend _ (rnd (S r) w) = false /\
            (forall r', r' <= r -> finished _ (rnd r' w) = false) /\
            exists u o, tr _ (rnd (S r) w) = tr _ (rnd r w) ++ u ++ [EEndR o].
Proof. exact (group_next_result stream cap0 ops B). Qed.
Print Assumptions C01_group_next_result_under_wake_driven_executor.
(* two futures inserted into an empty FutureGroup: the premises hold with B = 3, the second round yields 9 (key 1), the fourth 7 (key 0), the fifth None *)
Example C01_group_rounds_witness :
  let P := {| fires := []; answer := APend |} in let R v := {| fires := []; answer := AReady (ROk v) |} in
  let ops := [OMut 0 0 [P; P; R 7]; OMut 0 0 [P; R 9]] in
  let rnd := rounds gst g_slots g_awaited g_member g_handle false false g_order g_pre_exit (fun _ => true) g_finish g_cleanup g_drop (fun _ => false) g_mutate in
  let w := group_world true false 0 ops in
  Forall (goodop false) ops /\ finished _ w = false /\ dropped _ w = false /\ g_len (cs _ w) = 2 /\
  map (fun k => results (strip (tr _ (rnd k w)))) [1; 2; 3; 4] = [[]; [OSome (Some 1) [9]]; [OSome (Some 1) [9]; OSome (Some 0) [7]]; [OSome (Some 1) [9]; OSome (Some 0) [7]; ONone]].
Proof.
  cbv zeta. split; [|vm_compute; repeat split; reflexivity].
  assert (Hst : forall (sc: list step), forallb (fun st => match answer st with APend | AReady _ => true | _ => false end) sc = true -> okscript false sc).
  { intros sc H st Hin. rewrite forallb_forall in H. specialize (H st Hin). destruct (answer st); try discriminate; (split; [discriminate|]; split; [intros _; split; [discriminate|intros v; discriminate]|intros X; discriminate]). }
  apply Forall_cons; [split; [apply Hst; reflexivity|reflexivity]|]. apply Forall_cons; [split; [apply Hst; reflexivity|reflexivity]|constructor].
Qed.

(* non-vacuity: a history that reaches a state satisfying all premises of C01_join: child 0 pends, its waker fires after the poll *)
Example C01_witness :
  let scs := [[{| fires := []; answer := APend |}]; [{| fires := []; answer := APend |}]] in
  let w := join_world true false false scs [OPollFresh; OFire 0 0] in
  g_retpend _ w = true /\ aw _ j_awaited w 0 = true /\ polled _ w 0 = true /\ fired _ w 0 = true /\ g_out _ w = true.
Proof. vm_compute. repeat split; reflexivity. Qed.
