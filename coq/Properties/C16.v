(* Property C16 - selective polling (std): a pending child is re-polled only after its waker fired.
   g_bad16 is set by the model (Model/ScanFull.v, poll_child) when a child is polled although its last answer was Pending and no waker of
   its slot has fired since that poll began.  It stays false for all sizes, behaviours and histories in the selective strategy. *)
From Coq Require Import List Arith Bool.
Import ListNotations.
Require Import ScanFull InstsFull ObligJoin ObligMZ ObligGroups C11Groups GhostTrace.

Theorem C16_join tuple tryj scs ops : g_bad16 _ (join_world true tryj tuple scs ops) = false.
Proof. exact (join_C16 tuple tryj scs ops). Qed.
Theorem C16_merge scs ops : g_bad16 _ (merge_world true scs ops) = false.
Proof. exact (merge_C16 scs ops). Qed.
Theorem C16_zip scs ops : g_bad16 _ (zip_world true scs ops) = false.
Proof. exact (zip_C16 scs ops). Qed.
Theorem C16_group stream cap0 ops : g_bad16 _ (group_world true stream cap0 ops) = false.
Proof. exact (group_C16 stream cap0 ops). Qed.
Print Assumptions C16_join. Print Assumptions C16_merge. Print Assumptions C16_zip. Print Assumptions C16_group.


(* ---- the same property as a statement about the observable TRACE alone (Proofs/GhostTrace.v, Model/ScanFull.v Section GhostTrace).
   mon16 n t runs a monitor over a complete trace t (n = number of children; 0 for a group): it recomputes from the events alone, per readiness slot,
   "has been polled", "last answer was Pending" and "a waker handed out for this slot has fired since that poll began" (a fire event f<c>.<k> is
   resolved through the table of wakers handed out so far; an insert into slot k resets the slot), and fails at the first child poll `EC m (WSub i)` of a
   slot that was polled, answered Pending and has not fired.  It accepts EVERY trace the model produces - and the trace is what the correspondence
   check compares with the crate, token for token; tools/monitors.py mon_C16 evaluates the same predicate on the crate's traces. *)
Theorem C16_join_trace tuple tryj scs ops : mon16 (length scs) (tr _ (join_world true tryj tuple scs ops)) = true.
Proof. exact (join_C16_trace tuple tryj scs ops). Qed.
Theorem C16_merge_trace scs ops : mon16 (length scs) (tr _ (merge_world true scs ops)) = true.
Proof. exact (merge_C16_trace scs ops). Qed.
Theorem C16_zip_trace scs ops : mon16 (length scs) (tr _ (zip_world true scs ops)) = true.
Proof. exact (zip_C16_trace scs ops). Qed.
Theorem C16_group_trace stream cap0 ops : mon16 0 (tr _ (group_world true stream cap0 ops)) = true.
Proof. exact (group_C16_trace stream cap0 ops). Qed.
Print Assumptions C16_join_trace. Print Assumptions C16_merge_trace. Print Assumptions C16_zip_trace. Print Assumptions C16_group_trace.

(* the monitor does reject a trace in which a pending child is re-polled without its waker having fired *)
Example C16_monitor_rejects : mon16 2 [EB 0; EC 0 (WSub 0); EAns APend; EC 1 (WSub 1); EAns APend; EEndP; EB 1; EC 0 (WSub 0); EAns APend; EEndP] = false
  /\ mon16 2 [EB 0; EC 0 (WSub 0); EAns APend; EC 1 (WSub 1); EAns APend; EEndP; EO; EF 0 0; EW 0; EB 1; EC 0 (WSub 0); EAns APend; EEndP] = true.
Proof. vm_compute. split; reflexivity. Qed.

(* a spurious poll of the combinator polls nobody: after the first poll every child has answered Pending and nothing fired *)
Example C16_witness :
  let scs := [[{| fires := []; answer := APend |}; {| fires := []; answer := APend |}]; [{| fires := []; answer := APend |}; {| fires := []; answer := APend |}]] in
  length (polls_from 0 (tr _ (join_world true false false scs [OPollFresh; OPollFresh; OFire 1 0; OPollFresh]))) = 3.
Proof. vm_compute. reflexivity. Qed.
