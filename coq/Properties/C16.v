(* Property C16 - selective polling (std): a pending child is re-polled only after its waker fired.
   g_bad16 is set by the model (Model/ScanFull.v, poll_child) when a child is polled although its last answer was Pending and no waker of
   its slot has fired since that poll began.  It stays false for all sizes, behaviours and histories in the selective strategy. *)
From Coq Require Import List Arith Bool.
Import ListNotations.
Require Import ScanFull InstsFull ObligJoin ObligMZ ObligGroups C11Groups.

Theorem C16_join tuple tryj scs ops : g_bad16 _ (join_world true tryj tuple scs ops) = false.
Proof. exact (join_C16 tuple tryj scs ops). Qed.
Theorem C16_merge scs ops : g_bad16 _ (merge_world true scs ops) = false.
Proof. exact (merge_C16 scs ops). Qed.
Theorem C16_zip scs ops : g_bad16 _ (zip_world true scs ops) = false.
Proof. exact (zip_C16 scs ops). Qed.
Theorem C16_group stream cap0 ops : g_bad16 _ (group_world true stream cap0 ops) = false.
Proof. exact (group_C16 stream cap0 ops). Qed.
Print Assumptions C16_join. Print Assumptions C16_merge. Print Assumptions C16_zip. Print Assumptions C16_group.

(* a spurious poll of the combinator polls nobody: after the first poll every child has answered Pending and nothing fired *)
Example C16_witness :
  let scs := [[{| fires := []; answer := APend |}; {| fires := []; answer := APend |}]; [{| fires := []; answer := APend |}; {| fires := []; answer := APend |}]] in
  length (polls_from 0 (tr _ (join_world true false false scs [OPollFresh; OPollFresh; OFire 1 0; OPollFresh]))) = 3.
Proof. vm_compute. reflexivity. Qed.
