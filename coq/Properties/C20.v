(* Property C20 - concurrent evaluation: all children are started; none waits for a sibling.
   Whenever the last poll returned Pending (g_retpend) and nothing has been inserted since (g_quiet), every awaited child has been polled.
   Selective and non-selective strategies; join/try_join (slice and tuple), merge, zip, both groups. *)
From Coq Require Import List Arith Bool.
Import ListNotations.
Require Import ScanFull InstsFull Pass ObligJoin ObligMZ ObligGroups GhostTrace NonSel PassPolls Progress.

Theorem C20_join tuple tryj scs ops i : let w := join_world true tryj tuple scs ops in
  g_retpend _ w = true -> g_quiet _ w = true -> i < N _ j_slots w -> aw _ j_awaited w i = true -> polled _ w i = true.
Proof. exact (join_C20 tuple tryj scs ops i). Qed.
Theorem C20_merge scs ops i : let w := merge_world true scs ops in
  g_retpend _ w = true -> g_quiet _ w = true -> i < N _ m_n w -> aw _ m_awaited w i = true -> polled _ w i = true.
Proof. exact (merge_C20 scs ops i). Qed.
Theorem C20_zip scs ops i : let w := zip_world true scs ops in
  g_retpend _ w = true -> g_quiet _ w = true -> i < N _ z_n w -> aw _ z_awaited w i = true -> polled _ w i = true.
Proof. exact (zip_C20 scs ops i). Qed.
Theorem C20_group stream cap0 ops i : let w := group_world true stream cap0 ops in
  g_retpend _ w = true -> g_quiet _ w = true -> i < N _ g_slots w -> aw _ g_awaited w i = true -> polled _ w i = true.
Proof. exact (group_C20 stream cap0 ops i). Qed.
Theorem C20_join_nonsel tryj tuple scs ops i : let w := join_world false tryj tuple scs ops in
  g_retpend _ w = true -> g_quiet _ w = true -> i < N _ j_slots w -> aw _ j_awaited w i = true -> polled _ w i = true.
Proof. exact (join_C20_nonsel tryj tuple scs ops i). Qed.
Theorem C20_merge_nonsel scs ops i : let w := merge_world false scs ops in
  g_retpend _ w = true -> g_quiet _ w = true -> i < N _ m_n w -> aw _ m_awaited w i = true -> polled _ w i = true.
Proof. exact (merge_C20_nonsel scs ops i). Qed.
Theorem C20_zip_nonsel scs ops i : let w := zip_world false scs ops in
  g_retpend _ w = true -> g_quiet _ w = true -> i < N _ z_n w -> aw _ z_awaited w i = true -> polled _ w i = true.
Proof. exact (zip_C20_nonsel scs ops i). Qed.
Theorem C20_group_nonsel stream cap0 ops i : let w := group_world false stream cap0 ops in
  g_retpend _ w = true -> g_quiet _ w = true -> i < N _ g_slots w -> aw _ g_awaited w i = true -> polled _ w i = true.
Proof. exact (group_C20_nonsel stream cap0 ops i). Qed.
Print Assumptions C20_join. Print Assumptions C20_merge. Print Assumptions C20_zip. Print Assumptions C20_group.
Print Assumptions C20_join_nonsel. Print Assumptions C20_merge_nonsel. Print Assumptions C20_zip_nonsel. Print Assumptions C20_group_nonsel.



(* ---- selective strategy, bookkeeping read off the trace (see Properties/C01.v, C16.v): after a Pending return with no insertion since, every
        awaited slot has a child poll in the trace *)
Theorem C20_join_trace tuple tryj scs ops i : let w := join_world true tryj tuple scs ops in let g := gfold (ginit (length scs)) (tr _ w) in
  t_ret g = true -> t_quiet g = true -> i < N _ j_slots w -> aw _ j_awaited w i = true -> t_polled g i = true.
Proof. exact (join_C20_trace tuple tryj scs ops i). Qed.
Theorem C20_merge_trace scs ops i : let w := merge_world true scs ops in let g := gfold (ginit (length scs)) (tr _ w) in
  t_ret g = true -> t_quiet g = true -> i < N _ m_n w -> aw _ m_awaited w i = true -> t_polled g i = true.
Proof. exact (merge_C20_trace scs ops i). Qed.
Theorem C20_zip_trace scs ops i : let w := zip_world true scs ops in let g := gfold (ginit (length scs)) (tr _ w) in
  t_ret g = true -> t_quiet g = true -> i < N _ z_n w -> aw _ z_awaited w i = true -> t_polled g i = true.
Proof. exact (zip_C20_trace scs ops i). Qed.
Theorem C20_group_trace stream cap0 ops i : let w := group_world true stream cap0 ops in let g := gfold (ginit 0) (tr _ w) in
  t_ret g = true -> t_quiet g = true -> i < N _ g_slots w -> aw _ g_awaited w i = true -> t_polled g i = true.
Proof. exact (group_C20_trace stream cap0 ops i). Qed.
Print Assumptions C20_join_trace. Print Assumptions C20_merge_trace. Print Assumptions C20_zip_trace. Print Assumptions C20_group_trace.

(* ---- the second sentence: a child that stays Pending for ever never keeps a sibling from being polled when it is woken, or the result from being
        delivered.  Selective strategy, any reachable state w in which the combinator is neither finished nor dropped, any child j that is still
        awaited and has signalled since its last poll (fired) or has never been polled: the very next poll (with a fresh or the same parent waker)
        polls j - its trace segment u contains a child poll made with j's own sub-waker - unless it delivers a result before the scan reaches j
        (merge / the groups yield an item, try_join an error; the still-set readiness bit then makes the same statement apply to the poll after) or
        unwinds.  Nothing is assumed about the other children.  (Non-selective strategy: every awaited child is polled in every poll, NonSel.) *)
Theorem C20_join_sibling_progress tuple tryj scs ops o j : (o = OPollFresh \/ o = OPollSame) -> let w := join_world true tryj tuple scs ops in
  finished _ w = false -> dropped _ w = false -> j < N _ j_slots w -> aw _ j_awaited w j = true -> (fired _ w j = true \/ polled _ w j = false) ->
  exists pid u, tr _ (join_world true tryj tuple scs (ops ++ [o])) = tr _ w ++ EB pid :: u /\ (subpolled j u \/ (exists r, In (EEndR r) u) \/ In EEndX u).
Proof. exact (join_progress tuple tryj scs ops o j). Qed.
Theorem C20_merge_sibling_progress scs ops o j : (o = OPollFresh \/ o = OPollSame) -> let w := merge_world true scs ops in
  finished _ w = false -> dropped _ w = false -> j < N _ m_n w -> aw _ m_awaited w j = true -> (fired _ w j = true \/ polled _ w j = false) ->
  exists pid u, tr _ (merge_world true scs (ops ++ [o])) = tr _ w ++ EB pid :: u /\ (subpolled j u \/ (exists r, In (EEndR r) u) \/ In EEndX u).
Proof. exact (merge_progress scs ops o j). Qed.
Theorem C20_zip_sibling_progress scs ops o j : (o = OPollFresh \/ o = OPollSame) -> let w := zip_world true scs ops in
  finished _ w = false -> dropped _ w = false -> j < N _ z_n w -> aw _ z_awaited w j = true -> (fired _ w j = true \/ polled _ w j = false) ->
  exists pid u, tr _ (zip_world true scs (ops ++ [o])) = tr _ w ++ EB pid :: u /\ (subpolled j u \/ (exists r, In (EEndR r) u) \/ In EEndX u).
Proof. exact (zip_progress scs ops o j). Qed.
Theorem C20_group_sibling_progress stream cap0 ops o j : (o = OPollFresh \/ o = OPollSame) -> let w := group_world true stream cap0 ops in
  finished _ w = false -> dropped _ w = false -> j < N _ g_slots w -> aw _ g_awaited w j = true -> (fired _ w j = true \/ polled _ w j = false) ->
  exists pid u, tr _ (group_world true stream cap0 (ops ++ [o])) = tr _ w ++ EB pid :: u /\ (subpolled j u \/ (exists r, In (EEndR r) u) \/ In EEndX u).
Proof. exact (group_progress stream cap0 ops o j). Qed.
Print Assumptions C20_join_sibling_progress. Print Assumptions C20_merge_sibling_progress. Print Assumptions C20_zip_sibling_progress. Print Assumptions C20_group_sibling_progress.

(* the same with "has signalled since its last poll" / "has never been polled" recomputed from the observable trace by gfold *)
Theorem C20_join_sibling_progress_trace tuple tryj scs ops nxt j : (nxt = OPollFresh \/ nxt = OPollSame) ->
  let w := join_world true tryj tuple scs ops in let g := gfold (ginit (length scs)) (tr _ w) in
  finished _ w = false -> dropped _ w = false -> j < N _ j_slots w -> aw _ j_awaited w j = true -> (t_fired g j = true \/ t_polled g j = false) ->
  exists pid u, tr _ (join_world true tryj tuple scs (ops ++ [nxt])) = tr _ w ++ EB pid :: u /\ (subpolled j u \/ (exists r, In (EEndR r) u) \/ In EEndX u).
Proof. exact (join_progress_trace tuple tryj scs ops nxt j). Qed.
Theorem C20_merge_sibling_progress_trace scs ops nxt j : (nxt = OPollFresh \/ nxt = OPollSame) ->
  let w := merge_world true scs ops in let g := gfold (ginit (length scs)) (tr _ w) in
  finished _ w = false -> dropped _ w = false -> j < N _ m_n w -> aw _ m_awaited w j = true -> (t_fired g j = true \/ t_polled g j = false) ->
  exists pid u, tr _ (merge_world true scs (ops ++ [nxt])) = tr _ w ++ EB pid :: u /\ (subpolled j u \/ (exists r, In (EEndR r) u) \/ In EEndX u).
Proof. exact (merge_progress_trace scs ops nxt j). Qed.
Theorem C20_zip_sibling_progress_trace scs ops nxt j : (nxt = OPollFresh \/ nxt = OPollSame) ->
  let w := zip_world true scs ops in let g := gfold (ginit (length scs)) (tr _ w) in
  finished _ w = false -> dropped _ w = false -> j < N _ z_n w -> aw _ z_awaited w j = true -> (t_fired g j = true \/ t_polled g j = false) ->
  exists pid u, tr _ (zip_world true scs (ops ++ [nxt])) = tr _ w ++ EB pid :: u /\ (subpolled j u \/ (exists r, In (EEndR r) u) \/ In EEndX u).
Proof. exact (zip_progress_trace scs ops nxt j). Qed.
Theorem C20_group_sibling_progress_trace stream cap0 ops nxt j : (nxt = OPollFresh \/ nxt = OPollSame) ->
  let w := group_world true stream cap0 ops in let g := gfold (ginit 0) (tr _ w) in
  finished _ w = false -> dropped _ w = false -> j < N _ g_slots w -> aw _ g_awaited w j = true -> (t_fired g j = true \/ t_polled g j = false) ->
  exists pid u, tr _ (group_world true stream cap0 (ops ++ [nxt])) = tr _ w ++ EB pid :: u /\ (subpolled j u \/ (exists r, In (EEndR r) u) \/ In EEndX u).
Proof. exact (group_progress_trace stream cap0 ops nxt j). Qed.
Print Assumptions C20_join_sibling_progress_trace. Print Assumptions C20_merge_sibling_progress_trace. Print Assumptions C20_zip_sibling_progress_trace. Print Assumptions C20_group_sibling_progress_trace.

(* the premises are met: child 0 never completes, child 1 was polled, answered Pending and has fired its waker since *)
Example C20_progress_witness :
  let scs := [[]; [{| fires := []; answer := APend |}; {| fires := []; answer := AReady (ROk 7) |}]] in
  let w := join_world true false false scs [OPollFresh; OFire 1 0] in
  finished _ w = false /\ dropped _ w = false /\ 1 < N _ j_slots w /\ aw _ j_awaited w 1 = true /\ fired _ w 1 = true /\
  tr _ (join_world true false false scs ([OPollFresh; OFire 1 0] ++ [OPollSame])) = tr _ w ++ [EB 0; EC 1 (WSub 1); EAns (AReady (ROk 7)); EDc 1; EEndP].
Proof. vm_compute. repeat split; reflexivity. Qed.

(* race and race_ok hand the caller's waker straight to their children.  One poll, from ANY state: if it returns Pending (its trace segment is
   EB pid :: u ++ [EEndP]) then it has polled, in that very poll and with the caller's waker pid, every child (race) resp. every child that has not
   failed (race_ok, all three algorithms).  Hence after a Pending return every owned child has been polled, a never-completing child never keeps a
   sibling from being polled, and each child's most recent waker is the newest parent waker (C01). *)
Theorem C20_race_polls_all (w: W rst) pid np : forall u, tr _ (race_poll w pid np) = tr _ w ++ EB pid :: u ++ [EEndP] ->
  forall i, i < r_n (cs _ w) -> In (EC i (WPar pid)) u.
Proof. exact (race_pending_polls_all w pid np). Qed.
Theorem C20_race_ok_polls_all (w: W kst) pid np : forall u, tr _ (rok_poll w pid np) = tr _ w ++ EB pid :: u ++ [EEndP] ->
  forall i, i < k_n (cs _ w) -> nth i (k_errs (cs _ (rok_poll w pid np))) None = None -> In (EC i (WPar pid)) u.
Proof. exact (race_ok_pending_polls_all w pid np). Qed.
Print Assumptions C20_race_polls_all. Print Assumptions C20_race_ok_polls_all.

Example C20_witness :
  let scs := [[]; [{| fires := []; answer := APend |}]; []] in
  let w := join_world true false true scs [OPollFresh] in
  g_retpend _ w = true /\ g_quiet _ w = true /\ map (polled _ w) [0; 1; 2] = [true; true; true].
Proof. vm_compute. repeat split; reflexivity. Qed.
