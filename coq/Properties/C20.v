(* Property C20 - concurrent evaluation: all children are started; none waits for a sibling.
   Whenever the last poll returned Pending (g_retpend) and nothing has been inserted since (g_quiet), every awaited child has been polled.
   Selective and non-selective strategies; join/try_join (slice and tuple), merge, zip, both groups. *)
From Coq Require Import List Arith Bool.
Import ListNotations.
Require Import ScanFull InstsFull Pass ObligJoin ObligMZ ObligGroups GhostTrace NonSel PassPolls.

Theorem C20_join tuple tryj scs ops i : let w := join_world true tryj tuple scs ops in
  g_retpend _ w = true -> g_quiet _ w = true -> i < N _ j_slots w -> aw _ j_awaited w i = true -> polled _ w i = true.
Proof. exact (join_C20 tuple tryj scs ops i). Qed.
Theorem C20_merge scs ops i : let w := merge_world true scs ops in
  g_retpend _ w = true -> g_quiet _ w = true -> i < N _ m_n w -> aw _ m_awaited w i = true -> polled _ w i = true.
Proof. exact (merge_C20 scs ops i). Qed.
Theorem C20_zip scs ops i : let w := zip_world true scs ops in
  g_retpend _ w = true -> g_quiet _ w = true -> i < N _ z_n w -> aw _ z_awaited w i = true -> polled _ w i = true.
Proof. exact (zip_C20 scs ops i). Qed.
Theorem C20_group stream cap0 ops i : let w := group_world true stream cap0 ops in
  g_retpend _ w = true -> g_quiet _ w = true -> i < N _ g_slots w -> aw _ g_awaited w i = true -> polled _ w i = true.
Proof. exact (group_C20 stream cap0 ops i). Qed.
Theorem C20_join_nonsel tryj tuple scs ops i : let w := join_world false tryj tuple scs ops in
  g_retpend _ w = true -> g_quiet _ w = true -> i < N _ j_slots w -> aw _ j_awaited w i = true -> polled _ w i = true.
Proof. exact (join_C20_nonsel tryj tuple scs ops i). Qed.
Theorem C20_merge_nonsel scs ops i : let w := merge_world false scs ops in
  g_retpend _ w = true -> g_quiet _ w = true -> i < N _ m_n w -> aw _ m_awaited w i = true -> polled _ w i = true.
Proof. exact (merge_C20_nonsel scs ops i). Qed.
Theorem C20_zip_nonsel scs ops i : let w := zip_world false scs ops in
  g_retpend _ w = true -> g_quiet _ w = true -> i < N _ z_n w -> aw _ z_awaited w i = true -> polled _ w i = true.
Proof. exact (zip_C20_nonsel scs ops i). Qed.
Theorem C20_group_nonsel stream cap0 ops i : let w := group_world false stream cap0 ops in
  g_retpend _ w = true -> g_quiet _ w = true -> i < N _ g_slots w -> aw _ g_awaited w i = true -> polled _ w i = true.
Proof. exact (group_C20_nonsel stream cap0 ops i). Qed.
Print Assumptions C20_join. Print Assumptions C20_merge. Print Assumptions C20_zip. Print Assumptions C20_group.
Print Assumptions C20_join_nonsel. Print Assumptions C20_merge_nonsel. Print Assumptions C20_zip_nonsel. Print Assumptions C20_group_nonsel.



(* ---- selective strategy, bookkeeping read off the trace (see Properties/C01.v, C16.v): after a Pending return with no insertion since, every
        awaited slot has a child poll in the trace *)
Theorem C20_join_trace tuple tryj scs ops i : let w := join_world true tryj tuple scs ops in let g := gfold (ginit (length scs)) (tr _ w) in
  t_ret g = true -> t_quiet g = true -> i < N _ j_slots w -> aw _ j_awaited w i = true -> t_polled g i = true.
Proof. exact (join_C20_trace tuple tryj scs ops i). Qed.
Theorem C20_merge_trace scs ops i : let w := merge_world true scs ops in let g := gfold (ginit (length scs)) (tr _ w) in
  t_ret g = true -> t_quiet g = true -> i < N _ m_n w -> aw _ m_awaited w i = true -> t_polled g i = true.
Proof. exact (merge_C20_trace scs ops i). Qed.
Theorem C20_zip_trace scs ops i : let w := zip_world true scs ops in let g := gfold (ginit (length scs)) (tr _ w) in
  t_ret g = true -> t_quiet g = true -> i < N _ z_n w -> aw _ z_awaited w i = true -> t_polled g i = true.
Proof. exact (zip_C20_trace scs ops i). Qed.
Theorem C20_group_trace stream cap0 ops i : let w := group_world true stream cap0 ops in let g := gfold (ginit 0) (tr _ w) in
  t_ret g = true -> t_quiet g = true -> i < N _ g_slots w -> aw _ g_awaited w i = true -> t_polled g i = true.
Proof. exact (group_C20_trace stream cap0 ops i). Qed.
Print Assumptions C20_join_trace. Print Assumptions C20_merge_trace. Print Assumptions C20_zip_trace. Print Assumptions C20_group_trace.

(* race and race_ok hand the caller's waker straight to their children.  One poll, from ANY state: if it returns Pending (its trace segment is
   EB pid :: u ++ [EEndP]) then it has polled, in that very poll and with the caller's waker pid, every child (race) resp. every child that has not
   failed (race_ok, all three algorithms).  Hence after a Pending return every owned child has been polled, a never-completing child never keeps a
   sibling from being polled, and each child's most recent waker is the newest parent waker (C01). *)
Theorem C20_race_polls_all (w: W rst) pid np : forall u, tr _ (race_poll w pid np) = tr _ w ++ EB pid :: u ++ [EEndP] ->
  forall i, i < r_n (cs _ w) -> In (EC i (WPar pid)) u.
Proof. exact (race_pending_polls_all w pid np). Qed.
Theorem C20_race_ok_polls_all (w: W kst) pid np : forall u, tr _ (rok_poll w pid np) = tr _ w ++ EB pid :: u ++ [EEndP] ->
  forall i, i < k_n (cs _ w) -> nth i (k_errs (cs _ (rok_poll w pid np))) None = None -> In (EC i (WPar pid)) u.
Proof. exact (race_ok_pending_polls_all w pid np). Qed.
Print Assumptions C20_race_polls_all. Print Assumptions C20_race_ok_polls_all.

Example C20_witness :
  let scs := [[]; [{| fires := []; answer := APend |}]; []] in
  let w := join_world true false true scs [OPollFresh] in
  g_retpend _ w = true /\ g_quiet _ w = true /\ map (polled _ w) [0; 1; 2] = [true; true; true].
Proof. vm_compute. repeat split; reflexivity. Qed.
