(* Property C20 - concurrent evaluation: all children are started; none waits for a sibling.
   Whenever the last poll returned Pending (g_retpend) and nothing has been inserted since (g_quiet), every awaited child has been polled.
   Selective and non-selective strategies; join/try_join (slice and tuple), merge, zip, both groups. *)
From Coq Require Import List Arith Bool.
Import ListNotations.
Require Import ScanFull InstsFull ObligJoin ObligMZ ObligGroups NonSel.

Theorem C20_join tuple tryj scs ops i : let w := join_world true tryj tuple scs ops in
  g_retpend _ w = true -> g_quiet _ w = true -> i < N _ j_slots w -> aw _ j_awaited w i = true -> polled _ w i = true.
Proof. exact (join_C20 tuple tryj scs ops i). Qed.
Theorem C20_merge scs ops i : let w := merge_world true scs ops in
  g_retpend _ w = true -> g_quiet _ w = true -> i < N _ m_n w -> aw _ m_awaited w i = true -> polled _ w i = true.
Proof. exact (merge_C20 scs ops i). Qed.
Theorem C20_zip scs ops i : let w := zip_world true scs ops in
  g_retpend _ w = true -> g_quiet _ w = true -> i < N _ z_n w -> aw _ z_awaited w i = true -> polled _ w i = true.
Proof. exact (zip_C20 scs ops i). Qed.
Theorem C20_group stream cap0 ops i : let w := group_world true stream cap0 ops in
  g_retpend _ w = true -> g_quiet _ w = true -> i < N _ g_slots w -> aw _ g_awaited w i = true -> polled _ w i = true.
Proof. exact (group_C20 stream cap0 ops i). Qed.
Theorem C20_join_nonsel tryj tuple scs ops i : let w := join_world false tryj tuple scs ops in
  g_retpend _ w = true -> g_quiet _ w = true -> i < N _ j_slots w -> aw _ j_awaited w i = true -> polled _ w i = true.
Proof. exact (join_C20_nonsel tryj tuple scs ops i). Qed.
Theorem C20_merge_nonsel scs ops i : let w := merge_world false scs ops in
  g_retpend _ w = true -> g_quiet _ w = true -> i < N _ m_n w -> aw _ m_awaited w i = true -> polled _ w i = true.
Proof. exact (merge_C20_nonsel scs ops i). Qed.
Theorem C20_zip_nonsel scs ops i : let w := zip_world false scs ops in
  g_retpend _ w = true -> g_quiet _ w = true -> i < N _ z_n w -> aw _ z_awaited w i = true -> polled _ w i = true.
Proof. exact (zip_C20_nonsel scs ops i). Qed.
Theorem C20_group_nonsel stream cap0 ops i : let w := group_world false stream cap0 ops in
  g_retpend _ w = true -> g_quiet _ w = true -> i < N _ g_slots w -> aw _ g_awaited w i = true -> polled _ w i = true.
Proof. exact (group_C20_nonsel stream cap0 ops i). Qed.
Print Assumptions C20_join. Print Assumptions C20_merge. Print Assumptions C20_zip. Print Assumptions C20_group.
Print Assumptions C20_join_nonsel. Print Assumptions C20_merge_nonsel. Print Assumptions C20_zip_nonsel. Print Assumptions C20_group_nonsel.

Example C20_witness :
  let scs := [[]; [{| fires := []; answer := APend |}]; []] in
  let w := join_world true false true scs [OPollFresh] in
  g_retpend _ w = true /\ g_quiet _ w = true /\ map (polled _ w) [0; 1; 2] = [true; true; true].
Proof. vm_compute. repeat split; reflexivity. Qed.
