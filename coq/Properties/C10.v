(* Property C10 - chain: concatenation in order with strictly sequential evaluation. *)
From Coq Require Import List Arith Bool.
Import ListNotations.
Require Import ScanFull InstsFull Pass C11Groups PassProofs Monitors C02Join C02Merge PassLedger LivePass PassNoUnwind.

(* [Pc s fin t]: the sequential automaton runC (state = index of the current input; a poll must be of the current input, only an End
   answer advances it) accepts the poll list and ends in the model's index; the results are exactly the items the inputs answered, in that
   order, followed by None iff the chain has finished; finished => the index has passed the last input. *)
Theorem C10_chain_sequential scs ops :
  let w := chain_world scs ops in
  dropped _ w = false -> Pc (cs _ w) (finished _ w) (strip (tr _ w)).
Proof. exact (C10_chain scs ops). Qed.
Print Assumptions C10_chain_sequential.

Theorem C10_ledger scs ops : let n := length scs in
  BalS n (strip (tr _ (chain_world scs (ops ++ [ODrop])))).
Proof. exact (C02_chain scs ops). Qed.
Print Assumptions C10_ledger.

Example C10_empty : results (strip (tr _ (chain_world [] [OPollFresh]))) = [ONone].
Proof. vm_compute. reflexivity. Qed.
Example C10_witness :
  let scs := [[{| fires := []; answer := AItem 1 |}; {| fires := []; answer := AEnd |}]; [{| fires := []; answer := AItem 2 |}; {| fires := []; answer := AEnd |}]] in
  results (strip (tr _ (chain_world scs [OPollFresh; OPollFresh; OPollFresh]))) = [OSome None [1]; OSome None [2]; ONone].
Proof. vm_compute. reflexivity. Qed.

(* the same statement as a boolean predicate over the observable trace (chain_b, Proofs/Monitors.v; a state-free consequence of the invariant above):
   the function that runner/montool.ml evaluates on every trace of the crate *)
Theorem C10_sequential_predicate_holds scs ops :
  let w := chain_world scs ops in
  dropped _ w = false -> chain_b (strip (tr _ w)) = true.
Proof. exact (chain_b_holds scs ops). Qed.
Print Assumptions C10_sequential_predicate_holds.

(* ---- "returns None when the last input has ended": it does.  Inputs scripted (Pending | Item)* then End (zero inputs included): under EVERY schedule
        of waker invocations and polls containing more than s polls, s the number of Pending and Item answers scripted before the Ends, the chained
        stream has returned None and is finished; C10_chain_sequential says what was returned before: all items of the first input in order, then
        all items of the second, and so on.  (chain keeps no readiness of its own: every poll polls the current input, so nothing depends on which
        wakers fired - only on being polled, which C01_chain guarantees under a wake-driven executor.) *)
Theorem C10_chain_ends_under_any_schedule scs ops :
  (forall i, i < length scs -> goods (nth i scs []) = true) -> sched ops -> stot 0 scs < npolls ops ->
  let w := chain_world scs ops in finished _ w = true /\ dropped _ w = false.
Proof. exact (chain_ends scs ops). Qed.
Print Assumptions C10_chain_ends_under_any_schedule.
Example C10_ends_witness :
  let P := {| fires := []; answer := APend |} in let I v := {| fires := []; answer := AItem v |} in let E := {| fires := []; answer := AEnd |} in
  stot 0 [[P; I 1; E]; [I 5; E]] = 3 /\
  map (fun k => (finished _ (chain_world [[P; I 1; E]; [I 5; E]] (repeat OPollFresh k)), results (strip (tr _ (chain_world [[P; I 1; E]; [I 5; E]] (repeat OPollFresh k)))))) [3; 4] =
    [(false, [OSome None [1]; OSome None [5]]); (true, [OSome None [1]; OSome None [5]; ONone])].
Proof. vm_compute. split; reflexivity. Qed.

(* chain never unwinds by itself (zero inputs included): an `EEndX` in the history implies that an input's poll panicked *)
Theorem C10_chain_unwinds_only_on_child_panic scs ops :
  In EEndX (strip (tr _ (chain_world scs ops))) -> In (EAns APanic) (strip (tr _ (chain_world scs ops))).
Proof. exact (chain_unwinds_only_on_child_panic scs ops). Qed.
Print Assumptions C10_chain_unwinds_only_on_child_panic.

Theorem C10_hypothesis_fails_only_by_drop_or_child_panic scs ops :
  dropped _ (chain_world scs ops) = true -> In ODrop ops \/ In (EAns APanic) (strip (tr _ (chain_world scs ops))).
Proof. exact (chain_dropped_means scs ops). Qed.
Print Assumptions C10_hypothesis_fails_only_by_drop_or_child_panic.
