(* Property C13 - ConcurrentStream::for_each: exactly once, structured, within the limit.
   The model (Model/CoStream.v) is an ACCEPTOR at await-resolution granularity: [step c s e] = Some s' iff the observed event e is allowed in state s
   for the pipeline configuration c (adapters map / enumerate / take n / limit l, terminal for_each / try_for_each / collect); the correspondence
   check feeds it the events derived from every run of the real drivers and requires acceptance ([run c (init c) es 0 = (_, None)]).
   The theorems say what every accepted event list satisfies. *)
From Coq Require Import List Arith Bool.
Import ListNotations.
Require Import CoStream CoFacts CoTake CoOnce CoDrop.

(* within the limit: with limit l >= 1 on for_each / try_for_each, at no point are more than l pushed items incomplete *)
Theorem C13_within_limit c l es s k : limited c l -> 1 <= l -> run c (init c) es k = (s, None) -> cnt (works s) <= l.
Proof. exact (C13_limit c l es s k). Qed.
(* structured: a result is accepted only when nothing is in flight (for_each: unit; try_for_each Ok: no error recorded and nothing in flight;
   try_for_each Err e: e is the recorded error; collect: one entry per pushed item) *)
Theorem C13_result_structured c s r s' : step c s (EResult r) = Some s' ->
  match c_term c, r with
  | TForEach, _ => r = RUnit /\ filter live (works s) = []
  | TTryForEach, ROkUnit => residual s = None /\ filter live (works s) = []
  | TTryForEach, RErrV e => residual s = Some e
  | TTryForEach, _ => False
  | TCollect, RVec items => length items = length (works s)
  | TCollect, _ => False
  | TCollectRes, RVec items => residual s = None /\ length items = length (works s)
  | TCollectRes, RErrV e => residual s = Some e
  | TCollectRes, _ => False
  end.
Proof. exact (C13_structured c s r s'). Qed.
(* at most once: the log of closure invocations (stage, item) of an accepted run has no duplicates *)
Theorem C13_at_most_once c es s k : run c (init c) es k = (s, None) -> NoDup (calls s).
Proof. exact (C13_once c es s k). Qed.
(* at least once: when a result is returned and no error was recorded, every item taken from the source has been passed to the terminal closure
   (and to the map closure if there is one).  With C13_at_most_once: exactly once.  (The acceptor admits the drop of an unprocessed item or of
   in-flight work only once an error is recorded or the operation itself is dropped - Model/CoStream.v, EDropWork / EDropItem.) *)
Theorem C13_at_least_once_each c es s k r s' : run c (init c) es k = (s, None) -> step c s (EResult r) = Some s' -> residual s = None ->
  forall j, j < taken s -> (has_term c = true -> In (1, j) (calls s)) /\ (has_map c = true -> In (0, j) (calls s)).
Proof. exact (C13_at_least_once c es s k r s'). Qed.
(* after the result or after the drop of the operation nothing runs any more: no source item, closure call, completion or second result *)
Theorem C13_nothing_after_end c s e s' : step c s e = Some s' -> (ph s = PDone \/ ph s = PDropped) ->
  match e with EDone _ _ _ | ECall _ _ _ | ESrc _ | EResult _ => False | _ => True end.
Proof. exact (C14_cancel c s e s'). Qed.
Print Assumptions C13_within_limit. Print Assumptions C13_result_structured. Print Assumptions C13_at_most_once. Print Assumptions C13_at_least_once_each. Print Assumptions C13_nothing_after_end.

(* non-vacuity: for_each with limit 1 over two items; the second item waits until the first closure future has completed *)
Example C13_witness :
  let c := {| has_map := false; has_enum := false; enum_first := false; c_take := None; c_lim := Some 1; c_term := TForEach |} in
  snd (run c (init c) [ESrc (Some 0); ECall 1 0 None; ESrc (Some 1); EDone 1 0 None; ECall 1 1 None; ESrc None; EDone 1 1 None; EResult RUnit] 0) = None /\
  snd (run c (init c) [ESrc (Some 0); ECall 1 0 None; ESrc (Some 1); ECall 1 1 None] 0) = Some 3.
Proof. vm_compute. split; reflexivity. Qed.

(* "dropping it earlier drops every in-flight closure future before the drop returns": in an accepted history whose final state is settled (no work
   in flight - the acceptance condition the driver evaluates at the end of every trace of the crate, which always ends with the drop of the
   operation's future), every closure future that was created has completed or has been dropped unfinished within the history. *)
Theorem C13_no_closure_future_outlives_the_operation c es s k : run c (init c) es k = (s, None) -> settled s = true ->
  forall stg j idx, In (ECall stg j idx) es -> (exists e, In (EDone stg j e) es) \/ In (EDropWork stg j) es.
Proof. exact (closure_futures_completed_or_dropped c es s k). Qed.
Print Assumptions C13_no_closure_future_outlives_the_operation.
