(* Property C03 - poll discipline: no poll after completion, no poll outside the owner's poll.
   "Nothing is polled outside a poll" is the shape of the model: constructors, group mutators and the destructor have no access to the children's
   scripts (Model/ScanFull.v step_op: only OPollFresh/OPollSame reach `poll`; Model/InstsFull.v g_mutate and the drop functions emit no EC event), and
   the correspondence compares the position of every child poll relative to the B../E: brackets.  The theorems below are the other half. *)
From Coq Require Import List Arith Bool.
Import ListNotations.
Require Import ScanFull InstsFull Pass ObligJoin ObligMZ ObligGroups C04Join C08Merge C11Groups C05Join C09Zip C03Merge PassProofs.

(* join / try_join: each child contributes exactly one answer to the result; an Err result is the last child poll ever made (Okres) *)
Theorem C03_join_family selective tryj tuple scs ops :
  let n := length scs in let w := join_world selective tryj tuple scs ops in
  dropped _ w = false -> let t := strip (tr _ w) in
  results t = [] \/ exists o, results t = [o] /\ Okres tryj n o (polls_from 0 t).
Proof. exact (C05_join selective tryj tuple scs ops). Qed.
(* merge: the automaton runE accepts the poll list - an input that answered End is never polled again *)
Theorem C03_merge_no_poll_after_end selective scs ops : let w := merge_world selective scs ops in
  dropped _ w = false -> exists dead, runE (polls_from 0 (strip (tr _ w))) = Some dead.
Proof. exact (C03_merge selective scs ops). Qed.
(* zip: once an input has ended, that End is the last child poll ever made (Tz, clause Zf) *)
Theorem C03_zip selective scs ops : let n := length scs in let w := zip_world selective scs ops in
  dropped _ w = false -> Tz n (cs _ w) (strip (tr _ w)).
Proof. exact (C09_zip selective scs ops). Qed.
(* groups: a member is polled only between its insert and its drop event (completion, End, remove) *)
Theorem C03_groups selective stream cap0 ops : let w := group_world selective stream cap0 ops in
  dropped _ w = false -> chk 0 [] (strip (tr _ w)) = true.
Proof. exact (C11_discipline selective stream cap0 ops). Qed.
(* race / race_ok / chain / wait_until: the winning (resp. ending, resolving) poll is the last one of that child; see Pr, Pk, Pc, Pw *)
Theorem C03_race scs ops : let w := race_world scs ops in
  dropped _ w = false -> Pr (cs _ w) (finished _ w) (strip (tr _ w)).
Proof. exact (C06_race scs ops). Qed.
Theorem C03_race_ok kind scs ops : let n := length scs in let w := race_ok_world kind scs ops in
  dropped _ w = false -> Pk n (cs _ w) (finished _ w) (strip (tr _ w)).
Proof. exact (C07_race_ok kind scs ops). Qed.
Theorem C03_chain scs ops : let w := chain_world scs ops in
  dropped _ w = false -> Pc (cs _ w) (finished _ w) (strip (tr _ w)).
Proof. exact (C10_chain scs ops). Qed.
Theorem C03_wait_until stream scs ops : let w := wait_world stream scs ops in
  dropped _ w = false -> Pw (cs _ w) (strip (tr _ w)).
Proof. exact (C19_wait_until stream scs ops). Qed.
Print Assumptions C03_join_family. Print Assumptions C03_merge_no_poll_after_end. Print Assumptions C03_zip. Print Assumptions C03_groups.
Print Assumptions C03_race. Print Assumptions C03_race_ok. Print Assumptions C03_chain. Print Assumptions C03_wait_until.

(* stale wake-ups aimed at a finished input do not get it polled again *)
Example C03_witness :
  let scs := [[{| fires := []; answer := AEnd |}]; [{| fires := []; answer := APend |}]] in
  polls_from 0 (strip (tr _ (merge_world true scs [OPollFresh; OFire 0 0; OPollFresh; OFire 0 0; OPollSame]))) = [(0, AEnd); (1, APend)].
Proof. vm_compute. reflexivity. Qed.
