(* Property C02 - exactly-once ownership under completion, cancellation and panic.
   Every statement is about the COMPLETE observable history of a combinator whose life is closed by a drop: ops ++ [ODrop], where ops is any
   history - it may already contain a drop, a child poll that panics (answer APanic: the poll unwinds and the unwinding drops the combinator),
   a poll after completion (the assert's panic).  Trace functions: [droppedl t] children with a drop event; [produced]/[producedS] values the
   children answered; [returned]/[returnedS] values handed to the caller; [dropv t] values with a drop event; [cnt x l] multiplicity.
     Bal / BalS n t : every child x < n has exactly one drop event and nobody else has one; for every value v, #produced = #returned + #dropped.
     BalR n t       : the same for race (the only value produced is returned; no value is dropped).
     BalG t         : groups - every member ever inserted has exactly one drop event; the values returned are exactly the values produced.
     BalK n t       : race_ok - every child exactly one drop event (the Vec algorithm drops a child when it completes, the others with the combinator);
                      the Ok value produced is the value returned; no value is dropped (errors are plain integers in the harness).
     BalW t         : wait_until - both children (deadline 0, inner 1) exactly one drop event; every value the inner produced is returned and the
                      deadline's output is dropped (a deadline is a future: an Item/End answer of child 0 is outside the harness and not counted). *)
From Coq Require Import List Arith Bool.
Import ListNotations.
Require Import ScanFull InstsFull Pass ObligJoin ObligMZ ObligGroups C04Join C08Merge C11Groups C05Join C02Join C02Merge C02Groups C09Zip C02Zip PassProofs PassLedger PassLedger2.

Theorem C02_join_family selective tryj tuple scs ops : let n := length scs in
  Bal n (strip (tr _ (join_world selective tryj tuple scs (ops ++ [ODrop])))).
Proof. exact (C02_join selective tryj tuple scs ops). Qed.
Theorem C02_merge_ledger selective scs ops : let n := length scs in
  BalS n (strip (tr _ (merge_world selective scs (ops ++ [ODrop])))).
Proof. exact (C02_merge selective scs ops). Qed.
Theorem C02_zip_ledger selective scs ops : let n := length scs in
  BalS n (strip (tr _ (zip_world selective scs (ops ++ [ODrop])))).
Proof. exact (C02_zip selective scs ops). Qed.
Theorem C02_group_ledger selective stream cap0 ops :
  BalG (strip (tr _ (group_world selective stream cap0 (ops ++ [ODrop])))).
Proof. exact (C02_groups selective stream cap0 ops). Qed.
Theorem C02_chain_ledger scs ops : let n := length scs in
  BalS n (strip (tr _ (chain_world scs (ops ++ [ODrop])))).
Proof. exact (C02_chain scs ops). Qed.
Theorem C02_race_ledger scs ops : let n := length scs in
  BalR n (strip (tr _ (race_world scs (ops ++ [ODrop])))).
Proof. exact (C02_race scs ops). Qed.
Theorem C02_race_ok_ledger kind scs ops : let n := length scs in
  BalK n (strip (tr _ (race_ok_world kind scs (ops ++ [ODrop])))).
Proof. exact (C02_race_ok kind scs ops). Qed.
Theorem C02_wait_until_ledger stream scs ops : BalW (strip (tr _ (wait_world stream scs (ops ++ [ODrop])))).
Proof. exact (C02_wait_until stream scs ops). Qed.
Print Assumptions C02_join_family. Print Assumptions C02_merge_ledger. Print Assumptions C02_zip_ledger.
Print Assumptions C02_group_ledger. Print Assumptions C02_chain_ledger. Print Assumptions C02_race_ledger.
Print Assumptions C02_race_ok_ledger. Print Assumptions C02_wait_until_ledger.

(* non-vacuity: a try_join whose second child panics after the first has produced a value: the value and all three children are dropped *)
Example C02_witness :
  let scs := [[{| fires := []; answer := AReady (ROk 7) |}]; [{| fires := []; answer := APanic |}]; []] in
  let t := strip (tr _ (join_world true true false scs ([OPollFresh] ++ [ODrop]))) in
  droppedl t = [0; 1; 2] /\ dropv t = [7] /\ returned t = [].
Proof. vm_compute. repeat split; reflexivity. Qed.
