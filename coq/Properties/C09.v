(* Property C09 - zip: the k-th output is the row of k-th items; ends with the shortest input. *)
From Coq Require Import List Arith Bool.
Import ListNotations.
Require Import ScanFull InstsFull ObligMZ C11Groups C09Zip Monitors C02Join C02Merge C02Zip.

(* [Tz n s t] (Proofs/C09Zip.v): while no input has ended (Zl): no End answer so far, results = rows, every row has n entries, and for
   every input i the items it has answered are column i of the rows followed by at most one buffered item;
   once an input has ended (Zf): that End is the last child poll ever made, None was returned with it and is the last result,
   and every input has delivered its column plus at most one further item, which is in no row. *)
Theorem C09_zip_rows selective scs ops :
  let n := length scs in let w := zip_world selective scs ops in
  dropped _ w = false -> Tz n (cs _ w) (strip (tr _ w)).
Proof. exact (C09_zip selective scs ops). Qed.
Print Assumptions C09_zip_rows.

(* the unmatched buffered items are dropped, never yielded: ownership ledger of zip over the complete history *)
Theorem C09_unmatched_dropped selective scs ops :
  let n := length scs in
  BalS n (strip (tr _ (zip_world selective scs (ops ++ [ODrop])))).
Proof. exact (C02_zip selective scs ops). Qed.
Print Assumptions C09_unmatched_dropped.

Example C09_witness :
  let scs := [[{| fires := []; answer := AItem 1 |}; {| fires := []; answer := AItem 3 |}]; [{| fires := []; answer := AItem 2 |}; {| fires := []; answer := AEnd |}]] in
  let w := zip_world true scs [OPollFresh; OPollFresh] in
  dropped _ w = false /\ results (strip (tr _ w)) = [OSome None [1; 2]; ONone].
Proof. vm_compute. split; reflexivity. Qed.

(* the same statement as a boolean predicate over the observable trace (zip_b, Proofs/Monitors.v; a state-free consequence of the invariant above):
   the function that runner/montool.ml evaluates on every trace of the crate *)
Theorem C09_rows_predicate_holds selective scs ops :
  let w := zip_world selective scs ops in
  dropped _ w = false -> zip_b (length scs) (strip (tr _ w)) = true.
Proof. exact (zip_b_holds selective scs ops). Qed.
Print Assumptions C09_rows_predicate_holds.
