(* Property C09 - zip: the k-th output is the row of k-th items; ends with the shortest input. *)
From Coq Require Import List Arith Bool.
Import ListNotations.
Require Import ScanFull InstsFull ObligMZ C11Groups C08Merge C09Zip Monitors C02Join C02Merge C02Zip Counting LiveZip.

(* [Tz n s t] (Proofs/C09Zip.v): while no input has ended (Zl): no End answer so far, results = rows, every row has n entries, and for
   every input i the items it has answered are column i of the rows followed by at most one buffered item;
   once an input has ended (Zf): that End is the last child poll ever made, None was returned with it and is the last result,
   and every input has delivered its column plus at most one further item, which is in no row. *)
Theorem C09_zip_rows selective scs ops :
  let n := length scs in let w := zip_world selective scs ops in
  dropped _ w = false -> Tz n (cs _ w) (strip (tr _ w)).
Proof. exact (C09_zip selective scs ops). Qed.
Print Assumptions C09_zip_rows.

(* the unmatched buffered items are dropped, never yielded: ownership ledger of zip over the complete history *)
Theorem C09_unmatched_dropped selective scs ops :
  let n := length scs in
  BalS n (strip (tr _ (zip_world selective scs (ops ++ [ODrop])))).
Proof. exact (C02_zip selective scs ops). Qed.
Print Assumptions C09_unmatched_dropped.

Example C09_witness :
  let scs := [[{| fires := []; answer := AItem 1 |}; {| fires := []; answer := AItem 3 |}]; [{| fires := []; answer := AItem 2 |}; {| fires := []; answer := AEnd |}]] in
  let w := zip_world true scs [OPollFresh; OPollFresh] in
  dropped _ w = false /\ results (strip (tr _ w)) = [OSome None [1; 2]; ONone].
Proof. vm_compute. split; reflexivity. Qed.

(* the same statement as a boolean predicate over the observable trace (zip_b, Proofs/Monitors.v; a state-free consequence of the invariant above):
   the function that runner/montool.ml evaluates on every trace of the crate *)
Theorem C09_rows_predicate_holds selective scs ops :
  let w := zip_world selective scs ops in
  dropped _ w = false -> zip_b (length scs) (strip (tr _ w)) = true.
Proof. exact (zip_b_holds selective scs ops). Qed.
Print Assumptions C09_rows_predicate_holds.

(* ---- the zipped stream ends.  After ANY history of a zip of n >= 1 inputs whose scripts never panic and reach their End, while it has not been
        dropped and has not ended: the wake-driven executor of C01 has been handed None within (k + 1) * B rounds, k the number of items input 0 has
        still scripted (plus one if its item for the current row is already buffered), B any bound on the remaining script lengths; the world
        reached is a history of the model, so C09_zip_rows says what was returned before the None: the rows, in order.  (Proofs/LiveZip.v:
        zip_ends - items of input 0 + its buffered item + rows returned is invariant along every history.) *)
Theorem C09_zip_ends_under_wake_driven_executor scs ops B :
  (forall i, i < length scs -> ended (nth i scs []) = true) -> (forall m st, In st (nth m scs []) -> answer st <> APanic) -> 0 < length scs ->
  let rnd := rounds zst z_n z_awaited (fun _ i => i) z_handle false true z_order (fun _ => None) (fun _ => false) z_finish (fun s => s)
               z_drop m_final (@no_mut zst) in
  let w := zip_world true scs ops in
  finished _ w = false -> dropped _ w = false -> (forall j, length (nth j (scripts _ w) []) <= B) -> 1 <= B ->
  exists R, R <= (nitems (nth 0 (scripts _ w) []) + buf0 (cs _ w) + 1) * B /\ let w' := rnd R w in
    dropped _ w' = false /\ In (EEndR ONone) (tr _ w') /\ exists ops', w' = zip_world true scs ops'.
Proof. intros He Hp Hn rnd w Hf Hd HB HB1. exact (zip_ends scs He Hp Hn B HB1 (nitems (nth 0 (scripts _ w) []) + buf0 (cs _ w)) ops Hf Hd (le_n _) HB). Qed.
Print Assumptions C09_zip_ends_under_wake_driven_executor.
Example C09_ends_witness :
  let P := {| fires := []; answer := APend |} in let I v := {| fires := []; answer := AItem v |} in let E := {| fires := []; answer := AEnd |} in
  let scs := [[P; I 1; I 2; E]; [I 5; P; I 6; I 7; E]] in
  let rnd := rounds zst z_n z_awaited (fun _ i => i) z_handle false true z_order (fun _ => None) (fun _ => false) z_finish (fun s => s)
               z_drop m_final (@no_mut zst) in
  let w := zip_world true scs [] in
  nitems (nth 0 (scripts _ w) []) = 2 /\ map (fun k => results (strip (tr _ (rnd k w)))) [2; 4; 5] = [[OSome None [1; 5]]; [OSome None [1; 5]; OSome None [2; 6]]; [OSome None [1; 5]; OSome None [2; 6]; ONone]].
Proof. vm_compute. split; reflexivity. Qed.
