(* Property C06 - race: the first child seen to resolve wins, immediately, and the rest are cancelled. *)
From Coq Require Import List Arith Bool.
Import ListNotations.
Require Import ScanFull InstsFull Pass C11Groups PassProofs Monitors C02Join C02Merge PassLedger PassNoUnwind.

(* [Pr s fin t] (Proofs/PassProofs.v): not finished - every child poll so far answered something other than Ready and nothing has been
   returned; finished - the child polls are P0 ++ [(i, Ready r)] with nobody resolved in P0 and the single result is r's output:
   the winner is the first child seen to resolve, the race resolved in that very poll, and that poll is the last child poll ever made. *)
Theorem C06_race_first_wins scs ops :
  let w := race_world scs ops in
  dropped _ w = false -> Pr (cs _ w) (finished _ w) (strip (tr _ w)).
Proof. exact (C06_race scs ops). Qed.
Print Assumptions C06_race_first_wins.

(* the losers are dropped, unfinished, with the race: every child has exactly one drop event in the complete history, the only value
   produced is the one returned, and no value is dropped *)
Theorem C06_losers_dropped scs ops : let n := length scs in
  BalR n (strip (tr _ (race_world scs (ops ++ [ODrop])))).
Proof. exact (C02_race scs ops). Qed.
Print Assumptions C06_losers_dropped.

Example C06_witness :
  let scs := [[{| fires := []; answer := APend |}]; [{| fires := []; answer := APend |}; {| fires := []; answer := AReady (ROk 5) |}]] in
  let w := race_world scs [OPollFresh; OFire 1 0; OPollFresh] in
  dropped _ w = false /\ finished _ w = true /\ results (strip (tr _ w)) = [OVals [5]].
Proof. vm_compute. repeat split; reflexivity. Qed.

(* the same statement as a boolean predicate over the observable trace (race_b, Proofs/Monitors.v): the function that runner/montool.ml evaluates on
   every trace of the crate *)
Theorem C06_result_predicate_holds scs ops :
  let w := race_world scs ops in
  dropped _ w = false -> race_b (strip (tr _ w)) = true.
Proof. exact (race_b_holds scs ops). Qed.
Print Assumptions C06_result_predicate_holds.

(* the hypothesis `dropped = false` of the theorems above fails only through a drop or a child's panic: a race over one or more futures never
   unwinds by itself (an `EEndX` in the history implies that a child's poll panicked).  A race over zero futures panics, as the crate documents. *)
Theorem C06_race_unwinds_only_on_child_panic scs ops :
  scs <> [] -> In EEndX (strip (tr _ (race_world scs ops))) -> In (EAns APanic) (strip (tr _ (race_world scs ops))).
Proof. exact (race_unwinds_only_on_child_panic scs ops). Qed.
Print Assumptions C06_race_unwinds_only_on_child_panic.

(* ... and `dropped` itself becomes true only through a drop operation or such an unwinding poll *)
Theorem C06_hypothesis_fails_only_by_drop_or_child_panic scs ops :
  scs <> [] -> dropped _ (race_world scs ops) = true -> In ODrop ops \/ In (EAns APanic) (strip (tr _ (race_world scs ops))).
Proof. exact (race_dropped_means scs ops). Qed.
Print Assumptions C06_hypothesis_fails_only_by_drop_or_child_panic.
