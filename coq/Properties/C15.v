(* Property C15 - co-stream adapters: collect = multiset, enumerate = source index, take = exact count.  Statements about every event list
   accepted by the acceptor of Model/CoStream.v, for any adapter configuration (the acceptor's cfg: map, enumerate before/after map, take n, limit l). *)
From Coq Require Import List Arith Bool.
Import ListNotations.
Require Import CoStream CoFacts CoTake CoOnce.

(* enumerate: an index seen by a closure is its item's position in the source; source items are numbered in the order they are taken *)
Theorem C15_enumerate_is_source_index c s stage j i s' : step c s (ECall stage j (Some i)) = Some s' -> has_enum c = true /\ i = j.
Proof. exact (C15_enumerate c s stage j i s'). Qed.
Theorem C15_source_items_numbered c s j s' : step c s (ESrc (Some j)) = Some s' -> j = taken s /\ taken s' = S (taken s).
Proof. exact (C15_source_numbering c s j s'). Qed.
(* collect: the returned vector has one entry per pushed item and contains each of them *)
Theorem C15_collect_all c s items s' : c_term c = TCollect -> step c s (EResult (RVec items)) = Some s' ->
  length items = length (works s) /\ forall j, In j (map fst (works s)) -> In j items.
Proof. exact (C15_collect c s items s'). Qed.
(* every closure (map or terminal) is invoked at most once per item *)
Theorem C15_closures_once c es s k : run c (init c) es k = (s, None) -> NoDup (calls s).
Proof. exact (C13_once c es s k). Qed.
Theorem C15_closures_at_least_once c es s k r s' : run c (init c) es k = (s, None) -> step c s (EResult r) = Some s' -> residual s = None ->
  forall j, j < taken s -> (has_term c = true -> In (1, j) (calls s)) /\ (has_map c = true -> In (0, j) (calls s)).
Proof. exact (C13_at_least_once c es s k r s'). Qed.
(* take(n): never more than n items are taken from the source; a result is returned only once the source ended, n items were taken or an error
   decided the outcome; take(0) accepts no source item at all (behaviour after the fix: commit) *)
Theorem C15_take_at_most c n es s k : c_take c = Some n -> run c (init c) es k = (s, None) -> taken s <= n.
Proof. exact (fun Ht => C15_take_bound c n Ht es s k). Qed.
Theorem C15_take_exactly c n es s k r s' : c_take c = Some n -> run c (init c) es k = (s, None) -> step c s (EResult r) = Some s' ->
  src_done s = true \/ taken s = n \/ residual s <> None.
Proof. exact (fun Ht => C15_take_exact c n Ht es s k r s'). Qed.
Theorem C15_take_zero_takes_nothing c es s k j : c_take c = Some 0 -> run c (init c) es k = (s, None) -> step c s (ESrc (Some j)) = None.
Proof. exact (C15_take_zero c es s k j). Qed.
Print Assumptions C15_enumerate_is_source_index. Print Assumptions C15_source_items_numbered. Print Assumptions C15_collect_all.
Print Assumptions C15_closures_once. Print Assumptions C15_closures_at_least_once. Print Assumptions C15_take_at_most. Print Assumptions C15_take_exactly. Print Assumptions C15_take_zero_takes_nothing.

Example C15_witness :
  let c := {| has_map := true; has_enum := true; enum_first := true; c_take := Some 1; c_lim := None; c_term := TCollect |} in
  snd (run c (init c) [ESrc (Some 0); ECall 0 0 (Some 0); EDone 0 0 None; EResult (RVec [0])] 0) = None /\
  snd (run c (init c) [ESrc (Some 0); ECall 0 0 (Some 1)] 0) = Some 1 /\
  (let c0 := {| has_map := false; has_enum := false; enum_first := false; c_take := Some 0; c_lim := None; c_term := TCollect |} in
   snd (run c0 (init c0) [EResult (RVec [])] 0) = None /\ snd (run c0 (init c0) [ESrc (Some 0)] 0) = Some 0).
Proof. vm_compute. repeat split; reflexivity. Qed.
