(* Property C14 - fallible concurrent streams never swallow an error and cancel on it (try_for_each: TTryForEach; collect into Result<Vec<_>, E>: TCollectRes).  Statements about every event list accepted by the
   acceptor of Model/CoStream.v (see Properties/C13.v for the reading). *)
From Coq Require Import List Arith Bool.
Import ListNotations.
Require Import CoStream CoFacts CoTake CoDrop.

(* once an error has been recorded no further source item is accepted *)
Theorem C14_stops_taking c es s k j : run c (init c) es k = (s, None) -> residual s <> None -> step c s (ESrc (Some j)) = None.
Proof. exact (C14_stop c es s k j). Qed.
(* the error try_for_each / collect::<Result<Vec<_>, E>>() reports was returned by some closure future of the accepted run
   (stage 1 = the terminal closure of try_for_each, stage 0 = the map closure whose Result items are collected) *)
Theorem C14_error_is_genuine c es s k e s' : run c (init c) es k = (s, None) -> step c s (EResult (RErrV e)) = Some s' ->
  (c_term c = TTryForEach \/ c_term c = TCollectRes) -> exists stg j, In (EDone stg j (Some e)) es.
Proof. exact (C14_err_genuine c es s k e s'). Qed.
(* an Ok result: no error has been recorded and nothing is in flight ... *)
Theorem C14_result_structured c s r s' : step c s (EResult r) = Some s' ->
  match c_term c, r with
  | TForEach, _ => r = RUnit /\ filter live (works s) = []
  | TTryForEach, ROkUnit => residual s = None /\ filter live (works s) = []
  | TTryForEach, RErrV e => residual s = Some e
  | TTryForEach, _ => False
  | TCollect, RVec items => length items = length (works s)
  | TCollect, _ => False
  | TCollectRes, RVec items => residual s = None /\ length items = length (works s)
  | TCollectRes, RErrV e => residual s = Some e
  | TCollectRes, _ => False
  end.
Proof. exact (C13_structured c s r s'). Qed.
(* ... and without `take` the source was exhausted *)
Theorem C14_ok_means_exhausted c es s k s' : run c (init c) es k = (s, None) -> c_take c = None -> c_term c = TTryForEach ->
  step c s (EResult ROkUnit) = Some s' -> src_done s = true.
Proof. exact (C14_ok_source c es s k s'). Qed.
Theorem C14_collect_ok_means_exhausted c es s k items s' : run c (init c) es k = (s, None) -> c_take c = None -> c_term c = TCollectRes ->
  step c s (EResult (RVec items)) = Some s' -> src_done s = true /\ residual s = None.
Proof. exact (C14_ok_source_collect c es s k items s'). Qed.
(* cancellation: after the result or the drop nothing completes and no closure runs *)
Theorem C14_cancelled_work_never_completes c s e s' : step c s e = Some s' -> (ph s = PDone \/ ph s = PDropped) ->
  match e with EDone _ _ _ | ECall _ _ _ | ESrc _ | EResult _ => False | _ => True end.
Proof. exact (C14_cancel c s e s'). Qed.
Print Assumptions C14_stops_taking. Print Assumptions C14_result_structured. Print Assumptions C14_error_is_genuine. Print Assumptions C14_ok_means_exhausted. Print Assumptions C14_collect_ok_means_exhausted.
 Print Assumptions C14_cancelled_work_never_completes.

(* "all futures still in flight are dropped unfinished": in a state that holds an error the acceptor takes no completion of a fallible future *)
Theorem C14_in_flight_futures_never_complete_after_an_error c s stg j e s' : step c s (EDone stg j e) = Some s' ->
  (c_term c = TTryForEach -> stg = 1 -> residual s = None) /\ (c_term c = TCollectRes -> stg = 0 -> residual s = None).
Proof. exact (C14_no_completion_after_error c s stg j e s'). Qed.
Print Assumptions C14_in_flight_futures_never_complete_after_an_error.

Example C14_witness :
  let c := {| has_map := false; has_enum := false; enum_first := false; c_take := None; c_lim := None; c_term := TTryForEach |} in
  snd (run c (init c) [ESrc (Some 0); ECall 1 0 None; ESrc (Some 1); ECall 1 1 None; EDone 1 0 (Some 7); EDropWork 1 1; EResult (RErrV 7)] 0) = None /\
  snd (run c (init c) [ESrc (Some 0); ECall 1 0 None; EDone 1 0 (Some 7); ESrc (Some 1)] 0) = Some 3 /\
  snd (run c (init c) [ESrc (Some 0); ECall 1 0 None; EDone 1 0 (Some 7); EResult ROkUnit] 0) = Some 3.
Proof. vm_compute. repeat split; reflexivity. Qed.

(* "all futures still in flight are dropped unfinished no later than the moment the operation's own future is dropped": the same statement read
   for try_for_each / collect into Result - a closure future that has not completed by the end of a settled accepted history was dropped in it. *)
Theorem C14_in_flight_futures_dropped_with_the_operation c es s k : run c (init c) es k = (s, None) -> settled s = true ->
  forall stg j idx, In (ECall stg j idx) es -> (exists e, In (EDone stg j e) es) \/ In (EDropWork stg j) es.
Proof. exact (closure_futures_completed_or_dropped c es s k). Qed.
Print Assumptions C14_in_flight_futures_dropped_with_the_operation.
