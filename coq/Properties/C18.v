(* Property C18 - thread-safety auto traits are preserved (Send/Sync in, Send/Sync out).
   The crate has no `unsafe impl Send/Sync`: every instance is rustc's structural auto-trait derivation over the field types.
   Gen/AutoTraits_gen.v is REGENERATED FROM THE SOURCE on every run (tools/autotraits.py: rustdoc JSON of the current tree -> one `ty` term per
   struct/enum, macro-generated tuple variants included, and the auto-trait impl rustc synthesized for it).  This file is static. *)
From Coq Require Import List String Bool.
Import ListNotations.
Require Import AutoTraits AutoTraits_gen.

(* For EVERY type of the crate and both traits: rustc's synthesized impl is positive, the predicate set the Coq rule table (Model/AutoTraits.v:
   Arc<T> needs T: Send + Sync, Mutex<T>: Sync needs T: Send, MaybeUninit / ManuallyDrop / PhantomData / Vec / Pin / Slab ... transparent, Rc / Cell /
   raw pointers / unknown constructors never) computes from the fields equals rustc's where-clauses, and that set consists of nothing but
   "a child type parameter, or its Output / Item / error, is Send" (resp. Sync): no thread-affine component, no foreign requirement.
   Type parameters are opaque atoms, so this covers every instantiation. *)
Theorem C18_send_sync_preserved : forall e, In e crate_types -> entry_ok e = true.
Proof. apply forallb_forall. vm_compute. reflexivity. Qed.
Print Assumptions C18_send_sync_preserved.

(* ... and no type is left out: every struct / enum of the crate has both entries (a hand-written `unsafe impl Send` or `impl !Sync` replaces the
   synthesized impl in rustdoc's output; the translator reads it all the same, and it must then agree with the structural derivation) *)
Theorem C18_every_type_decided : complete_b n_types crate_types = true.
Proof. vm_compute. reflexivity. Qed.
Print Assumptions C18_every_type_decided.

(* the table is not empty and contains the public combinator types (non-vacuity) *)
Example C18_table_covers_combinators :
  forallb (fun n => existsb (fun e => String.eqb (e_name e) n) crate_types)
    ["Join"; "TryJoin"; "Race"; "RaceOk"; "Merge"; "Zip"; "Chain"; "FutureGroup"; "StreamGroup"; "Keyed"; "WaitUntil";
     "Join2"; "Join12"; "TryJoin2"; "Race3"; "RaceOk2"; "Merge3"; "Zip7"; "Chain2"]%string = true.
Proof. vm_compute. reflexivity. Qed.
(* the rule table does reject a thread-affine field *)
Example C18_rule_table_rejects_rc :
  only_children true (needs true (TAgg [TPar "F"; TExt "PhantomData" [TExt "alloc::rc::Rc" [TPrim]]]))%string = false.
Proof. vm_compute. reflexivity. Qed.
