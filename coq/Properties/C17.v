(* Property C17 - merge fairness: an input that always has an item is served within N yields. *)
From Coq Require Import List Arith Bool.
Import ListNotations.
Require Import ScanFull InstsFull ObligMZ C08Merge C17Merge.

(* f < n is an input whose script consists of items only and is not exhausted before any operation of the history.  Then among any
   n consecutive results there is one with provenance f.  Both strategies, any behaviour of the other inputs, any history. *)
Theorem C17_merge_window f selective scs ops : let n := length scs in f < n ->
  Forall (fun st => itemp (answer st)) (nth f scs []) ->
  (forall ops1 ops2, ops = ops1 ++ ops2 -> ops2 <> [] -> nth f (scripts _ (merge_world selective scs ops1)) [] <> []) ->
  let rs := results (tr _ (merge_world selective scs ops)) in
  forall start, start + n <= length rs -> exists k, start <= k < start + n /\ prov (nth k rs ONone) = Some f.
Proof. exact (C17_window f selective scs ops). Qed.
Print Assumptions C17_merge_window.

Example C17_witness :
  let it v := {| fires := []; answer := AItem v |} in
  let scs := [[it 1; it 2; it 3; it 4]; [it 10; it 11; it 12; it 13]] in
  map prov (results (tr _ (merge_world true scs [OPollFresh; OPollFresh; OPollFresh]))) = [Some 0; Some 1; Some 0].
Proof. vm_compute. reflexivity. Qed.
