(* Property C08 - merge: every item exactly once, per-input order kept, ends iff all inputs ended. *)
From Coq Require Import List Arith Bool.
Import ListNotations.
Require Import ScanFull InstsFull ObligMZ C08Merge C11Groups C03Merge C08Eager Monitors Counting LiveMerge.

(* For every number of inputs, scripts, history and both strategies there is a split of each input's script into a consumed
   prefix [pre i] and the rest such that (i) the yields with provenance i are exactly the items of [pre i], in order;
   (ii) every result is None or a single item of some input; (iii) None returned => every input ended, and conversely for n >= 1.
   Zero inputs: the first poll returns None (pre-loop exit, the repaired behaviour of array and Vec). *)
Theorem C08_merge_exactly_once selective scs ops :
  let n := length scs in let w := merge_world selective scs ops in let rs := results (tr _ w) in
  exists pre, length pre = n /\
    (forall i, i < n -> nth i scs [] = nth i pre [] ++ nth i (scripts _ w) []) /\
    (forall i, i < n -> proj i rs = items_of (nth i pre [])) /\
    Forall (okout scs) rs /\
    (In ONone rs -> all_ended pre n) /\ (all_ended pre n -> 0 < n -> In ONone rs).
Proof. exact (C08_merge selective scs ops). Qed.
Print Assumptions C08_merge_exactly_once.


(* "it yields in any poll in which one of the inputs it polls has an item, without waiting for the other inputs": on the observable trace
   (wake-up traffic stripped) an Item answer is followed - before any other child poll and before any other return - by the return of exactly that
   item.  eager_b (Proofs/C08Eager.v) is the boolean automaton for this; it accepts the trace of every history, both strategies. *)
Theorem C08_yields_at_once selective scs ops : let w := merge_world selective scs ops in
  dropped _ w = false -> eager_b (strip (tr _ w)) = true.
Proof. exact (C08_eager selective scs ops). Qed.
Print Assumptions C08_yields_at_once.
(* an ended input is never polled again (C03) - part of "ends iff all inputs ended" being observable *)
Theorem C08_no_poll_after_end selective scs ops : let w := merge_world selective scs ops in
  dropped _ w = false -> exists dead, runE (polls_from 0 (strip (tr _ w))) = Some dead.
Proof. exact (C03_merge selective scs ops). Qed.
Print Assumptions C08_no_poll_after_end.
Example C08_eager_rejects : eager_b [EC 0 (WPar 0); EAns (AItem 5); EC 1 (WPar 0); EAns APend; EEndR (OSome (Some 0) [5])] = false.
Proof. vm_compute. reflexivity. Qed.

Example C08_empty_ends_at_once : results (tr _ (merge_world true [] [OPollFresh])) = [ONone].
Proof. vm_compute. reflexivity. Qed.

Example C08_witness :
  let scs := [[{| fires := []; answer := AItem 1 |}; {| fires := []; answer := AEnd |}]; [{| fires := []; answer := AItem 2 |}; {| fires := []; answer := AEnd |}]] in
  results (tr _ (merge_world true scs [OPollFresh; OPollFresh; OPollFresh; OPollFresh; OPollFresh])) = [OSome (Some 0) [1]; OSome (Some 1) [2]; ONone].
Proof. vm_compute. reflexivity. Qed.

(* exactly once, on the observable trace alone: the values merge yielded are, in order, the item values its inputs answered (every item answered
   is yielded, nothing else is, and each input's own order is kept); a corollary of C08_yields_at_once (eager_exact, Proofs/Monitors.v), whose
   automaton is evaluated on every trace of the crate *)
Theorem C08_yields_are_the_items_answered selective scs ops : let w := merge_world selective scs ops in
  dropped _ w = false -> yvals (strip (tr _ w)) = avals (strip (tr _ w)).
Proof. exact (merge_yields_are_items selective scs ops). Qed.
Print Assumptions C08_yields_are_the_items_answered.

(* ---- "yields every item produced by every input" and "returns None when all inputs have returned None": both do happen.  After ANY history of a
        merge of n >= 1 inputs whose scripts never panic and reach their End, while it has not been dropped and has not ended: the wake-driven
        executor of C01 (a round = invoke every input's most recent waker, poll with the same task) has been handed None within (k + 1) * B rounds,
        k the number of items still scripted, B any bound on the remaining script lengths; the world reached is a history of the model, so
        C08_merge_exactly_once holds of it: with None returned every input has ended, and every item of every input has been yielded, exactly once
        and in its input's order.  (Proofs/LiveMerge.v: merge_ends - items still scripted + outputs returned is invariant along every history,
        C01's next-result theorem returns an item or None within B rounds.) *)
Theorem C08_every_item_comes_out_under_wake_driven_executor scs ops B :
  (forall i, i < length scs -> ended (nth i scs []) = true) -> (forall m st, In st (nth m scs []) -> answer st <> APanic) -> 0 < length scs ->
  let rnd := rounds mst m_n m_awaited (fun _ i => i) m_handle true true m_order m_pre_exit (fun _ => false) m_finish (fun s => s)
               (fun s => drop_all_children (m_n s)) m_final (@no_mut mst) in
  let w := merge_world true scs ops in
  finished _ w = false -> dropped _ w = false -> (forall j, length (nth j (scripts _ w) []) <= B) -> 1 <= B ->
  exists R, R <= (items_total (scripts _ w) + 1) * B /\ let w' := rnd R w in
    dropped _ w' = false /\ In (EEndR ONone) (tr _ w') /\ exists ops', w' = merge_world true scs ops'.
Proof. intros He Hp Hn rnd w Hf Hd HB HB1. exact (merge_ends scs He Hp Hn B HB1 (items_total (scripts _ w)) ops Hf Hd (le_n _) HB). Qed.
Print Assumptions C08_every_item_comes_out_under_wake_driven_executor.
Example C08_ends_witness :
  let P := {| fires := []; answer := APend |} in let I v := {| fires := []; answer := AItem v |} in let E := {| fires := []; answer := AEnd |} in
  let scs := [[P; I 1; E]; [I 5; P; I 6; E]] in
  let rnd := rounds mst m_n m_awaited (fun _ i => i) m_handle true true m_order m_pre_exit (fun _ => false) m_finish (fun s => s)
               (fun s => drop_all_children (m_n s)) m_final (@no_mut mst) in
  let w := merge_world true scs [] in
  items_total (scripts _ w) = 3 /\ map (fun k => results (strip (tr _ (rnd k w)))) [3; 4] = [[OSome (Some 1) [5]; OSome (Some 0) [1]; OSome (Some 1) [6]]; [OSome (Some 1) [5]; OSome (Some 0) [1]; OSome (Some 1) [6]; ONone]].
Proof. vm_compute. split; reflexivity. Qed.
