(* Property C04 - join: waits for all children and returns each output at its own position.
   Nothing but statements over the executable model (Model/InstsFull.v: join_world is the world after a history,
   run_join = close_trace of it is what the runner executes against the crate), closed by `exact`, with their assumptions. *)
From Coq Require Import List Arith Bool.
Import ListNotations.
Require Import ScanFull InstsFull Monitors ObligJoin C04Join C11Groups C05Join C04When.

(* For every number of children, every child behaviour (scripts of arbitrary answers and wake-ups), every history of
   polls / wake-ups / drop, both waker strategies, slice (array, Vec) and tuple variants: as long as the join has not been
   dropped, it has returned nothing yet, or exactly one result [vs] with no failure, |vs| = n, and for every i < n the values
   child i ever answered are exactly [vs[i]]: each child's own output at its own position, each child completed exactly once. *)
Theorem C04_join_positional selective tuple scs ops :
  let n := length scs in let w := join_world selective false tuple scs ops in
  dropped _ w = false ->
  let t := strip (tr _ w) in
  results t = [] \/ exists o, results t = [o] /\ Okres false n o (polls_from 0 t).
Proof. exact (C05_join selective false tuple scs ops). Qed.
Print Assumptions C04_join_positional.


(* "resolves only when every child has resolved - in the very poll in which the last of them resolves": between operations, once at least one
   poll has been made, a join without a result still has a child that has not answered its value.  This holds after EVERY poll, so the poll in
   which the last child answers cannot end without the result.  (tuple = true -> 0 < n: the arity-0 tuple is not an instance of the macro; the
   hand-written impl for () is the slice algorithm at n = 0.) *)
Theorem C04_resolves_with_last_child selective tuple scs ops :
  let n := length scs in let w := join_world selective false tuple scs ops in
  dropped _ w = false -> (tuple = true -> 0 < n) ->
  let t := strip (tr _ w) in
  t <> [] -> results t = [] -> errs (polls_from 0 t) = [] /\ exists i, i < n /\ okl i (polls_from 0 t) = [].
Proof. exact (C04_when selective false tuple scs ops). Qed.
Print Assumptions C04_resolves_with_last_child.

(* joining zero futures resolves on the first poll to the empty container *)
Example C04_empty : results (strip (tr _ (join_world true false false [] [OPollFresh]))) = [OVals []].
Proof. vm_compute. reflexivity. Qed.

(* The same fact read off the scripts: every result that appears in the trace is the positional vector of the values the
   children's scripts resolve to (earlier, script-based formulation; selective strategy). *)
Theorem C04_join_scripts tuple scs ops :
  (forall i, fut_script (nth i scs [])) ->
  forall o, In (EEndR o) (tr _ (join_world true false tuple scs ops)) -> Good (length scs) scs o.
Proof. exact (C04_join tuple scs ops). Qed.
Print Assumptions C04_join_scripts.

(* non-vacuity: a concrete history in which two children complete in reverse order, with a wake-up in between,
   reaches a result and that result is positional *)
Example C04_witness :
  let scs := [[{| fires := []; answer := APend |}; {| fires := []; answer := AReady (ROk 7) |}]; [{| fires := [HSelf]; answer := AReady (ROk 9) |}]] in
  let w := join_world true false false scs [OPollFresh; OFire 0 0; OPollFresh] in
  dropped _ w = false /\ results (strip (tr _ w)) = [OVals [7; 9]].
Proof. vm_compute. split; reflexivity. Qed.

(* the same statement as a boolean predicate over the observable trace (c05_b_spec: it is equivalent to the disjunction above); this is the function
   that runner/montool.ml evaluates on every trace of the crate *)
Theorem C04_result_predicate_holds selective tryj tuple scs ops : let w := join_world selective tryj tuple scs ops in
  dropped _ w = false -> c05_b tryj (length scs) (strip (tr _ w)) = true.
Proof. exact (c05_b_holds selective tryj tuple scs ops). Qed.
Print Assumptions C04_result_predicate_holds.
