(* Extraction of the concurrent-stream acceptor.  ExtrOcamlBasic only. *)
Require Import CoStream.
Require Extraction.
Require Import ExtrOcamlBasic.
Extraction "../runner/costream.ml" CoStream.run CoStream.init CoStream.settled.
