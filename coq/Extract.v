(* Extraction of the executable models.  ExtrOcamlBasic only; no Extract Constant / Extract Inductive of our own. *)
Require Import ScanFull InstsFull Pass Nest.
Require Extraction.
Require Import ExtrOcamlBasic.
Extraction "../runner/model.ml" run_join run_merge run_zip run_group run_race run_race_ok run_chain run_wait join_world merge_world zip_world group_world race_world chain_world tr nest_run.
