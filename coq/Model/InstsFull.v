From Coq Require Import List Arith Bool.
Import ListNotations.
Require Import ScanFull.

Definition is_pending p := match p with PPending => true | _ => false end.
Definition is_ready p := match p with PReady => true | _ => false end.
Definition is_none p := match p with PNone => true | _ => false end.
Definition all_vals (its: list (option nat)) : list nat := flat_map (fun o => match o with Some v => [v] | None => [] end) its.
Fixpoint drop_vals (ps: list pstate) (its: list (option nat)) : list ev :=
  match ps, its with
  | PReady :: ps', Some v :: its' => EV v :: drop_vals ps' its'
  | _ :: ps', _ :: its' => drop_vals ps' its'
  | _, _ => []
  end.
Fixpoint drop_futs (ps: list pstate) (i: nat) : list ev :=
  match ps with [] => [] | PPending :: ps' => EDc i :: drop_futs ps' (S i) | _ :: ps' => drop_futs ps' (S i) end.
Definition drop_all_children (n: nat) : list ev := map EDc (seq 0 n).
Definition no_mut {St} (w: world St) (_ _: nat) (_: list step) : world St := w.
Definition mk_world {St} (s: St) (selective: bool) (n: nat) (scs: list (list step)) : world St :=
  {| cs := s; sel := selective; bits := repeat true n; parent := None; scripts := scs; handed := repeat [] (length scs);
     nparents := 0; finished := false; dropped := false; gone := false;
     g_out := false; g_fired := repeat false n; g_polled := repeat false n; g_lastpend := repeat false n;
     g_bad16 := false; g_retpend := false; g_quiet := true; tr := [] |}.
(* ---------------- join / try_join (slice and tuple) ---------------- *)
Record jst := { j_try : bool; j_tup : bool; j_consumed : bool; pending : nat; items : list (option nat); pst : list pstate }.
Definition j_reset s := {| j_try := j_try s; j_tup := j_tup s; j_consumed := true; pending := 0; items := map (fun _ => None) (items s); pst := map (fun _ => PNone) (pst s) |}.
Definition j_out s := if j_try s then OOk (all_vals (items s)) else OVals (all_vals (items s)).
Definition j_handle (s: jst) (i: nat) (a: ans) : jst * act * list ev :=
  match a with
  | AReady (ROk v) =>
      let s' := {| j_try := j_try s; j_tup := j_tup s; j_consumed := j_consumed s; pending := pending s - 1; items := upd (items s) i (Some v); pst := upd (pst s) i PReady |} in
      if j_tup s && (pending s' =? 0) then (j_reset s', Stop RNone (j_out s'), [EDc i]) else (s', Cont, [EDc i])
  | AReady (RErr e) =>
      ({| j_try := j_try s; j_tup := j_tup s; j_consumed := true; pending := pending s - 1; items := items s; pst := upd (pst s) i PNone |}, Stop RNone (OErr e), [EDc i])
  | APanic => (s, Abort, [])
  | _ => (s, Cont, [])
  end.
Definition j_awaited (s: jst) (i: nat) := is_pending (nth i (pst s) PNone).
Definition j_slots (s: jst) := length (pst s).
Definition j_order (s: jst) : option (list nat * jst) := if j_consumed s then None (* assert!(!consumed): the code panics *) else Some (seq 0 (j_slots s), s).
Definition j_pre_any (s: jst) := negb (j_tup s) && negb (pending s =? 0).
Definition j_finish (s: jst) : jst * option out :=
  if negb (j_consumed s) && negb (j_tup s) && (pending s =? 0) then (j_reset s, Some (j_out s)) else (s, None).
Definition j_drop (s: jst) := drop_vals (pst s) (items s) ++ drop_futs (pst s) 0.
Definition join_init (tryj tuple: bool) (n: nat) : jst :=
  {| j_try := tryj; j_tup := tuple; j_consumed := false; pending := n; items := repeat None n; pst := repeat PPending n |}.
(* the state of the world after a history; every theorem about join / try_join is a statement about this term *)
Definition join_world (selective tryj tuple: bool) (scs: list (list step)) (ops: list op) : world jst :=
  run_ops jst j_slots j_awaited (fun _ i => i) j_handle tuple tuple
    j_order (fun _ => None) j_pre_any
    j_finish (fun s => s) j_drop (fun _ => true) no_mut (mk_world (join_init tryj tuple (length scs)) selective (length scs) scs) ops.
Definition run_join (selective tryj tuple: bool) (scs: list (list step)) (ops: list (op)) : list ev :=
  close_trace jst j_drop (join_world selective tryj tuple scs ops).

(* ---------------- merge ---------------- *)
Record mst := { m_pst : list pstate; m_complete : nat; m_offset : nat }.
Definition m_n s := length (m_pst s).
Definition m_handle (s: mst) (i: nat) (a: ans) : mst * act * list ev :=
  match a with
  | AItem v => (s, Stop RSelf (OSome (Some i) [v]), [])   (* the key is ghost provenance; the runner prints merge yields without it *)
  | AEnd => let s' := {| m_pst := upd (m_pst s) i PNone; m_complete := m_complete s + 1; m_offset := m_offset s |} in
            if m_complete s' =? m_n s then (s', Stop RNone ONone, []) else (s', Cont, [])
  | APanic => (s, Abort, [])
  | _ => (s, Cont, [])
  end.
Definition m_order (s: mst) : option (list nat * mst) :=
  let n := m_n s in
  if n =? 0 then None else
  Some (map (fun k => (k + m_offset s) mod n) (seq 0 n),
        {| m_pst := m_pst s; m_complete := m_complete s; m_offset := (m_offset s + 1) mod n |}).
Definition m_awaited (s: mst) (i: nat) := negb (is_none (nth i (m_pst s) PNone)).
Definition m_finish (s: mst) : mst * option out := (s, None).
Definition m_final (o: out) := match o with ONone => true | _ => false end.
(* merging zero streams ends at once (the `fix:` commit for array and Vec; the tuple impl for () always did) *)
Definition m_pre_exit (s: mst) : option out := if m_n s =? 0 then Some ONone else None.
Definition merge_init (n: nat) : mst := {| m_pst := repeat PPending n; m_complete := 0; m_offset := 0 |}.
Definition m_drop (s: mst) := drop_all_children (m_n s).
Definition merge_world (selective: bool) (scs: list (list step)) (ops: list op) : world mst :=
  run_ops mst m_n m_awaited (fun _ i => i) m_handle true true
    m_order m_pre_exit (fun _ => false) m_finish (fun s => s) m_drop
    m_final no_mut (mk_world (merge_init (length scs)) selective (length scs) scs) ops.
Definition run_merge (selective: bool) (scs: list (list step)) (ops: list op) : list ev :=
  close_trace mst m_drop (merge_world selective scs ops).

(* ---------------- zip ---------------- *)
Record zst := { z_pst : list pstate; z_out : list (option nat); z_done : bool }.   (* done: some input ended; a later poll hits the assert *)
Definition z_n s := length (z_pst s).
Definition z_handle (s: zst) (i: nat) (a: ans) : zst * act * list ev :=
  match a with
  | AItem v => let st' := upd (z_pst s) i PReady in let out' := upd (z_out s) i (Some v) in
               if forallb is_ready st'
               then ({| z_pst := map (fun _ => PPending) st'; z_out := map (fun _ => None) out'; z_done := z_done s |}, Stop RAll (OSome None (all_vals out')), [])
               else ({| z_pst := st'; z_out := out'; z_done := z_done s |}, Cont, [])
  | AEnd => ({| z_pst := z_pst s; z_out := z_out s; z_done := true |}, Stop RNone ONone, [])
  | APanic => (s, Abort, [])
  | _ => (s, Cont, [])
  end.
Definition z_awaited (s: zst) (i: nat) := negb (is_ready (nth i (z_pst s) PReady)).
Definition z_order (s: zst) : option (list nat * zst) := if z_done s then None (* assert!(!done) *) else Some (seq 0 (z_n s), s).
Definition z_finish (s: zst) : zst * option out := (s, None).
Definition z_drop (s: zst) := drop_vals (z_pst s) (z_out s) ++ drop_all_children (z_n s).
Definition zip_init (n: nat) : zst := {| z_pst := repeat PPending n; z_out := repeat None n; z_done := false |}.
Definition zip_world (selective: bool) (scs: list (list step)) (ops: list op) : world zst :=
  run_ops zst z_n z_awaited (fun _ i => i) z_handle false true
    z_order (fun _ => None) (fun _ => false) z_finish (fun s => s)
    z_drop
    m_final no_mut (mk_world (zip_init (length scs)) selective (length scs) scs) ops.
Definition run_zip (selective: bool) (scs: list (list step)) (ops: list op) : list ev :=
  close_trace zst z_drop (zip_world selective scs ops).

(* FutureGroup / StreamGroup as instances of the generic executable scan *)
Inductive entry := Occ (m: nat) | Vac (next: nat).
Record gst := {
  g_stream : bool;
  g_ent : list entry; g_next : nat; g_len : nat;       (* slab 0.4: entries, next free key, number of occupied entries *)
  g_keys : list nat;                                    (* BTreeSet<usize>, ascending *)
  g_states : list pstate; g_cap : nat;
  g_last : option nat; g_queue : list nat; g_done : nat; g_count : nat;
  g_nmem : nat; g_ret : list nat;                       (* members inserted so far; keys returned by insert, in order *)
}.
Definition gset (s: gst) ent nx ln keys states cap last queue done count nmem ret :=
  {| g_stream := g_stream s; g_ent := ent; g_next := nx; g_len := ln; g_keys := keys; g_states := states; g_cap := cap;
     g_last := last; g_queue := queue; g_done := done; g_count := count; g_nmem := nmem; g_ret := ret |}.
Fixpoint ins_sorted (k: nat) (l: list nat) : list nat :=
  match l with [] => [k] | x :: r => if k <? x then k :: l else if k =? x then l else x :: ins_sorted k r end.
Definition rm_key (k: nat) (l: list nat) := filter (fun x => negb (x =? k)) l.
Definition slab_remove (s: gst) (k: nat) : gst :=
  gset s (upd (g_ent s) k (Vac (g_next s))) k (g_len s - 1) (g_keys s) (g_states s) (g_cap s) (g_last s) (g_queue s) (g_done s) (g_count s) (g_nmem s) (g_ret s).
Definition g_member (s: gst) (k: nat) := match nth k (g_ent s) (Vac 0) with Occ m => m | _ => 0 end.
Definition g_awaited (s: gst) (k: nat) := is_pending (nth k (g_states s) PNone).

Definition g_handle (s: gst) (k: nat) (a: ans) : gst * act * list ev :=
  let m := g_member s k in
  match a with
  | AReady (ROk v) | AReady (RErr v) =>
      let s1 := slab_remove s k in
      (gset s1 (g_ent s1) (g_next s1) (g_len s1) (g_keys s1) (upd (g_states s1) k PNone) (g_cap s1) (Some k) (g_queue s1) (g_done s1) (g_count s1) (g_nmem s1) (g_ret s1),
       Stop RNone (OSome (Some k) [v]), [EDc m])
  | AItem v => (s, Stop RSelf (OSome (Some k) [v]), [])
  | AEnd =>
      let s1 := slab_remove s k in
      (gset s1 (g_ent s1) (g_next s1) (g_len s1) (g_keys s1) (upd (g_states s1) k PNone) (g_cap s1) (g_last s1) (g_queue s1 ++ [k]) (g_done s1 + 1) (g_count s1) (g_nmem s1) (g_ret s1),
       Cont, [EDc m])
  | APanic => (s, Abort, [])
  | APend => (s, Cont, [])
  end.
Definition g_order (s: gst) : option (list nat * gst) :=
  Some (g_keys s, gset s (g_ent s) (g_next s) (g_len s) (g_keys s) (g_states s) (g_cap s) None [] 0 (g_len s) (g_nmem s) (g_ret s)).
(* bookkeeping after the loop, whether it ran to the end or broke out *)
Definition g_cleanup (s: gst) : gst :=
  let keys1 := match g_last s with Some k => rm_key k (g_keys s) | None => g_keys s end in
  let keys2 := fold_left (fun l k => rm_key k l) (g_queue s) keys1 in
  gset s (g_ent s) (g_next s) (g_len s) keys2 (g_states s) (g_cap s) None [] (g_done s) (g_count s) (g_nmem s) (g_ret s).
Definition g_finish (s: gst) : gst * option out :=
  let s' := g_cleanup s in
  if g_stream s && (g_done s =? g_count s) then (s', Some ONone) else (s', None).
Definition g_drop (s: gst) : list ev := flat_map (fun e => match e with Occ m => [EDc m] | _ => [] end) (g_ent s).

Definition g_clean (s: gst) := match g_last s, g_queue s with None, [] => true | _, _ => false end.
Definition g_slots (s: gst) := length (g_states s).
Definition g_pre_exit (s: gst) := if g_len s =? 0 then Some ONone else None.
Definition g_reserve (w: world gst) (a: nat) : world gst :=
  let s := cs _ w in
  if g_len s + a <? g_cap s then w else
  let s' := gset s (g_ent s) (g_next s) (g_len s) (g_keys s) (g_states s ++ repeat PNone a) (g_cap s + a) (g_last s) (g_queue s) (g_done s) (g_count s) (g_nmem s) (g_ret s) in
  w_grow _ w s' a.

Definition g_mutate (w: world gst) (code arg: nat) (sc: list step) : world gst :=
  match code with
  | 0 => (* insert *)
      let w1 := if g_cap (cs _ w) <=? g_len (cs _ w) then g_reserve w (g_cap (cs _ w) * 2 + 1) else w in
      let s := cs _ w1 in
      let k := g_next s in
      let m := g_nmem s in
      let '(ent', nx') := if k =? length (g_ent s) then (g_ent s ++ [Occ m], k + 1)
                          else (upd (g_ent s) k (Occ m), match nth k (g_ent s) (Vac 0) with Vac nx => nx | _ => 0 end) in
      let s' := gset s ent' nx' (g_len s + 1) (ins_sorted k (g_keys s)) (upd (g_states s) k PPending) (g_cap s) (g_last s) (g_queue s) (g_done s) (g_count s) (m + 1) (g_ret s ++ [k]) in
      (* the real code indexes `states[index]`: out of range would panic; likewise inserting while post-loop bookkeeping is
         outstanding cannot happen through the API.  Both are made explicit so that nothing is silently totalised. *)
      if (k <? length (g_states s)) && g_clean s then emit _ (w_occupy _ w1 s' k sc) [EK k]
      else set_flags _ (set_ret _ (emit _ w1 [EEndX]) false) true true true
  | 1 => (* remove the key returned by the arg-th insert *)
      let s := cs _ w in
      match nth_error (g_ret s) arg with
      | None => w
      | Some k =>
          if existsb (fun x => x =? k) (g_keys s) then
            let m := g_member s k in
            let s1 := slab_remove s k in
            let s2 := gset s1 (g_ent s1) (g_next s1) (g_len s1) (rm_key k (g_keys s1)) (upd (g_states s1) k PNone) (g_cap s1) (g_last s1) (g_queue s1) (g_done s1) (g_count s1) (g_nmem s1) (g_ret s1) in
            emit _ (w_vacate _ w s2 k) [EDc m; EBool true]
          else emit _ w [EBool false]
      end
  | 2 => g_reserve w arg
  | 3 => emit _ w [EN (g_len (cs _ w))]
  | 4 => match nth_error (g_ret (cs _ w)) arg with
         | None => w
         | Some k => emit _ w [EBool (existsb (fun x => x =? k) (g_keys (cs _ w)))]
         end
  | 5 => emit _ w [EN (g_cap (cs _ w))]
  | _ => emit _ w [EBool (g_len (cs _ w) =? 0)]
  end.

Definition group_init (stream: bool) (cap0: nat) : gst :=
  {| g_stream := stream; g_ent := []; g_next := 0; g_len := 0; g_keys := []; g_states := repeat PNone cap0; g_cap := cap0;
     g_last := None; g_queue := []; g_done := 0; g_count := 0; g_nmem := 0; g_ret := [] |}.
Definition group_world (selective stream: bool) (cap0: nat) (ops: list op) : world gst :=
  run_ops gst g_slots g_awaited g_member g_handle false false g_order
    g_pre_exit (fun _ => true)
    g_finish g_cleanup g_drop (fun _ => false) g_mutate
    (mk_world (group_init stream cap0) selective cap0 []) ops.
Definition run_group (selective stream: bool) (cap0: nat) (ops: list op) : list ev :=
  close_trace gst g_drop (group_world selective stream cap0 ops).
