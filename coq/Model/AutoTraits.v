From Coq Require Import List String Bool.
Import ListNotations.
Open Scope string_scope.
Open Scope list_scope.

(* Structural auto-trait derivation (Send / Sync) over field types; atoms (type parameters and their associated types) are opaque. *)
Inductive ty :=
| TPar (p: string)                         (* a type parameter *)
| TAssoc (p tr it: string)                 (* <P as Tr>::It *)
| TPrim                                    (* integers, bool, unit, ... *)
| TExt (c: string) (args: list ty)         (* a type constructor from std or a dependency *)
| TAgg (fields: list ty)                   (* a struct / enum / tuple / array of the crate, expanded to its fields *)
| TShRef (t: ty)                           (* &T *)
| TBad (why: string).                      (* raw pointers, trait objects, unknown constructors *)

Inductive atom := APar (p: string) | AAssoc (p tr it: string) | ANever (why: string).
Definition pred := (atom * bool)%type.     (* (a, true) = "a: Send", (a, false) = "a: Sync" *)

Inductive rule := Transparent | ArcLike | MutexLike | Leaf | Never.
Definition rule_of (c: string) : option rule :=
  if existsb (String.eqb c) ["alloc::sync::Arc"] then Some ArcLike
  else if existsb (String.eqb c) ["std::sync::Mutex"] then Some MutexLike
  else if existsb (String.eqb c) ["core::task::Waker"; "core::sync::atomic::AtomicUsize"; "fixedbitset::FixedBitSet"; "core::num::NonZeroUsize"] then Some Leaf
  else if existsb (String.eqb c) ["alloc::rc::Rc"; "std::rc::Rc"; "core::cell::RefCell"; "core::cell::Cell"; "std::cell::RefCell"; "std::cell::Cell"] then Some Never
  else if existsb (String.eqb c) ["Vec"; "alloc::vec::Vec"; "Option"; "Result"; "Box"; "core::pin::Pin"; "core::mem::MaybeUninit"; "MaybeUninit";
                                  "core::mem::ManuallyDrop"; "PhantomData"; "core::marker::PhantomData"; "smallvec::SmallVec"; "slab::Slab";
                                  "alloc::collections::BTreeSet"; "alloc::collections::VecDeque"; "alloc::vec::IntoIter"; "ops::Range";
                                  "futures_buffered::FuturesUnordered"] then Some Transparent
  else None.

Fixpoint needs (send: bool) (t: ty) {struct t} : list pred :=
  let all := fix all (l: list ty) : list pred := match l with [] => [] | x :: r => needs send x ++ all r end in
  let both := fix both (l: list ty) : list pred := match l with [] => [] | x :: r => needs true x ++ needs false x ++ both r end in
  let sends := fix sends (l: list ty) : list pred := match l with [] => [] | x :: r => needs true x ++ sends r end in
  match t with
  | TPar p => [(APar p, send)]
  | TAssoc p tr it => [(AAssoc p tr it, send)]
  | TPrim => []
  | TAgg fs => all fs
  | TShRef u => needs false u                  (* &T: Send <= T: Sync; &T: Sync <= T: Sync *)
  | TBad why => [(ANever why, send)]
  | TExt c args =>
      match rule_of c with
      | Some Transparent => all args
      | Some ArcLike => both args              (* Arc<T>: Send/Sync <= T: Send + Sync *)
      | Some MutexLike => sends args           (* Mutex<T>: Send <= T: Send; Sync <= T: Send *)
      | Some Leaf => []
      | Some Never => [(ANever c, send)]
      | None => [(ANever (String.append "unknown constructor " c), send)]
      end
  end.

Definition atom_eqb (a b: atom) : bool :=
  match a, b with
  | APar p, APar q => String.eqb p q
  | AAssoc p t i, AAssoc q u j => String.eqb p q && String.eqb t u && String.eqb i j
  | ANever _, ANever _ => true
  | _, _ => false
  end.
Definition pred_eqb (x y: pred) := atom_eqb (fst x) (fst y) && Bool.eqb (snd x) (snd y).
Definition subset (a b: list pred) := forallb (fun x => existsb (pred_eqb x) b) a.
Definition same_set (a b: list pred) := subset a b && subset b a.
(* the property: a type needs nothing but "this child (or its output) is Send", resp. Sync *)
Definition only_children (send: bool) (ps: list pred) : bool :=
  forallb (fun x => match fst x with ANever _ => false | _ => Bool.eqb (snd x) send end) ps.

(* one row of the table the translator generates from the source: a type of the crate, a trait (send = true: Send, false: Sync), its field
   structure, and what rustc synthesized for it (polarity, where-clause predicates, and whether those could be read completely) *)
Record entry := mk_entry { e_id : nat; e_name : string; e_send : bool; e_ty : ty; e_neg : bool; e_rustc : list pred; e_parsed : bool }.
Definition has_never (ps: list pred) : bool := existsb (fun x => match fst x with ANever _ => true | _ => false end) ps.
(* the Coq rule table and rustc agree on this type: same polarity and - when rustc's where-clauses were read completely - the same predicate set *)
Definition agrees (e: entry) : bool :=
  let ps := needs (e_send e) (e_ty e) in
  if e_neg e then has_never ps
  else negb (has_never ps) && (negb (e_parsed e) || same_set ps (e_rustc e)).
(* ... and the type satisfies the property: it needs nothing but "child / child output is Send" (resp. Sync), rustc's impl is positive *)
Definition entry_ok (e: entry) : bool :=
  agrees e && negb (e_neg e) && only_children (e_send e) (needs (e_send e) (e_ty e)) && only_children (e_send e) (e_rustc e).

(* every type of the crate (ordinals 0 .. n-1) has an entry for Send and an entry for Sync: nothing is left undecided *)
Definition complete_b (n: nat) (tbl: list entry) : bool :=
  forallb (fun i => existsb (fun e => Nat.eqb (e_id e) i && e_send e) tbl && existsb (fun e => Nat.eqb (e_id e) i && negb (e_send e)) tbl) (seq 0 n).
